(* C13 -- the inductive invariant of the slot ring and its preservation by every step.
   For ALL n >= 3, R >= 1, W, all lists of enabled positions (each below bmax). *)
From Coq Require Import Arith List Bool Lia.
From Snap.Ring Require Import RingModel RingBase.
Import ListNotations.

Section Inv.
Variable P : params.
Hypothesis Hn : 3 <= pn P.
Hypothesis HR : 1 <= pR P.
Hypothesis Hposs : Forall (fun p => p < bmax P) (poss P).

Notation n := (pn P).
Notation R := (pR P).
Notation W := (pW P).
Notation L := (length (poss P)).

Definition run_t (p : nat) : task := if p <? bmax P then Running p else Empty p.
Definition fin_t (p : nat) : task := if p <? bmax P then Done p else Empty p.
Definition wsched (e : nat * bool) : task := if snd e then Empty (fst e) else Ready (fst e).
Definition wcur_t (run : bool) (e : nat * bool) : task :=
  if snd e then Empty (fst e) else if run then Running (fst e) else Done (fst e).
Definition edflt : nat * bool := (0, true).
Definition nonskip (l : list (nat * bool)) : list nat := map fst (filter (fun e => negb (snd e)) l).
Definition M (st : state) : nat := length (written st).
Definition wr_at (st : state) (m : nat) : nat * bool := nth m (written st) edflt.

(* sequence numbers: the k-th io_position_next (k = 0, 1, ...) is scheduled in slot k mod n; next_k = K is the
   number of calls so far, so slots hold the sequence numbers K-n .. K-1; reader w is on sequence number
   wseq w; the m-th io_write_next goes to slot m mod n; writer w has taken wseq w tasks. *)

Record reader_ok (st : state) (w : nat) : Prop := {
  ro_idx : widx (rget st w) = wseq (rget st w) mod n;
  ro_lo : wseq (rget st w) + 1 <= next_k st;
  ro_hi : next_k st <= wseq (rget st w) + n;
  ro_fresh : (cpc st = CNext \/ (cpc st = CWork /\ ~ In w (rlist st))) -> next_k st + 1 <= wseq (rget st w) + n;
  ro_pending : forall q, wseq (rget st w) < q < next_k st -> get2 (rtask st) (q mod n) w = sched P (pos_at P q);
  ro_cur : get2 (rtask st) (wseq (rget st w) mod n) w =
           if is_pc (wpcs (rget st w)) PRun then run_t (pos_at P (wseq (rget st w))) else fin_t (pos_at P (wseq (rget st w)));
  ro_old : forall q, q < wseq (rget st w) -> next_k st <= q + n -> get2 (rtask st) (q mod n) w = fin_t (pos_at P q);
  ro_blocked : wpcs (rget st w) = PBlocked -> done st = false /\ wseq (rget st w) + 1 = next_k st;
  ro_exit : wpcs (rget st w) = PExit -> done st = true
}.

Record writer_ok (st : state) (w : nat) : Prop := {
  wo_idx : widx (wget st w) = (wseq (wget st w) + n - 1) mod n;
  wo_lo : wseq (wget st w) <= M st;
  wo_hi : M st + 2 <= wseq (wget st w) + n;
  wo_coll : cpc st = CWork -> ~ In w (wlist st) -> M st + 3 <= wseq (wget st w) + n;
  wo_pending : forall m, wseq (wget st w) <= m < M st -> get2 (wtask st) (m mod n) w = wsched (wr_at st m);
  wo_cur : 1 <= wseq (wget st w) ->
           get2 (wtask st) ((wseq (wget st w) - 1) mod n) w =
           wcur_t (is_pc (wpcs (wget st w)) PRun) (wr_at st (wseq (wget st w) - 1));
  wo_run : wpcs (wget st w) = PRun -> 1 <= wseq (wget st w) /\ snd (wr_at st (wseq (wget st w) - 1)) = false;
  wo_blocked : wpcs (wget st w) = PBlocked -> done st = false /\ wseq (wget st w) = M st;
  wo_exit : wpcs (wget st w) = PExit -> done st = true /\ wseq (wget st w) = M st;
  wo_got : rev (get [] (wgot st) w) = nonskip (firstn (wseq (wget st w)) (written st))
}.

Definition stopped (st : state) : Prop := cpc st = CStopping \/ cpc st = CJoining \/ cpc st = CEnd.

Record caller_ok (st : state) : Prop := {
  co_r : r_idx st = next_k st mod n;
  co_K : n <= next_k st + 1;
  co_Kmax : next_k st <= L + n;
  co_w : w_idx st = M st mod n;
  co_work : cpc st = CWork -> n <= next_k st /\ cur st = pos_at P (next_k st - n) /\ cur st < bmax P /\
                              (0 < W -> M st + n = next_k st);
  co_next : cpc st = CNext -> rlist st = [] /\ cwait st = NotWaiting /\ (0 < W -> M st + n = next_k st + 1) /\
            (forall w, w < W -> In w (wlist st));
  co_M0 : W = 0 -> M st = 0;
  co_rlist : forall w, In w (rlist st) -> w < R;
  co_wlist : forall w, In w (wlist st) -> w < W;
  co_wlen : length (wlist st) <= W;
  co_wait_r : forall b c, cwait st = OnReadDone b c ->
              cpc st = CWork /\ (exists w, In w (rlist st) /\ in_range b c w = true) /\
              forall w, In w (rlist st) -> in_range b c w = true -> wseq (rget st w) + n = next_k st;
  co_wait_w : cwait st = OnWriteDone ->
              cpc st = CWork /\ rlist st = [] /\ wlist st <> [] /\
              forall w, In w (wlist st) -> wseq (wget st w) + n = M st + 2;
  co_done : done st = true <-> (cpc st = CJoining \/ cpc st = CEnd);
  co_handed : handed st = rev (map (pos_at P) (seq 0 (length (handed st))));
  co_hlen : length (handed st) <= L;
  co_hwork : cpc st = CWork \/ cpc st = CNext -> length (handed st) + n = next_k st + 1;
  co_hM : M st <= length (handed st);
  co_stop : stopped st -> bailed st = false -> length (handed st) = L /\ (0 < W -> M st = L);
  co_written : map fst (written st) = map (pos_at P) (seq 0 (M st));
  co_end : cpc st = CEnd -> (forall w, w < R -> wpcs (rget st w) = PExit) /\ (forall w, w < W -> wpcs (wget st w) = PExit)
}.

Record RingInv (st : state) : Prop := {
  ri_caller : caller_ok st;
  ri_readers : forall w, w < R -> reader_ok st w;
  ri_writers : forall w, w < W -> writer_ok st w
}.

(* ---------------------------------------------------------------------------------------------- *)
(* frames *)

Lemma reader_ok_frame : forall st st' w,
  rget st' w = rget st w -> (forall s, get2 (rtask st') s w = get2 (rtask st) s w) ->
  next_k st' = next_k st -> done st' = done st ->
  ((cpc st' = CNext \/ (cpc st' = CWork /\ ~ In w (rlist st'))) -> (cpc st = CNext \/ (cpc st = CWork /\ ~ In w (rlist st)))) ->
  reader_ok st w -> reader_ok st' w.
Proof.
  intros st st' w Hg Ht Hk Hd Hf [].
  constructor; rewrite ?Hg, ?Ht, ?Hk, ?Hd; auto.
  - intros q Hq. rewrite ?Ht. auto.
  - intros q Hq Hq'. rewrite ?Ht. auto.
Qed.

Lemma writer_ok_frame : forall st st' w,
  wget st' w = wget st w -> (forall s, get2 (wtask st') s w = get2 (wtask st) s w) ->
  written st' = written st -> done st' = done st ->
  (cpc st' = CWork -> ~ In w (wlist st') -> cpc st = CWork /\ ~ In w (wlist st)) ->
  get [] (wgot st') w = get [] (wgot st) w ->
  writer_ok st w -> writer_ok st' w.
Proof.
  intros st st' w Hg Ht Hw Hd Hc Hgot [].
  assert (HM : M st' = M st) by (unfold M; rewrite Hw; reflexivity).
  assert (Hat : forall m, wr_at st' m = wr_at st m) by (intro; unfold wr_at; rewrite Hw; reflexivity).
  constructor; rewrite ?Hg, ?Ht, ?HM, ?Hd, ?Hat, ?Hgot, ?Hw; auto.
  - intros A B. destruct (Hc A B). auto.
  - intros m Hm. rewrite ?Ht, ?Hat. auto.
Qed.

Lemma reader_ok_frame2 : forall st st' w,
  rget st' w = rget st w -> (forall s, get2 (rtask st') s w = get2 (rtask st) s w) ->
  next_k st' = next_k st -> done st' = done st ->
  ((cpc st' = CNext \/ (cpc st' = CWork /\ ~ In w (rlist st'))) -> next_k st + 1 <= wseq (rget st w) + n) ->
  reader_ok st w -> reader_ok st' w.
Proof.
  intros st st' w Hg Ht Hk Hd Hf [].
  constructor; rewrite ?Hg, ?Ht, ?Hk, ?Hd; auto.
  - intros q Hq. rewrite ?Ht. auto.
  - intros q Hq Hq'. rewrite ?Ht. auto.
Qed.

Lemma writer_ok_frame2 : forall st st' w,
  wget st' w = wget st w -> (forall s, get2 (wtask st') s w = get2 (wtask st) s w) ->
  written st' = written st -> done st' = done st ->
  (cpc st' = CWork -> ~ In w (wlist st') -> M st + 3 <= wseq (wget st w) + n) ->
  get [] (wgot st') w = get [] (wgot st) w ->
  writer_ok st w -> writer_ok st' w.
Proof.
  intros st st' w Hg Ht Hw Hd Hc Hgot [].
  assert (HM : M st' = M st) by (unfold M; rewrite Hw; reflexivity).
  assert (Hat : forall m, wr_at st' m = wr_at st m) by (intro; unfold wr_at; rewrite Hw; reflexivity).
  constructor; rewrite ?Hg, ?Ht, ?HM, ?Hd, ?Hat, ?Hgot, ?Hw; auto.
  intros m Hm. rewrite ?Ht, ?Hat. auto.
Qed.

Lemma unblock_idx : forall ws, widx (unblock ws) = widx ws.
Proof. intros [i [] s]; reflexivity. Qed.
Lemma unblock_seq : forall ws, wseq (unblock ws) = wseq ws.
Proof. intros [i [] s]; reflexivity. Qed.
Lemma unblock_run : forall ws, is_pc (wpcs (unblock ws)) PRun = is_pc (wpcs ws) PRun.
Proof. intros [i [] s]; reflexivity. Qed.
Lemma unblock_not_blocked : forall ws, wpcs (unblock ws) <> PBlocked.
Proof. intros [i [] s]; simpl; congruence. Qed.
Lemma unblock_exit : forall ws, wpcs (unblock ws) = PExit -> wpcs ws = PExit.
Proof. intros [i [] s]; simpl; congruence. Qed.
Lemma unblock_pc_run : forall ws, wpcs (unblock ws) = PRun -> wpcs ws = PRun.
Proof. intros [i [] s]; simpl; congruence. Qed.

(* ---------------------------------------------------------------------------------------------- *)
(* the initial state *)

Lemma run_of_sched : forall p, run_of (sched P p) = run_t p.
Proof. intros. unfold sched, run_t. destruct (p <? bmax P); reflexivity. Qed.

Lemma inv_init : RingInv (init P).
Proof.
  assert (Hn0 : n <> 0) by lia.
  constructor.
  - constructor; unfold init, M, stopped; simpl; try discriminate; try tauto; try lia.
    + symmetry. apply Nat.mod_small. lia.
    + symmetry. apply Nat.mod_0_l. lia.
    + intros _. repeat split; auto; intros; [lia|rewrite in_seq; lia].
    + intros w Hw. rewrite in_seq in Hw. lia.
    + rewrite seq_length. lia.
    + split; [discriminate|]. intros [?|?]; discriminate.
    + intros [?|[?|?]]; discriminate.
  - intros w Hw.
    assert (G : rget (init P) w = mkW 0 PRun 0) by (unfold rget, init; simpl; apply get_repeat; exact Hw).
    assert (T : forall s, s < n - 1 -> get2 (rtask (init P)) s w =
                 if s =? 0 then run_of (sched P (pos_at P s)) else sched P (pos_at P s)).
    { intros s Hs. unfold get2, init; simpl. rewrite get_map_seq by exact Hs. apply get_repeat. exact Hw. }
    constructor; rewrite ?G; simpl; try discriminate.
    + symmetry. apply Nat.mod_0_l. lia.
    + lia.
    + lia.
    + intros _. lia.
    + intros q Hq. rewrite Nat.mod_small by lia. rewrite T by lia.
      destruct (Nat.eqb_spec q 0); [lia|reflexivity].
    + rewrite Nat.mod_0_l by lia. rewrite T by lia. simpl. apply run_of_sched.
    + intros; lia.
  - intros w Hw.
    assert (G : wget (init P) w = mkW (n - 1) PStep 0) by (unfold wget, init; simpl; apply get_repeat; exact Hw).
    constructor; rewrite ?G; unfold M; simpl; try discriminate; try lia.
    + symmetry. apply Nat.mod_small. lia.
    + unfold get. destruct w; reflexivity.
Qed.

(* ---------------------------------------------------------------------------------------------- *)
(* generic preservation for a step of reader w / writer w *)

Lemma inv_upd_reader : forall st w ws' rtask' cw,
  RingInv st -> w < R ->
  (forall w' s, w' <> w -> get2 rtask' s w' = get2 (rtask st) s w') ->
  reader_ok (upd_reader st (set wdflt (rd st) w ws') rtask' cw) w ->
  (cpc st = CNext -> cw = NotWaiting) ->
  (forall b c, cw = OnReadDone b c ->
     cwait st = OnReadDone b c /\ (In w (rlist st) -> in_range b c w = true -> wseq ws' + n = next_k st)) ->
  (cw = OnWriteDone -> cwait st = OnWriteDone) ->
  (cpc st = CEnd -> wpcs ws' = PExit) ->
  RingInv (upd_reader st (set wdflt (rd st) w ws') rtask' cw).
Proof.
  intros st w ws' rtask' cw [Ic Ir Iw] Hw Ht Hro Hnext Hwr Hww Hend.
  assert (Gs : rget (upd_reader st (set wdflt (rd st) w ws') rtask' cw) w = ws')
    by (unfold rget, upd_reader; simpl; apply get_set_eq).
  assert (Go : forall w', w' <> w -> rget (upd_reader st (set wdflt (rd st) w ws') rtask' cw) w' = rget st w')
    by (intros; unfold rget, upd_reader; simpl; apply get_set_neq; auto).
  constructor.
  - destruct Ic. constructor; unfold M, stopped in *; simpl; auto.
    + intros C. destruct (co_next0 C) as (A & B & D). auto.
    + intros b c E. destruct (Hwr b c E) as [E' Hin]. destruct (co_wait_r0 b c E') as (A & B & D).
      split; [exact A|]. split; [exact B|]. intros w0 H0 H1.
      destruct (Nat.eq_dec w0 w) as [->|N].
      * rewrite Gs. auto.
      * rewrite Go by exact N. auto.
    + intros C. destruct (co_end0 C) as [A B]. split; [|exact B].
      intros w0 H0. destruct (Nat.eq_dec w0 w) as [->|N].
      * rewrite Gs. auto.
      * rewrite Go by exact N. auto.
  - intros w0 H0. destruct (Nat.eq_dec w0 w) as [->|N]; [exact Hro|].
    apply reader_ok_frame with (st := st); auto; simpl; intros s; apply Ht; exact N.
  - intros w0 H0. apply writer_ok_frame with (st := st); auto.
Qed.

Lemma inv_upd_writer : forall st w ws' wtask' cw wgot',
  RingInv st -> w < W ->
  (forall w' s, w' <> w -> get2 wtask' s w' = get2 (wtask st) s w') ->
  (forall w', w' <> w -> get [] wgot' w' = get [] (wgot st) w') ->
  writer_ok (upd_writer st (set wdflt (wr st) w ws') wtask' cw wgot') w ->
  (cpc st = CNext -> cw = NotWaiting) ->
  (forall b c, cw = OnReadDone b c -> cwait st = OnReadDone b c) ->
  (cw = OnWriteDone ->
     cwait st = OnWriteDone /\ (In w (wlist st) -> wseq ws' + n = M st + 2)) ->
  (cpc st = CEnd -> wpcs ws' = PExit) ->
  RingInv (upd_writer st (set wdflt (wr st) w ws') wtask' cw wgot').
Proof.
  intros st w ws' wtask' cw wgot' [Ic Ir Iw] Hw Ht Hg Hwo Hnext Hwr Hww Hend.
  assert (Gs : wget (upd_writer st (set wdflt (wr st) w ws') wtask' cw wgot') w = ws')
    by (unfold wget, upd_writer; simpl; apply get_set_eq).
  assert (Go : forall w', w' <> w -> wget (upd_writer st (set wdflt (wr st) w ws') wtask' cw wgot') w' = wget st w')
    by (intros; unfold wget, upd_writer; simpl; apply get_set_neq; auto).
  constructor.
  - destruct Ic. constructor; unfold M, stopped in *; simpl; auto.
    + intros C. destruct (co_next0 C) as (A & B & D). auto.
    + intros E. destruct (Hww E) as [E' Hin]. destruct (co_wait_w0 E') as (A & B & C & D).
      split; [exact A|]. split; [exact B|]. split; [exact C|]. intros w0 H0.
      destruct (Nat.eq_dec w0 w) as [->|N].
      * rewrite Gs. auto.
      * rewrite Go by exact N. auto.
    + intros C. destruct (co_end0 C) as [A B]. split; [exact A|].
      intros w0 H0. destruct (Nat.eq_dec w0 w) as [->|N].
      * rewrite Gs. auto.
      * rewrite Go by exact N. auto.
  - intros w0 H0. apply reader_ok_frame with (st := st); auto.
  - intros w0 H0. destruct (Nat.eq_dec w0 w) as [->|N]; [exact Hwo|].
    apply writer_ok_frame with (st := st); auto; simpl; intros; (apply Ht || apply Hg); exact N.
Qed.

(* ---------------------------------------------------------------------------------------------- *)
(* reader steps *)

Lemma rget_upd_eq : forall st w ws' t c, rget (upd_reader st (set wdflt (rd st) w ws') t c) w = ws'.
Proof. intros. unfold rget, upd_reader; simpl. apply get_set_eq. Qed.
Lemma wget_upd_eq : forall st w ws' t c g, wget (upd_writer st (set wdflt (wr st) w ws') t c g) w = ws'.
Proof. intros. unfold wget, upd_writer; simpl. apply get_set_eq. Qed.

Ltac grd H G :=
  match type of H with
  | (if negb ?b then None else _) = Some _ => destruct b eqn:G; [cbn [negb] in H|discriminate H]
  | (if ?b then None else _) = Some _ => destruct b eqn:G; [discriminate H|]
  end.

Lemma inv_RTake : forall st st' w, RingInv st -> step P st (RTake w) = Some st' -> RingInv st'.
Proof.
  intros st st' w I H. unfold step in H. cbv zeta in H.
  grd H Gw. grd H Gpc. grd H Gd. grd H Gn.
  apply Nat.ltb_lt in Gw. apply is_pc_eq in Gpc. apply Nat.eqb_neq in Gn.
  pose proof (ri_caller st I) as Ic.
  destruct (ri_readers st I w Gw) as [ro_idx ro_lo ro_hi ro_fresh ro_pending ro_cur ro_old ro_blocked ro_exit].
  remember (wseq (rget st w)) as j eqn:Ej.
  assert (Hn0 : n <> 0) by lia.
  assert (Enext : (widx (rget st w) + 1) mod n = (j + 1) mod n) by (rewrite ro_idx; apply succ_mod; exact Hn0).
  rewrite Enext in *.
  assert (Hj : j + 2 <= next_k st).
  { destruct (Nat.eq_dec (j + 1) (next_k st)) as [E|E]; [|lia]. exfalso. apply Gn. rewrite E. symmetry. apply (co_r st Ic). }
  assert (T : get2 (rtask st) ((j + 1) mod n) w = sched P (pos_at P (j + 1))) by (apply ro_pending; lia).
  rewrite T in H. unfold sched in H.
  replace (S j) with (j + 1) in H by lia.
  (* facts about the signal *)
  remember (if widx (rget st w) =? r_idx st
            then match cwait st with OnReadDone _ _ => NotWaiting | c => c end else cwait st) as cw eqn:Ecw.
  assert (C1 : cpc st = CNext -> cw = NotWaiting).
  { intros C. destruct (co_next st Ic C) as (_ & B & _). rewrite Ecw, B. destruct (_ =? _); reflexivity. }
  assert (C2 : forall b c, cw = OnReadDone b c ->
            cwait st = OnReadDone b c /\ (In w (rlist st) -> in_range b c w = true -> (j + 1) + n = next_k st)).
  { intros b c E. rewrite Ecw in E. destruct (widx (rget st w) =? r_idx st) eqn:Q.
    - destruct (cwait st); discriminate.
    - split; [exact E|]. intros Hin Hr. exfalso.
      destruct (co_wait_r st Ic b c E) as (_ & _ & D). specialize (D w Hin Hr). rewrite <- Ej in D.
      apply Nat.eqb_neq in Q. apply Q. rewrite ro_idx, (co_r st Ic), <- D. symmetry. apply mod_plus_n. exact Hn0. }
  assert (C3 : cw = OnWriteDone -> cwait st = OnWriteDone).
  { intros E. rewrite Ecw in E. destruct (_ =? _); [|exact E]. destruct (cwait st); try discriminate; reflexivity. }
  assert (C4 : cpc st = CEnd -> False).
  { intros C. destruct (co_end st Ic C) as [A _]. specialize (A w Gw). congruence. }
  destruct (pos_at P (j + 1) <? bmax P) eqn:Eb; inversion H; subst st'; clear H.
  - apply inv_upd_reader; simpl; auto.
    + intros. apply get2_set2_neq. right. auto.
    + constructor; rewrite ?rget_upd_eq; simpl; try discriminate; try lia; auto.
      * intros q Hq. rewrite get2_set2_neq by (left; apply mod_window_neq; lia). apply ro_pending. lia.
      * rewrite get2_set2_eq. unfold run_t. rewrite Eb. reflexivity.
      * intros q Hq Hq'. rewrite get2_set2_neq by (left; apply not_eq_sym; apply mod_window_neq; lia).
        destruct (Nat.eq_dec q j) as [->|N].
        -- rewrite ro_cur, Gpc. reflexivity.
        -- apply ro_old; lia.
    + intros C; destruct (C4 C).
  - apply inv_upd_reader; simpl; auto; [|intros C; destruct (C4 C)].
    constructor; rewrite ?rget_upd_eq; simpl; try discriminate; try lia; auto.
    + intros q Hq. apply ro_pending. lia.
    + rewrite T. unfold sched, fin_t. rewrite Eb. reflexivity.
    + intros q Hq Hq'. destruct (Nat.eq_dec q j) as [->|N].
      * rewrite ro_cur, Gpc. reflexivity.
      * apply ro_old; lia.
Qed.

Lemma inv_REnd : forall st st' w, RingInv st -> step P st (REnd w) = Some st' -> RingInv st'.
Proof.
  intros st st' w I H. unfold step in H. cbv zeta in H.
  grd H Gw. grd H Gpc.
  apply Nat.ltb_lt in Gw. apply is_pc_eq in Gpc.
  pose proof (ri_caller st I) as Ic.
  destruct (ri_readers st I w Gw) as [ro_idx ro_lo ro_hi ro_fresh ro_pending ro_cur ro_old ro_blocked ro_exit].
  remember (wseq (rget st w)) as j eqn:Ej.
  assert (C4 : cpc st = CEnd -> False).
  { intros C. destruct (co_end st Ic C) as [A _]. specialize (A w Gw). congruence. }
  assert (C2 : forall b c, cwait st = OnReadDone b c ->
            cwait st = OnReadDone b c /\ (In w (rlist st) -> in_range b c w = true -> j + n = next_k st)).
  { intros b c E. split; [exact E|]. intros. rewrite Ej. apply (co_wait_r st Ic b c E); auto. }
  assert (C1 : cpc st = CNext -> cwait st = NotWaiting) by (intros C; apply (co_next st Ic C)).
  rewrite ro_idx in H. rewrite ro_cur, Gpc in H. simpl in H. unfold run_t in H.
  destruct (pos_at P j <? bmax P) eqn:Eb; inversion H; subst st'; clear H.
  - apply inv_upd_reader; simpl; auto; [| |intros C; destruct (C4 C)].
    + intros. apply get2_set2_neq. right. auto.
    + constructor; rewrite ?rget_upd_eq; simpl; try discriminate; try lia; auto.
      * intros q Hq. rewrite get2_set2_neq by (left; apply mod_window_neq; lia). apply ro_pending. lia.
      * rewrite get2_set2_eq. unfold fin_t. rewrite Eb. reflexivity.
      * intros q Hq Hq'. rewrite get2_set2_neq by (left; apply not_eq_sym; apply mod_window_neq; lia).
        apply ro_old; lia.
  - apply inv_upd_reader; simpl; auto; [|intros C; destruct (C4 C)].
    constructor; rewrite ?rget_upd_eq; simpl; try discriminate; try lia; auto.
    rewrite ro_cur, Gpc. simpl. unfold run_t, fin_t. rewrite Eb. reflexivity.
Qed.

Lemma inv_RWait : forall st st' w, RingInv st -> step P st (RWait w) = Some st' -> RingInv st'.
Proof.
  intros st st' w I H. unfold step in H. cbv zeta in H.
  grd H Gw. grd H Gpc. grd H Gd. grd H Gn.
  apply Nat.ltb_lt in Gw. apply is_pc_eq in Gpc. apply Nat.eqb_eq in Gn.
  pose proof (ri_caller st I) as Ic.
  destruct (ri_readers st I w Gw) as [ro_idx ro_lo ro_hi ro_fresh ro_pending ro_cur ro_old ro_blocked ro_exit].
  remember (wseq (rget st w)) as j eqn:Ej.
  assert (Hn0 : n <> 0) by lia.
  assert (C4 : cpc st = CEnd -> False).
  { intros C. destruct (co_end st Ic C) as [A _]. specialize (A w Gw). congruence. }
  assert (C2 : forall b c, cwait st = OnReadDone b c ->
            cwait st = OnReadDone b c /\ (In w (rlist st) -> in_range b c w = true -> j + n = next_k st)).
  { intros b c E. split; [exact E|]. intros. rewrite Ej. apply (co_wait_r st Ic b c E); auto. }
  assert (C1 : cpc st = CNext -> cwait st = NotWaiting) by (intros C; apply (co_next st Ic C)).
  assert (Hj : j + 1 = next_k st).
  { rewrite ro_idx, succ_mod, (co_r st Ic) in Gn by exact Hn0. apply mod_window_eq in Gn; lia. }
  inversion H; subst st'; clear H.
  apply inv_upd_reader; simpl; auto; [|intros C; destruct (C4 C)].
  constructor; rewrite ?rget_upd_eq; simpl; try discriminate; try lia; auto.
  rewrite ro_cur, Gpc. reflexivity.
Qed.

Lemma inv_RExit : forall st st' w, RingInv st -> step P st (RExit w) = Some st' -> RingInv st'.
Proof.
  intros st st' w I H. unfold step in H. cbv zeta in H.
  grd H Gw. grd H Gpc. grd H Gd.
  apply Nat.ltb_lt in Gw. apply is_pc_eq in Gpc.
  pose proof (ri_caller st I) as Ic.
  destruct (ri_readers st I w Gw) as [ro_idx ro_lo ro_hi ro_fresh ro_pending ro_cur ro_old ro_blocked ro_exit].
  remember (wseq (rget st w)) as j eqn:Ej.
  assert (C2 : forall b c, cwait st = OnReadDone b c ->
            cwait st = OnReadDone b c /\ (In w (rlist st) -> in_range b c w = true -> j + n = next_k st)).
  { intros b c E. split; [exact E|]. intros. rewrite Ej. apply (co_wait_r st Ic b c E); auto. }
  assert (C1 : cpc st = CNext -> cwait st = NotWaiting) by (intros C; apply (co_next st Ic C)).
  inversion H; subst st'; clear H.
  apply inv_upd_reader; simpl; auto.
  constructor; rewrite ?rget_upd_eq; simpl; try discriminate; try lia; auto.
  rewrite ro_cur, Gpc. reflexivity.
Qed.

Lemma inv_RSpur : forall st st' w, RingInv st -> step P st (RSpur w) = Some st' -> RingInv st'.
Proof.
  intros st st' w I H. unfold step in H. cbv zeta in H.
  grd H Gw. grd H Gpc.
  apply Nat.ltb_lt in Gw. apply is_pc_eq in Gpc.
  pose proof (ri_caller st I) as Ic.
  destruct (ri_readers st I w Gw) as [ro_idx ro_lo ro_hi ro_fresh ro_pending ro_cur ro_old ro_blocked ro_exit].
  remember (wseq (rget st w)) as j eqn:Ej.
  assert (C4 : cpc st = CEnd -> False).
  { intros C. destruct (co_end st Ic C) as [A _]. specialize (A w Gw). congruence. }
  assert (C2 : forall b c, cwait st = OnReadDone b c ->
            cwait st = OnReadDone b c /\ (In w (rlist st) -> in_range b c w = true -> j + n = next_k st)).
  { intros b c E. split; [exact E|]. intros. rewrite Ej. apply (co_wait_r st Ic b c E); auto. }
  assert (C1 : cpc st = CNext -> cwait st = NotWaiting) by (intros C; apply (co_next st Ic C)).
  inversion H; subst st'; clear H.
  apply inv_upd_reader; simpl; auto; [|intros C; destruct (C4 C)].
  constructor; rewrite ?rget_upd_eq; simpl; try discriminate; try lia; auto.
  rewrite ro_cur, Gpc. reflexivity.
Qed.

(* ---------------------------------------------------------------------------------------------- *)
(* writer steps *)

Lemma firstn_succ : forall A (d : A) l v, v < length l -> firstn (S v) l = firstn v l ++ [nth v l d].
Proof.
  intros A d l. induction l; intros v H; simpl in H; [lia|].
  destruct v; [reflexivity|]. change (a :: firstn (S v) l = a :: (firstn v l ++ [nth v l d])).
  f_equal. apply IHl. lia.
Qed.

Lemma nonskip_app : forall l e, nonskip (l ++ [e]) = nonskip l ++ (if snd e then [] else [fst e]).
Proof.
  intros. unfold nonskip. rewrite filter_app, map_app. simpl. destruct (snd e); reflexivity.
Qed.

Lemma widx_next : forall v, ((v + n - 1) mod n + 1) mod n = v mod n.
Proof.
  intros. assert (Hn0 : n <> 0) by lia. rewrite succ_mod by exact Hn0.
  replace (v + n - 1 + 1) with (v + n) by lia. apply mod_plus_n. exact Hn0.
Qed.

Lemma widx_prev : forall v, 1 <= v -> (v + n - 1) mod n = (v - 1) mod n.
Proof.
  intros. assert (Hn0 : n <> 0) by lia. replace (v + n - 1) with (v - 1 + n) by lia. apply mod_plus_n. exact Hn0.
Qed.

Lemma inv_WTake : forall st st' w, RingInv st -> step P st (WTake w) = Some st' -> RingInv st'.
Proof.
  intros st st' w I H. unfold step in H. cbv zeta in H.
  grd H Gw. grd H Gpc. grd H Gn.
  apply Nat.ltb_lt in Gw. apply is_pc_eq in Gpc. apply Nat.eqb_neq in Gn.
  pose proof (ri_caller st I) as Ic.
  destruct (ri_writers st I w Gw) as [wo_idx wo_lo wo_hi wo_coll wo_pending wo_cur wo_run wo_blocked wo_exit wo_got].
  remember (wseq (wget st w)) as v eqn:Ev.
  assert (Hn0 : n <> 0) by lia.
  assert (Enext : (widx (wget st w) + 1) mod n = v mod n) by (rewrite wo_idx; apply widx_next).
  rewrite Enext in *.
  assert (Hv : v + 1 <= M st).
  { destruct (Nat.eq_dec v (M st)) as [E|E]; [|lia]. exfalso. apply Gn. rewrite E. symmetry. apply (co_w st Ic). }
  assert (T : get2 (wtask st) (v mod n) w = wsched (wr_at st v)) by (apply wo_pending; lia).
  rewrite T in H. unfold wsched in H.
  replace (S v) with (v + 1) in H by lia.
  remember (if widx (wget st w) =? (w_idx st + 1) mod n
            then match cwait st with OnWriteDone => NotWaiting | c => c end else cwait st) as cw eqn:Ecw.
  assert (C1 : cpc st = CNext -> cw = NotWaiting).
  { intros C. destruct (co_next st Ic C) as (_ & B & _). rewrite Ecw, B. destruct (_ =? _); reflexivity. }
  assert (C2 : forall b c, cw = OnReadDone b c -> cwait st = OnReadDone b c).
  { intros b c E. rewrite Ecw in E. destruct (_ =? _); [|exact E]. destruct (cwait st); try discriminate; exact E. }
  assert (C3 : cw = OnWriteDone -> cwait st = OnWriteDone /\ (In w (wlist st) -> v + 1 + n = M st + 2)).
  { intros E. rewrite Ecw in E. destruct (widx (wget st w) =? (w_idx st + 1) mod n) eqn:Q.
    - destruct (cwait st); discriminate.
    - split; [exact E|]. intros Hin. exfalso.
      destruct (co_wait_w st Ic E) as (_ & _ & _ & D). specialize (D w Hin). rewrite <- Ev in D.
      apply Nat.eqb_neq in Q. apply Q. rewrite wo_idx, (co_w st Ic), succ_mod by exact Hn0.
      f_equal. lia. }
  assert (C4 : cpc st = CEnd -> False).
  { intros C. destruct (co_end st Ic C) as [_ A]. specialize (A w Gw). congruence. }
  assert (Fs : firstn (v + 1) (written st) = firstn v (written st) ++ [wr_at st v]).
  { replace (v + 1) with (S v) by lia. apply firstn_succ. unfold M in Hv. lia. }
  destruct (snd (wr_at st v)) eqn:Es; inversion H; subst st'; clear H.
  - apply inv_upd_writer; simpl; auto; [|intros C; destruct (C4 C)].
    constructor; rewrite ?wget_upd_eq; unfold M, wr_at in *; simpl; try discriminate; try lia; auto.
    + replace (v + 1 + n - 1) with (v + n) by lia. symmetry. apply mod_plus_n. exact Hn0.
    + intros m Hm. apply wo_pending. lia.
    + intros _. replace (v + 1 - 1) with v by lia. rewrite T. unfold wsched, wcur_t. rewrite Es. reflexivity.
    + rewrite Fs, nonskip_app, Es, app_nil_r. exact wo_got.
  - apply inv_upd_writer; simpl; auto; [| | | intros C; destruct (C4 C)].
    + intros. apply get2_set2_neq. right. auto.
    + intros. apply get_set_neq. auto.
    + constructor; rewrite ?wget_upd_eq; unfold M, wr_at in *; simpl; try discriminate; try lia; auto.
      * replace (v + 1 + n - 1) with (v + n) by lia. symmetry. apply mod_plus_n. exact Hn0.
      * intros m Hm. rewrite get2_set2_neq by (left; apply mod_window_neq; lia). apply wo_pending. lia.
      * intros _. replace (v + 1 - 1) with v by lia. rewrite get2_set2_eq. unfold wcur_t. rewrite Es. reflexivity.
      * intros _. replace (v + 1 - 1) with v by lia. split; [lia|exact Es].
      * rewrite get_set_eq. simpl. rewrite wo_got, Fs, nonskip_app, Es. reflexivity.
Qed.

Lemma inv_WEnd : forall st st' w, RingInv st -> step P st (WEnd w) = Some st' -> RingInv st'.
Proof.
  intros st st' w I H. unfold step in H. cbv zeta in H.
  grd H Gw. grd H Gpc.
  apply Nat.ltb_lt in Gw. apply is_pc_eq in Gpc.
  pose proof (ri_caller st I) as Ic.
  destruct (ri_writers st I w Gw) as [wo_idx wo_lo wo_hi wo_coll wo_pending wo_cur wo_run wo_blocked wo_exit wo_got].
  remember (wseq (wget st w)) as v eqn:Ev.
  destruct (wo_run Gpc) as [Hv1 Es].
  assert (C1 : cpc st = CNext -> cwait st = NotWaiting) by (intros C; apply (co_next st Ic C)).
  assert (C3 : cwait st = OnWriteDone -> cwait st = OnWriteDone /\ (In w (wlist st) -> v + n = M st + 2)).
  { intros E. split; [exact E|]. intros. rewrite Ev. apply (co_wait_w st Ic E); auto. }
  assert (C4 : cpc st = CEnd -> False).
  { intros C. destruct (co_end st Ic C) as [_ A]. specialize (A w Gw). congruence. }
  rewrite wo_idx, widx_prev in H by exact Hv1. rewrite (wo_cur Hv1), Gpc in H. unfold wcur_t in H. rewrite Es in H.
  simpl in H. inversion H; subst st'; clear H.
  apply inv_upd_writer; simpl; auto; [| |intros C; destruct (C4 C)].
  - intros. apply get2_set2_neq. right. auto.
  - constructor; rewrite ?wget_upd_eq; unfold M, wr_at in *; simpl; try discriminate; try lia; auto.
    + symmetry. apply widx_prev. exact Hv1.
    + intros m Hm. rewrite get2_set2_neq by (left; apply mod_window_neq; lia). apply wo_pending. lia.
    + intros _. rewrite get2_set2_eq. unfold wcur_t. rewrite Es. reflexivity.
Qed.

Lemma inv_WWait : forall st st' w, RingInv st -> step P st (WWait w) = Some st' -> RingInv st'.
Proof.
  intros st st' w I H. unfold step in H. cbv zeta in H.
  grd H Gw. grd H Gpc. grd H Gn. grd H Gd.
  apply Nat.ltb_lt in Gw. apply is_pc_eq in Gpc. apply Nat.eqb_eq in Gn.
  pose proof (ri_caller st I) as Ic.
  destruct (ri_writers st I w Gw) as [wo_idx wo_lo wo_hi wo_coll wo_pending wo_cur wo_run wo_blocked wo_exit wo_got].
  remember (wseq (wget st w)) as v eqn:Ev.
  assert (C1 : cpc st = CNext -> cwait st = NotWaiting) by (intros C; apply (co_next st Ic C)).
  assert (C3 : cwait st = OnWriteDone -> cwait st = OnWriteDone /\ (In w (wlist st) -> v + n = M st + 2)).
  { intros E. split; [exact E|]. intros. rewrite Ev. apply (co_wait_w st Ic E); auto. }
  assert (C4 : cpc st = CEnd -> False).
  { intros C. destruct (co_end st Ic C) as [_ A]. specialize (A w Gw). congruence. }
  assert (Hv : v = M st).
  { rewrite wo_idx, widx_next, (co_w st Ic) in Gn. apply mod_window_eq in Gn; lia. }
  inversion H; subst st'; clear H.
  apply inv_upd_writer; simpl; auto; [|intros C; destruct (C4 C)].
  constructor; rewrite ?wget_upd_eq; unfold M, wr_at in *; simpl; try discriminate; try lia; auto.
  intros Hv1. rewrite (wo_cur Hv1), Gpc. reflexivity.
Qed.

Lemma inv_WExit : forall st st' w, RingInv st -> step P st (WExit w) = Some st' -> RingInv st'.
Proof.
  intros st st' w I H. unfold step in H. cbv zeta in H.
  grd H Gw. grd H Gpc. grd H Gn. grd H Gd.
  apply Nat.ltb_lt in Gw. apply is_pc_eq in Gpc. apply Nat.eqb_eq in Gn.
  pose proof (ri_caller st I) as Ic.
  destruct (ri_writers st I w Gw) as [wo_idx wo_lo wo_hi wo_coll wo_pending wo_cur wo_run wo_blocked wo_exit wo_got].
  remember (wseq (wget st w)) as v eqn:Ev.
  assert (C1 : cpc st = CNext -> cwait st = NotWaiting) by (intros C; apply (co_next st Ic C)).
  assert (C3 : cwait st = OnWriteDone -> cwait st = OnWriteDone /\ (In w (wlist st) -> v + n = M st + 2)).
  { intros E. split; [exact E|]. intros. rewrite Ev. apply (co_wait_w st Ic E); auto. }
  assert (Hv : v = M st).
  { rewrite wo_idx, widx_next, (co_w st Ic) in Gn. apply mod_window_eq in Gn; lia. }
  inversion H; subst st'; clear H.
  apply inv_upd_writer; simpl; auto.
  constructor; rewrite ?wget_upd_eq; unfold M, wr_at in *; simpl; try discriminate; try lia; auto.
  intros Hv1. rewrite (wo_cur Hv1), Gpc. reflexivity.
Qed.

Lemma inv_WSpur : forall st st' w, RingInv st -> step P st (WSpur w) = Some st' -> RingInv st'.
Proof.
  intros st st' w I H. unfold step in H. cbv zeta in H.
  grd H Gw. grd H Gpc.
  apply Nat.ltb_lt in Gw. apply is_pc_eq in Gpc.
  pose proof (ri_caller st I) as Ic.
  destruct (ri_writers st I w Gw) as [wo_idx wo_lo wo_hi wo_coll wo_pending wo_cur wo_run wo_blocked wo_exit wo_got].
  remember (wseq (wget st w)) as v eqn:Ev.
  assert (C1 : cpc st = CNext -> cwait st = NotWaiting) by (intros C; apply (co_next st Ic C)).
  assert (C3 : cwait st = OnWriteDone -> cwait st = OnWriteDone /\ (In w (wlist st) -> v + n = M st + 2)).
  { intros E. split; [exact E|]. intros. rewrite Ev. apply (co_wait_w st Ic E); auto. }
  assert (C4 : cpc st = CEnd -> False).
  { intros C. destruct (co_end st Ic C) as [_ A]. specialize (A w Gw). congruence. }
  inversion H; subst st'; clear H.
  apply inv_upd_writer; simpl; auto; [|intros C; destruct (C4 C)].
  constructor; rewrite ?wget_upd_eq; unfold M, wr_at in *; simpl; try discriminate; try lia; auto.
  intros Hv1. rewrite (wo_cur Hv1), Gpc. reflexivity.
Qed.

(* ---------------------------------------------------------------------------------------------- *)
(* caller steps *)

Lemma wscan_some : forall st busy l w, wscan st busy l = Some (Some w) -> In w l /\ widx (wget st w) <> busy.
Proof.
  intros st busy l w. induction l; simpl; intros H; [discriminate|].
  destruct (widx (wget st a) =? w_idx st); [discriminate|].
  destruct (widx (wget st a) =? busy) eqn:E; simpl in H.
  - destruct (IHl H). auto.
  - inversion H; subst. apply Nat.eqb_neq in E. auto.
Qed.

Lemma wscan_none : forall st busy l, wscan st busy l = Some None -> forall w, In w l -> widx (wget st w) = busy.
Proof.
  intros st busy l. induction l; simpl; intros H w Hw; [tauto|].
  destruct (widx (wget st a) =? w_idx st); [discriminate|].
  destruct (widx (wget st a) =? busy) eqn:E; simpl in H; [|discriminate].
  destruct Hw as [<-|Hw]; [apply Nat.eqb_eq; exact E|auto].
Qed.

Lemma wscan_total : forall st busy l, (forall w, In w l -> widx (wget st w) <> w_idx st) ->
  wscan st busy l = Some None \/ exists w, wscan st busy l = Some (Some w).
Proof.
  intros st busy l. induction l; simpl; intros H; [auto|].
  destruct (Nat.eqb_spec (widx (wget st a)) (w_idx st)) as [E|E]; [exfalso; apply (H a); auto|].
  destruct (widx (wget st a) =? busy); simpl; [apply IHl; auto|]. right. eauto.
Qed.

Lemma caller_upd_simple : forall st c' cw rl wl b,
  caller_ok st -> caller_ok (upd_caller st c' cw rl wl b) ->
  (forall w, w < R -> reader_ok st w ->
     ((c' = CNext \/ (c' = CWork /\ ~ In w rl)) -> next_k st + 1 <= wseq (rget st w) + n)) ->
  (forall w, w < W -> writer_ok st w -> (c' = CWork -> ~ In w wl -> M st + 3 <= wseq (wget st w) + n)) ->
  RingInv st -> RingInv (upd_caller st c' cw rl wl b).
Proof.
  intros st c' cw rl wl b Ic Ic' Hr Hw I. constructor; [exact Ic'| |].
  - intros w H. apply reader_ok_frame2 with (st := st); auto. apply Hr; auto. apply (ri_readers st I); auto.
    apply (ri_readers st I); auto.
  - intros w H. apply writer_ok_frame2 with (st := st); auto. apply Hw; auto. apply (ri_writers st I); auto.
    apply (ri_writers st I); auto.
Qed.

Lemma inv_CTaskRead : forall st st' b c w, RingInv st -> step P st (CTaskRead b c w) = Some st' -> RingInv st'.
Proof.
  intros st st' b c w I H. unfold step in H. cbv zeta in H.
  grd H Gnw. grd H Gc. apply is_not_waiting_eq in Gnw. apply is_cpc_eq in Gc.
  destruct (rscan st b c) as [w'|] eqn:Es; [|discriminate].
  destruct (Nat.eqb_spec w' w) as [->|]; [|discriminate]. inversion H; subst st'; clear H.
  unfold rscan in Es. apply find_some in Es. destruct Es as [Hin Hp].
  apply andb_true_iff in Hp. destruct Hp as [Hr Hne]. apply negb_true_iff, Nat.eqb_neq in Hne.
  pose proof (ri_caller st I) as Ic.
  assert (Hn0 : n <> 0) by lia.
  apply caller_upd_simple; auto.
  - destruct Ic. constructor; unfold M, stopped in *; simpl in *; auto; try discriminate; try congruence.
    + intros w0 H0. apply in_without in H0. apply co_rlist0. tauto.
    + intros [?|[?|?]]; discriminate.
  - intros w0 Hw0 Ro [A|[_ A]]; [discriminate|].
    destruct (Nat.eq_dec w0 w) as [->|N].
    + destruct Ro. destruct (Nat.eq_dec (next_k st) (wseq (rget st w) + n)) as [E|E]; [|lia].
      exfalso. apply Hne. rewrite ro_idx0, (co_r st Ic), E. symmetry. apply mod_plus_n. exact Hn0.
    + apply (ro_fresh st w0 Ro). right. split; [exact Gc|]. intro Hi. apply A. apply in_without. auto.
  - intros w0 Hw0 Wo _ A. apply (wo_coll st w0 Wo Gc). exact A.
Qed.

Lemma inv_CTaskWait : forall st st' b c, RingInv st -> step P st (CTaskWait b c) = Some st' -> RingInv st'.
Proof.
  intros st st' b c I H. unfold step in H. cbv zeta in H.
  grd H Gnw. grd H Gc. grd H Gex. apply is_not_waiting_eq in Gnw. apply is_cpc_eq in Gc.
  destruct (rscan st b c) as [w'|] eqn:Es; [discriminate|]. inversion H; subst st'; clear H.
  unfold rscan in Es.
  pose proof (ri_caller st I) as Ic.
  assert (Hn0 : n <> 0) by lia.
  apply caller_upd_simple; auto.
  - assert (Hall : forall w, In w (rlist st) -> in_range b c w = true -> wseq (rget st w) + n = next_k st).
    { intros w Hin Hr. pose proof (find_none _ _ Es w Hin) as Hp. simpl in Hp. rewrite Hr in Hp. simpl in Hp.
      apply negb_false_iff, Nat.eqb_eq in Hp.
      destruct (ri_readers st I w (co_rlist st Ic w Hin)).
      rewrite ro_idx0, (co_r st Ic) in Hp. rewrite <- (mod_plus_n _ n Hn0) in Hp.
      symmetry. apply mod_window_eq with (n := n); auto; lia. }
    apply existsb_exists in Gex.
    destruct Ic. constructor; unfold M, stopped in *; simpl in *; auto; try discriminate; try congruence.
    + intros b0 c0 E. inversion E; subst b0 c0. auto.
    + intros [?|[?|?]]; discriminate.
  - intros w0 Hw0 Ro [A|[_ A]]; [discriminate|].
    apply (ro_fresh st w0 Ro). right. auto.
  - intros w0 Hw0 Wo _ A. apply (wo_coll st w0 Wo Gc). exact A.
Qed.

Lemma busy_eq : forall st, caller_ok st -> (w_idx st + 1) mod n = (M st + 1) mod n.
Proof. intros st Ic. rewrite (co_w st Ic). apply succ_mod. lia. Qed.

Lemma inv_CParityWrite : forall st st' w, RingInv st -> step P st (CParityWrite w) = Some st' -> RingInv st'.
Proof.
  intros st st' w I H. unfold step in H. cbv zeta in H.
  grd H Gnw. grd H Gc. apply is_not_waiting_eq in Gnw. apply is_cpc_eq in Gc.
  destruct (rlist st) eqn:Erl; [|discriminate].
  destruct (wscan st ((w_idx st + 1) mod n) (wlist st)) as [[w'|]|] eqn:Es; try discriminate.
  destruct (Nat.eqb_spec w' w) as [->|]; [|discriminate]. inversion H; subst st'; clear H.
  apply wscan_some in Es. destruct Es as [Hin Hne].
  pose proof (ri_caller st I) as Ic. rewrite (busy_eq st Ic) in Hne.
  assert (Hn0 : n <> 0) by lia.
  apply caller_upd_simple; auto.
  - destruct Ic. constructor; unfold M, stopped in *; simpl in *; auto; try discriminate; try congruence; try tauto.
    + intros w0 H0. apply in_without in H0. apply co_wlist0. tauto.
    + pose proof (without_length_le w (wlist st)). lia.
    + intros [?|[?|?]]; discriminate.
  - intros w0 Hw0 Ro [A|[_ A]]; [discriminate|].
    apply (ro_fresh st w0 Ro). right. rewrite Erl. auto.
  - intros w0 Hw0 Wo _ A.
    destruct (Nat.eq_dec w0 w) as [->|N].
    + destruct Wo. destruct (Nat.eq_dec (M st + 2) (wseq (wget st w) + n)) as [E|E]; [|lia].
      exfalso. apply Hne. rewrite wo_idx0. f_equal. lia.
    + apply (wo_coll st w0 Wo Gc). intro Hi. apply A. apply in_without. auto.
Qed.

Lemma inv_CParityWait : forall st st', RingInv st -> step P st CParityWait = Some st' -> RingInv st'.
Proof.
  intros st st' I H. unfold step in H. cbv zeta in H.
  grd H Gnw. grd H Gc. apply is_not_waiting_eq in Gnw. apply is_cpc_eq in Gc.
  destruct (rlist st) eqn:Erl; [|discriminate].
  destruct (wlist st) as [|w1 wl] eqn:Ewl; [discriminate|]. rewrite <- Ewl in *.
  destruct (wscan st ((w_idx st + 1) mod n) (wlist st)) as [[w'|]|] eqn:Es; try discriminate.
  inversion H; subst st'; clear H.
  pose proof (ri_caller st I) as Ic. rewrite (busy_eq st Ic) in Es.
  assert (Hn0 : n <> 0) by lia.
  apply caller_upd_simple; auto.
  - assert (Hall : forall w, In w (wlist st) -> wseq (wget st w) + n = M st + 2).
    { intros w Hin. pose proof (wscan_none _ _ _ Es w Hin) as Hp.
      destruct (ri_writers st I w (co_wlist st Ic w Hin)). rewrite wo_idx0 in Hp.
      symmetry in Hp. apply mod_window_eq in Hp; lia. }
    destruct Ic. constructor; unfold M, stopped in *; simpl in *; auto; try discriminate; try congruence; try tauto.
    + intros _. repeat split; auto. rewrite Ewl. discriminate.
    + intros [?|[?|?]]; discriminate.
  - intros w0 Hw0 Ro [A|[_ A]]; [discriminate|].
    apply (ro_fresh st w0 Ro). right. rewrite Erl. auto.
  - intros w0 Hw0 Wo _ A. apply (wo_coll st w0 Wo Gc). exact A.
Qed.


Lemma inv_CSpur : forall st st', RingInv st -> step P st CSpur = Some st' -> RingInv st'.
Proof.
  intros st st' I H. unfold step in H. cbv zeta in H.
  destruct (is_not_waiting (cwait st)) eqn:Gnw; [discriminate|]. inversion H; subst st'; clear H.
  pose proof (ri_caller st I) as Ic.
  apply caller_upd_simple; auto.
  - destruct Ic. constructor; unfold M, stopped in *; simpl in *; auto; try discriminate.
    intros C. destruct (co_next0 C) as (A & B & D). rewrite B in Gnw. discriminate.
  - intros w0 Hw0 Ro A. apply (ro_fresh st w0 Ro). exact A.
  - intros w0 Hw0 Wo C A. apply (wo_coll st w0 Wo C A).
Qed.

Lemma inv_CBail : forall st st', RingInv st -> step P st CBail = Some st' -> RingInv st'.
Proof.
  intros st st' I H. unfold step in H. cbv zeta in H.
  grd H Gnw. grd H Gc. apply is_not_waiting_eq in Gnw. inversion H; subst st'; clear H.
  pose proof (ri_caller st I) as Ic.
  assert (Hc : cpc st = CNext \/ cpc st = CWork).
  { apply orb_true_iff in Gc. destruct Gc as [G|G]; apply is_cpc_eq in G; auto. }
  apply caller_upd_simple; auto.
  - destruct Ic. constructor; unfold M, stopped in *; simpl in *; auto; try discriminate.
    + split; [|intros [?|?]; discriminate]. intros D. apply co_done0 in D. destruct Hc, D; congruence.
    + intros [?|?]; discriminate.
  - intros w0 Hw0 Ro [A|[A _]]; discriminate.
  - intros w0 Hw0 Wo A. discriminate.
Qed.

Lemma inv_CJoin : forall st st', RingInv st -> step P st CJoin = Some st' -> RingInv st'.
Proof.
  intros st st' I H. unfold step in H. cbv zeta in H.
  grd H Gc. grd H Gr. grd H Gw. apply is_cpc_eq in Gc. inversion H; subst st'; clear H.
  pose proof (ri_caller st I) as Ic.
  apply caller_upd_simple; auto.
  - destruct Ic. constructor; unfold M, stopped in *; simpl in *; auto; try discriminate.
    + split; [auto|]. intros _. apply co_done0. auto.
    + intros [?|?]; discriminate.
    + intros _. split; intros w Hw.
      * pose proof (forallb_seq_true _ _ Gr w Hw) as E. apply is_pc_eq in E. exact E.
      * pose proof (forallb_seq_true _ _ Gw w Hw) as E. apply is_pc_eq in E. exact E.
  - intros w0 Hw0 Ro [A|[A _]]; discriminate.
  - intros w0 Hw0 Wo A. discriminate.
Qed.

Lemma inv_CStop : forall st st', RingInv st -> step P st CStop = Some st' -> RingInv st'.
Proof.
  intros st st' I H. unfold step in H. cbv zeta in H.
  grd H Gc. apply is_cpc_eq in Gc. inversion H; subst st'; clear H.
  pose proof (ri_caller st I) as Ic.
  constructor.
  - destruct Ic. constructor; unfold M, stopped in *; simpl in *; auto; try discriminate.
    + split; auto.
    + intros [?|?]; discriminate.
  - intros w Hw. destruct (ri_readers st I w Hw).
    assert (G : rget (mkS (r_idx st) (w_idx st) (next_k st) true (rtask st) (wtask st)
                (map unblock (rd st)) (map unblock (wr st)) CJoining NotWaiting (rlist st) (wlist st) (cur st)
                (handed st) (written st) (wgot st) (bailed st)) w = unblock (rget st w))
      by (unfold rget; simpl; apply get_map_unblock).
    constructor; rewrite ?G, ?unblock_idx, ?unblock_seq, ?unblock_run; simpl; auto.
    + intros [A|[A _]]; discriminate.
    + intros B. destruct (unblock_not_blocked _ B).
  - intros w Hw. destruct (ri_writers st I w Hw).
    assert (G : wget (mkS (r_idx st) (w_idx st) (next_k st) true (rtask st) (wtask st)
                (map unblock (rd st)) (map unblock (wr st)) CJoining NotWaiting (rlist st) (wlist st) (cur st)
                (handed st) (written st) (wgot st) (bailed st)) w = unblock (wget st w))
      by (unfold wget; simpl; apply get_map_unblock).
    constructor; rewrite ?G, ?unblock_idx, ?unblock_seq, ?unblock_run; unfold M, wr_at in *; simpl; auto.
    + discriminate.
    + intros B. apply unblock_pc_run in B. auto.
    + intros B. destruct (unblock_not_blocked _ B).
    + intros B. apply unblock_exit in B. destruct (wo_exit0 B). auto.
Qed.

Lemma inv_CWriteNext : forall st st' skip, RingInv st -> step P st (CWriteNext skip) = Some st' -> RingInv st'.
Proof.
  intros st st' skip I H. unfold step in H. cbv zeta in H.
  grd H Gnw. grd H Gc. grd H GW. apply is_not_waiting_eq in Gnw. apply is_cpc_eq in Gc. apply Nat.eqb_neq in GW.
  destruct (rlist st) eqn:Erl; [|discriminate].
  destruct (wlist st) eqn:Ewl; [|discriminate].
  grd H Gi. apply Nat.eqb_eq in Gi.
  inversion H; subst st'; clear H.
  pose proof (ri_caller st I) as Ic.
  assert (Hn0 : n <> 0) by lia.
  destruct (co_work st Ic Gc) as (HK & Hcur & Hcb & HM). specialize (HM ltac:(lia)).
  pose proof (co_hwork st Ic (or_introl Gc)) as Hh.
  assert (Hnd : done st = false).
  { destruct (done st) eqn:D; [|reflexivity]. apply (co_done st Ic) in D. destruct D; congruence. }
  constructor.
  - destruct Ic. constructor; unfold M, stopped in *; simpl in *; rewrite ?app_length; simpl; auto; try discriminate; try lia.
    + rewrite co_w0. apply succ_mod. exact Hn0.
    + intros _. repeat split; auto; intros; [lia|rewrite in_seq; lia].
    + intros w Hw. rewrite in_seq in Hw. lia.
    + rewrite seq_length. lia.
    + split; [congruence|]. intros [?|?]; discriminate.
    + intros [?|[?|?]]; discriminate.
    + rewrite map_app, co_written0. replace (length (written st) + 1) with (S (length (written st))) by lia.
      rewrite seq_S, map_app. simpl. rewrite Hcur. do 3 f_equal. lia.
  - intros w Hw. apply reader_ok_frame2 with (st := st); auto; [|apply (ri_readers st I w Hw)].
    intros _. apply (ro_fresh st w (ri_readers st I w Hw)). right. rewrite Erl. auto.
  - intros w Hw. destruct (ri_writers st I w Hw).
    match goal with |- writer_ok ?s _ => assert (G : wget s w = unblock (wget st w))
      by (unfold wget; simpl; apply get_map_unblock) end.
    assert (Hc : M st + 3 <= wseq (wget st w) + n) by (apply wo_coll0; [exact Gc|rewrite Ewl; auto]).
    assert (Hm : w_idx st = M st mod n) by (apply (co_w st Ic)).
    constructor; rewrite ?G, ?unblock_idx, ?unblock_seq, ?unblock_run; unfold M, wr_at in *; simpl;
      rewrite ?app_length; simpl; auto; try lia; try discriminate.
    + intros m Hm'. destruct (Nat.eq_dec m (length (written st))) as [->|N].
      * rewrite Hm, get2_setrow_eq by exact Hw. rewrite app_nth2 by lia. rewrite Nat.sub_diag. simpl.
        unfold wsched. simpl. reflexivity.
      * rewrite Hm, get2_setrow_neq by (apply not_eq_sym; apply mod_window_neq; lia).
        rewrite app_nth1 by lia. apply wo_pending0. lia.
    + intros Hv. rewrite Hm, get2_setrow_neq by (apply not_eq_sym; apply mod_window_neq; lia).
      rewrite app_nth1 by lia. auto.
    + intros B. apply unblock_pc_run in B. rewrite app_nth1 by (destruct (wo_run0 B); lia). auto.
    + intros B. destruct (unblock_not_blocked _ B).
    + intros B. apply unblock_exit in B. destruct (wo_exit0 B). congruence.
    + rewrite firstn_app. replace (wseq (wget st w) - length (written st)) with 0 by lia. simpl.
      rewrite app_nil_r. exact wo_got0.
Qed.

Lemma task_pos_run_t : forall p, task_pos (run_t p) = p.
Proof. intros. unfold run_t. destruct (_ <? _); reflexivity. Qed.
Lemma task_pos_fin_t : forall p, task_pos (fin_t p) = p.
Proof. intros. unfold fin_t. destruct (_ <? _); reflexivity. Qed.

Lemma inv_CReadNext : forall st st', RingInv st -> step P st CReadNext = Some st' -> RingInv st'.
Proof.
  intros st st' I H. unfold step in H. cbv zeta in H.
  grd H Gnw. grd H Gc. apply is_not_waiting_eq in Gnw.
  destruct (rlist st) eqn:Erl; [|discriminate].
  pose proof (ri_caller st I) as Ic.
  assert (Hn0 : n <> 0) by lia.
  assert (Hc : cpc st = CNext \/ (cpc st = CWork /\ W = 0)).
  { apply orb_true_iff in Gc. destruct Gc as [G|G]; [left; apply is_cpc_eq; exact G|].
    apply andb_true_iff in G. destruct G as [G1 G2]. apply is_cpc_eq in G1. apply Nat.eqb_eq in G2. auto. }
  assert (Hfresh : forall w, w < R -> next_k st + 1 <= wseq (rget st w) + n).
  { intros w Hw. apply (ro_fresh st w (ri_readers st I w Hw)). destruct Hc as [C|[C _]]; [auto|].
    right. rewrite Erl. auto. }
  assert (Hh : length (handed st) + n = next_k st + 1) by (apply (co_hwork st Ic); tauto).
  assert (HM : 0 < W -> M st + n = next_k st + 1).
  { intros HW. destruct Hc as [C|[_ C]]; [|lia]. apply (co_next st Ic C). exact HW. }
  assert (Hwl : cpc st = CNext -> forall w, w < W -> In w (wlist st)) by (intros C; apply (co_next st Ic C)).
  assert (Hnd : done st = false).
  { destruct (done st) eqn:D; [|reflexivity]. apply (co_done st Ic) in D. destruct Hc as [C|[C _]], D; congruence. }
  assert (Hr' : (r_idx st + 1) mod n = (next_k st + 1) mod n) by (rewrite (co_r st Ic); apply succ_mod; exact Hn0).
  (* the position handed to the caller *)
  assert (Hc' : task_pos (get2 (setrow (rtask st) (r_idx st) R (sched P (pos_at P (next_k st)))) ((r_idx st + 1) mod n) 0)
                = pos_at P (length (handed st))).
  { rewrite Hr', (co_r st Ic). rewrite get2_setrow_neq by (apply mod_window_neq; lia).
    pose proof (co_K st Ic) as HK.
    replace (length (handed st)) with (next_k st + 1 - n) by lia.
    assert (E : (next_k st + 1) mod n = (next_k st + 1 - n) mod n).
    { rewrite <- (mod_plus_n (next_k st + 1 - n) n Hn0). f_equal. lia. }
    rewrite E. destruct (ri_readers st I 0 ltac:(lia)). pose proof (Hfresh 0 ltac:(lia)) as F0.
    destruct (Nat.eq_dec (wseq (rget st 0)) (next_k st + 1 - n)) as [Q|Q].
    - rewrite <- Q, ro_cur0. destruct (is_pc _ _); [apply task_pos_run_t|apply task_pos_fin_t].
    - rewrite ro_old0 by lia. apply task_pos_fin_t. }
  rewrite Hc' in H.
  assert (Hrd : forall s w, rget (mkS (r_idx s) (w_idx s) (next_k s) (done s) (rtask s) (wtask s) (map unblock (rd st))
                (wr s) (cpc s) (cwait s) (rlist s) (wlist s) (cur s) (handed s) (written s) (wgot s) (bailed s)) w
                = unblock (rget st w)) by (intros; unfold rget; simpl; apply get_map_unblock).
  assert (Readers : forall c' rl cu hd,
     (c' = CWork -> rl = seq 0 R) -> c' <> CNext ->
     forall w, w < R ->
     reader_ok (mkS ((r_idx st + 1) mod n) (w_idx st) (S (next_k st)) (done st)
                (setrow (rtask st) (r_idx st) R (sched P (pos_at P (next_k st)))) (wtask st) (map unblock (rd st))
                (wr st) c' NotWaiting rl (wlist st) cu hd (written st) (wgot st) (bailed st)) w).
  { intros c' rl cu hd Hrl Hcn w Hw. destruct (ri_readers st I w Hw). pose proof (Hfresh w Hw) as F.
    assert (G : forall s, rget (mkS ((r_idx st + 1) mod n) (w_idx st) (S (next_k st)) (done st)
                (setrow (rtask st) (r_idx st) R (sched P (pos_at P (next_k st)))) (wtask st) (map unblock (rd st))
                (wr st) c' NotWaiting rl (wlist st) cu hd (written st) (wgot st) (bailed st)) s = unblock (rget st s))
      by (intros; unfold rget; simpl; apply get_map_unblock).
    constructor; rewrite ?G, ?unblock_idx, ?unblock_seq, ?unblock_run; simpl; auto; try lia.
    + intros [A|[A B]]; [contradiction|]. exfalso. apply B. rewrite (Hrl A). apply in_seq. lia.
    + intros q Hq. rewrite (co_r st Ic). destruct (Nat.eq_dec q (next_k st)) as [->|N].
      * apply get2_setrow_eq. exact Hw.
      * rewrite get2_setrow_neq by (apply not_eq_sym; apply mod_window_neq; lia). apply ro_pending0. lia.
    + rewrite (co_r st Ic). rewrite get2_setrow_neq by (apply not_eq_sym; apply mod_window_neq; lia). exact ro_cur0.
    + intros q Hq Hq'. rewrite (co_r st Ic).
      rewrite get2_setrow_neq by (apply not_eq_sym; apply mod_window_neq; lia). apply ro_old0; lia.
    + intros B. destruct (unblock_not_blocked _ B).
    + intros B. apply unblock_exit in B. auto. }
  assert (Writers : forall c' rl cu hd,
     (c' = CWork) \/ (c' = CStopping) ->
     forall w, w < W ->
     writer_ok (mkS ((r_idx st + 1) mod n) (w_idx st) (S (next_k st)) (done st)
                (setrow (rtask st) (r_idx st) R (sched P (pos_at P (next_k st)))) (wtask st) (map unblock (rd st))
                (wr st) c' NotWaiting rl (wlist st) cu hd (written st) (wgot st) (bailed st)) w).
  { intros c' rl cu hd Hcc w Hw. apply writer_ok_frame2 with (st := st); auto; [|apply (ri_writers st I w Hw)].
    simpl. intros C A. destruct Hc as [C0|[_ C0]]; [|lia]. destruct A. apply Hwl; auto. }
  destruct (pos_at P (length (handed st)) <? bmax P) eqn:Eb; inversion H; subst st'; clear H.
  - (* a stripe is handed to the caller *)
    apply Nat.ltb_lt in Eb.
    assert (HhL : length (handed st) < L).
    { destruct (Nat.lt_ge_cases (length (handed st)) L) as [Q|Q]; [exact Q|]. pose proof (pos_at_ge P _ Q). lia. }
    constructor; [|apply Readers; [auto|discriminate]|apply Writers; auto].
    destruct Ic. constructor; unfold M, stopped in *; cbn -[Nat.sub seq Nat.modulo]; auto; try discriminate; try lia.
    + rewrite Hr'. f_equal. lia.
    + intros _. split; [lia|]. split; [f_equal; lia|]. split; [exact Eb|]. intros HW. specialize (HM HW). unfold M in HM. lia.
    + intros w Hw. rewrite in_seq in Hw. lia.
    + split; [congruence|]. intros [?|?]; discriminate.
    + rewrite seq_S, map_app, rev_app_distr. simpl. rewrite <- co_handed0. reflexivity.
    + intros [?|[?|?]]; discriminate.
  - (* the end of the range *)
    apply Nat.ltb_ge in Eb.
    assert (HhL : length (handed st) = L).
    { pose proof (co_hlen st Ic). destruct (Nat.eq_dec (length (handed st)) L) as [Q|Q]; [exact Q|].
      pose proof (pos_at_lt P (length (handed st)) Hposs ltac:(lia)). lia. }
    constructor; [|apply Readers; [discriminate|discriminate]|apply Writers; auto].
    destruct Ic. constructor; unfold M, stopped in *; cbn -[Nat.sub seq Nat.modulo]; auto; try discriminate; try lia.
    + rewrite Hr'. f_equal. lia.
    + intros w Hw. rewrite in_seq in Hw. lia.
    + split; [congruence|]. intros [?|?]; discriminate.
    + intros [?|?]; discriminate.
Qed.

Theorem inv_step : forall st st' l, RingInv st -> step P st l = Some st' -> RingInv st'.
Proof.
  intros st st' l I H. destruct l.
  - eapply inv_RTake; eauto.
  - eapply inv_REnd; eauto.
  - eapply inv_RWait; eauto.
  - eapply inv_RExit; eauto.
  - eapply inv_RSpur; eauto.
  - eapply inv_WTake; eauto.
  - eapply inv_WEnd; eauto.
  - eapply inv_WWait; eauto.
  - eapply inv_WExit; eauto.
  - eapply inv_WSpur; eauto.
  - eapply inv_CReadNext; eauto.
  - eapply inv_CTaskRead; eauto.
  - eapply inv_CTaskWait; eauto.
  - eapply inv_CParityWrite; eauto.
  - eapply inv_CParityWait; eauto.
  - eapply inv_CWriteNext; eauto.
  - eapply inv_CSpur; eauto.
  - eapply inv_CBail; eauto.
  - eapply inv_CStop; eauto.
  - eapply inv_CJoin; eauto.
Qed.

Inductive reachable : state -> Prop :=
| reach_init : reachable (init P)
| reach_step : forall st l st', reachable st -> step P st l = Some st' -> reachable st'.

Theorem inv_reachable : forall st, reachable st -> RingInv st.
Proof. induction 1; [apply inv_init|eapply inv_step; eauto]. Qed.

End Inv.
