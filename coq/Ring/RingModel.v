(* C13 -- executable transition system of the threaded slot ring of cmdline/io.c (multi thread part,
   lines 276-861 of the pinned tree).  Executable definitions only (this file is extracted).

   Parameters: n = io_max (number of slots), R reader workers, W writer workers, the list `poss` of enabled
   stripe positions (what io_position_next, io.c:38-54, enumerates below block_max) and bmax = block_max.

   Atomicity: every section between thread_mutex_lock(&io->io_mutex) and the matching unlock / cond_wait is ONE
   label.  thread_cond_wait releases the mutex, so "guard false -> wait" is a label of its own that moves the
   thread to PBlocked / a cwait state; signal and broadcast move blocked threads back; spurious wake-ups are
   labels too (RSpur/WSpur/CSpur).  Work done outside the mutex by a worker (worker->func on its task) is the
   pair  take (task becomes Running)  ...  REnd/WEnd (task becomes Done).

   Ghost components (never read by a guard, only by the theorems): wseq (how many tasks a worker has taken),
   handed, written, wgot, bailed. *)
From Coq Require Import Arith List Bool.
Import ListNotations.

(* ---------------------------------------------------------------------------------------------- *)
(* total maps as lists: get with default, set extends the list when needed                         *)

Definition get {A} (d : A) (l : list A) (i : nat) : A := nth i l d.

Fixpoint set {A} (d : A) (l : list A) (i : nat) (v : A) : list A :=
  match i, l with
  | O, [] => [v]
  | O, _ :: t => v :: t
  | S i', [] => d :: set d [] i' v
  | S i', x :: t => x :: set d t i' v
  end.

(* ---------------------------------------------------------------------------------------------- *)

(* io.h:52-54 TASK_STATE_EMPTY / READY / DONE (the error states < 0 are "Done" here: the ring does not look at
   them); Running is the model's name for "the worker is inside worker->func on this task".  Every task keeps
   task->position (io.c:79, 104, 129). *)
Inductive task := Empty (p : nat) | Ready (p : nat) | Running (p : nat) | Done (p : nat).

Definition task_pos (t : task) : nat :=
  match t with Empty p | Ready p | Running p | Done p => p end.

Inductive wpc := PRun | PStep | PBlocked | PExit.

Record wstate := mkW { widx : nat; wpcs : wpc; wseq : nat (* ghost *) }.

Definition wdflt : wstate := mkW 0 PExit 0.

Inductive cpc_t := CNext | CWork | CStopping | CJoining | CEnd.

Inductive cwait_t := NotWaiting | OnReadDone (base count : nat) | OnWriteDone.

Record params := mkP { pn : nat; pR : nat; pW : nat; poss : list nat; bmax : nat }.

Record state := mkS {
  r_idx : nat;                 (* io->reader_index *)
  w_idx : nat;                 (* io->writer_index *)
  next_k : nat;                (* number of io_position_next calls so far (abstracts io->block_next) *)
  done : bool;                 (* io->done *)
  rtask : list (list task);    (* reader_map[w].task_map[slot], indexed [slot][w] *)
  wtask : list (list task);    (* writer_map[w].task_map[slot], indexed [slot][w] *)
  rd : list wstate;            (* reader_map[w].index + program counter *)
  wr : list wstate;            (* writer_map[w].index + program counter *)
  cpc : cpc_t;                 (* where the caller (sync/scrub main loop) is *)
  cwait : cwait_t;             (* caller blocked in thread_cond_wait on read_done / write_done *)
  rlist : list nat;            (* io->reader_list: readers not yet returned by io_data_read/io_parity_read *)
  wlist : list nat;            (* io->writer_list *)
  cur : nat;                   (* blockcur of the caller *)
  handed : list nat;           (* ghost: positions < bmax returned by io_read_next, latest first *)
  written : list (nat * bool); (* ghost: (blockcur, skip) of every io_write_next, oldest first *)
  wgot : list (list nat);      (* ghost: per writer, positions of the READY tasks it took, latest first *)
  bailed : bool                (* ghost: the caller left its loop by goto bail / break *)
}.

Definition tdflt : task := Empty 0.
Definition get2 (t : list (list task)) (s w : nat) : task := get tdflt (get [] t s) w.
Definition set2 (t : list (list task)) (s w : nat) (v : task) : list (list task) :=
  set [] t s (set tdflt (get [] t s) w v).
Definition setrow (t : list (list task)) (s k : nat) (v : task) : list (list task) :=
  set [] t s (repeat v k).

Definition rget (st : state) (w : nat) : wstate := get wdflt (rd st) w.
Definition wget (st : state) (w : nat) : wstate := get wdflt (wr st) w.

(* io.c:38-54 io_position_next: the k-th call returns the k-th enabled position, then block_max, block_max+1, ... *)
Definition pos_at (P : params) (k : nat) : nat := nth k (poss P) (bmax P + (k - length (poss P))).

(* io.c:59-86 io_reader_sched: READY below block_max, EMPTY otherwise *)
Definition sched (P : params) (p : nat) : task := if p <? bmax P then Ready p else Empty p.

Definition unblock (ws : wstate) : wstate :=
  match wpcs ws with PBlocked => mkW (widx ws) PStep (wseq ws) | _ => ws end.

Definition in_range (base count i : nat) : bool := (base <=? i) && (i <? base + count).

Definition without (w : nat) (l : list nat) : list nat := filter (fun i => negb (i =? w)) l.

(* field updates *)
Definition upd_reader (st : state) (rd' : list wstate) (rtask' : list (list task)) (cwait' : cwait_t) : state :=
  mkS (r_idx st) (w_idx st) (next_k st) (done st) rtask' (wtask st) rd' (wr st) (cpc st) cwait'
      (rlist st) (wlist st) (cur st) (handed st) (written st) (wgot st) (bailed st).
Definition upd_writer (st : state) (wr' : list wstate) (wtask' : list (list task)) (cwait' : cwait_t)
           (wgot' : list (list nat)) : state :=
  mkS (r_idx st) (w_idx st) (next_k st) (done st) (rtask st) wtask' (rd st) wr' (cpc st) cwait'
      (rlist st) (wlist st) (cur st) (handed st) (written st) wgot' (bailed st).
Definition upd_caller (st : state) (cpc' : cpc_t) (cwait' : cwait_t) (rlist' wlist' : list nat) (bailed' : bool) : state :=
  mkS (r_idx st) (w_idx st) (next_k st) (done st) (rtask st) (wtask st) (rd st) (wr st) cpc' cwait'
      rlist' wlist' (cur st) (handed st) (written st) (wgot st) bailed'.

Definition is_not_waiting (c : cwait_t) : bool := match c with NotWaiting => true | _ => false end.
Definition is_pc (a b : wpc) : bool :=
  match a, b with PRun, PRun | PStep, PStep | PBlocked, PBlocked | PExit, PExit => true | _, _ => false end.
Definition is_cpc (a b : cpc_t) : bool :=
  match a, b with CNext, CNext | CWork, CWork | CStopping, CStopping | CJoining, CJoining | CEnd, CEnd => true
                | _, _ => false end.

(* io.c:645-685: the scan of io_parity_write_thread over writer_list.  None = the assert of line 663 fails;
   Some None = nobody has finished (line 688 waits); Some (Some i) = worker i returned. *)
Fixpoint wscan (st : state) (busy : nat) (l : list nat) : option (option nat) :=
  match l with
  | [] => Some None
  | i :: t => let ix := widx (wget st i) in
              if ix =? w_idx st then None
              else if negb (ix =? busy) then Some (Some i) else wscan st busy t
  end.

(* io.c:555-600: the scan of io_task_read_thread: first worker of the list, in range, whose index differs
   from reader_index *)
Definition rscan (st : state) (base count : nat) : option nat :=
  find (fun i => in_range base count i && negb (widx (rget st i) =? r_idx st)) (rlist st).

Inductive label :=
| RTake (w : nat)   (* io.c:291-330 io_reader_step finds a pending task; io.c:724-730 looks at its state *)
| REnd (w : nat)    (* io.c:695-704 io_reader_worker returns (outside the mutex) *)
| RWait (w : nat)   (* io.c:307,333 queue empty: thread_cond_wait(read_sched) *)
| RExit (w : nat)   (* io.c:298-301 io->done *)
| RSpur (w : nat)   (* spurious return of the wait of line 333 *)
| WTake (w : nat)   (* io.c:348-385 io_writer_step finds a pending task; io.c:752-757 *)
| WEnd (w : nat)    (* io.c:760-763 worker->func returns *)
| WWait (w : nat)   (* io.c:362,395 *)
| WExit (w : nat)   (* io.c:389-392 *)
| WSpur (w : nat)
| CReadNext         (* io.c:404-439 io_read_next_thread *)
| CTaskRead (base count w : nat)   (* io.c:543-594 io_task_read_thread returns worker w *)
| CTaskWait (base count : nat)     (* io.c:603 thread_cond_wait(read_done) *)
| CParityWrite (w : nat)           (* io.c:631-680 io_parity_write_thread returns worker w *)
| CParityWait                      (* io.c:688 thread_cond_wait(write_done) *)
| CWriteNext (skip : bool)         (* io.c:448-484 io_write_next_thread *)
| CSpur
| CBail                            (* the caller leaves its loop: goto bail / break in sync.c, scrub.c *)
| CStop                            (* io.c:831-840 io_stop_thread, locked part *)
| CJoin.                           (* io.c:842-858 all thread_join returned *)

Definition step (P : params) (st : state) (l : label) : option state :=
  let n := pn P in
  match l with
  | RTake w =>
      let ws := rget st w in
      if negb (w <? pR P) then None else
      if negb (is_pc (wpcs ws) PStep) then None else
      if done st then None else                                   (* 298 *)
      let next := (widx ws + 1) mod n in                          (* 304 *)
      if next =? r_idx st then None else                          (* 307 *)
      let cw := if widx ws =? r_idx st                            (* 321: done_index == waiting_index *)
                then match cwait st with OnReadDone _ _ => NotWaiting | c => c end   (* 323 signal read_done *)
                else cwait st in
      match get2 (rtask st) next w with                           (* 318, then 724-730 outside the mutex *)
      | Empty _ => Some (upd_reader st (set wdflt (rd st) w (mkW next PStep (S (wseq ws)))) (rtask st) cw)
      | Ready p => Some (upd_reader st (set wdflt (rd st) w (mkW next PRun (S (wseq ws))))
                                   (set2 (rtask st) next w (Running p)) cw)
      | _ => None                                                 (* 727 assert READY *)
      end
  | REnd w =>
      let ws := rget st w in
      if negb (w <? pR P) then None else
      if negb (is_pc (wpcs ws) PRun) then None else
      match get2 (rtask st) (widx ws) w with
      | Running p => Some (upd_reader st (set wdflt (rd st) w (mkW (widx ws) PStep (wseq ws)))
                                     (set2 (rtask st) (widx ws) w (Done p)) (cwait st))
      | Empty p =>                                               (* 698-700 dummy task *)
          Some (upd_reader st (set wdflt (rd st) w (mkW (widx ws) PStep (wseq ws))) (rtask st) (cwait st))
      | _ => None
      end
  | RWait w =>
      let ws := rget st w in
      if negb (w <? pR P) then None else
      if negb (is_pc (wpcs ws) PStep) then None else
      if done st then None else
      if negb ((widx ws + 1) mod n =? r_idx st) then None else
      Some (upd_reader st (set wdflt (rd st) w (mkW (widx ws) PBlocked (wseq ws))) (rtask st) (cwait st))
  | RExit w =>
      let ws := rget st w in
      if negb (w <? pR P) then None else
      if negb (is_pc (wpcs ws) PStep) then None else
      if negb (done st) then None else
      Some (upd_reader st (set wdflt (rd st) w (mkW (widx ws) PExit (wseq ws))) (rtask st) (cwait st))
  | RSpur w =>
      let ws := rget st w in
      if negb (w <? pR P) then None else
      if negb (is_pc (wpcs ws) PBlocked) then None else
      Some (upd_reader st (set wdflt (rd st) w (mkW (widx ws) PStep (wseq ws))) (rtask st) (cwait st))
  | WTake w =>
      let ws := wget st w in
      if negb (w <? pW P) then None else
      if negb (is_pc (wpcs ws) PStep) then None else
      let next := (widx ws + 1) mod n in                          (* 359 *)
      if next =? w_idx st then None else                          (* 362 *)
      let cw := if widx ws =? (w_idx st + 1) mod n                (* 366, 376 *)
                then match cwait st with OnWriteDone => NotWaiting | c => c end     (* 378 signal write_done *)
                else cwait st in
      match get2 (wtask st) next w with                           (* 373, then 752-757 *)
      | Empty _ => Some (upd_writer st (set wdflt (wr st) w (mkW next PStep (S (wseq ws)))) (wtask st) cw (wgot st))
      | Ready p => Some (upd_writer st (set wdflt (wr st) w (mkW next PRun (S (wseq ws))))
                                   (set2 (wtask st) next w (Running p)) cw
                                   (set [] (wgot st) w (p :: get [] (wgot st) w)))
      | _ => None                                                 (* 757 assert READY *)
      end
  | WEnd w =>
      let ws := wget st w in
      if negb (w <? pW P) then None else
      if negb (is_pc (wpcs ws) PRun) then None else
      match get2 (wtask st) (widx ws) w with
      | Running p => Some (upd_writer st (set wdflt (wr st) w (mkW (widx ws) PStep (wseq ws)))
                                     (set2 (wtask st) (widx ws) w (Done p)) (cwait st) (wgot st))
      | _ => None
      end
  | WWait w =>
      let ws := wget st w in
      if negb (w <? pW P) then None else
      if negb (is_pc (wpcs ws) PStep) then None else
      if negb ((widx ws + 1) mod n =? w_idx st) then None else
      if done st then None else                                   (* 389 *)
      Some (upd_writer st (set wdflt (wr st) w (mkW (widx ws) PBlocked (wseq ws))) (wtask st) (cwait st) (wgot st))
  | WExit w =>
      let ws := wget st w in
      if negb (w <? pW P) then None else
      if negb (is_pc (wpcs ws) PStep) then None else
      if negb ((widx ws + 1) mod n =? w_idx st) then None else
      if negb (done st) then None else
      Some (upd_writer st (set wdflt (wr st) w (mkW (widx ws) PExit (wseq ws))) (wtask st) (cwait st) (wgot st))
  | WSpur w =>
      let ws := wget st w in
      if negb (w <? pW P) then None else
      if negb (is_pc (wpcs ws) PBlocked) then None else
      Some (upd_writer st (set wdflt (wr st) w (mkW (widx ws) PStep (wseq ws))) (wtask st) (cwait st) (wgot st))
  | CReadNext =>
      if negb (is_not_waiting (cwait st)) then None else
      if negb (is_cpc (cpc st) CNext || (is_cpc (cpc st) CWork && (pW P =? 0))) then None else
      match rlist st with
      | _ :: _ => None                                            (* 414 assert reader_list[0] == reader_max *)
      | [] =>
          let p := pos_at P (next_k st) in                        (* 411 *)
          let rtask' := setrow (rtask st) (r_idx st) (pR P) (sched P p) in   (* 424 *)
          let r' := (r_idx st + 1) mod n in                       (* 427 *)
          let c' := task_pos (get2 rtask' r' 0) in                (* 430 *)
          let rd' := map unblock (rd st) in                       (* 436 broadcast read_sched *)
          if c' <? bmax P then                                    (* sync.c:786, scrub.c:336 *)
            Some (mkS r' (w_idx st) (S (next_k st)) (done st) rtask' (wtask st) rd' (wr st) CWork NotWaiting
                      (seq 0 (pR P)) (wlist st) c' (c' :: handed st) (written st) (wgot st) (bailed st))
          else
            Some (mkS r' (w_idx st) (S (next_k st)) (done st) rtask' (wtask st) rd' (wr st) CStopping NotWaiting
                      (seq 0 (pR P)) (wlist st) c' (handed st) (written st) (wgot st) (bailed st))
      end
  | CTaskRead base count w =>
      if negb (is_not_waiting (cwait st)) then None else
      if negb (is_cpc (cpc st) CWork) then None else
      match rscan st base count with
      | Some w' => if w' =? w
                   then Some (upd_caller st CWork NotWaiting (without w (rlist st)) (wlist st) (bailed st))  (* 585 *)
                   else None
      | None => None
      end
  | CTaskWait base count =>
      if negb (is_not_waiting (cwait st)) then None else
      if negb (is_cpc (cpc st) CWork) then None else
      if negb (existsb (in_range base count) (rlist st)) then None else   (* the drivers call once per worker *)
      match rscan st base count with
      | Some _ => None
      | None => Some (upd_caller st CWork (OnReadDone base count) (rlist st) (wlist st) (bailed st))   (* 603 *)
      end
  | CParityWrite w =>
      if negb (is_not_waiting (cwait st)) then None else
      if negb (is_cpc (cpc st) CWork) then None else
      match rlist st with
      | _ :: _ => None                                            (* sync.c: all io_data_read precede *)
      | [] =>
          match wscan st ((w_idx st + 1) mod n) (wlist st) with   (* 642 busy_index *)
          | Some (Some w') => if w' =? w
                              then Some (upd_caller st CWork NotWaiting (rlist st) (without w (wlist st)) (bailed st))
                              else None
          | _ => None
          end
      end
  | CParityWait =>
      if negb (is_not_waiting (cwait st)) then None else
      if negb (is_cpc (cpc st) CWork) then None else
      match rlist st, wlist st with
      | [], _ :: _ =>
          match wscan st ((w_idx st + 1) mod n) (wlist st) with
          | Some None => Some (upd_caller st CWork OnWriteDone (rlist st) (wlist st) (bailed st))      (* 688 *)
          | _ => None
          end
      | _, _ => None
      end
  | CWriteNext skip =>
      if negb (is_not_waiting (cwait st)) then None else
      if negb (is_cpc (cpc st) CWork) then None else
      if pW P =? 0 then None else
      match rlist st, wlist st with
      | [], [] =>                                                 (* 453 assert writer_list[0] == writer_max *)
          if negb (w_idx st =? r_idx st) then None else           (* 477 assert *)
          let t := if skip then Empty (cur st) else Ready (cur st) in      (* 468-474 *)
          Some (mkS (r_idx st) ((w_idx st + 1) mod n) (next_k st) (done st) (rtask st)
                    (setrow (wtask st) (w_idx st) (pW P) t) (rd st) (map unblock (wr st))   (* 480, 483 *)
                    CNext NotWaiting (rlist st) (seq 0 (pW P)) (cur st) (handed st)
                    (written st ++ [(cur st, skip)]) (wgot st) (bailed st))
      | _, _ => None
      end
  | CSpur =>
      if is_not_waiting (cwait st) then None else
      Some (upd_caller st (cpc st) NotWaiting (rlist st) (wlist st) (bailed st))
  | CBail =>
      if negb (is_not_waiting (cwait st)) then None else
      if negb (is_cpc (cpc st) CNext || is_cpc (cpc st) CWork) then None else
      Some (upd_caller st CStopping NotWaiting (rlist st) (wlist st) true)
  | CStop =>
      if negb (is_cpc (cpc st) CStopping) then None else
      Some (mkS (r_idx st) (w_idx st) (next_k st) true (rtask st) (wtask st)            (* 834 *)
                (map unblock (rd st)) (map unblock (wr st))                             (* 837-838 *)
                CJoining NotWaiting (rlist st) (wlist st) (cur st) (handed st) (written st) (wgot st) (bailed st))
  | CJoin =>
      if negb (is_cpc (cpc st) CJoining) then None else
      if negb (forallb (fun w => is_pc (wpcs (rget st w)) PExit) (seq 0 (pR P))) then None else
      if negb (forallb (fun w => is_pc (wpcs (wget st w)) PExit) (seq 0 (pW P))) then None else
      Some (upd_caller st CEnd NotWaiting (rlist st) (wlist st) (bailed st))
  end.

(* io.c:769-825 io_start_thread.  Slot n-1 of the readers and every writer task are not initialised by the C
   code (malloc'ed memory); nothing reads them before they are scheduled, the model puts Empty 0 there.
   The reader threads start inside io_reader_worker on task 0 (io.c:711): slot 0 is Running from the start
   (or the dummy Empty when there is no enabled position at all). *)
Definition run_of (t : task) : task := match t with Ready p => Running p | t => t end.

Definition init (P : params) : state :=
  let n := pn P in
  mkS (n - 1) 0 (n - 1) false
      (map (fun s => repeat (if s =? 0 then run_of (sched P (pos_at P s)) else sched P (pos_at P s)) (pR P))
           (seq 0 (n - 1)))
      []
      (repeat (mkW 0 PRun 0) (pR P))
      (repeat (mkW (n - 1) PStep 0) (pW P))
      CNext NotWaiting [] (seq 0 (pW P)) 0 [] [] [] false.

Definition is_final (st : state) : bool := is_cpc (cpc st) CEnd.

(* ---------------------------------------------------------------------------------------------- *)
(* what an event of the C hook shows (slot, position), as predicted by the model: used by the replay    *)

Definition obs (P : params) (st : state) (l : label) : nat * nat :=
  let n := pn P in
  match l with
  | RTake w => let s := (widx (rget st w) + 1) mod n in (s, task_pos (get2 (rtask st) s w))
  | REnd w | RWait w | RExit w | RSpur w => (widx (rget st w), 0)
  | WTake w => let s := (widx (wget st w) + 1) mod n in (s, task_pos (get2 (wtask st) s w))
  | WEnd w | WWait w | WExit w | WSpur w => (widx (wget st w), 0)
  | CReadNext => let r' := (r_idx st + 1) mod n in
                 (r', task_pos (get2 (setrow (rtask st) (r_idx st) (pR P) (sched P (pos_at P (next_k st)))) r' 0))
  | CTaskRead _ _ w => (r_idx st, task_pos (get2 (rtask st) (r_idx st) w))
  | CTaskWait _ _ => (r_idx st, 0)
  | CParityWrite _ | CParityWait => (w_idx st, 0)
  | CWriteNext _ => (w_idx st, cur st)
  | CSpur | CBail | CStop | CJoin => (0, 0)
  end.

Definition spur_of (l : label) : option label :=
  match l with
  | RTake w | RWait w | RExit w => Some (RSpur w)
  | WTake w | WWait w | WExit w => Some (WSpur w)
  | CTaskRead _ _ _ | CTaskWait _ _ | CParityWrite _ | CParityWait => Some CSpur
  | _ => None
  end.

Definition pair_eqb (a b : nat * nat) : bool := (fst a =? fst b) && (snd a =? snd b).

(* replay of a recorded trace: each event is a label plus the (slot, position) the C code printed.  An event of a
   thread the model believes blocked is explained by one spurious wake-up (counted).  Result: final state,
   number of accepted events, spurious wake-ups used, and whether every event was accepted. *)
Fixpoint replay (P : params) (st : state) (evs : list (label * (nat * nat))) (k sp : nat)
  : state * nat * nat * bool :=
  match evs with
  | [] => (st, k, sp, true)
  | (l, o) :: rest =>
      match (if pair_eqb (obs P st l) o then step P st l else None) with
      | Some st' => replay P st' rest (S k) sp
      | None =>
          match spur_of l with
          | Some sl =>
              match step P st sl with
              | Some st1 =>
                  match (if pair_eqb (obs P st1 l) o then step P st1 l else None) with
                  | Some st' => replay P st' rest (S k) (S sp)
                  | None => (st, k, sp, false)
                  end
              | None => (st, k, sp, false)
              end
          | None => (st, k, sp, false)
          end
      end
  end.
