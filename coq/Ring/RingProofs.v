(* C13 -- consequences of the ring invariant: ownership, order, absence of deadlock, termination measure,
   and the n = 2 deadlock showing that IO_MIN = 3 is needed. *)
From Coq Require Import Arith List Bool Lia.
From Snap.Ring Require Import RingModel RingBase RingInv.
Import ListNotations.

Section Inv.
Variable P : params.
Hypothesis Hn : 3 <= pn P.
Hypothesis HR : 1 <= pR P.
Hypothesis Hposs : Forall (fun p => p < bmax P) (poss P).

Notation n := (pn P).
Notation R := (pR P).
Notation W := (pW P).
Notation L := (length (poss P)).
Notation Inv := (RingInv P).

(* ---------------------------------------------------------------------------------------------- *)
(* ownership *)

(* worker->func of reader w works on slot s (reads from disk into buffer_map[s][...]) *)
Definition reader_on (st : state) (w s : nat) : Prop := wpcs (rget st w) = PRun /\ widx (rget st w) = s.
Definition writer_on (st : state) (w s : nat) : Prop := wpcs (wget st w) = PRun /\ widx (wget st w) = s.

(* the caller looks at the task and the buffer of reader w in slot reader_index once io_data_read /
   io_parity_read has returned it (w left reader_list): the reader has moved to another slot and the task is
   complete, with the position of the current stripe *)
Lemma own_collected : forall st w, Inv st -> cpc st = CWork -> w < R -> ~ In w (rlist st) ->
  widx (rget st w) <> r_idx st /\ get2 (rtask st) (r_idx st) w = fin_t P (cur st).
Proof.
  intros st w I C Hw Hin. destruct (ri_readers P st I w Hw). pose proof (ri_caller P st I) as Ic.
  destruct (co_work P st Ic C) as (HK & Hcur & _).
  assert (F : next_k st + 1 <= wseq (rget st w) + n) by (apply ro_fresh; right; auto).
  rewrite ro_idx, (co_r P st Ic). split.
  - apply mod_window_neq; lia.
  - rewrite Hcur. replace (next_k st mod n) with ((next_k st - n) mod n).
    + apply ro_old; lia.
    + rewrite <- (mod_plus_n (next_k st - n) n) by lia. f_equal. lia.
Qed.

(* no writer is ever on the slot writer_index (io.c:663 assert), which in the caller's work phase is the slot
   whose parity buffers the caller computes and which io_writer_sched rewrites *)
Lemma own_writer : forall st w, Inv st -> w < W -> widx (wget st w) <> w_idx st.
Proof.
  intros st w I Hw. destruct (ri_writers P st I w Hw). pose proof (ri_caller P st I) as Ic.
  rewrite wo_idx, (co_w P st Ic). apply not_eq_sym. apply mod_window_neq; lia.
Qed.

Lemma work_same_slot : forall st, Inv st -> cpc st = CWork -> 0 < W -> w_idx st = r_idx st.
Proof.
  intros st I C HW. pose proof (ri_caller P st I) as Ic. destruct (co_work P st Ic C) as (_ & _ & _ & HM).
  rewrite (co_w P st Ic), (co_r P st Ic), <- (HM HW). symmetry. apply mod_plus_n. lia.
Qed.

(* io_reader_sched (io.c:424) rewrites the tasks of slot reader_index only when no reader is on it *)
Lemma own_sched : forall st st' w, Inv st -> step P st CReadNext = Some st' -> w < R -> widx (rget st w) <> r_idx st.
Proof.
  intros st st' w I H Hw. unfold step in H. cbv zeta in H.
  destruct (is_not_waiting (cwait st)); [|discriminate]. simpl in H.
  destruct (is_cpc (cpc st) CNext || is_cpc (cpc st) CWork && (W =? 0)) eqn:Gc; [|discriminate]. simpl in H.
  destruct (rlist st) eqn:Erl; [|discriminate].
  destruct (ri_readers P st I w Hw). pose proof (ri_caller P st I) as Ic.
  assert (F : next_k st + 1 <= wseq (rget st w) + n).
  { apply ro_fresh. apply orb_true_iff in Gc. destruct Gc as [G|G]; [left; apply is_cpc_eq; exact G|].
    apply andb_true_iff in G. destruct G as [G _]. apply is_cpc_eq in G. right. rewrite Erl. auto. }
  rewrite ro_idx, (co_r P st Ic). apply mod_window_neq; lia.
Qed.

(* a Running task is the current task of its worker *)
Lemma running_is_current : forall st w q p, Inv st -> w < R -> q < next_k st -> next_k st <= q + n ->
  get2 (rtask st) (q mod n) w = Running p -> q = wseq (rget st w) /\ wpcs (rget st w) = PRun.
Proof.
  intros st w q p I Hw Hq Hq' T. destruct (ri_readers P st I w Hw).
  destruct (lt_eq_lt_dec q (wseq (rget st w))) as [[Q|Q]|Q].
  - rewrite ro_old in T by lia. unfold fin_t in T. destruct (_ <? _); discriminate.
  - subst q. split; [reflexivity|]. rewrite ro_cur in T. destruct (wpcs (rget st w)); simpl in T; auto;
      unfold fin_t in T; destruct (_ <? _); discriminate.
  - rewrite ro_pending in T by lia. unfold sched in T. destruct (_ <? _); discriminate.
Qed.

(* ---------------------------------------------------------------------------------------------- *)
(* order *)

Lemma order_handed : forall st, Inv st -> rev (handed st) = firstn (length (handed st)) (poss P).
Proof.
  intros st I. pose proof (ri_caller P st I) as Ic. rewrite (co_handed P st Ic) at 1. rewrite rev_involutive.
  apply map_pos_at_firstn. apply (co_hlen P st Ic).
Qed.

Lemma order_complete : forall st, Inv st -> stopped st -> bailed st = false -> rev (handed st) = poss P.
Proof.
  intros st I S B. rewrite (order_handed st I). pose proof (ri_caller P st I) as Ic.
  destruct (co_stop P st Ic S B) as [E _]. rewrite E. apply firstn_all.
Qed.

Lemma order_written : forall st, Inv st -> map fst (written st) = firstn (M st) (poss P).
Proof.
  intros st I. pose proof (ri_caller P st I) as Ic. rewrite (co_written P st Ic).
  apply map_pos_at_firstn. pose proof (co_hM P st Ic). pose proof (co_hlen P st Ic). lia.
Qed.

Lemma order_writer_prefix : forall st w, Inv st -> w < W ->
  rev (get [] (wgot st) w) = nonskip (firstn (wseq (wget st w)) (written st)).
Proof. intros st w I Hw. apply (wo_got P st w (ri_writers P st I w Hw)). Qed.

Lemma order_writer_final : forall st w, Inv st -> cpc st = CEnd -> w < W ->
  rev (get [] (wgot st) w) = nonskip (written st) /\ (bailed st = false -> map fst (written st) = poss P).
Proof.
  intros st w I C Hw. pose proof (ri_caller P st I) as Ic. destruct (ri_writers P st I w Hw).
  destruct (co_end P st Ic C) as [_ E]. destruct (wo_exit (E w Hw)) as [_ Ev]. split.
  - rewrite wo_got, Ev. unfold M. rewrite firstn_all. reflexivity.
  - intros B. rewrite (order_written st I).
    destruct (co_stop P st Ic (or_intror (or_intror C)) B) as [_ E2]. rewrite E2 by lia. apply firstn_all.
Qed.

(* ---------------------------------------------------------------------------------------------- *)
(* absence of deadlock: in every non-final state satisfying the invariant some thread can take a step that is
   neither a wait, nor a spurious wake-up, nor the caller giving up *)

Definition is_progress (l : label) : bool :=
  match l with
  | RWait _ | WWait _ | CTaskWait _ _ | CParityWait | RSpur _ | WSpur _ | CSpur | CBail => false
  | _ => true
  end.

Definition can_progress (st : state) : Prop := exists l st', is_progress l = true /\ step P st l = Some st'.

Lemma reader_run_moves : forall st w, Inv st -> w < R -> wpcs (rget st w) = PRun -> can_progress st.
Proof.
  intros st w I Hw Epc. destruct (ri_readers P st I w Hw).
  exists (REnd w). unfold step. cbv zeta. assert (Hwb : (w <? R) = true) by (apply Nat.ltb_lt; exact Hw). rewrite Hwb, Epc. simpl.
  rewrite ro_idx, ro_cur, Epc. simpl. unfold run_t. destruct (pos_at P _ <? bmax P); eexists; split; reflexivity.
Qed.

Lemma reader_pending_moves : forall st w, Inv st -> w < R -> done st = false ->
  wseq (rget st w) + 2 <= next_k st -> can_progress st.
Proof.
  intros st w I Hw Hd Hj. destruct (ri_readers P st I w Hw). pose proof (ri_caller P st I) as Ic.
  destruct (wpcs (rget st w)) eqn:Epc.
  - eapply reader_run_moves; eauto.
  - exists (RTake w). unfold step. cbv zeta. assert (Hwb : (w <? R) = true) by (apply Nat.ltb_lt; exact Hw). rewrite Hwb, Epc, Hd. simpl.
    rewrite ro_idx, succ_mod by lia.
    assert (Hne : (wseq (rget st w) + 1) mod n <> r_idx st) by (rewrite (co_r P st Ic); apply mod_window_neq; lia).
    apply Nat.eqb_neq in Hne. rewrite Hne. rewrite ro_pending by lia. unfold sched.
    destruct (pos_at P _ <? bmax P); eexists; split; reflexivity.
  - destruct (ro_blocked eq_refl). lia.
  - rewrite (ro_exit eq_refl) in Hd. discriminate.
Qed.

Lemma reader_stop_moves : forall st w, Inv st -> w < R -> done st = true -> wpcs (rget st w) <> PExit -> can_progress st.
Proof.
  intros st w I Hw Hd Hne. destruct (ri_readers P st I w Hw).
  destruct (wpcs (rget st w)) eqn:Epc.
  - eapply reader_run_moves; eauto.
  - exists (RExit w). unfold step. cbv zeta. assert (Hwb : (w <? R) = true) by (apply Nat.ltb_lt; exact Hw). rewrite Hwb, Epc, Hd. simpl.
    eexists; split; reflexivity.
  - destruct (ro_blocked eq_refl). congruence.
  - congruence.
Qed.

Lemma writer_run_moves : forall st w, Inv st -> w < W -> wpcs (wget st w) = PRun -> can_progress st.
Proof.
  intros st w I Hw Epc. destruct (ri_writers P st I w Hw). destruct (wo_run Epc) as [Hv Es].
  exists (WEnd w). unfold step. cbv zeta. assert (Hwb : (w <? W) = true) by (apply Nat.ltb_lt; exact Hw). rewrite Hwb, Epc. simpl.
  rewrite wo_idx, (widx_prev P Hn HR) by exact Hv. rewrite (wo_cur Hv), Epc. unfold wcur_t. rewrite Es. simpl.
  eexists; split; reflexivity.
Qed.

Lemma writer_pending_moves : forall st w, Inv st -> w < W -> wseq (wget st w) < M st -> can_progress st.
Proof.
  intros st w I Hw Hv. destruct (ri_writers P st I w Hw). pose proof (ri_caller P st I) as Ic.
  destruct (wpcs (wget st w)) eqn:Epc.
  - eapply writer_run_moves; eauto.
  - exists (WTake w). unfold step. cbv zeta. assert (Hwb : (w <? W) = true) by (apply Nat.ltb_lt; exact Hw). rewrite Hwb, Epc. simpl.
    rewrite wo_idx, (widx_next P Hn HR).
    assert (Hne : wseq (wget st w) mod n <> w_idx st) by (rewrite (co_w P st Ic); apply mod_window_neq; lia).
    apply Nat.eqb_neq in Hne. rewrite Hne. rewrite wo_pending by lia. unfold wsched.
    destruct (snd (wr_at st (wseq (wget st w)))); eexists; split; reflexivity.
  - destruct (wo_blocked eq_refl). lia.
  - destruct (wo_exit eq_refl). lia.
Qed.

Lemma writer_stop_moves : forall st w, Inv st -> w < W -> done st = true -> wpcs (wget st w) <> PExit -> can_progress st.
Proof.
  intros st w I Hw Hd Hne. destruct (ri_writers P st I w Hw). pose proof (ri_caller P st I) as Ic.
  destruct (Nat.eq_dec (wseq (wget st w)) (M st)) as [Ev|Ev]; [|eapply writer_pending_moves; eauto; lia].
  destruct (wpcs (wget st w)) eqn:Epc.
  - eapply writer_run_moves; eauto.
  - exists (WExit w). unfold step. cbv zeta. assert (Hwb : (w <? W) = true) by (apply Nat.ltb_lt; exact Hw). rewrite Hwb, Epc, Hd. simpl.
    rewrite wo_idx, (widx_next P Hn HR), Ev, <- (co_w P st Ic), Nat.eqb_refl. simpl. eexists; split; reflexivity.
  - destruct (wo_blocked eq_refl). congruence.
  - congruence.
Qed.

Theorem no_deadlock : forall st, Inv st -> is_final st = false -> can_progress st.
Proof.
  intros st I Hf. pose proof (ri_caller P st I) as Ic. unfold is_final in Hf.
  destruct (cpc st) eqn:C; try discriminate.
  - (* CNext *)
    destruct (co_next P st Ic C) as (Erl & Ecw & _).
    exists CReadNext. unfold step. cbv zeta. rewrite Ecw, C, Erl. simpl.
    destruct (_ <? bmax P); eexists; split; reflexivity.
  - (* CWork *)
    assert (Hd : done st = false).
    { destruct (done st) eqn:D; [|reflexivity]. apply (co_done P st Ic) in D. destruct D; congruence. }
    destruct (cwait st) eqn:Ecw.
    + destruct (rlist st) as [|w1 rl] eqn:Erl.
      * destruct (Nat.eq_dec W 0) as [W0|W0].
        -- exists CReadNext. unfold step. cbv zeta. rewrite Ecw, C, Erl, W0. simpl.
           destruct (_ <? bmax P); eexists; split; reflexivity.
        -- assert (W0b : (W =? 0) = false) by (apply Nat.eqb_neq; exact W0).
           destruct (wlist st) as [|w1 wl] eqn:Ewl.
           ++ exists (CWriteNext false). unfold step. cbv zeta. rewrite Ecw, C, W0b, Erl, Ewl. simpl.
              rewrite (work_same_slot st I C) by lia. rewrite Nat.eqb_refl. simpl. eexists; split; reflexivity.
           ++ destruct (wscan_total st ((w_idx st + 1) mod n) (wlist st)) as [N|[w N]].
              ** intros w Hw. apply own_writer; auto. apply (co_wlist P st Ic). exact Hw.
              ** assert (Hin : In w1 (wlist st)) by (rewrite Ewl; left; reflexivity).
                 pose proof (co_wlist P st Ic w1 Hin) as Hw1.
                 pose proof (wscan_none _ _ _ N w1 Hin) as Hb. rewrite (busy_eq P Hn HR st Ic) in Hb.
                 destruct (ri_writers P st I w1 Hw1). rewrite wo_idx in Hb.
                 symmetry in Hb. apply mod_window_eq in Hb; [|lia|lia].
                 apply writer_pending_moves with (w := w1); auto. lia.
              ** exists (CParityWrite w). unfold step. cbv zeta. rewrite Ecw, C, Erl. simpl.
                 rewrite N, Nat.eqb_refl. eexists; split; reflexivity.
      * destruct (rscan st 0 R) as [w'|] eqn:Es.
        -- exists (CTaskRead 0 R w'). unfold step. cbv zeta. rewrite Ecw, C. simpl. rewrite Es, Nat.eqb_refl.
           eexists; split; reflexivity.
        -- assert (Hin : In w1 (rlist st)) by (rewrite Erl; left; reflexivity).
           pose proof (co_rlist P st Ic w1 Hin) as Hw1.
           unfold rscan in Es. pose proof (find_none _ _ Es w1 Hin) as Hp. simpl in Hp.
           assert (Hr : in_range 0 R w1 = true) by (apply in_range_spec; lia). rewrite Hr in Hp. simpl in Hp.
           apply negb_false_iff, Nat.eqb_eq in Hp.
           destruct (ri_readers P st I w1 Hw1). rewrite ro_idx, (co_r P st Ic) in Hp.
           rewrite <- (mod_plus_n (wseq (rget st w1)) n) in Hp by lia. symmetry in Hp.
           apply mod_window_eq in Hp; [|lia|lia].
           apply reader_pending_moves with (w := w1); auto. lia.
    + destruct (co_wait_r P st Ic base count Ecw) as (_ & (w & Hin & Hr) & Hall).
      pose proof (Hall w Hin Hr). apply reader_pending_moves with (w := w); auto.
      * apply (co_rlist P st Ic). exact Hin.
      * lia.
    + destruct (co_wait_w P st Ic Ecw) as (_ & _ & Hne & Hall).
      destruct (wlist st) as [|w wl] eqn:Ewl; [congruence|].
      assert (Hin : In w (wlist st)) by (rewrite Ewl; left; reflexivity). rewrite <- Ewl in Hall.
      pose proof (Hall w Hin). apply writer_pending_moves with (w := w); auto.
      * apply (co_wlist P st Ic). exact Hin.
      * lia.
  - (* CStopping *)
    exists CStop. unfold step. rewrite C. simpl. eexists; split; reflexivity.
  - (* CJoining *)
    assert (Hd : done st = true) by (apply (co_done P st Ic); auto).
    destruct (forallb (fun w => is_pc (wpcs (rget st w)) PExit) (seq 0 R)) eqn:Fr.
    + destruct (forallb (fun w => is_pc (wpcs (wget st w)) PExit) (seq 0 W)) eqn:Fw.
      * exists CJoin. unfold step. rewrite C, Fr, Fw. simpl. eexists; split; reflexivity.
      * apply forallb_seq_false in Fw. destruct Fw as [w [Hw Hp]].
        apply writer_stop_moves with (w := w); auto. intros E. rewrite E in Hp. discriminate.
    + apply forallb_seq_false in Fr. destruct Fr as [w [Hw Hp]].
      apply reader_stop_moves with (w := w); auto. intros E. rewrite E in Hp. discriminate.
Qed.


(* ---------------------------------------------------------------------------------------------- *)
(* termination measure: a natural number that strictly decreases with every step that is not a wait or a spurious
   wake-up, and never increases.  With no_deadlock: under weak fairness every run reaches the final state, and
   the number of non-wait steps of any run is at most mu (init P). *)

Definition pc_w (p : wpc) : nat := match p with PRun => 2 | PStep => 1 | PBlocked => 1 | PExit => 0 end.
Definition rm (ws : wstate) : nat := 2 * (L + n - 1 - wseq ws) + pc_w (wpcs ws).
Definition wm (ws : wstate) : nat := 2 * (L - wseq ws) + pc_w (wpcs ws).
Fixpoint sumf (f : nat -> nat) (k : nat) : nat := match k with 0 => 0 | S k' => sumf f k' + f k' end.
Definition cm (st : state) : nat :=
  match cpc st with
  | CNext => (L + n - next_k st) * (R + W + 3) + 3
  | CWork => (L + n - next_k st) * (R + W + 3) + length (rlist st) + length (wlist st) + 4
  | CStopping => 2
  | CJoining => 1
  | CEnd => 0
  end.
Definition mu (st : state) : nat :=
  cm st + sumf (fun w => rm (rget st w)) R + sumf (fun w => wm (wget st w)) W.

Lemma sumf_ext : forall f g k, (forall w, w < k -> f w = g w) -> sumf f k = sumf g k.
Proof. intros f g k. induction k; simpl; intros H; [reflexivity|]. rewrite IHk by (intros; apply H; lia). rewrite H by lia. reflexivity. Qed.

Lemma sumf_upd : forall f g k w, w < k -> (forall w', w' < k -> w' <> w -> g w' = f w') ->
  sumf g k + f w = sumf f k + g w.
Proof.
  intros f g k w. induction k; intros Hw H; [lia|]. simpl.
  destruct (Nat.eq_dec w k) as [->|N].
  - rewrite (sumf_ext g f k) by (intros; apply H; lia). lia.
  - rewrite (H k) by lia. assert (sumf g k + f w = sumf f k + g w) by (apply IHk; [lia|intros; apply H; lia]). lia.
Qed.

Lemma rm_unblock : forall ws, rm (unblock ws) = rm ws.
Proof. intros [i [] s]; reflexivity. Qed.
Lemma wm_unblock : forall ws, wm (unblock ws) = wm ws.
Proof. intros [i [] s]; reflexivity. Qed.

Lemma mu_upd_reader : forall st w ws' t c, w < R ->
  mu (upd_reader st (set wdflt (rd st) w ws') t c) + rm (rget st w) = mu st + rm ws'.
Proof.
  intros st w ws' t c Hw. unfold mu.
  assert (E : sumf (fun w0 => rm (rget (upd_reader st (set wdflt (rd st) w ws') t c) w0)) R + rm (rget st w)
              = sumf (fun w0 => rm (rget st w0)) R + rm ws').
  { rewrite (sumf_upd (fun w0 => rm (rget st w0)) (fun w0 => rm (rget (upd_reader st (set wdflt (rd st) w ws') t c) w0)) R w Hw).
    - rewrite rget_upd_eq. reflexivity.
    - intros w' _ N. unfold rget, upd_reader; simpl. rewrite get_set_neq by auto. reflexivity. }
  change (cm (upd_reader st (set wdflt (rd st) w ws') t c)) with (cm st).
  change (sumf (fun w0 => wm (wget (upd_reader st (set wdflt (rd st) w ws') t c) w0)) W) with (sumf (fun w0 => wm (wget st w0)) W).
  lia.
Qed.

Lemma mu_upd_writer : forall st w ws' t c g, w < W ->
  mu (upd_writer st (set wdflt (wr st) w ws') t c g) + wm (wget st w) = mu st + wm ws'.
Proof.
  intros st w ws' t c g Hw. unfold mu.
  assert (E : sumf (fun w0 => wm (wget (upd_writer st (set wdflt (wr st) w ws') t c g) w0)) W + wm (wget st w)
              = sumf (fun w0 => wm (wget st w0)) W + wm ws').
  { rewrite (sumf_upd (fun w0 => wm (wget st w0)) (fun w0 => wm (wget (upd_writer st (set wdflt (wr st) w ws') t c g) w0)) W w Hw).
    - rewrite wget_upd_eq. reflexivity.
    - intros w' _ N. unfold wget, upd_writer; simpl. rewrite get_set_neq by auto. reflexivity. }
  change (cm (upd_writer st (set wdflt (wr st) w ws') t c g)) with (cm st).
  change (sumf (fun w0 => rm (rget (upd_writer st (set wdflt (wr st) w ws') t c g) w0)) R) with (sumf (fun w0 => rm (rget st w0)) R).
  lia.
Qed.

Lemma mu_upd_caller : forall st c' cw rl wl b,
  mu (upd_caller st c' cw rl wl b) + cm st = mu st + cm (upd_caller st c' cw rl wl b).
Proof. intros. unfold mu. simpl. change (rget (upd_caller st c' cw rl wl b)) with (rget st). change (wget (upd_caller st c' cw rl wl b)) with (wget st). lia. Qed.

Ltac grd H G :=
  match type of H with
  | (if negb ?b then None else _) = Some _ => destruct b eqn:G; [cbn [negb] in H|discriminate H]
  | (if ?b then None else _) = Some _ => destruct b eqn:G; [discriminate H|]
  end.

Lemma ML_bound : forall st, Inv st -> M st <= L.
Proof. intros st I. pose proof (ri_caller P st I) as Ic. pose proof (co_hM P st Ic). pose proof (co_hlen P st Ic). lia. Qed.

Theorem mu_step : forall st l st', Inv st -> step P st l = Some st' ->
  mu st' <= mu st /\ (is_progress l = true -> mu st' < mu st).
Proof.
  intros st l st' I H. pose proof (ri_caller P st I) as Ic. pose proof (co_Kmax P st Ic) as HKm.
  pose proof (ML_bound st I) as HML.
  destruct l; unfold step in H; cbv zeta in H.
  - (* RTake *)
    grd H Gw. grd H Gpc. grd H Gd. grd H Gn. apply Nat.ltb_lt in Gw. apply is_pc_eq in Gpc. apply Nat.eqb_neq in Gn.
    destruct (ri_readers P st I w Gw).
    assert (Hj : wseq (rget st w) + 2 <= next_k st).
    { destruct (Nat.eq_dec (wseq (rget st w) + 1) (next_k st)) as [E|E]; [|lia]. exfalso. apply Gn.
      rewrite ro_idx, succ_mod, E by lia. symmetry. apply (co_r P st Ic). }
    destruct (get2 (rtask st) _ w); try discriminate; inversion H; subst st'; clear H;
      match goal with |- context [upd_reader st (set wdflt (rd st) w ?ws') ?t ?c] =>
        pose proof (mu_upd_reader st w ws' t c Gw) as E end;
      unfold rm in E; rewrite Gpc in E; simpl in E; (split; [|intros _]; lia).
  - (* REnd *)
    grd H Gw. grd H Gpc. apply Nat.ltb_lt in Gw. apply is_pc_eq in Gpc.
    destruct (get2 (rtask st) _ w); try discriminate; inversion H; subst st'; clear H;
      match goal with |- context [upd_reader st (set wdflt (rd st) w ?ws') ?t ?c] =>
        pose proof (mu_upd_reader st w ws' t c Gw) as E end;
      unfold rm in E; rewrite Gpc in E; simpl in E; (split; [|intros _]; lia).
  - (* RWait *)
    grd H Gw. grd H Gpc. grd H Gd. grd H Gn. apply Nat.ltb_lt in Gw. apply is_pc_eq in Gpc.
    inversion H; subst st'; clear H.
    match goal with |- context [upd_reader st (set wdflt (rd st) w ?ws') ?t ?c] =>
      pose proof (mu_upd_reader st w ws' t c Gw) as E end.
    unfold rm in E; rewrite Gpc in E; simpl in E. split; [lia|discriminate].
  - (* RExit *)
    grd H Gw. grd H Gpc. grd H Gd. apply Nat.ltb_lt in Gw. apply is_pc_eq in Gpc.
    inversion H; subst st'; clear H.
    match goal with |- context [upd_reader st (set wdflt (rd st) w ?ws') ?t ?c] =>
      pose proof (mu_upd_reader st w ws' t c Gw) as E end.
    unfold rm in E; rewrite Gpc in E; simpl in E. split; [|intros _]; lia.
  - (* RSpur *)
    grd H Gw. grd H Gpc. apply Nat.ltb_lt in Gw. apply is_pc_eq in Gpc.
    inversion H; subst st'; clear H.
    match goal with |- context [upd_reader st (set wdflt (rd st) w ?ws') ?t ?c] =>
      pose proof (mu_upd_reader st w ws' t c Gw) as E end.
    unfold rm in E; rewrite Gpc in E; simpl in E. split; [lia|discriminate].
  - (* WTake *)
    grd H Gw. grd H Gpc. grd H Gn. apply Nat.ltb_lt in Gw. apply is_pc_eq in Gpc. apply Nat.eqb_neq in Gn.
    destruct (ri_writers P st I w Gw).
    assert (Hv : wseq (wget st w) + 1 <= M st).
    { destruct (Nat.eq_dec (wseq (wget st w)) (M st)) as [E|E]; [|lia]. exfalso. apply Gn.
      rewrite wo_idx, (widx_next P Hn HR), E. symmetry. apply (co_w P st Ic). }
    destruct (get2 (wtask st) _ w); try discriminate; inversion H; subst st'; clear H;
      match goal with |- context [upd_writer st (set wdflt (wr st) w ?ws') ?t ?c ?g] =>
        pose proof (mu_upd_writer st w ws' t c g Gw) as E end;
      unfold wm in E; rewrite Gpc in E; simpl in E; (split; [|intros _]; lia).
  - (* WEnd *)
    grd H Gw. grd H Gpc. apply Nat.ltb_lt in Gw. apply is_pc_eq in Gpc.
    destruct (get2 (wtask st) _ w); try discriminate; inversion H; subst st'; clear H;
      match goal with |- context [upd_writer st (set wdflt (wr st) w ?ws') ?t ?c ?g] =>
        pose proof (mu_upd_writer st w ws' t c g Gw) as E end;
      unfold wm in E; rewrite Gpc in E; simpl in E; (split; [|intros _]; lia).
  - (* WWait *)
    grd H Gw. grd H Gpc. grd H Gn. grd H Gd. apply Nat.ltb_lt in Gw. apply is_pc_eq in Gpc.
    inversion H; subst st'; clear H.
    match goal with |- context [upd_writer st (set wdflt (wr st) w ?ws') ?t ?c ?g] =>
      pose proof (mu_upd_writer st w ws' t c g Gw) as E end.
    unfold wm in E; rewrite Gpc in E; simpl in E. split; [lia|discriminate].
  - (* WExit *)
    grd H Gw. grd H Gpc. grd H Gn. grd H Gd. apply Nat.ltb_lt in Gw. apply is_pc_eq in Gpc.
    inversion H; subst st'; clear H.
    match goal with |- context [upd_writer st (set wdflt (wr st) w ?ws') ?t ?c ?g] =>
      pose proof (mu_upd_writer st w ws' t c g Gw) as E end.
    unfold wm in E; rewrite Gpc in E; simpl in E. split; [|intros _]; lia.
  - (* WSpur *)
    grd H Gw. grd H Gpc. apply Nat.ltb_lt in Gw. apply is_pc_eq in Gpc.
    inversion H; subst st'; clear H.
    match goal with |- context [upd_writer st (set wdflt (wr st) w ?ws') ?t ?c ?g] =>
      pose proof (mu_upd_writer st w ws' t c g Gw) as E end.
    unfold wm in E; rewrite Gpc in E; simpl in E. split; [lia|discriminate].
  - (* CReadNext *)
    grd H Gnw. grd H Gc.
    destruct (rlist st) eqn:Erl; [|discriminate].
    assert (Hc : cpc st = CNext \/ (cpc st = CWork /\ W = 0)).
    { apply orb_true_iff in Gc. destruct Gc as [G|G]; [left; apply is_cpc_eq; exact G|].
      apply andb_true_iff in G. destruct G as [G1 G2]. apply is_cpc_eq in G1. apply Nat.eqb_eq in G2. auto. }
    assert (Hh : length (handed st) + n = next_k st + 1) by (apply (co_hwork P st Ic); tauto).
    pose proof (co_hlen P st Ic) as HhL. pose proof (co_wlen P st Ic) as Hwl.
    assert (Hmul : (L + n - next_k st) * (R + W + 3) = (L + n - S (next_k st)) * (R + W + 3) + (R + W + 3)).
    { replace (L + n - next_k st) with (S (L + n - S (next_k st))) by lia. simpl. lia. }
    assert (Hold : (L + n - next_k st) * (R + W + 3) + 3 <= cm st).
    { unfold cm. destruct Hc as [C|[C _]]; rewrite C; lia. }
    assert (Hsum : forall c' rl cu hd,
       mu (mkS ((r_idx st + 1) mod n) (w_idx st) (S (next_k st)) (done st)
                (setrow (rtask st) (r_idx st) R (sched P (pos_at P (next_k st)))) (wtask st) (map unblock (rd st))
                (wr st) c' NotWaiting rl (wlist st) cu hd (written st) (wgot st) (bailed st)) + cm st
       = mu st + cm (mkS ((r_idx st + 1) mod n) (w_idx st) (S (next_k st)) (done st)
                (setrow (rtask st) (r_idx st) R (sched P (pos_at P (next_k st)))) (wtask st) (map unblock (rd st))
                (wr st) c' NotWaiting rl (wlist st) cu hd (written st) (wgot st) (bailed st))).
    { intros. unfold mu.
      match goal with |- _ + sumf ?f R + sumf ?g W + _ = _ =>
        rewrite (sumf_ext f (fun w => rm (rget st w)) R)
          by (intros; unfold rget; cbn [rd]; rewrite get_map_unblock; apply rm_unblock);
        change (sumf g W) with (sumf (fun w => wm (wget st w)) W) end.
      lia. }
    destruct (_ <? bmax P); inversion H; subst st'; clear H;
      match goal with |- context [mkS _ _ _ _ _ _ _ _ ?c' _ ?rl _ ?cu ?hd _ _ _] => pose proof (Hsum c' rl cu hd) as E end;
      unfold cm at 2 in E; cbn [cpc rlist wlist next_k] in E; rewrite ?seq_length in E;
      match type of E with ?m + cm st = _ => set (mm := m) in * end;
      set (X := (L + n - S (next_k st)) * (R + W + 3)) in *; set (Y := (L + n - next_k st) * (R + W + 3)) in *; clearbody mm X Y;
      (split; [|intros _]; lia).
  - (* CTaskRead *)
    grd H Gnw. grd H Gc. apply is_cpc_eq in Gc.
    destruct (rscan st base count) as [w'|] eqn:Es; [|discriminate].
    destruct (Nat.eqb_spec w' w) as [->|]; [|discriminate]. inversion H; subst st'; clear H.
    unfold rscan in Es. apply find_some in Es. destruct Es as [Hin _].
    pose proof (without_length_lt w (rlist st) Hin) as Hlt.
    match goal with |- context [upd_caller st ?c' ?cw ?rl ?wl ?b] => pose proof (mu_upd_caller st c' cw rl wl b) as E end.
    unfold cm in E. cbn [cpc rlist wlist next_k upd_caller] in E. rewrite Gc in E. split; [|intros _]; lia.
  - (* CTaskWait *)
    grd H Gnw. grd H Gc. grd H Gex. apply is_cpc_eq in Gc.
    destruct (rscan st base count); [discriminate|]. inversion H; subst st'; clear H.
    match goal with |- context [upd_caller st ?c' ?cw ?rl ?wl ?b] => pose proof (mu_upd_caller st c' cw rl wl b) as E end.
    unfold cm in E. cbn [cpc rlist wlist next_k upd_caller] in E. rewrite Gc in E. split; [lia|discriminate].
  - (* CParityWrite *)
    grd H Gnw. grd H Gc. apply is_cpc_eq in Gc.
    destruct (rlist st) eqn:Erl; [|discriminate].
    destruct (wscan st ((w_idx st + 1) mod n) (wlist st)) as [[w'|]|] eqn:Es; try discriminate.
    destruct (Nat.eqb_spec w' w) as [->|]; [|discriminate]. inversion H; subst st'; clear H.
    apply wscan_some in Es. destruct Es as [Hin _].
    pose proof (without_length_lt w (wlist st) Hin) as Hlt.
    match goal with |- context [upd_caller st ?c' ?cw ?rl ?wl ?b] => pose proof (mu_upd_caller st c' cw rl wl b) as E end.
    unfold cm in E. cbn [cpc rlist wlist next_k upd_caller] in E. rewrite Gc, Erl in E. simpl length in E.
    split; [|intros _]; lia.
  - (* CParityWait *)
    grd H Gnw. grd H Gc. apply is_cpc_eq in Gc.
    destruct (rlist st) eqn:Erl; [|discriminate].
    destruct (wlist st) as [|w1 wl] eqn:Ewl; [discriminate|]. rewrite <- Ewl in *.
    destruct (wscan st ((w_idx st + 1) mod n) (wlist st)) as [[w'|]|] eqn:Es; try discriminate.
    inversion H; subst st'; clear H.
    match goal with |- context [upd_caller st ?c' ?cw ?rl ?wl ?b] => pose proof (mu_upd_caller st c' cw rl wl b) as E end.
    unfold cm in E. cbn [cpc rlist wlist next_k upd_caller] in E. rewrite Gc, Erl in E. split; [lia|discriminate].




  - (* CWriteNext *)
    grd H Gnw. grd H Gc. grd H GW. apply is_cpc_eq in Gc.
    destruct (rlist st) eqn:Erl; [|discriminate].
    destruct (wlist st) as [|w1 wl] eqn:Ewl; [|discriminate].
    grd H Gi. inversion H; subst st'; clear H.
    unfold mu.
    match goal with |- context [_ + sumf ?f R + sumf ?g W] =>
      change (sumf f R) with (sumf (fun w => rm (rget st w)) R);
      rewrite (sumf_ext g (fun w => wm (wget st w)) W)
        by (intros; unfold wget; cbn [wr]; rewrite get_map_unblock; apply wm_unblock) end.
    unfold cm. cbn [cpc rlist wlist next_k]. rewrite Gc, Erl, Ewl. simpl length. split; [|intros _]; lia.
  - (* CSpur *)
    destruct (is_not_waiting (cwait st)); [discriminate|]. inversion H; subst st'; clear H.
    match goal with |- context [upd_caller st ?c' ?cw ?rl ?wl ?b] => pose proof (mu_upd_caller st c' cw rl wl b) as E end.
    unfold cm in E. cbn [cpc rlist wlist next_k upd_caller] in E.
    set (Y := (L + n - next_k st) * (R + W + 3)) in *; clearbody Y.
    destruct (cpc st); (split; [lia|discriminate]).
  - (* CBail *)
    grd H Gnw. grd H Gc. inversion H; subst st'; clear H.
    match goal with |- context [upd_caller st ?c' ?cw ?rl ?wl ?b] => pose proof (mu_upd_caller st c' cw rl wl b) as E end.
    unfold cm in E. cbn [cpc rlist wlist next_k upd_caller] in E.
    set (Y := (L + n - next_k st) * (R + W + 3)) in *; clearbody Y.
    apply orb_true_iff in Gc. destruct Gc as [G|G]; apply is_cpc_eq in G; rewrite G in E; (split; [lia|discriminate]).
  - (* CStop *)
    grd H Gc. apply is_cpc_eq in Gc. inversion H; subst st'; clear H.
    unfold mu.
    match goal with |- context [_ + sumf ?f R + sumf ?g W] =>
      rewrite (sumf_ext f (fun w => rm (rget st w)) R)
        by (intros; unfold rget; cbn [rd]; rewrite get_map_unblock; apply rm_unblock);
      rewrite (sumf_ext g (fun w => wm (wget st w)) W)
        by (intros; unfold wget; cbn [wr]; rewrite get_map_unblock; apply wm_unblock) end.
    unfold cm. cbn [cpc]. rewrite Gc. split; [|intros _]; lia.
  - (* CJoin *)
    grd H Gc. grd H Gr. grd H Gw. apply is_cpc_eq in Gc. inversion H; subst st'; clear H.
    match goal with |- context [upd_caller st ?c' ?cw ?rl ?wl ?b] => pose proof (mu_upd_caller st c' cw rl wl b) as E end.
    unfold cm in E. cbn [cpc rlist wlist next_k upd_caller] in E. rewrite Gc in E. split; [|intros _]; lia.
Qed.

(* every run makes at most mu (init P) steps that are not waits / spurious wake-ups *)
Lemma mu_init_bound : mu (init P) <= (L + 1) * (R + W + 3) + 3 + R * (2 * (L + n) + 2) + W * (2 * L + 1).
Proof.
  unfold mu, cm, init. cbn [cpc next_k].
  assert (A : forall k, sumf (fun w => rm (rget (init P) w)) k <= k * (2 * (L + n) + 2)).
  { induction k; simpl; [lia|].
    assert (rm (rget (init P) k) <= 2 * (L + n) + 2).
    { unfold rm. pose proof (Nat.lt_ge_cases k R) as [Q|Q].
      - unfold rget, init; simpl rd. rewrite get_repeat by exact Q. simpl. lia.
      - unfold rget, init; simpl rd. unfold get. rewrite nth_overflow by (rewrite repeat_length; exact Q). simpl. lia. }
    lia. }
  assert (B : forall k, sumf (fun w => wm (wget (init P) w)) k <= k * (2 * L + 1)).
  { induction k; simpl; [lia|].
    assert (wm (wget (init P) k) <= 2 * L + 1).
    { unfold wm. pose proof (Nat.lt_ge_cases k W) as [Q|Q].
      - unfold wget, init; simpl wr. rewrite get_repeat by exact Q. simpl. lia.
      - unfold wget, init; simpl wr. unfold get. rewrite nth_overflow by (rewrite repeat_length; exact Q). simpl. lia. }
    lia. }
  specialize (A R). specialize (B W).
  replace (L + n - (n - 1)) with (L + 1) by lia.
  change (sumf (fun w => rm (rget (init P) w)) R) with (sumf (fun w => rm (rget (init P) w)) R) in A.
  unfold init in A, B. lia.
Qed.


End Inv.

(* ---------------------------------------------------------------------------------------------- *)
(* runs *)

Fixpoint run (P : params) (st : state) (ls : list label) : option state :=
  match ls with
  | [] => Some st
  | l :: t => match step P st l with Some st' => run P st' t | None => None end
  end.

Lemma reachable_run : forall P st ls st', reachable P st -> run P st ls = Some st' -> reachable P st'.
Proof.
  intros P st ls; revert st. induction ls; simpl; intros st st' Hr H.
  - inversion H; subst; exact Hr.
  - destruct (step P st a) eqn:E; [|discriminate]. eapply IHls; [|exact H]. eapply reach_step; eauto.
Qed.

(* ---------------------------------------------------------------------------------------------- *)
(* IO_MIN = 3 is needed: with two slots, one reader, one writer and a single stripe everybody ends up waiting *)

Definition P2 : params := mkP 2 1 1 [0] 1.
Definition n2_trace : list label :=
  [CReadNext; REnd 0; RTake 0; CTaskRead 0 1 0; CParityWait; WWait 0; RWait 0].

Definition n2_dead : state :=
  match run P2 (init P2) n2_trace with Some st => st | None => init P2 end.

Definition n2_variant (st : state) (rb wb cb : bool) : state :=
  let ws := rget st 0 in
  let st1 := if rb then st else upd_reader st (set wdflt (rd st) 0 (mkW (widx ws) PStep (wseq ws))) (rtask st) (cwait st) in
  let ws2 := wget st1 0 in
  let st2 := if wb then st1 else upd_writer st1 (set wdflt (wr st1) 0 (mkW (widx ws2) PStep (wseq ws2))) (wtask st1) (cwait st1) (wgot st1) in
  if cb then st2 else upd_caller st2 (cpc st2) NotWaiting (rlist st2) (wlist st2) (bailed st2).

Definition n2_dead_set : list state :=
  [n2_variant n2_dead true true true; n2_variant n2_dead true true false;
   n2_variant n2_dead true false true; n2_variant n2_dead true false false;
   n2_variant n2_dead false true true; n2_variant n2_dead false true false;
   n2_variant n2_dead false false true; n2_variant n2_dead false false false].

Lemma n2_reached : run P2 (init P2) n2_trace = Some n2_dead.
Proof. vm_compute. reflexivity. Qed.

Lemma n2_all_blocked :
  wpcs (rget n2_dead 0) = PBlocked /\ wpcs (wget n2_dead 0) = PBlocked /\ cwait n2_dead = OnWriteDone /\
  is_final n2_dead = false.
Proof. vm_compute. repeat split; reflexivity. Qed.

Ltac in_dead_set := vm_compute; repeat first [left; reflexivity | right]; fail.


Lemma n2_closed : forall st l st', l <> CBail -> In st n2_dead_set -> step P2 st l = Some st' -> In st' n2_dead_set.
Proof.
  intros st l st' Hl Hin H.
  vm_compute in Hin.
  repeat (destruct Hin as [<-|Hin]; [
    destruct l; try (exfalso; apply Hl; reflexivity); try (destruct w as [|w]); vm_compute in H; try discriminate;
    try (inversion H; subst st'; in_dead_set) |]).
  contradiction.
Qed.

Lemma n2_dead_not_final : forall st, In st n2_dead_set -> is_final st = false.
Proof.
  intros st Hin. vm_compute in Hin. repeat (destruct Hin as [<-|Hin]; [reflexivity|]). contradiction.
Qed.

Lemma n2_only_waits : forall st l st', In st n2_dead_set -> step P2 st l = Some st' -> is_progress l = false.
Proof.
  intros st l st' Hin H.
  vm_compute in Hin.
  repeat (destruct Hin as [<-|Hin]; [
    destruct l; try reflexivity; try (destruct w as [|w]); vm_compute in H; discriminate |]).
  contradiction.
Qed.

(* the hypothesis 3 <= n of the theorems is used: for n = 2 a reachable state exists in which reader, writer
   and caller are all blocked in thread_cond_wait, from which (unless the caller gives up) every run stays
   among eight non-final states and only waits / spurious wake-ups are possible *)
Theorem n2_deadlock :
  reachable P2 n2_dead /\
  wpcs (rget n2_dead 0) = PBlocked /\ wpcs (wget n2_dead 0) = PBlocked /\ cwait n2_dead = OnWriteDone /\
  (forall ls st', ~ In CBail ls -> run P2 n2_dead ls = Some st' -> is_final st' = false) /\
  (forall ls st' l st'', ~ In CBail ls -> run P2 n2_dead ls = Some st' -> step P2 st' l = Some st'' -> is_progress l = false).
Proof.
  assert (Hclosed : forall ls st st', ~ In CBail ls -> In st n2_dead_set -> run P2 st ls = Some st' -> In st' n2_dead_set).
  { induction ls as [|a ls IH]; intros st st' Hb Hin H.
    - cbn [run] in H. inversion H; subst; exact Hin.
    - cbn [run] in H. destruct (step P2 st a) eqn:E; [|discriminate].
      apply not_in_cons in Hb. destruct Hb as [Hb1 Hb2].
      apply IH with (st := s); [exact Hb2| |exact H].
      apply n2_closed with (st := st) (l := a); [congruence|exact Hin|exact E]. }
  assert (Hd : In n2_dead n2_dead_set) by (left; vm_compute; reflexivity).
  split; [apply reachable_run with (st := init P2) (ls := n2_trace); [apply reach_init|apply n2_reached]|].
  destruct n2_all_blocked as (A & B & C & _).
  split; [exact A|]. split; [exact B|]. split; [exact C|]. split.
  - intros ls st' Hb H. apply n2_dead_not_final. eapply Hclosed; eauto.
  - intros ls st' l st'' Hb H Hs. eapply n2_only_waits; [|exact Hs]. eapply Hclosed; eauto.
Qed.




(* ---------------------------------------------------------------------------------------------- *)
(* stop; start at the next block (the autosave of sync.c): two ring sessions back to back.  Session 1 runs on the
   position list l and is stopped early after h stripes, session 2 is started on the rest of the list and runs to
   the end of the range: together the caller is handed exactly l, each position once and in order. *)

Lemma restart_order : forall P1 P2 st1 st2,
  RingInv P1 st1 -> RingInv P2 st2 ->
  poss P2 = skipn (length (handed st1)) (poss P1) ->
  stopped st2 -> bailed st2 = false ->
  rev (handed st1) ++ rev (handed st2) = poss P1.
Proof.
  intros P1 P2 st1 st2 I1 I2 E S B.
  rewrite (order_handed P1 st1 I1), (order_complete P2 st2 I2 S B), E. apply firstn_skipn.
Qed.

Lemma restart_written : forall P1 P2 st1 st2,
  3 <= pn P1 -> 1 <= pR P1 -> 3 <= pn P2 -> 1 <= pR P2 -> 0 < pW P2 ->
  RingInv P1 st1 -> RingInv P2 st2 ->
  poss P2 = skipn (M st1) (poss P1) ->
  cpc st2 = CEnd -> bailed st2 = false ->
  map fst (written st1) ++ map fst (written st2) = poss P1.
Proof.
  intros P1 P2 st1 st2 Hn1 HR1 Hn2 HR2 HW I1 I2 E C B.
  rewrite (order_written P1 Hn1 HR1 st1 I1).
  destruct (order_writer_final P2 Hn2 HR2 st2 0 I2 C HW) as [_ F]. rewrite (F B), E. apply firstn_skipn.
Qed.
