From Snap.Ring Require Import RingModel RingBase RingInv RingProofs.
Check own_collected. Check own_writer. Check work_same_slot. Check own_sched. Check running_is_current.
Check order_handed. Check order_complete. Check order_written. Check order_writer_prefix. Check order_writer_final. Check no_deadlock.
