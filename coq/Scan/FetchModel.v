(* The fetch paths of check.c `repair` (C19 fetch_verified): state_import_fetch (cmdline/import.c: blocks of the import
   directory indexed by their hash, re-read and re-hashed before use) and state_search_fetch (cmdline/search.c: files of
   the -i directory / of the array with the size and time-stamp of the damaged file; the block at the same offset is read
   and used only if it hashes to the recorded hash).  Definitions and the one theorem.
   A candidate block is (size, mtime, nsec of its file; Some h = its hash in the import index, None = a search file;
   the block content now readable at that place). *)
From Coq Require Import NArith ZArith List Bool.
From Snap.Array Require Import ArrayDefs.
Import ListNotations.

Record candidate := mkCand { ca_size : N; ca_mtime : Z; ca_nsec : Z; ca_index : option hval; ca_data : bid }.

Section Fetch.
  Variable hashf : bid -> N -> hval.

  (* state_import_fetch: first indexed block with the wanted hash; "recheck the hash" of what is read now *)
  Definition import_fetch (cands : list candidate) (want : hval) (len : N) : option bid :=
    match find (fun c => match ca_index c with Some h => hval_eqb h want | None => false end) cands with
    | Some c => if hval_eqb (hashf (ca_data c) len) want then Some (ca_data c) else None      (* mismatch: the C exits *)
    | None => None
    end.

  (* state_search_fetch: first file with the same size and time-stamp whose block at that offset hashes to the recorded hash *)
  Definition search_fetch (cands : list candidate) (size : N) (mtime nsec : Z) (want : hval) (len : N) : option bid :=
    match find (fun c => match ca_index c with
                         | None => N.eqb (ca_size c) size && Z.eqb (ca_mtime c) mtime && Z.eqb (ca_nsec c) nsec && hval_eqb (hashf (ca_data c) len) want
                         | Some _ => false end) cands with
    | Some c => Some (ca_data c)
    | None => None
    end.

  (* check.c:371-386: import first, then search *)
  Definition fetch (cands : list candidate) (size : N) (mtime nsec : Z) (want : hval) (len : N) : option bid :=
    match import_fetch cands want len with
    | Some x => Some x
    | None => search_fetch cands size mtime nsec want len
    end.

  (* check.c:367-375, first strategy of repair: the fetch is tried only for a block that carries the hash of ITS data (BLK, REP);
     the hash field of a CHG block is the hash of what the parity position held before (a past hash): such a block goes through
     the parity recovery, never through import/search *)
  Definition repair_fetch (st : bstate) (cands : list candidate) (size : N) (mtime nsec : Z) (want : hval) (len : N) : option bid :=
    match st with
    | SChg => None
    | _ => fetch cands size mtime nsec want len
    end.

  Lemma hval_eqb_eq a b : hval_eqb a b = true -> a = b.
  Proof. destruct a, b; simpl; try discriminate; auto. intro H. apply N.eqb_eq in H. congruence. Qed.

  Theorem fetch_verified cands size mtime nsec want len x :
    fetch cands size mtime nsec want len = Some x -> hashf x len = want.
  Proof.
    unfold fetch, import_fetch, search_fetch.
    destruct (find (fun c => match ca_index c with Some h => hval_eqb h want | None => false end) cands) as [c|].
    - destruct (hval_eqb (hashf (ca_data c) len) want) eqn:E.
      + intro H; inversion H; subst. apply hval_eqb_eq. exact E.
      + destruct (find _ cands) as [c2|] eqn:E2; [|discriminate]. intro H; inversion H; subst.
        apply find_some in E2. destruct E2 as [_ E2]. destruct (ca_index c2); [discriminate|].
        apply andb_true_iff in E2. destruct E2 as [_ E2]. apply hval_eqb_eq. exact E2.
    - destruct (find _ cands) as [c2|] eqn:E2; [|discriminate]. intro H; inversion H; subst.
      apply find_some in E2. destruct E2 as [_ E2]. destruct (ca_index c2); [discriminate|].
      apply andb_true_iff in E2. destruct E2 as [_ E2]. apply hval_eqb_eq. exact E2.
  Qed.
  Theorem repair_fetch_verified st cands size mtime nsec want len x :
    repair_fetch st cands size mtime nsec want len = Some x -> st <> SChg /\ hashf x len = want.
  Proof.
    unfold repair_fetch. destruct st; intro H; try discriminate; (split; [discriminate | eapply fetch_verified; eauto]).
  Qed.
End Fetch.
