(* Model of the pre-hash phase of `sync -h` (cmdline/sync.c state_hash_process) and of state_sync around it: the
   hashing phase reads every REP and CHG block of the range, compares (REP) or records (CHG -> REP) its hash and sets
   skip_sync on a REP mismatch or on bail; state_sync resizes the parity files and runs the sync loop only when
   skip_sync is not set.  Definitions only.  Not modelled: rehash (old hash kind), progress/stop requests. *)
From Coq Require Import NArith ZArith List Bool Arith.
From Snap.Array Require Import ArrayDefs SyncModel.
Import ListNotations.

Section Prehash.
  Variable hashf : bid -> N -> hval.
  Variable bs : N.
  Variable nlev : nat.

  Record hp := mkHP { hp_c : content; hp_err : nat; hp_silent : nat; hp_io : nat; hp_skip : bool; hp_bail : bool }.

  (* memcpy(block->hash, hash); block_state_set(block, BLOCK_STATE_REP) for the CHG block of this disk at pos *)
  Definition hashed_disk (pos : nat) (h : hval) (d : cdisk) : cdisk :=
    mkCD (map (fun f => mkCF (cf_name f) (cf_size f) (cf_mtime f) (cf_nsec f) (cf_inode f) (cf_copy f)
                             (map (fun b => if Nat.eqb (fb_pos b) pos && bstate_eqb (fb_state b) SChg
                                            then mkFB SRep pos h else b) (cf_blocks f))) (cd_files d))
         (cd_deleted d) (cd_links d) (cd_dirs d).

  (* one (disk j, position i) of the double loop *)
  Definition hp_step (fs : list (option fsdisk)) (faults : nat -> nat -> option rd) (j : nat) (a : hp) (i : nat) : hp :=
    if hp_bail a then a else
    match nth j (c_disks (hp_c a)) None with
    | None => a
    | Some d =>
        match slot_at d i with
        | SFile f idx b =>
            match fb_state b with
            | SBlk => a
            | st =>
                match read_slot bs (nth j fs None) (SFile f idx b) (faults j i) with
                | RdNone => a
                | RdErrCont => mkHP (hp_c a) (S (hp_err a)) (hp_silent a) (hp_io a) (hp_skip a) false          (* missing / changed: continue *)
                | RdIoCont => mkHP (hp_c a) (hp_err a) (hp_silent a) (S (hp_io a)) true true                 (* EIO: bail *)
                | RdFatal => mkHP (hp_c a) (S (hp_err a)) (hp_silent a) (hp_io a) true true                  (* other error: bail *)
                | RdOk blk len =>
                    let h := hashf blk len in
                    match st with
                    | SRep =>
                        if hval_eqb h (fb_hash b) then a
                        else mkHP (hp_c a) (hp_err a) (S (hp_silent a)) (hp_io a) true false                 (* skip_sync = 1 *)
                    | _ =>
                        mkHP (mkC (update_nth j (fun od => match od with Some d0 => Some (hashed_disk i h d0) | None => None end) (c_disks (hp_c a)))
                                  (c_info (hp_c a)) (c_blockmax (hp_c a)))
                             (hp_err a) (hp_silent a) (hp_io a) (hp_skip a) false
                    end
                end
            end
        | _ => a
        end
    end.

  Definition hash_process (fs : list (option fsdisk)) (faults : nat -> nat -> option rd) (start mx : nat) (c : content) : hp :=
    fold_left (fun a j => fold_left (hp_step fs faults j) (seq start (mx - start)) a)
              (seq 0 (length (c_disks c))) (mkHP c 0 0 0 false false).

  (* --- state_sync ---------------------------------------------------------------------------------------------------- *)
  (* parity_chsize: truncate or extend (new space reads as zeros = the code of the zero vector) *)
  Definition resize_parity (n : nat) (par : parity) : parity :=
    map (fun lv => firstn n lv ++ repeat (PEnc []) (n - length lv)) par.

  Record sync_out := mkSync {
    sy_content : content; sy_parity : parity;
    sy_herr : nat; sy_hsilent : nat; sy_hio : nat;      (* hashing phase *)
    sy_err : nat; sy_silent : nat; sy_io : nat;         (* sync loop *)
    sy_skipped : bool                                   (* skip_sync: no resize, no loop *)
  }.
  (* exit status failing: unrecoverable_error != 0 *)
  Definition sync_fails (r : sync_out) : bool :=
    negb (Nat.eqb (sy_herr r + sy_hsilent r + sy_hio r + sy_err r + sy_silent r + sy_io r) 0).

  Definition sync_run (o : sopts) (prehash : bool) (now : N) (fs : list (option fsdisk))
             (hfaults : nat -> nat -> option rd) (faults : nat -> list (option rd))
             (start count : nat) (c : content) (par : parity) : sync_out :=
    let bm := allocated_size c in
    let mx := if negb (Nat.eqb count 0) && (start + count <? bm)%nat then (start + count)%nat else bm in
    let h := if prehash then hash_process fs hfaults start mx c else mkHP c 0 0 0 false false in
    if hp_skip h then mkSync (hp_c h) par (hp_err h) (hp_silent h) (hp_io h) 0 0 0 true
    else
      let r := sync_loop hashf bs nlev o now fs faults (seq start (mx - start)) None (hp_c h) (resize_parity bm par) 0 0 0 in
      mkSync (ro_content r) (ro_parity r) (hp_err h) (hp_silent h) (hp_io h) (ro_nerr r) (ro_nsilent r) (ro_nio r) false.
End Prehash.
