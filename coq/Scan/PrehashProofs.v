(* C19 prehash_parity_untouched: with -h a REP block whose data does not hash to the recorded (inherited) value sets
   skip_sync in the hashing phase, and a run with skip_sync set changes no parity block, resizes nothing, and fails. *)
From Coq Require Import NArith ZArith List Bool Arith Lia.
From Snap.Array Require Import ArrayDefs SyncModel.
From Snap.Scan Require Import ScanBasics ScanSound PrehashModel StripeProofs.
Import ListNotations.

Section Pre.
  Variable hashf : bid -> N -> hval.
  Variable bs : N.
  Variable nlev : nat.
  Variable fs : list (option fsdisk).
  Variable faults : nat -> nat -> option rd.

  Notation hstep := (hp_step hashf bs fs faults).

  Definition fattr (f : cfile) := (cf_name f, cf_size f, cf_mtime f, cf_nsec f, cf_inode f, cf_copy f).

  Definition gH (pos : nat) (h : hval) (b : fblock) : fblock :=
    if Nat.eqb (fb_pos b) pos && bstate_eqb (fb_state b) SChg then mkFB SRep pos h else b.
  Lemma gH_pos pos h b : fb_pos (gH pos h b) = fb_pos b.
  Proof. unfold gH. destruct (Nat.eqb (fb_pos b) pos) eqn:E; simpl; [|reflexivity]. destruct (bstate_eqb (fb_state b) SChg); [apply Nat.eqb_eq in E; simpl; congruence | reflexivity]. Qed.

  Lemma hashed_disk_slot_other i i' h d f idx b :
    i <> i' -> slot_at d i = SFile f idx b ->
    exists f', slot_at (hashed_disk i' h d) i = SFile f' idx b /\ fattr f' = fattr f.
  Proof.
    intros Hne H. pose proof (slot_at_file_pos d i f idx b H) as Hp. unfold slot_at in *.
    change (cd_files (hashed_disk i' h d)) with (map (mapf (gH i' h)) (cd_files d)).
    rewrite (find_in_files_map (gH i' h) (gH_pos i' h)).
    destruct (find_in_files i (cd_files d)) as [[[f0 i0] b0]|]; [|destruct (find_deleted i (cd_deleted d)); discriminate].
    inversion H; subst. exists (mapf (gH i' h) f). split; [|reflexivity].
    unfold gH. destruct (Nat.eqb (fb_pos b) i') eqn:E; [apply Nat.eqb_eq in E; congruence | reflexivity].
  Qed.

  (* the block under observation: disk j, position i *)
  Variables (j i : nat) (idx : nat) (b : fblock) (fa : N * N * Z * Z * N * bool).

  Definition intact (c : content) : Prop :=
    exists d f, nth j (c_disks c) None = Some d /\ slot_at d i = SFile f idx b /\ fattr f = fa.

  Lemma read_slot_attr f f' flt : fattr f = fattr f' ->
    read_slot bs (nth j fs None) (SFile f idx b) flt = read_slot bs (nth j fs None) (SFile f' idx b) flt.
  Proof. unfold fattr. intro H. inversion H. unfold read_slot. rewrite H1, H2, H3, H4, H5. reflexivity. Qed.

  Lemma hstep_skip_sticky j' a i' : hp_skip a = true -> hp_skip (hstep j' a i') = true.
  Proof.
    intro H. unfold hp_step. destruct (hp_bail a); [exact H|].
    destruct (nth j' (c_disks (hp_c a)) None) as [d|]; [|exact H].
    destruct (slot_at d i') as [|f0 i0 b0|]; try exact H.
    destruct (fb_state b0) eqn:Es; try exact H;
      destruct (read_slot bs (nth j' fs None) (SFile f0 i0 b0) (faults j' i')); simpl; auto;
      destruct (hval_eqb (hashf b1 len) (fb_hash b0)); simpl; auto.
  Qed.

  Lemma hstep_bail_skip j' a i' : (hp_bail a = true -> hp_skip a = true) -> hp_bail (hstep j' a i') = true -> hp_skip (hstep j' a i') = true.
  Proof.
    intros I. unfold hp_step. destruct (hp_bail a) eqn:Eb; [intros _; exact (I eq_refl)|].
    destruct (nth j' (c_disks (hp_c a)) None) as [d|]; [|simpl; congruence].
    destruct (slot_at d i') as [|f0 i0 b0|]; try (simpl; congruence).
    destruct (fb_state b0) eqn:Es; try (simpl; congruence);
      destruct (read_slot bs (nth j' fs None) (SFile f0 i0 b0) (faults j' i')); simpl; try congruence; auto;
      destruct (hval_eqb (hashf b1 len) (fb_hash b0)); simpl; congruence.
  Qed.

  Lemma hstep_keeps j' a i' : (j', i') <> (j, i) -> intact (hp_c a) -> intact (hp_c (hstep j' a i')).
  Proof.
    intros Hne I. unfold hp_step. destruct (hp_bail a); [exact I|].
    destruct (nth j' (c_disks (hp_c a)) None) as [d'|] eqn:Ed'; [|exact I].
    destruct (slot_at d' i') as [|f0 i0 b0|]; try exact I.
    destruct (fb_state b0) eqn:Es; try exact I;
      destruct (read_slot bs (nth j' fs None) (SFile f0 i0 b0) (faults j' i')); simpl; try exact I.
    - (* CHG hashed: the disk j' changes at position i' *)
      destruct I as [d [f [Hd [Hs Hf]]]]. unfold intact. simpl.
      destruct (Nat.eq_dec j' j) as [->|Hj].
      + assert (Hi : i <> i') by (intro; subst; apply Hne; reflexivity).
        rewrite Hd in Ed'. inversion Ed'; subst d'.
        destruct (hashed_disk_slot_other i i' (hashf b1 len) d f idx b Hi Hs) as [f' [A B]].
        exists (hashed_disk i' (hashf b1 len) d), f'. split; [|split; [exact A | congruence]].
        rewrite nth_update_nth_same by (eapply nth_Some_lt; eauto). rewrite Hd. reflexivity.
      + exists d, f. split; [|auto]. rewrite nth_update_nth_other by congruence. exact Hd.
    - destruct (hval_eqb (hashf b1 len) (fb_hash b0)); exact I.
  Qed.

  Lemma hstep_hit a blk len :
    hp_bail a = false -> intact (hp_c a) -> fb_state b = SRep ->
    (forall f, fattr f = fa -> read_slot bs (nth j fs None) (SFile f idx b) (faults j i) = RdOk blk len) ->
    hashf blk len <> fb_hash b -> hp_skip (hstep j a i) = true.
  Proof.
    intros Hb [d [f [Hd [Hs Hf]]]] Hr Hrd Hne. unfold hp_step. rewrite Hb, Hd, Hs, Hr. rewrite (Hrd f Hf).
    destruct (hval_eqb (hashf blk len) (fb_hash b)) eqn:E; [apply hval_eqb_true in E; contradiction | reflexivity].
  Qed.

  Lemma fold_pairs_skip blk len (l : list (nat * nat)) : forall a,
    (hp_bail a = true -> hp_skip a = true) ->
    hp_skip a = true \/ (intact (hp_c a) /\ In (j, i) l) ->
    fb_state b = SRep ->
    (forall f, fattr f = fa -> read_slot bs (nth j fs None) (SFile f idx b) (faults j i) = RdOk blk len) ->
    hashf blk len <> fb_hash b ->
    hp_skip (fold_left (fun a ji => hstep (fst ji) a (snd ji)) l a) = true.
  Proof.
    induction l as [|[j' i'] t IH]; simpl; intros a Ib H Hr Hrd Hne.
    - destruct H as [H|[_ []]]. exact H.
    - apply IH; auto.
      + apply hstep_bail_skip. exact Ib.
      + destruct H as [H|[Hi Hin]]; [left; apply hstep_skip_sticky; exact H|].
        destruct (hp_bail a) eqn:Eb; [left; apply hstep_skip_sticky; exact (Ib eq_refl)|].
        destruct Hin as [Hin|Hin].
        * inversion Hin; subst. left. eapply hstep_hit; eauto.
        * destruct (Nat.eq_dec j' j) as [Ej|Ej]; [destruct (Nat.eq_dec i' i) as [Ei|Ei]|].
          -- subst. left. eapply hstep_hit; eauto.
          -- right. split; [apply hstep_keeps; [congruence | exact Hi] | exact Hin].
          -- right. split; [apply hstep_keeps; [congruence | exact Hi] | exact Hin].
  Qed.

  Lemma fold_nested_flat {A} (F : nat -> A -> nat -> A) (ps js : list nat) : forall a,
    fold_left (fun a j0 => fold_left (F j0) ps a) js a
    = fold_left (fun a ji => F (fst ji) a (snd ji)) (flat_map (fun j0 => map (pair j0) ps) js) a.
  Proof.
    induction js as [|j0 t IH]; simpl; intro a; [reflexivity|].
    rewrite fold_left_app. rewrite <- IH. f_equal.
    clear. revert a. induction ps as [|p t IH]; simpl; intro a; [reflexivity | apply IH].
  Qed.
End Pre.

Section PreTop.
  Variable hashf : bid -> N -> hval.
  Variable bs : N.
  Variable nlev : nat.

  (* a REP block of the range whose data does not hash to the recorded value: the hashing phase sets skip_sync *)
  Theorem prehash_mismatch_skips fs faults start mx c j i d f idx b blk len :
    nth j (c_disks c) None = Some d -> slot_at d i = SFile f idx b -> fb_state b = SRep ->
    start <= i < mx ->
    read_slot bs (nth j fs None) (SFile f idx b) (faults j i) = RdOk blk len -> hashf blk len <> fb_hash b ->
    hp_skip (hash_process hashf bs fs faults start mx c) = true.
  Proof.
    intros Hd Hs Hr Hi Hrd Hne. unfold hash_process. rewrite fold_nested_flat.
    apply (fold_pairs_skip hashf bs fs faults j i idx b (fattr f) blk len); simpl; auto.
    - right. split; [exists d, f; auto|].
      apply in_flat_map. exists j. split; [apply in_seq; split; [lia | simpl; eapply nth_Some_lt; eauto] | apply in_map; apply in_seq; lia].
    - intros f' Hf'. rewrite <- Hrd. apply read_slot_attr. congruence.
  Qed.

  (* skip_sync set: the parity is returned untouched (no write, no resize), the sync loop does not run, the run fails *)
  Theorem prehash_parity_untouched o now fs hfaults faults start count c par :
    let mx := if negb (Nat.eqb count 0) && (start + count <? allocated_size c)%nat then (start + count)%nat else allocated_size c in
    hp_skip (hash_process hashf bs fs hfaults start mx c) = true ->
    let r := sync_run hashf bs nlev o true now fs hfaults faults start count c par in
    sy_parity r = par /\ sy_skipped r = true /\ sy_err r = 0 /\ sy_content r = hp_c (hash_process hashf bs fs hfaults start mx c).
  Proof. intros mx H r. unfold r, sync_run. fold mx. rewrite H. simpl. auto. Qed.

  (* skip_sync is only ever set together with an error count *)
  Lemma hstep_skip_counts fs faults j' a i' :
    (hp_skip a = true -> 1 <= hp_err a + hp_silent a + hp_io a) ->
    hp_skip (hp_step hashf bs fs faults j' a i') = true ->
    1 <= hp_err (hp_step hashf bs fs faults j' a i') + hp_silent (hp_step hashf bs fs faults j' a i') + hp_io (hp_step hashf bs fs faults j' a i').
  Proof.
    intro I. unfold hp_step. destruct (hp_bail a); [exact I|].
    destruct (nth j' (c_disks (hp_c a)) None) as [d|]; [|exact I].
    destruct (slot_at d i') as [|f0 i0 b0|]; try exact I.
    destruct (fb_state b0) eqn:Es; try exact I;
      destruct (read_slot bs (nth j' fs None) (SFile f0 i0 b0) (faults j' i')); simpl; try exact I; try (intros; lia);
      try (intro H; specialize (I H); lia);
      try (match goal with |- context [hval_eqb ?x ?y] => destruct (hval_eqb x y) end; simpl; try exact I; intros; lia).
  Qed.

  Theorem prehash_skip_fails o now fs hfaults faults start count c par :
    let r := sync_run hashf bs nlev o true now fs hfaults faults start count c par in
    sy_skipped r = true -> sync_fails r = true.
  Proof.
    intros r. unfold r, sync_run.
    set (mx := if negb (Nat.eqb count 0) && (start + count <? allocated_size c)%nat then (start + count)%nat else allocated_size c).
    destruct (hp_skip (hash_process hashf bs fs hfaults start mx c)) eqn:E; simpl; [|discriminate].
    intros _. unfold sync_fails. simpl.
    assert (G : 1 <= hp_err (hash_process hashf bs fs hfaults start mx c) + hp_silent (hash_process hashf bs fs hfaults start mx c) + hp_io (hash_process hashf bs fs hfaults start mx c)).
    { revert E. unfold hash_process. rewrite fold_nested_flat.
      generalize (flat_map (fun j0 => map (pair j0) (seq start (mx - start))) (seq 0 (length (c_disks c)))) as l.
      assert (I0 : hp_skip (mkHP c 0 0 0 false false) = true -> 1 <= hp_err (mkHP c 0 0 0 false false) + hp_silent (mkHP c 0 0 0 false false) + hp_io (mkHP c 0 0 0 false false)) by (simpl; discriminate).
      revert I0. generalize (mkHP c 0 0 0 false false) as a.
      intros a I0 l. revert a I0. induction l as [|[j' i'] t IH]; simpl; intros a I0 H; [exact (I0 H)|].
      apply (IH _ (hstep_skip_counts fs hfaults j' a i' I0) H). }
    apply negb_true_iff. apply Nat.eqb_neq. lia.
  Qed.
End PreTop.
