(* C11 sync_converges, second half: scanning a content that records exactly the listing (every block synced) finds
   nothing to do -- every entry is counted `equal`, the content is returned unchanged, diff exits 0. *)
From Coq Require Import NArith ZArith List Bool Arith Lia.
From Snap.Array Require Import ArrayDefs SyncModel.
From Snap.Scan Require Import ScanModel ScanBasics ScanSteps ScanInv ScanSound ScanCopy.
Import ListNotations.

Lemma split_first_at {A} (p : A -> bool) pre x post :
  p x = true -> (forall y, In y pre -> p y = false) -> split_first p (pre ++ x :: post) = Some (pre, x, post).
Proof.
  intros Hx Hpre. induction pre as [|a t IH]; simpl.
  - rewrite Hx. reflexivity.
  - rewrite (Hpre a (or_introl eq_refl)). rewrite IH; [reflexivity | intros y Hy; apply Hpre; right; exact Hy].
Qed.
Lemma split_first_all_false {A} (p : A -> bool) l : (forall y, In y l -> p y = false) -> split_first p l = None.
Proof.
  induction l as [|a t IH]; simpl; intro H; [reflexivity|].
  rewrite (H a (or_introl eq_refl)). rewrite IH; [reflexivity | intros y Hy; apply H; right; exact Hy].
Qed.

Lemma cf_set_inode_back f : cf_set_inode (cf_set_inode f 0) (cf_inode f) = f.
Proof. destruct f; reflexivity. Qed.
Lemma upd_nsec_id f e : cf_nsec f = le_nsec e -> upd_nsec f e = f.
Proof. intro H. unfold upd_nsec. destruct (Z.eqb (cf_nsec f) (-1)); [|reflexivity]. rewrite <- H. destruct f; reflexivity. Qed.

Definition all_blk (f : cfile) : Prop := forall b, In b (cf_blocks f) -> fb_state b = SBlk.
Lemma all_blk_not_full_invalid inf f : all_blk f -> full_invalid_stable inf f = false.
Proof.
  unfold full_invalid_stable, all_blk. destruct (cf_blocks f) as [|b t]; [reflexivity|]. intro H. simpl.
  rewrite (H b (or_introl eq_refl)). reflexivity.
Qed.
Lemma ematch_attrs_same e f : ematch e f -> attrs_same f e = true.
Proof.
  intros [_ [A [B [C _]]]]. unfold attrs_same. rewrite A, B, C. rewrite N.eqb_refl, !Z.eqb_refl. reflexivity.
Qed.

Definition lkind_eqb (a b : lkind) : bool :=
  match a, b with LFile, LFile => true | LSym, LSym => true | LDir, LDir => true | _, _ => false end.
Lemma lkind_eqb_eq a b : lkind_eqb a b = true <-> a = b.
Proof. destruct a, b; simpl; split; intro H; try discriminate; reflexivity. Qed.

Section Rescan.
  Variables (basef : N -> N) (bs : N) (clearpast nocopy : bool) (inf : list (option info)).
  Variable usable : bool.
  Variable d0 : cdisk.

  (* the disk records exactly the listing L: one file per regular file (no second name of an inode), every block synced *)
  Record recorded (L : list lentry) : Prop := mkRec {
    rc_names : NoDup (map le_name L);
    rc_fnames : NoDup (map cf_name (cd_files d0));
    rc_inodes : NoDup (map cf_inode (cd_files d0));
    rc_file_in : forall e, In e L -> le_kind e = LFile -> exists f, In f (cd_files d0) /\ ematch e f;
    rc_file_of : forall f, In f (cd_files d0) -> all_blk f /\ exists e, In e L /\ le_kind e = LFile /\ ematch e f;
    rc_lnames : NoDup (map cl_name (cd_links d0));
    rc_sym_in : forall e, In e L -> le_kind e = LSym -> In (mkCL (le_name e) (le_to e) false) (cd_links d0);
    rc_link_of : forall l, In l (cd_links d0) -> exists e, In e L /\ le_kind e = LSym /\ le_name e = cl_name l;
    rc_dnames : NoDup (cd_dirs d0);
    rc_dir_in : forall e, In e L -> le_kind e = LDir -> In (le_name e) (cd_dirs d0);
    rc_dir_of : forall n, In n (cd_dirs d0) -> exists e, In e L /\ le_kind e = LDir /\ le_name e = n
  }.

  (* has an entry of kind k with name n been processed? *)
  Definition seen (k : lkind) (P : list lentry) (n : N) : bool :=
    existsb (fun e => lkind_eqb (le_kind e) k && N.eqb (le_name e) n) P.
  Definition unseen_file (f : cfile) : sfile := if usable then mkSF f false false else mkSF (cf_set_inode f 0) false true.
  Definition mark_file (P : list lentry) (f : cfile) : sfile := if seen LFile P (cf_name f) then mkSF f true false else unseen_file f.
  Fixpoint count_kind (P : list lentry) : nat :=
    match P with [] => 0 | e :: t => (match le_kind e with LDir => 0 | _ => 1 end) + count_kind t end.

  (* the state of the disk after the entries P of a listing it records *)
  Definition stable_state (P : list lentry) : sdisk :=
    mkSD (map (mark_file P) (cd_files d0)) [] (cd_deleted d0)
         (map (fun l => (l, seen LSym P (cl_name l))) (cd_links d0)) []
         (map (fun n => (n, seen LDir P n)) (cd_dirs d0)) []
         (mkCnt (count_kind P) 0 0 0 0 0 0).

  Lemma seen_snoc k P e n : seen k (P ++ [e]) n = seen k P n || (lkind_eqb (le_kind e) k && N.eqb (le_name e) n).
  Proof. unfold seen. rewrite existsb_app. simpl. rewrite orb_false_r. reflexivity. Qed.
  Lemma seen_snoc_other k P e n : le_kind e <> k -> seen k (P ++ [e]) n = seen k P n.
  Proof.
    intro H. rewrite seen_snoc. destruct (lkind_eqb (le_kind e) k) eqn:E; [apply lkind_eqb_eq in E; contradiction|]. simpl. apply orb_false_r.
  Qed.
  Lemma count_kind_snoc P e : count_kind (P ++ [e]) = count_kind P + match le_kind e with LDir => 0 | _ => 1 end.
  Proof. induction P as [|x t IH]; simpl; [lia | rewrite IH; lia]. Qed.
  Lemma seen_false_notin k P n : ~ In n (map le_name P) -> seen k P n = false.
  Proof.
    intro H. unfold seen. destruct (existsb _ P) eqn:E; [|reflexivity].
    apply existsb_exists in E. destruct E as [x [Hx Ex]]. apply andb_true_iff in Ex. destruct Ex as [_ Ex].
    apply N.eqb_eq in Ex. exfalso. apply H. rewrite <- Ex. apply in_map. exact Hx.
  Qed.

  (* marking one more name changes exactly the element carrying it *)
  Lemma map_mark_split {A B} (nameof : A -> N) (mk : bool -> A -> B) (k : lkind) (P : list lentry) e pre x post :
    le_kind e = k -> NoDup (map nameof (pre ++ x :: post)) -> nameof x = le_name e ->
    map (fun a => mk (seen k (P ++ [e]) (nameof a)) a) (pre ++ x :: post)
    = map (fun a => mk (seen k P (nameof a)) a) pre ++ mk true x :: map (fun a => mk (seen k P (nameof a)) a) post.
  Proof.
    intros Hk ND Hx. rewrite map_app. simpl. rewrite map_app in ND. simpl in ND. apply NoDup_remove_2 in ND.
    assert (G : forall l, ~ In (nameof x) (map nameof l) ->
                          map (fun a => mk (seen k (P ++ [e]) (nameof a)) a) l = map (fun a => mk (seen k P (nameof a)) a) l).
    { intros l Hl. apply map_ext_in. intros a Ha. rewrite seen_snoc.
      replace (N.eqb (le_name e) (nameof a)) with false; [rewrite andb_false_r, orb_false_r; reflexivity|].
      symmetry. apply N.eqb_neq. intro Hc. apply Hl. rewrite Hx, Hc. apply in_map. exact Ha. }
    rewrite (G pre), (G post) by (intro Hc; apply ND; apply in_app_iff; auto).
    rewrite seen_snoc. rewrite Hx, Hk. rewrite N.eqb_refl. destruct k; simpl; rewrite orb_true_r; reflexivity.
  Qed.

  Lemma stable_files_other P e : le_kind e <> LFile -> map (mark_file (P ++ [e])) (cd_files d0) = map (mark_file P) (cd_files d0).
  Proof. intro H. apply map_ext. intro f. unfold mark_file. rewrite seen_snoc_other by exact H. reflexivity. Qed.
  Lemma stable_links_other P e : le_kind e <> LSym ->
    map (fun l => (l, seen LSym (P ++ [e]) (cl_name l))) (cd_links d0) = map (fun l => (l, seen LSym P (cl_name l))) (cd_links d0).
  Proof. intro H. apply map_ext. intro l. rewrite seen_snoc_other by exact H. reflexivity. Qed.
  Lemma stable_dirs_other P e : le_kind e <> LDir ->
    map (fun n => (n, seen LDir (P ++ [e]) n)) (cd_dirs d0) = map (fun n => (n, seen LDir P n)) (cd_dirs d0).
  Proof. intro H. apply map_ext. intro n. rewrite seen_snoc_other by exact H. reflexivity. Qed.

  (* --- a regular file ------------------------------------------------------------------------------------------------- *)
  Lemma scan_file_stable L P e k (w : world) :
    recorded L -> In e L -> le_kind e = LFile -> ~ In (le_name e) (map le_name P) ->
    scan_file basef bs clearpast nocopy inf usable k w (stable_state P) e = Some (set_disk k (stable_state (P ++ [e])) w).
  Proof.
    intros R He Hk Hnew. destruct R.
    destruct (rc_file_in0 e He Hk) as [f [Hf Hm]].
    destruct (rc_file_of0 f Hf) as [Hblk _].
    destruct (in_split f (cd_files d0) Hf) as [pre [post Ef]].
    pose proof Hm as [Mn [Ms [Mt [Mns Mi]]]].
    assert (Hunseen : seen LFile P (cf_name f) = false) by (apply seen_false_notin; rewrite Mn; exact Hnew).
    assert (Hino : forall g, In g pre \/ In g post -> cf_inode g <> le_inode e).
    { intros g Hg Hc. rewrite Ef in rc_inodes0. rewrite map_app in rc_inodes0. simpl in rc_inodes0. apply NoDup_remove_2 in rc_inodes0.
      apply rc_inodes0. rewrite Mi, <- Hc. apply in_app_iff. destruct Hg; [left | right]; apply in_map; assumption. }
    assert (Hnm : forall g, In g pre \/ In g post -> cf_name g <> le_name e).
    { intros g Hg Hc. rewrite Ef in rc_fnames0. rewrite map_app in rc_fnames0. simpl in rc_fnames0. apply NoDup_remove_2 in rc_fnames0.
      apply rc_fnames0. rewrite Mn, <- Hc. apply in_app_iff. destruct Hg; [left | right]; apply in_map; assumption. }
    assert (Esplit : map (mark_file P) (cd_files d0) = map (mark_file P) pre ++ mark_file P f :: map (mark_file P) post)
      by (rewrite Ef, map_app; reflexivity).
    assert (Efinal : keep clearpast inf (sd_set_cnt (stable_state P) (inc_equal (sd_cnt (stable_state P))))
                          (map (mark_file P) pre) (mkSF f true false) (map (mark_file P) post) (le_key e) = stable_state (P ++ [e])).
    { unfold keep. cbn [sf_f]. rewrite (all_blk_not_full_invalid inf f Hblk). unfold sd_set_files, sd_set_cnt, stable_state. cbn.
      rewrite stable_links_other, stable_dirs_other by congruence. rewrite count_kind_snoc, Hk.
      replace (map (mark_file (P ++ [e])) (cd_files d0)) with (map (mark_file P) pre ++ mkSF f true false :: map (mark_file P) post).
      - unfold inc_equal. simpl. f_equal. f_equal. lia.
      - rewrite Ef. unfold mark_file.
        rewrite (map_mark_split cf_name (fun s f0 => if s then mkSF f0 true false else unseen_file f0) LFile P e pre f post Hk); [reflexivity | rewrite <- Ef; exact rc_fnames0 | exact Mn]. }
    assert (Hmark : forall g, In g pre \/ In g post -> mark_file P g = mkSF g true false \/ mark_file P g = unseen_file g).
    { intros g _. unfold mark_file. destruct (seen LFile P (cf_name g)); auto. }
    unfold scan_file. cbn [stable_state sd_files sd_ins]. rewrite Esplit. unfold mark_file at 2. rewrite Hunseen. unfold unseen_file.
    destruct usable eqn:Eu.
    - (* found by inode *)
      rewrite split_first_at.
      + cbn [sf_f sf_present sf_noinode]. rewrite (ematch_attrs_same e f Hm). rewrite (upd_nsec_id f e Mns).
        rewrite Mn, N.eqb_refl. cbn [negb]. rewrite Efinal. reflexivity.
      + simpl. rewrite Mi, N.eqb_refl. reflexivity.
      + intros y Hy. apply in_map_iff in Hy. destruct Hy as [g [Eg Hg]]. subst y.
        destruct (Hmark g (or_introl Hg)) as [E|E]; rewrite E; unfold unseen_file; rewrite ?Eu; simpl;
          apply N.eqb_neq; apply Hino; auto.
    - (* inodes unusable: not found by inode, found by path *)
      rewrite split_first_all_false.
      + cbn [find]. unfold by_name. cbn [stable_state sd_files sd_ins]. rewrite Esplit. unfold mark_file at 2. rewrite Hunseen. unfold unseen_file. rewrite Eu.
        rewrite split_first_at.
        * cbn [sf_f sf_present sf_noinode negb andb]. rewrite <- Mi. rewrite cf_set_inode_back.
          rewrite (ematch_attrs_same e f Hm). rewrite (upd_nsec_id f e Mns). rewrite Efinal. reflexivity.
        * simpl. rewrite Mn. apply N.eqb_refl.
        * intros y Hy. apply in_map_iff in Hy. destruct Hy as [g [Eg Hg]]. subst y.
          destruct (Hmark g (or_introl Hg)) as [E|E]; rewrite E; unfold unseen_file; rewrite ?Eu; simpl;
            apply N.eqb_neq; apply Hnm; auto.
      + intros y Hy. apply in_app_iff in Hy. simpl in Hy.
        assert (G : forall g, In g pre \/ In g post -> negb (sf_noinode (mark_file P g)) && N.eqb (cf_inode (sf_f (mark_file P g))) (le_inode e) = false).
        { intros g Hg. destruct (Hmark g Hg) as [E|E]; rewrite E; unfold unseen_file; rewrite ?Eu; simpl; [apply N.eqb_neq; apply Hino; auto | reflexivity]. }
        destruct Hy as [Hy|[Hy|Hy]].
        * apply in_map_iff in Hy. destruct Hy as [g [Eg Hg]]. subst y. apply G. auto.
        * subst y. reflexivity.
        * apply in_map_iff in Hy. destruct Hy as [g [Eg Hg]]. subst y. apply G. auto.
  Qed.

  (* --- a symlink, an empty directory ---------------------------------------------------------------------------------- *)
  Lemma scan_link_stable L P e :
    recorded L -> In e L -> le_kind e = LSym -> ~ In (le_name e) (map le_name P) ->
    scan_link (stable_state P) (le_name e) (le_to e) false = Some (stable_state (P ++ [e])).
  Proof.
    intros R He Hk Hnew. destruct R. pose proof (rc_sym_in0 e He Hk) as Hl.
    destruct (in_split _ _ Hl) as [pre [post El]].
    unfold scan_link. cbn [stable_state sd_links]. rewrite El. rewrite map_app. cbn [map].
    rewrite split_first_at.
    - cbn [cl_name]. rewrite (seen_false_notin LSym P (le_name e) Hnew). cbn [cl_to cl_hard]. rewrite N.eqb_refl. cbn [Bool.eqb andb].
      unfold stable_state. rewrite stable_files_other, stable_dirs_other by congruence. rewrite count_kind_snoc, Hk.
      rewrite El. rewrite (map_mark_split cl_name (fun s l => (l, s)) LSym P e pre _ post Hk); [|rewrite <- El; exact rc_lnames0 | reflexivity].
      cbn. unfold inc_equal. simpl. rewrite Nat.add_1_r. reflexivity.
    - simpl. apply N.eqb_refl.
    - intros y Hy. apply in_map_iff in Hy. destruct Hy as [l [E Hlin]]. subst y. simpl. apply N.eqb_neq. intro Hc.
      rewrite El in rc_lnames0. rewrite map_app in rc_lnames0. simpl in rc_lnames0. apply NoDup_remove_2 in rc_lnames0.
      apply rc_lnames0. rewrite <- Hc. apply in_app_iff. left. apply in_map. exact Hlin.
  Qed.

  Lemma scan_emptydir_stable L P e :
    recorded L -> In e L -> le_kind e = LDir -> ~ In (le_name e) (map le_name P) ->
    scan_emptydir (stable_state P) (le_name e) = Some (stable_state (P ++ [e])).
  Proof.
    intros R He Hk Hnew. destruct R. pose proof (rc_dir_in0 e He Hk) as Hl.
    destruct (in_split _ _ Hl) as [pre [post El]].
    unfold scan_emptydir. cbn [stable_state sd_dirs]. rewrite El. rewrite map_app. cbn [map].
    rewrite split_first_at.
    - rewrite (seen_false_notin LDir P (le_name e) Hnew).
      unfold stable_state. rewrite stable_files_other, stable_links_other by congruence. rewrite count_kind_snoc, Hk.
      rewrite El. rewrite (map_mark_split (fun n : N => n) (fun s n => (n, s)) LDir P e pre _ post Hk); [|rewrite map_id, <- El; exact rc_dnames0 | reflexivity].
      cbn. rewrite Nat.add_0_r. reflexivity.
    - simpl. apply N.eqb_refl.
    - intros y Hy. apply in_map_iff in Hy. destruct Hy as [n [E Hn]]. subst y. simpl. apply N.eqb_neq. intro Hc.
      rewrite El in rc_dnames0. apply NoDup_remove_2 in rc_dnames0. apply rc_dnames0. rewrite <- Hc. apply in_app_iff. left. exact Hn.
  Qed.

  (* --- all the entries of the disk -------------------------------------------------------------------------------------- *)
  Lemma entries_stable L k : recorded L -> forall rest P (w : world),
    P ++ rest = L -> nth k w None = Some (stable_state P) ->
    fold_opt (scan_entry basef bs clearpast nocopy inf usable k) rest w = Some (set_disk k (stable_state L) w).
  Proof.
    intro R. induction rest as [|e t IH]; intros P w EL Hk.
    - simpl. rewrite app_nil_r in EL. subst P. f_equal. unfold set_disk.
      clear - Hk. revert k Hk. induction w as [|x w IH]; intros k Hk; [destruct k; discriminate|].
      destruct k; simpl in *; [congruence | f_equal; apply IH; exact Hk].
    - assert (He : In e L) by (rewrite <- EL; apply in_app_iff; right; left; reflexivity).
      assert (Hnew : ~ In (le_name e) (map le_name P)).
      { pose proof (rc_names _ R) as ND. rewrite <- EL in ND. rewrite map_app in ND. simpl in ND. apply NoDup_remove_2 in ND.
        intro Hc. apply ND. apply in_app_iff. left. exact Hc. }
      assert (Hlt : k < length w) by (eapply nth_Some_lt; eauto).
      cbn [fold_opt]. unfold scan_entry at 1. rewrite Hk.
      assert (Estep : (match le_kind e with
                       | LFile => scan_file basef bs clearpast nocopy inf usable k w (stable_state P) e
                       | LSym => match scan_link (stable_state P) (le_name e) (le_to e) false with Some d' => Some (set_disk k d' w) | None => None end
                       | LDir => match scan_emptydir (stable_state P) (le_name e) with Some d' => Some (set_disk k d' w) | None => None end
                       end) = Some (set_disk k (stable_state (P ++ [e])) w)).
      { destruct (le_kind e) eqn:Ek.
        - apply (scan_file_stable L); assumption.
        - rewrite (scan_link_stable L P e R He Ek Hnew). reflexivity.
        - rewrite (scan_emptydir_stable L P e R He Ek Hnew). reflexivity. }
      rewrite Estep.
      rewrite (IH (P ++ [e]) (set_disk k (stable_state (P ++ [e])) w)).
      + f_equal. unfold set_disk. clear. revert k. induction w as [|x w IH]; intro k; [destruct k; reflexivity|].
        destruct k; simpl; [reflexivity | f_equal; apply IH].
      + rewrite <- app_assoc. exact EL.
      + apply nth_set_disk_same. exact Hlt.
  Qed.

  (* --- and the second phase: nothing missing, nothing to insert ------------------------------------------------------------ *)
  Lemma seen_all_file L f : recorded L -> In f (cd_files d0) -> seen LFile L (cf_name f) = true.
  Proof.
    intros R Hf. destruct (rc_file_of _ R f Hf) as [_ [e [He [Hk [Mn _]]]]]. unfold seen. apply existsb_exists. exists e.
    split; [exact He|]. rewrite Hk, Mn. simpl. apply N.eqb_refl.
  Qed.

  Lemma finish_stable L : recorded L ->
    finish_disk clearpast inf (stable_state L) = (d0, mkCnt (count_kind L) 0 0 0 0 0 0).
  Proof.
    intro R. unfold finish_disk, remove_missing. cbn [stable_state sd_files sd_ins sd_deleted sd_links sd_link_ins sd_dirs sd_dir_ins sd_cnt].
    assert (Ef : map (mark_file L) (cd_files d0) = map (fun f => mkSF f true false) (cd_files d0)).
    { apply map_ext_in. intros f Hf. unfold mark_file. rewrite (seen_all_file L f R Hf). reflexivity. }
    assert (El : map (fun l => (l, seen LSym L (cl_name l))) (cd_links d0) = map (fun l => (l, true)) (cd_links d0)).
    { apply map_ext_in. intros l Hl. destruct (rc_link_of _ R l Hl) as [e [He [Hk Hn]]]. f_equal. unfold seen. apply existsb_exists. exists e.
      split; [exact He|]. rewrite Hk, Hn. simpl. apply N.eqb_refl. }
    assert (Ed : map (fun n => (n, seen LDir L n)) (cd_dirs d0) = map (fun n => (n, true)) (cd_dirs d0)).
    { apply map_ext_in. intros n Hn. destruct (rc_dir_of _ R n Hn) as [e [He [Hk Hn2]]]. f_equal. unfold seen. apply existsb_exists. exists e.
      split; [exact He|]. rewrite Hk, Hn2. simpl. apply N.eqb_refl. }
    rewrite Ef, El, Ed.
    assert (F1 : forall (l : list cfile), filter sf_present (map (fun f => mkSF f true false) l) = map (fun f => mkSF f true false) l)
      by (induction l as [|x t IH]; simpl; [reflexivity | rewrite IH; reflexivity]).
    assert (F2 : forall (l : list cfile), filter (fun sf => negb (sf_present sf)) (map (fun f => mkSF f true false) l) = [])
      by (induction l as [|x t IH]; simpl; [reflexivity | exact IH]).
    assert (F3 : forall {A} (l : list A), filter (fun lp : A * bool => snd lp) (map (fun a => (a, true)) l) = map (fun a => (a, true)) l)
      by (intros A l; induction l as [|x t IH]; simpl; [reflexivity | rewrite IH; reflexivity]).
    assert (F4 : forall {A} (l : list A), filter (fun lp : A * bool => negb (snd lp)) (map (fun a => (a, true)) l) = [])
      by (intros A l; induction l as [|x t IH]; simpl; [reflexivity | exact IH]).
    rewrite F1, F2, !F3, F4. cbn [fold_left length Nat.add sort_ins map alloc_files fst snd]. unfold sort_ins. cbn.
    rewrite !map_map. cbn. rewrite !map_id, !app_nil_r. destruct d0; reflexivity.
  Qed.
End Rescan.

(* --- the whole scan ----------------------------------------------------------------------------------------------------------- *)
Section RescanAll.
  Variables (basef : N -> N) (bs : N) (clearpast nocopy : bool) (inf : list (option info)).
  Variable usable : list bool.
  Variable c : content.
  Variable L : list (list lentry).

  Hypothesis Hrec : forall k d, nth k (c_disks c) None = Some d -> recorded d (nth k L []).
  Hypothesis Hnone : forall k, nth k (c_disks c) None = None -> nth k L [] = [].

  Let n := length (c_disks c).
  (* the world when the disks below i are done *)
  Definition W (i : nat) : world :=
    map (fun kd : nat * option cdisk =>
           match snd kd with
           | Some d => Some (stable_state (nth (fst kd) usable false) d (if fst kd <? i then nth (fst kd) L [] else []))
           | None => None
           end) (combine (seq 0 n) (c_disks c)).

  Lemma W_length i : length (W i) = n.
  Proof. unfold W. rewrite map_length, combine_length, seq_length. unfold n. lia. Qed.
  Lemma W_nth i k : nth k (W i) None =
    match nth k (c_disks c) None with
    | Some d => Some (stable_state (nth k usable false) d (if k <? i then nth k L [] else []))
    | None => None
    end.
  Proof.
    destruct (Nat.lt_ge_cases k n) as [H|H].
    - unfold W, n in *. rewrite (nth_map_combine_seq0 _ _ None None) by exact H. reflexivity.
    - rewrite nth_overflow by (rewrite W_length; exact H). rewrite nth_overflow by exact H. reflexivity.
  Qed.

  Lemma W_step k : k < n ->
    fold_opt (scan_entry basef bs clearpast nocopy inf (nth k usable false) k) (nth k L []) (W k) = Some (W (S k)).
  Proof.
    intro Hk. destruct (nth k (c_disks c) None) as [d|] eqn:Ed.
    - assert (Hs : nth k (W k) None = Some (stable_state (nth k usable false) d [])).
      { rewrite W_nth, Ed. rewrite Nat.ltb_irrefl. reflexivity. }
      rewrite (entries_stable basef bs clearpast nocopy inf (nth k usable false) d (nth k L []) k (Hrec k d Ed) (nth k L []) [] (W k) eq_refl Hs).
      f_equal. apply (nth_ext _ _ None None).
      + rewrite set_disk_length, !W_length. reflexivity.
      + intros j Hj. rewrite set_disk_length, W_length in Hj. destruct (Nat.eq_dec j k) as [->|Hne].
        * rewrite nth_set_disk_same by (rewrite W_length; exact Hk). rewrite W_nth, Ed.
          assert (E : (k <? S k) = true) by (apply Nat.ltb_lt; lia). rewrite E. reflexivity.
        * rewrite nth_set_disk_other by exact Hne. rewrite !W_nth. destruct (nth j (c_disks c) None); [|reflexivity].
          assert (E : (j <? S k) = (j <? k)).
          { destruct (j <? k) eqn:E1; [apply Nat.ltb_lt in E1; apply Nat.ltb_lt; lia | apply Nat.ltb_ge in E1; apply Nat.ltb_ge; lia]. }
          rewrite E. reflexivity.
    - rewrite (Hnone k Ed). simpl. f_equal. apply (nth_ext _ _ None None); [rewrite !W_length; reflexivity|].
      intros j Hj. rewrite !W_nth. destruct (nth j (c_disks c) None) as [d|] eqn:Ej; [|reflexivity].
      assert (Hne : j <> k) by (intro; subst; congruence).
      assert (E : (j <? S k) = (j <? k)).
      { destruct (j <? k) eqn:E1; [apply Nat.ltb_lt in E1; apply Nat.ltb_lt; lia | apply Nat.ltb_ge in E1; apply Nat.ltb_ge; lia]. }
      rewrite E. reflexivity.
  Qed.

  Lemma W_fold len : forall i, i + len = n ->
    fold_opt (fun w k => fold_opt (scan_entry basef bs clearpast nocopy inf (nth k usable false) k) (nth k L []) w) (seq i len) (W i) = Some (W n).
  Proof.
    induction len as [|len IH]; intros i Hi; simpl.
    - replace i with n by lia. reflexivity.
    - rewrite W_step by lia. apply IH. lia.
  Qed.

  Lemma prepare_is_W0 : map (fun kd : nat * option cdisk => match snd kd with Some d => Some (prepare (nth (fst kd) usable false) d) | None => None end)
                            (combine (seq 0 (length (c_disks c))) (c_disks c)) = W 0.
  Proof.
    unfold W. fold n. apply map_ext. intros [k od]. simpl. destruct od as [d|]; reflexivity.
  Qed.

  Lemma in_combine_seq_nth {A} (l : list A) (dflt : A) k x : In (k, x) (combine (seq 0 (length l)) l) -> nth k l dflt = x /\ k < length l.
  Proof.
    intro H. apply (In_nth _ _ (0, dflt)) in H. destruct H as [i [Hi E]]. rewrite combine_length, seq_length in Hi.
    assert (Hi' : i < length l) by lia. rewrite combine_nth in E by (rewrite seq_length; reflexivity).
    rewrite seq_nth in E by exact Hi'. inversion E; subst. split; [apply nth_indep; exact Hi' | exact Hi'].
  Qed.

  Theorem rescan_no_difference :
    exists o, scan basef bs clearpast nocopy inf usable c L = Some o /\
              c_disks (sc_content o) = c_disks c /\ c_info (sc_content o) = c_info c /\ c_blockmax (sc_content o) = c_blockmax c /\
              cnt_differs (sc_cnt o) = false /\
              n_move (sc_cnt o) = 0 /\ n_copy (sc_cnt o) = 0 /\ n_restore (sc_cnt o) = 0 /\ n_change (sc_cnt o) = 0 /\
              n_remove (sc_cnt o) = 0 /\ n_insert (sc_cnt o) = 0.
  Proof.
    unfold scan. rewrite prepare_is_W0. unfold phase1. rewrite W_length. rewrite (W_fold n 0) by lia.
    eexists. split; [reflexivity|]. cbn [sc_content sc_cnt c_disks c_info c_blockmax].
    assert (Efin : map (fun od : option sdisk => match od with Some d => Some (finish_disk clearpast inf d) | None => None end) (W n)
                   = map (fun kd : nat * option cdisk => match snd kd with Some d => Some (d, mkCnt (count_kind (nth (fst kd) L [])) 0 0 0 0 0 0) | None => None end)
                         (combine (seq 0 n) (c_disks c))).
    { unfold W. rewrite map_map. apply map_ext_in. intros [k od] Hin. simpl. destruct od as [d|]; [|reflexivity].
      destruct (in_combine_seq_nth (c_disks c) None k (Some d) Hin) as [Ek Hk]. fold n in Hk.
      assert (E : (k <? n) = true) by (apply Nat.ltb_lt; exact Hk). rewrite E.
      rewrite (finish_stable clearpast inf (nth k usable false) d (nth k L []) (Hrec k d Ek)). reflexivity. }
    rewrite Efin. split; [|split; [reflexivity|split; [reflexivity|]]].
    - rewrite map_map. simpl.
      transitivity (map snd (combine (seq 0 n) (c_disks c))).
      + apply map_ext. intros [k od]. simpl. destruct od; reflexivity.
      + clear. unfold n. generalize 0. induction (c_disks c) as [|x t IH]; intro s; simpl; [reflexivity | rewrite IH; reflexivity].
    - set (fin := map _ (combine (seq 0 n) (c_disks c))).
      assert (G : forall l a, n_move a = 0 /\ n_copy a = 0 /\ n_restore a = 0 /\ n_change a = 0 /\ n_remove a = 0 /\ n_insert a = 0 ->
                  (forall o, In (Some o) l -> exists m, snd o = mkCnt m 0 0 0 0 0 0) ->
                  let t := fold_left (fun a (o : option (cdisk * counters)) => match o with Some dc => cnt_add a (snd dc) | None => a end) l a in
                  n_move t = 0 /\ n_copy t = 0 /\ n_restore t = 0 /\ n_change t = 0 /\ n_remove t = 0 /\ n_insert t = 0).
      { induction l as [|x t IH]; intros a Ha Hl; simpl; [exact Ha|]. apply IH; [|intros o0 Ho; apply Hl; right; exact Ho].
        destruct x as [[d cn]|]; [|exact Ha]. destruct (Hl (d, cn) (or_introl eq_refl)) as [m Em]. simpl in Em. subst cn.
        destruct Ha as (A1 & A2 & A3 & A4 & A5 & A6). unfold cnt_add. simpl. rewrite A1, A2, A3, A4, A5, A6. repeat split; reflexivity. }
      assert (Z : forall o0, In (Some o0) fin -> exists m, snd o0 = mkCnt m 0 0 0 0 0 0).
      { intros o0 Ho. unfold fin in Ho. apply in_map_iff in Ho. destruct Ho as [[k od] [E _]]. simpl in E. destruct od; [|discriminate].
        inversion E; subst. simpl. eexists. reflexivity. }
      destruct (G fin cnt0 ltac:(simpl; repeat split; reflexivity) Z) as (T1 & T2 & T3 & T4 & T5 & T6).
      split; [|repeat split; assumption].
      unfold cnt_differs. rewrite T1, T2, T3, T4, T5, T6. reflexivity.
  Qed.
End RescanAll.

(* every block synced and no DELETED entry: no stripe needs a sync *)
Lemma slot_at_valid d pos :
  (forall f b, In f (cd_files d) -> In b (cf_blocks f) -> fb_state b = SBlk) -> cd_deleted d = [] ->
  slot_invalid_parity (slot_at d pos) = false.
Proof.
  intros Hb Hd. unfold slot_at. destruct (find_in_files pos (cd_files d)) as [[[f i] b]|] eqn:E.
  - simpl. assert (In f (cd_files d) /\ In b (cf_blocks f)).
    { clear - E. revert E. induction (cd_files d) as [|x t IH]; simpl; [discriminate|].
      destruct (find_in_file pos 0 (cf_blocks x)) as [[i2 b2]|] eqn:E2.
      - intro H; inversion H; subst. split; [left; reflexivity|]. clear - E2. revert E2. generalize 0.
        induction (cf_blocks f) as [|y l IHl]; simpl; intros n E2; [discriminate|].
        destruct (Nat.eqb (fb_pos y) pos); [inversion E2; subst; left; reflexivity | right; eapply IHl; eauto].
      - intro H. destruct (IH H). split; [right; assumption | assumption]. }
    destruct H as [Hf Hbin]. rewrite (Hb f b Hf Hbin). reflexivity.
  - rewrite Hd. reflexivity.
Qed.

Lemma parity_invalid_all_blk c :
  (forall d, In (Some d) (c_disks c) -> (forall f b, In f (cd_files d) -> In b (cf_blocks f) -> fb_state b = SBlk) /\ cd_deleted d = []) ->
  parity_invalid c = false.
Proof.
  intro H. unfold parity_invalid. destruct (existsb _ (seq 0 (allocated_size c))) eqn:E; [|reflexivity].
  apply existsb_exists in E. destruct E as [pos [_ En]]. unfold stripe_enabled in En. simpl in En.
  apply andb_true_iff in En. destruct En as [_ En]. apply existsb_exists in En. destruct En as [s [Hs Hi]].
  unfold slots_at in Hs. apply in_map_iff in Hs. destruct Hs as [[d|] [Es Hd]]; subst s; [|discriminate].
  destruct (H d Hd) as [A B]. rewrite (slot_at_valid d pos A B) in Hi. discriminate.
Qed.

(* C11 sync_converges, second half, packaged: a content in which every disk records exactly its listing, with every block
   synced and no DELETED entry left, is a fixed point of the scan, and diff exits 0 *)
Theorem rescan_converged basef bs clearpast nocopy inf usable c L :
  (forall k d, nth k (c_disks c) None = Some d -> recorded d (nth k L []) /\ cd_deleted d = []) ->
  (forall k, nth k (c_disks c) None = None -> nth k L [] = []) ->
  exists o, scan basef bs clearpast nocopy inf usable c L = Some o /\
            sc_content o = c /\ cnt_differs (sc_cnt o) = false /\ diff_exit o = 0.
Proof.
  intros Hr Hn.
  destruct (rescan_no_difference basef bs clearpast nocopy inf usable c L (fun k d H => proj1 (Hr k d H)) Hn)
    as [o [E [D1 [D2 [D3 [Dc _]]]]]].
  exists o. split; [exact E|].
  assert (Ec : sc_content o = c) by (destruct (sc_content o), c; simpl in *; congruence).
  split; [exact Ec|]. split; [exact Dc|].
  unfold diff_exit.
  assert (Es : sc_differs o = false).
  { unfold scan in E. destruct (phase1 _ _ _ _ _ _ _ _); [|discriminate]. inversion E; subst o. simpl in *. exact Dc. }
  assert (Ep : sc_parity_invalid o = false).
  { assert (Epi : sc_parity_invalid o = parity_invalid (sc_content o)).
    { unfold scan in E. destruct (phase1 _ _ _ _ _ _ _ _); [|discriminate]. inversion E; subst o. reflexivity. }
    rewrite Epi, Ec. apply parity_invalid_all_blk. intros d Hd. apply In_nth with (d := None) in Hd. destruct Hd as [k [_ Hk]].
    destruct (Hr k d Hk) as [R Dd]. split; [|exact Dd]. intros f b Hf Hb. destruct (rc_file_of _ _ R f Hf) as [A _]. exact (A b Hb). }
  rewrite Es, Ep. reflexivity.
Qed.
