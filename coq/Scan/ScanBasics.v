(* Generic list lemmas used by the scan proofs. *)
From Coq Require Import NArith ZArith List Bool Arith Lia Permutation.
From Snap.Array Require Import ArrayDefs SyncModel.
From Snap.Scan Require Import ScanModel.
Import ListNotations.

Lemma split_first_spec {A} (p : A -> bool) l pre x post :
  split_first p l = Some (pre, x, post) -> l = pre ++ x :: post /\ p x = true /\ (forall y, In y pre -> p y = false).
Proof.
  revert pre x post. induction l as [|a t IH]; simpl; intros pre x post H; [discriminate|].
  destruct (p a) eqn:E.
  - inversion H; subst. simpl. repeat split; auto. intros y [].
  - destruct (split_first p t) as [[[pre' y] post']|] eqn:E2; [|discriminate].
    inversion H; subst. destruct (IH _ _ _ eq_refl) as [H1 [H2 H3]]. subst t. simpl. repeat split; auto.
    intros z [Hz|Hz]; [subst; exact E | auto].
Qed.

Lemma split_first_none {A} (p : A -> bool) l : split_first p l = None -> forall y, In y l -> p y = false.
Proof.
  induction l as [|a t IH]; simpl; intros H y Hy; [destruct Hy|].
  destruct (p a) eqn:E; [discriminate|].
  destruct (split_first p t) as [[[pre' z] post']|] eqn:E2; [discriminate|].
  destruct Hy as [Hy|Hy]; [subst; exact E | auto].
Qed.

Lemma fold_opt_inv {A B} (f : A -> B -> option A) (I : list B -> A -> Prop) l :
  forall done a, I done a ->
  (forall done a x a', I done a -> f a x = Some a' -> I (done ++ [x]) a') ->
  forall a', fold_opt f l a = Some a' -> I (done ++ l) a'.
Proof.
  induction l as [|x t IH]; simpl; intros done a Ha Hstep a' H.
  - inversion H; subst. rewrite app_nil_r. exact Ha.
  - destruct (f a x) as [a1|] eqn:E; [|discriminate].
    replace (done ++ x :: t) with ((done ++ [x]) ++ t) by (rewrite <- app_assoc; reflexivity).
    apply (IH (done ++ [x]) a1); [exact (Hstep done a x a1 Ha E) | exact Hstep | exact H].
Qed.

(* simple (non-indexed) invariant *)
Lemma fold_opt_pres {A B} (f : A -> B -> option A) (I : A -> Prop) l :
  (forall a x a', I a -> f a x = Some a' -> I a') ->
  forall a a', I a -> fold_opt f l a = Some a' -> I a'.
Proof.
  intro Hs. induction l as [|x t IH]; simpl; intros a a' Ha H.
  - inversion H; subst; exact Ha.
  - destruct (f a x) as [a1|] eqn:E; [|discriminate]. apply (IH a1 a'); [exact (Hs a x a1 Ha E) | exact H].
Qed.

Lemma nth_update_nth_same {A} (k : nat) (g : A -> A) (l : list A) (d : A) :
  k < length l -> nth k (update_nth k g l) d = g (nth k l d).
Proof.
  revert k. induction l as [|x t IH]; simpl; intros k H; [lia|].
  destruct k; simpl; [reflexivity|]. apply IH. lia.
Qed.
Lemma nth_update_nth_other {A} (k j : nat) (g : A -> A) (l : list A) (d : A) :
  j <> k -> nth j (update_nth k g l) d = nth j l d.
Proof.
  revert k j. induction l as [|x t IH]; simpl; intros k j H; [destruct k; reflexivity|].
  destruct k, j; simpl; try reflexivity; try congruence. apply IH. congruence.
Qed.
Lemma update_nth_length {A} (k : nat) (g : A -> A) (l : list A) : length (update_nth k g l) = length l.
Proof. revert k. induction l as [|x t IH]; simpl; intros k; destruct k; simpl; auto. Qed.

Lemma nth_set_disk_same k d (w : world) : k < length w -> nth k (set_disk k d w) None = Some d.
Proof. intro H. unfold set_disk. rewrite nth_update_nth_same by exact H. reflexivity. Qed.
Lemma nth_set_disk_other k j d (w : world) : j <> k -> nth j (set_disk k d w) None = nth j w None.
Proof. intro H. unfold set_disk. apply nth_update_nth_other. exact H. Qed.
Lemma set_disk_length k d (w : world) : length (set_disk k d w) = length w.
Proof. apply update_nth_length. Qed.

Lemma nth_Some_lt {A} (l : list (option A)) k x : nth k l None = Some x -> k < length l.
Proof.
  intro H. destruct (Nat.lt_ge_cases k (length l)) as [L|L]; [exact L|].
  rewrite nth_overflow in H by exact L. discriminate.
Qed.

Lemma in_app3 {A} (x : A) pre y post : In x (pre ++ y :: post) <-> In x pre \/ x = y \/ In x post.
Proof. rewrite in_app_iff. simpl. intuition. Qed.

Lemma insert_sorted_in x l y : In y (insert_sorted x l) <-> y = x \/ In y l.
Proof.
  induction l as [|z t IH]; simpl; [intuition|].
  destruct (N.ltb (snd x) (snd z)); simpl; [intuition|]. rewrite IH. intuition.
Qed.
Lemma sort_ins_in l y : In y (sort_ins l) <-> In y l.
Proof.
  unfold sort_ins. assert (G : forall acc, In y (fold_left (fun acc x => insert_sorted x acc) l acc) <-> In y acc \/ In y l).
  { induction l as [|x t IH]; simpl; intro acc; [intuition|]. rewrite IH. rewrite insert_sorted_in. intuition. }
  rewrite G. simpl. intuition.
Qed.

