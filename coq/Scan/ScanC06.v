(* The scan against the invariant of C06 (definitions imported from Array/SyncProofsDefs.v, nothing redefined):
     scan_preserves_ParOK            a stripe that is synced after the scan was synced before, with the same blocks
     scan_preserves_PastOK_partial   PastOK survives at every position where each CHG block with a unique hash has the
                                     block length of the block whose hash it inherited
     scan_past_refuted               ... and not in general: the witness (scan.c:286 copies the past hash of the DELETED
                                     block, taken over 100 bytes, into a CHG block of 1024 bytes)
   (MapOK: Scan/ScanMap.v scan_preserves_MapOK.) *)
From Coq Require Import NArith ZArith List Bool Arith Lia.
From Snap.Array Require Import ArrayDefs SyncModel SyncProofsDefs.
From Snap.Scan Require Import ScanModel ScanBasics ScanSteps ScanInv ScanSound ScanCopy ScanMap ScanPar.
Import ListNotations.

(* no unique (real) hash on a CHG block or a DELETED entry: what loading with clear_past_hash establishes *)
Definition past_cleared (c : content) : Prop :=
  forall d, In (Some d) (c_disks c) ->
    (forall f b, In f (cd_files d) -> In b (cf_blocks f) -> fb_state b = SChg -> h_unique (fb_hash b) = false) /\
    (forall ph, In ph (cd_deleted d) -> h_unique (snd ph) = false).

Lemma past_cleared_clear_past c : past_cleared (clear_past c).
Proof.
  unfold past_cleared, clear_past. simpl. intros d Hd.
  apply in_map_iff in Hd. destruct Hd as [[d0|] [E Hd0]]; [|discriminate]. inversion E; subst d; clear E. simpl. split.
  - intros f b Hf Hb Hs. apply in_map_iff in Hf. destruct Hf as [f0 [E Hf0]]. subst f. simpl in Hb.
    apply in_map_iff in Hb. destruct Hb as [b0 [E Hb0]]. subst b. destruct (fb_state b0) eqn:S; simpl in *; congruence.
  - intros ph Hph. apply in_map_iff in Hph. destruct Hph as [ph0 [E _]]. subst ph. reflexivity.
Qed.

Section C06.
  Variable hashf : bid -> N -> hval.
  Variables (basef : N -> N) (bs : N) (clearpast nocopy : bool) (inf : list (option info)).

  Lemma slot_rel_content usable c listing o :
    MapOK c -> scan basef bs clearpast nocopy inf usable c listing = Some o ->
    length (c_disks (sc_content o)) = length (c_disks c) /\
    forall pos j, slot_rel clearpast (slot_of c pos j) (slot_of (sc_content o) pos j).
  Proof.
    intros M H. destruct (scan_disks_rel basef bs clearpast nocopy inf usable c listing o M H) as [L R].
    split; [exact L|]. intros pos j. rewrite !slot_of_nth. specialize (R j).
    destruct (nth j (c_disks c) None) as [d0|].
    - destruct R as [d [E [M0 [S P]]]]. rewrite E. apply finish_slots; assumption.
    - rewrite R. simpl. reflexivity.
  Qed.

  Lemma slot_of_file_in c pos j f i b :
    slot_of c pos j = SFile f i b -> exists d, In (Some d) (c_disks c) /\ In f (cd_files d) /\ In b (cf_blocks f).
  Proof.
    rewrite slot_of_nth. destruct (nth j (c_disks c) None) as [d|] eqn:E; [|discriminate]. intro H.
    destruct (slot_at_file_inv d pos f i b H) as [A [B _]]. exists d. split; [|split; [exact A | eapply nth_error_In; eauto]].
    rewrite <- E. apply nth_In. eapply nth_Some_lt; eauto.
  Qed.
  Lemma slot_of_deleted_in c pos j h :
    slot_of c pos j = SDeleted h -> exists d, In (Some d) (c_disks c) /\ In (pos, h) (cd_deleted d).
  Proof.
    rewrite slot_of_nth. destruct (nth j (c_disks c) None) as [d|] eqn:E; [|discriminate]. unfold slot_at.
    destruct (find_in_files pos (cd_files d)) as [[[f i] b]|]; [discriminate|].
    destruct (find_deleted pos (cd_deleted d)) as [h'|] eqn:E2; [|discriminate]. intro H; inversion H; subst.
    exists d. split; [rewrite <- E; apply nth_In; eapply nth_Some_lt; eauto | apply find_deleted_in; exact E2].
  Qed.

  (* transfer of enc_ok along a slot-wise implication *)
  Lemma enc_ok_transfer c c' pos v :
    length (c_disks c') = length (c_disks c) ->
    (forall j x, slot_enc hashf bs (slot_of c pos j) x -> slot_enc hashf bs (slot_of c' pos j) x) ->
    enc_ok hashf bs c pos v -> enc_ok hashf bs c' pos v.
  Proof. intros L T [A B]. split; [congruence|]. intros j Hj. apply T. apply B. congruence. Qed.

  Theorem scan_preserves_ParOK usable c par listing o :
    MapOK c -> ParOK hashf bs c par ->
    scan basef bs clearpast nocopy inf usable c listing = Some o -> ParOK hashf bs (sc_content o) par.
  Proof.
    intros M P H. destruct (slot_rel_content usable c listing o M H) as [L R].
    intros pos [Hall [j0 Hfile]].
    assert (Hrel : forall j, slot_synced (slot_of c pos j) /\
                             forall x, slot_enc hashf bs (slot_of c pos j) x -> slot_enc hashf bs (slot_of (sc_content o) pos j) x).
    { intro j. specialize (Hall j). specialize (R pos j). unfold slot_rel in R.
      destruct (slot_of (sc_content o) pos j) as [|f' i b'|h]; simpl in Hall.
      - rewrite R. simpl. auto.
      - destruct R as [[f0 [E S]] | [NB _]]; [|contradiction].
        rewrite E. simpl. split; [exact Hall|]. intros x Hx. rewrite <- S. exact Hx.
      - contradiction. }
    assert (Hs : stripe_synced c pos).
    { split; [intro j; apply Hrel|]. exists j0. specialize (R pos j0). unfold slot_rel in R. specialize (Hall j0).
      destruct (slot_of (sc_content o) pos j0) as [|f' i b'|h]; simpl in Hfile; try discriminate. simpl in Hall.
      destruct R as [[f0 [E S]] | [NB _]]; [rewrite E; reflexivity | contradiction]. }
    intros lv Hlv. destruct (P pos Hs lv Hlv) as [v [A B]]. exists v. split; [exact A|].
    apply (enc_ok_transfer c (sc_content o) pos v L); [|exact B]. intros j x. apply Hrel.
  Qed.

  (* each CHG block with a unique hash at this stripe has the block length of what stood there before the scan *)
  Definition len_ok (c c' : content) (pos : nat) : Prop :=
    forall j f' i' b' f0 i0 b0,
      slot_of c' pos j = SFile f' i' b' -> fb_state b' = SChg -> h_unique (fb_hash b') = true ->
      slot_of c pos j = SFile f0 i0 b0 -> block_len bs (cf_size f0) i0 = block_len bs (cf_size f') i'.

  Theorem scan_preserves_PastOK_partial usable c par listing o :
    MapOK c -> ParOK hashf bs c par -> (forall pos, PastOK hashf bs c par pos) ->
    (clearpast = true -> past_cleared c) ->
    scan basef bs clearpast nocopy inf usable c listing = Some o ->
    forall pos, len_ok c (sc_content o) pos -> PastOK hashf bs (sc_content o) par pos.
  Proof.
    intros M P Q PC H pos LK. destruct (slot_rel_content usable c listing o M H) as [L R].
    intros [Hall [j0 Hfile]].
    (* every slot of the stripe was quiet before, encoding-wise at least as constrained *)
    assert (Hrel : forall j, slot_quiet (slot_of c pos j) /\
                             (slot_has_file (slot_of (sc_content o) pos j) = true -> slot_has_file (slot_of c pos j) = true) /\
                             forall x, slot_enc hashf bs (slot_of c pos j) x -> slot_enc hashf bs (slot_of (sc_content o) pos j) x).
    { intro j. specialize (Hall j). pose proof (R pos j) as Rj. pose proof (LK j) as LKj. unfold slot_rel in Rj.
      destruct (slot_of (sc_content o) pos j) as [|f' i b'|h] eqn:Es'; simpl in Hall.
      - rewrite Rj. simpl. auto.
      - destruct Rj as [[f0 [E S]] | [NB Hnew]].
        + rewrite E. simpl. split; [exact Hall|]. split; [auto|]. intros x Hx. rewrite <- S. exact Hx.
        + destruct Hall as [Hb | [Hc Hu]]; [contradiction|].
          destruct (Hnew Hc Hu) as [Ecp [Ed | [f0 [i0 [b0 [E Eh]]]]]].
          * exfalso. destruct (slot_of_deleted_in c pos j _ Ed) as [d [Hd Hin]].
            destruct (PC Ecp d Hd) as [_ PD]. specialize (PD _ Hin). simpl in PD. congruence.
          * (* the block that stood there: BLK with this hash (a CHG or REP one would not give a unique hash) *)
            destruct (slot_of_file_in c pos j f0 i0 b0 E) as [d [Hd [Hf0 Hb0]]]. destruct (PC Ecp d Hd) as [PF _].
            unfold past_of in Eh. destruct (fb_state b0) eqn:S0.
            -- rewrite E. simpl. split; [left; exact S0|]. split; [auto|]. intros x Hx.
               rewrite <- (LKj f' i b' f0 i0 b0 eq_refl Hc Hu E). rewrite Eh. exact Hx.
            -- exfalso. specialize (PF f0 b0 Hf0 Hb0 S0). rewrite Eh in Hu. congruence.
            -- exfalso. rewrite Eh in Hu. simpl in Hu. discriminate.
      - contradiction. }
    assert (Hq : stripe_quiet c pos).
    { split; [intro j; apply Hrel|]. exists j0. apply (proj1 (proj2 (Hrel j0))). exact Hfile. }
    intros lv Hlv. destruct (Q pos Hq lv Hlv) as [v [A B]]. exists v. split; [exact A|].
    apply (enc_ok_transfer c (sc_content o) pos v L); [|exact B]. intros j x. apply Hrel.
  Qed.
End C06.

(* --- the witness --------------------------------------------------------------------------------------------------------- *)
Definition wit_hf (x : bid) (l : N) : hval := HReal (x * 4096 + l)%N.
Definition wit_fA := mkCF 1%N 100%N 1%Z 5%Z 10%N false [mkFB SBlk 0 (wit_hf 7%N 100%N)].
Definition wit_c := mkC [Some (mkCD [wit_fA] [] [] [])] [Some (mkInfo 1%N false false false)] 1.
Definition wit_par : parity := [[PEnc [7%N]]].
Definition wit_L := [[mkLE LFile 2%N 1024%N 2%Z 6%Z 11%N 1%N 0%N 0%N]].

Lemma wit_slot_other pos j : slot_has_file (slot_of wit_c (S pos) j) = false.
Proof. rewrite slot_of_nth. destruct j as [|[|j]]; reflexivity. Qed.

Theorem scan_past_refuted :
  exists (hashf : bid -> N -> hval) (bs : N) (c : content) (par : parity) (listing : list (list lentry)) (o : scan_out),
    MapOK c /\ ParOK hashf bs c par /\ (forall pos, PastOK hashf bs c par pos) /\ past_cleared c /\
    sync_scan (fun x => x) bs false [true] c listing = Some o /\
    ~ PastOK hashf bs (sc_content o) par 0.
Proof.
  exists wit_hf, 1024%N, wit_c, wit_par, wit_L.
  destruct (sync_scan (fun x => x) 1024%N false [true] wit_c wit_L) as [o|] eqn:E; [|vm_compute in E; discriminate].
  exists o.
  assert (P : forall pos, PastOK wit_hf 1024%N wit_c wit_par pos).
  { intros [|pos] [_ [j Hj]].
    - intros lv [Hlv|[]]. subst lv. exists [7%N]. split; [reflexivity|]. split; [reflexivity|].
      intros j' Hj'. simpl in Hj'. assert (j' = 0) by lia. subst j'. vm_compute. reflexivity.
    - rewrite wit_slot_other in Hj. discriminate. }
  split; [|split; [|split; [|split; [|split]]]].
  - intros d [Hd|[]]. inversion Hd; subst d. unfold MapOK_disk, map_ok. simpl. repeat split.
    + constructor; [intros [] | constructor].
    + intros l [Hl|[]]. subst l. intros i j H. simpl in H. lia.
    + constructor.
    + intros p [].
  - apply PastOK_all_ParOK. exact P.
  - exact P.
  - intros d [Hd|[]]. inversion Hd; subst d. simpl. split; [|intros ph []].
    intros f b [Hf|[]] Hb Hs. subst f. simpl in Hb. destruct Hb as [Hb|[]]. subst b. discriminate.
  - reflexivity.
  - vm_compute in E. inversion E; subst o; clear E. intro Hp.
    assert (Hq : stripe_quiet (sc_content {| sc_content := {| c_disks := [Some {| cd_files := [{| cf_name := 2%N; cf_size := 1024%N; cf_mtime := 2%Z; cf_nsec := 6%Z; cf_inode := 11%N; cf_copy := false;
                                                                                     cf_blocks := [{| fb_state := SChg; fb_pos := 0; fb_hash := HReal 28772%N |}] |}];
                                                                         cd_deleted := []; cd_links := []; cd_dirs := [] |}];
                                                  c_info := [Some {| i_time := 1%N; i_bad := false; i_rehash := false; i_justsynced := false |}]; c_blockmax := 1 |};
                                 sc_cnt := {| n_equal := 0; n_move := 0; n_restore := 0; n_change := 0; n_copy := 0; n_insert := 1; n_remove := 1 |};
                                 sc_differs := true; sc_parity_invalid := true |}) 0).
    { split.
      - intro j. rewrite slot_of_nth. destruct j as [|[|j]]; simpl; auto.
      - exists 0. reflexivity. }
    destruct (Hp Hq [PEnc [7%N]] (or_introl eq_refl)) as [v [A [_ B]]]. simpl in A. inversion A; subst v.
    specialize (B 0 (Nat.lt_0_succ 0)). vm_compute in B. discriminate.
Qed.
