(* Copy detection (C19 copy_provisional), --force-nocopy (nocopy_drops) and the verdict of diff (C11 diff_verdict). *)
From Coq Require Import NArith ZArith List Bool Arith Lia.
From Snap.Array Require Import ArrayDefs SyncModel.
From Snap.Scan Require Import ScanModel ScanBasics ScanSteps ScanInv ScanSound.
Import ListNotations.

Section Copy.
  Variables (basef : N -> N) (bs : N) (clearpast nocopy : bool) (inf : list (option info)).

  (* --- what copy detection requires of the source ---------------------------------------------------------------- *)
  Definition copy_source_ok (e : lentry) (o : cfile) : Prop :=
    cf_size o = le_size e /\ cf_mtime o = le_mtime e /\ cf_nsec o = le_nsec e /\
    (* same name; the same path when the nanoseconds are zero or unknown *)
    (basef (cf_name o) = basef (le_name e) \/ cf_name o = le_name e) /\
    ((le_nsec e = 0%Z \/ le_nsec e = (-1)%Z) -> cf_name o = le_name e) /\
    (* fully hashed: at least one block, none of them without an up-to-date hash *)
    cf_blocks o <> [] /\ (forall b, In b (cf_blocks o) -> fb_state b <> SChg).

  Lemma stamp_match_spec e o : stamp_match basef e o = true ->
    cf_size o = le_size e /\ cf_mtime o = le_mtime e /\ cf_nsec o = le_nsec e /\
    (basef (cf_name o) = basef (le_name e) \/ cf_name o = le_name e) /\
    ((le_nsec e = 0%Z \/ le_nsec e = (-1)%Z) -> cf_name o = le_name e).
  Proof.
    unfold stamp_match. intro H.
    apply andb_true_iff in H. destruct H as [H H4]. apply andb_true_iff in H. destruct H as [H H3]. apply andb_true_iff in H. destruct H as [H1 H2].
    apply N.eqb_eq in H2. apply Z.eqb_eq in H3. apply Z.eqb_eq in H4.
    destruct (Z.eqb (le_nsec e) 0) eqn:E0; destruct (Z.eqb (le_nsec e) (-1)) eqn:E1; simpl in H1; apply N.eqb_eq in H1;
      repeat split; auto; intros [A|A]; try (apply Z.eqb_neq in E0; contradiction); try (apply Z.eqb_neq in E1; contradiction); auto.
  Qed.

  Lemma full_hashed_spec mapped o : full_hashed_stable inf mapped o = true ->
    cf_blocks o <> [] /\ (forall b, In b (cf_blocks o) -> fb_state b <> SChg).
  Proof.
    unfold full_hashed_stable. destruct (cf_blocks o) as [|b0 t] eqn:E; [discriminate|]. intro H. split; [discriminate|].
    intros b Hb. rewrite forallb_forall in H. specialize (H b Hb). apply andb_true_iff in H. destruct H as [H _].
    apply negb_true_iff in H. intro Hc. rewrite Hc in H. discriminate.
  Qed.

  (* where a file of a disk state lives: loaded from the content file (mapped) or created by this scan *)
  Definition in_sdisk (o : cfile) (d : sdisk) : Prop :=
    (exists sf, In sf (sd_files d) /\ sf_f sf = o) \/ (exists fk, In fk (sd_ins d) /\ fst fk = o).

  Lemma stamp_search_spec e d o mapped : stamp_search basef e d = Some (o, mapped) -> in_sdisk o d /\ stamp_match basef e o = true.
  Proof.
    unfold stamp_search. destruct (find (fun sf => stamp_match basef e (sf_f sf)) (sd_files d)) as [sf|] eqn:E1.
    - intro H; inversion H; subst. apply find_some in E1. destruct E1 as [A B]. split; [left; eauto | exact B].
    - destruct (find (fun fk => stamp_match basef e (fst fk)) (sd_ins d)) as [fk|] eqn:E2; [|discriminate].
      intro H; inversion H; subst. apply find_some in E2. destruct E2 as [A B]. split; [right; eauto | exact B].
  Qed.

  Lemma copy_search_spec e (w : world) o : copy_search basef inf e w = Some o ->
    (exists d, In (Some d) w /\ in_sdisk o d) /\ copy_source_ok e o.
  Proof.
    induction w as [|od t IH]; simpl; [discriminate|]. destruct od as [d|].
    - destruct (stamp_search basef e d) as [[o' mapped]|] eqn:E.
      + destruct (full_hashed_stable inf mapped o') eqn:F.
        * intro H; inversion H; subst o'. apply stamp_search_spec in E. destruct E as [A B].
          split; [exists d; split; [left; reflexivity | exact A]|].
          apply stamp_match_spec in B. apply full_hashed_spec in F. unfold copy_source_ok. tauto.
        * intro H. destruct (IH H) as [[d' [A B]] C]. split; [exists d'; split; [right; exact A | exact B] | exact C].
      + intro H. destruct (IH H) as [[d' [A B]] C]. split; [exists d'; split; [right; exact A | exact B] | exact C].
    - intro H. destruct (IH H) as [[d' [A B]] C]. split; [exists d'; split; [right; exact A | exact B] | exact C].
  Qed.

  (* the file created for a new or changed entry: either nothing is known about its blocks (CHG, hash INVALID), or every
     hash is the one of the corresponding block of the source and the block is REP -- never BLK *)
  Lemma new_file_blocks e src b :
    In b (cf_blocks (new_file bs e src)) ->
    match src with
    | None => b = mkFB SChg 0 HInvalid
    | Some o => fb_state b = SRep /\ exists i, fb_hash b = fb_hash (nth i (cf_blocks o) (mkFB SChg 0 HInvalid))
    end.
  Proof.
    unfold new_file. simpl. destruct src as [o|]; intro H.
    - apply in_map_iff in H. destruct H as [i [E _]]. subst b. simpl. split; [reflexivity | exists i; reflexivity].
    - apply repeat_spec in H. exact H.
  Qed.
  Lemma new_file_copy_flag e src : cf_copy (new_file bs e src) = match src with Some _ => true | None => false end.
  Proof. reflexivity. Qed.

  (* --- a disk-local predicate preserved by every scan_entry ----------------------------------------------------- *)
  Lemma scan_entry_pres (Q : sdisk -> Prop) usable k (w w' : world) e :
    (forall d d', fstep basef bs clearpast nocopy inf usable e w k d d' -> Q d -> Q d') ->
    (forall d name to hard d', scan_link d name to hard = Some d' -> Q d -> Q d') ->
    (forall d name d', scan_emptydir d name = Some d' -> Q d -> Q d') ->
    scan_entry basef bs clearpast nocopy inf usable k w e = Some w' ->
    (forall j d, nth j w None = Some d -> Q d) -> forall j d, nth j w' None = Some d -> Q d.
  Proof.
    intros HF HL HD H I j d Hd. unfold scan_entry in H. destruct (nth k w None) as [dk|] eqn:Ek; [|discriminate].
    assert (Hlt : k < length w) by (eapply nth_Some_lt; eauto).
    assert (G : forall d', Q d' -> w' = set_disk k d' w -> Q d).
    { intros d' Qd' E. subst w'. destruct (Nat.eq_dec j k) as [->|Hn].
      - rewrite nth_set_disk_same in Hd by exact Hlt. inversion Hd; subst. exact Qd'.
      - rewrite nth_set_disk_other in Hd by exact Hn. eapply I; eauto. }
    destruct (le_kind e).
    - apply scan_file_fstep in H. destruct H as [d' [E S]]. apply (G d'); [|exact E]. eapply HF; eauto.
    - destruct (scan_link dk (le_name e) (le_to e) false) as [d'|] eqn:El; [|discriminate]. inversion H; subst w'.
      apply (G d'); [|reflexivity]. eapply HL; eauto.
    - destruct (scan_emptydir dk (le_name e)) as [d'|] eqn:El; [|discriminate]. inversion H; subst w'.
      apply (G d'); [|reflexivity]. eapply HD; eauto.
  Qed.

  Lemma phase1_pres (Q : sdisk -> Prop) usable listing :
    (forall u e w k d d', fstep basef bs clearpast nocopy inf u e w k d d' -> Q d -> Q d') ->
    (forall d name to hard d', scan_link d name to hard = Some d' -> Q d -> Q d') ->
    (forall d name d', scan_emptydir d name = Some d' -> Q d -> Q d') ->
    forall (w w' : world), phase1 basef bs clearpast nocopy inf usable listing w = Some w' ->
    (forall j d, nth j w None = Some d -> Q d) -> forall j d, nth j w' None = Some d -> Q d.
  Proof.
    intros HF HL HD w w' H. unfold phase1 in H. revert H. generalize (seq 0 (length w)) as ks. intro ks. revert w.
    induction ks as [|k t IH]; simpl; intros w H I.
    - inversion H; subst. exact I.
    - destruct (fold_opt (scan_entry basef bs clearpast nocopy inf (nth k usable false) k) (nth k listing []) w) as [w1|] eqn:E; [|discriminate].
      apply (IH w1 H). clear IH H. revert w w1 E I. generalize (nth k listing []) as es.
      induction es as [|e es IHe]; simpl; intros w w1 E I.
      + inversion E; subst. exact I.
      + destruct (scan_entry basef bs clearpast nocopy inf (nth k usable false) k w e) as [w2|] eqn:E2; [|discriminate].
        apply (IHe w2 w1 E). eapply scan_entry_pres; eauto.
  Qed.
End Copy.

(* --- --force-nocopy ------------------------------------------------------------------------------------------------------ *)
Definition content_no_rep (c : content) : Prop :=
  forall d f b, In (Some d) (c_disks c) -> In f (cd_files d) -> In b (cf_blocks f) -> fb_state b <> SRep.

(* the reader's rewrite: no REP block is left, each former REP block is CHG with the INVALID hash at the same position *)
Lemma nocopy_load_no_rep c : content_no_rep (nocopy_load c).
Proof.
  unfold content_no_rep, nocopy_load. simpl. intros d f b Hd Hf Hb.
  apply in_map_iff in Hd. destruct Hd as [[d0|] [E Hd0]]; [|discriminate]. inversion E; subst d; clear E. simpl in Hf.
  apply in_map_iff in Hf. destruct Hf as [f0 [E Hf0]]. subst f. simpl in Hb.
  apply in_map_iff in Hb. destruct Hb as [b0 [E Hb0]]. subst b. destruct (fb_state b0) eqn:S; simpl; congruence.
Qed.

Lemma nocopy_load_blocks c k d f b :
  nth k (c_disks c) None = Some d -> In f (cd_files d) -> In b (cf_blocks f) ->
  exists d' f' b', nth k (c_disks (nocopy_load c)) None = Some d' /\ In f' (cd_files d') /\ In b' (cf_blocks f') /\
                   cf_name f' = cf_name f /\ fb_pos b' = fb_pos b /\
                   (fb_state b = SRep -> fb_state b' = SChg /\ fb_hash b' = HInvalid) /\ (fb_state b <> SRep -> b' = b).
Proof.
  intros Hd Hf Hb. unfold nocopy_load. simpl.
  eexists. eexists. eexists. split.
  - rewrite (nth_map_opt _ (c_disks c) k). rewrite Hd. reflexivity.
  - simpl. split; [apply in_map; exact Hf|]. simpl. split; [apply in_map with (f := fun b => match fb_state b with SRep => mkFB SChg (fb_pos b) HInvalid | _ => b end); exact Hb|].
    simpl. destruct (fb_state b) eqn:S; simpl; repeat split; auto; try congruence.
Qed.

Section NoCopyScan.
  Variables (basef : N -> N) (bs : N) (clearpast : bool) (inf : list (option info)).

  (* with --force-nocopy the scan never creates a REP block: nothing is inherited *)
  Definition sd_no_rep (d : sdisk) : Prop :=
    (forall sf b, In sf (sd_files d) -> In b (cf_blocks (sf_f sf)) -> fb_state b <> SRep) /\
    (forall fk b, In fk (sd_ins d) -> In b (cf_blocks (fst fk)) -> fb_state b = SChg).

  Lemma no_rep_kicked d dk : kicked d dk -> sd_no_rep d -> sd_no_rep dk.
  Proof.
    intros [E | [pre [sf [post [Ef [Hp [Hn E]]]]]]] [A B]; [subst; split; assumption|]. subst dk. split; simpl; [|exact B].
    intros x b Hx Hb. apply in_app3 in Hx. destruct Hx as [Hx|[Hx|Hx]].
    - apply (A x b); [rewrite Ef; apply in_app3; auto | exact Hb].
    - subst x. simpl in Hb. apply (A sf b); [rewrite Ef; apply in_app3; auto | exact Hb].
    - apply (A x b); [rewrite Ef; apply in_app3; auto | exact Hb].
  Qed.

  Lemma full_invalid_all_chg_or_rep f b : full_invalid_stable inf f = true -> In b (cf_blocks f) -> fb_state b <> SBlk.
  Proof. intros H Hb. exact (full_invalid_no_blk inf f H b Hb). Qed.

  Lemma no_rep_fstep usable e w k d d' :
    fstep basef bs clearpast true inf usable e w k d d' -> sd_no_rep d -> sd_no_rep d'.
  Proof.
    intros S I. destruct S as [target Hn Hl | dk dc pre sf post f' Hkick Ef Hp R S E | dk d1 was src cnt Hkick Hr Es E].
    - apply scan_link_spec in Hl. destruct Hl as [F1 [F2 _]]. destruct I as [A B]. split; rewrite ?F1, ?F2; assumption.
    - apply (no_rep_kicked d dk Hkick) in I. destruct I as [A B]. destruct S as [S1 [S2 _]].
      destruct R as [R1 _]. subst d'. unfold keep. simpl.
      assert (Hsf : In sf (sd_files dk)) by (rewrite Ef; apply in_app3; auto).
      destruct (full_invalid_stable inf f') eqn:Efi; split; simpl; rewrite ?S1, ?S2.
      + intros x b Hx Hb. apply (A x b); [rewrite Ef; apply in_app_iff in Hx; apply in_app3; tauto | exact Hb].
      + intros fk b Hfk Hb. apply in_snoc in Hfk. destruct Hfk as [Hfk|Hfk]; [eapply B; eauto|]. subst fk. simpl in Hb.
        pose proof (full_invalid_no_blk inf f' Efi b Hb) as NB. rewrite R1 in Hb. pose proof (A sf b Hsf Hb) as NR.
        destruct (fb_state b); congruence.
      + intros x b Hx Hb. apply in_app3 in Hx. destruct Hx as [Hx|[Hx|Hx]].
        * apply (A x b); [rewrite Ef; apply in_app3; auto | exact Hb].
        * subst x. simpl in Hb. rewrite R1 in Hb. exact (A sf b Hsf Hb).
        * apply (A x b); [rewrite Ef; apply in_app3; auto | exact Hb].
      + exact B.
    - apply (no_rep_kicked d dk Hkick) in I.
      assert (I1 : sd_no_rep d1).
      { destruct Hr as [[_ [E1 _]] | [_ [pre [sf [post [f1 [Ef [Hp [Hn [Hb E1]]]]]]]]]]; [subst; exact I|].
        destruct I as [A B]. subst d1. split; simpl; [|exact B].
        intros x b Hx Hbx. apply (A x b); [rewrite Ef; apply in_app_iff in Hx; apply in_app3; tauto | exact Hbx]. }
      destruct I1 as [A B]. subst d'. split; simpl; [exact A|].
      intros fk b Hfk Hb. apply in_snoc in Hfk. destruct Hfk as [Hfk|Hfk]; [eapply B; eauto|]. subst fk src. simpl in Hb.
      apply repeat_spec in Hb. subst b. reflexivity.
  Qed.

  Lemma alloc_block_chg occ ff del b : fb_state b = SChg -> fb_state (snd (alloc_block clearpast inf occ ff del b)) = SChg.
  Proof. intro H. unfold alloc_block. cbn [snd]. rewrite H. simpl. reflexivity. Qed.

  Lemma alloc_blocks_chg occ bl : forall ff del,
    (forall b, In b bl -> fb_state b = SChg) -> forall b, In b (snd (alloc_blocks clearpast inf occ ff del bl)) -> fb_state b = SChg.
  Proof.
    induction bl as [|b0 t IH]; intros ff del H b Hb; [destruct Hb|].
    rewrite alloc_blocks_cons in Hb.
    destruct (alloc_block clearpast inf occ ff del b0) as [[ff1 del1] nb] eqn:E1.
    destruct (alloc_blocks clearpast inf occ ff1 del1 t) as [[ff2 del2] rest] eqn:E2. simpl in Hb.
    destruct Hb as [Hb|Hb].
    - subst b. pose proof (alloc_block_chg occ ff del b0 (H b0 (or_introl eq_refl))) as S. rewrite E1 in S. exact S.
    - apply (IH ff1 del1); [intros x Hx; apply H; right; exact Hx | rewrite E2; exact Hb].
  Qed.

  Lemma alloc_files_chg occ fl : forall ff del,
    (forall f b, In f fl -> In b (cf_blocks f) -> fb_state b = SChg) ->
    forall f b, In f (snd (alloc_files clearpast inf occ ff del fl)) -> In b (cf_blocks f) -> fb_state b = SChg.
  Proof.
    induction fl as [|f0 t IH]; intros ff del H f b Hf Hb; [destruct Hf|].
    rewrite alloc_files_cons in Hf.
    destruct (alloc_blocks clearpast inf occ ff del (cf_blocks f0)) as [[ff1 del1] bl] eqn:E1.
    destruct (alloc_files clearpast inf occ ff1 del1 t) as [del2 rest] eqn:E2. simpl in Hf.
    destruct Hf as [Hf|Hf].
    - subst f. simpl in Hb. apply (alloc_blocks_chg occ (cf_blocks f0) ff del); [intros x Hx; apply (H f0 x); [left; reflexivity | exact Hx] | rewrite E1; exact Hb].
    - apply (IH ff1 del1) with (f := f); [intros g x Hg Hx; apply (H g x); [right; exact Hg | exact Hx] | rewrite E2; exact Hf | exact Hb].
  Qed.

  Theorem nocopy_scan_no_rep usable c listing o :
    content_no_rep c ->
    scan basef bs clearpast true inf usable c listing = Some o -> content_no_rep (sc_content o).
  Proof.
    intros NR H. unfold scan in H.
    set (w0 := map (fun kd : nat * option cdisk => match snd kd with Some d => Some (prepare (nth (fst kd) usable false) d) | None => None end)
                   (combine (seq 0 (length (c_disks c))) (c_disks c))) in *.
    destruct (phase1 basef bs clearpast true inf usable listing w0) as [w|] eqn:E; [|discriminate].
    inversion H; subst o; clear H. unfold content_no_rep. simpl. intros d f b Hd Hf Hb.
    assert (I0 : forall j d, nth j w0 None = Some d -> sd_no_rep d).
    { intros j dj Hj. assert (In (Some dj) w0) by (rewrite <- Hj; apply nth_In; eapply nth_Some_lt; eauto).
      unfold w0 in H. apply in_map_iff in H. destruct H as [[i od] [E1 Hin]]. simpl in E1. destruct od as [d0|]; [|discriminate].
      inversion E1; subst dj. apply in_combine_r in Hin. split; simpl; [|intros ? ? []].
      intros sf x Hsf Hx. apply in_map_iff in Hsf. destruct Hsf as [f0 [Es Hf0]].
      apply (NR d0 f0 x Hin Hf0). destruct (nth i usable false); subst sf; exact Hx. }
    assert (I1 : forall j d, nth j w None = Some d -> sd_no_rep d).
    { eapply (phase1_pres basef bs clearpast true inf sd_no_rep); [ | | | exact E | exact I0].
      - intros u e w1 k d1 d2 S. exact (no_rep_fstep u e w1 k d1 d2 S).
      - intros d1 name to hard d2 Hl [A B]. apply scan_link_spec in Hl. destruct Hl as [F1 [F2 _]]. split; rewrite ?F1, ?F2; assumption.
      - intros d1 name d2 Hl [A B]. apply scan_emptydir_spec in Hl. destruct Hl as [F1 [F2 _]]. split; rewrite ?F1, ?F2; assumption. }
    rewrite map_map in Hd. apply in_map_iff in Hd. destruct Hd as [[sd|] [E1 Hin]]; [|discriminate]. inversion E1; subst d; clear E1.
    apply In_nth with (d := None) in Hin. destruct Hin as [j [_ Hj]]. destruct (I1 j sd Hj) as [A B].
    unfold finish_disk in Hf.
    destruct (alloc_files clearpast inf
                (flat_map (fun f0 => map fb_pos (cf_blocks f0)) (map sf_f (sd_files (remove_missing clearpast sd)))) 0
                (sd_deleted (remove_missing clearpast sd)) (map fst (sort_ins (sd_ins (remove_missing clearpast sd))))) as [del added] eqn:Ea.
    simpl in Hf. apply in_app_iff in Hf. destruct Hf as [Hf|Hf].
    - apply in_map_iff in Hf. destruct Hf as [sf [Es Hsf]]. subst f. simpl in Hsf. apply filter_In in Hsf. destruct Hsf as [Hsf _].
      exact (A sf b Hsf Hb).
    - assert (S : fb_state b = SChg).
      { eapply (alloc_files_chg _ (map fst (sort_ins (sd_ins (remove_missing clearpast sd)))) 0 (sd_deleted (remove_missing clearpast sd))).
        - intros g x Hg Hx. apply in_map_iff in Hg. destruct Hg as [fk [Eg Hfk]]. subst g.
          apply (proj1 (sort_ins_in _ _)) in Hfk. exact (B fk x Hfk Hx).
        - rewrite Ea. exact Hf.
        - exact Hb. }
      congruence.
  Qed.
End NoCopyScan.

(* --- the verdict of diff -------------------------------------------------------------------------------------------------- *)
Lemma cnt_differs_spec c :
  cnt_differs c = true <-> n_move c + n_copy c + n_restore c + n_change c + n_remove c + n_insert c <> 0.
Proof.
  unfold cnt_differs. rewrite negb_true_iff.
  destruct (n_move c), (n_copy c), (n_restore c), (n_change c), (n_remove c), (n_insert c); simpl; split; intro H; try lia; try reflexivity; try discriminate.
Qed.

Lemma parity_invalid_spec c :
  parity_invalid c = true <->
  exists pos, pos < allocated_size c /\ existsb slot_has_file (slots_at c pos) = true /\ existsb slot_invalid_parity (slots_at c pos) = true.
Proof.
  unfold parity_invalid. rewrite existsb_exists. split.
  - intros [pos [Hin H]]. apply in_seq in Hin. unfold stripe_enabled in H. simpl in H. apply andb_true_iff in H. exists pos. split; [lia | exact H].
  - intros [pos [Hlt [A B]]]. exists pos. split; [apply in_seq; lia|]. unfold stripe_enabled. simpl. rewrite A, B. reflexivity.
Qed.

Theorem diff_exit_spec basef bs clearpast nocopy inf usable c listing o :
  scan basef bs clearpast nocopy inf usable c listing = Some o ->
  (diff_exit o = 2 \/ diff_exit o = 0) /\
  (diff_exit o = 2 <->
   (n_move (sc_cnt o) + n_copy (sc_cnt o) + n_restore (sc_cnt o) + n_change (sc_cnt o) + n_remove (sc_cnt o) + n_insert (sc_cnt o) <> 0
    \/ parity_invalid (sc_content o) = true)).
Proof.
  unfold scan. destruct (phase1 _ _ _ _ _ _ _ _) as [w|]; [|discriminate]. intro H; inversion H; subst o; clear H.
  unfold diff_exit. cbn [sc_differs sc_parity_invalid sc_cnt sc_content].
  match goal with |- context [cnt_differs ?t] => set (tot := t) end.
  match goal with |- context [parity_invalid ?t] => set (c' := t) end.
  pose proof (cnt_differs_spec tot) as D.
  destruct (cnt_differs tot) eqn:E1; destruct (parity_invalid c') eqn:E2; simpl; split; auto; split; intro H; try reflexivity; try discriminate.
  - left. apply D. reflexivity.
  - left. apply D. reflexivity.
  - right. reflexivity.
  - destruct H as [H|H]; [apply D in H; discriminate | discriminate].
Qed.

(* --- inodes are used only under a recorded, non-empty, unchanged UUID -------------------------------------------------------- *)
Lemma has_past_inodes_spec volatile recorded current :
  has_past_inodes volatile recorded current = true <-> volatile = false /\ current <> 0%N /\ recorded = current.
Proof.
  unfold has_past_inodes. rewrite !andb_true_iff, !negb_true_iff, N.eqb_neq, N.eqb_eq. tauto.
Qed.
Lemma has_past_inodes_empty_recorded volatile current : has_past_inodes volatile 0%N current = false.
Proof.
  destruct (has_past_inodes volatile 0%N current) eqn:E; [|reflexivity].
  apply has_past_inodes_spec in E. destruct E as [_ [A B]]. congruence.
Qed.

(* --- scan_link records the kind it is given -------------------------------------------------------------------------------------- *)
Lemma scan_link_records d name to hard d' :
  scan_link d name to hard = Some d' ->
  In (mkCL name to hard, true) (sd_links d') \/ In (mkCL name to hard) (sd_link_ins d').
Proof.
  intro H. apply scan_link_spec in H. destruct H as [_ [_ [_ [_ [_ [[[A _] | [A _]] _]]]]]]; [left; exact A|].
  right. rewrite A. apply in_app_iff. right. left. reflexivity.
Qed.
