(* Concrete instances used as non-vacuity examples next to the theorems of Properties_C11 / Properties_C19. *)
From Coq Require Import NArith ZArith List Bool Arith Lia.
From Snap.Array Require Import ArrayDefs SyncModel.
From Snap.Scan Require Import ScanModel PrehashModel.
Import ListNotations.
Local Open Scope N_scope.

Definition ex_hf (x : bid) (l : N) : hval := HReal (x * 4096 + l).
Definition ex_base (n : N) : N := n mod 100.          (* path ids 1xx, 2xx ... share the base name xx *)

(* old content: disk 0 holds a (synced, 2 blocks), b (synced, 1 block) and a symlink; disk 1 holds c (synced) *)
Definition ex_fa := mkCF 101 2000 10%Z 5%Z 50 false [mkFB SBlk 0 (ex_hf 1 1024); mkFB SBlk 1 (ex_hf 2 976)].
Definition ex_fb := mkCF 102 100 11%Z 6%Z 51 false [mkFB SBlk 2 (ex_hf 3 100)].
Definition ex_fc := mkCF 103 1024 12%Z 7%Z 60 false [mkFB SBlk 0 (ex_hf 4 1024)].
Definition ex_c : content :=
  mkC [Some (mkCD [ex_fa; ex_fb] [] [mkCL 110 111 false] [120]); Some (mkCD [ex_fc] [] [] [])]
      [Some (mkInfo 1 false false false); Some (mkInfo 1 false false false); Some (mkInfo 1 false false false)] 3.
Definition ex_par : parity := [[PEnc [1; 4]; PEnc [2; 0]; PEnc [3; 0]]].

(* listing: a unchanged; b rewritten (new size); the symlink retargeted; a new empty dir; on disk 1: c unchanged and a
   file with the name, size and time-stamp of a (a copy -- or a decoy) *)
Definition ex_L : list (list lentry) :=
  [[mkLE LFile 101 2000 10%Z 5%Z 50 1 0 0; mkLE LFile 102 300 20%Z 8%Z 51 1 0 1; mkLE LSym 110 0 0%Z 0%Z 70 1 112 0; mkLE LDir 121 0 0%Z 0%Z 71 2 0 0];
   [mkLE LFile 103 1024 12%Z 7%Z 60 1 0 0; mkLE LFile 201 2000 10%Z 5%Z 61 1 0 1]].

Definition ex_scan := sync_scan ex_base 1024 false [true; true] ex_c ex_L.
Definition ex_scan_nocopy := sync_scan ex_base 1024 true [true; true] ex_c ex_L.
Definition ex_diff := diff_scan ex_base 1024 [true; true] ex_c ex_L.

(* the data now on the disks: a, new b, c, and the would-be copy of a whose second block differs (a decoy) *)
Definition ex_fs (second : bid) : list (option fsdisk) :=
  [Some [mkFF 101 2000 10%Z 5%Z 50 [1; 2]; mkFF 102 300 20%Z 8%Z 51 [9]];
   Some [mkFF 103 1024 12%Z 7%Z 60 [4]; mkFF 201 2000 10%Z 5%Z 61 [1; second]]].

Definition ex_opts := mkSO false false 100.
Definition ex_run (prehash : bool) (second : bid) : option sync_out :=
  match ex_scan with
  | Some o => Some (sync_run ex_hf 1024 1 ex_opts prehash 99 (ex_fs second) (fun _ _ => None) (fun _ => []) 0 0 (sc_content o) ex_par)
  | None => None
  end.
