(* The invariant of the first phase of the scan (one disk, relative to the entries processed so far) and its
   preservation by scan_entry. *)
From Coq Require Import NArith ZArith List Bool Arith Lia.
From Snap.Array Require Import ArrayDefs SyncModel.
From Snap.Scan Require Import ScanModel ScanBasics ScanSteps.
Import ListNotations.

(* the file f records the listing entry e *)
Definition ematch (e : lentry) (f : cfile) : Prop :=
  cf_name f = le_name e /\ cf_size f = le_size e /\ cf_mtime f = le_mtime e /\ cf_nsec f = le_nsec e /\ cf_inode f = le_inode e.

Definition no_blk (f : cfile) : Prop := forall b, In b (cf_blocks f) -> fb_state b <> SBlk.

(* where a file of the scan state comes from: a file f0 of the old content with the same blocks, size and time-stamp,
   identified by its path or (with usable inodes) by its inode *)
Definition origin (usable : bool) (f0 : cfile) (sf : sfile) : Prop :=
  let f := sf_f sf in
  cf_blocks f = cf_blocks f0 /\ cf_size f = cf_size f0 /\ cf_mtime f = cf_mtime f0 /\ cf_copy f = cf_copy f0 /\
  (cf_nsec f = cf_nsec f0 \/ cf_nsec f0 = (-1)%Z) /\
  (if sf_present sf
   then cf_name f = cf_name f0 \/ (usable = true /\ cf_inode f = cf_inode f0)
   else cf_name f = cf_name f0 /\ (sf_noinode sf = true \/ (usable = true /\ cf_inode f = cf_inode f0))).

(* the link l records the entry e: a symlink with its target, or another name of an inode already seen *)
Definition linkkind (e : lentry) (l : clink) : Prop :=
  (le_kind e = LSym /\ cl_to l = le_to e /\ cl_hard l = false) \/ (le_kind e = LFile /\ cl_hard l = true).

Record dinv (usable : bool) (d0 : cdisk) (P : list lentry) (d : sdisk) : Prop := mkDinv {
  di_origin : forall sf, In sf (sd_files d) -> exists f0, In f0 (cd_files d0) /\ origin usable f0 sf;
  di_present : forall sf, In sf (sd_files d) -> sf_present sf = true ->
               sf_noinode sf = false /\ exists e, In e P /\ le_kind e = LFile /\ ematch e (sf_f sf);
  di_ins : forall fk, In fk (sd_ins d) -> (exists e, In e P /\ le_kind e = LFile /\ ematch e (fst fk)) /\ no_blk (fst fk);
  di_seen : forall e, In e P -> le_kind e = LFile ->
            (exists sf, In sf (sd_files d) /\ sf_present sf = true /\ ematch e (sf_f sf)) \/
            (exists fk, In fk (sd_ins d) /\ ematch e (fst fk)) \/
            (exists l, (In (l, true) (sd_links d) \/ In l (sd_link_ins d)) /\ cl_name l = le_name e /\ cl_hard l = true);
  di_noinode : usable = false -> forall sf, In sf (sd_files d) -> sf_present sf = false -> sf_noinode sf = true;
  di_links : forall lp, In lp (sd_links d) -> snd lp = true -> exists e, In e P /\ le_name e = cl_name (fst lp) /\ linkkind e (fst lp);
  di_link_ins : forall l, In l (sd_link_ins d) -> exists e, In e P /\ le_name e = cl_name l /\ linkkind e l;
  di_sym : forall e, In e P -> le_kind e = LSym ->
           exists l, (In (l, true) (sd_links d) \/ In l (sd_link_ins d)) /\ cl_name l = le_name e /\ cl_to l = le_to e /\ cl_hard l = false;
  di_dirs : forall np, In np (sd_dirs d) -> snd np = true -> exists e, In e P /\ le_kind e = LDir /\ le_name e = fst np;
  di_dir_ins : forall n, In n (sd_dir_ins d) -> exists e, In e P /\ le_kind e = LDir /\ le_name e = n;
  di_dir_seen : forall e, In e P -> le_kind e = LDir -> In (le_name e, true) (sd_dirs d) \/ In (le_name e) (sd_dir_ins d)
}.

Lemma in_snoc {A} (x : A) l y : In x (l ++ [y]) <-> In x l \/ x = y.
Proof. rewrite in_app_iff. simpl. intuition. Qed.

Section Inv.
  Variables (basef : N -> N) (bs : N) (clearpast nocopy : bool) (inf : list (option info)).
  Variable usable : bool.
  Variable d0 : cdisk.

  Lemma dinv_init : dinv usable d0 [] (prepare usable d0).
  Proof.
    unfold prepare. constructor; simpl; try (intros; contradiction).
    - intros sf H. apply in_map_iff in H. destruct H as [f [E Hf]]. exists f. split; [exact Hf|].
      subst sf. unfold origin. destruct usable; simpl; repeat split; auto.
    - intros sf H Hp. apply in_map_iff in H. destruct H as [f [E Hf]]. subst sf. destruct usable; simpl in Hp; discriminate.
    - intros U sf H Hp. apply in_map_iff in H. destruct H as [f [E Hf]]. subst sf. rewrite U. reflexivity.
    - intros lp H Hp. apply in_map_iff in H. destruct H as [l [E Hl]]. subst lp. simpl in Hp. discriminate.
    - intros np H Hp. apply in_map_iff in H. destruct H as [l [E Hl]]. subst np. simpl in Hp. discriminate.
  Qed.

  (* --- frame: a disk state whose files changed only on entries that are not PRESENT ----------------------------- *)
  Lemma dinv_kicked P d dk : kicked d dk -> dinv usable d0 P d -> dinv usable d0 P dk.
  Proof.
    intros [E | [pre [sf [post [Ef [Hp [Hn E]]]]]]] I; [subst; exact I|].
    subst dk. destruct I. constructor; simpl; auto.
    - intros x Hx. apply in_app3 in Hx. destruct Hx as [Hx|[Hx|Hx]].
      + apply di_origin0. rewrite Ef. apply in_app3. auto.
      + subst x. destruct (di_origin0 sf) as [f0 [Hf0 O]]; [rewrite Ef; apply in_app3; auto|].
        exists f0. split; [exact Hf0|]. unfold origin in *. rewrite Hp in O. simpl.
        destruct O as [O1 [O2 [O3 [Oc [O4 [O5 O6]]]]]]. repeat split; auto.
      + apply di_origin0. rewrite Ef. apply in_app3. auto.
    - intros x Hx Hpx. apply in_app3 in Hx. destruct Hx as [Hx|[Hx|Hx]].
      + apply di_present0; [rewrite Ef; apply in_app3; auto | exact Hpx].
      + subst x. simpl in Hpx. discriminate.
      + apply di_present0; [rewrite Ef; apply in_app3; auto | exact Hpx].
    - intros e He Hk. destruct (di_seen0 e He Hk) as [[x [Hx [Hpx Hm]]] | H]; [|right; exact H].
      left. exists x. split; [|auto]. rewrite Ef in Hx. apply in_app3 in Hx. apply in_app3.
      destruct Hx as [Hx|[Hx|Hx]]; auto. subst x. congruence.
    - intros U x Hx Hpx. apply in_app3 in Hx. destruct Hx as [Hx|[Hx|Hx]].
      + apply di_noinode0; auto. rewrite Ef. apply in_app3. auto.
      + subst x. reflexivity.
      + apply di_noinode0; auto. rewrite Ef. apply in_app3. auto.
  Qed.

  Lemma dinv_removed P e dk d1 was : removed clearpast e dk d1 was -> dinv usable d0 P dk -> dinv usable d0 P d1.
  Proof.
    intros [[_ [E _]] | [_ [pre [sf [post [f1 [Ef [Hp [Hn [Hb E]]]]]]]]]] I; [subst; exact I|].
    subst d1. destruct I. constructor; simpl; auto.
    - intros x Hx. apply di_origin0. rewrite Ef. apply in_app_iff in Hx. apply in_app3. tauto.
    - intros x Hx. apply di_present0. rewrite Ef. apply in_app_iff in Hx. apply in_app3. tauto.
    - intros e' He Hk. destruct (di_seen0 e' He Hk) as [[x [Hx [Hpx Hm]]] | H]; [|right; exact H].
      left. exists x. split; [|auto]. rewrite Ef in Hx. apply in_app3 in Hx. apply in_app_iff.
      destruct Hx as [Hx|[Hx|Hx]]; auto. subst x. congruence.
    - intros U x Hx. apply di_noinode0; auto. rewrite Ef. apply in_app_iff in Hx. apply in_app3. tauto.
  Qed.

  Lemma new_file_ematch e src : ematch e (new_file bs e src).
  Proof. unfold ematch, new_file. simpl. repeat split. Qed.
  Lemma new_file_no_blk e src : no_blk (new_file bs e src).
  Proof.
    unfold no_blk, new_file. simpl. intros b Hb. destruct src.
    - apply in_map_iff in Hb. destruct Hb as [i [E _]]. subst b. simpl. discriminate.
    - apply repeat_spec in Hb. subst b. simpl. discriminate.
  Qed.

  (* monotonicity in the processed prefix, for the clauses that speak about existing things *)
  Ltac more := match goal with
               | H : exists e, In e ?P /\ _ |- exists e, In e (?P ++ [_]) /\ _ =>
                   let e := fresh "e" in let He := fresh "He" in destruct H as [e [He H]]; exists e; split; [apply in_snoc; left; exact He | exact H]
               end.

  Lemma dinv_new P d1 e src cnt :
    le_kind e = LFile -> dinv usable d0 P d1 ->
    dinv usable d0 (P ++ [e]) (mkSD (sd_files d1) (sd_ins d1 ++ [(new_file bs e src, le_key e)]) (sd_deleted d1)
                                     (sd_links d1) (sd_link_ins d1) (sd_dirs d1) (sd_dir_ins d1) cnt).
  Proof.
    intros Hk I. destruct I. constructor; simpl; auto.
    - intros sf Hsf Hp. destruct (di_present0 sf Hsf Hp) as [A B]. split; [exact A|]. more.
    - intros fk Hfk. apply in_snoc in Hfk. destruct Hfk as [Hfk|Hfk].
      + destruct (di_ins0 fk Hfk) as [A B]. split; [more | exact B].
      + subst fk. simpl. split; [|apply new_file_no_blk].
        exists e. split; [apply in_snoc; auto|]. split; [exact Hk | apply new_file_ematch].
    - intros e' He' Hk'. apply in_snoc in He'. destruct He' as [He'|He'].
      + destruct (di_seen0 e' He' Hk') as [H | [[fk [Hfk Hm]] | H]]; [left; exact H | | right; right; exact H].
        right; left. exists fk. split; [apply in_snoc; auto | exact Hm].
      + subst e'. right; left. exists (new_file bs e src, le_key e). split; [apply in_snoc; auto | apply new_file_ematch].
    - intros lp Hlp Hp. pose proof (di_links0 lp Hlp Hp) as H. more.
    - intros l Hl. pose proof (di_link_ins0 l Hl) as H. more.
    - intros e' He' Hk'. apply in_snoc in He'. destruct He' as [He'|He']; [auto | subst e'; congruence].
    - intros np Hnp Hp. pose proof (di_dirs0 np Hnp Hp) as H. more.
    - intros n Hn. pose proof (di_dir_ins0 n Hn) as H. more.
    - intros e' He' Hk'. apply in_snoc in He'. destruct He' as [He'|He']; [auto | subst e'; congruence].
  Qed.

  Lemma full_invalid_no_blk f : full_invalid_stable inf f = true -> no_blk f.
  Proof.
    unfold full_invalid_stable, no_blk. destruct (cf_blocks f) as [|b0 t] eqn:E; [discriminate|].
    intros H b Hb. rewrite forallb_forall in H. specialize (H b Hb). apply andb_true_iff in H. destruct H as [H _].
    apply negb_true_iff in H. intro Hc. rewrite Hc in H. discriminate.
  Qed.

  Lemma dinv_keep P dk dc pre sf post f' e :
    le_kind e = LFile -> dinv usable d0 P dk -> sd_files dk = pre ++ sf :: post -> sf_present sf = false ->
    reident usable e sf f' -> same_but_cnt dc dk ->
    dinv usable d0 (P ++ [e]) (keep clearpast inf dc pre (mkSF f' true false) post (le_key e)).
  Proof.
    intros Hk I Ef Hp R S. destruct S as [S1 [S2 [S3 [S4 [S5 [S6 S7]]]]]]. destruct I.
    assert (Hsf : In sf (sd_files dk)) by (rewrite Ef; apply in_app3; auto).
    destruct R as [R1 [R2 [R3 [R4 [R5 [R6 [R7 [R8 [R9 R10]]]]]]]]].
    assert (Hin : cf_inode f' = le_inode e).
    { destruct R10 as [[_ [_ H]] | [_ [H | [U [N _]]]]]; auto.
      rewrite (di_noinode0 U sf Hsf Hp) in N. discriminate. }
    assert (Hm : ematch e f') by (unfold ematch; repeat split; congruence).
    destruct (di_origin0 sf Hsf) as [f0 [Hf0 O]].
    assert (O' : origin usable f0 (mkSF f' true false)).
    { unfold origin in *. rewrite Hp in O. simpl. destruct O as [O1 [O2 [O3 [Oc [O4 [O5 O6]]]]]].
      repeat split; try congruence.
      - destruct O4 as [O4|O4]; [|right; exact O4]. destruct R7 as [R7|R7]; [left; congruence|].
        (* old nsec -1 *) right. congruence.
      - destruct R10 as [[N [I1 I2]] | [Nm _]].
        + right. destruct O6 as [O6|[U O6]]; [congruence|]. split; [exact U | congruence].
        + left. congruence. }
    unfold keep. simpl.
    destruct (full_invalid_stable inf f') eqn:Efi.
    - (* re-inserted *)
      constructor; simpl; rewrite ?S1, ?S2, ?S3, ?S4, ?S5, ?S6, ?S7.
      + intros x Hx. apply di_origin0. rewrite Ef. apply in_app_iff in Hx. apply in_app3. tauto.
      + intros x Hx Hpx. destruct (di_present0 x) as [A B]; [rewrite Ef; apply in_app_iff in Hx; apply in_app3; tauto | exact Hpx|].
        split; [exact A | more].
      + intros fk Hfk. apply in_snoc in Hfk. destruct Hfk as [Hfk|Hfk].
        * destruct (di_ins0 fk Hfk) as [A B]. split; [more | exact B].
        * subst fk. simpl. split; [|apply full_invalid_no_blk; exact Efi].
          exists e. split; [apply in_snoc; auto|]. split; [exact Hk | exact Hm].
      + intros e' He' Hk'. apply in_snoc in He'. destruct He' as [He'|He'].
        * destruct (di_seen0 e' He' Hk') as [[x [Hx [Hpx Hmx]]] | [[fk [Hfk Hmf]] | H]]; [ | | right; right; exact H].
          -- left. exists x. split; [|auto]. rewrite Ef in Hx. apply in_app3 in Hx. apply in_app_iff.
             destruct Hx as [Hx|[Hx|Hx]]; auto. subst x. congruence.
          -- right; left. exists fk. split; [apply in_snoc; auto | exact Hmf].
        * subst e'. right; left. exists (f', le_key e). split; [apply in_snoc; auto | exact Hm].
      + intros U x Hx. apply di_noinode0; auto. rewrite Ef. apply in_app_iff in Hx. apply in_app3. tauto.
      + intros lp Hlp Hpl. pose proof (di_links0 lp Hlp Hpl) as H. more.
      + intros l Hl. pose proof (di_link_ins0 l Hl) as H. more.
      + intros e' He' Hk'. apply in_snoc in He'. destruct He' as [He'|He']; [auto | subst e'; congruence].
      + intros np Hnp Hpn. pose proof (di_dirs0 np Hnp Hpn) as H. more.
      + intros n Hn. pose proof (di_dir_ins0 n Hn) as H. more.
      + intros e' He' Hk'. apply in_snoc in He'. destruct He' as [He'|He']; [auto | subst e'; congruence].
    - (* kept in place *)
      constructor; simpl; rewrite ?S1, ?S2, ?S3, ?S4, ?S5, ?S6, ?S7.
      + intros x Hx. apply in_app3 in Hx. destruct Hx as [Hx|[Hx|Hx]].
        * apply di_origin0. rewrite Ef. apply in_app3. auto.
        * subst x. exists f0. split; [exact Hf0 | exact O'].
        * apply di_origin0. rewrite Ef. apply in_app3. auto.
      + intros x Hx Hpx. apply in_app3 in Hx. destruct Hx as [Hx|[Hx|Hx]].
        * destruct (di_present0 x) as [A B]; [rewrite Ef; apply in_app3; auto | exact Hpx|]. split; [exact A | more].
        * subst x. simpl. split; [reflexivity|]. exists e. split; [apply in_snoc; auto|]. split; [exact Hk | exact Hm].
        * destruct (di_present0 x) as [A B]; [rewrite Ef; apply in_app3; auto | exact Hpx|]. split; [exact A | more].
      + intros fk Hfk. destruct (di_ins0 fk Hfk) as [A B]. split; [more | exact B].
      + intros e' He' Hk'. apply in_snoc in He'. destruct He' as [He'|He'].
        * destruct (di_seen0 e' He' Hk') as [[x [Hx [Hpx Hmx]]] | H]; [ | right; exact H].
          left. exists x. split; [|auto]. rewrite Ef in Hx. apply in_app3 in Hx. apply in_app3.
          destruct Hx as [Hx|[Hx|Hx]]; auto. subst x. congruence.
        * subst e'. left. exists (mkSF f' true false). split; [apply in_app3; auto|]. simpl. split; [reflexivity | exact Hm].
      + intros U x Hx Hpx. apply in_app3 in Hx. destruct Hx as [Hx|[Hx|Hx]].
        * apply di_noinode0; auto. rewrite Ef. apply in_app3. auto.
        * subst x. simpl in Hpx. discriminate.
        * apply di_noinode0; auto. rewrite Ef. apply in_app3. auto.
      + intros lp Hlp Hpl. pose proof (di_links0 lp Hlp Hpl) as H. more.
      + intros l Hl. pose proof (di_link_ins0 l Hl) as H. more.
      + intros e' He' Hk'. apply in_snoc in He'. destruct He' as [He'|He']; [auto | subst e'; congruence].
      + intros np Hnp Hpn. pose proof (di_dirs0 np Hnp Hpn) as H. more.
      + intros n Hn. pose proof (di_dir_ins0 n Hn) as H. more.
      + intros e' He' Hk'. apply in_snoc in He'. destruct He' as [He'|He']; [auto | subst e'; congruence].
  Qed.

  Lemma dinv_link P d e to hard d' :
    scan_link d (le_name e) to hard = Some d' ->
    ((hard = true /\ le_kind e = LFile) \/ (hard = false /\ le_kind e = LSym /\ to = le_to e)) ->
    dinv usable d0 P d -> dinv usable d0 (P ++ [e]) d'.
  Proof.
    intros H K I. apply scan_link_spec in H.
    destruct H as [F1 [F2 [F3 [F4 [F5 [Hnew [Hold [Hkeep Hins]]]]]]]]. destruct I.
    assert (LK : forall l, cl_name l = le_name e -> cl_to l = to -> cl_hard l = hard -> linkkind e l).
    { intros l A B C. unfold linkkind. destruct K as [[K1 K2] | [K1 [K2 K3]]]; [right | left]; repeat split; congruence. }
    assert (NEW : exists l, (In (l, true) (sd_links d') \/ In l (sd_link_ins d')) /\ cl_name l = le_name e /\ cl_to l = to /\ cl_hard l = hard).
    { exists (mkCL (le_name e) to hard). simpl. split; [|auto].
      destruct Hnew as [[A _] | [A _]]; [left; exact A | right; rewrite A; apply in_snoc; auto]. }
    constructor; rewrite ?F1, ?F2, ?F3, ?F4, ?F5; auto.
    - intros sf Hsf Hp. destruct (di_present0 sf Hsf Hp) as [A B]. split; [exact A | more].
    - intros fk Hfk. destruct (di_ins0 fk Hfk) as [A B]. split; [more | exact B].
    - intros e' He' Hk'. apply in_snoc in He'. destruct He' as [He'|He'].
      + destruct (di_seen0 e' He' Hk') as [H | [H | [l [Hl Hm]]]]; [left; exact H | right; left; exact H|].
        right; right. exists l. split; [|exact Hm]. destruct Hl as [Hl|Hl]; [left; apply Hkeep; auto | right; apply Hins; exact Hl].
      + subst e'. right; right. destruct NEW as [l [Hl [N1 [N2 N3]]]]. exists l. split; [exact Hl|]. split; [exact N1|].
        destruct K as [[K1 _] | [_ [K2 _]]]; congruence.
    - intros lp Hlp Hp. destruct (Hold lp Hlp) as [Ho | [_ [N1 [N2 N3]]]].
      + pose proof (di_links0 lp Ho Hp) as H. more.
      + exists e. split; [apply in_snoc; auto|]. split; [congruence | apply LK; auto].
    - intros l Hl. destruct Hnew as [[_ A] | [A _]].
      + rewrite A in Hl. pose proof (di_link_ins0 l Hl) as H. more.
      + rewrite A in Hl. apply in_snoc in Hl. destruct Hl as [Hl|Hl].
        * pose proof (di_link_ins0 l Hl) as H. more.
        * subst l. exists e. split; [apply in_snoc; auto|]. split; [reflexivity | apply LK; reflexivity].
    - intros e' He' Hk'. apply in_snoc in He'. destruct He' as [He'|He'].
      + destruct (di_sym0 e' He' Hk') as [l [Hl Hm]]. exists l. split; [|exact Hm].
        destruct Hl as [Hl|Hl]; [left; apply Hkeep; auto | right; apply Hins; exact Hl].
      + subst e'. destruct K as [[_ K2] | [K1 [_ K3]]]; [congruence|].
        destruct NEW as [l [Hl [N1 [N2 N3]]]]. exists l. split; [exact Hl|]. repeat split; congruence.
    - intros np Hnp Hp. pose proof (di_dirs0 np Hnp Hp) as H. more.
    - intros n Hn. pose proof (di_dir_ins0 n Hn) as H. more.
    - intros e' He' Hk'. apply in_snoc in He'. destruct He' as [He'|He']; [auto|]. subst e'.
      destruct K as [[_ K2] | [_ [K2 _]]]; congruence.
  Qed.

  Lemma dinv_dir P d e d' :
    scan_emptydir d (le_name e) = Some d' -> le_kind e = LDir ->
    dinv usable d0 P d -> dinv usable d0 (P ++ [e]) d'.
  Proof.
    intros H K I. apply scan_emptydir_spec in H.
    destruct H as [F1 [F2 [F3 [F4 [F5 [F6 [Hnew [Hold [Hkeep [Hiold Hins]]]]]]]]]]. destruct I.
    constructor; rewrite ?F1, ?F2, ?F3, ?F4, ?F5; auto.
    - intros sf Hsf Hp. destruct (di_present0 sf Hsf Hp) as [A B]. split; [exact A | more].
    - intros fk Hfk. destruct (di_ins0 fk Hfk) as [A B]. split; [more | exact B].
    - intros e' He' Hk'. apply in_snoc in He'. destruct He' as [He'|He']; [auto | subst e'; congruence].
    - intros lp Hlp Hp. pose proof (di_links0 lp Hlp Hp) as H. more.
    - intros l Hl. pose proof (di_link_ins0 l Hl) as H. more.
    - intros e' He' Hk'. apply in_snoc in He'. destruct He' as [He'|He']; [auto | subst e'; congruence].
    - intros np Hnp Hp. destruct (Hold np Hnp) as [Ho|Ho].
      + pose proof (di_dirs0 np Ho Hp) as H. more.
      + subst np. simpl. exists e. split; [apply in_snoc; auto | auto].
    - intros n Hn. destruct (Hiold n Hn) as [Ho|Ho].
      + pose proof (di_dir_ins0 n Ho) as H. more.
      + subst n. exists e. split; [apply in_snoc; auto | auto].
    - intros e' He' Hk'. apply in_snoc in He'. destruct He' as [He'|He'].
      + destruct (di_dir_seen0 e' He' Hk') as [H|H]; [left; apply Hkeep; auto | right; apply Hins; exact H].
      + subst e'. exact Hnew.
  Qed.

  (* --- one entry --------------------------------------------------------------------------------------------------- *)
  Lemma dinv_fstep P w k d d' e :
    le_kind e = LFile -> fstep basef bs clearpast nocopy inf usable e w k d d' -> dinv usable d0 P d -> dinv usable d0 (P ++ [e]) d'.
  Proof.
    intros Hk S I. destruct S as [target Hn Hl | dk dc pre sf post f' Hkick Ef Hp R S E | dk d1 was src cnt Hkick Hr Es E].
    - eapply dinv_link; eauto.
    - subst d'. exact (dinv_keep P dk dc pre sf post f' e Hk (dinv_kicked P d dk Hkick I) Ef Hp R S).
    - subst d'. apply dinv_new; [exact Hk|]. exact (dinv_removed P e dk d1 was Hr (dinv_kicked P d dk Hkick I)).
  Qed.

  Lemma scan_entry_dinv P k (w w' : world) d e :
    scan_entry basef bs clearpast nocopy inf usable k w e = Some w' ->
    nth k w None = Some d -> dinv usable d0 P d ->
    exists d', w' = set_disk k d' w /\ dinv usable d0 (P ++ [e]) d'.
  Proof.
    unfold scan_entry. intros H Hd I. rewrite Hd in H. destruct (le_kind e) eqn:Ek.
    - apply scan_file_fstep in H. destruct H as [d' [E S]]. exists d'. split; [exact E|]. eapply dinv_fstep; eauto.
    - destruct (scan_link d (le_name e) (le_to e) false) as [d'|] eqn:El; [|discriminate]. inversion H; subst w'.
      exists d'. split; [reflexivity|]. eapply dinv_link; eauto.
    - destruct (scan_emptydir d (le_name e)) as [d'|] eqn:El; [|discriminate]. inversion H; subst w'.
      exists d'. split; [reflexivity|]. eapply dinv_dir; eauto.
  Qed.
End Inv.
