(* Model of the scan: cmdline/scan.c state_diffscan (scan_file, scan_link, scan_emptydir, scan_file_keep,
   scan_file_remove/deallocate, the delayed insert with scan_file_allocate) over the abstract array state of
   Array/ArrayDefs.v.  Definitions only (this file is extracted).

   INPUT of the model, besides the old `content`: per disk the sequence of scan_file / scan_link / scan_emptydir calls
   that scan_sub performs, i.e. the directory listing observed by the harness in the order the chosen sort produces
   (`lentry`: kind, path id, size, mtime s/ns, inode, nlink, link target id, and the key by which the delayed insert
   list is sorted: rank of the path for --test-force-order-alpha, the inode for -inode, the physical offset for
   -physical, 0 for -dir).  The model does not invent inode numbers or orders.

   Abstractions / not modelled (all listed in the trusted base of check_C11):
   - the three hash tables (inode, path, stamp) are searched in list order "files loaded from the content file, in file
     order, then files created by this scan, in scan order".  tommy_hashdyn_search returns the first match of a bucket
     chain and tommy_hashdyn_insert appends, resize keeps the relative order of equal hashes, so this IS the order of the
     stamp set; for the inode and path sets it coincides whenever no two live files of a disk share an inode / a path;
   - disks are scanned one after the other (--test-skip-multi-scan); with threads the copy detection races;
   - the disk list order is the order of the disk positions;
   - has_volatile_hardlinks = false (true only for NTFS/VFAT), filters, hidden files, mount points, special files,
     --force-zero / --force-empty interlocks (C14), physical offset reading, need_write;
   - os_abort()/exit paths ("Internal inconsistency") make the model return None. *)
From Coq Require Import NArith ZArith List Bool Arith.
From Snap.Array Require Import ArrayDefs SyncModel.
Import ListNotations.

Inductive lkind := LFile | LSym | LDir.
Record lentry := mkLE {
  le_kind : lkind; le_name : N; le_size : N; le_mtime : Z; le_nsec : Z; le_inode : N; le_nlink : N;
  le_to : N;      (* symlink target id *)
  le_key : N      (* sort key of the delayed insert *)
}.

Record counters := mkCnt { n_equal : nat; n_move : nat; n_restore : nat; n_change : nat; n_copy : nat; n_insert : nat; n_remove : nat }.
Definition cnt0 := mkCnt 0 0 0 0 0 0 0.
Definition inc_equal c := mkCnt (S (n_equal c)) (n_move c) (n_restore c) (n_change c) (n_copy c) (n_insert c) (n_remove c).
Definition inc_move c := mkCnt (n_equal c) (S (n_move c)) (n_restore c) (n_change c) (n_copy c) (n_insert c) (n_remove c).
Definition inc_restore c := mkCnt (n_equal c) (n_move c) (S (n_restore c)) (n_change c) (n_copy c) (n_insert c) (n_remove c).
Definition inc_change c := mkCnt (n_equal c) (n_move c) (n_restore c) (S (n_change c)) (n_copy c) (n_insert c) (n_remove c).
Definition inc_copy c := mkCnt (n_equal c) (n_move c) (n_restore c) (n_change c) (S (n_copy c)) (n_insert c) (n_remove c).
Definition inc_insert c := mkCnt (n_equal c) (n_move c) (n_restore c) (n_change c) (n_copy c) (S (n_insert c)) (n_remove c).
Definition add_remove k c := mkCnt (n_equal c) (n_move c) (n_restore c) (n_change c) (n_copy c) (n_insert c) (k + n_remove c).
Definition cnt_add a b := mkCnt (n_equal a + n_equal b) (n_move a + n_move b) (n_restore a + n_restore b) (n_change a + n_change b)
                                (n_copy a + n_copy b) (n_insert a + n_insert b) (n_remove a + n_remove b).
(* no_difference of state_diffscan *)
Definition cnt_differs c : bool :=
  negb (Nat.eqb (n_move c) 0 && Nat.eqb (n_copy c) 0 && Nat.eqb (n_restore c) 0 && Nat.eqb (n_change c) 0 && Nat.eqb (n_remove c) 0 && Nat.eqb (n_insert c) 0).

(* a file during the scan: FILE_IS_PRESENT, FILE_IS_WITHOUT_INODE *)
Record sfile := mkSF { sf_f : cfile; sf_present : bool; sf_noinode : bool }.

Record sdisk := mkSD {
  sd_files : list sfile;               (* disk->filelist, in order *)
  sd_ins : list (cfile * N);           (* scan->file_insert_list (scan order) with the sort key; all PRESENT, all with inode *)
  sd_deleted : list (nat * hval);      (* DELETED blocks: position, past hash *)
  sd_links : list (clink * bool);      (* disk->linklist with FILE_IS_PRESENT *)
  sd_link_ins : list clink;
  sd_dirs : list (N * bool);
  sd_dir_ins : list N;
  sd_cnt : counters
}.
Definition world := list (option sdisk).

Fixpoint split_first {A} (p : A -> bool) (l : list A) : option (list A * A * list A) :=
  match l with
  | [] => None
  | x :: t => if p x then Some ([], x, t)
              else match split_first p t with Some (pre, y, post) => Some (x :: pre, y, post) | None => None end
  end.

Fixpoint fold_opt {A B} (f : A -> B -> option A) (l : list B) (a : A) : option A :=
  match l with [] => Some a | x :: t => match f a x with Some a' => fold_opt f t a' | None => None end end.

Definition set_disk (k : nat) (d : sdisk) (w : world) : world := update_nth k (fun _ => Some d) w.

Definition cf_set_name (f : cfile) n := mkCF n (cf_size f) (cf_mtime f) (cf_nsec f) (cf_inode f) (cf_copy f) (cf_blocks f).
Definition cf_set_nsec (f : cfile) ns := mkCF (cf_name f) (cf_size f) (cf_mtime f) ns (cf_inode f) (cf_copy f) (cf_blocks f).
Definition cf_set_inode (f : cfile) i := mkCF (cf_name f) (cf_size f) (cf_mtime f) (cf_nsec f) i (cf_copy f) (cf_blocks f).
Definition cf_set_blocks (f : cfile) bl := mkCF (cf_name f) (cf_size f) (cf_mtime f) (cf_nsec f) (cf_inode f) (cf_copy f) bl.

Definition sd_set_files d fl := mkSD fl (sd_ins d) (sd_deleted d) (sd_links d) (sd_link_ins d) (sd_dirs d) (sd_dir_ins d) (sd_cnt d).
Definition sd_set_cnt d c := mkSD (sd_files d) (sd_ins d) (sd_deleted d) (sd_links d) (sd_link_ins d) (sd_dirs d) (sd_dir_ins d) c.

Section Scan.
  Variable basef : N -> N.         (* file_name(): id of the last path component *)
  Variable bs : N.                 (* block size *)
  Variable clearpast : bool.       (* state->clear_past_hash: set by sync, not by diff *)
  Variable nocopy : bool.          (* opt.force_nocopy *)
  Variable inf : list (option info).

  Definition rehash_at (pos : nat) : bool := match nth pos inf None with Some i => i_rehash i | None => false end.

  (* --- scan_file_deallocate: what past hash the DELETED block keeps ---------------------------------------- *)
  Definition past_of (b : fblock) : hval :=
    match fb_state b with
    | SBlk => fb_hash b
    | SChg => if clearpast then fb_hash b else HInvalid
    | SRep => HInvalid
    end.
  Definition dealloc (f : cfile) (del : list (nat * hval)) : list (nat * hval) :=
    del ++ map (fun b => (fb_pos b, past_of b)) (cf_blocks f).

  (* file_is_full_invalid_parity_and_stable (the file is mapped) *)
  Definition full_invalid_stable (f : cfile) : bool :=
    match cf_blocks f with
    | [] => false
    | _ => forallb (fun b => negb (bstate_eqb (fb_state b) SBlk) && negb (rehash_at (fb_pos b))) (cf_blocks f)
    end.
  (* file_is_full_hashed_and_stable; files of the insert list are not mapped *)
  Definition full_hashed_stable (mapped : bool) (f : cfile) : bool :=
    match cf_blocks f with
    | [] => false
    | _ => forallb (fun b => negb (bstate_eqb (fb_state b) SChg) && negb (mapped && rehash_at (fb_pos b))) (cf_blocks f)
    end.

  Definition attrs_same (f : cfile) (e : lentry) : bool :=
    N.eqb (cf_size f) (le_size e) && Z.eqb (cf_mtime f) (le_mtime e) && (Z.eqb (cf_nsec f) (le_nsec e) || Z.eqb (cf_nsec f) (-1)).
  Definition upd_nsec (f : cfile) (e : lentry) : cfile :=
    if Z.eqb (cf_nsec f) (-1) then cf_set_nsec f (le_nsec e) else f.

  (* scan_file_keep: a kept file made only of blocks without valid parity is re-inserted (file_dup + remove + insert) *)
  Definition keep (d : sdisk) (pre : list sfile) (sf : sfile) (post : list sfile) (key : N) : sdisk :=
    if full_invalid_stable (sf_f sf)
    then mkSD (pre ++ post) (sd_ins d ++ [(sf_f sf, key)]) (dealloc (sf_f sf) (sd_deleted d))
              (sd_links d) (sd_link_ins d) (sd_dirs d) (sd_dir_ins d) (sd_cnt d)
    else sd_set_files d (pre ++ sf :: post).

  (* --- scan_link ------------------------------------------------------------------------------------------------ *)
  Definition scan_link (d : sdisk) (name to : N) (hard : bool) : option sdisk :=
    match split_first (fun lp => N.eqb (cl_name (fst lp)) name) (sd_links d) with
    | Some (pre, (l, present), post) =>
        if present then None else
        if N.eqb (cl_to l) to && Bool.eqb (cl_hard l) hard
        then Some (mkSD (sd_files d) (sd_ins d) (sd_deleted d) (pre ++ (l, true) :: post) (sd_link_ins d) (sd_dirs d) (sd_dir_ins d) (inc_equal (sd_cnt d)))
        else Some (mkSD (sd_files d) (sd_ins d) (sd_deleted d) (pre ++ (mkCL name to hard, true) :: post) (sd_link_ins d) (sd_dirs d) (sd_dir_ins d) (inc_change (sd_cnt d)))
    | None =>
        Some (mkSD (sd_files d) (sd_ins d) (sd_deleted d) (sd_links d) (sd_link_ins d ++ [mkCL name to hard]) (sd_dirs d) (sd_dir_ins d) (inc_insert (sd_cnt d)))
    end.

  Definition scan_emptydir (d : sdisk) (name : N) : option sdisk :=
    match split_first (fun np => N.eqb (fst np) name) (sd_dirs d) with
    | Some (pre, (n, present), post) =>
        if present then None else
        Some (mkSD (sd_files d) (sd_ins d) (sd_deleted d) (sd_links d) (sd_link_ins d) (pre ++ (n, true) :: post) (sd_dir_ins d) (sd_cnt d))
    | None =>
        Some (mkSD (sd_files d) (sd_ins d) (sd_deleted d) (sd_links d) (sd_link_ins d) (sd_dirs d) (sd_dir_ins d ++ [name]) (sd_cnt d))
    end.

  (* a second name of an inode already seen in this scan: hard link, unless nlink says there is no other name *)
  Definition hardlink (d : sdisk) (e : lentry) (target : N) : option sdisk :=
    if N.eqb (le_nlink e) 1 then None else scan_link d (le_name e) target true.

  (* --- copy detection --------------------------------------------------------------------------------------------- *)
  Definition stamp_match (e : lentry) (o : cfile) : bool :=
    (if negb (Z.eqb (le_nsec e) 0) && negb (Z.eqb (le_nsec e) (-1))
     then N.eqb (basef (cf_name o)) (basef (le_name e))      (* file_namestamp_compare *)
     else N.eqb (cf_name o) (le_name e))                     (* file_pathstamp_compare *)
    && N.eqb (cf_size o) (le_size e) && Z.eqb (cf_mtime o) (le_mtime e) && Z.eqb (cf_nsec o) (le_nsec e).

  (* first match of the disk's stamp set; true = the file is mapped in the parity *)
  Definition stamp_search (e : lentry) (d : sdisk) : option (cfile * bool) :=
    match find (fun sf => stamp_match e (sf_f sf)) (sd_files d) with
    | Some sf => Some (sf_f sf, true)
    | None => match find (fun fk => stamp_match e (fst fk)) (sd_ins d) with
              | Some fk => Some (fst fk, false)
              | None => None
              end
    end.

  Fixpoint copy_search (e : lentry) (w : world) : option cfile :=
    match w with
    | [] => None
    | None :: t => copy_search e t
    | Some d :: t =>
        match stamp_search e d with
        | Some (o, mapped) => if full_hashed_stable mapped o then Some o else copy_search e t
        | None => copy_search e t
        end
    end.

  (* file_alloc (+ file_copy): the file put in the delayed insert list; positions are assigned later *)
  Definition new_file (e : lentry) (src : option cfile) : cfile :=
    let n := nblocks bs (le_size e) in
    mkCF (le_name e) (le_size e) (le_mtime e) (le_nsec e) (le_inode e)
         (match src with Some _ => true | None => false end)
         (match src with
          | Some o => map (fun i => mkFB SRep 0 (fb_hash (nth i (cf_blocks o) (mkFB SChg 0 HInvalid)))) (seq 0 n)
          | None => repeat (mkFB SChg 0 HInvalid) n
          end).

  Definition insert_new (k : nat) (w : world) (d : sdisk) (e : lentry) (was_present : bool) : option world :=
    let src := if nocopy then None else copy_search e (set_disk k d w) in
    let cnt := match src with
               | Some _ => inc_copy (sd_cnt d)
               | None => if was_present then inc_change (sd_cnt d) else inc_insert (sd_cnt d)
               end in
    Some (set_disk k (mkSD (sd_files d) (sd_ins d ++ [(new_file e src, le_key e)]) (sd_deleted d)
                           (sd_links d) (sd_link_ins d) (sd_dirs d) (sd_dir_ins d) cnt) w).

  (* --- scan_file: second half, search by path -------------------------------------------------------------------- *)
  Definition by_name (usable : bool) (k : nat) (w : world) (d : sdisk) (e : lentry) : option world :=
    match split_first (fun sf => N.eqb (cf_name (sf_f sf)) (le_name e)) (sd_files d) with
    | Some (pre, sf, post) =>
        if negb (sf_noinode sf) && N.eqb (cf_inode (sf_f sf)) (le_inode e) then None     (* "unexpected matching" *)
        else if sf_present sf then None                                                  (* "matching and already present" *)
        else
          let f1 := if sf_noinode sf then cf_set_inode (sf_f sf) (le_inode e) else sf_f sf in
          if attrs_same f1 e then
            let f2 := upd_nsec f1 e in
            let f3 := if usable then cf_set_inode f2 (le_inode e) else f2 in
            let cnt := if usable then inc_restore (sd_cnt d) else inc_equal (sd_cnt d) in
            Some (set_disk k (keep (sd_set_cnt d cnt) pre (mkSF f3 true false) post (le_key e)) w)
          else
            (* changed in place: scan_file_remove, then insert it again *)
            let d1 := mkSD (pre ++ post) (sd_ins d) (dealloc f1 (sd_deleted d)) (sd_links d) (sd_link_ins d) (sd_dirs d) (sd_dir_ins d) (sd_cnt d) in
            insert_new k w d1 e true
    | None =>
        if existsb (fun fk => N.eqb (cf_name (fst fk)) (le_name e)) (sd_ins d) then None
        else insert_new k w d e false
    end.

  (* --- scan_file: first half, search by inode ---------------------------------------------------------------------- *)
  Definition scan_file (usable : bool) (k : nat) (w : world) (d : sdisk) (e : lentry) : option world :=
    match split_first (fun sf => negb (sf_noinode sf) && N.eqb (cf_inode (sf_f sf)) (le_inode e)) (sd_files d) with
    | Some (pre, sf, post) =>
        if attrs_same (sf_f sf) e then
          if sf_present sf then
            match hardlink d e (cf_name (sf_f sf)) with Some d' => Some (set_disk k d' w) | None => None end
          else
            let f1 := upd_nsec (sf_f sf) e in
            let moved := negb (N.eqb (cf_name f1) (le_name e)) in
            let f2 := if moved then cf_set_name f1 (le_name e) else f1 in
            let cnt := if moved then inc_move (sd_cnt d) else inc_equal (sd_cnt d) in
            Some (set_disk k (keep (sd_set_cnt d cnt) pre (mkSF f2 true false) post (le_key e)) w)
        else if sf_present sf then
          match hardlink d e (cf_name (sf_f sf)) with Some d' => Some (set_disk k d' w) | None => None end
        else
          (* a previously used inode: forget it and go on by name *)
          by_name usable k w (sd_set_files d (pre ++ mkSF (cf_set_inode (sf_f sf) 0) false true :: post)) e
    | None =>
        match find (fun fk => N.eqb (cf_inode (fst fk)) (le_inode e)) (sd_ins d) with
        | Some fk =>
            match hardlink d e (cf_name (fst fk)) with Some d' => Some (set_disk k d' w) | None => None end
        | None => by_name usable k w d e
        end
    end.

  Definition scan_entry (usable : bool) (k : nat) (w : world) (e : lentry) : option world :=
    match nth k w None with
    | None => None
    | Some d =>
        match le_kind e with
        | LFile => scan_file usable k w d e
        | LSym => match scan_link d (le_name e) (le_to e) false with Some d' => Some (set_disk k d' w) | None => None end
        | LDir => match scan_emptydir d (le_name e) with Some d' => Some (set_disk k d' w) | None => None end
        end
    end.

  (* scan_disk: without usable past inodes every stored inode is forgotten first *)
  Definition prepare (usable : bool) (d : cdisk) : sdisk :=
    mkSD (map (fun f => if usable then mkSF f false false else mkSF (cf_set_inode f 0) false true) (cd_files d))
         [] (cd_deleted d) (map (fun l => (l, false)) (cd_links d)) [] (map (fun n => (n, false)) (cd_dirs d)) [] cnt0.

  (* --- second phase: removals, then the delayed inserts ------------------------------------------------------------- *)
  Definition remove_missing (d : sdisk) : sdisk :=
    let gone := filter (fun sf => negb (sf_present sf)) (sd_files d) in
    let lgone := filter (fun lp => negb (snd lp)) (sd_links d) in
    mkSD (filter sf_present (sd_files d)) (sd_ins d)
         (fold_left (fun del sf => dealloc (sf_f sf) del) gone (sd_deleted d))
         (filter (fun lp => snd lp) (sd_links d)) (sd_link_ins d)
         (filter (fun np => snd np) (sd_dirs d)) (sd_dir_ins d)
         (add_remove (length gone + length lgone) (sd_cnt d)).

  (* stable sort of the insert list by key (tommy_list_sort is a stable merge sort) *)
  Fixpoint insert_sorted (x : cfile * N) (l : list (cfile * N)) : list (cfile * N) :=
    match l with
    | [] => [x]
    | y :: t => if N.ltb (snd x) (snd y) then x :: y :: t else y :: insert_sorted x t
    end.
  Definition sort_ins (l : list (cfile * N)) : list (cfile * N) := fold_left (fun acc x => insert_sorted x acc) l [].

  (* "increment the position until the first really free block": occ = positions holding blocks of kept files *)
  Fixpoint ffree (fuel : nat) (occ : list nat) (p : nat) : nat :=
    match fuel with
    | O => p
    | S n => if existsb (Nat.eqb p) occ then ffree n occ (S p) else p
    end.

  (* one block of scan_file_allocate; st = (first_free_block, DELETED blocks) *)
  Definition alloc_block (occ : list nat) (ff : nat) (del : list (nat * hval)) (b : fblock) : nat * list (nat * hval) * fblock :=
    let pos := ffree (S (length occ)) occ ff in
    let over := find_deleted pos del in
    let del' := filter (fun ph => negb (Nat.eqb (fst ph) pos)) del in
    let nb := if negb (bstate_eqb (fb_state b) SChg) && negb (rehash_at pos)
              then mkFB SRep pos (fb_hash b)                        (* block_has_updated_hash: keeps its hash *)
              else mkFB SChg pos (match over with
                                  | None => HZero                   (* over an EMPTY position: "was filled with zeros" *)
                                  | Some h => if clearpast then h else HInvalid
                                  end) in
    (S pos, del', nb).

  Fixpoint alloc_blocks (occ : list nat) (ff : nat) (del : list (nat * hval)) (bl : list fblock) : nat * list (nat * hval) * list fblock :=
    match bl with
    | [] => (ff, del, [])
    | b :: t =>
        let '(ff1, del1, nb) := alloc_block occ ff del b in
        let '(ff2, del2, rest) := alloc_blocks occ ff1 del1 t in
        (ff2, del2, nb :: rest)
    end.

  Fixpoint alloc_files (occ : list nat) (ff : nat) (del : list (nat * hval)) (fl : list cfile) : list (nat * hval) * list cfile :=
    match fl with
    | [] => (del, [])
    | f :: t =>
        let '(ff1, del1, bl) := alloc_blocks occ ff del (cf_blocks f) in
        let '(del2, rest) := alloc_files occ ff1 del1 t in
        (del2, cf_set_blocks f bl :: rest)
    end.

  Definition finish_disk (d : sdisk) : cdisk * counters :=
    let d1 := remove_missing d in
    let kept := map sf_f (sd_files d1) in
    let occ := flat_map (fun f => map fb_pos (cf_blocks f)) kept in
    let '(del, added) := alloc_files occ 0 (sd_deleted d1) (map fst (sort_ins (sd_ins d1))) in
    (mkCD (kept ++ added) del (map fst (sd_links d1) ++ sd_link_ins d1) (map fst (sd_dirs d1) ++ sd_dir_ins d1), sd_cnt d1).

  (* --- the whole scan ---------------------------------------------------------------------------------------------- *)
  Record scan_out := mkScan { sc_content : content; sc_cnt : counters; sc_differs : bool; sc_parity_invalid : bool }.

  Definition slots_at (c : content) (pos : nat) : list slot :=
    map (fun od => match od with Some d => slot_at d pos | None => SEmpty end) (c_disks c).
  (* parity_is_invalid *)
  Definition parity_invalid (c : content) : bool :=
    existsb (fun pos => stripe_enabled (mkSO false false 0) (slots_at c pos)) (seq 0 (allocated_size c)).

  Definition phase1 (usable : list bool) (listing : list (list lentry)) (w : world) : option world :=
    fold_opt (fun w k => fold_opt (scan_entry (nth k usable false) k) (nth k listing []) w) (seq 0 (length w)) w.

  Definition scan (usable : list bool) (c : content) (listing : list (list lentry)) : option scan_out :=
    let w0 := map (fun kd => match snd kd with Some d => Some (prepare (nth (fst kd) usable false) d) | None => None end)
                  (combine (seq 0 (length (c_disks c))) (c_disks c)) in
    match phase1 usable listing w0 with
    | None => None
    | Some w =>
        let fin := map (fun od => match od with Some d => Some (finish_disk d) | None => None end) w in
        let c' := mkC (map (fun o => match o with Some dc => Some (fst dc) | None => None end) fin) (c_info c) (c_blockmax c) in
        let tot := fold_left (fun a o => match o with Some dc => cnt_add a (snd dc) | None => a end) fin cnt0 in
        Some (mkScan c' tot (cnt_differs tot) (parity_invalid c'))
    end.

  (* exit status of `diff`: 2 (EXIT_SYNC_NEEDED) iff something differs or a previous sync is incomplete *)
  Definition diff_exit (o : scan_out) : nat := if sc_differs o || sc_parity_invalid o then 2 else 0.
End Scan.

(* has_past_inodes of scan_file (scan.c:732) from what state_map (state.c:1403-1430) and scan_disk decide:
   has_unsupported_uuid = the disk reports no UUID (empty, id 0); has_different_uuid = the recorded UUID differs from the
   reported one -- an EMPTY recorded UUID differs from any reported one (it only suppresses the warning);
   has_volatile_inodes = the file system does not keep inode numbers (FUSE/VFAT).  UUIDs are abstract ids, 0 = empty. *)
Definition has_past_inodes (volatile : bool) (recorded current : N) : bool :=
  negb volatile && negb (N.eqb current 0) && N.eqb recorded current.

(* state.c reader with clear_past_hash && opt.force_nocopy: REP blocks are loaded as CHG with the INVALID hash *)
Definition nocopy_load (c : content) : content :=
  mkC (map (fun od => match od with
                      | Some d => Some (mkCD (map (fun f => cf_set_blocks f (map (fun b => match fb_state b with
                                                                                           | SRep => mkFB SChg (fb_pos b) HInvalid
                                                                                           | _ => b end) (cf_blocks f))) (cd_files d))
                                             (cd_deleted d) (cd_links d) (cd_dirs d))
                      | None => None end) (c_disks c))
      (c_info c) (c_blockmax c).

(* what `sync` does before its loop: load (clearing past hashes, dropping provisional hashes with -N) and scan *)
Definition sync_scan (basef : N -> N) (bs : N) (nocopy : bool) (usable : list bool) (c : content) (listing : list (list lentry)) : option scan_out :=
  let c1 := clear_past c in
  let c2 := if nocopy then nocopy_load c1 else c1 in
  scan basef bs true nocopy (c_info c) usable c2 listing.
(* what `diff` does *)
Definition diff_scan (basef : N -> N) (bs : N) (usable : list bool) (c : content) (listing : list (list lentry)) : option scan_out :=
  scan basef bs false false (c_info c) usable c listing.
