(* The scan and the parity invariant of C06 (Array/SyncProofsDefs.v): the scan never makes a stripe "synced", so ParOK is
   preserved; PastOK (the soundness condition of "parity_needs_to_be_updated = 0") is preserved except where scan.c copies
   a past hash into a CHG block whose length differs from the length the hash was taken over (scan.c:286) -- refuted by a
   concrete witness, proved under the exact extra hypothesis. *)
From Coq Require Import NArith ZArith List Bool Arith Lia.
From Snap.Array Require Import ArrayDefs SyncModel SyncProofsDefs.
From Snap.Scan Require Import ScanModel ScanBasics ScanSteps ScanInv ScanSound ScanCopy ScanMap.
Import ListNotations.

(* --- slot_at from membership, under a well formed map --------------------------------------------------------------- *)
Lemma find_in_file_none pos bl : forall idx, ~ In pos (map fb_pos bl) -> find_in_file pos idx bl = None.
Proof.
  induction bl as [|x t IH]; simpl; intros idx H; [reflexivity|].
  destruct (Nat.eqb (fb_pos x) pos) eqn:E; [apply Nat.eqb_eq in E; exfalso; apply H; auto | apply IH; tauto].
Qed.
Lemma find_in_file_of_in pos bl : forall idx i b,
  NoDup (map fb_pos bl) -> nth_error bl i = Some b -> fb_pos b = pos -> find_in_file pos idx bl = Some (idx + i, b).
Proof.
  induction bl as [|x t IH]; intros idx i b ND Hn Hp; [destruct i; discriminate|].
  simpl in ND. inversion ND as [|y l Hnot ND']; subst. destruct i as [|i]; simpl in *.
  - inversion Hn; subst. rewrite Nat.eqb_refl. rewrite Nat.add_0_r. reflexivity.
  - destruct (Nat.eqb (fb_pos x) (fb_pos b)) eqn:E.
    + apply Nat.eqb_eq in E. exfalso. apply Hnot. rewrite E. apply in_map. eapply nth_error_In; eauto.
    + rewrite (IH (S idx) i b ND' Hn eq_refl). f_equal. f_equal. lia.
Qed.
Lemma find_in_files_none pos fl : ~ In pos (concat (map file_poss fl)) -> find_in_files pos fl = None.
Proof.
  induction fl as [|x t IH]; simpl; intro H; [reflexivity|].
  rewrite find_in_file_none; [apply IH|]; intro Hc; apply H; apply in_app_iff; auto.
Qed.
Lemma find_in_files_of_in pos fl f i b :
  NoDup (concat (map file_poss fl)) -> In f fl -> nth_error (cf_blocks f) i = Some b -> fb_pos b = pos ->
  find_in_files pos fl = Some (f, i, b).
Proof.
  induction fl as [|x t IH]; simpl; intros ND Hf Hn Hp; [destruct Hf|].
  apply NoDup_app_iff in ND. destruct ND as [N1 [N2 D]].
  assert (Hin : In pos (file_poss f)) by (unfold file_poss; rewrite <- Hp; apply in_map; eapply nth_error_In; eauto).
  destruct (find_in_file pos 0 (cf_blocks x)) as [[i' b']|] eqn:E.
  - destruct (find_in_file_pos _ _ _ _ _ E) as [E1 E2].
    assert (Hx : In pos (file_poss x)) by (unfold file_poss; rewrite <- E1; apply in_map; exact E2).
    destruct Hf as [Hf|Hf].
    + subst x. rewrite (find_in_file_of_in pos (cf_blocks f) 0 i b N1 Hn Hp) in E. inversion E; subst. reflexivity.
    + exfalso. apply (D pos Hx). apply in_concat. exists (file_poss f). split; [apply in_map; exact Hf | exact Hin].
  - destruct Hf as [Hf|Hf].
    + subst x. rewrite (find_in_file_of_in pos (cf_blocks f) 0 i b N1 Hn Hp) in E. discriminate.
    + apply IH; auto.
Qed.
Lemma find_deleted_of_in p h dl : NoDup (map fst dl) -> In (p, h) dl -> find_deleted p dl = Some h.
Proof.
  induction dl as [|[q k] t IH]; simpl; intros ND H; [destruct H|]. inversion ND as [|y l Hnot ND']; subst.
  destruct H as [H|H].
  - inversion H; subst. rewrite Nat.eqb_refl. reflexivity.
  - destruct (Nat.eqb q p) eqn:E; [apply Nat.eqb_eq in E; subst; exfalso; apply Hnot; change p with (fst (p, h)); apply in_map; exact H | apply IH; auto].
Qed.
Lemma find_deleted_none p dl : find_deleted p dl = None -> ~ In p (map fst dl).
Proof.
  induction dl as [|[q k] t IH]; simpl; intros H Hc; [destruct Hc|].
  destruct (Nat.eqb q p) eqn:E; [discriminate|]. apply Nat.eqb_neq in E. destruct Hc as [Hc|Hc]; [contradiction | exact (IH H Hc)].
Qed.
Lemma find_in_files_none_inv pos fl : find_in_files pos fl = None -> ~ In pos (concat (map file_poss fl)).
Proof.
  induction fl as [|x t IH]; simpl; intros H Hc; [destruct Hc|].
  destruct (find_in_file pos 0 (cf_blocks x)) as [[i b]|] eqn:E; [discriminate|].
  apply in_app_iff in Hc. destruct Hc as [Hc|Hc]; [|exact (IH H Hc)].
  unfold file_poss in Hc. apply in_map_iff in Hc. destruct Hc as [b [Eb Hb]].
  apply In_nth_error in Hb. destruct Hb as [i Hi].
  clear - E Eb Hi. revert E. generalize 0 as idx. revert i Hi. induction (cf_blocks x) as [|y l IHl]; intros i Hi idx E; [destruct i; discriminate|].
  simpl in E. destruct (Nat.eqb (fb_pos y) pos) eqn:E2; [discriminate|]. destruct i; simpl in Hi.
  - inversion Hi; subst. apply Nat.eqb_neq in E2. contradiction.
  - eapply IHl; eauto.
Qed.

Lemma slot_at_of_in d f i b :
  MapOK_disk d -> In f (cd_files d) -> nth_error (cf_blocks f) i = Some b -> slot_at d (fb_pos b) = SFile f i b.
Proof.
  intros [N1 _] Hf Hn. unfold slot_at. rewrite (find_in_files_of_in (fb_pos b) (cd_files d) f i b N1 Hf Hn eq_refl). reflexivity.
Qed.
Lemma slot_at_of_deleted d p h : MapOK_disk d -> In (p, h) (cd_deleted d) -> slot_at d p = SDeleted h.
Proof.
  intros [N1 [_ [N2 D]]] H. unfold slot_at. rewrite find_in_files_none.
  - rewrite (find_deleted_of_in p h _ N2 H). reflexivity.
  - apply D. change p with (fst (p, h)). apply in_map. exact H.
Qed.
Lemma slot_at_empty_inv d p : slot_at d p = SEmpty -> ~ In p (concat (map file_poss (cd_files d))) /\ ~ In p (map fst (cd_deleted d)).
Proof.
  unfold slot_at. destruct (find_in_files p (cd_files d)) as [[[f i] b]|] eqn:E; [discriminate|].
  destruct (find_deleted p (cd_deleted d)) eqn:E2; [discriminate|]. intros _.
  split; [apply find_in_files_none_inv; exact E | apply find_deleted_none; exact E2].
Qed.
Lemma slot_at_file_inv d p f i b : slot_at d p = SFile f i b -> In f (cd_files d) /\ nth_error (cf_blocks f) i = Some b /\ fb_pos b = p.
Proof.
  unfold slot_at. destruct (find_in_files p (cd_files d)) as [[[f' i'] b']|] eqn:E; [|destruct (find_deleted p (cd_deleted d)); discriminate].
  intro H; inversion H; subst. clear H. revert E. induction (cd_files d) as [|x t IH]; simpl; [discriminate|].
  destruct (find_in_file p 0 (cf_blocks x)) as [[i2 b2]|] eqn:E2.
  - intro H; inversion H; subst. split; [left; reflexivity|].
    assert (G : forall bl idx i b, find_in_file p idx bl = Some (i, b) -> idx <= i /\ nth_error bl (i - idx) = Some b /\ fb_pos b = p).
    { induction bl as [|y l IHl]; simpl; intros idx i0 b0 H0; [discriminate|].
      destruct (Nat.eqb (fb_pos y) p) eqn:E3.
      - inversion H0; subst. rewrite Nat.sub_diag. apply Nat.eqb_eq in E3. auto.
      - destruct (IHl _ _ _ H0) as [A [B C]]. split; [lia|]. split; [|exact C]. replace (i0 - idx) with (S (i0 - S idx)) by lia. exact B. }
    destruct (G _ _ _ _ E2) as [_ [B C]]. rewrite Nat.sub_0_r in B. auto.
  - intro H. destruct (IH H) as [A B]. split; [right; exact A | exact B].
Qed.

(* --- the provenance invariant of the first phase ------------------------------------------------------------------------ *)
Section Par.
  Variables (basef : N -> N) (bs : N) (clearpast nocopy : bool) (inf : list (option info)).

  Record pinv (d0 : cdisk) (d : sdisk) : Prop := mkPinv {
    pi_files : forall sf, In sf (sd_files d) -> exists f0, In f0 (cd_files d0) /\ cf_blocks (sf_f sf) = cf_blocks f0 /\ cf_size (sf_f sf) = cf_size f0;
    pi_del : forall ph, In ph (sd_deleted d) ->
             In ph (cd_deleted d0) \/
             exists f0 b0, In f0 (cd_files d0) /\ In b0 (cf_blocks f0) /\ fb_pos b0 = fst ph /\ snd ph = past_of clearpast b0;
    pi_keep : forall f0 b0, In f0 (cd_files d0) -> In b0 (cf_blocks f0) ->
              In (fb_pos b0) (concat (map sposs (sd_files d))) \/ In (fb_pos b0) (map fst (sd_deleted d));
    pi_olddel : forall ph, In ph (cd_deleted d0) -> In ph (sd_deleted d)
  }.

  Lemma pinv_init usable d0 : pinv d0 (prepare usable d0).
  Proof.
    constructor; unfold prepare; simpl.
    - intros sf H. apply in_map_iff in H. destruct H as [f [E Hf]]. exists f. subst sf. destruct usable; simpl; auto.
    - auto.
    - intros f0 b0 Hf Hb. left. apply in_concat. exists (file_poss f0). split; [|unfold file_poss; apply in_map; exact Hb].
      rewrite map_map. apply in_map_iff. exists f0. split; [destruct usable; reflexivity | exact Hf].
    - auto.
  Qed.

  Lemma concat_sposs_remove pre (sf : sfile) post p :
    In p (concat (map sposs (pre ++ sf :: post))) -> In p (concat (map sposs (pre ++ post))) \/ In p (sposs sf).
  Proof. rewrite !map_app, !concat_app. simpl. rewrite !in_app_iff. tauto. Qed.

  Lemma pinv_remove d0 d pre sf post f1 (rest : sdisk) :
    pinv d0 d -> sd_files d = pre ++ sf :: post -> cf_blocks f1 = cf_blocks (sf_f sf) ->
    sd_files rest = pre ++ post -> sd_deleted rest = dealloc clearpast f1 (sd_deleted d) -> pinv d0 rest.
  Proof.
    intros [P1 P2 P3 P4] Ef Hb Er Ed. constructor; rewrite ?Er, ?Ed.
    - intros x Hx. apply P1. rewrite Ef. apply in_app_iff in Hx. apply in_app3. tauto.
    - intros ph Hph. unfold dealloc in Hph. apply in_app_iff in Hph. destruct Hph as [Hph|Hph]; [auto|].
      apply in_map_iff in Hph. destruct Hph as [b [E Hbin]]. subst ph. simpl.
      destruct (P1 sf) as [f0 [Hf0 [B _]]]; [rewrite Ef; apply in_app3; auto|].
      right. exists f0, b. rewrite Hb, B in Hbin. auto.
    - intros f0 b0 Hf Hbin. destruct (P3 f0 b0 Hf Hbin) as [H|H].
      + rewrite Ef in H. apply concat_sposs_remove in H. destruct H as [H|H]; [left; exact H|].
        right. rewrite dealloc_fst. apply in_app_iff. right. unfold sposs, file_poss in H. unfold file_poss. rewrite Hb. exact H.
      + right. rewrite dealloc_fst. apply in_app_iff. left. exact H.
    - intros ph Hph. unfold dealloc. apply in_app_iff. left. apply P4. exact Hph.
  Qed.

  Lemma pinv_same_blocks d0 d d' :
    pinv d0 d -> sd_deleted d' = sd_deleted d ->
    map (fun sf => (cf_blocks (sf_f sf), cf_size (sf_f sf))) (sd_files d') = map (fun sf => (cf_blocks (sf_f sf), cf_size (sf_f sf))) (sd_files d) ->
    pinv d0 d'.
  Proof.
    intros [P1 P2 P3 P4] Ed Em.
    assert (Hs : map sposs (sd_files d') = map sposs (sd_files d)).
    { revert Em. generalize (sd_files d) as l. induction (sd_files d') as [|x t IH]; intros [|y l] Em; simpl in *; try discriminate; [reflexivity|].
      inversion Em. f_equal; [unfold sposs, file_poss; congruence | apply IH; assumption]. }
    constructor; rewrite ?Ed, ?Hs; auto.
    intros sf Hsf. apply (in_map (fun sf => (cf_blocks (sf_f sf), cf_size (sf_f sf)))) in Hsf. rewrite Em in Hsf.
    apply in_map_iff in Hsf. destruct Hsf as [y [E Hy]]. inversion E. destruct (P1 y Hy) as [f0 [A [B C]]]. exists f0. repeat split; congruence.
  Qed.

  Lemma pinv_kicked d0 d dk : kicked d dk -> pinv d0 d -> pinv d0 dk.
  Proof.
    intros [E | [pre [sf [post [Ef [Hp [Hn E]]]]]]] I; [subst; exact I|]. subst dk.
    apply (pinv_same_blocks d0 d); [exact I | reflexivity|]. simpl. rewrite Ef. rewrite !map_app. reflexivity.
  Qed.

  Lemma pinv_fstep d0 usable e w k d d' :
    fstep basef bs clearpast nocopy inf usable e w k d d' -> pinv d0 d -> pinv d0 d'.
  Proof.
    intros S I. destruct S as [target Hn Hl | dk dc pre sf post f' Hkick Ef Hp R S E | dk d1 was src cnt Hkick Hr Es E].
    - apply scan_link_spec in Hl. destruct Hl as [F1 [_ [F3 _]]]. apply (pinv_same_blocks d0 d); [exact I | exact F3 | rewrite F1; reflexivity].
    - apply (pinv_kicked d0 d dk Hkick) in I. destruct S as [S1 [S2 [S3 _]]]. destruct R as [R1 [R2 _]]. subst d'.
      unfold keep. cbn [sf_f]. destruct (full_invalid_stable inf f').
      + apply (pinv_remove d0 dk pre sf post f'); auto. simpl. rewrite S3. reflexivity.
      + apply (pinv_same_blocks d0 dk); [exact I | simpl; exact S3|]. unfold sd_set_files. simpl. rewrite Ef. rewrite !map_app. simpl. rewrite R1, R2. reflexivity.
    - apply (pinv_kicked d0 d dk Hkick) in I.
      assert (I1 : pinv d0 d1).
      { destruct Hr as [[_ [E1 _]] | [_ [pre [sf [post [f1 [Ef [Hp [Hn [Hb E1]]]]]]]]]]; [subst; exact I|].
        subst d1. apply (pinv_remove d0 dk pre sf post f1); auto. }
      subst d'. apply (pinv_same_blocks d0 d1); [exact I1 | reflexivity | reflexivity].
  Qed.

  Lemma pinv_remove_missing_gen d0 (P : sfile -> bool) t : forall kept (d : sdisk),
    pinv d0 d -> sd_files d = kept ++ t ->
    forall d', sd_files d' = kept ++ filter P t ->
               sd_deleted d' = fold_left (fun del sf => dealloc clearpast (sf_f sf) del) (filter (fun sf => negb (P sf)) t) (sd_deleted d) ->
               pinv d0 d'.
  Proof.
    induction t as [|x t IH]; intros kept d I Ef d' Ef' Ed'; simpl in *.
    - apply (pinv_same_blocks d0 d); [exact I | exact Ed' | rewrite Ef, Ef'; reflexivity].
    - destruct (P x) eqn:E; simpl in *.
      + apply (IH (kept ++ [x]) d I); [rewrite <- app_assoc; exact Ef | rewrite <- app_assoc; exact Ef' | exact Ed'].
      + set (dm := mkSD (kept ++ t) (sd_ins d) (dealloc clearpast (sf_f x) (sd_deleted d)) (sd_links d) (sd_link_ins d) (sd_dirs d) (sd_dir_ins d) (sd_cnt d)).
        apply (IH kept dm); [|reflexivity | exact Ef' | exact Ed'].
        apply (pinv_remove d0 d kept x t (sf_f x)); auto.
  Qed.

  Lemma pinv_remove_missing d0 d : pinv d0 d -> pinv d0 (remove_missing clearpast d).
  Proof. intro I. apply (pinv_remove_missing_gen d0 sf_present (sd_files d) [] d I eq_refl); reflexivity. Qed.

  (* --- what the delayed inserts put into the new blocks ------------------------------------------------------------ *)
  Lemma find_deleted_in p h dl : find_deleted p dl = Some h -> In (p, h) dl.
  Proof.
    induction dl as [|[q k] t IH]; simpl; [discriminate|]. destruct (Nat.eqb q p) eqn:E.
    - intro H; inversion H; subst. apply Nat.eqb_eq in E. subst. left; reflexivity.
    - intro H. right. exact (IH H).
  Qed.

  Definition new_block_ok (del : list (nat * hval)) (nb : fblock) : Prop :=
    fb_state nb <> SBlk /\
    (fb_state nb = SChg -> h_unique (fb_hash nb) = true -> clearpast = true /\ In (fb_pos nb, fb_hash nb) del).

  Lemma alloc_blocks_hash occ bl : forall ff del nb,
    In nb (snd (alloc_blocks clearpast inf occ ff del bl)) -> new_block_ok del nb.
  Proof.
    induction bl as [|b t IH]; intros ff del nb H; [destruct H|].
    rewrite alloc_blocks_cons in H. unfold alloc_block at 1 in H. cbv zeta in H.
    set (pos := ffree (S (length occ)) occ ff) in *.
    set (del1 := filter (fun ph : nat * hval => negb (Nat.eqb (fst ph) pos)) del) in *.
    destruct (alloc_blocks clearpast inf occ (S pos) del1 t) as [[ff2 del2] rest] eqn:E2. simpl in H.
    destruct H as [H|H].
    - subst nb. unfold new_block_ok.
      destruct (negb (bstate_eqb (fb_state b) SChg) && negb (rehash_at inf pos)); simpl.
      + split; [discriminate | intro; discriminate].
      + split; [discriminate|]. intros _ Hu. destruct (find_deleted pos del) as [h|] eqn:Ef; [|simpl in Hu; discriminate].
        destruct clearpast; [|simpl in Hu; discriminate]. split; [reflexivity | apply find_deleted_in; exact Ef].
    - destruct (IH (S pos) del1 nb) as [A B]; [rewrite E2; exact H|]. split; [exact A|].
      intros Hs Hu. destruct (B Hs Hu) as [C D]. split; [exact C|]. unfold del1 in D. apply filter_In in D. tauto.
  Qed.

  Lemma alloc_files_hash occ fl : forall ff del f' nb,
    In f' (snd (alloc_files clearpast inf occ ff del fl)) -> In nb (cf_blocks f') -> new_block_ok del nb.
  Proof.
    induction fl as [|f t IH]; intros ff del f' nb Hf Hb; [destruct Hf|].
    rewrite alloc_files_cons in Hf.
    pose proof (alloc_blocks_spec clearpast inf occ (cf_blocks f) ff del) as B.
    pose proof (alloc_blocks_hash occ (cf_blocks f) ff del) as Hh.
    destruct (alloc_blocks clearpast inf occ ff del (cf_blocks f)) as [[ff1 del1] bl] eqn:E1.
    destruct B as [_ [_ [_ [_ Hdel]]]].
    destruct (alloc_files clearpast inf occ ff1 del1 t) as [del2 rest] eqn:E2. simpl in Hf.
    destruct Hf as [Hf|Hf].
    - subst f'. simpl in Hb. apply Hh. exact Hb.
    - destruct (IH ff1 del1 f' nb) as [A C]; [rewrite E2; exact Hf | exact Hb|]. split; [exact A|].
      intros Hs Hu. destruct (C Hs Hu) as [C1 C2]. split; [exact C1|]. rewrite Hdel in C2. apply drop_at_in in C2. tauto.
  Qed.

  (* --- the slots of a disk after the scan, against the slots before ---------------------------------------------------- *)
  Definition slot_rel (s0 s' : slot) : Prop :=
    match s' with
    | SEmpty => s0 = SEmpty
    | SDeleted _ => True
    | SFile f' i b' =>
        (exists f0, s0 = SFile f0 i b' /\ cf_size f0 = cf_size f') \/
        (fb_state b' <> SBlk /\
         (fb_state b' = SChg -> h_unique (fb_hash b') = true ->
          clearpast = true /\
          (s0 = SDeleted (fb_hash b') \/ exists f0 i0 b0, s0 = SFile f0 i0 b0 /\ fb_hash b' = past_of true b0)))
    end.

  Lemma finish_slots d0 d pos :
    MapOK_disk d0 -> smap_ok d -> pinv d0 d ->
    slot_rel (slot_at d0 pos) (slot_at (fst (finish_disk clearpast inf d)) pos).
  Proof.
    intros M0 Hs Hp. pose proof (finish_map clearpast inf d Hs) as M'.
    apply (remove_missing_map clearpast) in Hs. apply pinv_remove_missing in Hp.
    remember (fst (finish_disk clearpast inf d)) as d' eqn:Ed'.
    unfold finish_disk in Ed'.
    set (d1 := remove_missing clearpast d) in *.
    set (kept := map sf_f (sd_files d1)) in *.
    set (occ := flat_map (fun f => map fb_pos (cf_blocks f)) kept) in *.
    pose proof (alloc_files_spec clearpast inf occ (map fst (sort_ins (sd_ins d1))) 0 (sd_deleted d1)) as A.
    pose proof (alloc_files_hash occ (map fst (sort_ins (sd_ins d1))) 0 (sd_deleted d1)) as Hh.
    destruct (alloc_files clearpast inf occ 0 (sd_deleted d1) (map fst (sort_ins (sd_ins d1)))) as [del added] eqn:Ea.
    destruct A as [_ [_ [_ Hdel]]]. cbn [fst snd] in *.
    destruct Hp as [P1 P2 P3 P4].
    assert (Ek : map sposs (sd_files d1) = map file_poss kept) by (unfold kept; rewrite map_map; reflexivity).
    assert (Ef' : cd_files d' = kept ++ added) by (subst d'; reflexivity).
    assert (Ed2 : cd_deleted d' = del) by (subst d'; reflexivity).
    unfold slot_rel. destruct (slot_at d' pos) as [|f' i b'|h] eqn:Es; [| |exact I].
    - (* empty now: empty before *)
      destruct (slot_at_empty_inv d' pos Es) as [N1 N2]. rewrite Ef' in N1. rewrite Ed2 in N2. rewrite map_app, concat_app in N1.
      assert (Hno : forall h, ~ In (pos, h) (sd_deleted d1)).
      { intros h Hc. apply N2. subst del. change pos with (fst (pos, h)). apply in_map. apply drop_at_in. split; [exact Hc|].
        simpl. intro Hc2. apply N1. apply in_app_iff. right. exact Hc2. }
      unfold slot_at. destruct (find_in_files pos (cd_files d0)) as [[[f0 i0] b0]|] eqn:E0.
      + exfalso. destruct (find_in_files_pos _ _ _ _ _ E0) as [Ep [Hf0 Hb0]]. subst pos.
        destruct (P3 f0 b0 Hf0 Hb0) as [H|H].
        * apply N1. apply in_app_iff. left. rewrite <- Ek. exact H.
        * apply in_map_iff in H. destruct H as [[p h] [E Hph]]. simpl in E. subst p. exact (Hno h Hph).
      + destruct (find_deleted pos (cd_deleted d0)) as [h|] eqn:E1; [|reflexivity].
        exfalso. apply find_deleted_in in E1. exact (Hno h (P4 _ E1)).
    - destruct (slot_at_file_inv d' pos f' i b' Es) as [Hf [Hn Hpos]]. rewrite Ef' in Hf. apply in_app_iff in Hf. destruct Hf as [Hf|Hf].
      + (* a kept file: the same block of a file of the old content *)
        left. unfold kept in Hf. apply in_map_iff in Hf. destruct Hf as [sf [E Hsf]]. subst f'.
        destruct (P1 sf Hsf) as [f0 [Hf0 [B S]]]. exists f0. split; [|symmetry; exact S].
        subst pos. apply slot_at_of_in; [exact M0 | exact Hf0 | rewrite <- B; exact Hn].
      + (* a file allocated by this scan *)
        right. destruct (Hh f' b' Hf (nth_error_In _ _ Hn)) as [NB Hu]. split; [exact NB|].
        intros Hc Hq. destruct (Hu Hc Hq) as [C D]. split; [exact C|]. rewrite Hpos in D.
        destruct (P2 _ D) as [Ho | [f0 [b0 [Hf0 [Hb0 [Ep Eh]]]]]].
        * left. apply slot_at_of_deleted; assumption.
        * right. simpl in Ep, Eh. apply In_nth_error in Hb0. destruct Hb0 as [i0 Hi0]. exists f0, i0, b0.
          split; [replace pos with (fb_pos b0) by congruence; apply slot_at_of_in; assumption | rewrite Eh, C; reflexivity].
  Qed.

  (* --- disk by disk: the content after the scan against the content before ----------------------------------------------- *)
  Lemma scan_entry_pres_ix (Q : nat -> sdisk -> Prop) usable k (w w' : world) e :
    (forall d d', fstep basef bs clearpast nocopy inf usable e w k d d' -> Q k d -> Q k d') ->
    (forall d name to hard d', scan_link d name to hard = Some d' -> Q k d -> Q k d') ->
    (forall d name d', scan_emptydir d name = Some d' -> Q k d -> Q k d') ->
    scan_entry basef bs clearpast nocopy inf usable k w e = Some w' ->
    (forall j d, nth j w None = Some d -> Q j d) -> forall j d, nth j w' None = Some d -> Q j d.
  Proof.
    intros HF HL HD H I j d Hd. unfold scan_entry in H. destruct (nth k w None) as [dk|] eqn:Ek; [|discriminate].
    assert (Hlt : k < length w) by (eapply nth_Some_lt; eauto).
    assert (G : forall d', Q k d' -> w' = set_disk k d' w -> Q j d).
    { intros d' Qd' E. subst w'. destruct (Nat.eq_dec j k) as [->|Hn].
      - rewrite nth_set_disk_same in Hd by exact Hlt. inversion Hd; subst. exact Qd'.
      - rewrite nth_set_disk_other in Hd by exact Hn. eapply I; eauto. }
    destruct (le_kind e).
    - apply scan_file_fstep in H. destruct H as [d' [E S]]. apply (G d'); [|exact E]. eapply HF; eauto.
    - destruct (scan_link dk (le_name e) (le_to e) false) as [d'|] eqn:El; [|discriminate]. inversion H; subst w'.
      apply (G d'); [|reflexivity]. eapply HL; eauto.
    - destruct (scan_emptydir dk (le_name e)) as [d'|] eqn:El; [|discriminate]. inversion H; subst w'.
      apply (G d'); [|reflexivity]. eapply HD; eauto.
  Qed.

  Lemma phase1_pres_ix (Q : nat -> sdisk -> Prop) usable listing :
    (forall u e w k d d', fstep basef bs clearpast nocopy inf u e w k d d' -> Q k d -> Q k d') ->
    (forall k d name to hard d', scan_link d name to hard = Some d' -> Q k d -> Q k d') ->
    (forall k d name d', scan_emptydir d name = Some d' -> Q k d -> Q k d') ->
    forall (w w' : world), phase1 basef bs clearpast nocopy inf usable listing w = Some w' ->
    (forall j d, nth j w None = Some d -> Q j d) -> forall j d, nth j w' None = Some d -> Q j d.
  Proof.
    intros HF HL HD w w' H. unfold phase1 in H. revert H. generalize (seq 0 (length w)) as ks. intro ks. revert w.
    induction ks as [|k t IH]; simpl; intros w H I.
    - inversion H; subst. exact I.
    - destruct (fold_opt (scan_entry basef bs clearpast nocopy inf (nth k usable false) k) (nth k listing []) w) as [w1|] eqn:E; [|discriminate].
      apply (IH w1 H). clear IH H. revert w w1 E I. generalize (nth k listing []) as es.
      induction es as [|e es IHe]; simpl; intros w w1 E I.
      + inversion E; subst. exact I.
      + destruct (scan_entry basef bs clearpast nocopy inf (nth k usable false) k w e) as [w2|] eqn:E2; [|discriminate].
        apply (IHe w2 w1 E). eapply scan_entry_pres_ix; eauto.
  Qed.

  Lemma phase1_none usable listing : forall (w w' : world),
    phase1 basef bs clearpast nocopy inf usable listing w = Some w' ->
    length w' = length w /\ forall j, nth j w None = None -> nth j w' None = None.
  Proof.
    intros w w' H. unfold phase1 in H. revert H. generalize (seq 0 (length w)) as ks. intro ks. revert w.
    induction ks as [|k t IH]; simpl; intros w H.
    - inversion H; subst. auto.
    - destruct (fold_opt (scan_entry basef bs clearpast nocopy inf (nth k usable false) k) (nth k listing []) w) as [w1|] eqn:E; [|discriminate].
      destruct (IH w1 H) as [L1 N1]. clear IH H.
      assert (G : length w1 = length w /\ forall j, nth j w None = None -> nth j w1 None = None).
      { clear L1 N1. revert w w1 E. generalize (nth k listing []) as es. induction es as [|e es IHe]; simpl; intros w w1 E.
        - inversion E; subst. auto.
        - destruct (scan_entry basef bs clearpast nocopy inf (nth k usable false) k w e) as [w2|] eqn:E2; [|discriminate].
          destruct (IHe w2 w1 E) as [L2 N2].
          assert (Hk : exists dk, nth k w None = Some dk) by (unfold scan_entry in E2; destruct (nth k w None); [eauto | discriminate]).
          destruct (scan_entry_shape _ _ _ _ _ _ _ _ _ _ E2) as [d' E3]. subst w2. rewrite set_disk_length in L2.
          split; [exact L2|]. intros j Hj. apply N2. destruct Hk as [dk Hk].
          rewrite nth_set_disk_other; [exact Hj | intro; subst; congruence]. }
      destruct G as [L2 N2]. split; [congruence | intros j Hj; apply N1; apply N2; exact Hj].
  Qed.

  Lemma scan_disks_rel usable c listing o :
    MapOK c -> scan basef bs clearpast nocopy inf usable c listing = Some o ->
    length (c_disks (sc_content o)) = length (c_disks c) /\
    forall j, match nth j (c_disks c) None with
              | Some d0 => exists d, nth j (c_disks (sc_content o)) None = Some (fst (finish_disk clearpast inf d)) /\
                                     MapOK_disk d0 /\ smap_ok d /\ pinv d0 d
              | None => nth j (c_disks (sc_content o)) None = None
              end.
  Proof.
    intros M H. unfold scan in H.
    set (w0 := map (fun kd : nat * option cdisk => match snd kd with Some d => Some (prepare (nth (fst kd) usable false) d) | None => None end)
                   (combine (seq 0 (length (c_disks c))) (c_disks c))) in *.
    destruct (phase1 basef bs clearpast nocopy inf usable listing w0) as [w|] eqn:E; [|discriminate].
    inversion H; subst o; clear H. simpl.
    assert (Hlen : length w0 = length (c_disks c)) by (unfold w0; rewrite map_length, combine_length, seq_length; lia).
    destruct (phase1_none usable listing w0 w E) as [L1 N1].
    assert (Hw0 : forall j, j < length (c_disks c) ->
                  nth j w0 None = match nth j (c_disks c) None with Some d => Some (prepare (nth j usable false) d) | None => None end).
    { intros j Hj. unfold w0. rewrite (nth_map_combine_seq0 _ _ None None) by exact Hj. reflexivity. }
    set (Q := fun (j : nat) (d : sdisk) => match nth j (c_disks c) None with Some d0 => smap_ok d /\ pinv d0 d | None => False end).
    assert (I0 : forall j d, nth j w0 None = Some d -> Q j d).
    { intros j d Hj. assert (Hlt : j < length (c_disks c)) by (rewrite <- Hlen; eapply nth_Some_lt; eauto).
      rewrite (Hw0 j Hlt) in Hj. unfold Q. destruct (nth j (c_disks c) None) as [d0|] eqn:E0; [|discriminate].
      inversion Hj; subst d. split; [apply prepare_map; apply M; rewrite <- E0; apply nth_In; exact Hlt | apply pinv_init]. }
    assert (I1 : forall j d, nth j w None = Some d -> Q j d).
    { eapply (phase1_pres_ix Q); [ | | | exact E | exact I0]; unfold Q.
      - intros u e w1 k d1 d2 S. destruct (nth k (c_disks c) None); [|tauto]. intros [A B].
        split; [eapply smap_fstep; eauto | eapply pinv_fstep; eauto].
      - intros k d1 name to hard d2 Hl. destruct (nth k (c_disks c) None); [|tauto]. intros [A B].
        apply scan_link_spec in Hl. destruct Hl as [F1 [_ [F3 _]]]. split.
        + unfold smap_ok. rewrite F1, F3. exact A.
        + apply (pinv_same_blocks _ d1); [exact B | exact F3 | rewrite F1; reflexivity].
      - intros k d1 name d2 Hl. destruct (nth k (c_disks c) None); [|tauto]. intros [A B].
        apply scan_emptydir_spec in Hl. destruct Hl as [F1 [_ [F3 _]]]. split.
        + unfold smap_ok. rewrite F1, F3. exact A.
        + apply (pinv_same_blocks _ d1); [exact B | exact F3 | rewrite F1; reflexivity]. }
    split; [rewrite !map_length; congruence|].
    intro j. rewrite (nth_map_opt fst). rewrite (nth_map_opt (finish_disk clearpast inf)).
    destruct (nth j (c_disks c) None) as [d0|] eqn:E0.
    - assert (Hlt : j < length (c_disks c)) by (eapply nth_Some_lt; eauto).
      destruct (nth j w None) as [d|] eqn:Ew.
      + exists d. split; [reflexivity|]. pose proof (I1 j d Ew) as HQ. unfold Q in HQ. rewrite E0 in HQ.
        split; [apply M; rewrite <- E0; apply nth_In; exact Hlt | exact HQ].
      + (* a disk cannot disappear *)
        exfalso. assert (Hs : nth j w0 None = Some (prepare (nth j usable false) d0)) by (rewrite (Hw0 j Hlt), E0; reflexivity).
        clear - E Hs Ew. unfold phase1 in E.
        destruct (phase1_gen basef bs clearpast nocopy inf (fun k => nth k usable false) (fun k => nth k listing []) (seq 0 (length w0)) w0 w (seq_NoDup _ _) E) as [_ [_ G]].
        destruct (G j) with (d := prepare (nth j usable false) d0) (d0 := d0) as [d' [A _]];
          [apply in_seq; split; [lia | simpl; eapply nth_Some_lt; eauto] | exact Hs | apply dinv_init | congruence].
    - destruct (Nat.lt_ge_cases j (length (c_disks c))) as [Hlt|Hge].
      + rewrite N1; [reflexivity|]. rewrite (Hw0 j Hlt), E0. reflexivity.
      + rewrite nth_overflow by lia. reflexivity.
  Qed.
End Par.
