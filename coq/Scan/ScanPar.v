(* The scan and the parity invariant of C06 (Array/SyncProofsDefs.v): the scan never makes a stripe "synced", so ParOK is
   preserved; PastOK (the soundness condition of "parity_needs_to_be_updated = 0") is preserved except where scan.c copies
   a past hash into a CHG block whose length differs from the length the hash was taken over (scan.c:286) -- refuted by a
   concrete witness, proved under the exact extra hypothesis. *)
From Coq Require Import NArith ZArith List Bool Arith Lia.
From Snap.Array Require Import ArrayDefs SyncModel SyncProofsDefs.
From Snap.Scan Require Import ScanModel ScanBasics ScanSteps ScanSound ScanCopy ScanMap.
Import ListNotations.

(* --- slot_at from membership, under a well formed map --------------------------------------------------------------- *)
Lemma find_in_file_none pos bl : forall idx, ~ In pos (map fb_pos bl) -> find_in_file pos idx bl = None.
Proof.
  induction bl as [|x t IH]; simpl; intros idx H; [reflexivity|].
  destruct (Nat.eqb (fb_pos x) pos) eqn:E; [apply Nat.eqb_eq in E; exfalso; apply H; auto | apply IH; tauto].
Qed.
Lemma find_in_file_of_in pos bl : forall idx i b,
  NoDup (map fb_pos bl) -> nth_error bl i = Some b -> fb_pos b = pos -> find_in_file pos idx bl = Some (idx + i, b).
Proof.
  induction bl as [|x t IH]; intros idx i b ND Hn Hp; [destruct i; discriminate|].
  simpl in ND. inversion ND as [|y l Hnot ND']; subst. destruct i as [|i]; simpl in *.
  - inversion Hn; subst. rewrite Nat.eqb_refl. rewrite Nat.add_0_r. reflexivity.
  - destruct (Nat.eqb (fb_pos x) (fb_pos b)) eqn:E.
    + apply Nat.eqb_eq in E. exfalso. apply Hnot. rewrite E. apply in_map. eapply nth_error_In; eauto.
    + rewrite (IH (S idx) i b ND' Hn eq_refl). f_equal. f_equal. lia.
Qed.
Lemma find_in_files_none pos fl : ~ In pos (concat (map file_poss fl)) -> find_in_files pos fl = None.
Proof.
  induction fl as [|x t IH]; simpl; intro H; [reflexivity|].
  rewrite find_in_file_none; [apply IH|]; intro Hc; apply H; apply in_app_iff; auto.
Qed.
Lemma find_in_files_of_in pos fl f i b :
  NoDup (concat (map file_poss fl)) -> In f fl -> nth_error (cf_blocks f) i = Some b -> fb_pos b = pos ->
  find_in_files pos fl = Some (f, i, b).
Proof.
  induction fl as [|x t IH]; simpl; intros ND Hf Hn Hp; [destruct Hf|].
  apply NoDup_app_iff in ND. destruct ND as [N1 [N2 D]].
  assert (Hin : In pos (file_poss f)) by (unfold file_poss; rewrite <- Hp; apply in_map; eapply nth_error_In; eauto).
  destruct (find_in_file pos 0 (cf_blocks x)) as [[i' b']|] eqn:E.
  - destruct (find_in_file_pos _ _ _ _ _ E) as [E1 E2].
    assert (Hx : In pos (file_poss x)) by (unfold file_poss; rewrite <- E1; apply in_map; exact E2).
    destruct Hf as [Hf|Hf].
    + subst x. rewrite (find_in_file_of_in pos (cf_blocks f) 0 i b N1 Hn Hp) in E. inversion E; subst. reflexivity.
    + exfalso. apply (D pos Hx). apply in_concat. exists (file_poss f). split; [apply in_map; exact Hf | exact Hin].
  - destruct Hf as [Hf|Hf].
    + subst x. rewrite (find_in_file_of_in pos (cf_blocks f) 0 i b N1 Hn Hp) in E. discriminate.
    + apply IH; auto.
Qed.
Lemma find_deleted_of_in p h dl : NoDup (map fst dl) -> In (p, h) dl -> find_deleted p dl = Some h.
Proof.
  induction dl as [|[q k] t IH]; simpl; intros ND H; [destruct H|]. inversion ND as [|y l Hnot ND']; subst.
  destruct H as [H|H].
  - inversion H; subst. rewrite Nat.eqb_refl. reflexivity.
  - destruct (Nat.eqb q p) eqn:E; [apply Nat.eqb_eq in E; subst; exfalso; apply Hnot; change p with (fst (p, h)); apply in_map; exact H | apply IH; auto].
Qed.
Lemma find_deleted_none p dl : find_deleted p dl = None -> ~ In p (map fst dl).
Proof.
  induction dl as [|[q k] t IH]; simpl; intros H Hc; [destruct Hc|].
  destruct (Nat.eqb q p) eqn:E; [discriminate|]. apply Nat.eqb_neq in E. destruct Hc as [Hc|Hc]; [contradiction | exact (IH H Hc)].
Qed.
Lemma find_in_files_none_inv pos fl : find_in_files pos fl = None -> ~ In pos (concat (map file_poss fl)).
Proof.
  induction fl as [|x t IH]; simpl; intros H Hc; [destruct Hc|].
  destruct (find_in_file pos 0 (cf_blocks x)) as [[i b]|] eqn:E; [discriminate|].
  apply in_app_iff in Hc. destruct Hc as [Hc|Hc]; [|exact (IH H Hc)].
  unfold file_poss in Hc. apply in_map_iff in Hc. destruct Hc as [b [Eb Hb]].
  apply In_nth_error in Hb. destruct Hb as [i Hi].
  clear - E Eb Hi. revert E. generalize 0 as idx. revert i Hi. induction (cf_blocks x) as [|y l IHl]; intros i Hi idx E; [destruct i; discriminate|].
  simpl in E. destruct (Nat.eqb (fb_pos y) pos) eqn:E2; [discriminate|]. destruct i; simpl in Hi.
  - inversion Hi; subst. apply Nat.eqb_neq in E2. contradiction.
  - eapply IHl; eauto.
Qed.

Lemma slot_at_of_in d f i b :
  MapOK_disk d -> In f (cd_files d) -> nth_error (cf_blocks f) i = Some b -> slot_at d (fb_pos b) = SFile f i b.
Proof.
  intros [N1 _] Hf Hn. unfold slot_at. rewrite (find_in_files_of_in (fb_pos b) (cd_files d) f i b N1 Hf Hn eq_refl). reflexivity.
Qed.
Lemma slot_at_of_deleted d p h : MapOK_disk d -> In (p, h) (cd_deleted d) -> slot_at d p = SDeleted h.
Proof.
  intros [N1 [_ [N2 D]]] H. unfold slot_at. rewrite find_in_files_none.
  - rewrite (find_deleted_of_in p h _ N2 H). reflexivity.
  - apply D. change p with (fst (p, h)). apply in_map. exact H.
Qed.
Lemma slot_at_empty_inv d p : slot_at d p = SEmpty -> ~ In p (concat (map file_poss (cd_files d))) /\ ~ In p (map fst (cd_deleted d)).
Proof.
  unfold slot_at. destruct (find_in_files p (cd_files d)) as [[[f i] b]|] eqn:E; [discriminate|].
  destruct (find_deleted p (cd_deleted d)) eqn:E2; [discriminate|]. intros _.
  split; [apply find_in_files_none_inv; exact E | apply find_deleted_none; exact E2].
Qed.
Lemma slot_at_file_inv d p f i b : slot_at d p = SFile f i b -> In f (cd_files d) /\ nth_error (cf_blocks f) i = Some b /\ fb_pos b = p.
Proof.
  unfold slot_at. destruct (find_in_files p (cd_files d)) as [[[f' i'] b']|] eqn:E; [|destruct (find_deleted p (cd_deleted d)); discriminate].
  intro H; inversion H; subst. clear H. revert E. induction (cd_files d) as [|x t IH]; simpl; [discriminate|].
  destruct (find_in_file p 0 (cf_blocks x)) as [[i2 b2]|] eqn:E2.
  - intro H; inversion H; subst. split; [left; reflexivity|].
    assert (G : forall bl idx i b, find_in_file p idx bl = Some (i, b) -> idx <= i /\ nth_error bl (i - idx) = Some b /\ fb_pos b = p).
    { induction bl as [|y l IHl]; simpl; intros idx i0 b0 H0; [discriminate|].
      destruct (Nat.eqb (fb_pos y) p) eqn:E3.
      - inversion H0; subst. rewrite Nat.sub_diag. apply Nat.eqb_eq in E3. auto.
      - destruct (IHl _ _ _ H0) as [A [B C]]. split; [lia|]. split; [|exact C]. replace (i0 - idx) with (S (i0 - S idx)) by lia. exact B. }
    destruct (G _ _ _ _ E2) as [_ [B C]]. rewrite Nat.sub_0_r in B. auto.
  - intro H. destruct (IH H) as [A B]. split; [right; exact A | exact B].
Qed.

(* --- the provenance invariant of the first phase ------------------------------------------------------------------------ *)
Section Par.
  Variables (basef : N -> N) (bs : N) (clearpast nocopy : bool) (inf : list (option info)).

  Record pinv (d0 : cdisk) (d : sdisk) : Prop := mkPinv {
    pi_files : forall sf, In sf (sd_files d) -> exists f0, In f0 (cd_files d0) /\ cf_blocks (sf_f sf) = cf_blocks f0 /\ cf_size (sf_f sf) = cf_size f0;
    pi_del : forall ph, In ph (sd_deleted d) ->
             In ph (cd_deleted d0) \/
             exists f0 b0, In f0 (cd_files d0) /\ In b0 (cf_blocks f0) /\ fb_pos b0 = fst ph /\ snd ph = past_of clearpast b0;
    pi_keep : forall f0 b0, In f0 (cd_files d0) -> In b0 (cf_blocks f0) ->
              In (fb_pos b0) (concat (map sposs (sd_files d))) \/ In (fb_pos b0) (map fst (sd_deleted d));
    pi_olddel : forall ph, In ph (cd_deleted d0) -> In ph (sd_deleted d)
  }.

  Lemma pinv_init usable d0 : pinv d0 (prepare usable d0).
  Proof.
    constructor; unfold prepare; simpl.
    - intros sf H. apply in_map_iff in H. destruct H as [f [E Hf]]. exists f. subst sf. destruct usable; simpl; auto.
    - auto.
    - intros f0 b0 Hf Hb. left. apply in_concat. exists (file_poss f0). split; [|unfold file_poss; apply in_map; exact Hb].
      rewrite map_map. apply in_map_iff. exists f0. split; [destruct usable; reflexivity | exact Hf].
    - auto.
  Qed.

  Lemma concat_sposs_remove pre (sf : sfile) post p :
    In p (concat (map sposs (pre ++ sf :: post))) -> In p (concat (map sposs (pre ++ post))) \/ In p (sposs sf).
  Proof. rewrite !map_app, !concat_app. simpl. rewrite !in_app_iff. tauto. Qed.

  Lemma pinv_remove d0 d pre sf post f1 (rest : sdisk) :
    pinv d0 d -> sd_files d = pre ++ sf :: post -> cf_blocks f1 = cf_blocks (sf_f sf) ->
    sd_files rest = pre ++ post -> sd_deleted rest = dealloc clearpast f1 (sd_deleted d) -> pinv d0 rest.
  Proof.
    intros [P1 P2 P3 P4] Ef Hb Er Ed. constructor; rewrite ?Er, ?Ed.
    - intros x Hx. apply P1. rewrite Ef. apply in_app_iff in Hx. apply in_app3. tauto.
    - intros ph Hph. unfold dealloc in Hph. apply in_app_iff in Hph. destruct Hph as [Hph|Hph]; [auto|].
      apply in_map_iff in Hph. destruct Hph as [b [E Hbin]]. subst ph. simpl.
      destruct (P1 sf) as [f0 [Hf0 [B _]]]; [rewrite Ef; apply in_app3; auto|].
      right. exists f0, b. rewrite Hb, B in Hbin. auto.
    - intros f0 b0 Hf Hbin. destruct (P3 f0 b0 Hf Hbin) as [H|H].
      + rewrite Ef in H. apply concat_sposs_remove in H. destruct H as [H|H]; [left; exact H|].
        right. rewrite dealloc_fst. apply in_app_iff. right. unfold sposs, file_poss in H. unfold file_poss. rewrite Hb. exact H.
      + right. rewrite dealloc_fst. apply in_app_iff. left. exact H.
    - intros ph Hph. unfold dealloc. apply in_app_iff. left. apply P4. exact Hph.
  Qed.

  Lemma pinv_same_blocks d0 d d' :
    pinv d0 d -> sd_deleted d' = sd_deleted d ->
    map (fun sf => (cf_blocks (sf_f sf), cf_size (sf_f sf))) (sd_files d') = map (fun sf => (cf_blocks (sf_f sf), cf_size (sf_f sf))) (sd_files d) ->
    pinv d0 d'.
  Proof.
    intros [P1 P2 P3 P4] Ed Em.
    assert (Hs : map sposs (sd_files d') = map sposs (sd_files d)).
    { revert Em. generalize (sd_files d) as l. induction (sd_files d') as [|x t IH]; intros [|y l] Em; simpl in *; try discriminate; [reflexivity|].
      inversion Em. f_equal; [unfold sposs, file_poss; congruence | apply IH; assumption]. }
    constructor; rewrite ?Ed, ?Hs; auto.
    intros sf Hsf. apply (in_map (fun sf => (cf_blocks (sf_f sf), cf_size (sf_f sf)))) in Hsf. rewrite Em in Hsf.
    apply in_map_iff in Hsf. destruct Hsf as [y [E Hy]]. inversion E. destruct (P1 y Hy) as [f0 [A [B C]]]. exists f0. repeat split; congruence.
  Qed.

  Lemma pinv_kicked d0 d dk : kicked d dk -> pinv d0 d -> pinv d0 dk.
  Proof.
    intros [E | [pre [sf [post [Ef [Hp [Hn E]]]]]]] I; [subst; exact I|]. subst dk.
    apply (pinv_same_blocks d0 d); [exact I | reflexivity|]. simpl. rewrite Ef. rewrite !map_app. reflexivity.
  Qed.

  Lemma pinv_fstep d0 usable e w k d d' :
    fstep basef bs clearpast nocopy inf usable e w k d d' -> pinv d0 d -> pinv d0 d'.
  Proof.
    intros S I. destruct S as [target Hn Hl | dk dc pre sf post f' Hkick Ef Hp R S E | dk d1 was src cnt Hkick Hr Es E].
    - apply scan_link_spec in Hl. destruct Hl as [F1 [_ [F3 _]]]. apply (pinv_same_blocks d0 d); [exact I | exact F3 | rewrite F1; reflexivity].
    - apply (pinv_kicked d0 d dk Hkick) in I. destruct S as [S1 [S2 [S3 _]]]. destruct R as [R1 [R2 _]]. subst d'.
      unfold keep. cbn [sf_f]. destruct (full_invalid_stable inf f').
      + apply (pinv_remove d0 dk pre sf post f'); auto. simpl. rewrite S3. reflexivity.
      + apply (pinv_same_blocks d0 dk); [exact I | simpl; exact S3|]. unfold sd_set_files. simpl. rewrite Ef. rewrite !map_app. simpl. rewrite R1, R2. reflexivity.
    - apply (pinv_kicked d0 d dk Hkick) in I.
      assert (I1 : pinv d0 d1).
      { destruct Hr as [[_ [E1 _]] | [_ [pre [sf [post [f1 [Ef [Hp [Hn [Hb E1]]]]]]]]]]; [subst; exact I|].
        subst d1. apply (pinv_remove d0 dk pre sf post f1); auto. }
      subst d'. apply (pinv_same_blocks d0 d1); [exact I1 | reflexivity | reflexivity].
  Qed.

  Lemma pinv_remove_missing_gen d0 (P : sfile -> bool) t : forall kept (d : sdisk),
    pinv d0 d -> sd_files d = kept ++ t ->
    forall d', sd_files d' = kept ++ filter P t ->
               sd_deleted d' = fold_left (fun del sf => dealloc clearpast (sf_f sf) del) (filter (fun sf => negb (P sf)) t) (sd_deleted d) ->
               pinv d0 d'.
  Proof.
    induction t as [|x t IH]; intros kept d I Ef d' Ef' Ed'; simpl in *.
    - apply (pinv_same_blocks d0 d); [exact I | exact Ed' | rewrite Ef, Ef'; reflexivity].
    - destruct (P x) eqn:E; simpl in *.
      + apply (IH (kept ++ [x]) d I); [rewrite <- app_assoc; exact Ef | rewrite <- app_assoc; exact Ef' | exact Ed'].
      + set (dm := mkSD (kept ++ t) (sd_ins d) (dealloc clearpast (sf_f x) (sd_deleted d)) (sd_links d) (sd_link_ins d) (sd_dirs d) (sd_dir_ins d) (sd_cnt d)).
        apply (IH kept dm); [|reflexivity | exact Ef' | exact Ed'].
        apply (pinv_remove d0 d kept x t (sf_f x)); auto.
  Qed.

  Lemma pinv_remove_missing d0 d : pinv d0 d -> pinv d0 (remove_missing clearpast d).
  Proof. intro I. apply (pinv_remove_missing_gen d0 sf_present (sd_files d) [] d I eq_refl); reflexivity. Qed.
End Par.
