(* From the per-entry invariant to the whole scan: phase 1 over all disks, the delayed inserts, scan_sound and the
   provenance of BLK blocks. *)
From Coq Require Import NArith ZArith List Bool Arith Lia.
From Snap.Array Require Import ArrayDefs SyncModel.
From Snap.Scan Require Import ScanModel ScanBasics ScanSteps ScanInv.
Import ListNotations.

Section Sound.
  Variables (basef : N -> N) (bs : N) (clearpast nocopy : bool) (inf : list (option info)).

  Lemma scan_entry_shape usable k (w w' : world) e :
    scan_entry basef bs clearpast nocopy inf usable k w e = Some w' -> exists d', w' = set_disk k d' w.
  Proof.
    unfold scan_entry. destruct (nth k w None) as [d|]; [|discriminate]. destruct (le_kind e).
    - intro H. apply scan_file_fstep in H. destruct H as [d' [E _]]. eauto.
    - destruct (scan_link d (le_name e) (le_to e) false); [|discriminate]. intro H; inversion H. eauto.
    - destruct (scan_emptydir d (le_name e)); [|discriminate]. intro H; inversion H. eauto.
  Qed.

  Lemma entries_frame usable k es : forall (w w' : world),
    fold_opt (scan_entry basef bs clearpast nocopy inf usable k) es w = Some w' ->
    length w' = length w /\ forall j, j <> k -> nth j w' None = nth j w None.
  Proof.
    induction es as [|e t IH]; simpl; intros w w' H.
    - inversion H; subst. auto.
    - destruct (scan_entry basef bs clearpast nocopy inf usable k w e) as [w1|] eqn:E; [|discriminate].
      destruct (scan_entry_shape _ _ _ _ _ E) as [d' E1]. destruct (IH _ _ H) as [L F]. subst w1.
      rewrite set_disk_length in L. split; [exact L|]. intros j Hj. rewrite F by exact Hj. apply nth_set_disk_other. exact Hj.
  Qed.

  Lemma entries_dinv usable d0 k es : forall P (w w' : world) d,
    fold_opt (scan_entry basef bs clearpast nocopy inf usable k) es w = Some w' ->
    nth k w None = Some d -> dinv usable d0 P d ->
    exists d', nth k w' None = Some d' /\ dinv usable d0 (P ++ es) d'.
  Proof.
    induction es as [|e t IH]; simpl; intros P w w' d H Hd I.
    - inversion H; subst. exists d. rewrite app_nil_r. auto.
    - destruct (scan_entry basef bs clearpast nocopy inf usable k w e) as [w1|] eqn:E; [|discriminate].
      destruct (scan_entry_dinv basef bs clearpast nocopy inf usable d0 P k w w1 d e E Hd I) as [d1 [E1 I1]].
      assert (Hd1 : nth k w1 None = Some d1) by (subst w1; apply nth_set_disk_same; eapply nth_Some_lt; eauto).
      destruct (IH _ _ _ _ H Hd1 I1) as [d' [A B]]. exists d'. split; [exact A|].
      replace (P ++ e :: t) with ((P ++ [e]) ++ t) by (rewrite <- app_assoc; reflexivity). exact B.
  Qed.

  Lemma phase1_gen (U : nat -> bool) (L : nat -> list lentry) ks : forall (w w' : world),
    NoDup ks ->
    fold_opt (fun w k => fold_opt (scan_entry basef bs clearpast nocopy inf (U k) k) (L k) w) ks w = Some w' ->
    length w' = length w /\
    (forall k, ~ In k ks -> nth k w' None = nth k w None) /\
    (forall k, In k ks -> forall d d0, nth k w None = Some d -> dinv (U k) d0 [] d ->
                                       exists d', nth k w' None = Some d' /\ dinv (U k) d0 (L k) d').
  Proof.
    induction ks as [|k t IH]; simpl; intros w w' ND H.
    - inversion H; subst. repeat split; auto. intros k [].
    - destruct (fold_opt (scan_entry basef bs clearpast nocopy inf (U k) k) (L k) w) as [w1|] eqn:E; [|discriminate].
      inversion ND as [|x l Hnot ND']; subst.
      destruct (entries_frame _ _ _ _ _ E) as [L1 F1].
      destruct (IH _ _ ND' H) as [L2 [F2 G2]].
      split; [congruence|]. split.
      + intros j Hj. rewrite F2 by tauto. apply F1. intro; subst; tauto.
      + intros j [Hj|Hj] d d0 Hd I.
        * subst j. destruct (entries_dinv (U k) d0 k (L k) [] w w1 d E Hd I) as [d1 [A B]].
          exists d1. split; [|exact B]. rewrite F2 by exact Hnot. exact A.
        * apply (G2 j Hj d d0); [|exact I]. rewrite F1; [exact Hd|]. intro; subst; tauto.
  Qed.

  (* --- the delayed inserts ------------------------------------------------------------------------------------------- *)
  Definition same_attrs (f f' : cfile) : Prop :=
    cf_name f' = cf_name f /\ cf_size f' = cf_size f /\ cf_mtime f' = cf_mtime f /\ cf_nsec f' = cf_nsec f /\ cf_inode f' = cf_inode f /\ cf_copy f' = cf_copy f.

  Lemma alloc_blocks_cons occ ff del b t :
    alloc_blocks clearpast inf occ ff del (b :: t) =
    let '(ff1, del1, nb) := alloc_block clearpast inf occ ff del b in
    let '(ff2, del2, rest) := alloc_blocks clearpast inf occ ff1 del1 t in (ff2, del2, nb :: rest).
  Proof. reflexivity. Qed.
  Lemma alloc_files_cons occ ff del f t :
    alloc_files clearpast inf occ ff del (f :: t) =
    let '(ff1, del1, bl) := alloc_blocks clearpast inf occ ff del (cf_blocks f) in
    let '(del2, rest) := alloc_files clearpast inf occ ff1 del1 t in (del2, cf_set_blocks f bl :: rest).
  Proof. reflexivity. Qed.

  Lemma alloc_block_state occ ff del b :
    fb_state (snd (alloc_block clearpast inf occ ff del b)) <> SBlk.
  Proof. unfold alloc_block. cbn [snd]. destruct (negb (bstate_eqb (fb_state b) SChg) && negb (rehash_at inf _)); simpl; discriminate. Qed.

  Lemma alloc_blocks_state occ bl : forall ff del b,
    In b (snd (alloc_blocks clearpast inf occ ff del bl)) -> fb_state b <> SBlk.
  Proof.
    induction bl as [|b0 t IH]; intros ff del b H; [destruct H|].
    rewrite alloc_blocks_cons in H.
    destruct (alloc_block clearpast inf occ ff del b0) as [[ff1 del1] nb] eqn:E1.
    destruct (alloc_blocks clearpast inf occ ff1 del1 t) as [[ff2 del2] rest] eqn:E2. simpl in H.
    destruct H as [H|H].
    - subst b. pose proof (alloc_block_state occ ff del b0) as S. rewrite E1 in S. exact S.
    - apply (IH ff1 del1). rewrite E2. exact H.
  Qed.

  Lemma alloc_files_in occ fl : forall ff del f',
    In f' (snd (alloc_files clearpast inf occ ff del fl)) -> exists f, In f fl /\ same_attrs f f' /\ no_blk f'.
  Proof.
    induction fl as [|f0 t IH]; intros ff del f' H; [destruct H|].
    rewrite alloc_files_cons in H.
    destruct (alloc_blocks clearpast inf occ ff del (cf_blocks f0)) as [[ff1 del1] bl] eqn:E1.
    destruct (alloc_files clearpast inf occ ff1 del1 t) as [del2 rest] eqn:E2. simpl in H.
    destruct H as [H|H].
    - subst f'. exists f0. split; [left; reflexivity|]. split; [unfold same_attrs; simpl; repeat split|].
      unfold no_blk. simpl. intros b Hb. apply (alloc_blocks_state occ (cf_blocks f0) ff del). rewrite E1. exact Hb.
    - destruct (IH ff1 del1 f') as [f [A B]]; [rewrite E2; exact H|]. exists f. split; [right; exact A | exact B].
  Qed.

  Lemma alloc_files_all occ fl : forall ff del f,
    In f fl -> exists f', In f' (snd (alloc_files clearpast inf occ ff del fl)) /\ same_attrs f f'.
  Proof.
    induction fl as [|f0 t IH]; intros ff del f H; [destruct H|].
    rewrite alloc_files_cons.
    destruct (alloc_blocks clearpast inf occ ff del (cf_blocks f0)) as [[ff1 del1] bl] eqn:E1.
    destruct (alloc_files clearpast inf occ ff1 del1 t) as [del2 rest] eqn:E2. simpl.
    destruct H as [H|H].
    - subst f0. exists (cf_set_blocks f bl). split; [left; reflexivity|]. unfold same_attrs; simpl; repeat split.
    - destruct (IH ff1 del1 f H) as [f' [A B]]. rewrite E2 in A. exists f'. split; [right; exact A | exact B].
  Qed.

  Lemma ematch_attrs e f f' : same_attrs f f' -> ematch e f -> ematch e f'.
  Proof. unfold same_attrs, ematch. intuition congruence. Qed.

  (* --- what the scan leaves for one disk -------------------------------------------------------------------------------- *)
  Record disk_sound (usable : bool) (d0 : cdisk) (L : list lentry) (cd : cdisk) : Prop := mkDS {
    (* the files are entries of the listing, with their size, time-stamp and inode *)
    ds_files : forall f, In f (cd_files cd) -> exists e, In e L /\ le_kind e = LFile /\ ematch e f;
    (* every regular file of the listing is recorded, as a file or as a hard link *)
    ds_seen : forall e, In e L -> le_kind e = LFile ->
              (exists f, In f (cd_files cd) /\ ematch e f) \/ (exists l, In l (cd_links cd) /\ cl_name l = le_name e /\ cl_hard l = true);
    ds_links : forall l, In l (cd_links cd) -> exists e, In e L /\ le_name e = cl_name l /\ linkkind e l;
    ds_sym : forall e, In e L -> le_kind e = LSym ->
             exists l, In l (cd_links cd) /\ cl_name l = le_name e /\ cl_to l = le_to e /\ cl_hard l = false;
    ds_dirs : forall n, In n (cd_dirs cd) -> exists e, In e L /\ le_kind e = LDir /\ le_name e = n;
    ds_dir_seen : forall e, In e L -> le_kind e = LDir -> In (le_name e) (cd_dirs cd);
    (* a block still recorded as synced belongs to a file whose blocks, size and time-stamp are those of a file of the old
       content, re-identified by its path or (usable inodes) by its inode: everything else will be read again *)
    ds_blk : forall f, In f (cd_files cd) -> (exists b, In b (cf_blocks f) /\ fb_state b = SBlk) ->
             exists f0, In f0 (cd_files d0) /\ cf_blocks f = cf_blocks f0 /\ cf_size f = cf_size f0 /\ cf_mtime f = cf_mtime f0 /\
                        cf_copy f = cf_copy f0 /\ (cf_nsec f = cf_nsec f0 \/ cf_nsec f0 = (-1)%Z) /\
                        (cf_name f = cf_name f0 \/ (usable = true /\ cf_inode f = cf_inode f0))
  }.

  Lemma finish_sound usable d0 L d :
    dinv usable d0 L d -> disk_sound usable d0 L (fst (finish_disk clearpast inf d)).
  Proof.
    intro I. destruct I as [di_origin0 di_present0 di_ins0 di_seen0 di_noinode0 di_links0 di_link_ins0 di_sym0 di_dirs0 di_dir_ins0 di_dir_seen0]. unfold finish_disk.
    set (d1 := remove_missing clearpast d).
    set (kept := map sf_f (sd_files d1)).
    set (occ := flat_map (fun f => map fb_pos (cf_blocks f)) kept).
    destruct (alloc_files clearpast inf occ 0 (sd_deleted d1) (map fst (sort_ins (sd_ins d1)))) as [del added] eqn:Ea.
    simpl.
    assert (Hkept : forall f, In f kept <-> exists sf, In sf (sd_files d) /\ sf_present sf = true /\ sf_f sf = f).
    { intro f. unfold kept, d1, remove_missing. simpl. rewrite in_map_iff. split.
      - intros [sf [E H]]. apply filter_In in H. exists sf. tauto.
      - intros [sf [H [Hp E]]]. exists sf. split; [exact E|]. apply filter_In. auto. }
    assert (Hins : sd_ins d1 = sd_ins d) by reflexivity.
    assert (Hadd1 : forall f', In f' added -> exists fk, In fk (sd_ins d) /\ same_attrs (fst fk) f' /\ no_blk f').
    { intros f' H. pose proof (alloc_files_in occ (map fst (sort_ins (sd_ins d1))) 0 (sd_deleted d1) f') as A.
      rewrite Ea in A. destruct (A H) as [f [Hf B]]. apply in_map_iff in Hf. destruct Hf as [fk [E Hfk]].
      apply (proj1 (sort_ins_in _ _)) in Hfk. exists fk. subst f. split; [exact Hfk | exact B]. }
    assert (Hadd2 : forall fk, In fk (sd_ins d) -> exists f', In f' added /\ same_attrs (fst fk) f').
    { intros fk H. pose proof (alloc_files_all occ (map fst (sort_ins (sd_ins d1))) 0 (sd_deleted d1) (fst fk)) as A.
      rewrite Ea in A. apply A. apply in_map. apply (proj2 (sort_ins_in _ _)). exact H. }
    assert (Hlk : forall l, In l (map fst (sd_links d1) ++ sd_link_ins d1) <-> In (l, true) (sd_links d) \/ In l (sd_link_ins d)).
    { intro l. rewrite in_app_iff. unfold d1, remove_missing; simpl. rewrite in_map_iff. split.
      - intros [[lp [E H]] | H]; [|auto]. apply filter_In in H. destruct H as [H Hp]. left. destruct lp as [l' p]; simpl in *. subst. exact H.
      - intros [H|H]; [|auto]. left. exists (l, true). split; [reflexivity|]. apply filter_In. auto. }
    assert (Hdr : forall n, In n (map fst (sd_dirs d1) ++ sd_dir_ins d1) <-> In (n, true) (sd_dirs d) \/ In n (sd_dir_ins d)).
    { intro n. rewrite in_app_iff. unfold d1, remove_missing; simpl. rewrite in_map_iff. split.
      - intros [[np [E H]] | H]; [|auto]. apply filter_In in H. destruct H as [H Hp]. left. destruct np as [n' p]; simpl in *. subst. exact H.
      - intros [H|H]; [|auto]. left. exists (n, true). split; [reflexivity|]. apply filter_In. auto. }
    constructor; simpl.
    - intros f Hf. apply in_app_iff in Hf. destruct Hf as [Hf|Hf].
      + apply (proj1 (Hkept f)) in Hf. destruct Hf as [sf [Hsf [Hp E]]]. subst f. destruct (di_present0 sf Hsf Hp) as [_ H]. exact H.
      + destruct (Hadd1 f Hf) as [fk [Hfk [SA _]]]. destruct (di_ins0 fk Hfk) as [[e [He [Hk Hm]]] _].
        exists e. repeat split; auto; eapply ematch_attrs; eauto.
    - intros e He Hk. destruct (di_seen0 e He Hk) as [[sf [Hsf [Hp Hm]]] | [[fk [Hfk Hm]] | [l [Hl Hm]]]].
      + left. exists (sf_f sf). split; [|exact Hm]. apply in_app_iff. left. apply (proj2 (Hkept _)). eauto.
      + left. destruct (Hadd2 fk Hfk) as [f' [Hf' SA]]. exists f'. split; [apply in_app_iff; auto | eapply ematch_attrs; eauto].
      + right. exists l. split; [apply (proj2 (Hlk l)); exact Hl | exact Hm].
    - intros l Hl. apply (proj1 (Hlk l)) in Hl. destruct Hl as [Hl|Hl]; [apply (di_links0 (l, true) Hl eq_refl) | apply di_link_ins0; exact Hl].
    - intros e He Hk. destruct (di_sym0 e He Hk) as [l [Hl Hm]]. exists l. split; [apply (proj2 (Hlk l)); exact Hl | exact Hm].
    - intros n Hn. apply (proj1 (Hdr n)) in Hn. destruct Hn as [Hn|Hn]; [apply (di_dirs0 (n, true) Hn eq_refl) | apply di_dir_ins0; exact Hn].
    - intros e He Hk. apply (proj2 (Hdr _)). apply di_dir_seen0; auto.
    - intros f Hf [b [Hb Hs]]. apply in_app_iff in Hf. destruct Hf as [Hf|Hf].
      + apply (proj1 (Hkept f)) in Hf. destruct Hf as [sf [Hsf [Hp E]]]. subst f.
        destruct (di_origin0 sf Hsf) as [f0 [Hf0 O]]. unfold origin in O. rewrite Hp in O.
        destruct O as [O1 [O2 [O3 [Oc [O4 O5]]]]]. exists f0. repeat split; auto.
      + destruct (Hadd1 f Hf) as [fk [_ [_ NB]]]. exfalso. exact (NB b Hb Hs).
  Qed.

  (* --- the whole scan ----------------------------------------------------------------------------------------------------- *)
  Lemma nth_map_combine_seq0 {A B} (G : nat * A -> B) (l : list A) (dA : A) (dB : B) k :
    k < length l -> nth k (map G (combine (seq 0 (length l)) l)) dB = G (k, nth k l dA).
  Proof.
    intro H. rewrite (nth_indep _ dB (G (0, dA))) by (rewrite map_length, combine_length, seq_length; lia).
    rewrite (map_nth G). rewrite combine_nth by (rewrite seq_length; reflexivity). rewrite seq_nth by exact H. reflexivity.
  Qed.

  Lemma nth_map_opt {A B} (g : A -> B) (l : list (option A)) k :
    nth k (map (fun o => match o with Some x => Some (g x) | None => None end) l) None
    = match nth k l None with Some x => Some (g x) | None => None end.
  Proof.
    revert k. induction l as [|x t IH]; intro k; simpl; [destruct k; reflexivity|]. destruct k; [reflexivity | apply IH].
  Qed.

  Theorem scan_disk_sound usable c listing o :
    scan basef bs clearpast nocopy inf usable c listing = Some o ->
    forall k d0, nth k (c_disks c) None = Some d0 ->
    exists dk, nth k (c_disks (sc_content o)) None = Some dk /\ disk_sound (nth k usable false) d0 (nth k listing []) dk.
  Proof.
    unfold scan. intro H.
    set (w0 := map (fun kd : nat * option cdisk => match snd kd with Some d => Some (prepare (nth (fst kd) usable false) d) | None => None end)
                   (combine (seq 0 (length (c_disks c))) (c_disks c))) in *.
    destruct (phase1 basef bs clearpast nocopy inf usable listing w0) as [w|] eqn:E; [|discriminate].
    inversion H; subst o; clear H. simpl. intros k d0 Hk.
    assert (Hlt : k < length (c_disks c)) by (eapply nth_Some_lt; eauto).
    assert (Hw0 : nth k w0 None = Some (prepare (nth k usable false) d0)).
    { unfold w0. rewrite (nth_map_combine_seq0 _ _ None None) by exact Hlt. simpl. rewrite Hk. reflexivity. }
    assert (Hlen : length w0 = length (c_disks c)).
    { unfold w0. rewrite map_length, combine_length, seq_length. lia. }
    unfold phase1 in E.
    destruct (phase1_gen (fun k => nth k usable false) (fun k => nth k listing []) (seq 0 (length w0)) w0 w (seq_NoDup _ _) E) as [L1 [_ G]].
    destruct (G k) with (d := prepare (nth k usable false) d0) (d0 := d0) as [d' [A B]].
    - apply in_seq. lia.
    - exact Hw0.
    - apply dinv_init.
    - exists (fst (finish_disk clearpast inf d')). split.
      + rewrite (nth_map_opt fst). rewrite (nth_map_opt (finish_disk clearpast inf)). rewrite A. reflexivity.
      + apply finish_sound. exact B.
  Qed.
  (* the identity rule seen from the listing: a file that keeps a BLK block records an entry e of the listing whose size, seconds
     AND nanoseconds are those of the old record (only an old nanosecond field that is "unknown" (-1) accepts any value), found
     under the same path or, with usable inodes, the same inode *)
  Lemma identity_needs_stamp usable d0 L dk :
    disk_sound usable d0 L dk ->
    forall f, In f (cd_files dk) -> (exists b, In b (cf_blocks f) /\ fb_state b = SBlk) ->
    exists e f0, In e L /\ le_kind e = LFile /\ ematch e f /\ In f0 (cd_files d0) /\ cf_blocks f = cf_blocks f0 /\
                 le_size e = cf_size f0 /\ le_mtime e = cf_mtime f0 /\ (le_nsec e = cf_nsec f0 \/ cf_nsec f0 = (-1)%Z) /\
                 (le_name e = cf_name f0 \/ (usable = true /\ le_inode e = cf_inode f0)).
  Proof.
    intros S f Hf Hb. destruct (ds_files _ _ _ _ S f Hf) as [e [He [Hk Hm]]].
    destruct (ds_blk _ _ _ _ S f Hf Hb) as [f0 [Hf0 [B [Sz [Mt [_ [Ns Id]]]]]]].
    pose proof Hm as [Mn [Ms [Mm [Mns Mi]]]].
    exists e, f0. split; [exact He|]. split; [exact Hk|]. split; [exact Hm|]. split; [exact Hf0|]. split; [exact B|].
    split; [congruence|]. split; [congruence|]. split.
    - destruct Ns as [Ns|Ns]; [left; congruence | right; exact Ns].
    - destruct Id as [Id|[U Id]]; [left; congruence | right; split; [exact U | congruence]].
  Qed.

  (* C19 identity_keeps, extracted from disk_sound *)
  Theorem identity_keeps usable c listing o :
    scan basef bs clearpast nocopy inf usable c listing = Some o ->
    forall k d0, nth k (c_disks c) None = Some d0 ->
    exists dk, nth k (c_disks (sc_content o)) None = Some dk /\
    forall f, In f (cd_files dk) -> (exists b, In b (cf_blocks f) /\ fb_state b = SBlk) ->
    exists f0, In f0 (cd_files d0) /\ cf_blocks f = cf_blocks f0 /\ cf_size f = cf_size f0 /\ cf_mtime f = cf_mtime f0 /\
               cf_copy f = cf_copy f0 /\ (cf_nsec f = cf_nsec f0 \/ cf_nsec f0 = (-1)%Z) /\
               (cf_name f = cf_name f0 \/ (nth k usable false = true /\ cf_inode f = cf_inode f0)).
  Proof.
    intros H k d0 Hk. destruct (scan_disk_sound usable c listing o H k d0 Hk) as [dk [A B]].
    exists dk. split; [exact A | exact (ds_blk _ _ _ _ B)].
  Qed.
End Sound.
