(* What one call of scan_file / scan_link / scan_emptydir does to the disk being scanned, as a relation with few cases
   (the invariants of ScanProofs.v are proved by cases on it instead of on the fifteen paths of the code). *)
From Coq Require Import NArith ZArith List Bool Arith Lia.
From Snap.Array Require Import ArrayDefs SyncModel.
From Snap.Scan Require Import ScanModel ScanBasics.
Import ListNotations.

Section Steps.
  Variables (basef : N -> N) (bs : N) (clearpast nocopy : bool) (inf : list (option info)).

  Lemma attrs_same_spec f e :
    attrs_same f e = true -> cf_size f = le_size e /\ cf_mtime f = le_mtime e /\ (cf_nsec f = le_nsec e \/ cf_nsec f = (-1)%Z).
  Proof.
    unfold attrs_same. intro H. apply andb_true_iff in H. destruct H as [H H3]. apply andb_true_iff in H. destruct H as [H1 H2].
    apply N.eqb_eq in H1. apply Z.eqb_eq in H2. apply orb_true_iff in H3. repeat split; auto.
    destruct H3 as [H3|H3]; apply Z.eqb_eq in H3; auto.
  Qed.

  Lemma upd_nsec_spec f e :
    (cf_nsec f = le_nsec e \/ cf_nsec f = (-1)%Z) ->
    cf_nsec (upd_nsec f e) = le_nsec e /\ cf_name (upd_nsec f e) = cf_name f /\ cf_size (upd_nsec f e) = cf_size f /\
    cf_mtime (upd_nsec f e) = cf_mtime f /\ cf_inode (upd_nsec f e) = cf_inode f /\ cf_copy (upd_nsec f e) = cf_copy f /\
    cf_blocks (upd_nsec f e) = cf_blocks f.
  Proof.
    intro H. unfold upd_nsec. destruct (Z.eqb (cf_nsec f) (-1)) eqn:E; simpl; repeat split; auto.
    destruct H as [H|H]; [exact H|]. apply Z.eqb_neq in E. contradiction.
  Qed.

  (* the file sf (not yet seen in this scan) is recognised as the entry e and becomes f' *)
  Definition reident (usable : bool) (e : lentry) (sf : sfile) (f' : cfile) : Prop :=
    let f := sf_f sf in
    cf_blocks f' = cf_blocks f /\ cf_size f' = cf_size f /\ cf_mtime f' = cf_mtime f /\ cf_copy f' = cf_copy f /\
    cf_size f = le_size e /\ cf_mtime f = le_mtime e /\ (cf_nsec f = le_nsec e \/ cf_nsec f = (-1)%Z) /\
    cf_nsec f' = le_nsec e /\ cf_name f' = le_name e /\
    ((sf_noinode sf = false /\ cf_inode f = le_inode e /\ cf_inode f' = le_inode e)
     \/ (cf_name f = le_name e /\ (cf_inode f' = le_inode e \/ (usable = false /\ sf_noinode sf = false /\ cf_inode f' = cf_inode f)))).

  (* "a previously used inode": the stored inode of a not yet seen file is forgotten *)
  Definition kicked (d dk : sdisk) : Prop :=
    dk = d \/
    exists pre sf post, sd_files d = pre ++ sf :: post /\ sf_present sf = false /\ sf_noinode sf = false /\
                        dk = sd_set_files d (pre ++ mkSF (cf_set_inode (sf_f sf) 0) false true :: post).

  (* scan_file_remove of the not yet seen file with the path of e, if there is one *)
  Definition removed (e : lentry) (dk d1 : sdisk) (was : bool) : Prop :=
    (was = false /\ d1 = dk /\ (forall sf, In sf (sd_files dk) -> cf_name (sf_f sf) <> le_name e)) \/
    (was = true /\ exists pre sf post f1, sd_files dk = pre ++ sf :: post /\ sf_present sf = false /\ cf_name (sf_f sf) = le_name e /\
                  cf_blocks f1 = cf_blocks (sf_f sf) /\
                  d1 = mkSD (pre ++ post) (sd_ins dk) (dealloc clearpast f1 (sd_deleted dk)) (sd_links dk) (sd_link_ins dk) (sd_dirs dk) (sd_dir_ins dk) (sd_cnt dk)).

  Definition same_but_cnt (a b : sdisk) : Prop :=
    sd_files a = sd_files b /\ sd_ins a = sd_ins b /\ sd_deleted a = sd_deleted b /\ sd_links a = sd_links b /\
    sd_link_ins a = sd_link_ins b /\ sd_dirs a = sd_dirs b /\ sd_dir_ins a = sd_dir_ins b.

  Inductive fstep (usable : bool) (e : lentry) (w : world) (k : nat) (d d' : sdisk) : Prop :=
  | FLink (target : N) :
      le_nlink e <> 1%N -> scan_link d (le_name e) target true = Some d' -> fstep usable e w k d d'
  | FKeep (dk dc : sdisk) pre sf post f' :
      kicked d dk -> sd_files dk = pre ++ sf :: post -> sf_present sf = false -> reident usable e sf f' ->
      same_but_cnt dc dk ->
      d' = keep clearpast inf dc pre (mkSF f' true false) post (le_key e) -> fstep usable e w k d d'
  | FNew (dk d1 : sdisk) (was : bool) (src : option cfile) (cnt : counters) :
      kicked d dk -> removed e dk d1 was ->
      src = (if nocopy then None else copy_search basef inf e (set_disk k d1 w)) ->
      d' = mkSD (sd_files d1) (sd_ins d1 ++ [(new_file bs e src, le_key e)]) (sd_deleted d1)
                (sd_links d1) (sd_link_ins d1) (sd_dirs d1) (sd_dir_ins d1) cnt ->
      fstep usable e w k d d'.

  Lemma same_but_cnt_set d c : same_but_cnt (sd_set_cnt d c) d.
  Proof. unfold same_but_cnt, sd_set_cnt; simpl. repeat split. Qed.

  Lemma hardlink_fstep usable e w k d target d' :
    hardlink d e target = Some d' -> fstep usable e w k d d'.
  Proof.
    unfold hardlink. destruct (N.eqb (le_nlink e) 1) eqn:E; [discriminate|]. intro H.
    apply N.eqb_neq in E. eapply FLink; eauto.
  Qed.

  Lemma insert_new_fstep usable e w k d dk d1 was w' :
    kicked d dk -> removed e dk d1 was ->
    insert_new basef bs nocopy inf k w d1 e was = Some w' ->
    exists d', w' = set_disk k d' w /\ fstep usable e w k d d'.
  Proof.
    intros Hk Hr H. unfold insert_new in H. inversion H; subst w'; clear H.
    eexists. split; [reflexivity|]. eapply FNew; eauto.
  Qed.

  Lemma by_name_fstep usable e w k d dk w' :
    kicked d dk ->
    by_name basef bs clearpast nocopy inf usable k w dk e = Some w' ->
    exists d', w' = set_disk k d' w /\ fstep usable e w k d d'.
  Proof.
    intros Hk H. unfold by_name in H.
    destruct (split_first (fun sf => N.eqb (cf_name (sf_f sf)) (le_name e)) (sd_files dk)) as [[[pre sf] post]|] eqn:Es.
    - apply split_first_spec in Es. destruct Es as [Ef [Hn Hpre]]. apply N.eqb_eq in Hn.
      destruct (negb (sf_noinode sf) && N.eqb (cf_inode (sf_f sf)) (le_inode e)) eqn:Eab; [discriminate|].
      destruct (sf_present sf) eqn:Ep; [discriminate|].
      set (f1 := if sf_noinode sf then cf_set_inode (sf_f sf) (le_inode e) else sf_f sf) in *.
      assert (Hf1 : cf_blocks f1 = cf_blocks (sf_f sf) /\ cf_size f1 = cf_size (sf_f sf) /\ cf_mtime f1 = cf_mtime (sf_f sf) /\
                    cf_nsec f1 = cf_nsec (sf_f sf) /\ cf_name f1 = cf_name (sf_f sf) /\ cf_copy f1 = cf_copy (sf_f sf) /\
                    (cf_inode f1 = le_inode e \/ (sf_noinode sf = false /\ cf_inode f1 = cf_inode (sf_f sf)))).
      { unfold f1. destruct (sf_noinode sf); simpl; repeat split; auto. }
      destruct Hf1 as [Hb [Hsz [Hmt [Hns [Hnm [Hcp Hin]]]]]].
      destruct (attrs_same f1 e) eqn:Ea.
      + inversion H; subst w'; clear H.
        eexists. split; [reflexivity|].
        apply attrs_same_spec in Ea. destruct Ea as [A1 [A2 A3]].
        destruct (upd_nsec_spec f1 e A3) as [U1 [U2 [U3 [U4 [U5 [U6 U7]]]]]].
        eapply FKeep with (dk := dk) (sf := sf); [exact Hk | exact Ef | exact Ep | | apply same_but_cnt_set | reflexivity].
        unfold reident. simpl.
        destruct usable; simpl.
        * repeat split; try congruence. right. split; [exact Hn|]. left. reflexivity.
        * repeat split; try congruence. right. split; [exact Hn|].
          destruct Hin as [Hin|[Hin1 Hin2]]; [left; congruence | right; repeat split; congruence].
      + eapply insert_new_fstep; [exact Hk | | exact H].
        right. split; [reflexivity|]. exists pre, sf, post, f1. repeat split; auto.
    - destruct (existsb (fun fk => N.eqb (cf_name (fst fk)) (le_name e)) (sd_ins dk)); [discriminate|].
      eapply insert_new_fstep; [exact Hk | | exact H].
      left. repeat split. intros sf Hsf Hc. pose proof (split_first_none _ _ Es sf Hsf) as Hx. simpl in Hx.
      apply N.eqb_neq in Hx. contradiction.
  Qed.

  Lemma scan_file_fstep usable e w k d w' :
    scan_file basef bs clearpast nocopy inf usable k w d e = Some w' ->
    exists d', w' = set_disk k d' w /\ fstep usable e w k d d'.
  Proof.
    intro H. unfold scan_file in H.
    destruct (split_first (fun sf => negb (sf_noinode sf) && N.eqb (cf_inode (sf_f sf)) (le_inode e)) (sd_files d)) as [[[pre sf] post]|] eqn:Es.
    - apply split_first_spec in Es. destruct Es as [Ef [Hn Hpre]].
      apply andb_true_iff in Hn. destruct Hn as [Hn1 Hn2]. apply negb_true_iff in Hn1. apply N.eqb_eq in Hn2.
      destruct (attrs_same (sf_f sf) e) eqn:Ea.
      + destruct (sf_present sf) eqn:Ep.
        * destruct (hardlink d e (cf_name (sf_f sf))) as [d'|] eqn:Eh; [|discriminate]. inversion H; subst.
          eexists; split; [reflexivity|]. eapply hardlink_fstep; eauto.
        * inversion H; subst w'; clear H. eexists; split; [reflexivity|].
          apply attrs_same_spec in Ea. destruct Ea as [A1 [A2 A3]].
          destruct (upd_nsec_spec (sf_f sf) e A3) as [U1 [U2 [U3 [U4 [U5 [U6 U7]]]]]].
          eapply FKeep with (dk := d) (sf := sf); [left; reflexivity | exact Ef | exact Ep | | apply same_but_cnt_set | reflexivity].
          unfold reident. simpl.
          destruct (negb (N.eqb (cf_name (upd_nsec (sf_f sf) e)) (le_name e))) eqn:Em; simpl.
          -- repeat split; try congruence. left. repeat split; congruence.
          -- apply negb_false_iff in Em. apply N.eqb_eq in Em.
             repeat split; try congruence. left. repeat split; congruence.
      + destruct (sf_present sf) eqn:Ep.
        * destruct (hardlink d e (cf_name (sf_f sf))) as [d'|] eqn:Eh; [|discriminate]. inversion H; subst.
          eexists; split; [reflexivity|]. eapply hardlink_fstep; eauto.
        * eapply by_name_fstep; [|exact H]. right. exists pre, sf, post. repeat split; auto.
    - destruct (find (fun fk => N.eqb (cf_inode (fst fk)) (le_inode e)) (sd_ins d)) as [fk|] eqn:Ei.
      + destruct (hardlink d e (cf_name (fst fk))) as [d'|] eqn:Eh; [|discriminate]. inversion H; subst.
        eexists; split; [reflexivity|]. eapply hardlink_fstep; eauto.
      + eapply by_name_fstep; [|exact H]. left; reflexivity.
  Qed.

  (* --- scan_link / scan_emptydir --------------------------------------------------------------------------------- *)
  (* files, insert list and DELETED blocks untouched; the link `name -> to` is present afterwards; other links keep
     their data and can only gain the PRESENT mark *)
  Lemma scan_link_spec d name to hard d' :
    scan_link d name to hard = Some d' ->
    sd_files d' = sd_files d /\ sd_ins d' = sd_ins d /\ sd_deleted d' = sd_deleted d /\ sd_dirs d' = sd_dirs d /\ sd_dir_ins d' = sd_dir_ins d /\
    ((In (mkCL name to hard, true) (sd_links d') /\ sd_link_ins d' = sd_link_ins d) \/
     (sd_link_ins d' = sd_link_ins d ++ [mkCL name to hard] /\ sd_links d' = sd_links d)) /\
    (forall lp, In lp (sd_links d') -> In lp (sd_links d) \/ (snd lp = true /\ cl_name (fst lp) = name /\ cl_to (fst lp) = to /\ cl_hard (fst lp) = hard)) /\
    (forall lp, In lp (sd_links d) -> snd lp = true -> In lp (sd_links d')) /\
    (forall l, In l (sd_link_ins d) -> In l (sd_link_ins d')).
  Proof.
    unfold scan_link. intro H.
    destruct (split_first (fun lp => N.eqb (cl_name (fst lp)) name) (sd_links d)) as [[[pre [l present]] post]|] eqn:Es.
    - apply split_first_spec in Es. destruct Es as [Ef [Hn Hpre]]. simpl in Hn. apply N.eqb_eq in Hn.
      destruct present; [discriminate|].
      destruct (N.eqb (cl_to l) to && Bool.eqb (cl_hard l) hard) eqn:Eq; inversion H; subst d'; clear H; simpl.
      + apply andb_true_iff in Eq. destruct Eq as [Q1 Q2]. apply N.eqb_eq in Q1. apply Bool.eqb_prop in Q2.
        assert (El : l = mkCL name to hard) by (destruct l; simpl in *; congruence).
        repeat split; auto.
        * left. split; [|reflexivity]. apply in_app3. right; left. congruence.
        * intros lp Hlp. apply in_app3 in Hlp. rewrite Ef. destruct Hlp as [Hlp|[Hlp|Hlp]].
          -- left. apply in_app3. auto.
          -- right. subst lp. simpl. subst l. simpl. auto.
          -- left. apply in_app3. auto.
        * intros lp Hlp Hp. rewrite Ef in Hlp. apply in_app3 in Hlp. apply in_app3.
          destruct Hlp as [Hlp|[Hlp|Hlp]]; auto. subst lp. simpl in Hp. discriminate.
      + repeat split; auto.
        * left. split; [|reflexivity]. apply in_app3. right; left. reflexivity.
        * intros lp Hlp. apply in_app3 in Hlp. rewrite Ef. destruct Hlp as [Hlp|[Hlp|Hlp]].
          -- left. apply in_app3. auto.
          -- right. subst lp. simpl. auto.
          -- left. apply in_app3. auto.
        * intros lp Hlp Hp. rewrite Ef in Hlp. apply in_app3 in Hlp. apply in_app3.
          destruct Hlp as [Hlp|[Hlp|Hlp]]; auto. subst lp. simpl in Hp. discriminate.
    - inversion H; subst d'; clear H; simpl. repeat split; auto.
      intros l Hl. apply in_app_iff. auto.
  Qed.

  Lemma scan_emptydir_spec d name d' :
    scan_emptydir d name = Some d' ->
    sd_files d' = sd_files d /\ sd_ins d' = sd_ins d /\ sd_deleted d' = sd_deleted d /\ sd_links d' = sd_links d /\ sd_link_ins d' = sd_link_ins d /\
    sd_cnt d' = sd_cnt d /\
    (In (name, true) (sd_dirs d') \/ In name (sd_dir_ins d')) /\
    (forall np, In np (sd_dirs d') -> In np (sd_dirs d) \/ np = (name, true)) /\
    (forall np, In np (sd_dirs d) -> snd np = true -> In np (sd_dirs d')) /\
    (forall n, In n (sd_dir_ins d') -> In n (sd_dir_ins d) \/ n = name) /\
    (forall n, In n (sd_dir_ins d) -> In n (sd_dir_ins d')).
  Proof.
    unfold scan_emptydir. intro H.
    destruct (split_first (fun np => N.eqb (fst np) name) (sd_dirs d)) as [[[pre [n present]] post]|] eqn:Es.
    - apply split_first_spec in Es. destruct Es as [Ef [Hn Hpre]]. simpl in Hn. apply N.eqb_eq in Hn. subst n.
      destruct present; [discriminate|]. inversion H; subst d'; clear H; simpl.
      repeat split; auto.
      + left. apply in_app3. auto.
      + intros np Hnp. apply in_app3 in Hnp. rewrite Ef. destruct Hnp as [Hnp|[Hnp|Hnp]]; auto.
        * left. apply in_app3. auto.
        * left. apply in_app3. auto.
      + intros np Hnp Hp. rewrite Ef in Hnp. apply in_app3 in Hnp. apply in_app3.
        destruct Hnp as [Hnp|[Hnp|Hnp]]; auto. subst np. simpl in Hp. discriminate.
    - inversion H; subst d'; clear H; simpl. repeat split; auto.
      + right. apply in_app_iff. right. left. reflexivity.
      + intros n Hn. apply in_app_iff in Hn. destruct Hn as [Hn|[Hn|[]]]; auto.
      + intros n Hn. apply in_app_iff. auto.
  Qed.
End Steps.
