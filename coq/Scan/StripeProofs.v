(* C19 rep_verified_before_blk: in one iteration of the sync loop (Array/SyncModel.sync_stripe) a REP or CHG block
   becomes BLK only if it was read in that iteration and its hash compared equal (REP) or was computed and stored (CHG);
   a REP block whose data does not hash to the inherited value counts an error, the stripe is not completed and no
   parity is written for it. *)
From Coq Require Import NArith ZArith List Bool Arith Lia.
From Snap.Array Require Import ArrayDefs SyncModel.
From Snap.Scan Require Import ScanBasics ScanSound.
Import ListNotations.

Lemma hval_eqb_true a b : hval_eqb a b = true <-> a = b.
Proof.
  destruct a, b; simpl; split; intro H; try discriminate; try reflexivity.
  - apply N.eqb_eq in H. congruence.
  - inversion H. apply N.eqb_refl.
Qed.

Section Stripe.
  Variable hashf : bid -> N -> hval.
  Variable bs : N.
  Variable nlev : nat.
  Variable o : sopts.
  Variable iob : nat.

  Notation step := (disk_step hashf bs o iob).

  Definition good (a : acc) : Prop := a_bail a = false /\ a_err a = false /\ a_io a = false.

  (* the outcome of one disk does not stop the stripe *)
  Definition benign (x : nat * slot * rd) : Prop :=
    match x with
    | (_, SFile f idx b, r) =>
        match r with
        | RdOk blk len => fb_state b = SRep -> hashf blk len = fb_hash b
        | RdNone => True
        | _ => False
        end
    | _ => True
    end.

  Lemma step_good_back a x : good (step a x) -> good a /\ benign x.
  Proof.
    destruct x as [[j s] r]. unfold good. unfold disk_step.
    destruct (a_bail a) eqn:Eb; [intros [H _]; congruence|].
    destruct s as [|f idx b|h]; cbn -[Nat.leb].
    1,3: intros (H1 & H2 & H3); repeat split; auto.
    destruct (fb_state b) eqn:Es; cbn -[Nat.leb]; destruct r as [|blk len| | |]; cbn -[Nat.leb];
      repeat match goal with |- context [if ?c then _ else _] => destruct c eqn:?; cbn -[Nat.leb] end;
      intros (H1 & H2 & H3); try discriminate; repeat split; auto; try (intro; discriminate);
      try (intros _; apply hval_eqb_true; assumption).
  Qed.

  Lemma fold_good_back xs : forall a, good (fold_left step xs a) -> good a /\ forall x, In x xs -> benign x.
  Proof.
    induction xs as [|x t IH]; simpl; intros a H; [split; [exact H | intros ? []]|].
    destruct (IH _ H) as [G B]. destruct (step_good_back a x G) as [Ga Bx].
    split; [exact Ga|]. intros y [Hy|Hy]; [subst; exact Bx | exact (B y Hy)].
  Qed.

  (* error counter: never decreases; a REP mismatch or an unreadable file met while not bailing adds one and sets the flag *)
  Lemma step_nerr_mono a x : a_nerr a <= a_nerr (step a x).
  Proof.
    destruct x as [[j s] r]. unfold disk_step. destruct (a_bail a); [lia|].
    destruct s as [|f idx b|h]; simpl; [lia| |lia].
    destruct (negb (bstate_eqb (fb_state b) SBlk)); destruct r as [|blk len| | |]; simpl; try lia;
      try (destruct (o_io_error_limit o <=? iob + S (a_nio a))%nat; simpl; lia);
      destruct (fb_state b); simpl; try lia; destruct (hval_eqb (hashf blk len) (fb_hash b)); simpl; lia.
  Qed.
  Lemma fold_nerr_mono xs : forall a, a_nerr a <= a_nerr (fold_left step xs a).
  Proof. induction xs as [|x t IH]; simpl; intro a; [lia|]. pose proof (step_nerr_mono a x). pose proof (IH (step a x)). lia. Qed.

  Lemma step_err_sticky a x : a_bail (step a x) = false -> a_err a = true -> a_err (step a x) = true.
  Proof.
    destruct x as [[j s] r]. unfold disk_step. destruct (a_bail a) eqn:Eb; [congruence|].
    destruct s as [|f idx b|h]; simpl; auto.
    destruct (negb (bstate_eqb (fb_state b) SBlk)); destruct r as [|blk len| | |]; simpl; auto;
      try (destruct (o_io_error_limit o <=? iob + S (a_nio a))%nat; simpl; auto; discriminate);
      destruct (fb_state b); simpl; auto; destruct (hval_eqb (hashf blk len) (fb_hash b)); simpl; auto.
  Qed.
  Lemma step_bail_sticky a x : a_bail a = true -> a_bail (step a x) = true.
  Proof. destruct x as [[j s] r]. unfold disk_step. intro H. rewrite H. exact H. Qed.
  Lemma fold_bail_sticky xs : forall a, a_bail a = true -> a_bail (fold_left step xs a) = true.
  Proof. induction xs as [|x t IH]; simpl; intros a H; [exact H|]. apply IH. apply step_bail_sticky. exact H. Qed.
  Lemma fold_err_sticky xs : forall a, a_bail (fold_left step xs a) = false -> a_err a = true -> a_err (fold_left step xs a) = true.
  Proof.
    induction xs as [|x t IH]; simpl; intros a Hb He; [exact He|].
    apply IH; [exact Hb|]. apply step_err_sticky; [|exact He].
    destruct (a_bail (step a x)) eqn:E; [|reflexivity]. rewrite (fold_bail_sticky t _ E) in Hb. discriminate.
  Qed.

  (* a REP block whose data does not hash to the recorded (inherited) value *)
  Lemma step_mismatch a j f idx b blk len :
    a_bail a = false -> fb_state b = SRep -> hashf blk len <> fb_hash b ->
    let a' := step a (j, SFile f idx b, RdOk blk len) in a_bail a' = false /\ a_err a' = true /\ a_nerr a' = S (a_nerr a).
  Proof.
    intros Hb Hs Hne. unfold disk_step. rewrite Hb. simpl. rewrite Hs. simpl.
    destruct (hval_eqb (hashf blk len) (fb_hash b)) eqn:E; [apply hval_eqb_true in E; contradiction|]. simpl. auto.
  Qed.

  Lemma fold_mismatch xs : forall a j f idx b blk len,
    In (j, SFile f idx b, RdOk blk len) xs -> fb_state b = SRep -> hashf blk len <> fb_hash b ->
    let a' := fold_left step xs a in a_bail a' = true \/ (a_err a' = true /\ 1 <= a_nerr a').
  Proof.
    induction xs as [|x t IH]; simpl; intros a j f idx b blk len Hin Hs Hne; [destruct Hin|].
    destruct Hin as [Hx|Hin]; [|eapply IH; eauto].
    subst x. destruct (a_bail a) eqn:Eb.
    - left. apply fold_bail_sticky. apply step_bail_sticky. exact Eb.
    - destruct (step_mismatch a j f idx b blk len Eb Hs Hne) as [B [E N]].
      destruct (a_bail (fold_left step t (step a (j, SFile f idx b, RdOk blk len)))) eqn:Ef; [left; reflexivity|].
      right. split; [apply fold_err_sticky; assumption|].
      pose proof (fold_nerr_mono t (step a (j, SFile f idx b, RdOk blk len))). lia.
  Qed.

  (* the hash copied into a CHG block *)
  Definition nh_of (x : nat * slot * rd) : list (nat * hval) :=
    match x with
    | (j, SFile f idx b, RdOk blk len) => match fb_state b with SChg => [(j, hashf blk len)] | _ => [] end
    | _ => []
    end.
  Lemma step_newhash a x : a_bail (step a x) = false -> a_newhash (step a x) = nh_of x ++ a_newhash a.
  Proof.
    destruct x as [[j s] r]. unfold disk_step. destruct (a_bail a) eqn:Eb; [congruence|].
    destruct s as [|f idx b|h]; simpl; auto.
    destruct (negb (bstate_eqb (fb_state b) SBlk)); destruct r as [|blk len| | |]; simpl; auto;
      try (destruct (o_io_error_limit o <=? iob + S (a_nio a))%nat; simpl; auto; discriminate);
      destruct (fb_state b); simpl; auto; destruct (hval_eqb (hashf blk len) (fb_hash b)); simpl; auto.
  Qed.
  Lemma fold_newhash xs : forall a, a_bail (fold_left step xs a) = false ->
    a_newhash (fold_left step xs a) = flat_map nh_of (rev xs) ++ a_newhash a.
  Proof.
    induction xs as [|x t IH]; simpl; intros a Hb; [reflexivity|].
    rewrite (IH _ Hb). rewrite step_newhash.
    - rewrite flat_map_app. simpl. rewrite app_nil_r. rewrite <- app_assoc. reflexivity.
    - destruct (a_bail (step a x)) eqn:E; [|reflexivity]. rewrite (fold_bail_sticky t _ E) in Hb. discriminate.
  Qed.

  Lemma find_flat_nh xs j f idx b blk len :
    NoDup (map (fun x : nat * slot * rd => fst (fst x)) xs) ->
    In (j, SFile f idx b, RdOk blk len) xs -> fb_state b = SChg ->
    find (fun jh : nat * hval => Nat.eqb (fst jh) j) (flat_map nh_of xs) = Some (j, hashf blk len).
  Proof.
    induction xs as [|x t IH]; simpl; intros ND Hin Hs; [destruct Hin|].
    inversion ND as [|k l Hnot ND']; subst. destruct Hin as [Hx|Hin].
    - subst x. simpl. rewrite Hs. simpl. rewrite Nat.eqb_refl. reflexivity.
    - assert (Hj : fst (fst x) <> j).
      { intro E. apply Hnot. rewrite E. apply in_map_iff. exists (j, SFile f idx b, RdOk blk len). auto. }
      assert (Hx : find (fun jh : nat * hval => Nat.eqb (fst jh) j) (nh_of x) = None).
      { destruct x as [[j' s'] r']. simpl in Hj. unfold nh_of. destruct s' as [|f' i' b'|]; auto. destruct r'; auto.
        destruct (fb_state b'); auto. simpl. apply Nat.eqb_neq in Hj. rewrite Hj. reflexivity. }
      assert (G : forall l1 l2, find (fun jh : nat * hval => Nat.eqb (fst jh) j) l1 = None ->
                                find (fun jh : nat * hval => Nat.eqb (fst jh) j) (l1 ++ l2) = find (fun jh : nat * hval => Nat.eqb (fst jh) j) l2).
      { induction l1 as [|y l1 IHl]; simpl; intros l2 H; [reflexivity|]. destruct (Nat.eqb (fst y) j); [discriminate | apply IHl; exact H]. }
      rewrite G by exact Hx. apply IH; assumption.
  Qed.

  (* --- slot_at under the two disk updates --------------------------------------------------------------------------- *)
  Lemma find_in_file_map (g : fblock -> fblock) (Hg : forall b, fb_pos (g b) = fb_pos b) pos bl : forall idx,
    find_in_file pos idx (map g bl) = match find_in_file pos idx bl with Some (i, b) => Some (i, g b) | None => None end.
  Proof. induction bl as [|b t IH]; simpl; intro idx; [reflexivity|]. rewrite Hg. destruct (Nat.eqb (fb_pos b) pos); [reflexivity | apply IH]. Qed.

  Definition mapf (g : fblock -> fblock) (f : cfile) : cfile :=
    mkCF (cf_name f) (cf_size f) (cf_mtime f) (cf_nsec f) (cf_inode f) (cf_copy f) (map g (cf_blocks f)).

  Lemma find_in_files_map (g : fblock -> fblock) (Hg : forall b, fb_pos (g b) = fb_pos b) pos fl :
    find_in_files pos (map (mapf g) fl) = match find_in_files pos fl with Some (f, i, b) => Some (mapf g f, i, g b) | None => None end.
  Proof.
    induction fl as [|f t IH]; simpl; [reflexivity|]. rewrite (find_in_file_map g Hg).
    destruct (find_in_file pos 0 (cf_blocks f)) as [[i b]|]; [reflexivity | exact IH].
  Qed.

  Lemma find_in_file_pos pos bl : forall idx i b, find_in_file pos idx bl = Some (i, b) -> fb_pos b = pos.
  Proof.
    induction bl as [|x t IH]; simpl; intros idx i b H; [discriminate|].
    destruct (Nat.eqb (fb_pos x) pos) eqn:E; [inversion H; subst; apply Nat.eqb_eq; exact E | eapply IH; eauto].
  Qed.
  Lemma slot_at_file_pos d pos f idx b : slot_at d pos = SFile f idx b -> fb_pos b = pos.
  Proof.
    unfold slot_at. destruct (find_in_files pos (cd_files d)) as [[[f' i'] b']|] eqn:E.
    - intro H; inversion H; subst. clear H. revert E. induction (cd_files d) as [|x t IH]; simpl; [discriminate|].
      destruct (find_in_file pos 0 (cf_blocks x)) as [[i2 b2]|] eqn:E2; [intro H; inversion H; subst; eapply find_in_file_pos; eauto | exact IH].
    - destruct (find_deleted pos (cd_deleted d)); discriminate.
  Qed.

  Definition gC (pos : nat) (nh : option hval) (b : fblock) : fblock :=
    if Nat.eqb (fb_pos b) pos then mkFB SBlk pos (match fb_state b, nh with SChg, Some h => h | _, _ => fb_hash b end) else b.
  Definition gS (pos : nat) (h : hval) (b : fblock) : fblock :=
    if Nat.eqb (fb_pos b) pos && bstate_eqb (fb_state b) SChg then mkFB SChg pos h else b.
  Lemma gC_pos pos nh b : fb_pos (gC pos nh b) = fb_pos b.
  Proof. unfold gC. destruct (Nat.eqb (fb_pos b) pos) eqn:E; [apply Nat.eqb_eq in E; simpl; congruence | reflexivity]. Qed.
  Lemma gS_pos pos h b : fb_pos (gS pos h b) = fb_pos b.
  Proof. unfold gS. destruct (Nat.eqb (fb_pos b) pos) eqn:E; simpl; [|reflexivity]. destruct (bstate_eqb (fb_state b) SChg); [apply Nat.eqb_eq in E; simpl; congruence | reflexivity]. Qed.

  Lemma complete_disk_slot pos nh d f idx b :
    slot_at d pos = SFile f idx b ->
    exists f', slot_at (complete_disk pos nh d) pos = SFile f' idx (mkFB SBlk pos (match fb_state b, nh with SChg, Some h => h | _, _ => fb_hash b end)).
  Proof.
    intro H. pose proof (slot_at_file_pos d pos f idx b H) as Hp. unfold slot_at in *.
    change (cd_files (complete_disk pos nh d)) with (map (mapf (gC pos nh)) (cd_files d)).
    rewrite (find_in_files_map (gC pos nh) (gC_pos pos nh)).
    destruct (find_in_files pos (cd_files d)) as [[[f0 i0] b0]|]; [|destruct (find_deleted pos (cd_deleted d)); discriminate].
    inversion H; subst. eexists. unfold gC. rewrite Nat.eqb_refl. reflexivity.
  Qed.

  Lemma skipped_disk_slot pos nh d f idx b :
    slot_at d pos = SFile f idx b ->
    exists f' b', slot_at (skipped_disk pos nh d) pos = SFile f' idx b' /\ fb_state b' = fb_state b /\ (fb_state b <> SChg -> b' = b).
  Proof. intro H. exists f, b. split; [exact H | split; auto]. Qed.

  (* --- the stripe ------------------------------------------------------------------------------------------------------- *)
  Lemma nth_combine3 (slots : list slot) (F : nat -> rd) j :
    j < length slots ->
    In (j, nth j slots SEmpty, F j) (combine (combine (seq 0 (length slots)) slots) (map F (seq 0 (length slots)))).
  Proof.
    intro H.
    assert (E : nth j (combine (combine (seq 0 (length slots)) slots) (map F (seq 0 (length slots)))) (0, SEmpty, F 0) = (j, nth j slots SEmpty, F j)).
    { rewrite combine_nth by (rewrite combine_length, map_length, seq_length; lia).
      rewrite combine_nth by (rewrite seq_length; reflexivity).
      rewrite seq_nth by exact H.
      rewrite (map_nth F). rewrite seq_nth by exact H. reflexivity. }
    rewrite <- E. apply nth_In. rewrite !combine_length, map_length, seq_length. lia.
  Qed.

  Lemma combine3_nodup (slots : list slot) (F : nat -> rd) :
    NoDup (map (fun x : nat * slot * rd => fst (fst x)) (combine (combine (seq 0 (length slots)) slots) (map F (seq 0 (length slots))))).
  Proof.
    assert (E : map (fun x : nat * slot * rd => fst (fst x)) (combine (combine (seq 0 (length slots)) slots) (map F (seq 0 (length slots)))) = seq 0 (length slots)).
    { generalize 0 as s. induction slots as [|x t IH]; simpl; intro s; [reflexivity|]. rewrite IH. reflexivity. }
    rewrite E. apply seq_NoDup.
  Qed.

  Lemma nth_disks_map (G : nat -> cdisk -> cdisk) (disks : list (option cdisk)) j d :
    nth j disks None = Some d ->
    nth j (map (fun jd : nat * option cdisk => match snd jd with Some d0 => Some (G (fst jd) d0) | None => None end)
               (combine (seq 0 (length disks)) disks)) None = Some (G j d).
  Proof.
    intro H. assert (Hlt : j < length disks) by (eapply nth_Some_lt; eauto).
    rewrite (nth_map_combine_seq0 _ _ None None) by exact Hlt. simpl. rewrite H. reflexivity.
  Qed.

  Lemma nth_slots (disks : list (option cdisk)) pos j d :
    nth j disks None = Some d ->
    nth j (map (fun od : option cdisk => match od with Some d => slot_at d pos | None => SEmpty end) disks) SEmpty = slot_at d pos.
  Proof.
    revert j. induction disks as [|x t IH]; intros j H; [destruct j; discriminate|].
    destruct j; simpl in *; [rewrite H; reflexivity | apply IH; exact H].
  Qed.

  Theorem rep_verified_before_blk now c par fs faults pos j d f idx b :
    nth j (c_disks c) None = Some d -> slot_at d pos = SFile f idx b -> fb_state b <> SBlk ->
    nth j faults None <> Some RdNone ->
    let r := sync_stripe hashf bs nlev o now iob c par fs faults pos in
    forall d' f' idx' b', nth j (c_disks (so_content r)) None = Some d' -> slot_at d' pos = SFile f' idx' b' -> fb_state b' = SBlk ->
    so_bail r = false /\
    exists blk len, read_slot bs (nth j fs None) (SFile f idx b) (nth j faults None) = RdOk blk len /\
                    (fb_state b = SRep -> hashf blk len = fb_hash b /\ fb_hash b' = fb_hash b) /\
                    (fb_state b = SChg -> fb_hash b' = hashf blk len).
  Proof.
    intros Hd Hs Hnb Hf r d' f' idx' b' Hd' Hs' Hb'.
    assert (Hlt : j < length (c_disks c)) by (eapply nth_Some_lt; eauto).
    unfold r, sync_stripe in *. clear r.
    set (slots := map (fun od : option cdisk => match od with Some d => slot_at d pos | None => SEmpty end) (c_disks c)) in *.
    set (F := fun j => read_slot bs (nth j fs None) (nth j slots SEmpty) (nth j faults None)) in *.
    set (xs := combine (combine (seq 0 (length slots)) slots) (map F (seq 0 (length slots)))) in *.
    set (a0 := mkAcc false false false _ false [] [] 0 0 0) in *.
    set (a := fold_left step xs a0) in *.
    assert (Hsl : nth j slots SEmpty = SFile f idx b).
    { unfold slots. rewrite (nth_slots _ pos j d Hd). exact Hs. }
    assert (Hlen : length slots = length (c_disks c)) by (unfold slots; apply map_length).
    assert (Hin : In (j, SFile f idx b, F j) xs).
    { rewrite <- Hsl. apply nth_combine3. lia. }
    destruct (a_bail a) eqn:Ebail.
    - (* bailed: content unchanged, the block cannot be BLK *)
      simpl in Hd'. rewrite Hd in Hd'. inversion Hd'; subst d'. rewrite Hs in Hs'. inversion Hs'; subst. contradiction.
    - set (newhash := fun j0 => match find (fun jh : nat * hval => Nat.eqb (fst jh) j0) (a_newhash a) with Some jh => Some (snd jh) | None => None end) in *.
      cbv zeta in Hd', Hs' |- *.
      set (fixed := if negb (a_err a) && negb (a_io a) && a_silent a then onthefly hashf nlev slots (map F (seq 0 (length slots))) (a_failed a) newhash par else None) in *.
      set (proceed := negb (a_err a) && negb (a_io a) && (negb (a_silent a) || match fixed with Some _ => true | None => false end)) in *.
      destruct proceed eqn:Ep.
      + (* the stripe completes *)
        pose proof (nth_disks_map (fun j0 d0 => complete_disk pos (newhash j0) d0) (c_disks c) j d Hd) as Hn.
        cbn [c_disks so_content] in Hd'.
        assert (Ed : Some d' = Some (complete_disk pos (newhash j) d)) by (rewrite <- Hd'; exact Hn).
        inversion Ed; subst d'; clear Ed Hd' Hn.
        destruct (complete_disk_slot pos (newhash j) d f idx b Hs) as [f2 E2]. rewrite E2 in Hs'. inversion Hs'; subst f' idx' b'; clear Hs'.
        unfold proceed in Ep. apply andb_true_iff in Ep. destruct Ep as [Ep _]. apply andb_true_iff in Ep. destruct Ep as [Ee Ei].
        apply negb_true_iff in Ee. apply negb_true_iff in Ei.
        assert (G : good a) by (unfold good; auto).
        destruct (fold_good_back xs a0 G) as [_ Ben]. specialize (Ben _ Hin). simpl in Ben.
        split; [reflexivity|].
        assert (HF : F j = read_slot bs (nth j fs None) (SFile f idx b) (nth j faults None)) by (unfold F; rewrite Hsl; reflexivity).
        destruct (F j) as [|blk len| | |] eqn:EF; try contradiction.
        * (* RdNone for a file slot: only an injected fault *)
          exfalso. symmetry in HF. unfold read_slot in HF. destruct (nth j faults None) as [rr|] eqn:Efl.
          -- subst rr. apply Hf. reflexivity.
          -- destruct (nth j fs None) as [dd|]; [|discriminate]. destruct (find_fs (cf_name f) dd); [|discriminate].
             destruct (negb _ || negb _ || negb _ || negb _); discriminate.
        * exists blk, len. split; [symmetry; exact HF|]. split.
          -- intro Hr. split; [apply Ben; exact Hr|]. simpl. rewrite Hr. reflexivity.
          -- intro Hc. simpl. rewrite Hc.
             assert (Hnh : newhash j = Some (hashf blk len)).
             { unfold newhash. unfold a. rewrite (fold_newhash xs a0 Ebail). simpl. rewrite app_nil_r.
               rewrite (find_flat_nh (rev xs) j f idx b blk len); [reflexivity | | apply -> in_rev; exact Hin | exact Hc].
               rewrite map_rev. apply NoDup_rev. apply combine3_nodup. }
             rewrite Hnh. reflexivity.
      + (* the stripe is skipped: the state of the block is unchanged *)
        pose proof (nth_disks_map (fun j0 d0 => skipped_disk pos (newhash j0) d0) (c_disks c) j d Hd) as Hn.
        cbn [c_disks so_content] in Hd'.
        assert (Ed : Some d' = Some (skipped_disk pos (newhash j) d)) by (rewrite <- Hd'; exact Hn).
        inversion Ed; subst d'; clear Ed Hd' Hn.
        destruct (skipped_disk_slot pos (newhash j) d f idx b Hs) as [f2 [b2 [E2 [E3 _]]]]. rewrite E2 in Hs'. inversion Hs'; subst. congruence.
  Qed.

  Theorem rep_mismatch_refused now c par fs faults pos j d f idx b blk len :
    nth j (c_disks c) None = Some d -> slot_at d pos = SFile f idx b -> fb_state b = SRep ->
    read_slot bs (nth j fs None) (SFile f idx b) (nth j faults None) = RdOk blk len -> hashf blk len <> fb_hash b ->
    let r := sync_stripe hashf bs nlev o now iob c par fs faults pos in
    so_write r = None /\ (so_bail r = true \/ 1 <= so_nerr r) /\
    exists d' f', nth j (c_disks (so_content r)) None = Some d' /\ slot_at d' pos = SFile f' idx b.
  Proof.
    intros Hd Hs Hr Hrd Hne r.
    assert (Hlt : j < length (c_disks c)) by (eapply nth_Some_lt; eauto).
    unfold r, sync_stripe in *. clear r.
    set (slots := map (fun od : option cdisk => match od with Some d => slot_at d pos | None => SEmpty end) (c_disks c)) in *.
    set (F := fun j => read_slot bs (nth j fs None) (nth j slots SEmpty) (nth j faults None)) in *.
    set (xs := combine (combine (seq 0 (length slots)) slots) (map F (seq 0 (length slots)))) in *.
    set (a0 := mkAcc false false false _ false [] [] 0 0 0) in *.
    set (a := fold_left step xs a0) in *.
    assert (Hsl : nth j slots SEmpty = SFile f idx b).
    { unfold slots. rewrite (nth_slots _ pos j d Hd). exact Hs. }
    assert (Hlen : length slots = length (c_disks c)) by (unfold slots; apply map_length).
    assert (Hin : In (j, SFile f idx b, RdOk blk len) xs).
    { rewrite <- Hsl. replace (RdOk blk len) with (F j) by (unfold F; rewrite Hsl; exact Hrd). apply nth_combine3. lia. }
    destruct (fold_mismatch xs a0 j f idx b blk len Hin Hr Hne) as [Hb | [He Hn]]; fold a in Hb || fold a in He, Hn.
    - rewrite Hb. simpl. split; [reflexivity|]. split; [left; reflexivity|]. exists d, f. auto.
    - destruct (a_bail a) eqn:Ebail.
      + simpl. split; [reflexivity|]. split; [left; reflexivity|]. exists d, f. auto.
      + cbv zeta. rewrite He. cbn [negb andb so_write so_bail so_nerr so_content c_disks].
        split; [reflexivity|]. split; [right; exact Hn|].
        set (newhash := fun j0 : nat => match find (fun jh : nat * hval => Nat.eqb (fst jh) j0) (a_newhash a) with Some jh => Some (snd jh) | None => None end).
        pose proof (nth_disks_map (fun j0 d0 => skipped_disk pos (newhash j0) d0) (c_disks c) j d Hd) as Hnth.
        destruct (skipped_disk_slot pos (newhash j) d f idx b Hs) as [f2 [b2 [E2 [_ E4]]]].
        exists (skipped_disk pos (newhash j) d), f2. split; [exact Hnth|]. rewrite E2. rewrite E4 by congruence. reflexivity.
  Qed.
End Stripe.
