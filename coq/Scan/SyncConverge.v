(* C11 sync_converges, first half: a sync loop without faults over data that can be read and that hashes to every recorded
   hash completes every enabled stripe: afterwards each visited stripe holds only BLK blocks (a DELETED entry survives only
   in a stripe without any file block, and is dropped when the state is saved), no error is counted. *)
From Coq Require Import NArith ZArith List Bool Arith Lia.
From Snap.Array Require Import ArrayDefs SyncModel SyncProofsDefs SyncProofsStripe.
From Snap.Scan Require Import ScanBasics ScanSound StripeProofs.
Import ListNotations.

Section Conv.
  Variable hashf : bid -> N -> hval.
  Variable bs : N.
  Variable nlev : nat.
  Variable o : sopts.
  Variable fs : list (option fsdisk).

  (* the block of this slot can be read and, unless it is CHG, hashes to its recorded hash *)
  Definition slot_good (j : nat) (s : slot) : Prop :=
    match s with
    | SFile f idx b => exists blk len, read_slot bs (nth j fs None) (SFile f idx b) None = RdOk blk len /\
                                       (fb_state b <> SChg -> hashf blk len = fb_hash b)
    | _ => True
    end.
  Definition stripe_good (c : content) (p : nat) : Prop := forall j, slot_good j (slot_of c p j).

  (* nothing left to do at this stripe *)
  Definition stripe_fine (c : content) (p : nat) : Prop :=
    forall j, match slot_of c p j with
              | SFile _ _ b => fb_state b = SBlk
              | SDeleted _ => forall j', slot_has_file (slot_of c p j') = false
              | SEmpty => True
              end.

  Lemma slot_good_view j s s' : sview_of s' = sview_of s -> slot_good j s -> slot_good j s'.
  Proof.
    destruct s as [|f i b|h], s' as [|f' i' b'|h']; simpl; intro E; try discriminate; auto.
    inversion E; subst. intros [blk [len [A B]]]. exists blk, len. split; [|exact B].
    rewrite <- A. unfold read_slot. destruct (nth j fs None); [|reflexivity]. congruence.
  Qed.
  Lemma stripe_good_views c c' p : same_views c c' p -> stripe_good c p -> stripe_good c' p.
  Proof. intros [_ V] G j. apply (slot_good_view j (slot_of c p j)); [apply V | apply G]. Qed.
  Lemma stripe_fine_views c c' p : same_views c c' p -> stripe_fine c p -> stripe_fine c' p.
  Proof.
    intros [_ V] G j. specialize (G j). pose proof (V j) as Vj.
    destruct (slot_of c p j) as [|f i b|h], (slot_of c' p j) as [|f' i' b'|h']; simpl in Vj; try discriminate; auto.
    - inversion Vj; subst. exact G.
    - intro j'. rewrite (view_has_file _ _ (V j')). apply G.
  Qed.

  (* --- one clean iteration ------------------------------------------------------------------------------------------- *)
  Notation step := (disk_step hashf bs o 0).
  Definition clean (a : acc) : Prop :=
    a_bail a = false /\ a_err a = false /\ a_io a = false /\ a_silent a = false /\ a_nerr a = 0 /\ a_nsilent a = 0 /\ a_nio a = 0.
  Definition fine (x : nat * slot * rd) : Prop :=
    match x with
    | (_, SFile f idx b, r) => exists blk len, r = RdOk blk len /\ (fb_state b <> SChg -> hashf blk len = fb_hash b)
    | _ => True
    end.

  Lemma step_clean a x : fine x -> clean a -> clean (step a x).
  Proof.
    destruct x as [[j s] r]. intros F (C1 & C2 & C3 & C4 & C5 & C6 & C7). unfold clean, disk_step. rewrite C1.
    destruct s as [|f idx b|h]; cbn -[Nat.leb].
    - repeat split; assumption.
    - destruct F as [blk [len [Er Eh]]]. subst r.
      destruct (fb_state b) eqn:Es; cbn -[Nat.leb].
      + rewrite (proj2 (hval_eqb_true _ _) (Eh ltac:(discriminate))). repeat split; assumption.
      + repeat split; assumption.
      + rewrite (proj2 (hval_eqb_true _ _) (Eh ltac:(discriminate))). repeat split; assumption.
    - repeat split; assumption.
  Qed.
  Lemma fold_clean xs : forall a, (forall x, In x xs -> fine x) -> clean a -> clean (fold_left step xs a).
  Proof.
    induction xs as [|x t IH]; simpl; intros a F C; [exact C|].
    apply IH; [intros y Hy; apply F; right; exact Hy | apply step_clean; [apply F; left; reflexivity | exact C]].
  Qed.

  Lemma in_combine3 (slots : list slot) (F : nat -> rd) x :
    In x (combine (combine (seq 0 (length slots)) slots) (map F (seq 0 (length slots)))) ->
    exists j, j < length slots /\ x = (j, nth j slots SEmpty, F j).
  Proof.
    intro H. apply (In_nth _ _ (0, SEmpty, F 0)) in H. destruct H as [n [Hn E]].
    rewrite !combine_length, map_length, seq_length in Hn. assert (Hn' : n < length slots) by lia.
    exists n. split; [exact Hn'|]. rewrite <- E.
    rewrite combine_nth by (rewrite combine_length, map_length, seq_length; lia).
    rewrite combine_nth by (rewrite seq_length; reflexivity).
    rewrite seq_nth by exact Hn'. rewrite (map_nth F). rewrite seq_nth by exact Hn'. reflexivity.
  Qed.

  Theorem sync_stripe_good now c par pos :
    stripe_good c pos ->
    let r := sync_stripe hashf bs nlev o now 0 c par fs [] pos in
    so_bail r = false /\ so_nerr r = 0 /\ so_nsilent r = 0 /\ so_nio r = 0 /\
    forall j, match slot_of (so_content r) pos j with SFile _ _ b => fb_state b = SBlk | SEmpty => True | SDeleted _ => False end.
  Proof.
    intros G r. unfold r, sync_stripe. clear r. cbv zeta.
    change (map (fun od : option cdisk => match od with Some d => slot_at d pos | None => SEmpty end) (c_disks c)) with (slots c pos).
    set (sl := slots c pos).
    set (F := fun j => read_slot bs (nth j fs None) (nth j sl SEmpty) (nth j (@nil (option rd)) None)).
    set (xs := combine (combine (seq 0 (length sl)) sl) (map F (seq 0 (length sl)))).
    match goal with |- context [fold_left _ xs ?a] => set (a0 := a) end.
    assert (C : clean (fold_left step xs a0)).
    { apply fold_clean; [|unfold clean, a0; simpl; repeat split].
      intros x Hx. destruct (in_combine3 sl F x Hx) as [j [Hj E]]. subst x. unfold fine.
      pose proof (G j) as Gj. unfold slot_of in Gj. fold sl in Gj.
      destruct (nth j sl SEmpty) as [|f idx b|h] eqn:Es; auto.
      destruct Gj as [blk [len [A B]]]. exists blk, len. split; [|exact B]. unfold F. rewrite Es.
      replace (nth j (@nil (option rd)) None) with (@None rd) by (destruct j; reflexivity). exact A. }
    destruct C as (C1 & C2 & C3 & C4 & C5 & C6 & C7).
    rewrite C1. rewrite C2, C3, C4. cbn [negb andb orb so_bail so_nerr so_nsilent so_nio so_content].
    repeat (split; [assumption || reflexivity|]).
    intro j. match goal with |- context [mkC ?dd ?ii ?bb] => change dd with (ss_disks (fun j0 d0 => complete_disk pos (match find (fun jh : nat * hval => Nat.eqb (fst jh) j0) (a_newhash (fold_left step xs a0)) with Some jh => Some (snd jh) | None => None end) d0) c) end.
    rewrite ss_disks_slot. destruct (nth j (c_disks c) None) as [d|]; [|exact I].
    rewrite SyncProofsStripe.complete_disk_slot. destruct (slot_at d pos); simpl; auto.
  Qed.

  (* --- the loop ---------------------------------------------------------------------------------------------------------- *)
  Lemma not_enabled_fine c p : stripe_enabled o (slots c p) = false -> o_force_full o = false -> stripe_fine c p.
  Proof.
    unfold stripe_enabled. intros H Hf. rewrite Hf in H. simpl in H. intro j.
    destruct (existsb slot_has_file (slots c p)) eqn:E1; simpl in H.
    - (* a file, but nothing invalid *)
      assert (Hj : forall j, slot_invalid_parity (slot_of c p j) = false).
      { intro j0. destruct (Nat.lt_ge_cases j0 (length (slots c p))) as [L|L].
        - apply (existsb_false_In _ _ _ H). apply nth_In. exact L.
        - unfold slot_of. rewrite nth_overflow by exact L. reflexivity. }
      specialize (Hj j). destruct (slot_of c p j) as [|f i b|h]; simpl in *; auto; [|discriminate].
      apply negb_false_iff in Hj. destruct (fb_state b); simpl in Hj; try discriminate. reflexivity.
    - destruct (slot_of c p j) as [|f i b|h] eqn:Es; auto.
      + exfalso. assert (L : j < length (slots c p)).
        { destruct (Nat.lt_ge_cases j (length (slots c p))) as [L|L]; [exact L|]. unfold slot_of in Es. rewrite nth_overflow in Es by exact L. discriminate. }
        pose proof (existsb_false_In _ _ (slot_of c p j) E1 (nth_In _ _ L)) as Hc. rewrite Es in Hc. discriminate.
      + intro j'. destruct (Nat.lt_ge_cases j' (length (slots c p))) as [L|L].
        * apply (existsb_false_In _ _ _ E1). apply nth_In. exact L.
        * unfold slot_of. rewrite nth_overflow by exact L. reflexivity.
  Qed.

  Theorem sync_loop_converges now stripes : forall c par ne ns,
    NoDup stripes -> o_force_full o = false ->
    (forall p, In p stripes -> stripe_good c p) ->
    let r := sync_loop hashf bs nlev o now fs (fun _ => []) stripes None c par ne ns 0 in
    ro_bailed r = false /\ ro_nerr r = ne /\ ro_nsilent r = ns /\ ro_nio r = 0 /\
    (forall p, In p stripes -> stripe_fine (ro_content r) p) /\
    (forall p, ~ In p stripes -> same_views c (ro_content r) p) /\
    map disk_attrs (c_disks (ro_content r)) = map disk_attrs (c_disks c).
  Proof.
    induction stripes as [|pos t IH]; intros c par ne ns ND Hff G.
    - simpl. repeat split; auto; try (intros p []).
    - inversion ND as [|x l Hnot ND']; subst. cbn [sync_loop].
      change (map (fun od : option cdisk => match od with Some d => slot_at d pos | None => SEmpty end) (c_disks c)) with (slots c pos).
      destruct (stripe_enabled o (slots c pos)) eqn:En; cbn [negb].
      + (* processed *)
        pose proof (sync_stripe_good now c (map (fun lv => nth pos lv PNone) par) pos (G pos (or_introl eq_refl))) as S.
        pose proof (sync_stripe_other_stripes hashf bs nlev o now 0 c (map (fun lv => nth pos lv PNone) par) fs [] pos) as Fr.
        set (r1 := sync_stripe hashf bs nlev o now 0 c (map (fun lv => nth pos lv PNone) par) fs [] pos) in *.
        destruct S as [B [E1 [E2 [E3 Hpos]]]]. cbv zeta in Fr. destruct Fr as [Att Fr].
        rewrite B. rewrite E1, E2, E3. rewrite !Nat.add_0_r.
        match goal with |- context [sync_loop _ _ _ _ _ _ _ t None (so_content r1) ?pp _ _ _] => set (par1 := pp) end.
        assert (G1 : forall p, In p t -> stripe_good (so_content r1) p).
        { intros p Hp. apply (stripe_good_views c); [|apply G; right; exact Hp]. apply (Fr p). intro; subst; contradiction. }
        specialize (IH (so_content r1) par1 ne ns ND' Hff G1). cbv zeta in IH.
        destruct IH as [I1 [I2 [I3 [I4 [I5 [I6 I7]]]]]].
        repeat (split; [assumption|]). split; [|split].
        * intros p [Hp|Hp]; [|apply I5; exact Hp]. subst p.
          apply (stripe_fine_views (so_content r1)); [apply I6; exact Hnot|].
          intro j. specialize (Hpos j). destruct (slot_of (so_content r1) pos j); auto. contradiction.
        * intros p Hp. apply (same_views_trans c (so_content r1)); [apply (Fr p); intro; subst; apply Hp; left; reflexivity | apply I6; intro; apply Hp; right; assumption].
        * congruence.
      + (* not enabled: nothing to do *)
        specialize (IH c par ne ns ND' Hff (fun p Hp => G p (or_intror Hp))). cbv zeta in IH.
        destruct IH as [I1 [I2 [I3 [I4 [I5 [I6 I7]]]]]].
        repeat (split; [assumption|]). split; [|split; [|exact I7]].
        * intros p [Hp|Hp]; [|apply I5; exact Hp]. subst p.
          apply (stripe_fine_views c); [apply I6; exact Hnot | apply not_enabled_fine; assumption].
        * intros p Hp. apply I6. intro; apply Hp; right; assumption.
  Qed.
End Conv.
