(* C15 -- the per-stripe book-keeping of state_scrub_process: what the flags are, as a function of what the
   readers and the comparisons report, and what is written to the info word. *)
From Coq Require Import NArith ZArith List Bool Lia.
From Snap.Scrub Require Import ScrubModel ScrubInfo.
Import ListNotations.

(* ---- classification of the reports (specification side, independent of the loop structure) ---- *)

(* the disk slot holds a block of a file at this position *)
Definition d_file (t : data_task) : bool := dt_disk t && block_has_file (dt_block t).
(* the slot makes the stripe unsynced: pending parity update (CHG/REP/DELETED) or a file changed since the sync *)
Definition d_unsynced (t : data_task) : bool :=
  dt_disk t && (block_has_invalid_parity (dt_block t) || (block_has_file (dt_block t) && dt_ts_diff t)).
Definition d_file_unsynced (t : data_task) : bool := block_has_invalid_parity (dt_block t) || dt_ts_diff t.
Definition is_done (s : task_state) : bool := match s with TASK_DONE => true | _ => false end.
Definition is_err (s : task_state) : bool := match s with TASK_ERROR_CONTINUE => true | _ => false end.
Definition is_ioerr (s : task_state) : bool := match s with TASK_IOERROR_CONTINUE => true | _ => false end.
Definition is_fatal (s : task_state) : bool := match s with TASK_ERROR | TASK_IOERROR => true | _ => false end.
(* read, and the stored hash (when there is one to compare with) matches *)
Definition d_mismatch (t : data_task) : bool :=
  d_file t && is_done (dt_state t) && block_has_updated_hash (dt_block t) && negb (dt_hash_eq t).
Definition d_ok (t : data_task) : bool := negb (d_file t) || (is_done (dt_state t) && negb (d_mismatch t)).
Definition d_ioerr (t : data_task) : bool := d_file t && is_ioerr (dt_state t).
(* a hash mismatch in a file that is in sync: silent corruption *)
Definition d_silent (t : data_task) : bool := d_mismatch t && negb (d_file_unsynced t).
(* open/read failure (not EIO), or a hash mismatch in a file known to be out of sync *)
Definition d_generic (t : data_task) : bool := (d_file t && is_err (dt_state t)) || (d_mismatch t && d_file_unsynced t).
Definition d_fatal (t : data_task) : bool := d_file t && is_fatal (dt_state t).

Definition p_ok (t : parity_task) : bool := is_done (pt_state t) && pt_equal t.
Definition p_ioerr (t : parity_task) : bool := is_ioerr (pt_state t).
Definition p_generic (t : parity_task) : bool := is_err (pt_state t).
Definition p_mismatch (t : parity_task) : bool := is_done (pt_state t) && negb (pt_equal t).

(* every block read and hashed equal, every parity read and equal to the recomputed one *)
Definition verified (ds : list data_task) (ps : list parity_task) : bool := forallb d_ok ds && forallb p_ok ps.
(* nothing failed while reading and hashing *)
Definition read_clean (ds : list data_task) (ps : list parity_task) : bool :=
  forallb d_ok ds && forallb (fun t => is_done (pt_state t)) ps.
(* evidence of damage: an I/O error, a silent data error in a synced file, or a parity mismatch in a synced stripe *)
Definition damaged (ds : list data_task) (ps : list parity_task) : bool :=
  existsb d_ioerr ds || existsb d_silent ds || existsb p_ioerr ps ||
  (read_clean ds ps && negb (existsb d_unsynced ds) && existsb p_mismatch ps).

(* ---- the loops compute these ---- *)

Definition flags_or (f : stripe_flags) (e s i u : bool) : stripe_flags :=
  {| error_on_this_block := error_on_this_block f || e; silent_error_on_this_block := silent_error_on_this_block f || s;
     io_error_on_this_block := io_error_on_this_block f || i; block_is_unsynced := block_is_unsynced f || u |}.

Lemma flags_or_false f : flags_or f false false false false = f.
Proof. destruct f; unfold flags_or; simpl; rewrite !orb_false_r; reflexivity. Qed.

Lemma flags_or_or f e s i u e' s' i' u' :
  flags_or (flags_or f e s i u) e' s' i' u' = flags_or f (e || e') (s || s') (i || i') (u || u').
Proof. unfold flags_or; simpl; rewrite !orb_assoc; reflexivity. Qed.

Lemma data_step_spec lim f c t f' c' :
  data_step lim (f, c) t = Some (f', c') ->
  f' = flags_or f (d_generic t) (d_silent t) (d_ioerr t) (d_unsynced t) /\ d_fatal t = false.
Proof.
  unfold data_step, d_generic, d_silent, d_ioerr, d_unsynced, d_fatal, d_mismatch, d_file, d_file_unsynced.
  destruct t as [disk blk ts st heq]; simpl.
  destruct disk; simpl.
  - destruct (block_has_file blk) eqn:Hf; simpl.
    + destruct st; simpl.
      * destruct (block_has_updated_hash blk), heq; simpl;
          try (destruct (block_has_invalid_parity blk), ts; simpl);
          intro H; injection H; intros; subst; split; try reflexivity;
          destruct f; unfold flags_or, set_error, set_silent, or_unsynced; simpl;
          rewrite ?orb_false_r, ?orb_true_r, ?orb_assoc; reflexivity.
      * intro H; injection H; intros; subst; split; try reflexivity.
        destruct f; unfold flags_or, set_error, or_unsynced; simpl.
        rewrite ?orb_false_r, ?orb_true_r, ?orb_assoc, ?andb_false_r; simpl; rewrite ?orb_false_r; reflexivity.
      * destruct (lim <=? _)%N; [discriminate|].
        intro H; injection H; intros; subst; split; try reflexivity.
        destruct f; unfold flags_or, set_io, or_unsynced; simpl.
        rewrite ?orb_false_r, ?orb_true_r, ?orb_assoc, ?andb_false_r; simpl; rewrite ?orb_false_r; reflexivity.
      * discriminate.
      * discriminate.
    + intro H; injection H; intros; subst; split; try reflexivity.
      destruct f; unfold flags_or, or_unsynced; simpl. rewrite ?orb_false_r; reflexivity.
  - intro H; injection H; intros; subst; split; try reflexivity. rewrite flags_or_false. reflexivity.
Qed.

Lemma data_loop_spec lim : forall ds f c f' c',
  fold_opt (data_step lim) (f, c) ds = Some (f', c') ->
  f' = flags_or f (existsb d_generic ds) (existsb d_silent ds) (existsb d_ioerr ds) (existsb d_unsynced ds)
  /\ existsb d_fatal ds = false.
Proof.
  induction ds as [|t r IH]; intros f c f' c' H; cbn [fold_opt existsb] in *.
  - injection H; intros; subst. rewrite flags_or_false. split; reflexivity.
  - destruct (data_step lim (f, c) t) as [[f1 c1]|] eqn:E; [|discriminate].
    destruct (data_step_spec _ _ _ _ _ _ E) as [-> Hfa].
    destruct (IH _ _ _ _ H) as [-> Hfb]. rewrite flags_or_or, Hfa, Hfb. split; reflexivity.
Qed.

Lemma parity_step_spec lim f c t f' c' :
  parity_step lim (f, c) t = Some (f', c') ->
  f' = flags_or f (p_generic t) false (p_ioerr t) false /\ is_fatal (pt_state t) = false.
Proof.
  unfold parity_step, p_generic, p_ioerr. destruct t as [st eq]; simpl. destruct st; simpl; try discriminate.
  - intro H; injection H; intros; subst. rewrite flags_or_false. split; reflexivity.
  - intro H; injection H; intros; subst. split; [|reflexivity].
    destruct f; unfold flags_or, set_error; simpl; rewrite ?orb_false_r, ?orb_true_r; reflexivity.
  - destruct (lim <=? _)%N; [discriminate|]. intro H; injection H; intros; subst. split; [|reflexivity].
    destruct f; unfold flags_or, set_io; simpl; rewrite ?orb_false_r, ?orb_true_r; reflexivity.
Qed.

Lemma parity_loop_spec lim : forall ps f c f' c',
  fold_opt (parity_step lim) (f, c) ps = Some (f', c') ->
  f' = flags_or f (existsb p_generic ps) false (existsb p_ioerr ps) false
  /\ existsb (fun t => is_fatal (pt_state t)) ps = false.
Proof.
  induction ps as [|t r IH]; intros f c f' c' H; cbn [fold_opt existsb] in *.
  - injection H; intros; subst. rewrite flags_or_false. split; reflexivity.
  - destruct (parity_step lim (f, c) t) as [[f1 c1]|] eqn:E; [|discriminate].
    destruct (parity_step_spec _ _ _ _ _ _ E) as [-> Hfa].
    destruct (IH _ _ _ _ H) as [-> Hfb]. rewrite flags_or_or, Hfa, Hfb. split; reflexivity.
Qed.

Lemma compare_loop_spec : forall ps f c,
  fst (fold_left compare_step ps (f, c)) =
  flags_or f (block_is_unsynced f && existsb p_mismatch ps) (negb (block_is_unsynced f) && existsb p_mismatch ps) false false.
Proof.
  induction ps as [|t r IH]; intros f c; cbn [fold_left existsb].
  - rewrite !andb_false_r, flags_or_false. reflexivity.
  - destruct (compare_step (f, c) t) as [f1 c1] eqn:E. rewrite IH.
    unfold compare_step, p_mismatch in *. destruct t as [st eq]; simpl in *.
    destruct st, eq, f as [fe fs fi fu]; simpl in *; try destruct fu; simpl in *;
      injection E; intros; subst; unfold flags_or, set_error, set_silent; simpl;
      rewrite ?orb_false_r, ?orb_true_r, ?andb_false_r; simpl; rewrite ?orb_false_r, ?orb_true_r; reflexivity.
Qed.

(* ---- the three-way classification of the stripe ---- *)

Lemma forallb_negb_existsb {A} (f g : A -> bool) l : (forall x, g x = negb (f x)) -> forallb g l = negb (existsb f l).
Proof. intro H. induction l; simpl; [reflexivity|]. rewrite H, IHl, negb_orb. reflexivity. Qed.

Lemma outcome_spec lim c ds ps f c' :
  stripe_outcome lim c ds ps = Some (f, c') ->
  (silent_error_on_this_block f || io_error_on_this_block f = damaged ds ps) /\
  (negb (error_on_this_block f) && negb (silent_error_on_this_block f) && negb (io_error_on_this_block f)
   = verified ds ps).
Proof.
  unfold stripe_outcome.
  destruct (fold_opt (data_step lim) (no_flags, c) ds) as [[f1 c1]|] eqn:E1; [|discriminate].
  destruct (fold_opt (parity_step lim) (f1, c1) ps) as [[f2 c2]|] eqn:E2; [|discriminate].
  destruct (data_loop_spec _ _ _ _ _ _ E1) as [-> Hfat1].
  destruct (parity_loop_spec _ _ _ _ _ _ E2) as [-> Hfat2].
  (* the reading phase in terms of the classifiers *)
  assert (forallb d_ok ds = negb (existsb d_generic ds || existsb d_silent ds || existsb d_ioerr ds)) as Hdok.
  { clear E1 E2. induction ds as [|t r IH]; [reflexivity|]. simpl in Hfat1. apply orb_false_elim in Hfat1.
    destruct Hfat1 as [Ht Hr]. cbn [forallb existsb]. rewrite (IH Hr). clear IH Hr.
    generalize (existsb d_generic r), (existsb d_silent r), (existsb d_ioerr r). intros b1 b2 b3.
    unfold d_ok, d_generic, d_silent, d_ioerr, d_mismatch, d_fatal, d_file, d_file_unsynced in *.
    destruct t as [disk blk ts st heq]; simpl in *.
    destruct disk; simpl in *; [|destruct b1, b2, b3; reflexivity].
    destruct (block_has_file blk); simpl in *; [|destruct b1, b2, b3; reflexivity].
    destruct st; simpl in *; try discriminate;
      [destruct (block_has_updated_hash blk), heq, (block_has_invalid_parity blk), ts; simpl| |];
      destruct b1, b2, b3; reflexivity. }
  assert (forallb (fun t => is_done (pt_state t)) ps = negb (existsb p_generic ps || existsb p_ioerr ps)) as Hpdone.
  { clear E1 E2. induction ps as [|t r IH]; [reflexivity|]. simpl in Hfat2. apply orb_false_elim in Hfat2.
    destruct Hfat2 as [Ht Hr]. cbn [forallb existsb]. rewrite (IH Hr).
    generalize (existsb p_generic r), (existsb p_ioerr r). intros b1 b2. unfold p_generic, p_ioerr.
    destruct t as [st eq]; simpl in *. destruct st; simpl in *; try discriminate; destruct b1, b2; reflexivity. }
  assert (forallb p_ok ps = forallb (fun t => is_done (pt_state t)) ps && negb (existsb p_mismatch ps)) as Hpok.
  { clear. induction ps as [|t r IH]; [reflexivity|]. cbn [forallb existsb]. rewrite IH.
    generalize (forallb (fun t => is_done (pt_state t)) r), (existsb p_mismatch r). intros b1 b2.
    unfold p_ok, p_mismatch. destruct t as [st eq]; simpl. destruct st, eq, b1, b2; reflexivity. }
  unfold verified, damaged, read_clean. rewrite Hpok, Hdok, Hpdone.
  match goal with |- (if ?b then _ else _) = _ -> _ => destruct b eqn:Hclean end; intro H.
  - (* reading phase clean: the compare loop ran *)
    injection H as H.
    match type of H with fold_left compare_step ps (?f2, _) = _ => pose proof (compare_loop_spec ps f2 c2) as Hc end.
    rewrite H in Hc. cbn [fst] in Hc. subst f. revert Hclean.
    unfold no_flags, flags_or; simpl.
    destruct (existsb d_generic ds), (existsb d_silent ds), (existsb d_ioerr ds), (existsb p_generic ps),
      (existsb p_ioerr ps); simpl; try discriminate. intros _.
    destruct (existsb d_unsynced ds), (existsb p_mismatch ps); simpl; split; reflexivity.
  - injection H as Hf Hc. subst f. revert Hclean.
    unfold no_flags, flags_or; simpl.
    destruct (existsb d_generic ds), (existsb d_silent ds), (existsb d_ioerr ds), (existsb p_generic ps),
      (existsb p_ioerr ps); simpl; try discriminate; intros _; split; reflexivity.
Qed.

(* ---- what is written to the info word ---- *)

Lemma verified_damaged_excl ds ps lim c f c' :
  stripe_outcome lim c ds ps = Some (f, c') -> verified ds ps && damaged ds ps = false.
Proof.
  intro H. destruct (outcome_spec _ _ _ _ _ _ H) as [<- <-].
  destruct (error_on_this_block f), (silent_error_on_this_block f), (io_error_on_this_block f); reflexivity.
Qed.

Lemma books_honest_stripe lim c ds ps info now info' c' :
  scrub_stripe lim c ds ps info now = Some (info', c') ->
  (verified ds ps = true -> info' = info_make now false false false) /\
  (damaged ds ps = true -> info' = info_set_bad info) /\
  (verified ds ps = false -> damaged ds ps = false -> info' = info) /\
  verified ds ps && damaged ds ps = false.
Proof.
  unfold scrub_stripe. destruct (stripe_outcome lim c ds ps) as [[f c1]|] eqn:E; [|discriminate].
  intro H. injection H as <- <-.
  pose proof (verified_damaged_excl _ _ _ _ _ _ E) as Hex.
  destruct (outcome_spec _ _ _ _ _ _ E) as [Hd Hv]. unfold scrub_update. rewrite Hd.
  repeat split; try assumption.
  - intro Hver. rewrite Hver in Hex. simpl in Hex. rewrite Hex. rewrite Hver in Hv.
    destruct (error_on_this_block f); [discriminate|reflexivity].
  - intros ->. reflexivity.
  - intros Hver Hdam. rewrite Hdam. rewrite Hver in Hv. rewrite Hdam in Hd.
    destruct (error_on_this_block f); [reflexivity|].
    destruct (silent_error_on_this_block f), (io_error_on_this_block f); discriminate.
Qed.

(* differences explained by files changed since the last sync, or by pending blocks, are never turned into a bad mark *)
Lemma unsynced_never_marked ds ps :
  existsb d_ioerr ds = false -> existsb p_ioerr ps = false ->
  (forall t, In t ds -> d_mismatch t = true -> d_file_unsynced t = true) ->
  (existsb p_mismatch ps = true -> existsb d_unsynced ds = true) ->
  damaged ds ps = false.
Proof.
  intros H1 H2 H3 H4. unfold damaged. rewrite H1, H2. simpl.
  assert (existsb d_silent ds = false) as ->.
  { apply not_true_is_false. intro E. apply existsb_exists in E. destruct E as [t [Hin Ht]].
    unfold d_silent in Ht. apply andb_true_iff in Ht. destruct Ht as [Hm Hu].
    rewrite (H3 t Hin Hm) in Hu. discriminate. }
  simpl. destruct (existsb p_mismatch ps); [|apply andb_false_r].
  rewrite (H4 eq_refl). simpl. rewrite andb_false_r. reflexivity.
Qed.

(* the run stops (goto bail) exactly on a fatal task state or when the I/O error limit is reached; in
   particular with no I/O error and no fatal state every stripe is booked *)
Lemma stripe_books_total lim c ds ps info now :
  existsb d_fatal ds = false -> existsb (fun t => is_fatal (pt_state t)) ps = false ->
  existsb d_ioerr ds = false -> existsb p_ioerr ps = false ->
  exists info' c', scrub_stripe lim c ds ps info now = Some (info', c').
Proof.
  intros Hf1 Hf2 Hi1 Hi2. unfold scrub_stripe, stripe_outcome.
  assert (forall ds st, existsb d_fatal ds = false -> existsb d_ioerr ds = false ->
            exists st', fold_opt (data_step lim) st ds = Some st') as Hd.
  { clear. induction ds as [|t r IH]; intros st Ha Hb; [eexists; reflexivity|].
    cbn [existsb] in *. apply orb_false_elim in Ha. apply orb_false_elim in Hb.
    destruct Ha as [Ha1 Ha2], Hb as [Hb1 Hb2]. cbn [fold_opt].
    assert (exists st1, data_step lim st t = Some st1) as [st1 ->]; [|apply IH; assumption].
    destruct st as [f c]. unfold data_step, d_fatal, d_ioerr, d_file in *.
    destruct t as [disk blk ts s heq]; simpl in *.
    destruct disk; simpl in *; [|eexists; reflexivity].
    destruct (block_has_file blk); simpl in *; [|eexists; reflexivity].
    destruct s; simpl in *; try discriminate; try (eexists; reflexivity).
    destruct (block_has_updated_hash blk && negb heq); [destruct (_ || _)|]; eexists; reflexivity. }
  assert (forall ps st, existsb (fun t => is_fatal (pt_state t)) ps = false -> existsb p_ioerr ps = false ->
            exists st', fold_opt (parity_step lim) st ps = Some st') as Hp.
  { clear. induction ps as [|t r IH]; intros st Ha Hb; [eexists; reflexivity|].
    cbn [existsb] in *. apply orb_false_elim in Ha. apply orb_false_elim in Hb.
    destruct Ha as [Ha1 Ha2], Hb as [Hb1 Hb2]. cbn [fold_opt].
    assert (exists st1, parity_step lim st t = Some st1) as [st1 ->]; [|apply IH; assumption].
    destruct st as [f c]. unfold parity_step, p_ioerr in *. destruct t as [s eq]; simpl in *.
    destruct s; simpl in *; try discriminate; eexists; reflexivity. }
  destruct (Hd ds (no_flags, c) Hf1 Hi1) as [st1 ->].
  destruct (Hp ps st1 Hf2 Hi2) as [[f2 c2] ->].
  destruct (negb _ && negb _ && negb _).
  - destruct (fold_left compare_step ps (f2, c2)). eexists; eexists; reflexivity.
  - eexists; eexists; reflexivity.
Qed.

(* anything short of a full verification leaves the time and the rehash / justsynced marks as they were *)
Lemma unverified_never_refreshed lim c ds ps info now info' c' :
  scrub_stripe lim c ds ps info now = Some (info', c') -> verified ds ps = false ->
  info' = info \/ info' = info_set_bad info.
Proof.
  intros H Hv. destruct (books_honest_stripe _ _ _ _ _ _ _ _ H) as [_ [Hd [Hu _]]].
  destruct (damaged ds ps) eqn:E; [right; apply Hd; reflexivity|left; apply Hu; [assumption|reflexivity]].
Qed.

(* a parity level that could not be read (any state but DONE), or a block of a file that could not be read *)
Lemma unreadable_parity_not_verified ds ps :
  existsb (fun t => negb (is_done (pt_state t))) ps = true -> verified ds ps = false.
Proof.
  intro H. unfold verified. apply existsb_exists in H. destruct H as [t [Hin Ht]].
  assert (forallb p_ok ps = false) as ->; [|apply andb_false_r].
  apply not_true_is_false. intro Hf. rewrite forallb_forall in Hf. specialize (Hf t Hin).
  unfold p_ok in Hf. destruct (is_done (pt_state t)); [discriminate|discriminate].
Qed.

Lemma unreadable_data_not_verified ds ps :
  existsb (fun t => d_file t && negb (is_done (dt_state t))) ds = true -> verified ds ps = false.
Proof.
  intro H. unfold verified. apply existsb_exists in H. destruct H as [t [Hin Ht]].
  assert (forallb d_ok ds = false) as ->; [|reflexivity].
  apply not_true_is_false. intro Hf. rewrite forallb_forall in Hf. specialize (Hf t Hin).
  unfold d_ok in Hf. destruct (d_file t); [|discriminate]. destruct (is_done (dt_state t)); discriminate.
Qed.

Lemma unreadable_never_refreshed lim c ds ps info now info' c' :
  scrub_stripe lim c ds ps info now = Some (info', c') ->
  existsb (fun t => negb (is_done (pt_state t))) ps = true \/
  existsb (fun t => d_file t && negb (is_done (dt_state t))) ds = true ->
  (info' = info \/ info' = info_set_bad info) /\
  info_get_time info' = info_get_time info /\ info_get_rehash info' = info_get_rehash info /\
  info_get_justsynced info' = info_get_justsynced info /\ (info_get_bad info = true -> info_get_bad info' = true).
Proof.
  intros H Hu.
  assert (verified ds ps = false) as Hv
    by (destruct Hu; [apply unreadable_parity_not_verified|apply unreadable_data_not_verified]; assumption).
  destruct (unverified_never_refreshed _ _ _ _ _ _ _ _ H Hv) as [->| ->].
  - split; [left; reflexivity|]. repeat split; auto.
  - split; [right; reflexivity|]. split; [apply set_bad_time|]. split; [apply set_bad_rehash|].
    split; [apply set_bad_justsynced|]. intros _. apply set_bad_bad.
Qed.
