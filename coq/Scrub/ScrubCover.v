(* C15 -- repeated default scrubs eventually cover every stripe. *)
From Coq Require Import NArith ZArith List Bool Lia Permutation Sorted.
From Snap.Scrub Require Import ScrubModel ScrubInfo ScrubPlan ScrubBooks ScrubTheorems.
Import ListNotations.

(* an error-free run: every selected stripe is verified, its word becomes info_make now 0 0 0 *)
Fixpoint refresh (sel : list bool) (infos : list N) (now : Z) : list N :=
  match sel, infos with
  | s :: sr, i :: ir => (if s then info_make now false false false else i) :: refresh sr ir now
  | _, _ => infos
  end.

Lemma refresh_is_apply_outcomes : forall sel infos now,
  refresh sel infos now = apply_outcomes sel (repeat no_flags (length sel)) infos now.
Proof.
  induction sel as [|s sr IH]; intros infos now; [destruct infos; reflexivity|].
  destruct infos as [|i ir]; [reflexivity|]. simpl. rewrite IH. reflexivity.
Qed.

Lemma refresh_nth_unselected : forall sel infos now k,
  nth_error sel k = Some false -> nth_error (refresh sel infos now) k = nth_error infos k.
Proof.
  induction sel as [|s sr IH]; intros infos now k H; [destruct k; discriminate|].
  destruct infos as [|i ir]; [reflexivity|]. destruct k as [|k']; simpl in *.
  - injection H as ->. reflexivity.
  - apply IH. assumption.
Qed.

Lemma refresh_length : forall sel infos now, length (refresh sel infos now) = length infos.
Proof.
  induction sel as [|s sr IH]; intros infos now; [reflexivity|]. destruct infos; [reflexivity|]. simpl. f_equal. apply IH.
Qed.

(* ---- the (time, position) order and the rank of a stripe ---- *)
Definition before (tk : N) (k j : nat) (ij : N) : bool :=
  info_used ij && ((info_get_time ij <? tk)%N || ((info_get_time ij =? tk)%N && (j <=? k)%nat)).

Fixpoint rank_from (tk : N) (k j : nat) (infos : list N) : nat :=
  match infos with
  | [] => O
  | ij :: r => (if before tk k j ij then 1 else 0) + rank_from tk k (S j) r
  end.

(* number of used stripes not younger than stripe k in (time, position) order, k included *)
Definition rank (infos : list N) (k : nat) (ik : N) : nat := rank_from (info_get_time ik) k O infos.

Fixpoint hit_from (tk : N) (k j : nat) (sel : list bool) (infos : list N) : nat :=
  match sel, infos with
  | s :: sr, ij :: r => (if s && before tk k j ij then 1 else 0) + hit_from tk k (S j) sr r
  | _, _ => O
  end.

Lemma rank_refresh tk k now : (8 <= now < 4294967296)%Z -> (Z.of_N tk < 8 * (now / 8))%Z ->
  forall sel infos j, length sel = length infos ->
  (rank_from tk k j (refresh sel infos now) + hit_from tk k j sel infos = rank_from tk k j infos)%nat.
Proof.
  intros Hnow Hlt. induction sel as [|s sr IH]; intros infos j Hlen; destruct infos as [|ij r]; try discriminate.
  - reflexivity.
  - simpl in Hlen. injection Hlen as Hlen. cbn [refresh rank_from hit_from]. specialize (IH r (S j) Hlen).
    destruct s; cbn -[before info_make].
    + assert (before tk k j (info_make now false false false) = false) as ->.
      { set (w := info_make now false false false). unfold before.
        assert (info_used w = true) as -> by (apply make_now_used; assumption).
        pose proof (make_time_now now ltac:(lia)) as Ht. fold w in Ht.
        destruct (N.ltb_spec (info_get_time w) tk); [lia|].
        destruct (N.eqb_spec (info_get_time w) tk); [lia|]. reflexivity. }
      destruct (before tk k j ij); simpl; lia.
    + destruct (before tk k j ij); simpl; lia.
Qed.

Lemma hit_witness tk k : forall sel infos j p ip,
  nth_error sel p = Some true -> nth_error infos p = Some ip -> before tk k (j + p) ip = true ->
  (1 <= hit_from tk k j sel infos)%nat.
Proof.
  induction sel as [|s sr IH]; intros infos j p ip Hs Hi Hb; [destruct p; discriminate|].
  destruct infos as [|ij r]; [destruct p; discriminate|]. destruct p as [|p']; simpl in *.
  - injection Hs as ->. injection Hi as ->. rewrite Nat.add_0_r in Hb. rewrite Hb. simpl. lia.
  - specialize (IH r (S j) p' ip Hs Hi). rewrite <- plus_n_Sm in Hb. specialize (IH Hb). lia.
Qed.

Lemma rank_self tk k : forall infos j ik, nth_error infos k = Some ik -> ik <> 0%N -> info_get_time ik = tk ->
  (1 <= rank_from tk (j + k) j infos)%nat.
Proof.
  induction k as [|k' IH]; intros infos j ik Hk Hu Ht; destruct infos as [|x r]; try discriminate; simpl in *.
  - injection Hk as ->. unfold before. unfold info_used. destruct (N.eqb_spec ik 0); [contradiction|]. simpl.
    rewrite Ht, N.eqb_refl. rewrite Nat.add_0_r. rewrite Nat.leb_refl. rewrite orb_true_r. simpl. lia.
  - specialize (IH r (S j) ik Hk Hu Ht). rewrite <- plus_n_Sm. simpl in IH. lia.
Qed.

(* ---- progress: the first used stripe whose time is the time limit is always selected ---- *)
Lemma first_tie_selected tl ll : forall infos c i,
  (c < ll)%N ->
  (exists j ij, nth_error infos j = Some ij /\ ij <> 0%N /\ Z.of_N (info_get_time ij) = tl) ->
  exists j ij, nth_error infos j = Some ij /\ ij <> 0%N /\ Z.of_N (info_get_time ij) = tl /\
    nth_error (select_from SCRUB_AUTO tl ll c i infos) j = Some true /\
    (forall j' ij', nth_error infos j' = Some ij' -> ij' <> 0%N -> Z.of_N (info_get_time ij') = tl -> (j <= j')%nat).
Proof.
  induction infos as [|x r IH]; intros c i Hc [j [ij [Hj [Hu Ht]]]]; [destruct j; discriminate|].
  cbn [select_from].
  destruct (block_is_enabled SCRUB_AUTO tl ll c i x) as [b c'] eqn:E.
  destruct (N.eqb_spec x 0) as [Hx0|Hx0].
  - (* unused head: witness in the tail, countlast unchanged *)
    assert (c' = c) as -> by (subst x; unfold block_is_enabled in E; simpl in E; congruence).
    destruct j as [|j']; [simpl in Hj; congruence|]. simpl in Hj.
    destruct (IH c (i + 1)%N Hc (ex_intro _ j' (ex_intro _ ij (conj Hj (conj Hu Ht))))) as [j0 [i0 [H1 [H2 [H3 [H4 H5]]]]]].
    exists (S j0), i0. repeat split; try assumption.
    intros j2 ij2 Hj2 Hu2 Ht2. destruct j2 as [|j2']; [simpl in Hj2; congruence|]. simpl in Hj2.
    apply le_n_S. eapply H5; eassumption.
  - destruct (Z.eq_dec (Z.of_N (info_get_time x)) tl) as [Hxt|Hxt].
    + (* the head is the first used stripe with the limit time: selected *)
      exists O, x. split; [reflexivity|]. split; [assumption|]. split; [assumption|]. split.
      * simpl. f_equal. unfold block_is_enabled in E. destruct (N.eqb_spec x 0); [contradiction|].
        destruct (info_get_bad x); [congruence|].
        destruct (Z.gtb_spec (Z.of_N (info_get_time x)) tl); [lia|].
        destruct (Z.eqb_spec (Z.of_N (info_get_time x)) tl); [|contradiction].
        destruct (N.leb_spec ll c); [lia|]. congruence.
      * intros; lia.
    + assert (c' = c) as ->.
      { unfold block_is_enabled in E. destruct (N.eqb_spec x 0); [contradiction|].
        destruct (info_get_bad x); [congruence|].
        destruct (Z.gtb_spec (Z.of_N (info_get_time x)) tl); [congruence|].
        destruct (Z.eqb_spec (Z.of_N (info_get_time x)) tl); [contradiction|]. congruence. }
      destruct j as [|j']; [simpl in Hj; injection Hj as ->; contradiction|]. simpl in Hj.
      destruct (IH c (i + 1)%N Hc (ex_intro _ j' (ex_intro _ ij (conj Hj (conj Hu Ht))))) as [j0 [i0 [H1 [H2 [H3 [H4 H5]]]]]].
      exists (S j0), i0. repeat split; try assumption.
      intros j2 ij2 Hj2 Hu2 Ht2. destruct j2 as [|j2']; [simpl in Hj2; injection Hj2 as ->; contradiction|]. simpl in Hj2.
      apply le_n_S. eapply H5; eassumption.
Qed.

(* ---- more about the limits: when nothing is selected, and where the time limit comes from ---- *)
Lemma decrease_zero tm recent : forall c1, decrease_limit tm recent c1 = O ->
  forall i, (i < c1)%nat -> (recent < nth i tm 0%Z)%Z.
Proof.
  induction c1 as [|c IH]; intros H i Hi; [lia|]. simpl in H.
  destruct (Z.gtb_spec (nth c tm 0%Z) recent) as [Hg|Hg]; [|discriminate].
  destruct (Nat.eq_dec i c) as [->|]; [lia|]. apply IH; [assumption|lia].
Qed.

Lemma in_timemap infos k ik : nth_error infos k = Some ik -> ik <> 0%N ->
  In (Z.of_N (info_get_time ik)) (timemap_of infos).
Proof.
  intros H Hu. unfold timemap_of. apply in_map_iff. exists ik. split; [reflexivity|].
  apply filter_In. split; [eapply nth_error_In; eassumption|].
  unfold info_used. apply negb_true_iff, N.eqb_neq. assumption.
Qed.

Lemma timemap_in_inv infos x : In x (timemap_of infos) ->
  exists j ij, nth_error infos j = Some ij /\ ij <> 0%N /\ Z.of_N (info_get_time ij) = x.
Proof.
  unfold timemap_of. intro H. apply in_map_iff in H. destruct H as [ij [Hx Hin]].
  apply filter_In in Hin. destruct Hin as [Hin Hu]. apply In_nth_error in Hin. destruct Hin as [j Hj].
  exists j, ij. split; [assumption|]. split; [|assumption].
  unfold info_used in Hu. apply negb_true_iff, N.eqb_neq in Hu. assumption.
Qed.

Lemma limits_auto_more t arg older now infos cl tl ll :
  scrub_limits t arg older now infos = Lim SCRUB_AUTO cl tl ll ->
  let cl0 := snd (fst (plan_of_args t arg older now (N.of_nat (length infos)))) in
  let recent := snd (plan_of_args t arg older now (N.of_nat (length infos))) in
  (cl = 0%N -> cl0 = 0%N \/ Forall (fun x => (recent < x)%Z) (timemap_of infos)) /\
  ((0 < cl)%N -> In tl (timemap_of infos)).
Proof.
  unfold scrub_limits. destruct (is_named_plan arg && _); [discriminate|].
  destruct (plan_of_args t arg older now (N.of_nat (length infos))) as [[pk0 cl0] rec]. cbn [fst snd].
  set (tm := sort_times (timemap_of infos)).
  destruct (length tm) eqn:Hlen; [discriminate|].
  destruct pk0; try discriminate.
  set (c1 := if (N.of_nat (S n) <? cl0)%N then S n else N.to_nat cl0).
  destruct (decrease_limit tm rec c1) as [|k] eqn:Hd.
  - intro H. injection H. intros <- <- <-. split; [|lia]. intros _.
    destruct (Nat.eq_dec c1 O) as [Hz|Hnz].
    + left. unfold c1 in Hz. destruct (N.ltb_spec (N.of_nat (S n)) cl0); lia.
    + right. pose proof (decrease_zero tm rec c1 Hd O ltac:(lia)) as H0.
      apply Forall_forall. intros x Hx.
      apply (Permutation_in _ (Permutation_sym (sort_perm (timemap_of infos)))) in Hx. fold tm in Hx.
      apply (In_nth _ _ 0%Z) in Hx. destruct Hx as [i [Hi <-]].
      pose proof (sorted_nth tm (sort_sorted _) O i ltac:(lia) Hi). lia.
  - intro H. injection H. intros <- <- <-. split; [lia|]. intros _.
    assert (S k <= c1)%nat as Hk by (pose proof (decrease_spec tm rec c1) as Hs; cbv zeta in Hs; rewrite Hd in Hs; lia).
    assert (c1 <= length tm)%nat as Hc1.
    { unfold c1. rewrite Hlen. destruct (N.ltb_spec (N.of_nat (S n)) cl0); lia. }
    apply (Permutation_in _ (sort_perm (timemap_of infos))). fold tm. apply nth_In. lia.
Qed.

Lemma default_plan_runs now infos k ik :
  nth_error infos k = Some ik -> ik <> 0%N ->
  exists cl tl ll, scrub_limits no_test_opts ArgDefault None now infos = Lim SCRUB_AUTO cl tl ll.
Proof.
  intros Hk Hu. unfold scrub_limits. cbn [is_named_plan andb]. rewrite plan_of_args_default.
  pose proof (in_timemap _ _ _ Hk Hu) as Hin.
  apply (Permutation_in _ (Permutation_sym (sort_perm (timemap_of infos)))) in Hin.
  destruct (sort_times (timemap_of infos)) as [|x r] eqn:E; [contradiction|].
  cbn [length]. destruct (decrease_limit _ _ _); eexists; eexists; eexists; reflexivity.
Qed.

(* ---- progress of one default scrub ---- *)
Lemma default_progress now infos cl tl ll k ik :
  (N.of_nat (length infos) < 4294967296)%N ->
  scrub_limits no_test_opts ArgDefault None now infos = Lim SCRUB_AUTO cl tl ll ->
  nth_error infos k = Some ik -> ik <> 0%N ->
  (Z.of_N (info_get_time ik) + 10 * 24 * 3600 <= now)%Z ->
  nth_error (scrub_selected SCRUB_AUTO tl ll infos) k = Some false ->
  exists p ip, nth_error (scrub_selected SCRUB_AUTO tl ll infos) p = Some true /\ nth_error infos p = Some ip /\
    before (info_get_time ik) k p ip = true.
Proof.
  intros Hn Hl Hk Hu Hage Hsel.
  destruct (limits_auto_spec _ _ _ _ _ _ _ _ Hl) as [_ [_ H3]].
  destruct (limits_auto_more _ _ _ _ _ _ _ _ Hl) as [Hz Hin].
  rewrite plan_of_args_default in *. cbn [fst snd] in *.
  assert (1 <= length infos)%nat as Hlen.
  { apply nth_error_Some_lt in Hk || (assert (k < length infos)%nat by (apply nth_error_Some; congruence); lia). }
  destruct H3 as [[-> [-> ->]]|[Hpos [Hrec [Hll _]]]].
  - exfalso. destruct (Hz eq_refl) as [Hmd|Hall].
    + destruct (md_ceil (N.of_nat (length infos)) 1 12) as [Hm _]; try lia.
      rewrite Hm in Hmd. rewrite N.mul_1_r in Hmd. change (12 - 1)%N with 11%N in Hmd.
      assert (1 <= (N.of_nat (length infos) + 11) / 12)%N by (apply N.div_le_lower_bound; lia). lia.
    + rewrite Forall_forall in Hall. specialize (Hall _ (in_timemap _ _ _ Hk Hu)). lia.
  - destruct (timemap_in_inv _ _ (Hin Hpos)) as [j [ij Hex]].
    destruct (first_tie_selected tl ll infos 0%N 0%N ltac:(lia) (ex_intro _ j (ex_intro _ ij Hex)))
      as [j0 [i0 [H1 [H2 [H3 [H4 H5]]]]]].
    fold (scrub_selected SCRUB_AUTO tl ll infos) in H4.
    exists j0, i0. split; [assumption|]. split; [assumption|].
    rewrite (selected_nth _ _ _ _ _ _ Hk) in Hsel. injection Hsel as Hsel.
    destruct (enabled_auto_false _ _ _ _ _ Hsel Hu) as [_ Hc].
    unfold before, info_used. destruct (N.eqb_spec i0 0); [contradiction|]. simpl.
    destruct Hc as [Hlt|[Heq _]].
    + assert (info_get_time i0 < info_get_time ik)%N as Hlt2 by lia.
      apply N.ltb_lt in Hlt2. rewrite Hlt2. reflexivity.
    + assert (info_get_time i0 = info_get_time ik) as Heq2 by (apply N2Z.inj; lia).
      rewrite Heq2, N.eqb_refl. simpl.
      assert (j0 <= k)%nat as Hle by (eapply H5; eassumption).
      apply Nat.leb_le in Hle. rewrite Hle. apply orb_true_r.
Qed.

(* ---- repeated default scrubs ---- *)
(* stripe k is selected by one of the scrubs run at the times `nows` (each one error free) *)
Fixpoint covered (infos : list N) (k : nat) (nows : list Z) : Prop :=
  match nows with
  | [] => False
  | now :: r =>
    match scrub_plan no_test_opts ArgDefault None now infos with
    | Some sel => nth_error sel k = Some true \/ covered (refresh sel infos now) k r
    | None => False
    end
  end.

Lemma default_scrub_covers : forall nows infos k ik,
  (N.of_nat (length infos) < 4294967296)%N -> nth_error infos k = Some ik -> ik <> 0%N ->
  Forall (fun now => (Z.of_N (info_get_time ik) + 10 * 24 * 3600 <= now < 4294967296)%Z) nows ->
  (rank infos k ik <= length nows)%nat -> covered infos k nows.
Proof.
  induction nows as [|now r IH]; intros infos k ik Hn Hk Hu Hall Hrank.
  - pose proof (rank_self (info_get_time ik) k infos O ik Hk Hu eq_refl) as H1. unfold rank in Hrank. simpl in *. lia.
  - cbn [covered]. inversion Hall as [|? ? Hnow Hall']; subst.
    destruct (default_plan_runs now infos k ik Hk Hu) as [cl [tl [ll Hl]]].
    unfold scrub_plan. rewrite Hl.
    assert (k < length (scrub_selected SCRUB_AUTO tl ll infos))%nat as Hlt.
    { rewrite selected_length. apply nth_error_Some. congruence. }
    destruct (nth_error (scrub_selected SCRUB_AUTO tl ll infos) k) as [[|]|] eqn:Hs.
    + left. reflexivity.
    + right. apply (IH _ k ik).
      * rewrite refresh_length. assumption.
      * rewrite refresh_nth_unselected; assumption.
      * assumption.
      * assumption.
      * destruct (default_progress now infos cl tl ll k ik Hn Hl Hk Hu ltac:(lia) Hs) as [p [ip [Hp1 [Hp2 Hp3]]]].
        pose proof (hit_witness (info_get_time ik) k (scrub_selected SCRUB_AUTO tl ll infos) infos O p ip Hp1 Hp2 Hp3) as Hhit.
        assert (8 <= now < 4294967296)%Z as Hnow8 by lia.
        assert (Z.of_N (info_get_time ik) < 8 * (now / 8))%Z as Hlt8.
        { pose proof (Z.mul_div_le now 8 ltac:(lia)). pose proof (Z.mod_pos_bound now 8 ltac:(lia)).
          pose proof (Z.div_mod now 8 ltac:(lia)). lia. }
        pose proof (rank_refresh (info_get_time ik) k now Hnow8 Hlt8 (scrub_selected SCRUB_AUTO tl ll infos) infos O (selected_length SCRUB_AUTO tl ll infos)) as Hr.
        unfold rank in *. simpl in Hrank. lia.
    + apply nth_error_None in Hs. lia.
Qed.
