(* C15 -- without bad marks a percentage scrub selects exactly count_limit stripes. *)
From Coq Require Import NArith ZArith List Bool Lia.
From Snap.Scrub Require Import ScrubModel ScrubInfo ScrubPlan ScrubBooks ScrubTheorems.
Import ListNotations.

Lemma walk_exact tl ll : forall infos c i,
  Forall (fun x => info_get_bad x = false) infos -> (c <= ll)%N ->
  count_sel_good infos (select_from SCRUB_AUTO tl ll c i infos)
  = (count_lt tl infos + Nat.min (N.to_nat (ll - c)) (count_eq tl infos))%nat.
Proof.
  unfold count_sel_good, count_lt, count_eq, countf.
  induction infos as [|x r IH]; intros c i Hnb Hc; [simpl; lia|].
  inversion Hnb as [|? ? Hbx Hnb']; subst.
  cbn [select_from].
  destruct (block_is_enabled SCRUB_AUTO tl ll c i x) as [b c'] eqn:E.
  rewrite timemap_cons. cbn [combine filter]. unfold sel_good at 1. cbn [fst snd]. rewrite Hbx. cbn [negb].
  unfold block_is_enabled in E. rewrite Hbx in E.
  destruct (N.eqb_spec x 0) as [Hx0|Hx0].
  - injection E as <- <-. assert (info_used x = false) as -> by (subst x; reflexivity).
    cbn [andb]. apply IH; assumption.
  - assert (info_used x = true) as -> by (unfold info_used; apply negb_true_iff, N.eqb_neq; assumption).
    cbn [filter].
    destruct (Z.gtb_spec (Z.of_N (info_get_time x)) tl) as [Hgt|Hle].
    + injection E as <- <-. cbn [andb].
      destruct (Z.ltb_spec (Z.of_N (info_get_time x)) tl); [lia|].
      destruct (Z.eqb_spec (Z.of_N (info_get_time x)) tl); [lia|]. apply IH; assumption.
    + destruct (Z.eqb_spec (Z.of_N (info_get_time x)) tl) as [Heq|Hne].
      * destruct (Z.ltb_spec (Z.of_N (info_get_time x)) tl); [lia|].
        destruct (N.leb_spec ll c) as [Hfull|Hroom].
        -- injection E as <- <-. cbn [andb]. rewrite IH by assumption.
           replace (N.to_nat (ll - c)) with O by lia. simpl. lia.
        -- injection E as <- <-. cbn [andb length]. rewrite IH by (assumption || lia).
           cbn [length]. replace (N.to_nat (ll - c)) with (S (N.to_nat (ll - (c + 1)))) by lia.
           simpl. lia.
      * injection E as <- <-. cbn [andb length].
        destruct (Z.ltb_spec (Z.of_N (info_get_time x)) tl); [|lia].
        cbn [length]. rewrite IH by assumption. lia.
Qed.

Lemma auto_exact t arg older now infos cl tl ll :
  scrub_limits t arg older now infos = Lim SCRUB_AUTO cl tl ll ->
  Forall (fun x => info_get_bad x = false) infos ->
  count_sel_good infos (scrub_selected SCRUB_AUTO tl ll infos) = N.to_nat cl.
Proof.
  intros Hl Hnb. unfold scrub_selected. rewrite walk_exact by (assumption || lia). rewrite N.sub_0_r.
  destruct (limits_auto_spec _ _ _ _ _ _ _ _ Hl) as [_ [_ [[-> [-> ->]]|[_ [_ [_ [H4 H5]]]]]]].
  - unfold count_lt. rewrite count_lt_zero. reflexivity.
  - lia.
Qed.
