(* C15 -- without bad marks a percentage scrub selects exactly count_limit stripes. *)
From Coq Require Import NArith ZArith List Bool Lia.
From Snap.Scrub Require Import ScrubModel ScrubInfo ScrubPlan ScrubBooks ScrubTheorems.
Import ListNotations.

Lemma walk_exact tl ll : forall infos c i,
  Forall (fun x => info_get_bad x = false) infos -> (c <= ll)%N ->
  count_sel_good infos (select_from SCRUB_AUTO tl ll c i infos)
  = (count_lt tl infos + Nat.min (N.to_nat (ll - c)) (count_eq tl infos))%nat.
Proof.
  unfold count_sel_good, count_lt, count_eq, countf.
  induction infos as [|x r IH]; intros c i Hnb Hc; [simpl; lia|].
  inversion Hnb as [|? ? Hbx Hnb']; subst.
  cbn [select_from].
  destruct (block_is_enabled SCRUB_AUTO tl ll c i x) as [b c'] eqn:E.
  rewrite timemap_cons. cbn [combine filter]. unfold sel_good at 1. cbn [fst snd]. rewrite Hbx. cbn [negb].
  unfold block_is_enabled in E. rewrite Hbx in E.
  destruct (N.eqb_spec x 0) as [Hx0|Hx0].
  - injection E as <- <-. assert (info_used x = false) as -> by (subst x; reflexivity).
    cbn [andb]. apply IH; assumption.
  - assert (info_used x = true) as -> by (unfold info_used; apply negb_true_iff, N.eqb_neq; assumption).
    cbn [filter].
    destruct (Z.gtb_spec (Z.of_N (info_get_time x)) tl) as [Hgt|Hle].
    + injection E as <- <-. cbn [andb].
      destruct (Z.ltb_spec (Z.of_N (info_get_time x)) tl); [lia|].
      destruct (Z.eqb_spec (Z.of_N (info_get_time x)) tl); [lia|]. apply IH; assumption.
    + destruct (Z.eqb_spec (Z.of_N (info_get_time x)) tl) as [Heq|Hne].
      * destruct (Z.ltb_spec (Z.of_N (info_get_time x)) tl); [lia|].
        destruct (N.leb_spec ll c) as [Hfull|Hroom].
        -- injection E as <- <-. cbn [andb]. rewrite IH by assumption.
           replace (N.to_nat (ll - c)) with O by lia. simpl. lia.
        -- injection E as <- <-. cbn [andb length]. rewrite IH by (assumption || lia).
           cbn [length]. replace (N.to_nat (ll - c)) with (S (N.to_nat (ll - (c + 1)))) by lia.
           simpl. lia.
      * injection E as <- <-. cbn [andb length].
        destruct (Z.ltb_spec (Z.of_N (info_get_time x)) tl); [|lia].
        cbn [length]. rewrite IH by assumption. lia.
Qed.

Lemma auto_exact t arg older now infos cl tl ll :
  scrub_limits t arg older now infos = Lim SCRUB_AUTO cl tl ll ->
  Forall (fun x => info_get_bad x = false) infos ->
  count_sel_good infos (scrub_selected SCRUB_AUTO tl ll infos) = N.to_nat cl.
Proof.
  intros Hl Hnb. unfold scrub_selected. rewrite walk_exact by (assumption || lia). rewrite N.sub_0_r.
  destruct (limits_auto_spec _ _ _ _ _ _ _ _ Hl) as [_ [_ [[-> [-> ->]]|[_ [_ [_ [H4 H5]]]]]]].
  - unfold count_lt. rewrite count_lt_zero. reflexivity.
  - lia.
Qed.

(* ---- the total, bad stripes included: the share plus at most the bad stripes ---- *)
Definition count_sel_all (infos : list N) (sel : list bool) : nat := countf (fun p : N * bool => snd p) (combine infos sel).
Definition count_bad (infos : list N) : nat := countf info_get_bad infos.

Lemma sel_all_split (l : list (N * bool)) :
  (countf (fun p => snd p) l <= countf sel_good l + countf (fun p => info_get_bad (fst p)) l)%nat.
Proof.
  unfold countf. induction l as [|[i b] r IH]; simpl; [lia|].
  unfold sel_good at 1. simpl. destruct b, (info_get_bad i); simpl; lia.
Qed.

Lemma bad_combine_le : forall infos (sel : list bool),
  (countf (fun p : N * bool => info_get_bad (fst p)) (combine infos sel) <= countf info_get_bad infos)%nat.
Proof.
  unfold countf. induction infos as [|i r IH]; intros sel; simpl; [lia|].
  destruct sel as [|b sr]; simpl; [destruct (info_get_bad i); simpl; lia|].
  specialize (IH sr). destruct (info_get_bad i); simpl; lia.
Qed.

Lemma auto_total_bound t arg older now infos cl tl ll :
  scrub_limits t arg older now infos = Lim SCRUB_AUTO cl tl ll ->
  (count_sel_all infos (scrub_selected SCRUB_AUTO tl ll infos) <= N.to_nat cl + count_bad infos)%nat.
Proof.
  intro Hl. destruct (auto_count_bound _ _ _ _ _ _ _ _ Hl) as [H1 _].
  unfold count_sel_all, count_bad.
  pose proof (sel_all_split (combine infos (scrub_selected SCRUB_AUTO tl ll infos))) as H2.
  pose proof (bad_combine_le infos (scrub_selected SCRUB_AUTO tl ll infos)) as H3.
  unfold count_sel_good in H1. lia.
Qed.
