(* C15 -- lemmas about the info word (elem.h) and about the sort of the times. *)
From Coq Require Import NArith ZArith List Bool Lia Permutation Sorted.
From Snap.Scrub Require Import ScrubModel.
Import ListNotations.

(* ---------------------------------------------------------------------------------------------- *)
(* flags as bits *)

Lemma get_bad_testbit i : info_get_bad i = N.testbit i 0.
Proof. destruct i as [|[p|p|]]; reflexivity. Qed.
Lemma get_rehash_testbit i : info_get_rehash i = N.testbit i 1.
Proof. destruct i as [|[[p|p|]|[p|p|]|]]; reflexivity. Qed.
Lemma get_justsynced_testbit i : info_get_justsynced i = N.testbit i 2.
Proof. destruct i as [|[[[p|p|]|[p|p|]|]|[[p|p|]|[p|p|]|]|]]; reflexivity. Qed.

Lemma mask_is_ones : INFO_MASK = N.ones 3.
Proof. reflexivity. Qed.

Lemma testbit_mask n : N.testbit INFO_MASK n = (n <? 3)%N.
Proof.
  rewrite mask_is_ones. destruct (N.ltb_spec n 3).
  - apply N.ones_spec_low; assumption.
  - apply N.ones_spec_high; assumption.
Qed.

Lemma get_time_testbit i n : N.testbit (info_get_time i) n = N.testbit i n && negb (n <? 3)%N.
Proof. unfold info_get_time. rewrite N.ldiff_spec, testbit_mask. reflexivity. Qed.

Lemma get_time_arith i : info_get_time i = (8 * (i / 8))%N.
Proof.
  unfold info_get_time. rewrite mask_is_ones, N.ldiff_ones_r, N.shiftl_mul_pow2, N.shiftr_div_pow2.
  change (2 ^ 3)%N with 8%N. lia.
Qed.

Lemma get_time_le i : (info_get_time i <= i)%N.
Proof. rewrite get_time_arith. apply N.mul_div_le. discriminate. Qed.

Lemma get_time_idem i : info_get_time (info_get_time i) = info_get_time i.
Proof.
  apply N.bits_inj. intro n. rewrite !get_time_testbit. destruct (N.testbit i n), (n <? 3)%N; reflexivity.
Qed.

Lemma testbit_1 n : N.testbit 1 n = (n =? 0)%N.
Proof. destruct n as [|[p|p|]]; reflexivity. Qed.
Lemma testbit_2 n : N.testbit 2 n = (n =? 1)%N.
Proof. destruct n as [|[[p|p|]|[p|p|]|]]; reflexivity. Qed.
Lemma testbit_4 n : N.testbit 4 n = (n =? 2)%N.
Proof. destruct n as [|[[[p|p|]|[p|p|]|]|[[p|p|]|[p|p|]|]|]]; reflexivity. Qed.

Lemma info_used_bad i : info_get_bad i = true -> info_used i = true.
Proof. destruct i; [discriminate|reflexivity]. Qed.

(* info_set_bad keeps everything else *)
Lemma set_bad_bad i : info_get_bad (info_set_bad i) = true.
Proof. rewrite get_bad_testbit. unfold info_set_bad. rewrite N.lor_spec, testbit_1. apply orb_true_r. Qed.
Lemma set_bad_time i : info_get_time (info_set_bad i) = info_get_time i.
Proof.
  apply N.bits_inj. intro n. rewrite !get_time_testbit. unfold info_set_bad. rewrite N.lor_spec, testbit_1.
  destruct (N.eqb_spec n 0) as [->|]; [rewrite !andb_false_r; reflexivity|rewrite orb_false_r; reflexivity].
Qed.
Lemma set_bad_rehash i : info_get_rehash (info_set_bad i) = info_get_rehash i.
Proof. rewrite !get_rehash_testbit. unfold info_set_bad. rewrite N.lor_spec, testbit_1. apply orb_false_r. Qed.
Lemma set_bad_justsynced i : info_get_justsynced (info_set_bad i) = info_get_justsynced i.
Proof. rewrite !get_justsynced_testbit. unfold info_set_bad. rewrite N.lor_spec, testbit_1. apply orb_false_r. Qed.
Lemma set_bad_used i : info_used (info_set_bad i) = true.
Proof. apply info_used_bad, set_bad_bad. Qed.

(* info_make *)
Lemma make_testbit t e r j n :
  N.testbit (info_make t e r j) n =
  (N.testbit (u32_of_time t) n && negb (n <? 3)%N) || (e && (n =? 0)%N) || (r && (n =? 1)%N) || (j && (n =? 2)%N).
Proof.
  unfold info_make. fold (info_get_time (u32_of_time t)).
  destruct e, r, j; rewrite ?N.lor_spec, ?testbit_1, ?testbit_2, ?testbit_4, get_time_testbit; simpl;
    rewrite ?orb_false_r; reflexivity.
Qed.

Lemma make_time t e r j : info_get_time (info_make t e r j) = info_get_time (u32_of_time t).
Proof.
  apply N.bits_inj. intro n. rewrite !get_time_testbit, make_testbit.
  destruct (N.ltb_spec n 3) as [H|H]; [rewrite !andb_false_r; reflexivity|].
  assert ((n =? 0)%N = false) as -> by (apply N.eqb_neq; lia).
  assert ((n =? 1)%N = false) as -> by (apply N.eqb_neq; lia).
  assert ((n =? 2)%N = false) as -> by (apply N.eqb_neq; lia).
  rewrite !andb_false_r, !orb_false_r, !andb_true_r. reflexivity.
Qed.
Lemma make_bad t e r j : info_get_bad (info_make t e r j) = e.
Proof. rewrite get_bad_testbit, make_testbit. simpl. rewrite ?andb_false_r, ?andb_true_r, ?orb_false_r. reflexivity. Qed.
Lemma make_rehash t e r j : info_get_rehash (info_make t e r j) = r.
Proof. rewrite get_rehash_testbit, make_testbit. simpl. rewrite ?andb_false_r, ?andb_true_r, ?orb_false_r. reflexivity. Qed.
Lemma make_justsynced t e r j : info_get_justsynced (info_make t e r j) = j.
Proof. rewrite get_justsynced_testbit, make_testbit. simpl. rewrite ?andb_false_r, ?andb_true_r, ?orb_false_r. reflexivity. Qed.

Lemma u32_small t : (0 <= t < 4294967296)%Z -> u32_of_time t = Z.to_N t.
Proof. intro H. unfold u32_of_time. rewrite Z.mod_small by assumption. reflexivity. Qed.

(* the time written by a verified scrub at `now` (no wrap: the year-2106 case is excluded by hypothesis) *)
Lemma make_time_now now : (0 <= now < 4294967296)%Z ->
  Z.of_N (info_get_time (info_make now false false false)) = (8 * (now / 8))%Z.
Proof.
  intro H. rewrite make_time, u32_small, get_time_arith by assumption.
  rewrite N2Z.inj_mul, N2Z.inj_div, Z2N.id by lia. reflexivity.
Qed.

Lemma make_now_plain now : info_make now false false false = info_get_time (u32_of_time now).
Proof. reflexivity. Qed.

Lemma make_now_used now : (8 <= now < 4294967296)%Z -> info_used (info_make now false false false) = true.
Proof.
  intro H. unfold info_used. apply negb_true_iff, N.eqb_neq. intro E.
  assert (Z.of_N (info_get_time (info_make now false false false)) = 0%Z) as E2 by (rewrite E; reflexivity).
  rewrite make_time_now in E2 by lia.
  assert (1 <= now / 8)%Z by (apply Z.div_le_lower_bound; lia). lia.
Qed.

(* ---------------------------------------------------------------------------------------------- *)
(* the sort *)

Lemma insert_perm x l : Permutation (insert_time x l) (x :: l).
Proof.
  induction l as [|y r IH]; simpl; [apply Permutation_refl|].
  destruct (x <=? y)%Z; [apply Permutation_refl|].
  eapply perm_trans; [apply perm_skip, IH|apply perm_swap].
Qed.

Lemma sort_perm l : Permutation (sort_times l) l.
Proof.
  induction l as [|x r IH]; simpl; [constructor|].
  eapply perm_trans; [apply insert_perm|apply perm_skip, IH].
Qed.

Lemma insert_sorted x l : StronglySorted Z.le l -> StronglySorted Z.le (insert_time x l).
Proof.
  induction 1 as [|y r Hs IH Hf]; simpl; [repeat constructor|].
  destruct (Z.leb_spec x y) as [Hxy|Hxy].
  - constructor; [constructor; assumption|]. constructor; [assumption|].
    rewrite Forall_forall in *. intros z Hz. specialize (Hf z Hz). lia.
  - constructor; [assumption|]. rewrite Forall_forall in *. intros z Hz.
    apply (Permutation_in _ (insert_perm x r)) in Hz. destruct Hz as [<-|Hz]; [lia|auto].
Qed.

Lemma sort_sorted l : StronglySorted Z.le (sort_times l).
Proof. induction l; simpl; [constructor|apply insert_sorted; assumption]. Qed.

Lemma sort_length l : length (sort_times l) = length l.
Proof. apply Permutation_length, sort_perm. Qed.

(* index form of sortedness *)
Lemma sorted_nth l : StronglySorted Z.le l ->
  forall i j, (i <= j)%nat -> (j < length l)%nat -> (nth i l 0 <= nth j l 0)%Z.
Proof.
  induction 1 as [|x r Hs IH Hf]; intros i j Hij Hj; simpl in Hj; [lia|].
  destruct i, j; simpl; try lia.
  - rewrite Forall_forall in Hf. apply Hf, nth_In. lia.
  - apply IH; lia.
Qed.

(* counting with a boolean predicate, invariant under permutation *)
Definition countf {A} (f : A -> bool) (l : list A) : nat := length (filter f l).

Lemma countf_perm {A} (f : A -> bool) l l' : Permutation l l' -> countf f l = countf f l'.
Proof.
  unfold countf. induction 1; simpl; auto.
  - destruct (f x); simpl; auto.
  - destruct (f x), (f y); reflexivity.
  - congruence.
Qed.

Lemma countf_le_length {A} (f : A -> bool) l : (countf f l <= length l)%nat.
Proof. unfold countf. induction l; simpl; [lia|]. destruct (f a); simpl; lia. Qed.
