(* C15 -- executable model of the scrub plan (cmdline/scrub.c:53-102, 722-870), of the per-stripe
   book-keeping of state_scrub_process (cmdline/scrub.c:330-613) and of the info word (cmdline/elem.h:1119-1220).
   Definitions only (this file is extracted).  Times are time_t (signed 64 bit) = Z; the info word is the
   uint32_t snapraid_info = N below 2^32; block_off_t is uint32_t = N; C array indices are nat. *)
From Coq Require Import NArith ZArith List Bool.
Import ListNotations.

(* ------------------------------------------------------------------------------------------------ *)
(* elem.h: the info word.  bit 0 = bad, bit 1 = rehash, bit 2 = justsynced, bits 3..31 = time / 8    *)

Definition INFO_MASK : N := 7.

(* conversion of a time_t to uint32_t *)
Definition u32_of_time (t : Z) : N := Z.to_N (t mod 4294967296).

(* info_make: `last_access & ~INFO_MASK` stored in a uint32_t, then the three flag bits *)
Definition info_make (last_access : Z) (error rehash justsynced : bool) : N :=
  let info0 := N.ldiff (u32_of_time last_access) INFO_MASK in
  let info1 := if error then N.lor info0 1 else info0 in
  let info2 := if rehash then N.lor info1 2 else info1 in
  if justsynced then N.lor info2 4 else info2.

Definition info_get_time (info : N) : N := N.ldiff info INFO_MASK.
Definition info_get_bad (info : N) : bool := negb (N.land info 1 =? 0)%N.
Definition info_get_rehash (info : N) : bool := negb (N.land info 2 =? 0)%N.
Definition info_get_justsynced (info : N) : bool := negb (N.land info 4 =? 0)%N.
Definition info_set_bad (info : N) : N := N.lor info 1.
Definition info_set_rehash (info : N) : N := N.lor info 2.

(* `info == 0`: the position is not used *)
Definition info_used (info : N) : bool := negb (info =? 0)%N.

(* ------------------------------------------------------------------------------------------------ *)
(* state.h SCRUB_*, snapraid.c option parsing                                                        *)

Inductive plan_kind := SCRUB_AUTO | SCRUB_BAD | SCRUB_NEW | SCRUB_FULL | SCRUB_EVEN.

(* the `plan` argument of state_scrub: no -p (SCRUB_AUTO = -1), -p bad/new/full, -p <percentage> *)
Inductive plan_arg := ArgDefault | ArgBad | ArgNew | ArgFull | ArgPct (p : N).

(* --test-force-scrub-even, --test-force-scrub-at *)
Record test_opts := { force_scrub_even : bool; force_scrub_at : N }.
Definition no_test_opts := {| force_scrub_even := false; force_scrub_at := 0 |}.

(* snapraid.c:653-677: `-p` accepts bad/new/full or a decimal number, `-o` a decimal number.  The number is read with
   strtoul (unsigned long, saturating) and stored in an `int` before the range test `plan > 100` / `olderthan > 1000`,
   so a value whose low 32 bits are a negative int passes the test and is then read as one of the SCRUB_* constants
   (state.h:265-269) or as "no value".  v = the decimal value of the digits; None = "Invalid plan/percentage" /
   "Invalid number of days". *)
Definition int_of_ulong (v : N) : Z :=
  let u := if (v <? 18446744073709551616)%N then v else 18446744073709551615%N in    (* ULONG_MAX on overflow *)
  let w := (u mod 4294967296)%N in
  if (w <? 2147483648)%N then Z.of_N w else (Z.of_N w - 4294967296)%Z.

Definition parse_plan_number (v : N) : option plan_arg :=
  let p := int_of_ulong v in
  if (p >? 100)%Z then None
  else if (0 <=? p)%Z then Some (ArgPct (Z.to_N p))
  else if (p =? -2)%Z then Some ArgBad
  else if (p =? -3)%Z then Some ArgNew
  else if (p =? -4)%Z then Some ArgFull
  else Some ArgDefault.                       (* any other negative plan: `plan >= 0` is false, the default quota *)

(* Some None = accepted but treated as if -o was not given (olderthan < 0) *)
Definition parse_older_number (v : N) : option (option N) :=
  let p := int_of_ulong v in
  if (p >? 1000)%Z then None
  else if (0 <=? p)%Z then Some (Some (Z.to_N p))
  else Some None.

(* ------------------------------------------------------------------------------------------------ *)
(* scrub.c:722-732  md(a, b, c) = a * b / c rounded up, uint32 arguments, uint64 intermediate          *)

Definition md (a b c : N) : N :=
  ((((a * b) mod 18446744073709551616 + (c - 1)) mod 18446744073709551616) / c) mod 4294967296.

(* ------------------------------------------------------------------------------------------------ *)
(* scrub.c:734-858  the limits                                                                        *)

(* the temp vector: times of the used positions, in position order *)
Definition timemap_of (infos : list N) : list Z :=
  map (fun info => Z.of_N (info_get_time info)) (filter info_used infos).

(* qsort with time_compare: the result is the ascending rearrangement, whatever the algorithm *)
Fixpoint insert_time (x : Z) (l : list Z) : list Z :=
  match l with
  | [] => [x]
  | y :: r => if (x <=? y)%Z then x :: l else y :: insert_time x r
  end.
Definition sort_times (l : list Z) : list Z := fold_right insert_time [] l.

(* while (countlimit > 0 && timemap[countlimit - 1] > recentlimit) --countlimit; *)
Fixpoint decrease_limit (tm : list Z) (recentlimit : Z) (countlimit : nat) : nat :=
  match countlimit with
  | O => O
  | S c => if (nth c tm 0 >? recentlimit)%Z then decrease_limit tm recentlimit c else countlimit
  end.

(* lastlimit = 1; while (countlimit > lastlimit && timemap[countlimit - lastlimit - 1] == timelimit) ++lastlimit;
   fuel = countlimit is always enough (ScrubProofs.grow_last_fuel) *)
Fixpoint grow_last (tm : list Z) (timelimit : Z) (countlimit lastlimit fuel : nat) : nat :=
  match fuel with
  | O => lastlimit
  | S f =>
    if (lastlimit <? countlimit)%nat && (nth (countlimit - lastlimit - 1) tm 0 =? timelimit)%Z
    then grow_last tm timelimit countlimit (S lastlimit) f
    else lastlimit
  end.

Inductive limits :=
| LimFatalOlder                      (* "You can specify -o, --older-than only with a numeric percentage." *)
| LimFatalEmpty                      (* "The array appears to be empty."                                   *)
| Lim (pk : plan_kind) (countlimit : N) (timelimit : Z) (lastlimit : N).

Definition is_named_plan (a : plan_arg) : bool :=
  match a with ArgBad | ArgNew | ArgFull => true | _ => false end.

(* countlimit / recentlimit before looking at the array (scrub.c:770-799); None for the non-AUTO plans *)
Definition plan_of_args (t : test_opts) (arg : plan_arg) (olderthan : option N) (now : Z) (blockmax : N)
  : plan_kind * N * Z :=
  if force_scrub_even t then (SCRUB_EVEN, 0%N, 0%Z)
  else match arg with
  | ArgFull => (SCRUB_FULL, 0%N, 0%Z)
  | ArgNew => (SCRUB_NEW, 0%N, 0%Z)
  | ArgBad => (SCRUB_BAD, 0%N, 0%Z)
  | _ =>
    if negb (force_scrub_at t =? 0)%N then (SCRUB_AUTO, force_scrub_at t, now)
    else
      let countlimit := match arg with
                        | ArgPct p => md blockmax p 100
                        | _ => md blockmax 1 12       (* by default 8.33% of the array *)
                        end in
      let recentlimit := match olderthan with
                         | Some d => (now - Z.of_N d * 24 * 3600)%Z
                         | None => (now - 10 * 24 * 3600)%Z    (* by default 10 days *)
                         end in
      (SCRUB_AUTO, countlimit, recentlimit)
  end.

Definition scrub_limits (t : test_opts) (arg : plan_arg) (olderthan : option N) (now : Z) (infos : list N) : limits :=
  if is_named_plan arg && (match olderthan with Some _ => true | None => false end) then LimFatalOlder
  else
    let blockmax := N.of_nat (length infos) in
    let '(pk, countlimit0, recentlimit) := plan_of_args t arg olderthan now blockmax in
    let tm := sort_times (timemap_of infos) in
    let count := length tm in
    match count with
    | O => LimFatalEmpty
    | _ =>
      match pk with
      | SCRUB_AUTO =>
        (* no more than the full count *)
        let c1 := if (N.of_nat count <? countlimit0)%N then count else N.to_nat countlimit0 in
        (* decrease until we reach the specific recentlimit *)
        let c2 := decrease_limit tm recentlimit c1 in
        match c2 with
        | O => Lim SCRUB_AUTO 0%N 0%Z 0%N
        | S k =>
          let timelimit := nth k tm 0%Z in
          let lastlimit := grow_last tm timelimit c2 1 c2 in
          Lim SCRUB_AUTO (N.of_nat c2) timelimit (N.of_nat lastlimit)
        end
      | _ => Lim pk 0%N 0%Z 0%N       (* timelimit/lastlimit are not initialised and never read *)
      end
    end.

(* ------------------------------------------------------------------------------------------------ *)
(* scrub.c:53-102  block_is_enabled, with the countlast state threaded                               *)

Definition block_is_enabled (pk : plan_kind) (timelimit : Z) (lastlimit countlast : N) (i info : N) : bool * N :=
  if (info =? 0)%N then (false, countlast)                   (* don't scrub unused blocks in all plans *)
  else if info_get_bad info then (true, countlast)            (* bad blocks are always scrubbed *)
  else match pk with
  | SCRUB_FULL => (true, countlast)
  | SCRUB_EVEN => ((i mod 2 =? 0)%N, countlast)
  | SCRUB_NEW => (info_get_justsynced info, countlast)
  | SCRUB_BAD => (false, countlast)
  | SCRUB_AUTO =>
    let blocktime := Z.of_N (info_get_time info) in
    if (blocktime >? timelimit)%Z then (false, countlast)     (* too new *)
    else if (blocktime =? timelimit)%Z then
      if (lastlimit <=? countlast)%N then (false, countlast)  (* reached the count limit *)
      else (true, (countlast + 1)%N)
    else (true, countlast)
  end.

(* the selection loop of state_scrub_process (scrub.c:288-296): positions in increasing order *)
Fixpoint select_from (pk : plan_kind) (timelimit : Z) (lastlimit countlast i : N) (infos : list N) : list bool :=
  match infos with
  | [] => []
  | info :: r =>
    let '(b, c) := block_is_enabled pk timelimit lastlimit countlast i info in
    b :: select_from pk timelimit lastlimit c (i + 1)%N r
  end.

Definition scrub_selected (pk : plan_kind) (timelimit : Z) (lastlimit : N) (infos : list N) : list bool :=
  select_from pk timelimit lastlimit 0 0 infos.

(* limits + selection; None when state_scrub exits before selecting *)
Definition scrub_plan (t : test_opts) (arg : plan_arg) (olderthan : option N) (now : Z) (infos : list N)
  : option (list bool) :=
  match scrub_limits t arg olderthan now infos with
  | Lim pk _ tl ll => Some (scrub_selected pk tl ll infos)
  | _ => None
  end.

(* ------------------------------------------------------------------------------------------------ *)
(* scrub.c:330-613  one stripe                                                                        *)

Inductive block_state := BLOCK_EMPTY | BLOCK_BLK | BLOCK_CHG | BLOCK_REP | BLOCK_DELETED.
Definition block_has_file (b : block_state) : bool :=
  match b with BLOCK_BLK | BLOCK_CHG | BLOCK_REP => true | _ => false end.
Definition block_has_invalid_parity (b : block_state) : bool :=
  match b with BLOCK_DELETED | BLOCK_CHG | BLOCK_REP => true | _ => false end.
Definition block_has_updated_hash (b : block_state) : bool :=
  match b with BLOCK_BLK | BLOCK_REP => true | _ => false end.

Inductive task_state := TASK_DONE | TASK_ERROR_CONTINUE | TASK_IOERROR_CONTINUE | TASK_ERROR | TASK_IOERROR.

(* what the data reader and the hash comparison report for one disk slot of the stripe *)
Record data_task := {
  dt_disk : bool;              (* the disk position is used (handle->disk != 0)                         *)
  dt_block : block_state;      (* state of the block of this disk at this position                       *)
  dt_ts_diff : bool;           (* task->is_timestamp_different: size/mtime differ from the last sync     *)
  dt_state : task_state;
  dt_hash_eq : bool            (* memcmp(hash, block->hash) == 0 (meaningful when read and hashed)       *)
}.
(* what the parity reader reports, and whether the computed parity equals the one read *)
Record parity_task := { pt_state : task_state; pt_equal : bool }.

Record stripe_flags := {
  error_on_this_block : bool; silent_error_on_this_block : bool; io_error_on_this_block : bool;
  block_is_unsynced : bool }.
Record counters := { c_error : N; c_silent : N; c_io : N }.

Definition no_flags := {| error_on_this_block := false; silent_error_on_this_block := false;
                          io_error_on_this_block := false; block_is_unsynced := false |}.
Definition set_error (f : stripe_flags) := {| error_on_this_block := true; silent_error_on_this_block := silent_error_on_this_block f;
   io_error_on_this_block := io_error_on_this_block f; block_is_unsynced := block_is_unsynced f |}.
Definition set_silent (f : stripe_flags) := {| error_on_this_block := error_on_this_block f; silent_error_on_this_block := true;
   io_error_on_this_block := io_error_on_this_block f; block_is_unsynced := block_is_unsynced f |}.
Definition set_io (f : stripe_flags) := {| error_on_this_block := error_on_this_block f; silent_error_on_this_block := silent_error_on_this_block f;
   io_error_on_this_block := true; block_is_unsynced := block_is_unsynced f |}.
Definition or_unsynced (f : stripe_flags) (b : bool) := {| error_on_this_block := error_on_this_block f;
   silent_error_on_this_block := silent_error_on_this_block f;
   io_error_on_this_block := io_error_on_this_block f; block_is_unsynced := block_is_unsynced f || b |}.
Definition inc_error (c : counters) := {| c_error := c_error c + 1; c_silent := c_silent c; c_io := c_io c |}.
Definition inc_silent (c : counters) := {| c_error := c_error c; c_silent := c_silent c + 1; c_io := c_io c |}.
Definition inc_io (c : counters) := {| c_error := c_error c; c_silent := c_silent c; c_io := c_io c + 1 |}.

(* scrub.c:361-493: one iteration of the data loop; None = goto bail *)
Definition data_step (io_error_limit : N) (st : stripe_flags * counters) (t : data_task)
  : option (stripe_flags * counters) :=
  let '(f, c) := st in
  if negb (dt_disk t) then Some (f, c)                                     (* if (!disk) continue; *)
  else
    let inv := block_has_invalid_parity (dt_block t) in
    let f := or_unsynced f inv in                                          (* block_is_unsynced = 1 *)
    if negb (block_has_file (dt_block t)) then Some (f, c)                 (* continue *)
    else
      let f := or_unsynced f (dt_ts_diff t) in
      let file_is_unsynced := inv || dt_ts_diff t in
      match dt_state t with
      | TASK_IOERROR => None
      | TASK_ERROR => None
      | TASK_ERROR_CONTINUE => Some (set_error f, inc_error c)
      | TASK_IOERROR_CONTINUE =>
        let c := inc_io c in
        if (io_error_limit <=? c_io c)%N then None else Some (set_io f, c)
      | TASK_DONE =>
        if block_has_updated_hash (dt_block t) && negb (dt_hash_eq t) then
          if file_is_unsynced then Some (set_error f, inc_error c)
          else Some (set_silent f, inc_silent c)
        else Some (f, c)
      end.

(* scrub.c:505-556: one iteration of the parity read loop *)
Definition parity_step (io_error_limit : N) (st : stripe_flags * counters) (t : parity_task)
  : option (stripe_flags * counters) :=
  let '(f, c) := st in
  match pt_state t with
  | TASK_IOERROR => None
  | TASK_ERROR => None
  | TASK_ERROR_CONTINUE => Some (set_error f, inc_error c)
  | TASK_IOERROR_CONTINUE =>
    let c := inc_io c in
    if (io_error_limit <=? c_io c)%N then None else Some (set_io f, c)
  | TASK_DONE => Some (f, c)
  end.

(* scrub.c:566-585: one iteration of the parity compare loop (buffer_recov[l] != 0 iff the read was done) *)
Definition compare_step (st : stripe_flags * counters) (t : parity_task) : stripe_flags * counters :=
  let '(f, c) := st in
  match pt_state t with
  | TASK_DONE =>
    if negb (pt_equal t) then
      if block_is_unsynced f then (set_error f, inc_error c) else (set_silent f, inc_silent c)
    else (f, c)
  | _ => (f, c)
  end.

Fixpoint fold_opt {A B} (step : A -> B -> option A) (a : A) (l : list B) : option A :=
  match l with
  | [] => Some a
  | x :: r => match step a x with Some a' => fold_opt step a' r | None => None end
  end.

(* the flags of the stripe after the data loop, the parity loop and the compare *)
Definition stripe_outcome (io_error_limit : N) (c : counters) (ds : list data_task) (ps : list parity_task)
  : option (stripe_flags * counters) :=
  match fold_opt (data_step io_error_limit) (no_flags, c) ds with
  | None => None
  | Some st1 =>
    match fold_opt (parity_step io_error_limit) st1 ps with
    | None => None
    | Some (f, c2) =>
      if negb (error_on_this_block f) && negb (silent_error_on_this_block f) && negb (io_error_on_this_block f)
      then Some (fold_left compare_step ps (f, c2))
      else Some (f, c2)
    end
  end.

(* scrub.c:594-613 *)
Definition scrub_update (f : stripe_flags) (info : N) (now : Z) : N :=
  if silent_error_on_this_block f || io_error_on_this_block f then info_set_bad info
  else if error_on_this_block f then info
  else info_make now false false false.

(* one selected stripe; None = goto bail (the info word of this stripe is not written) *)
Definition scrub_stripe (io_error_limit : N) (c : counters) (ds : list data_task) (ps : list parity_task)
  (info : N) (now : Z) : option (N * counters) :=
  match stripe_outcome io_error_limit c ds ps with
  | None => None
  | Some (f, c') => Some (scrub_update f info now, c')
  end.

(* a whole run over the array when every selected stripe has the given flags (used by the coverage theorem
   and by the correspondence check: the info array after the run) *)
Fixpoint apply_outcomes (sel : list bool) (fl : list stripe_flags) (infos : list N) (now : Z) : list N :=
  match sel, fl, infos with
  | s :: sr, f :: fr, info :: ir => (if s then scrub_update f info now else info) :: apply_outcomes sr fr ir now
  | _, _, _ => infos
  end.
