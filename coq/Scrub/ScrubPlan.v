(* C15 -- the limits computed by state_scrub and the selection walk: lemmas. *)
From Coq Require Import NArith ZArith List Bool Lia Permutation Sorted.
From Snap.Scrub Require Import ScrubModel ScrubInfo.
Import ListNotations.

(* ---------------------------------------------------------------------------------------------- *)
(* md *)

Lemma md_ceil a b c : (a < 4294967296)%N -> (0 < c)%N -> (b <= c)%N -> (c <= 4294967296)%N ->
  md a b c = ((a * b + (c - 1)) / c)%N /\ (md a b c <= a)%N.
Proof.
  intros Ha Hc Hb Hc2. unfold md.
  assert (a * b <= a * c)%N as Hab by (apply N.mul_le_mono_l; assumption).
  assert (a * c <= 4294967295 * 4294967296)%N as Hac by (apply N.mul_le_mono; lia).
  change (4294967295 * 4294967296)%N with 18446744069414584320%N in Hac.
  rewrite (N.mod_small (a * b)) by lia.
  assert (a * b + (c - 1) < 18446744073709551616)%N as Hs.
  { lia. }
  rewrite (N.mod_small (a * b + (c - 1))) by assumption.
  assert ((a * b + (c - 1)) / c <= a)%N as Hq.
  { apply N.lt_succ_r. apply N.div_lt_upper_bound; lia. }
  rewrite N.mod_small by lia. split; [reflexivity|assumption].
Qed.

(* ---------------------------------------------------------------------------------------------- *)
(* the two loops over the sorted vector *)

Section Loops.
Variable tm : list Z.
Hypothesis tm_sorted : StronglySorted Z.le tm.

Lemma decrease_spec recent c1 :
  let c2 := decrease_limit tm recent c1 in
  (c2 <= c1)%nat /\ (c2 = O \/ (nth (c2 - 1) tm 0%Z <= recent)%Z).
Proof.
  induction c1 as [|c IH]; simpl; [split; [lia|left; reflexivity]|].
  destruct (Z.gtb_spec (nth c tm 0%Z) recent) as [H|H].
  - destruct IH as [IH1 IH2]. split; [lia|assumption].
  - split; [lia|right]. simpl. rewrite Nat.sub_0_r. assumption.
Qed.

Variable tl : Z.
Variable cl : nat.

Definition last_inv (ll : nat) : Prop :=
  (1 <= ll <= cl)%nat /\ forall k, (cl - ll <= k < cl)%nat -> nth k tm 0%Z = tl.

Lemma grow_last_spec fuel : forall ll, last_inv ll -> (cl - ll <= fuel)%nat ->
  let r := grow_last tm tl cl ll fuel in
  last_inv r /\ (r = cl \/ nth (cl - r - 1) tm 0%Z <> tl).
Proof.
  induction fuel as [|f IH]; intros ll Hinv Hf; simpl.
  - split; [assumption|left]. destruct Hinv as [[? ?] _]. lia.
  - destruct (Nat.ltb_spec ll cl) as [Hlt|Hge]; simpl.
    + destruct (Z.eqb_spec (nth (cl - ll - 1) tm 0%Z) tl) as [He|Hne].
      * apply IH; [|lia]. destruct Hinv as [[H1 H2] H3]. split; [lia|].
        intros k Hk. destruct (Nat.eq_dec k (cl - ll - 1)) as [->|Hk2]; [assumption|]. apply H3. lia.
      * split; [assumption|right; assumption].
    + split; [assumption|left]. destruct Hinv as [[? ?] _]. lia.
Qed.

(* a block of indices below/above a threshold determines the count *)
Lemma count_lt_split : forall (l : list Z) a, (a <= length l)%nat ->
  (forall k, (k < a)%nat -> (nth k l 0%Z < tl)%Z) ->
  (forall k, (a <= k < length l)%nat -> (tl <= nth k l 0%Z)%Z) ->
  countf (fun x => (x <? tl)%Z) l = a.
Proof.
  unfold countf. induction l as [|x r IH]; intros a Ha Hlo Hhi; simpl in *; [lia|].
  destruct a as [|a'].
  - assert (tl <= x)%Z as Hx by (apply (Hhi O); lia).
    destruct (Z.ltb_spec x tl); [lia|]. apply IH; [lia|intros; lia|].
    intros k Hk. apply (Hhi (S k)). lia.
  - assert (x < tl)%Z as Hx by (apply (Hlo O); lia).
    destruct (Z.ltb_spec x tl); [|lia]. simpl. f_equal. apply IH; [lia| |].
    + intros k Hk. apply (Hlo (S k)). lia.
    + intros k Hk. apply (Hhi (S k)). lia.
Qed.

Lemma count_eq_block : forall (l : list Z) a b, (a <= b)%nat -> (b <= length l)%nat ->
  (forall k, (a <= k < b)%nat -> nth k l 0%Z = tl) ->
  (b - a <= countf (fun x => (x =? tl)%Z) l)%nat.
Proof.
  unfold countf. induction l as [|x r IH]; intros a b Hab Hb Hk; simpl in *; [lia|].
  destruct b as [|b']; [lia|]. destruct a as [|a'].
  - assert (x = tl) as -> by (apply (Hk O); lia). rewrite Z.eqb_refl. simpl.
    specialize (IH O b'). simpl in IH. rewrite Nat.sub_0_r in IH.
    apply le_n_S. apply IH; [lia|lia|]. intros k Hk2. apply (Hk (S k)). lia.
  - specialize (IH a' b'). simpl.
    assert (b' - a' <= length (filter (fun x0 => (x0 =? tl)%Z) r))%nat.
    { apply IH; [lia|lia|]. intros k Hk2. apply (Hk (S k)). lia. }
    destruct (x =? tl)%Z; simpl; lia.
Qed.

End Loops.

(* the result of the limit computation on a sorted vector *)
Lemma limits_sorted_spec tm recent c1 k :
  StronglySorted Z.le tm -> (c1 <= length tm)%nat ->
  decrease_limit tm recent c1 = S k ->
  let c2 := S k in
  let tl := nth k tm 0%Z in
  let ll := grow_last tm tl c2 1 c2 in
  (c2 <= c1)%nat /\ (tl <= recent)%Z /\ (1 <= ll)%nat /\
  (countf (fun x => (x <? tl)%Z) tm + ll = c2)%nat /\
  (ll <= countf (fun x => (x =? tl)%Z) tm)%nat.
Proof.
  intros Hs Hc1 Hd c2 tl ll.
  pose proof (decrease_spec tm recent c1) as Hdec. simpl in Hdec. rewrite Hd in Hdec.
  destruct Hdec as [Hle [Hz|Hrec]]; [discriminate|].
  simpl in Hrec. rewrite Nat.sub_0_r in Hrec.
  assert (last_inv tm tl c2 1) as Hinv1.
  { split; [unfold c2; lia|]. intros j Hj. unfold c2 in Hj. assert (j = k) as -> by lia. reflexivity. }
  destruct (grow_last_spec tm tl c2 c2 1 Hinv1) as [[[Hl1 Hl2] Hl3] Hstop]; [lia|].
  fold ll in Hl1, Hl2, Hl3, Hstop.
  assert (forall i j, (i <= j)%nat -> (j < length tm)%nat -> (nth i tm 0%Z <= nth j tm 0%Z)%Z) as Hnth
    by (apply sorted_nth; assumption).
  split; [assumption|]. split; [assumption|]. split; [assumption|]. split.
  - assert (countf (fun x => (x <? tl)%Z) tm = c2 - ll)%nat as ->; [|lia].
    apply count_lt_split.
    + unfold c2 in *. lia.
    + intros j Hj. destruct Hstop as [Hstop|Hstop]; [lia|].
      assert (nth j tm 0%Z <= nth (c2 - ll - 1) tm 0%Z)%Z by (apply Hnth; unfold c2 in *; lia).
      assert (nth (c2 - ll - 1) tm 0%Z <= nth k tm 0%Z)%Z by (apply Hnth; unfold c2 in *; lia).
      fold tl in H0. lia.
    + intros j Hj. destruct (Nat.lt_ge_cases j c2) as [Hjc|Hjc].
      * rewrite Hl3 by lia. lia.
      * unfold tl. apply Hnth; unfold c2 in *; lia.
  - replace ll with (c2 - (c2 - ll))%nat at 1 by lia.
    apply count_eq_block; [lia|unfold c2 in *; lia|]. intros j Hj. apply Hl3. lia.
Qed.

(* ---------------------------------------------------------------------------------------------- *)
(* the walk *)

Lemma timemap_cons info r :
  timemap_of (info :: r) = if info_used info then Z.of_N (info_get_time info) :: timemap_of r else timemap_of r.
Proof. unfold timemap_of. simpl. destruct (info_used info); reflexivity. Qed.

Lemma select_length pk tl ll : forall infos c i, length (select_from pk tl ll c i infos) = length infos.
Proof.
  induction infos as [|info r IH]; intros c i; cbn [select_from]; [reflexivity|].
  destruct (block_is_enabled pk tl ll c i info) as [b c']. simpl. f_equal. apply IH.
Qed.

(* countlast before position k *)
Fixpoint countlast_at (pk : plan_kind) (tl : Z) (ll c i : N) (infos : list N) (k : nat) : N :=
  match k, infos with
  | S k', info :: r => countlast_at pk tl ll (snd (block_is_enabled pk tl ll c i info)) (i + 1)%N r k'
  | _, _ => c
  end.

Lemma select_nth pk tl ll : forall infos c i k info, nth_error infos k = Some info ->
  nth_error (select_from pk tl ll c i infos) k =
  Some (fst (block_is_enabled pk tl ll (countlast_at pk tl ll c i infos k) (i + N.of_nat k)%N info)).
Proof.
  induction infos as [|x r IH]; intros c i k info Hk; [destruct k; discriminate|].
  cbn [select_from]. destruct (block_is_enabled pk tl ll c i x) as [b c'] eqn:E.
  destruct k as [|k'].
  - cbn [countlast_at nth_error N.of_nat] in *. injection Hk as Hx. subst x. rewrite N.add_0_r. rewrite E. reflexivity.
  - simpl in Hk. cbn [countlast_at nth_error]. rewrite E. cbn [snd]. rewrite (IH c' (i + 1)%N k' info Hk).
    do 3 f_equal. lia.
Qed.

Lemma enabled_countlast_mono pk tl ll c i info : (c <= snd (block_is_enabled pk tl ll c i info))%N.
Proof.
  unfold block_is_enabled. destruct (info =? 0)%N; simpl; [lia|].
  destruct (info_get_bad info); simpl; [lia|].
  destruct pk; simpl; try lia.
  destruct (_ >? _)%Z; simpl; [lia|]. destruct (_ =? _)%Z; simpl; [|lia].
  destruct (ll <=? c)%N; simpl; lia.
Qed.

Lemma countlast_mono pk tl ll : forall infos c i k1 k2, (k1 <= k2)%nat ->
  (countlast_at pk tl ll c i infos k1 <= countlast_at pk tl ll c i infos k2)%N.
Proof.
  induction infos as [|x r IH]; intros c i k1 k2 H.
  - destruct k1, k2; simpl; lia.
  - destruct k1 as [|k1'], k2 as [|k2']; simpl; try lia.
    + eapply N.le_trans; [apply (enabled_countlast_mono pk tl ll c i x)|].
      pose proof (IH (snd (block_is_enabled pk tl ll c i x)) (i + 1)%N O k2' ltac:(lia)) as H2.
      destruct r; exact H2.
    + apply IH. lia.
Qed.

(* what the selection of a single position means in the AUTO plan *)
Lemma enabled_auto_true tl ll c i info :
  fst (block_is_enabled SCRUB_AUTO tl ll c i info) = true -> info_get_bad info = false ->
  info <> 0%N /\ ((Z.of_N (info_get_time info) < tl)%Z \/ (Z.of_N (info_get_time info) = tl /\ (c < ll)%N)).
Proof.
  unfold block_is_enabled. intros H Hb.
  destruct (N.eqb_spec info 0); [discriminate|]. rewrite Hb in H. split; [assumption|].
  destruct (Z.gtb_spec (Z.of_N (info_get_time info)) tl); [discriminate|].
  destruct (Z.eqb_spec (Z.of_N (info_get_time info)) tl).
  - destruct (N.leb_spec ll c); [discriminate|]. right. split; assumption.
  - left. lia.
Qed.

Lemma enabled_auto_false tl ll c i info :
  fst (block_is_enabled SCRUB_AUTO tl ll c i info) = false -> info <> 0%N ->
  info_get_bad info = false /\
  ((tl < Z.of_N (info_get_time info))%Z \/ (Z.of_N (info_get_time info) = tl /\ (ll <= c)%N)).
Proof.
  unfold block_is_enabled. intros H Hu.
  destruct (N.eqb_spec info 0); [contradiction|].
  destruct (info_get_bad info); [discriminate|]. split; [reflexivity|].
  destruct (Z.gtb_spec (Z.of_N (info_get_time info)) tl); [left; lia|].
  destruct (Z.eqb_spec (Z.of_N (info_get_time info)) tl).
  - destruct (N.leb_spec ll c); [|discriminate]. right. split; assumption.
  - discriminate.
Qed.

(* number of selected stripes that are not marked bad *)
Definition sel_good (p : N * bool) : bool := snd p && negb (info_get_bad (fst p)).
Definition count_sel_good (infos : list N) (sel : list bool) : nat := countf sel_good (combine infos sel).

Lemma walk_quota tl ll : forall infos c i,
  (count_sel_good infos (select_from SCRUB_AUTO tl ll c i infos)
   <= countf (fun x => (x <? tl)%Z) (timemap_of infos) + N.to_nat (ll - c))%nat.
Proof.
  unfold count_sel_good, countf.
  induction infos as [|info r IH]; intros c i; simpl; [lia|].
  destruct (block_is_enabled SCRUB_AUTO tl ll c i info) as [b c'] eqn:E. simpl.
  rewrite timemap_cons. specialize (IH c' (i + 1)%N).
  unfold sel_good at 1. simpl.
  destruct b; simpl.
  - destruct (info_get_bad info) eqn:Hb; simpl.
    + (* bad: selected, not counted; countlast unchanged *)
      assert (c' = c) as ->.
      { unfold block_is_enabled in E. destruct (info =? 0)%N; [discriminate|]. rewrite Hb in E. congruence. }
      destruct (info_used info); simpl; [|lia]. destruct (_ <? _)%Z; simpl; lia.
    + assert (fst (block_is_enabled SCRUB_AUTO tl ll c i info) = true) as Ht by (rewrite E; reflexivity).
      destruct (enabled_auto_true tl ll c i info Ht Hb) as [Hu [Hlt|[Heq Hc]]].
      * assert (c' = c) as ->.
        { unfold block_is_enabled in E. destruct (info =? 0)%N; [discriminate|]. rewrite Hb in E.
          destruct (Z.gtb_spec (Z.of_N (info_get_time info)) tl); [discriminate|].
          destruct (Z.eqb_spec (Z.of_N (info_get_time info)) tl); [lia|]. congruence. }
        assert (info_used info = true) as -> by (unfold info_used; apply negb_true_iff, N.eqb_neq; assumption).
        simpl. destruct (Z.ltb_spec (Z.of_N (info_get_time info)) tl); [simpl; lia|lia].
      * assert (c' = c + 1)%N as ->.
        { unfold block_is_enabled in E. destruct (info =? 0)%N; [discriminate|]. rewrite Hb in E.
          destruct (Z.gtb_spec (Z.of_N (info_get_time info)) tl); [discriminate|].
          destruct (Z.eqb_spec (Z.of_N (info_get_time info)) tl); [|lia].
          destruct (N.leb_spec ll c); [lia|]. congruence. }
        assert (N.to_nat (ll - c) = S (N.to_nat (ll - (c + 1))))%nat by lia.
        destruct (info_used info); simpl; [destruct (_ <? _)%Z; simpl; lia|lia].
  - (* not selected: countlast unchanged *)
    assert (c' = c) as ->.
    { unfold block_is_enabled in E. destruct (info =? 0)%N; [congruence|].
      destruct (info_get_bad info); [discriminate|].
      destruct (_ >? _)%Z; [congruence|]. destruct (_ =? _)%Z; [|discriminate].
      destruct (ll <=? c)%N; [congruence|discriminate]. }
    destruct (info_used info); simpl; [destruct (_ <? _)%Z; simpl; lia|lia].
Qed.

Lemma timemap_nonneg infos : Forall (fun x => (0 <= x)%Z) (timemap_of infos).
Proof.
  unfold timemap_of. apply Forall_forall. intros x Hx. apply in_map_iff in Hx. destruct Hx as [y [<- _]]. lia.
Qed.

Lemma count_lt_zero infos : countf (fun x => (x <? 0)%Z) (timemap_of infos) = O.
Proof.
  pose proof (timemap_nonneg infos) as H. unfold countf. induction H; simpl; [reflexivity|].
  destruct (Z.ltb_spec x 0); [lia|assumption].
Qed.

(* ---------------------------------------------------------------------------------------------- *)
(* scrub_limits, characterised *)

Definition count_lt (tl : Z) (infos : list N) : nat := countf (fun x => (x <? tl)%Z) (timemap_of infos).
Definition count_eq (tl : Z) (infos : list N) : nat := countf (fun x => (x =? tl)%Z) (timemap_of infos).
Definition used_count (infos : list N) : nat := length (timemap_of infos).

Local Opaque grow_last decrease_limit.

Lemma limits_kind t arg older now infos pk cl tl ll :
  scrub_limits t arg older now infos = Lim pk cl tl ll ->
  pk = fst (fst (plan_of_args t arg older now (N.of_nat (length infos)))).
Proof.
  unfold scrub_limits. destruct (is_named_plan arg && _); [discriminate|].
  destruct (plan_of_args t arg older now (N.of_nat (length infos))) as [[pk0 cl0] rec]. simpl.
  destruct (length (sort_times (timemap_of infos))); [discriminate|].
  destruct pk0; try (intro H; injection H; intros; subst; reflexivity).
  destruct (decrease_limit _ _ _); intro H; injection H; intros; subst; reflexivity.
Qed.

Lemma limits_auto_spec t arg older now infos cl tl ll :
  scrub_limits t arg older now infos = Lim SCRUB_AUTO cl tl ll ->
  let cl0 := snd (fst (plan_of_args t arg older now (N.of_nat (length infos)))) in
  let recent := snd (plan_of_args t arg older now (N.of_nat (length infos))) in
  (cl <= cl0)%N /\ (N.to_nat cl <= used_count infos)%nat /\
  ((cl = 0%N /\ tl = 0%Z /\ ll = 0%N) \/
   ((0 < cl)%N /\ (tl <= recent)%Z /\ (1 <= ll)%N /\
    (count_lt tl infos + N.to_nat ll = N.to_nat cl)%nat /\ (N.to_nat ll <= count_eq tl infos)%nat)).
Proof.
  unfold scrub_limits. destruct (is_named_plan arg && _); [discriminate|].
  destruct (plan_of_args t arg older now (N.of_nat (length infos))) as [[pk0 cl0] rec]. simpl.
  set (tm := sort_times (timemap_of infos)).
  destruct (length tm) eqn:Hlen; [discriminate|].
  destruct pk0; try discriminate.
  set (c1 := if (N.of_nat (S n) <? cl0)%N then S n else N.to_nat cl0).
  assert (c1 <= length tm)%nat as Hc1.
  { unfold c1. rewrite Hlen. destruct (N.ltb_spec (N.of_nat (S n)) cl0); lia. }
  assert (N.of_nat c1 <= cl0)%N as Hc1b.
  { unfold c1. destruct (N.ltb_spec (N.of_nat (S n)) cl0); lia. }
  assert (length tm = used_count infos) as Hused by (apply sort_length).
  pose proof (decrease_spec tm rec c1) as Hdec. cbv zeta in Hdec.
  destruct (decrease_limit tm rec c1) as [|k] eqn:Hd.
  - intro H. injection H. intros <- <- <-. split; [lia|]. split; [simpl; lia|]. left. auto.
  - intro H. injection H. intros <- <- <-.
    destruct (limits_sorted_spec tm rec c1 k (sort_sorted _) Hc1 Hd) as [H1 [H2 [H3 [H4 H5]]]].
    split; [lia|]. split; [lia|]. right.
    split; [lia|]. split; [assumption|]. split; [lia|].
    unfold count_lt, count_eq.
    rewrite <- (countf_perm _ _ _ (sort_perm (timemap_of infos))).
    rewrite <- (countf_perm (fun x => (x =? nth k tm 0)%Z) _ _ (sort_perm (timemap_of infos))).
    fold tm. split; lia.
Qed.

(* the initial quota of the numeric plans *)
Lemma plan_of_args_pct now older blockmax p :
  plan_of_args no_test_opts (ArgPct p) older now blockmax =
  (SCRUB_AUTO, md blockmax p 100,
   match older with Some d => (now - Z.of_N d * 24 * 3600)%Z | None => (now - 10 * 24 * 3600)%Z end).
Proof. reflexivity. Qed.
Lemma plan_of_args_default now older blockmax :
  plan_of_args no_test_opts ArgDefault older now blockmax =
  (SCRUB_AUTO, md blockmax 1 12,
   match older with Some d => (now - Z.of_N d * 24 * 3600)%Z | None => (now - 10 * 24 * 3600)%Z end).
Proof. reflexivity. Qed.

(* ---------------------------------------------------------------------------------------------- *)
(* selection theorems *)

Lemma selected_nth pk tl ll infos k info : nth_error infos k = Some info ->
  nth_error (scrub_selected pk tl ll infos) k =
  Some (fst (block_is_enabled pk tl ll (countlast_at pk tl ll 0 0 infos k) (N.of_nat k) info)).
Proof. intro H. unfold scrub_selected. rewrite (select_nth pk tl ll infos 0%N 0%N k info H). reflexivity. Qed.

Lemma selected_length pk tl ll infos : length (scrub_selected pk tl ll infos) = length infos.
Proof. apply select_length. Qed.

Lemma bad_selected pk tl ll infos k info :
  nth_error infos k = Some info -> info_get_bad info = true ->
  nth_error (scrub_selected pk tl ll infos) k = Some true.
Proof.
  intros H Hb. rewrite (selected_nth _ _ _ _ _ _ H). f_equal. unfold block_is_enabled.
  destruct (N.eqb_spec info 0) as [->|]; [discriminate|]. rewrite Hb. reflexivity.
Qed.

Lemma unused_not_selected pk tl ll infos k :
  nth_error infos k = Some 0%N -> nth_error (scrub_selected pk tl ll infos) k = Some false.
Proof. intros H. rewrite (selected_nth _ _ _ _ _ _ H). reflexivity. Qed.

Lemma full_selected tl ll infos k info :
  nth_error infos k = Some info -> nth_error (scrub_selected SCRUB_FULL tl ll infos) k = Some (info_used info).
Proof.
  intros H. rewrite (selected_nth _ _ _ _ _ _ H). f_equal. unfold block_is_enabled, info_used.
  destruct (info =? 0)%N; [reflexivity|]. destruct (info_get_bad info); reflexivity.
Qed.

Lemma new_selected tl ll infos k info :
  nth_error infos k = Some info ->
  nth_error (scrub_selected SCRUB_NEW tl ll infos) k =
  Some (info_used info && (info_get_bad info || info_get_justsynced info)).
Proof.
  intros H. rewrite (selected_nth _ _ _ _ _ _ H). f_equal. unfold block_is_enabled, info_used.
  destruct (info =? 0)%N; [reflexivity|]. destruct (info_get_bad info); reflexivity.
Qed.

Lemma badplan_selected tl ll infos k info :
  nth_error infos k = Some info -> nth_error (scrub_selected SCRUB_BAD tl ll infos) k = Some (info_get_bad info).
Proof.
  intros H. rewrite (selected_nth _ _ _ _ _ _ H). f_equal. unfold block_is_enabled.
  destruct (N.eqb_spec info 0) as [->|]; [reflexivity|]. destruct (info_get_bad info); reflexivity.
Qed.

Lemma even_selected tl ll infos k info :
  nth_error infos k = Some info ->
  nth_error (scrub_selected SCRUB_EVEN tl ll infos) k =
  Some (info_used info && (info_get_bad info || (N.of_nat k mod 2 =? 0)%N)).
Proof.
  intros H. rewrite (selected_nth _ _ _ _ _ _ H). f_equal. unfold block_is_enabled, info_used.
  destruct (info =? 0)%N; [reflexivity|]. destruct (info_get_bad info); reflexivity.
Qed.

(* AUTO: a selected stripe that is not bad is not younger than the time limit, and the limit is positive *)
Lemma auto_selected_old tl ll infos k info :
  nth_error infos k = Some info -> info_get_bad info = false ->
  nth_error (scrub_selected SCRUB_AUTO tl ll infos) k = Some true ->
  info <> 0%N /\ (Z.of_N (info_get_time info) <= tl)%Z /\ ((0 < ll)%N \/ (Z.of_N (info_get_time info) < tl)%Z).
Proof.
  intros H Hb Hs. rewrite (selected_nth _ _ _ _ _ _ H) in Hs. injection Hs as Hs.
  destruct (enabled_auto_true _ _ _ _ _ Hs Hb) as [Hu [Hlt|[Heq Hc]]]; (split; [assumption|]); split; lia.
Qed.

(* AUTO: oldest first, ties cut in position order *)
Lemma auto_oldest_first_walk tl ll infos a b ia ib :
  nth_error infos a = Some ia -> info_get_bad ia = false ->
  nth_error (scrub_selected SCRUB_AUTO tl ll infos) a = Some true ->
  nth_error infos b = Some ib -> ib <> 0%N -> info_get_bad ib = false ->
  nth_error (scrub_selected SCRUB_AUTO tl ll infos) b = Some false ->
  (info_get_time ia <= info_get_time ib)%N /\ (info_get_time ia = info_get_time ib -> (a < b)%nat).
Proof.
  intros Ha Hba Hsa Hb Hub Hbb Hsb.
  rewrite (selected_nth _ _ _ _ _ _ Ha) in Hsa. injection Hsa as Hsa.
  rewrite (selected_nth _ _ _ _ _ _ Hb) in Hsb. injection Hsb as Hsb.
  destruct (enabled_auto_true _ _ _ _ _ Hsa Hba) as [Hua Ca].
  destruct (enabled_auto_false _ _ _ _ _ Hsb Hub) as [_ Cb].
  split; [destruct Ca as [?|[? ?]], Cb as [?|[? ?]]; lia|].
  intro Heq. destruct (Nat.lt_ge_cases a b) as [|Hge]; [assumption|exfalso].
  pose proof (countlast_mono SCRUB_AUTO tl ll infos 0%N 0%N b a Hge) as Hm.
  destruct Ca as [?|[? ?]], Cb as [?|[? ?]]; lia.
Qed.

(* AUTO: the quota *)
Lemma auto_quota_walk tl ll infos :
  (count_sel_good infos (scrub_selected SCRUB_AUTO tl ll infos) <= count_lt tl infos + N.to_nat ll)%nat.
Proof.
  unfold scrub_selected. pose proof (walk_quota tl ll infos 0%N 0%N) as H. rewrite N.sub_0_r in H. exact H.
Qed.
