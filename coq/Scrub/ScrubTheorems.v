(* C15 -- the property theorems at the level of a whole scrub command (limits + selection). *)
From Coq Require Import NArith ZArith List Bool Lia.
From Snap.Scrub Require Import ScrubModel ScrubInfo ScrubPlan ScrubBooks.
Import ListNotations.

Definition older_days (older : option N) : Z := match older with Some d => Z.of_N d | None => 10%Z end.
Definition numeric_plan (arg : plan_arg) : Prop := arg = ArgDefault \/ exists p, arg = ArgPct p.

Lemma plan_inv t arg older now infos sel :
  scrub_plan t arg older now infos = Some sel ->
  exists pk cl tl ll, scrub_limits t arg older now infos = Lim pk cl tl ll /\ sel = scrub_selected pk tl ll infos.
Proof.
  unfold scrub_plan. destruct (scrub_limits t arg older now infos) as [| |pk cl tl ll]; try discriminate.
  intro H. injection H as <-. exists pk, cl, tl, ll. split; reflexivity.
Qed.

Lemma bad_always t arg older now infos sel k info :
  scrub_plan t arg older now infos = Some sel -> nth_error infos k = Some info -> info_get_bad info = true ->
  nth_error sel k = Some true.
Proof.
  intros H Hk Hb. destruct (plan_inv _ _ _ _ _ _ H) as [pk [cl [tl [ll [_ ->]]]]]. eapply bad_selected; eassumption.
Qed.

Lemma unused_never t arg older now infos sel k :
  scrub_plan t arg older now infos = Some sel -> nth_error infos k = Some 0%N -> nth_error sel k = Some false.
Proof.
  intros H Hk. destruct (plan_inv _ _ _ _ _ _ H) as [pk [cl [tl [ll [_ ->]]]]]. apply unused_not_selected; assumption.
Qed.

Lemma sel_length t arg older now infos sel :
  scrub_plan t arg older now infos = Some sel -> length sel = length infos.
Proof.
  intros H. destruct (plan_inv _ _ _ _ _ _ H) as [pk [cl [tl [ll [_ ->]]]]]. apply selected_length.
Qed.

Lemma full_all_used older now infos sel k info :
  scrub_plan no_test_opts ArgFull older now infos = Some sel -> nth_error infos k = Some info ->
  nth_error sel k = Some (info_used info).
Proof.
  intros H Hk. destruct (plan_inv _ _ _ _ _ _ H) as [pk [cl [tl [ll [Hl ->]]]]].
  rewrite (limits_kind _ _ _ _ _ _ _ _ _ Hl). apply full_selected; assumption.
Qed.

Lemma new_only_justsynced older now infos sel k info :
  scrub_plan no_test_opts ArgNew older now infos = Some sel -> nth_error infos k = Some info ->
  nth_error sel k = Some (info_used info && (info_get_bad info || info_get_justsynced info)).
Proof.
  intros H Hk. destruct (plan_inv _ _ _ _ _ _ H) as [pk [cl [tl [ll [Hl ->]]]]].
  rewrite (limits_kind _ _ _ _ _ _ _ _ _ Hl). apply new_selected; assumption.
Qed.

Lemma bad_plan_only_bad older now infos sel k info :
  scrub_plan no_test_opts ArgBad older now infos = Some sel -> nth_error infos k = Some info ->
  nth_error sel k = Some (info_get_bad info).
Proof.
  intros H Hk. destruct (plan_inv _ _ _ _ _ _ H) as [pk [cl [tl [ll [Hl ->]]]]].
  rewrite (limits_kind _ _ _ _ _ _ _ _ _ Hl). apply badplan_selected; assumption.
Qed.

Lemma named_plan_rejects_older t arg d now infos :
  is_named_plan arg = true -> scrub_plan t arg (Some d) now infos = None.
Proof. intro H. unfold scrub_plan, scrub_limits. rewrite H. reflexivity. Qed.

Lemma numeric_plan_kind arg older now infos pk cl tl ll :
  numeric_plan arg -> scrub_limits no_test_opts arg older now infos = Lim pk cl tl ll -> pk = SCRUB_AUTO.
Proof.
  intros Hn Hl. rewrite (limits_kind _ _ _ _ _ _ _ _ _ Hl). destruct Hn as [->|[p ->]]; reflexivity.
Qed.

Lemma numeric_plan_recent arg older now blockmax :
  numeric_plan arg -> snd (plan_of_args no_test_opts arg older now blockmax) = (now - older_days older * 24 * 3600)%Z.
Proof. intros [->|[p ->]]; destruct older; reflexivity. Qed.

(* the quota *)
Lemma auto_count_bound t arg older now infos cl tl ll :
  scrub_limits t arg older now infos = Lim SCRUB_AUTO cl tl ll ->
  (count_sel_good infos (scrub_selected SCRUB_AUTO tl ll infos) <= N.to_nat cl)%nat /\
  (N.to_nat cl <= used_count infos)%nat /\
  (cl <= snd (fst (plan_of_args t arg older now (N.of_nat (length infos)))))%N.
Proof.
  intro Hl. destruct (limits_auto_spec _ _ _ _ _ _ _ _ Hl) as [H1 [H2 H3]].
  split; [|split; assumption].
  pose proof (auto_quota_walk tl ll infos) as Hq.
  destruct H3 as [[-> [-> ->]]|[_ [_ [_ [H4 _]]]]].
  - unfold count_lt in Hq. rewrite count_lt_zero in Hq. simpl in *. lia.
  - lia.
Qed.

Lemma auto_quota p older now infos cl tl ll :
  (p <= 100)%N -> (N.of_nat (length infos) < 4294967296)%N ->
  scrub_limits no_test_opts (ArgPct p) older now infos = Lim SCRUB_AUTO cl tl ll ->
  (count_sel_good infos (scrub_selected SCRUB_AUTO tl ll infos) <= N.to_nat cl)%nat /\
  (cl <= (N.of_nat (length infos) * p + 99) / 100)%N /\ (N.to_nat cl <= used_count infos)%nat.
Proof.
  intros Hp Hb Hl. destruct (auto_count_bound _ _ _ _ _ _ _ _ Hl) as [H1 [H2 H3]].
  rewrite plan_of_args_pct in H3. simpl in H3.
  destruct (md_ceil (N.of_nat (length infos)) p 100) as [Hmd _]; try lia.
  rewrite Hmd in H3. change (100 - 1)%N with 99%N in H3. repeat split; assumption.
Qed.

Lemma default_quota older now infos cl tl ll :
  (N.of_nat (length infos) < 4294967296)%N ->
  scrub_limits no_test_opts ArgDefault older now infos = Lim SCRUB_AUTO cl tl ll ->
  (count_sel_good infos (scrub_selected SCRUB_AUTO tl ll infos) <= N.to_nat cl)%nat /\
  (cl <= (N.of_nat (length infos) + 11) / 12)%N /\ (N.to_nat cl <= used_count infos)%nat.
Proof.
  intros Hb Hl. destruct (auto_count_bound _ _ _ _ _ _ _ _ Hl) as [H1 [H2 H3]].
  rewrite plan_of_args_default in H3. simpl in H3.
  destruct (md_ceil (N.of_nat (length infos)) 1 12) as [Hmd _]; try lia.
  rewrite Hmd in H3. change (12 - 1)%N with 11%N in H3. rewrite N.mul_1_r in H3. repeat split; assumption.
Qed.

(* the age limit *)
Lemma auto_age arg older now infos cl tl ll k info :
  numeric_plan arg ->
  scrub_limits no_test_opts arg older now infos = Lim SCRUB_AUTO cl tl ll ->
  nth_error infos k = Some info -> info_get_bad info = false ->
  nth_error (scrub_selected SCRUB_AUTO tl ll infos) k = Some true ->
  (Z.of_N (info_get_time info) <= tl)%Z /\ (tl <= now - older_days older * 24 * 3600)%Z.
Proof.
  intros Hn Hl Hk Hb Hs. destruct (limits_auto_spec _ _ _ _ _ _ _ _ Hl) as [_ [_ H3]].
  destruct (auto_selected_old _ _ _ _ _ Hk Hb Hs) as [Hu [Hle Hpos]].
  rewrite numeric_plan_recent in H3 by assumption.
  destruct H3 as [[-> [-> ->]]|[_ [Hrec _]]].
  - exfalso. destruct Hpos; lia.
  - split; assumption.
Qed.

(* oldest first *)
Lemma auto_oldest_first tl ll infos a b ia ib :
  nth_error infos a = Some ia -> info_get_bad ia = false ->
  nth_error (scrub_selected SCRUB_AUTO tl ll infos) a = Some true ->
  nth_error infos b = Some ib -> ib <> 0%N -> info_get_bad ib = false ->
  nth_error (scrub_selected SCRUB_AUTO tl ll infos) b = Some false ->
  (info_get_time ia <= info_get_time ib)%N /\ (info_get_time ia = info_get_time ib -> (a < b)%nat).
Proof. exact (auto_oldest_first_walk tl ll infos a b ia ib). Qed.

(* the refreshed word: time = now rounded down to 8 s, no mark; the bad mark keeps everything else *)
Lemma refreshed_word now : (0 <= now < 4294967296)%Z ->
  let w := info_make now false false false in
  Z.of_N (info_get_time w) = (8 * (now / 8))%Z /\ info_get_bad w = false /\ info_get_rehash w = false /\
  info_get_justsynced w = false.
Proof.
  intros H. split; [exact (make_time_now now H)|]. split; [exact (make_bad now false false false)|].
  split; [exact (make_rehash now false false false)|exact (make_justsynced now false false false)].
Qed.

Lemma bad_mark_keeps_rest info :
  info_get_bad (info_set_bad info) = true /\ info_get_time (info_set_bad info) = info_get_time info /\
  info_get_rehash (info_set_bad info) = info_get_rehash info /\
  info_get_justsynced (info_set_bad info) = info_get_justsynced info.
Proof.
  split; [exact (set_bad_bad info)|]. split; [exact (set_bad_time info)|].
  split; [exact (set_bad_rehash info)|exact (set_bad_justsynced info)].
Qed.

(* the option parser: in range it is the identity; out of range it should refuse, but does not always *)
Lemma parse_plan_in_range v : (v <= 100)%N -> parse_plan_number v = Some (ArgPct v).
Proof.
  intro H. unfold parse_plan_number, int_of_ulong.
  destruct (N.ltb_spec v 18446744073709551616); [|lia].
  rewrite N.mod_small by lia. destruct (N.ltb_spec v 2147483648); [|lia].
  destruct (Z.gtb_spec (Z.of_N v) 100); [lia|]. destruct (Z.leb_spec 0 (Z.of_N v)); [|lia].
  rewrite N2Z.id. reflexivity.
Qed.

Lemma parse_older_in_range v : (v <= 1000)%N -> parse_older_number v = Some (Some v).
Proof.
  intro H. unfold parse_older_number, int_of_ulong.
  destruct (N.ltb_spec v 18446744073709551616); [|lia].
  rewrite N.mod_small by lia. destruct (N.ltb_spec v 2147483648); [|lia].
  destruct (Z.gtb_spec (Z.of_N v) 1000); [lia|]. destruct (Z.leb_spec 0 (Z.of_N v)); [|lia].
  rewrite N2Z.id. reflexivity.
Qed.

Lemma parse_plan_partial v : (v < 2147483648)%N -> (parse_plan_number v = None <-> (100 < v)%N).
Proof.
  intro H. unfold parse_plan_number, int_of_ulong.
  destruct (N.ltb_spec v 18446744073709551616); [|lia].
  rewrite N.mod_small by lia. destruct (N.ltb_spec v 2147483648); [|lia].
  destruct (Z.gtb_spec (Z.of_N v) 100); [split; [lia|reflexivity]|].
  destruct (Z.leb_spec 0 (Z.of_N v)); [|lia]. split; [discriminate|lia].
Qed.

(* "every number above 100 is refused" is false: 2^32 - 4 is read as SCRUB_FULL, 2^32 - 1 as the default plan *)
Lemma parse_plan_range_refuted :
  exists v, (100 < v)%N /\ parse_plan_number v = Some ArgFull.
Proof. exists 4294967292%N. split; [reflexivity|vm_compute; reflexivity]. Qed.

Lemma parse_older_range_refuted :
  exists v, (1000 < v)%N /\ parse_older_number v = Some None.
Proof. exists 4294967295%N. split; [reflexivity|vm_compute; reflexivity]. Qed.
