(* Soundness of the abstract interpreter of RecCheck.v with respect to the semantics of RecSem.v, for one chunk:
   if the concrete registers satisfy the abstract state and the buffers pa[] are the entry buffers with the logged
   stores applied, the same holds after every instruction. *)
From Coq Require Import NArith List Bool Arith Lia.
From Snap.Gen Require Import Tables.
From Snap.GF Require Import Gf.
From Snap.Raid Require Import GenModel.
From Snap.Simd Require Import SimdDefs SimdSem SimdBytes RecDefs RecSem RecCheck.
Import ListNotations.
Local Open Scope N_scope.

Definition mtab (m : N) (lh t : nat) : N := b8 (nth (16 * lh + t) (mulrow m) 0).

Section RAbs.
  Variable e : renv.
  Variable pas : list block.          (* the buffers pa[] at chunk entry: the meaning of AtPa *)
  Let w := re_w e.
  Let n := re_n e.
  Hypothesis Hw : w = 16%nat \/ w = 32%nat.

  Definition atomv (a : atom) (i : nat) : N :=
    match a with
    | AtP b off => b8 (nth (re_base e + off + i) (nth b (re_p e) []) 0)
    | AtPa b off => b8 (nth (re_base e + off + i) (nth b pas []) 0)
    end.
  Definition xsv (x : xs) (i : nat) : N := fold_right (fun a acc => N.lxor (atomv a i) acc) 0 x.
  Definition Vat (vi : nat) : N := nth vi (re_V e) 0.
  Definition rcmul (c : rcoef) (x : N) : N :=
    match c with
    | ROne => x
    | RLo vi => mtab (Vat vi) 0 (N.to_nat (N.land x 15))
    | RHi vi => mtab (Vat vi) 1 (N.to_nat (N.shiftr x 4))
    end.
  Definition reval (m : rnf) (i : nat) : N := fold_right (fun t acc => N.lxor (rcmul (fst t) (xsv (snd t) i)) acc) 0 m.

  Definition rlane_ok (i : nat) (a : rav) (x : N) : Prop :=
    match a with
    | RJunk => True
    | RCst c => x = c
    | RTab vi lh => x = mtab (Vat vi) lh (i mod 16)
    | RLin m => x = reval m i
    | RLo4 s => x = N.land (xsv s i) 15
    | RHi4 s => x = N.shiftr (xsv s i) 4
    | RSrl4 s => exists y, y < 256 /\ x = srl_byte 4 (xsv s i) y (Nat.even i)
    end.
  Definition rlane (s : regs) (r i : nat) : N := nth i (fit w (get s r)) 0.
  Definition rsat (A : rastate) (s : regs) : Prop := forall r i, (i < w)%nat -> rlane_ok i (raget A r) (rlane s r i).
  Definition rstore_rel (x : nat * nat * rav) (y : nat * nat * vec) : Prop :=
    fst (fst y) = fst (fst x) /\ snd (fst y) = (re_base e + snd (fst x))%nat /\ length (snd y) = w /\
    forall i, (i < w)%nat -> rlane_ok i (snd x) (nth i (snd y) 0).
  Definition Rel (ast : rast) (st : rstate) : Prop :=
    rsat (fst ast) (fst st) /\ exists ws, Forall2 rstore_rel (snd ast) ws /\ snd st = apply_log ws pas.

  Lemma atomv_lt a i : atomv a i < 256. Proof. destruct a; apply b8_lt. Qed.
  Lemma xsv_lt x i : xsv x i < 256.
  Proof. induction x as [|a x IH]; cbn [xsv fold_right]; [reflexivity|]. apply lxor_range; [apply atomv_lt|exact IH]. Qed.
  Lemma xsv_app a b i : xsv (a ++ b) i = N.lxor (xsv a i) (xsv b i).
  Proof.
    unfold xsv. induction a as [|t a IH]; cbn [app fold_right]; [rewrite N.lxor_0_l; reflexivity|].
    rewrite IH, N.lxor_assoc. reflexivity.
  Qed.
  Lemma reval_app a b i : reval (a ++ b) i = N.lxor (reval a i) (reval b i).
  Proof.
    unfold reval. induction a as [|t a IH]; cbn [app fold_right]; [rewrite N.lxor_0_l; reflexivity|].
    rewrite IH, N.lxor_assoc. reflexivity.
  Qed.
  Lemma pure_eval m s i : pure m = Some s -> reval m i = xsv s i.
  Proof.
    revert s. induction m as [|[c x] m IH]; intros s H; cbn [pure] in H.
    - inversion H. reflexivity.
    - destruct c; try discriminate. destruct (pure m) as [y|]; [|discriminate]. inversion H; subst.
      change (reval ((ROne, x) :: m) i) with (N.lxor (xsv x i) (reval m i)). rewrite (IH y eq_refl). symmetry. apply xsv_app.
  Qed.

  (* ---- permutations decided by the checker ---------------------------------------------------------- *)
  Lemma atom_eqb_eq a b : atom_eqb a b = true -> a = b.
  Proof.
    destruct a, b; cbn [atom_eqb]; try discriminate; intros H; apply andb_true_iff in H; destruct H as [H1 H2];
      apply Nat.eqb_eq in H1, H2; congruence.
  Qed.
  Lemma rm_atom_eval a l l' i : rm_atom a l = Some l' -> xsv l i = N.lxor (atomv a i) (xsv l' i).
  Proof.
    revert l'. induction l as [|x r IH]; intros l' H; [discriminate|]. cbn [rm_atom] in H.
    destruct (atom_eqb a x) eqn:E.
    - apply atom_eqb_eq in E. inversion H; subst. reflexivity.
    - destruct (rm_atom a r) as [r'|]; [|discriminate]. inversion H; subst.
      change (xsv (x :: r) i) with (N.lxor (atomv x i) (xsv r i)). change (xsv (x :: r') i) with (N.lxor (atomv x i) (xsv r' i)).
      rewrite (IH r' eq_refl). rewrite <- !N.lxor_assoc. f_equal. apply N.lxor_comm.
  Qed.
  Lemma xs_perm_eval a b i : xs_perm a b = true -> xsv a i = xsv b i.
  Proof.
    revert b. induction a as [|t a IH]; intros b H; cbn [xs_perm] in H.
    - destruct b; [reflexivity|discriminate].
    - destruct (rm_atom t b) as [b'|] eqn:E; [|discriminate]. rewrite (rm_atom_eval t b b' i E). rewrite <- (IH b' H). reflexivity.
  Qed.
  Lemma rterm_eqb_eval a b i : rterm_eqb a b = true -> rcmul (fst a) (xsv (snd a) i) = rcmul (fst b) (xsv (snd b) i).
  Proof.
    unfold rterm_eqb. intros H. apply andb_true_iff in H. destruct H as [H1 H2].
    rewrite (xs_perm_eval _ _ i H2).
    destruct (fst a), (fst b); cbn [rcoef_eqb] in H1; try discriminate; try reflexivity; apply Nat.eqb_eq in H1; subst; reflexivity.
  Qed.
  Lemma rm_term_eval t l l' i : rm_term t l = Some l' -> reval l i = N.lxor (rcmul (fst t) (xsv (snd t) i)) (reval l' i).
  Proof.
    revert l'. induction l as [|x r IH]; intros l' H; [discriminate|]. cbn [rm_term] in H.
    destruct (rterm_eqb t x) eqn:E.
    - inversion H; subst. change (reval (x :: l') i) with (N.lxor (rcmul (fst x) (xsv (snd x) i)) (reval l' i)).
      rewrite (rterm_eqb_eval t x i E). reflexivity.
    - destruct (rm_term t r) as [r'|]; [|discriminate]. inversion H; subst.
      change (reval (x :: r) i) with (N.lxor (rcmul (fst x) (xsv (snd x) i)) (reval r i)).
      change (reval (x :: r') i) with (N.lxor (rcmul (fst x) (xsv (snd x) i)) (reval r' i)).
      rewrite (IH r' eq_refl). rewrite <- !N.lxor_assoc. f_equal. apply N.lxor_comm.
  Qed.
  Lemma rnf_perm_eval a b i : rnf_perm a b = true -> reval a i = reval b i.
  Proof.
    revert b. induction a as [|t a IH]; intros b H; cbn [rnf_perm] in H.
    - destruct b; [reflexivity|discriminate].
    - destruct (rm_term t b) as [b'|] eqn:E; [|discriminate]. rewrite (rm_term_eval t b b' i E). rewrite <- (IH b' H). reflexivity.
  Qed.

  (* ---- abstract registers ----------------------------------------------------------------------------- *)
  Lemma raget_raupd r v A r' : raget (raupd r v A) r' = if Nat.eqb r' r then v else raget A r'.
  Proof.
    unfold raget. revert A r'. induction r as [|r IH]; intros A r'.
    - destruct A; destruct r'; cbn [raupd nth Nat.eqb]; try reflexivity. destruct r'; reflexivity.
    - destruct A as [|h t]; destruct r'; cbn [raupd nth Nat.eqb]; try reflexivity.
      + rewrite IH. destruct (Nat.eqb r' r); [reflexivity|]. destruct r'; reflexivity.
      + apply IH.
  Qed.

  (* ---- byte-level soundness ------------------------------------------------------------------------------ *)
  Lemma rxor_ok i x y a b : rlane_ok i x a -> rlane_ok i y b -> rlane_ok i (rxor x y) (N.lxor a b).
  Proof.
    destruct x, y; cbn [rxor]; try (intros; exact I). cbn [rlane_ok]. intros -> ->. symmetry. apply reval_app.
  Qed.
  Lemma rand0_ok i x y a b : rlane_ok i x a -> rlane_ok i y b -> rlane_ok i (rand0 x y) (N.land a b).
  Proof.
    destruct y; cbn [rand0]; try (intros; exact I). intros Ha Hb. cbn [rlane_ok] in Hb. subst b.
    destruct (c =? 15) eqn:E; [|exact I]. apply N.eqb_eq in E. subst c.
    destruct x; try exact I.
    - destruct (pure n0) as [s|] eqn:P; [|exact I]. cbn [rlane_ok] in *. subst a. rewrite (pure_eval n0 s i P). reflexivity.
    - cbn [rlane_ok] in *. destruct Ha as [y [Hy ->]]. apply srl4_lo; [apply xsv_lt|exact Hy].
  Qed.
  Lemma rand_ok i x y a b : rlane_ok i x a -> rlane_ok i y b -> rlane_ok i (rand x y) (N.land a b).
  Proof.
    intros Ha Hb. unfold rand. assert (H1 := rand0_ok i x y a b Ha Hb). assert (H2 := rand0_ok i y x b a Hb Ha).
    rewrite N.land_comm in H2. destruct (rand0 x y); assumption.
  Qed.

  Lemma rhalf_index i k : (i < w)%nat -> (k < 16)%nat -> (16 * (i / 16) + k < w)%nat /\ ((16 * (i / 16) + k) mod 16 = k)%nat.
  Proof.
    intros Hi Hk. split.
    - assert (H : (i / 16 <= 1)%nat).
      { apply Nat.lt_succ_r. apply Nat.div_lt_upper_bound; [lia|]. destruct Hw as [E|E]; lia. }
      destruct Hw as [E|E].
      + assert (i / 16 = 0)%nat by (apply Nat.div_small; lia). lia.
      + lia.
    - rewrite Nat.add_comm, Nat.mul_comm. rewrite Nat.mod_add by lia. apply Nat.mod_small. exact Hk.
  Qed.
  Lemma rpshufb_ok i t x tv xb : (i < w)%nat -> (forall m, (m < w)%nat -> rlane_ok m t (nth m tv 0)) -> rlane_ok i x xb ->
    rlane_ok i (rpshufb t x) (shuf_byte tv i xb).
  Proof.
    intros Hi Ht Hx. destruct t; cbn [rpshufb]; try exact I. destruct x; try exact I.
    - destruct (Nat.eqb lh 0) eqn:E; [|exact I]. apply Nat.eqb_eq in E. subst lh. cbn [rlane_ok] in *. subst xb.
      destruct (lo4_idx (xsv x i) (xsv_lt x i)) as [T [L R]]. unfold shuf_byte. rewrite T, L.
      assert (Hk : (N.to_nat (N.land (xsv x i) 15) < 16)%nat) by lia.
      destruct (rhalf_index i _ Hi Hk) as [H1 H2]. specialize (Ht _ H1). cbn [rlane_ok] in Ht. rewrite Ht, H2.
      cbn [reval fold_right fst snd rcmul]. rewrite N.lxor_0_r. reflexivity.
    - destruct (Nat.eqb lh 1) eqn:E; [|exact I]. apply Nat.eqb_eq in E. subst lh. cbn [rlane_ok] in *. subst xb.
      destruct (hi4_idx (xsv x i) (xsv_lt x i)) as [T [L R]]. unfold shuf_byte. rewrite T, L.
      assert (Hk : (N.to_nat (N.shiftr (xsv x i) 4) < 16)%nat) by lia.
      destruct (rhalf_index i _ Hi Hk) as [H1 H2]. specialize (Ht _ H1). cbn [rlane_ok] in Ht. rewrite Ht, H2.
      cbn [reval fold_right fst snd rcmul]. rewrite N.lxor_0_r. reflexivity.
  Qed.

  (* ---- operands ------------------------------------------------------------------------------------------- *)
  Lemma rconst_av_ok bs i m : (m < 16)%nat -> rlane_ok i (rconst_av bs) (b8 (nth m bs 0)).
  Proof.
    intros Hm. unfold rconst_av. destruct (forallb _ _) eqn:E; [|exact I].
    rewrite forallb_forall in E. specialize (E m ltac:(apply in_seq; lia)). apply N.eqb_eq in E. exact E.
  Qed.
  Lemma rtab_av_ok vi lh i m : (m = i mod 16)%nat -> rlane_ok i (rtab_av vi lh) (b8 (nth (16 * lh + m) (mulrow (Vat vi)) 0)).
  Proof. intros ->. unfold rtab_av. destruct (Nat.ltb lh 2); [|exact I]. reflexivity. Qed.

  Lemma rrd_op_len st jk o : length (rrd_op e st jk o) = w.
  Proof. destruct o; cbn [rrd_op rrd_mem]; apply fit_length. Qed.
  Lemma rrd_op_rng st jk o i : nth i (rrd_op e st jk o) 0 < 256.
  Proof. destruct o; cbn [rrd_op rrd_mem]; apply nth_fit_lt. Qed.
  Lemma rrd_op_ok ast st jk o i : Rel ast st -> (i < w)%nat -> rlane_ok i (rard w n ast jk o) (nth i (rrd_op e st jk o) 0).
  Proof.
    intros [HS [ws [HF Hpa]]] Hi. destruct o; cbn [rard rrd_op rrd_mem].
    - apply HS. exact Hi.
    - apply HS. exact Hi.
    - fold w. rewrite nth_fit by exact Hi. rewrite nth_skipn. cbn [rlane_ok reval fold_right fst snd rcmul xsv atomv].
      rewrite !N.lxor_0_r. reflexivity.
    - destruct (snd ast) eqn:E; [|exact I]. inversion HF; subst. cbn [apply_log fold_right] in Hpa. rewrite Hpa.
      fold w. rewrite nth_fit by exact Hi. rewrite nth_skipn. cbn [rlane_ok reval fold_right fst snd rcmul xsv atomv].
      rewrite !N.lxor_0_r. reflexivity.
    - fold w. destruct (Nat.eqb w 16) eqn:E; [|exact I]. apply Nat.eqb_eq in E.
      rewrite nth_fit by exact Hi. rewrite nth_skipn.
      assert (Ev : nth (vflat e jk v) (re_V e) 0 = Vat (match v with VAt m => m | VJK => (fst jk * n + snd jk)%nat end))
        by (destruct v; reflexivity).
      rewrite Ev. apply rtab_av_ok. symmetry. apply Nat.mod_small. lia.
    - fold w. destruct (Nat.eqb w 16) eqn:E; [|exact I]. apply Nat.eqb_eq in E.
      rewrite nth_fit by exact Hi. apply rconst_av_ok. lia.
  Qed.
  Lemma rbcast_ok pa jk o i : (i < w)%nat -> rlane_ok i (rard16 n jk o) (nth i (vbcast w (rrd_mem e pa jk 16 o)) 0).
  Proof.
    intros Hi. unfold vbcast. rewrite nth_map_seq by exact Hi.
    assert (Hm : (i mod 16 < 16)%nat) by (apply Nat.mod_upper_bound; lia).
    destruct o; cbn [rard16 rrd_mem]; try exact I.
    - rewrite nth_fit by exact Hm. rewrite nth_skipn.
      assert (Ev : nth (vflat e jk v) (re_V e) 0 = Vat (match v with VAt m => m | VJK => (fst jk * n + snd jk)%nat end))
        by (destruct v; reflexivity).
      rewrite Ev. apply rtab_av_ok. reflexivity.
    - rewrite nth_fit by exact Hm. apply rconst_av_ok. exact Hm.
  Qed.

  (* ---- instructions ---------------------------------------------------------------------------------------- *)
  Lemma rmap2_len f (u v : vec) k : length u = k -> length v = k -> length (map2 f u v) = k.
  Proof.
    revert v k. induction u as [|x u IH]; intros v k H1 H2; destruct v; cbn [map2 length] in *; try lia.
    destruct k; try discriminate. f_equal. apply IH; lia.
  Qed.
  Lemma rnth_vpshufb tv xv i : length xv = w -> (i < w)%nat -> nth i (vpshufb w tv xv) 0 = shuf_byte tv i (nth i xv 0).
  Proof.
    intros Hl Hi. unfold vpshufb.
    rewrite nth_indep with (d' := shuf_byte tv (fst (O, 0)) (snd (O, 0)))
      by (rewrite map_length, combine_length, seq_length, Hl, Nat.min_id; exact Hi).
    change (shuf_byte tv (fst (O, 0)) (snd (O, 0))) with ((fun p : nat * N => shuf_byte tv (fst p) (snd p)) (O, 0)).
    rewrite map_nth. rewrite combine_nth by (rewrite seq_length; symmetry; exact Hl).
    rewrite seq_nth by exact Hi. reflexivity.
  Qed.
  Lemma rnth_vshift f v i : (i < w)%nat -> nth i (vshift f w v) 0 = f (nth i v 0) (nth (partner i) v 0) (Nat.even i).
  Proof.
    intros Hi. unfold vshift. exact (nth_map_seq (fun i => f (nth i v 0) (nth (partner i) v 0) (Nat.even i)) w i 0 Hi).
  Qed.
  Lemma rbin_byte_rng o a b : a < 256 -> b < 256 -> bin_byte o a b < 256.
  Proof.
    intros Ha Hb. destruct o; cbn [bin_byte].
    - apply lxor_range; assumption.
    - apply land_range; assumption.
    - apply b8_lt.
    - unfold bcmpgt. destruct (_ <? _); reflexivity.
    - exact Ha.
  Qed.
  Lemma rinstr_val_len st jk i : length (rinstr_val e st jk i) = w.
  Proof.
    destruct i; cbn [rinstr_val]; fold w; try apply rrd_op_len.
    - unfold vbcast. rewrite map_length, seq_length. reflexivity.
    - destruct o; cbn [vbin]; try (apply rmap2_len; apply rrd_op_len).
      unfold vpshufb. rewrite map_length, combine_length, seq_length, rrd_op_len, Nat.min_id. reflexivity.
    - unfold vshift. rewrite map_length, seq_length. reflexivity.
  Qed.
  Lemma rinstr_val_rng st jk i k : nth k (rinstr_val e st jk i) 0 < 256.
  Proof.
    destruct (Nat.lt_ge_cases k w) as [Hk|Hk].
    2:{ rewrite nth_overflow by (rewrite rinstr_val_len; lia). reflexivity. }
    destruct i; cbn [rinstr_val]; fold w.
    - apply rrd_op_rng.
    - unfold vbcast. rewrite nth_map_seq by exact Hk. destruct src; cbn [rrd_mem]; apply nth_fit_lt.
    - destruct o; cbn [vbin].
      1-4: rewrite nth_map2 by (rewrite ?rrd_op_len; auto); apply rbin_byte_rng; apply rrd_op_rng.
      rewrite rnth_vpshufb by (auto using rrd_op_len). unfold shuf_byte. destruct (N.testbit _ _); [reflexivity|apply rrd_op_rng].
    - rewrite rnth_vshift by exact Hk. unfold srl_byte. destruct (Nat.even k); apply b8_lt.
    - apply rrd_op_rng.
  Qed.
  Lemma rsame_reg_eq a b : rsame_reg a b = true -> a = b.
  Proof. destruct a, b; cbn [rsame_reg]; try discriminate. intros H. apply Nat.eqb_eq in H. congruence. Qed.

  Lemma rinstr_val_ok ast st jk i k : Rel ast st -> (k < w)%nat ->
    rlane_ok k (rainstr_val w n ast jk i) (nth k (rinstr_val e st jk i) 0).
  Proof.
    intros HR Hk. destruct i; cbn [rainstr_val rinstr_val]; fold w.
    - apply rrd_op_ok; assumption.
    - apply rbcast_ok. exact Hk.
    - assert (La := rrd_op_len st jk a). assert (Lb := rrd_op_len st jk b).
      assert (Oa := rrd_op_ok ast st jk a k HR Hk). assert (Ob := rrd_op_ok ast st jk b k HR Hk).
      destruct o; cbn [vbin]; try exact I.
      + rewrite nth_map2 by (rewrite ?La; auto). cbn [bin_byte].
        destruct (rsame_reg a b) eqn:E.
        * apply rsame_reg_eq in E. subst b. cbn [rlane_ok reval fold_right]. apply N.lxor_nilpotent.
        * apply rxor_ok; assumption.
      + rewrite nth_map2 by (rewrite ?La; auto). apply rand_ok; assumption.
      + rewrite rnth_vpshufb by assumption. apply rpshufb_ok; try assumption. intros m Hm. apply rrd_op_ok; assumption.
    - destruct (k0 =? 4) eqn:E; [|exact I]. apply N.eqb_eq in E. subst k0.
      assert (Oa := rrd_op_ok ast st jk a k HR Hk).
      destruct (rard w n ast jk a); try exact I. destruct (pure n0) as [s|] eqn:P; [|exact I].
      rewrite rnth_vshift by exact Hk. cbn [rlane_ok] in *. rewrite Oa, (pure_eval n0 s k P).
      exists (nth (partner k) (rrd_op e st jk a) 0). split; [apply rrd_op_rng|reflexivity].
    - apply rrd_op_ok; assumption.
  Qed.

  Lemma rsat_upd A s r a v : rsat A s -> (forall i, (i < w)%nat -> rlane_ok i a (nth i v 0)) -> (forall i, nth i v 0 < 256) ->
    rsat (raupd r a A) (upd r v s).
  Proof.
    intros HS Ha Hr r' i Hi. rewrite raget_raupd. unfold rlane. rewrite get_upd.
    destruct (Nat.eqb r' r).
    - rewrite nth_fit by exact Hi. rewrite b8_id by apply Hr. apply Ha. exact Hi.
    - apply HS. exact Hi.
  Qed.

  Theorem rexec_ok ast st x : Rel ast st -> Rel (raexec w n ast x) (rexec e st x).
  Proof.
    intros HR. pose proof HR as [HS [ws [HF Hpa]]]. unfold raexec, rexec.
    assert (Hv := fun k => rinstr_val_ok ast st (snd x) (fst x) k HR).
    assert (Hr := rinstr_val_rng st (snd x) (fst x)).
    destruct (rinstr_dst (fst x)); cbn [rawr rwr_op]; try exact HR.
    - split; cbn [fst snd]; [apply rsat_upd; assumption|exists ws; auto].
    - split; cbn [fst snd]; [apply rsat_upd; assumption|exists ws; auto].
    - split; cbn [fst snd]; [exact HS|].
      exists ((ival (snd x) b, (re_base e + off)%nat, rinstr_val e st (snd x) (fst x)) :: ws). split.
      + constructor; [|exact HF]. repeat split; [apply rinstr_val_len|exact Hv].
      + rewrite Hpa. reflexivity.
  Qed.

  Theorem rexec_fold_ok code : forall ast st, Rel ast st -> Rel (fold_left (raexec w n) code ast) (fold_left (rexec e) code st).
  Proof. induction code as [|x code IH]; intros ast st HR; [exact HR|]. cbn [fold_left]. apply IH. apply rexec_ok. exact HR. Qed.
End RAbs.

(* registers not written keep their content *)
Lemma rexec_frame e st x r : ~ In r (rdst_reg x) -> get (fst (rexec e st x)) r = get (fst st) r.
Proof.
  intros Hn. unfold rexec. unfold rdst_reg in Hn. destruct (rinstr_dst (fst x)); unfold rwr_op; try reflexivity.
  - unfold fst at 1. rewrite get_upd. destruct (Nat.eqb_spec r n); [|reflexivity]. exfalso. apply Hn. left. congruence.
  - unfold fst at 1. rewrite get_upd. destruct (Nat.eqb_spec r (scratch_base + ival (snd x) s)); [|reflexivity].
    exfalso. apply Hn. left. congruence.
Qed.
Lemma rexec_fold_frame e code r : forall st, ~ In r (rwrites code) -> get (fst (fold_left (rexec e) code st)) r = get (fst st) r.
Proof.
  induction code as [|x code IH]; intros st Hn; [reflexivity|].
  cbn [fold_left]. unfold rwrites in Hn. cbn [flat_map] in Hn. rewrite in_app_iff in Hn.
  rewrite IH by (intro; apply Hn; right; assumption). apply rexec_frame. intro. apply Hn. left. assumption.
Qed.
