(* The decoder loops generated from raid/x86.c (Gen/X86RecProgs.v, REGENERATED on every run) pass the checker, hence
   the SIMD decoders return the lost data.  `None` (untranslatable) is vacuously accepted and reported by the check. *)
From Coq Require Import NArith List Bool String.
From Snap.Raid Require Import GenModel GenProofs RecModel RecProofs.
From Snap.Simd Require Import SimdDefs SimdSem SimdMath RecDefs RecSem RecCheck RecSimdModel RecProofs.
From Snap.Gen Require Import X86RecProgs.
Import ListNotations.

Lemma chk_rec1_ssse3 : rchecker_opt raid_rec1_ssse3 = true. Proof. vm_compute. reflexivity. Qed.
Lemma chk_rec2_ssse3 : rchecker_opt raid_rec2_ssse3 = true. Proof. vm_compute. reflexivity. Qed.
Lemma chk_recX_ssse3 : rchecker_opt raid_recX_ssse3 = true. Proof. vm_compute. reflexivity. Qed.
Lemma chk_rec1_avx2 : rchecker_opt raid_rec1_avx2 = true. Proof. vm_compute. reflexivity. Qed.
Lemma chk_rec2_avx2 : rchecker_opt raid_rec2_avx2 = true. Proof. vm_compute. reflexivity. Qed.
Lemma chk_recX_avx2 : rchecker_opt raid_recX_avx2 = true. Proof. vm_compute. reflexivity. Qed.

Lemma all_rec_checked : forallb (fun x => rchecker_opt (snd x)) all_rec_progs = true.
Proof. vm_compute. reflexivity. Qed.

Lemma in_checked f p : In (f, Some p) all_rec_progs -> rchecker p = true.
Proof. intros Hin. assert (H := all_rec_checked). rewrite forallb_forall in H. exact (H _ Hin). Qed.

(* which nr each decoder serves (raid_rec_ptr[nr-1]) and the fast path of raid_rec1 *)
Definition serves (p : option rprog) (nrs : list nat) (fast : bool) : Prop :=
  match p with Some p => (forall nr, In nr nrs -> nr_allowed p nr) /\ r_fast1 p = fast | None => True end.
Ltac serves_tac :=
  unfold serves; match goal with |- match ?p with _ => _ end => unfold p end;
  first [exact I | split; [intros nr Hin; cbn [In] in Hin; unfold nr_allowed; cbn [r_n];
                           repeat (destruct Hin as [<-|Hin]; [first [left; reflexivity | right; split; [reflexivity|split; repeat constructor]]|]);
                           contradiction | reflexivity]].
Lemma serves_rec1_ssse3 : serves raid_rec1_ssse3 [1%nat] true. Proof. serves_tac. Qed.
Lemma serves_rec2_ssse3 : serves raid_rec2_ssse3 [2%nat] false. Proof. serves_tac. Qed.
Lemma serves_recX_ssse3 : serves raid_recX_ssse3 [1; 2; 3; 4; 5; 6]%nat false. Proof. serves_tac. Qed.
Lemma serves_rec1_avx2 : serves raid_rec1_avx2 [1%nat] true. Proof. serves_tac. Qed.
Lemma serves_rec2_avx2 : serves raid_rec2_avx2 [2%nat] false. Proof. serves_tac. Qed.
Lemma serves_recX_avx2 : serves raid_recX_avx2 [1; 2; 3; 4; 5; 6]%nat false. Proof. serves_tac. Qed.

Theorem rec_simd_all_correct : forall f p, In (f, Some p) all_rec_progs ->
  forall nr V pb pa0 size s0, nr_allowed p nr ->
  (forall i, (nth i V 0 < 256)%N) -> (exists m, size = (m * r_step p)%nat) ->
  List.length pa0 = nr -> (forall b, (b < nr)%nat -> List.length (nth b pa0 []) = size) ->
  exec_rloop p nr V pb pa0 size s0
  = map (fun b => map (fun x => xsum (fun k => Gf.gmul (nth (b * nr + k) V 0%N)
                                                   (N.lxor (b8 (nth x (nth k pb []) 0%N)) (b8 (nth x (nth k pa0 []) 0%N)))) (seq 0 nr))
                      (seq 0 size)) (seq 0 nr).
Proof. intros f p Hin nr V pb pa0 size s0 Ha. apply rec_simd_correct; [exact (in_checked f p Hin)|exact Ha]. Qed.

Theorem simd_decoders_correct : forall f p, In (f, Some p) all_rec_progs ->
  forall m id ip size orig data par s0,
  nr_allowed p (List.length id) -> (exists mm, size = (mm * r_step p)%nat) ->
  sorted_lt id = true -> sorted_lt ip = true -> List.length ip = List.length id ->
  (forall d, In d id -> (d < 251)%nat) -> (forall q, In q ip -> (q < rows_of m)%nat) ->
  (forall x, (x < size)%nat -> rec_hyps m id ip (column orig x) (column data x) (column par x)) ->
  simd_decode p m id ip size data par s0 = Some (map (fun d => map (fun x => nth x (nth d orig []) 0%N) (seq 0 size)) id).
Proof. intros f p Hin m id ip size orig data par s0. apply simd_decode_correct. exact (in_checked f p Hin). Qed.

(* non-vacuity: a concrete stripe (4 disks of 16 bytes, 3 parities, disks 1 and 3 lost and overwritten with garbage)
   meets the hypotheses, and the interpreted raid_rec2_ssse3 returns the two lost blocks *)
Definition ex_orig : list block :=
  [[1; 2; 3; 4; 5; 6; 7; 8; 9; 10; 11; 12; 13; 14; 15; 255]; [16; 32; 48; 64; 80; 96; 112; 128; 144; 160; 176; 192; 208; 224; 240; 0];
   [129; 3; 7; 250; 77; 91; 200; 100; 50; 25; 12; 6; 3; 1; 0; 254]; [9; 8; 7; 6; 5; 4; 3; 2; 1; 0; 255; 254; 253; 252; 251; 250]]%N.
Definition ex_par : list block := spec_blocks cauchyN 3 16 ex_orig.
Definition ex_data : list block := [nth 0 ex_orig []; repeat 170%N 16; nth 2 ex_orig []; repeat 85%N 16].
Lemma ex_run : match raid_rec2_ssse3 with
               | Some p => simd_decode p Cauchy [1; 3]%nat [0; 1]%nat 16 ex_data ex_par [] = Some [nth 1 ex_orig []; nth 3 ex_orig []]
               | None => True
               end.
Proof. unfold raid_rec2_ssse3 at 1. cbv beta iota. first [exact I | vm_compute; reflexivity]. Qed.
