(* Checker of the decoder loops (definitions only; extracted for per-function diagnostics).  One chunk of the
   program, unrolled for a concrete N, is run over abstract values ("what every byte lane holds, as an xor of
   table products of xors of input bytes at the same offset"); [rchecker] then requires every store into pa[b]
   to hold   XOR_k  gfmulpshufb[V[b*N+k]].lo[D_k & 15] ^ gfmulpshufb[V[b*N+k]].hi[D_k >> 4],  D_k = p[k] ^ pa[k],
   the stores to cover the chunk, and no buffer pa[] to be read after the first store of the chunk.
   V stays symbolic: only positions b*N+k appear. *)
From Coq Require Import NArith List Bool Arith.
From Snap.Simd Require Import SimdDefs SimdSem RecDefs RecSem.
Import ListNotations.
Local Open Scope N_scope.

Inductive atom := AtP (b off : nat) | AtPa (b off : nat).     (* p[b][i+off], pa[b][i+off] at chunk entry *)
Definition xs := list atom.                                      (* their xor *)
Inductive rcoef := ROne | RLo (vi : nat) | RHi (vi : nat).       (* x ; table of V[vi], low / high nibble of x *)
Definition rterm := (rcoef * xs)%type.
Definition rnf := list rterm.

Inductive rav :=
| RJunk
| RCst (c : N)
| RTab (vi lh : nat)                   (* lane i = gfmulpshufb[V[vi]][lh][i mod 16] *)
| RLin (n : rnf)
| RLo4 (x : xs) | RHi4 (x : xs)
| RSrl4 (x : xs).                      (* raw psrlw $4 *)

Definition atom_eqb (a b : atom) : bool :=
  match a, b with
  | AtP x o, AtP x' o' | AtPa x o, AtPa x' o' => Nat.eqb x x' && Nat.eqb o o'
  | _, _ => false
  end.
Fixpoint rm_atom (a : atom) (l : xs) : option xs :=
  match l with
  | [] => None
  | x :: r => if atom_eqb a x then Some r else match rm_atom a r with Some r' => Some (x :: r') | None => None end
  end.
Fixpoint xs_perm (a b : xs) : bool :=
  match a with
  | [] => match b with [] => true | _ => false end
  | t :: a' => match rm_atom t b with Some b' => xs_perm a' b' | None => false end
  end.
Definition rcoef_eqb (a b : rcoef) : bool :=
  match a, b with ROne, ROne => true | RLo x, RLo y | RHi x, RHi y => Nat.eqb x y | _, _ => false end.
Definition rterm_eqb (a b : rterm) : bool := rcoef_eqb (fst a) (fst b) && xs_perm (snd a) (snd b).
Fixpoint rm_term (t : rterm) (l : rnf) : option rnf :=
  match l with
  | [] => None
  | x :: r => if rterm_eqb t x then Some r else match rm_term t r with Some r' => Some (x :: r') | None => None end
  end.
Fixpoint rnf_perm (a b : rnf) : bool :=
  match a with
  | [] => match b with [] => true | _ => false end
  | t :: a' => match rm_term t b with Some b' => rnf_perm a' b' | None => false end
  end.

(* a value that is a plain xor of inputs *)
Fixpoint pure (n : rnf) : option xs :=
  match n with
  | [] => Some []
  | (ROne, x) :: r => match pure r with Some y => Some (x ++ y) | None => None end
  | _ => None
  end.

Definition rastate := list rav.
Definition raget (A : rastate) (r : nat) : rav := nth r A RJunk.
Fixpoint raupd (r : nat) (v : rav) (A : rastate) : rastate :=
  match r, A with
  | O, [] => [v]
  | O, _ :: t => v :: t
  | S r', [] => RJunk :: raupd r' v []
  | S r', h :: t => h :: raupd r' v t
  end.

Definition rconst_av (bs : list N) : rav :=
  let c := b8 (nth 0 bs 0) in
  if forallb (fun i => N.eqb (b8 (nth i bs 0)) c) (seq 0 16) then RCst c else RJunk.
Definition rtab_av (vi lh : nat) : rav := if Nat.ltb lh 2 then RTab vi lh else RJunk.

Definition ralog := list (nat * nat * rav).           (* buffer index, offset, value; newest first *)
Definition rast := (rastate * ralog)%type.

Definition rard (w n : nat) (st : rast) (jk : nat * nat) (o : roperand) : rav :=
  match o with
  | RReg r => raget (fst st) r
  | RScratch s => raget (fst st) (scratch_base + ival jk s)
  | RP b off => RLin [(ROne, [AtP (ival jk b) off])]
  | RPa b off => match snd st with [] => RLin [(ROne, [AtPa (ival jk b) off])] | _ => RJunk end
  | RMulTab v lh => if Nat.eqb w 16 then rtab_av (match v with VAt m => m | VJK => (fst jk * n + snd jk)%nat end) lh else RJunk
  | RConst bs => if Nat.eqb w 16 then rconst_av bs else RJunk
  end.
Definition rard16 (n : nat) (jk : nat * nat) (o : roperand) : rav :=
  match o with
  | RMulTab v lh => rtab_av (match v with VAt m => m | VJK => (fst jk * n + snd jk)%nat end) lh
  | RConst bs => rconst_av bs
  | _ => RJunk
  end.

Definition rxor (x y : rav) : rav := match x, y with RLin a, RLin b => RLin (a ++ b) | _, _ => RJunk end.
Definition rand0 (x y : rav) : rav :=
  match y with
  | RCst c => if N.eqb c 15 then
                match x with
                | RLin n => match pure n with Some s => RLo4 s | None => RJunk end
                | RSrl4 s => RHi4 s
                | _ => RJunk
                end
              else RJunk
  | _ => RJunk
  end.
Definition rand (x y : rav) : rav := match rand0 x y with RJunk => rand0 y x | v => v end.
Definition rpshufb (t x : rav) : rav :=
  match t, x with
  | RTab vi lh, RLo4 s => if Nat.eqb lh 0 then RLin [(RLo vi, s)] else RJunk
  | RTab vi lh, RHi4 s => if Nat.eqb lh 1 then RLin [(RHi vi, s)] else RJunk
  | _, _ => RJunk
  end.
Definition rsame_reg (a b : roperand) : bool := match a, b with RReg n, RReg m => Nat.eqb n m | _, _ => false end.

Definition rainstr_val (w n : nat) (st : rast) (jk : nat * nat) (i : rinstr) : rav :=
  match i with
  | RMov d a => rard w n st jk a
  | RStore d a => rard w n st jk a
  | RBcast d a => rard16 n jk a
  | RBin o d a b =>
      match o with
      | OXor => if rsame_reg a b then RLin [] else rxor (rard w n st jk a) (rard w n st jk b)
      | OAnd => rand (rard w n st jk a) (rard w n st jk b)
      | OPshufb => rpshufb (rard w n st jk a) (rard w n st jk b)
      | _ => RJunk
      end
  | RSrlW k d a => if N.eqb k 4 then
                     match rard w n st jk a with
                     | RLin m => match pure m with Some s => RSrl4 s | None => RJunk end
                     | _ => RJunk
                     end
                   else RJunk
  end.
Definition rawr (st : rast) (jk : nat * nat) (o : roperand) (v : rav) : rast :=
  match o with
  | RReg r => (raupd r v (fst st), snd st)
  | RScratch s => (raupd (scratch_base + ival jk s) v (fst st), snd st)
  | RPa b off => (fst st, (ival jk b, off, v) :: snd st)
  | _ => st
  end.
Definition raexec (w n : nat) (st : rast) (x : rinstr * (nat * nat)) : rast :=
  rawr st (snd x) (rinstr_dst (fst x)) (rainstr_val w n st (snd x) (fst x)).

(* registers written by an unrolled block *)
Definition rdst_reg (x : rinstr * (nat * nat)) : list nat :=
  match rinstr_dst (fst x) with RReg r => [r] | RScratch s => [(scratch_base + ival (snd x) s)%nat] | _ => [] end.
Definition rwrites (b : list (rinstr * (nat * nat))) : list nat := flat_map rdst_reg b.

Definition rnreg : nat := 24.
Definition keeps (v : rav) : bool := match v with RCst _ | RTab _ _ => true | _ => false end.
(* what the prologue establishes and the chunk never overwrites *)
Definition rbase_state (Apro : rastate) (wr : list nat) : rastate :=
  map (fun r => if keeps (raget Apro r) && negb (existsb (Nat.eqb r) wr) then raget Apro r else RJunk) (seq 0 rnreg).

Definition expected (n b off : nat) : rnf :=
  flat_map (fun k => [(RLo (b * n + k)%nat, [AtP k off; AtPa k off]); (RHi (b * n + k)%nat, [AtP k off; AtPa k off])]) (seq 0 n).
Definition rstore_ok (w stp n : nat) (s : nat * nat * rav) : bool :=
  let '(b, off, a) := s in
  Nat.ltb b n && Nat.leb (off + w) stp &&
  match a with RLin m => rnf_perm m (expected n b off) | _ => false end.
Definition rcovered (w stp n : nat) (sts : ralog) : bool :=
  forallb (fun b => forallb (fun m => existsb (fun s : nat * nat * rav => Nat.eqb (fst (fst s)) b && Nat.eqb (snd (fst s)) (m * w)) sts)
                            (seq 0 (stp / w))) (seq 0 n).

Definition isnil_r (l : ralog) : bool := match l with [] => true | _ => false end.

Definition ranalyse (p : rprog) (n : nat) : rast * rast :=
  let w := r_width p in
  let pro := fold_left (raexec w n) (map (fun i => (i, (O, O))) (r_prologue p)) ([], []) in
  let code := flat n (r_chunk p) in
  (pro, fold_left (raexec w n) code (rbase_state (fst pro) (rwrites code), [])).

Definition rcheck_n (p : rprog) (n : nat) : bool :=
  let w := r_width p in
  let a := ranalyse p n in
  (Nat.eqb w 16 || Nat.eqb w 32) && Nat.ltb 0 (r_step p) && Nat.eqb (r_step p mod w) 0 &&
  Nat.ltb 0 n &&
  isnil_r (snd (fst a)) &&
  forallb (rstore_ok w (r_step p) n) (snd (snd a)) && rcovered w (r_step p) n (snd (snd a)).

(* N = 1 / 2 for raid_rec1 / raid_rec2, every nr in 1..6 for raid_recX *)
Definition rchecker (p : rprog) : bool :=
  match r_n p with Some n => rcheck_n p n | None => forallb (rcheck_n p) (seq 1 6) end.
Definition rchecker_opt (p : option rprog) : bool := match p with Some p => rchecker p | None => true end.
