(* rec_simd_correct: a decoder loop accepted by [rchecker] leaves in pa[b], for every byte position x,
       XOR_{k<N}  V[b*N+k] . (p[k][x] ^ pa[k][x])        (GF(2^8) products, pa[] as on entry)
   for every N allowed by the program, every byte matrix V, every size that is a multiple of the step. *)
From Coq Require Import NArith List Bool Arith Lia.
From Snap.Gen Require Import Tables.
From Snap.GF Require Import Gf.
From Snap.Raid Require Import GenModel.
From Snap.Simd Require Import SimdDefs SimdSem SimdBytes SimdMath SimdLog RecDefs RecSem RecCheck RecAbs.
Import ListNotations.
Local Open Scope N_scope.

(* ---- gfmulpshufb (regenerated Gen.Tables) against the closed form ------------------------------------------- *)
Definition mtab_entry_ok (m lh t : nat) : bool :=
  mtab (N.of_nat m) lh t =? gmul (N.of_nat m) (if Nat.eqb lh 0 then N.of_nat t else 16 * N.of_nat t).
Lemma mtab_all_ok :
  forallb (fun m => forallb (fun lh => forallb (fun t => mtab_entry_ok m lh t) (seq 0 16)) (seq 0 2)) (seq 0 256) = true.
Proof. vm_compute. reflexivity. Qed.
Lemma mtab_ok m lh t : m < 256 -> (lh < 2)%nat -> (t < 16)%nat ->
  mtab m lh t = gmul m (if Nat.eqb lh 0 then N.of_nat t else 16 * N.of_nat t).
Proof.
  intros Hm Hl Ht. assert (H := mtab_all_ok).
  rewrite forallb_forall in H. specialize (H (N.to_nat m) ltac:(apply in_seq; lia)).
  rewrite forallb_forall in H. specialize (H lh ltac:(apply in_seq; lia)).
  rewrite forallb_forall in H. specialize (H t ltac:(apply in_seq; lia)).
  unfold mtab_entry_ok in H. rewrite N2Nat.id in H. apply N.eqb_eq in H. exact H.
Qed.
Lemma mmul_ok m v : m < 256 -> v < 256 ->
  N.lxor (mtab m 0 (N.to_nat (N.land v 15))) (mtab m 1 (N.to_nat (N.shiftr v 4))) = gmul m v.
Proof.
  intros Hm Hv. destruct (lo4_idx v Hv) as [_ [_ L]]. destruct (hi4_idx v Hv) as [_ [_ R]].
  rewrite !mtab_ok by lia. cbn [Nat.eqb]. rewrite !N2Nat.id.
  destruct (nibble_split v Hv) as [E Hh].
  rewrite <- gmul_distr_r; [rewrite <- E; reflexivity|exact Hm|lia|exact Hh].
Qed.

(* ---- stores that miss a position ------------------------------------------------------------------------------ *)
Lemma apply_outside G pm b x :
  (forall y, In y G -> fst (fst y) <> b \/ (x < snd (fst y))%nat \/ (snd (fst y) + length (snd y) <= x)%nat) ->
  nth x (nth b (apply_log G pm) []) 0 = nth x (nth b pm []) 0.
Proof.
  induction G as [|y G IH]; intros H; [reflexivity|]. rewrite apply_log_cons. rewrite nth_write_par.
  assert (Hy := H y (or_introl eq_refl)). destruct y as [[jb pos] v]. cbn [fst snd] in *.
  assert (IH' : nth x (nth b (apply_log G pm) []) 0 = nth x (nth b pm []) 0)
    by (apply IH; intros y' Hy'; apply H; right; exact Hy').
  match goal with |- context [if ?c then _ else _] => destruct c eqn:Ec end; [|exact IH'].
  apply andb_true_iff in Ec. destruct Ec as [E1 _]. apply Nat.eqb_eq in E1.
  rewrite nth_write_at.
  match goal with |- context [if ?c then _ else _] => destruct c eqn:Ec2 end.
  - exfalso. apply andb_true_iff in Ec2. destruct Ec2 as [Ec2 _]. apply andb_true_iff in Ec2. destruct Ec2 as [A1 A2].
    apply Nat.leb_le in A1. apply Nat.ltb_lt in A2.
    destruct Hy as [H1|[H1|H1]]; [apply H1; symmetry; exact E1|lia|lia].
  - rewrite <- E1. exact IH'.
Qed.

Lemma Forall2_in_r' {A B} (R : A -> B -> Prop) l l' y : Forall2 R l l' -> In y l' -> exists x, In x l /\ R x y.
Proof.
  induction 1 as [|a b l l' H H' IH]; intros Hin; [contradiction|]. destruct Hin as [->|Hin].
  - exists a. split; [left; reflexivity|exact H].
  - destruct (IH Hin) as [x [Hx HR]]. exists x. split; [right; exact Hx|exact HR].
Qed.
Lemma Forall2_in_l' {A B} (R : A -> B -> Prop) l l' x : Forall2 R l l' -> In x l -> exists y, In y l' /\ R x y.
Proof.
  induction 1 as [|a b l l' H H' IH]; intros Hin; [contradiction|]. destruct Hin as [->|Hin].
  - exists b. split; [left; reflexivity|exact H].
  - destruct (IH Hin) as [y [Hy HR]]. exists y. split; [right; exact Hy|exact HR].
Qed.

Section RLoop.
  Variable p : rprog.
  Variable nr : nat.
  Variable V : list N.
  Variable pb pa0 : list block.
  Let w := r_width p.
  Let n := rloop_n p nr.
  Let stp := r_step p.
  Let pro := fold_left (raexec w n) (map (fun i => (i, (O, O))) (r_prologue p)) ([], []).
  Let code := flat n (r_chunk p).
  Let B := rbase_state (fst pro) (rwrites code).
  Let fin := fold_left (raexec w n) code (B, []).

  Hypothesis Hw : w = 16%nat \/ w = 32%nat.
  Hypothesis Hstp : (0 < stp)%nat.
  Hypothesis Hmod : (stp mod w = 0)%nat.
  Hypothesis Hn : (0 < n)%nat.
  Hypothesis Hpro : snd pro = [].
  Hypothesis Hstores : forallb (rstore_ok w stp n) (snd fin) = true.
  Hypothesis Hcov : rcovered w stp n (snd fin) = true.
  Hypothesis HV : forall i, nth i V 0 < 256.
  Variable size m : nat.
  Hypothesis Hsize : size = (m * stp)%nat.
  Hypothesis Lpa : length pa0 = n.
  Hypothesis Lblk : forall b, (b < n)%nat -> length (nth b pa0 []) = size.

  Definition Dk (k x : nat) : N := N.lxor (b8 (nth x (nth k pb []) 0)) (b8 (nth x (nth k pa0 []) 0)).
  Definition rout (b x : nat) : N := xsum (fun k => gmul (nth (b * n + k) V 0) (Dk k x)) (seq 0 n).
  Definition env (base : nat) : renv := mkrenv p nr V pb base.

  (* what the prologue establishes *)
  Definition Cinv (s : regs) : Prop :=
    forall r i, (i < w)%nat -> rlane_ok (env O) pa0 i (raget B r) (rlane (env O) s r i).

  Lemma keeps_indep base pas i a x : keeps a = true -> rlane_ok (env O) pa0 i a x -> rlane_ok (env base) pas i a x.
  Proof. destruct a; cbn [keeps]; try discriminate; intros _ H; exact H. Qed.
  Lemma B_get r : raget B r = RJunk \/ (keeps (raget B r) = true /\ ~ In r (rwrites code)).
  Proof.
    unfold B, rbase_state, raget. destruct (Nat.lt_ge_cases r rnreg) as [Hr|Hr].
    - rewrite nth_map_seq by exact Hr. fold (raget (fst pro) r).
      destruct (keeps (raget (fst pro) r)) eqn:K; cbn [andb]; [|left; reflexivity].
      destruct (existsb (Nat.eqb r) (rwrites code)) eqn:E; cbn [negb]; [left; reflexivity|].
      right. split; [exact K|]. intros Hin. assert (E' : existsb (Nat.eqb r) (rwrites code) = true).
      { apply existsb_exists. exists r. split; [exact Hin|apply Nat.eqb_refl]. } congruence.
    - left. apply nth_overflow. rewrite map_length, seq_length. exact Hr.
  Qed.
  Lemma base_rsat base pas s : Cinv s -> rsat (env base) pas B s.
  Proof.
    intros HC r i Hi. destruct (B_get r) as [E|[K _]]; [rewrite E; exact I|].
    apply keeps_indep; [exact K|]. apply HC. exact Hi.
  Qed.

  Lemma prologue_ok s0 :
    let st0 := fold_left (rexec (env O)) (map (fun i => (i, (O, O))) (r_prologue p)) (s0, pa0) in
    Cinv (fst st0) /\ snd st0 = pa0.
  Proof.
    cbn zeta.
    assert (R0 : Rel (env O) pa0 ([], []) (s0, pa0)).
    { split; [intros r i Hi; unfold raget; destruct r; exact I|]. exists []. split; [constructor|reflexivity]. }
    pose proof (rexec_fold_ok (env O) pa0 Hw (map (fun i => (i, (O, O))) (r_prologue p)) _ _ R0) as [HS [ws [HF Hpa]]].
    change (fold_left (raexec (re_w (env O)) (re_n (env O))) (map (fun i => (i, (O, O))) (r_prologue p)) ([], [])) with pro in HS, HF.
    rewrite Hpro in HF. inversion HF; subst. split; [|exact Hpa].
    intros r i Hi. destruct (B_get r) as [E|[K _]]; [rewrite E; exact I|].
    unfold B, rbase_state, raget in *. destruct (Nat.lt_ge_cases r rnreg) as [Hr|Hr].
    + rewrite nth_map_seq in * by exact Hr. fold (raget (fst pro) r) in *.
      destruct (keeps (raget (fst pro) r) && negb (existsb (Nat.eqb r) (rwrites code)))%bool; [|exact I].
      apply HS. exact Hi.
    + rewrite nth_overflow by (rewrite map_length, seq_length; exact Hr). exact I.
  Qed.

  (* ---- meaning of the expected normal form -------------------------------------------------------------------- *)
  Lemma reval_expected base pas b off i :
    (forall k, (k < n)%nat -> b8 (nth (base + off + i) (nth k pas []) 0) = b8 (nth (base + off + i) (nth k pa0 []) 0)) ->
    reval (env base) pas (expected n b off) i = rout b (base + off + i).
  Proof.
    intros Hpas. unfold expected, rout. generalize (seq 0 n) (fun k => proj1 (in_seq n 0 k)). intros ks Hks.
    induction ks as [|k ks IH]; [reflexivity|].
    cbn [flat_map app]. change (xsum ?f (k :: ks)) with (N.lxor (f k) (xsum f ks)).
    match goal with |- reval _ _ (?t1 :: ?t2 :: ?r) _ = _ =>
      change (reval (env base) pas (t1 :: t2 :: r) i)
        with (N.lxor (rcmul (env base) (fst t1) (xsv (env base) pas (snd t1) i))
                     (N.lxor (rcmul (env base) (fst t2) (xsv (env base) pas (snd t2) i)) (reval (env base) pas r i))) end.
    rewrite IH by (intros k' Hk'; apply Hks; right; exact Hk').
    rewrite <- N.lxor_assoc. f_equal. cbn [fst snd rcmul].
    assert (Ex : xsv (env base) pas [AtP k off; AtPa k off] i = Dk k (base + off + i)).
    { cbn [xsv fold_right atomv]. rewrite N.lxor_0_r. unfold Dk. f_equal. apply Hpas.
      assert (H := Hks k (or_introl eq_refl)). lia. }
    rewrite Ex. apply mmul_ok; [apply HV|]. unfold Dk. apply lxor_range; apply b8_lt.
  Qed.

  (* ---- the memory after c chunks ------------------------------------------------------------------------------- *)
  Definition target (c b x : nat) : N := if (Nat.ltb b n && Nat.ltb x (c * stp))%bool then rout b x else nth x (nth b pa0 []) 0.
  Definition Minv (c : nat) (pa : list block) : Prop :=
    length pa = n /\ (forall b, length (nth b pa []) = length (nth b pa0 [])) /\
    forall b x, nth x (nth b pa []) 0 = target c b x.

  Lemma chunk_ok c st : (c < m)%nat -> Cinv (fst st) -> Minv c (snd st) ->
    Cinv (fst (rchunk p nr V pb st c)) /\ Minv (S c) (snd (rchunk p nr V pb st c)).
  Proof.
    intros Hc HC [L1 [L2 HM]]. unfold rchunk. set (base := (c * r_step p)%nat).
    change (mkrenv p nr V pb base) with (env base). change (flat (rloop_n p nr) (r_chunk p)) with code.
    assert (R0 : Rel (env base) (snd st) (B, []) st).
    { split; [apply base_rsat; exact HC|]. exists []. split; [constructor|reflexivity]. }
    pose proof (rexec_fold_ok (env base) (snd st) Hw code _ _ R0) as [HS [ws [HF Hpa]]].
    change (fold_left (raexec (re_w (env base)) (re_n (env base))) code (B, [])) with fin in HS, HF.
    set (st' := fold_left (rexec (env base)) code st) in *.
    split.
    - intros r i Hi. destruct (B_get r) as [E|[K Hnw]]; [rewrite E; exact I|].
      unfold rlane. unfold st'. rewrite rexec_fold_frame by exact Hnw. apply HC. exact Hi.
    - assert (Hwpos : (0 < w)%nat) by (destruct Hw as [E|E]; rewrite E; lia).
      assert (Hbase : (base + stp <= size)%nat) by (subst size; unfold base; fold stp; nia).
      (* every concrete store is good *)
      assert (G : forall y, In y ws -> (fst (fst y) < n)%nat /\ length (snd y) = w /\
                   exists off, snd (fst y) = (base + off)%nat /\ (off + w <= stp)%nat /\
                   forall i, (i < w)%nat -> nth i (snd y) 0 = rout (fst (fst y)) (base + off + i)).
      { intros y Hy. destruct (Forall2_in_r' _ _ _ y HF Hy) as [x [Hx [R1 [R2 [R3 R4]]]]].
        rewrite forallb_forall in Hstores. specialize (Hstores x Hx). destruct x as [[b off] a]. cbn [fst snd] in *.
        unfold rstore_ok in Hstores. apply andb_true_iff in Hstores. destruct Hstores as [Hs1 Hs3].
        apply andb_true_iff in Hs1. destruct Hs1 as [Hs1 Hs2]. apply Nat.ltb_lt in Hs1. apply Nat.leb_le in Hs2.
        destruct a; try discriminate.
        split; [rewrite R1; exact Hs1|]. split; [exact R3|]. exists off. split; [exact R2|]. split; [exact Hs2|].
        intros i Hi. specialize (R4 i Hi). cbn [rlane_ok] in R4. rewrite R4.
        rewrite (rnf_perm_eval (env base) (snd st) n0 _ i Hs3). rewrite R1.
        apply reval_expected. intros k Hk. f_equal. rewrite HM. unfold target.
        replace (Nat.ltb (base + off + i) (c * stp)) with false by (symmetry; apply Nat.ltb_ge; unfold base; fold stp; lia).
        rewrite andb_false_r. reflexivity. }
      assert (G' : forall jb pos v, In (jb, pos, v) ws -> (jb < n)%nat /\ length v = w /\
                   exists off, pos = (base + off)%nat /\ (off + w <= stp)%nat)
        by (intros jb pos v Hy; destruct (G (jb, pos, v) Hy) as [A1 [A2 [off [A3 [A4 _]]]]]; split; [exact A1|split; [exact A2|exists off; split; [exact A3|exact A4]]]).
      assert (Hpa' : snd st' = apply_log ws (snd st)) by exact Hpa.
      split; [rewrite Hpa', apply_len; exact L1|]. split; [intros b; rewrite Hpa', apply_len_blk; apply L2|].
      intros b x. rewrite Hpa'.
      destruct (Nat.ltb_spec b n) as [Hb|Hb].
      + destruct (Nat.le_gt_cases base x) as [Hx1|Hx1]; [destruct (Nat.lt_ge_cases x (base + stp)) as [Hx2|Hx2]|].
        * (* inside the chunk: covered *)
          assert (T : target (S c) b x = rout b x).
          { unfold target. replace (Nat.ltb b n) with true by (symmetry; apply Nat.ltb_lt; exact Hb).
            replace (Nat.ltb x (S c * stp)) with true by (symmetry; apply Nat.ltb_lt; unfold base in Hx2; fold stp in Hx2; lia).
            reflexivity. }
          rewrite T. apply (apply_cov rout ws (snd st) b x).
          -- intros y Hy. destruct (G y Hy) as [_ [Hlen [off [Hpos [_ Hv]]]]]. intros i Hi. rewrite Hlen in Hi. rewrite Hpos. apply Hv. exact Hi.
          -- set (r := (x - base)%nat). set (q := (r / w)%nat).
             assert (Hr1 : r = (w * q + r mod w)%nat) by (apply Nat.div_mod; lia).
             assert (Hr' : (r mod w < w)%nat) by (apply Nat.mod_upper_bound; lia).
             assert (HS' : stp = (w * (stp / w))%nat) by (apply Nat.div_exact; [lia|exact Hmod]).
             assert (Hq : (q < stp / w)%nat) by (apply Nat.div_lt_upper_bound; [lia|]; unfold r; lia).
             unfold rcovered in Hcov. rewrite forallb_forall in Hcov. specialize (Hcov b ltac:(apply in_seq; lia)).
             rewrite forallb_forall in Hcov. specialize (Hcov q ltac:(apply in_seq; lia)).
             apply existsb_exists in Hcov. destruct Hcov as [x0 [Hx0 Hc0]].
             apply andb_true_iff in Hc0. destruct Hc0 as [C1 C2]. apply Nat.eqb_eq in C1, C2.
             destruct (Forall2_in_l' _ _ _ x0 HF Hx0) as [y [Hy [R1 [R2 [R3 _]]]]].
             exists y. split; [exact Hy|]. split; [congruence|]. rewrite R2, R3, C2. cbn [re_base env mkrenv]. change (re_w (env base)) with w. unfold r in *. lia.
          -- eapply Nat.lt_le_trans; [exact Hb|]. apply Nat.eq_le_incl. symmetry. exact L1.
          -- apply Nat.lt_le_trans with size; [lia|]. apply Nat.eq_le_incl. symmetry.
             etransitivity; [exact (L2 b)|exact (Lblk b Hb)].
        * (* above the chunk *)
          rewrite apply_outside.
          2:{ intros [[jb pos] v] Hy. cbn [fst snd]. destruct (G' jb pos v Hy) as [_ [Hlen [off [Hpos Hoff]]]]. right. right. lia. }
          rewrite HM. unfold target.
          replace (Nat.ltb x (c * stp)) with false by (symmetry; apply Nat.ltb_ge; unfold base in Hx2; fold stp in Hx2; lia).
          replace (Nat.ltb x (S c * stp)) with false by (symmetry; apply Nat.ltb_ge; unfold base in Hx2; fold stp in Hx2; lia).
          reflexivity.
        * (* below the chunk *)
          rewrite apply_outside.
          2:{ intros [[jb pos] v] Hy. cbn [fst snd]. destruct (G' jb pos v Hy) as [_ [Hlen [off [Hpos Hoff]]]]. right. left. lia. }
          rewrite HM. unfold target.
          replace (Nat.ltb x (c * stp)) with true by (symmetry; apply Nat.ltb_lt; unfold base in Hx1; fold stp in Hx1; lia).
          replace (Nat.ltb x (S c * stp)) with true by (symmetry; apply Nat.ltb_lt; unfold base in Hx1; fold stp in Hx1; lia).
          reflexivity.
      + rewrite apply_outside.
        2:{ intros [[jb pos] v] Hy. cbn [fst snd]. destruct (G' jb pos v Hy) as [Hlt _]. left. lia. }
        rewrite HM. unfold target. replace (Nat.ltb b n) with false by (symmetry; apply Nat.ltb_ge; exact Hb). reflexivity.
  Qed.

  Lemma chunks_ok c : (c <= m)%nat -> forall st, Cinv (fst st) -> Minv O (snd st) ->
    Cinv (fst (fold_left (rchunk p nr V pb) (seq 0 c) st)) /\ Minv c (snd (fold_left (rchunk p nr V pb) (seq 0 c) st)).
  Proof.
    induction c as [|c IH]; intros Hc st HC HM; [cbn [seq fold_left]; auto|].
    rewrite seq_S, fold_left_app. cbn [Nat.add fold_left].
    destruct (IH ltac:(lia) st HC HM) as [H1 H2]. apply chunk_ok; [lia|exact H1|exact H2].
  Qed.

  Theorem rloop_correct s0 :
    exec_rloop p nr V pb pa0 size s0 = map (fun b => map (fun x => rout b x) (seq 0 size)) (seq 0 n).
  Proof.
    unfold exec_rloop. destruct (prologue_ok s0) as [HC0 Hpa0]. cbn zeta in HC0, Hpa0.
    change (mkrenv p nr V pb 0) with (env O).
    set (st0 := fold_left (rexec (env O)) (map (fun i => (i, (O, O))) (r_prologue p)) (s0, pa0)) in *.
    assert (HM0 : Minv O (snd st0)).
    { rewrite Hpa0. split; [exact Lpa|]. split; [reflexivity|]. intros b x. unfold target.
      replace (Nat.ltb x (0 * stp)) with false by (symmetry; apply Nat.ltb_ge; lia). rewrite andb_false_r. reflexivity. }
    replace (nchunks size (r_step p)) with m.
    2:{ subst size. fold stp. unfold nchunks. apply Nat.div_unique with (r := (stp - 1)%nat); lia. }
    destruct (chunks_ok m (le_n m) st0 HC0 HM0) as [_ [L1 [L2 HM]]].
    apply blocks_ext with (n := n) (size := size).
    - exact L1.
    - rewrite map_length, seq_length. reflexivity.
    - intros b Hb.
      assert (Hnth : nth b (map (fun b => map (fun x => rout b x) (seq 0 size)) (seq 0 n)) [] = map (fun x => rout b x) (seq 0 size))
        by exact (nth_map_seq (fun b => map (fun x => rout b x) (seq 0 size)) n b [] Hb).
      split; [etransitivity; [exact (L2 b)|exact (Lblk b Hb)]|]. split.
      + etransitivity; [exact (f_equal (@length N) Hnth)|]. rewrite map_length, seq_length. reflexivity.
      + intros x Hx. etransitivity; [exact (HM b x)|]. symmetry.
        etransitivity; [exact (f_equal (fun l => nth x l 0) Hnth)|].
        etransitivity; [exact (nth_map_seq (fun x => rout b x) size x 0 Hx)|]. unfold target.
        replace (Nat.ltb b n) with true by (symmetry; apply Nat.ltb_lt; exact Hb).
        replace (Nat.ltb x (m * stp)) with true by (symmetry; apply Nat.ltb_lt; lia). reflexivity.
  Qed.
End RLoop.
