(* rec_simd_correct (the asm loop of an accepted decoder computes V . (P + Pa)) and its composition with the proofs
   about the C part (Raid/RecProofs.v, Raid/InvertProofs.v): the SIMD decoders return exactly the lost data. *)
From Coq Require Import NArith List Bool Arith Lia.
From Snap.Gen Require Import Tables.
From Snap.GF Require Import Gf TablesOk.
From Snap.Raid Require Import GenModel GenProofs RecModel Xsum RecProofs.
From Snap.Raid Require InvertProofs.
From Snap.Simd Require Import SimdDefs SimdSem SimdBytes SimdMath SimdLog RecDefs RecSem RecCheck RecAbs RecLoop RecSimdModel.
Import ListNotations.
Local Open Scope N_scope.

Lemma isnil_r_nil (l : ralog) : isnil_r l = true -> l = [].
Proof. destruct l; [reflexivity|discriminate]. Qed.

(* ---- the loop ------------------------------------------------------------------------------------------------ *)
Definition nr_allowed (p : rprog) (nr : nat) : Prop :=
  r_n p = Some nr \/ (r_n p = None /\ (1 <= nr <= 6)%nat).

Lemma rchecker_n p nr : rchecker p = true -> nr_allowed p nr -> rloop_n p nr = nr /\ rcheck_n p nr = true.
Proof.
  unfold rchecker, rloop_n, nr_allowed. intros H [E|[E Hn]]; rewrite E in *.
  - auto.
  - split; [reflexivity|]. rewrite forallb_forall in H. apply H. apply in_seq. lia.
Qed.

Theorem rec_simd_correct p nr V pb pa0 size s0 :
  rchecker p = true -> nr_allowed p nr ->
  (forall i, nth i V 0 < 256) -> (exists m, size = (m * r_step p)%nat) ->
  length pa0 = nr -> (forall b, (b < nr)%nat -> length (nth b pa0 []) = size) ->
  exec_rloop p nr V pb pa0 size s0
  = map (fun b => map (fun x => xsum (fun k => gmul (nth (b * nr + k) V 0)
                                                   (N.lxor (b8 (nth x (nth k pb []) 0)) (b8 (nth x (nth k pa0 []) 0)))) (seq 0 nr))
                      (seq 0 size)) (seq 0 nr).
Proof.
  intros Hc Ha HV [m Hsize] Lpa Lblk. destruct (rchecker_n p nr Hc Ha) as [En Hn].
  unfold rcheck_n in Hn. cbv zeta in Hn.
  repeat match type of Hn with (_ && _)%bool = true => let H' := fresh "C" in apply andb_true_iff in Hn; destruct Hn as [Hn H'] end.
  apply orb_true_iff in Hn.
  assert (Hw : r_width p = 16%nat \/ r_width p = 32%nat) by (destruct Hn as [H|H]; apply Nat.eqb_eq in H; auto).
  apply Nat.ltb_lt in C4. apply Nat.eqb_eq in C3. apply Nat.ltb_lt in C2. apply isnil_r_nil in C1.
  pose proof (rloop_correct p nr V pb pa0) as R. cbv zeta in R. rewrite En in R.
  rewrite (R Hw C4 C3 C2 C1 C0 C HV size m Hsize Lpa Lblk s0). unfold rout, Dk. rewrite En. reflexivity.
Qed.

(* ---- matrices as row-major lists ------------------------------------------------------------------------------- *)
Lemma nth_flat_rows {A} (f : nat -> list A) n d rows : (forall i, length (f i) = n) ->
  forall a i j, (i < rows)%nat -> (j < n)%nat -> nth (i * n + j) (flat_map f (seq a rows)) d = nth j (f (a + i)%nat) d.
Proof.
  intros Hf. induction rows as [|rows IH]; intros a i j Hi Hj; [lia|]. cbn [seq flat_map].
  destruct i as [|i].
  - cbn [Nat.mul Nat.add]. rewrite Nat.add_0_r. apply app_nth1. rewrite Hf. exact Hj.
  - rewrite app_nth2 by (rewrite Hf; cbn [Nat.mul]; lia). rewrite Hf.
    replace (S i * n + j - n)%nat with (i * n + j)%nat by (cbn [Nat.mul]; lia).
    rewrite IH by lia. f_equal. f_equal. lia.
Qed.
Lemma list_of_mx_nth n (M : mxN) i j : (i < n)%nat -> (j < n)%nat -> nth (i * n + j) (list_of_mx n M) 0 = M i j.
Proof.
  intros Hi Hj. unfold list_of_mx.
  rewrite (nth_flat_rows (fun i => map (fun j => M i j) (seq 0 n)) n 0 n) by (intros; try rewrite map_length, seq_length; auto).
  cbn [Nat.add]. apply (nth_map_seq (fun j => M i j)). exact Hj.
Qed.
Lemma list_of_mx_range n (M : mxN) : (forall i j, (i < n)%nat -> (j < n)%nat -> M i j < 256) -> forall k, nth k (list_of_mx n M) 0 < 256.
Proof.
  intros HM k. apply bytes_nth. unfold bytes. apply Forall_forall. intros v H.
  unfold list_of_mx in H. apply in_flat_map in H. destruct H as [i [Hi H]]. apply in_map_iff in H. destruct H as [j [<- Hj]].
  apply in_seq in Hi, Hj. apply HM; lia.
Qed.

Lemma column_nth (L : list block) x p : nth p (column L x) 0 = nth x (nth p L []) 0.
Proof.
  unfold column. destruct (Nat.lt_ge_cases p (length L)) as [H|H].
  - rewrite nth_indep with (d' := (fun d => nth x d 0) []) by (rewrite map_length; exact H).
    exact (map_nth (fun d => nth x d 0) L [] p).
  - rewrite nth_overflow by (rewrite map_length; exact H).
    replace (nth p L []) with (@nil N) by (symmetry; apply nth_overflow; exact H). destruct x; reflexivity.
Qed.
Lemma xsum_xsumN n f : xsum f (seq 0 n) = xsumN n f.
Proof. unfold xsum, xsumN. generalize (seq 0 n). intros l. induction l as [|x l IH]; [reflexivity|]. cbn [fold_right map]. rewrite IH. reflexivity. Qed.

(* ---- end to end: the SIMD decoder returns the lost blocks ------------------------------------------------------------ *)
Theorem simd_decode_correct p m id ip size orig data par s0 :
  rchecker p = true -> nr_allowed p (length id) -> (exists mm, size = (mm * r_step p)%nat) ->
  sorted_lt id = true -> sorted_lt ip = true -> length ip = length id ->
  (forall d, In d id -> (d < 251)%nat) -> (forall q, In q ip -> (q < rows_of m)%nat) ->
  (forall x, (x < size)%nat -> rec_hyps m id ip (column orig x) (column data x) (column par x)) ->
  simd_decode p m id ip size data par s0 = Some (map (fun d => map (fun x => nth x (nth d orig []) 0) (seq 0 size)) id).
Proof.
  intros Hc Ha Hsize Hsid Hsip Hlip Hid251 Hipr Hcols. unfold simd_decode. cbv zeta.
  destruct (r_fast1 p && is_p0 ip)%bool eqn:Ef.
  - apply andb_true_iff in Ef. destruct Ef as [_ Ep]. destruct ip as [|[|q] [|q' ip']]; try discriminate.
    destruct id as [|i0 [|i1 id']]; try discriminate. cbn [map nth]. f_equal. f_equal.
    apply map_ext_in. intros x Hx. apply in_seq in Hx.
    rewrite (rec1of1_hyps m i0 _ _ _ (Hcols x ltac:(lia))). cbn [nth]. apply column_nth.
  - set (nr := length id) in *.
    destruct (@InvertProofs.invertN_ok m id ip nr Hsid Hsip eq_refl Hlip Hid251 Hipr) as [V [EV [bV sV]]].
    cbv zeta in EV. rewrite EV.
    set (delta := transpose nr (map (fun c => delta_col m id ip (column data c)) (seq 0 size))).
    set (pb := map (fun j => nth (nth j ip 0%nat) par []) (seq 0 nr)).
    assert (Ld : length delta = nr) by (unfold delta, transpose; rewrite map_length, seq_length; reflexivity).
    assert (Nd : forall b, (b < nr)%nat -> nth b delta [] = map (fun x => nth b (delta_col m id ip (column data x)) 0) (seq 0 size)).
    { intros b Hb. unfold delta, transpose.
      etransitivity; [exact (nth_map_seq (fun j => map (fun r => nth j r 0) (map (fun c => delta_col m id ip (column data c)) (seq 0 size))) nr b [] Hb)|].
      apply map_map. }
    rewrite (rec_simd_correct p nr (list_of_mx nr V) pb delta size s0 Hc Ha (list_of_mx_range nr V bV) Hsize Ld).
    2:{ intros b Hb. etransitivity; [exact (f_equal (@length N) (Nd b Hb))|]. rewrite map_length, seq_length. reflexivity. }
    f_equal. rewrite (list_as_map_nth id 0%nat) at 1. rewrite map_map. fold nr.
    apply map_ext_in. intros j Hj. apply in_seq in Hj. apply map_ext_in. intros x Hx. apply in_seq in Hx.
    assert (Hjn : (j < nr)%nat) by lia. assert (Hxs : (x < size)%nat) by lia.
    pose proof (Hcols x Hxs) as Hh. pose proof (recX_col_hyps m id ip _ _ _ Hh) as HX.
    unfold recX_col in HX. cbv zeta in HX. fold nr in HX. rewrite EV in HX. inversion HX as [HX']. clear HX.
    assert (E := f_equal (fun l => nth j l 0) HX'). cbv beta in E.
    rewrite (nth_map_seq (fun j => fold_left N.lxor (map (fun k => t_gfmul (V j k) (nth k (map (fun j0 => N.lxor (nth (nth j0 ip 0%nat) (column par x) 0)
                (nth j0 (delta_col m id ip (column data x)) 0)) (seq 0 nr)) 0)) (seq 0 nr)) 0) nr j 0 Hjn) in E.
    rewrite (nth_map_lt (fun d => nth d (column orig x) 0) id j 0 0%nat) in E by exact Hjn.
    rewrite column_nth in E. rewrite <- E. rewrite fold_left_xsumN, xsum_xsumN.
    apply xsumN_ext. intros k Hk.
    rewrite (nth_map_seq (fun j0 => N.lxor (nth (nth j0 ip 0%nat) (column par x) 0) (nth j0 (delta_col m id ip (column data x)) 0)) nr k 0 Hk).
    rewrite list_of_mx_nth by assumption.
    assert (Hpk : nth x (nth k pb []) 0 = nth (nth k ip 0%nat) (column par x) 0).
    { unfold pb. rewrite (nth_map_seq (fun j => nth (nth j ip 0%nat) par []) nr k [] Hk). symmetry. apply column_nth. }
    assert (Hdk : nth x (nth k delta []) 0 = nth k (delta_col m id ip (column data x)) 0).
    { rewrite (Nd k Hk). apply (nth_map_seq (fun x => nth k (delta_col m id ip (column data x)) 0)). exact Hxs. }
    unfold block in *. rewrite Hpk, Hdk.
    (* ranges *)
    pose proof Hh as [Hg [H1 [H251 [_ [_ [_ [Hbid Hpar]]]]]]].
    assert (Hink : In (nth k ip 0%nat) ip) by (apply nth_In; lia).
    destruct (Hpar _ Hink) as [Hr HP].
    assert (Hr6 : (nth k ip 0%nat < 6)%nat) by (pose proof (rows_of_le6 m); lia).
    assert (B1 : nth (nth k ip 0%nat) (column par x) 0 < 256).
    { rewrite HP. apply spec_col_range; [exact Hr6|exact H251|apply Hg]. }
    assert (B2 : nth k (delta_col m id ip (column data x)) 0 < 256).
    { rewrite (nth_delta_col m id ip _ _ _ k Hh) by lia. destruct (rec_hyps_col _ _ _ _ _ _ Hh) as [_ [Hle Hbz]].
      apply spec_col_range; assumption. }
    rewrite !b8_id by assumption.
    symmetry. apply t_gfmul_ok; [apply bV; assumption|apply lxor_range; assumption].
Qed.
