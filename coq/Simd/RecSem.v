(* Byte-lane semantics of the decoder loops (RecDefs.rprog), built on the vector operations of SimdSem.v.
   Definitions only (extracted).  The buffers pa[] are read AND written, so they are real state here: a list of
   blocks updated in place (SimdSem.write_par).  Counted loops over j and k are unrolled ([flat]): the loop bodies
   never assign j, k or N, so this is their exact meaning. *)
From Coq Require Import NArith List Bool Arith.
From Snap.Gen Require Import Tables.
From Snap.Raid Require Import GenModel.
From Snap.Simd Require Import SimdDefs SimdSem RecDefs.
Import ListNotations.
Local Open Scope N_scope.

Fixpoint flat_stmt (n j k : nat) (s : rstmt) : list (rinstr * (nat * nat)) :=
  match s with
  | RI i => [(i, (j, k))]
  | RForJ b => flat_map (fun jj => flat_map (flat_stmt n jj k) b) (seq 0 n)
  | RForK b => flat_map (fun kk => flat_map (flat_stmt n j kk) b) (seq 0 n)
  end.
Definition flat (n : nat) (b : list rstmt) : list (rinstr * (nat * nat)) := flat_map (flat_stmt n O O) b.

Record renv := { re_w : nat; re_n : nat; re_V : list N; re_p : list block; re_base : nat }.
Definition ival (jk : nat * nat) (i : idx) : nat := match i with IConst n => n | IJ => fst jk | IK => snd jk end.
Definition vflat (e : renv) (jk : nat * nat) (v : vidx) : nat :=
  match v with VAt n => n | VJK => (fst jk * re_n e + snd jk)%nat end.
Definition mulrow (m : N) : list N := nth (N.to_nat m) gfmulpshufb_rows [].

Definition rstate := (regs * list block)%type.          (* registers, the buffers pa[] *)

Definition rrd_mem (e : renv) (pa : list block) (jk : nat * nat) (n : nat) (o : roperand) : vec :=
  match o with
  | RP b off => fit n (skipn (re_base e + off) (nth (ival jk b) (re_p e) []))
  | RPa b off => fit n (skipn (re_base e + off) (nth (ival jk b) pa []))
  | RMulTab v lh => fit n (skipn (16 * lh) (mulrow (nth (vflat e jk v) (re_V e) 0)))
  | RConst bs => fit n bs
  | _ => fit n []
  end.
Definition rrd_op (e : renv) (st : rstate) (jk : nat * nat) (o : roperand) : vec :=
  match o with
  | RReg n => fit (re_w e) (get (fst st) n)
  | RScratch s => fit (re_w e) (get (fst st) (scratch_base + ival jk s))
  | _ => rrd_mem e (snd st) jk (re_w e) o
  end.
Definition rwr_op (e : renv) (st : rstate) (jk : nat * nat) (o : roperand) (v : vec) : rstate :=
  match o with
  | RReg n => (upd n v (fst st), snd st)
  | RScratch s => (upd (scratch_base + ival jk s) v (fst st), snd st)
  | RPa b off => (fst st, write_par (snd st) (ival jk b) (re_base e + off) v)
  | _ => st
  end.
Definition rinstr_val (e : renv) (st : rstate) (jk : nat * nat) (i : rinstr) : vec :=
  let w := re_w e in
  match i with
  | RMov d a => rrd_op e st jk a
  | RStore d a => rrd_op e st jk a
  | RBcast d a => vbcast w (rrd_mem e (snd st) jk 16 a)
  | RBin o d a b => vbin w o (rrd_op e st jk a) (rrd_op e st jk b)
  | RSrlW k d a => vshift (srl_byte k) w (rrd_op e st jk a)
  end.
Definition rinstr_dst (i : rinstr) : roperand :=
  match i with RMov d _ | RStore d _ | RBcast d _ | RBin _ d _ _ | RSrlW _ d _ => d end.
Definition rexec (e : renv) (st : rstate) (x : rinstr * (nat * nat)) : rstate :=
  rwr_op e st (snd x) (rinstr_dst (fst x)) (rinstr_val e st (snd x) (fst x)).

Definition rloop_n (p : rprog) (nr : nat) : nat := match r_n p with Some n => n | None => nr end.
Definition mkrenv (p : rprog) (nr : nat) (V : list N) (pb : list block) (base : nat) : renv :=
  {| re_w := r_width p; re_n := rloop_n p nr; re_V := V; re_p := pb; re_base := base |}.
Definition rchunk (p : rprog) (nr : nat) (V : list N) (pb : list block) (st : rstate) (c : nat) : rstate :=
  fold_left (rexec (mkrenv p nr V pb (c * r_step p))) (flat (rloop_n p nr) (r_chunk p)) st.

(* the asm loop: pb = the nr parity buffers p[], pa0 = the buffers pa[] on entry; result = pa[] on exit *)
Definition exec_rloop (p : rprog) (nr : nat) (V : list N) (pb pa0 : list block) (size : nat) (s0 : regs) : list block :=
  let st0 := fold_left (rexec (mkrenv p nr V pb O)) (map (fun i => (i, (O, O))) (r_prologue p)) (s0, pa0) in
  snd (fold_left (rchunk p nr V pb) (seq 0 (nchunks size (r_step p))) st0).
