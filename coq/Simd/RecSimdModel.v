(* raid_rec with the SIMD decoder family: the C part (argument checks, choice of the parities, matrix inversion,
   raid_delta_gen, regeneration of the failed parities) is the hand model of Raid/RecModel.v, the asm loop is the
   interpreted generated program.  Definitions only (extracted; run against the real raid_rec by c03_simd.py). *)
From Coq Require Import NArith List Bool Arith.
From Snap.Gen Require Import Tables.
From Snap.GF Require Import Gf.
From Snap.Raid Require Import GenModel RecModel.
From Snap.Simd Require Import SimdDefs SimdSem RecDefs RecSem.
Import ListNotations.
Local Open Scope N_scope.

Definition is_p0 (ip : list nat) : bool := match ip with [O] => true | _ => false end.

(* raid_rec{1,2,X}_<simd>(nr, id, ip, nd, size, vv): the blocks recovered for the disks id *)
Definition simd_decode (p : rprog) (m : rmode) (id ip : list nat) (size : nat) (data par : list block) (s0 : regs)
  : option (list block) :=
  let nr := length id in
  if r_fast1 p && is_p0 ip then
    Some [map (fun c => nth 0 (rec1of1_col (nth 0 id 0%nat) (column data c) (column par c)) 0) (seq 0 size)]
  else
    let G : mxN := fun j k => coefA m (nth j ip 0%nat) (nth k id 0%nat) in
    match invertN G nr with
    | None => None
    | Some V =>
        let delta := transpose nr (map (fun c => delta_col m id ip (column data c)) (seq 0 size)) in
        let pb := map (fun j => nth (nth j ip 0%nat) par []) (seq 0 nr) in
        Some (exec_rloop p nr (list_of_mx nr V) pb delta size s0)
    end.

(* the family: raid_rec_ptr[0], [1], [2..5] *)
Definition family := (option rprog * option rprog * option rprog)%type.
Definition fam_prog (f : family) (nr : nat) : option rprog :=
  match nr with 1%nat => fst (fst f) | 2%nat => snd (fst f) | _ => snd f end.

Definition simd_raid_rec_blocks (f : family) (m : rmode) (nd np : nat) (ir : list nat) (size : nat) (bufs : list block)
  (s0 : regs) : option (list block) :=
  let data := firstn nd bufs in let par := skipn nd bufs in
  let nr := length ir in
  if negb (nr <=? np)%nat || negb (np <=? 6)%nat || negb (sorted_lt ir) then None
  else if (0 <? nr)%nat && negb (last ir 0%nat <? nd + np)%nat then None
  else
    let id := filter (fun i => (i <? nd)%nat) ir in
    let fp := map (fun i => (i - nd)%nat) (filter (fun i => negb (i <? nd)%nat) ir) in
    let nrd := length id in
    let ip := firstn nrd (filter (fun p => negb (existsb (Nat.eqb p) fp)) (seq 0 np)) in
    let data' := match nrd with
                 | O => Some data
                 | _ => match fam_prog f nrd with
                        | None => None
                        | Some p => match simd_decode p m id ip size data par s0 with
                                    | None => None
                                    | Some rec => Some (set_many id rec data)
                                    end
                        end
                 end in
    match data' with
    | None => None
    | Some d =>
        match fp with
        | [] => Some (d ++ par)
        | _ => let k := S (last fp 0%nat) in
               let g := transpose k (map (fun c => raid_gen_col m k (column d c)) (seq 0 size)) in
               Some (d ++ g ++ skipn k par)
        end
    end.
