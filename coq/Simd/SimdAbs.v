(* Soundness of the abstract interpreter of SimdCheck.v with respect to the byte-lane semantics of SimdSem.v:
   whatever concrete registers satisfy the abstract state before a block, the registers after the block satisfy
   the abstract result, and every logged store holds, lane by lane, the value of its abstract description. *)
From Coq Require Import NArith List Bool Arith Lia.
From Snap.Gen Require Import Tables.
From Snap.GF Require Import Gf.
From Snap.Raid Require Import GenModel.
From Snap.Simd Require Import SimdDefs SimdSem SimdCheck SimdBytes.
Import ListNotations.
Local Open Scope N_scope.

Definition tabbyte (disk j lh m : nat) : N := b8 (nth (32 * j + 16 * lh + m) (nth disk gfcauchypshufb_rows []) 0).

Section Abs.
  Variable e : env.          (* width, data, l, current disk, chunk base *)
  Variable rs0 : regs.        (* the registers at block entry: the meaning of SVar *)
  Let w := e_w e.
  Hypothesis Hw : w = 16%nat \/ w = 32%nat.

  Definition lane (s : regs) (r i : nat) : N := nth i (fit w (get s r)) 0.
  Definition dbyte (dr : dref) (pos : nat) : N := b8 (nth pos (nth (disk_of e dr) (e_data e) []) 0).
  Definition sval (s : src) (i : nat) : N :=
    match s with SVar r => lane rs0 r i | SData dr off => dbyte dr (e_base e + off + i) end.
  Definition cmul (c : coef) (x : N) : N :=
    match c with
    | COne => x | CTwo => xtime x | CHalf => dtime x
    | CLo dr j => tabbyte (disk_of e dr) j 0 (N.to_nat (N.land x 15))
    | CHi dr j => tabbyte (disk_of e dr) j 1 (N.to_nat (N.shiftr x 4))
    end.
  Definition eval_nf (n : nf) (i : nat) : N :=
    fold_right (fun t a => N.lxor (cmul (fst t) (sval (snd t) i)) a) 0 n.

  Definition lane_ok (i : nat) (a : av) (x : N) : Prop :=
    match a with
    | AJunk => True
    | AConst c => x = c
    | ATab dr j lh => x = tabbyte (disk_of e dr) j lh (i mod 16)
    | ALin n => x = eval_nf n i
    | ALo4 s => x = N.land (sval s i) 15
    | AHi4 s => x = N.shiftr (sval s i) 4
    | ASrl k s => exists y, y < 256 /\ x = srl_byte k (sval s i) y (Nat.even i)
    | ASll k s => exists y, y < 256 /\ x = sll_byte k (sval s i) y (Nat.even i)
    | AShr1 s => x = N.shiftr (sval s i) 1
    | ASignC s c => x = if 128 <=? sval s i then c else 0
    | AOddC s c => x = if N.odd (sval s i) then c else 0
    | ADbl s => x = b8 (2 * sval s i)
    end.

  Definition vec_abs (a : av) (v : vec) : Prop := forall i, (i < w)%nat -> lane_ok i a (nth i v 0).
  Definition vec_rng (v : vec) : Prop := forall i, nth i v 0 < 256.
  Definition sat (A : astate) (s : regs) : Prop := forall r i, (i < w)%nat -> lane_ok i (aget A r) (lane s r i).

  Lemma sval_lt s i : sval s i < 256.
  Proof. destruct s; cbn [sval]; [apply nth_fit_lt|apply b8_lt]. Qed.

  Lemma eval_single n s i : single n = Some s -> eval_nf n i = sval s i.
  Proof.
    unfold single. destruct n as [|[c s'] n']; [discriminate|]. destruct c; try discriminate.
    destruct n'; [|discriminate]. intros E. inversion E; subst. cbn [eval_nf fold_right fst snd cmul]. apply N.lxor_0_r.
  Qed.
  Lemma eval_app a b i : eval_nf (a ++ b) i = N.lxor (eval_nf a i) (eval_nf b i).
  Proof.
    unfold eval_nf. induction a as [|t a IH]; cbn [app fold_right]; [rewrite N.lxor_0_l; reflexivity|].
    rewrite IH. rewrite N.lxor_assoc. reflexivity.
  Qed.

  (* ---- equalities decided by the checker ---------------------------------------------------------- *)
  Lemma dref_eqb_eq a b : dref_eqb a b = true -> a = b.
  Proof. destruct a, b; cbn; congruence. Qed.
  Lemma src_eqb_eq a b : src_eqb a b = true -> a = b.
  Proof.
    destruct a, b; cbn [src_eqb]; try discriminate.
    - intros H. apply Nat.eqb_eq in H. congruence.
    - intros H. apply andb_true_iff in H. destruct H as [H1 H2]. apply dref_eqb_eq in H1. apply Nat.eqb_eq in H2. congruence.
  Qed.
  Lemma coef_eqb_eq a b : coef_eqb a b = true -> a = b.
  Proof.
    destruct a, b; cbn [coef_eqb]; try discriminate; try reflexivity;
      intros H; apply andb_true_iff in H; destruct H as [H1 H2]; apply dref_eqb_eq in H1; apply Nat.eqb_eq in H2; congruence.
  Qed.
  Lemma term_eqb_eq a b : term_eqb a b = true -> a = b.
  Proof.
    unfold term_eqb. intros H. apply andb_true_iff in H. destruct H as [H1 H2].
    apply coef_eqb_eq in H1. apply src_eqb_eq in H2. destruct a, b; cbn [fst snd] in *; congruence.
  Qed.
  Lemma remove1_eval t l l' i : remove1 t l = Some l' ->
    eval_nf l i = N.lxor (cmul (fst t) (sval (snd t) i)) (eval_nf l' i).
  Proof.
    revert l'. induction l as [|x r IH]; intros l' H; [discriminate|]. cbn [remove1] in H.
    destruct (term_eqb t x) eqn:E.
    - apply term_eqb_eq in E. inversion H; subst. reflexivity.
    - destruct (remove1 t r) as [r'|] eqn:E2; [|discriminate]. inversion H; subst.
      specialize (IH r' eq_refl). change (eval_nf (x :: r) i) with (N.lxor (cmul (fst x) (sval (snd x) i)) (eval_nf r i)).
      change (eval_nf (x :: r') i) with (N.lxor (cmul (fst x) (sval (snd x) i)) (eval_nf r' i)).
      rewrite IH. rewrite <- !N.lxor_assoc. f_equal. apply N.lxor_comm.
  Qed.
  Lemma nf_perm_eval a b i : nf_perm a b = true -> eval_nf a i = eval_nf b i.
  Proof.
    revert b. induction a as [|t a IH]; intros b H; cbn [nf_perm] in H.
    - destruct b; [reflexivity|discriminate].
    - destruct (remove1 t b) as [b'|] eqn:E; [|discriminate].
      rewrite (remove1_eval t b b' i E). rewrite <- (IH b' H). reflexivity.
  Qed.

  (* ---- abstract registers --------------------------------------------------------------------------- *)
  Lemma aget_aupd r v A r' : aget (aupd r v A) r' = if Nat.eqb r' r then v else aget A r'.
  Proof.
    unfold aget. revert A r'. induction r as [|r IH]; intros A r'.
    - destruct A; destruct r'; cbn [aupd nth Nat.eqb]; try reflexivity. destruct r'; reflexivity.
    - destruct A as [|h t]; destruct r'; cbn [aupd nth Nat.eqb]; try reflexivity.
      + rewrite IH. destruct (Nat.eqb r' r); [reflexivity|]. destruct r'; reflexivity.
      + apply IH.
  Qed.

  (* ---- byte-level soundness of the abstract operations --------------------------------------------- *)
  Lemma axor0_ok i x y a b : lane_ok i x a -> lane_ok i y b -> lane_ok i (axor0 x y) (N.lxor a b).
  Proof.
    destruct x, y; cbn [axor0]; try (intros; exact I).
    - cbn [lane_ok]. intros -> ->. symmetry. apply eval_app.
    - cbn [lane_ok]. intros -> ->. destruct (src_eqb s s0) eqn:E1; [|exact I]. destruct (c =? 142) eqn:E2; [|exact I].
      cbn [andb lane_ok]. apply src_eqb_eq in E1. apply N.eqb_eq in E2. subst.
      cbn [eval_nf fold_right fst snd cmul]. rewrite N.lxor_0_r. apply d2_idiom.
    - cbn [lane_ok]. intros -> ->. destruct (src_eqb s s0) eqn:E1; [|exact I]. destruct (c =? 29) eqn:E2; [|exact I].
      cbn [andb lane_ok]. apply src_eqb_eq in E1. apply N.eqb_eq in E2. subst.
      cbn [eval_nf fold_right fst snd cmul]. rewrite N.lxor_0_r. apply x2_idiom. apply sval_lt.
  Qed.
  Lemma aand0_ok i x y a b : lane_ok i x a -> lane_ok i y b -> lane_ok i (aand0 x y) (N.land a b).
  Proof.
    destruct y; cbn [aand0]; try (intros; exact I). intros Ha Hb. cbn [lane_ok] in Hb. subst b.
    destruct x; try exact I.
    - destruct (single n) as [s|] eqn:E; [|exact I]. destruct (c =? 15) eqn:E2; [|exact I].
      apply N.eqb_eq in E2. subst c. cbn [lane_ok] in *. subst a. rewrite (eval_single n s i E). reflexivity.
    - cbn [lane_ok] in Ha. destruct Ha as [y [Hy ->]].
      destruct (k =? 4) eqn:K4; destruct (c =? 15) eqn:C15; cbn [andb].
      + apply N.eqb_eq in K4, C15. subst. cbn [lane_ok]. apply srl4_lo; [apply sval_lt|exact Hy].
      + destruct (k =? 1) eqn:K1; [|exact I]. destruct (c =? 127) eqn:C127; [|exact I].
        apply N.eqb_eq in K1, C127. subst. cbn [andb lane_ok]. apply srl1_lo; [apply sval_lt|exact Hy].
      + destruct (k =? 1) eqn:K1; [|exact I]. destruct (c =? 127) eqn:C127; [|exact I].
        apply N.eqb_eq in K1, C127. subst. cbn [andb lane_ok]. apply srl1_lo; [apply sval_lt|exact Hy].
      + destruct (k =? 1) eqn:K1; [|exact I]. destruct (c =? 127) eqn:C127; [|exact I].
        apply N.eqb_eq in K1, C127. subst. cbn [andb lane_ok]. apply srl1_lo; [apply sval_lt|exact Hy].
    - cbn [lane_ok] in *. subst a. destruct (128 <=? sval s i); [reflexivity|apply N.land_0_l].
    - cbn [lane_ok] in *. subst a. destruct (N.odd (sval s i)); [reflexivity|apply N.land_0_l].
  Qed.
  Lemma axor_ok i x y a b : lane_ok i x a -> lane_ok i y b -> lane_ok i (axor x y) (N.lxor a b).
  Proof.
    intros Ha Hb. unfold axor. assert (H1 := axor0_ok i x y a b Ha Hb). assert (H2 := axor0_ok i y x b a Hb Ha).
    rewrite N.lxor_comm in H2. destruct (axor0 x y); assumption.
  Qed.
  Lemma aand_ok i x y a b : lane_ok i x a -> lane_ok i y b -> lane_ok i (aand x y) (N.land a b).
  Proof.
    intros Ha Hb. unfold aand. assert (H1 := aand0_ok i x y a b Ha Hb). assert (H2 := aand0_ok i y x b a Hb Ha).
    rewrite N.land_comm in H2. destruct (aand0 x y); assumption.
  Qed.
  Lemma aadd_ok i x y a b : lane_ok i x a -> lane_ok i y b -> lane_ok i (aadd x y) (badd a b).
  Proof.
    destruct x, y; cbn [aadd]; try (intros; exact I).
    destruct (single n) as [s|] eqn:E1; [|intros; exact I]. destruct (single n0) as [s'|] eqn:E2; [|intros; exact I].
    destruct (src_eqb s s') eqn:E3; [|intros; exact I]. apply src_eqb_eq in E3. subst s'.
    cbn [lane_ok]. intros -> ->. rewrite (eval_single n s i E1), (eval_single n0 s i E2).
    unfold badd. f_equal. lia.
  Qed.
  Lemma acmpgt_ok i x y a b : b < 256 -> lane_ok i x a -> lane_ok i y b -> lane_ok i (acmpgt x y) (bcmpgt a b).
  Proof.
    intros Hb. destruct x; cbn [acmpgt]; try (intros; exact I).
    destruct (c =? 0) eqn:E0; [|intros; exact I]. apply N.eqb_eq in E0. subst c. cbn [lane_ok]. intros -> Hy.
    destruct y; try exact I.
    - destruct (single n) as [s|] eqn:E; [|exact I]. cbn [lane_ok] in *. subst b. rewrite (eval_single n s i E).
      apply cmp_sign. apply sval_lt.
    - destruct (k =? 7) eqn:K; [|exact I]. apply N.eqb_eq in K. subst k. cbn [lane_ok] in *.
      destruct Hy as [y [Hy ->]]. apply sll7_sign; [apply sval_lt|exact Hy].
  Qed.
  Lemma ashift_r_ok i k x a y : y < 256 -> lane_ok i x a -> lane_ok i (ashift false k x) (srl_byte k a y (Nat.even i)).
  Proof.
    intros Hy. destruct x; cbn [ashift]; try (intros; exact I).
    destruct (single n) as [s|] eqn:E; [|intros; exact I]. cbn [lane_ok]. intros ->.
    rewrite (eval_single n s i E). exists y. auto.
  Qed.
  Lemma ashift_l_ok i k x a y : y < 256 -> lane_ok i x a -> lane_ok i (ashift true k x) (sll_byte k a y (Nat.even i)).
  Proof.
    intros Hy. destruct x; cbn [ashift]; try (intros; exact I).
    destruct (single n) as [s|] eqn:E; [|intros; exact I]. cbn [lane_ok]. intros ->.
    rewrite (eval_single n s i E). exists y. auto.
  Qed.

  Lemma half_index i k : (i < w)%nat -> (k < 16)%nat -> (16 * (i / 16) + k < w)%nat /\ ((16 * (i / 16) + k) mod 16 = k)%nat.
  Proof.
    intros Hi Hk. split.
    - assert (H : (i / 16 <= 1)%nat).
      { apply Nat.lt_succ_r. apply Nat.div_lt_upper_bound; [lia|]. destruct Hw as [E|E]; lia. }
      destruct Hw as [E|E].
      + assert (i / 16 = 0)%nat by (apply Nat.div_small; lia). lia.
      + lia.
    - rewrite Nat.add_comm, Nat.mul_comm. rewrite Nat.mod_add by lia. apply Nat.mod_small. exact Hk.
  Qed.

  Lemma apshufb_ok i t x tv xb : (i < w)%nat -> vec_abs t tv -> lane_ok i x xb ->
    lane_ok i (apshufb t x) (shuf_byte tv i xb).
  Proof.
    intros Hi Ht Hx. destruct t; cbn [apshufb]; try exact I. destruct x; try exact I.
    - destruct (Nat.eqb lh 0) eqn:E; [|exact I]. apply Nat.eqb_eq in E. subst lh. cbn [lane_ok] in *. subst xb.
      destruct (lo4_idx (sval s i) (sval_lt s i)) as [T [L R]].
      unfold shuf_byte. rewrite T, L.
      assert (Hk : (N.to_nat (N.land (sval s i) 15) < 16)%nat) by lia.
      destruct (half_index i _ Hi Hk) as [H1 H2].
      specialize (Ht _ H1). cbn [lane_ok] in Ht. rewrite Ht, H2.
      cbn [eval_nf fold_right fst snd cmul]. rewrite N.lxor_0_r. reflexivity.
    - destruct (Nat.eqb lh 1) eqn:E; [|exact I]. apply Nat.eqb_eq in E. subst lh. cbn [lane_ok] in *. subst xb.
      destruct (hi4_idx (sval s i) (sval_lt s i)) as [T [L R]].
      unfold shuf_byte. rewrite T, L.
      assert (Hk : (N.to_nat (N.shiftr (sval s i) 4) < 16)%nat) by lia.
      destruct (half_index i _ Hi Hk) as [H1 H2].
      specialize (Ht _ H1). cbn [lane_ok] in Ht. rewrite Ht, H2.
      cbn [eval_nf fold_right fst snd cmul]. rewrite N.lxor_0_r. reflexivity.
  Qed.

  (* ---- operands -------------------------------------------------------------------------------------- *)
  Lemma const_av_ok bs i m : (i < w)%nat -> (m < 16)%nat -> lane_ok i (const_av bs) (b8 (nth m bs 0)).
  Proof.
    intros Hi Hm. unfold const_av. destruct (forallb _ _) eqn:E; [|exact I].
    rewrite forallb_forall in E. specialize (E m ltac:(apply in_seq; lia)). apply N.eqb_eq in E. exact E.
  Qed.
  Lemma tab_av_ok dr j lh i m : (m = i mod 16)%nat ->
    lane_ok i (tab_av dr j lh) (b8 (nth (32 * j + 16 * lh + m) (tab_row TGen (disk_of e dr)) 0)).
  Proof.
    intros ->. unfold tab_av. destruct (_ && _)%bool; [|exact I]. reflexivity.
  Qed.

  Lemma rd_op_len s o : length (rd_op e s o) = w.
  Proof. destruct o; cbn [rd_op rd_mem]; apply fit_length. Qed.
  Lemma rd_op_rng s o : vec_rng (rd_op e s o).
  Proof. intros i. destruct o; cbn [rd_op rd_mem]; apply nth_fit_lt. Qed.
  Lemma rd_op_ok A s o : sat A s -> vec_abs (ard w A o) (rd_op e s o).
  Proof.
    intros HS i Hi. destruct o; cbn [ard rd_op rd_mem].
    - apply HS. exact Hi.
    - apply HS. exact Hi.
    - fold w. rewrite nth_fit by exact Hi. rewrite nth_skipn. cbn [lane_ok eval_nf fold_right fst snd cmul sval].
      rewrite N.lxor_0_r. reflexivity.
    - exact I.
    - destruct t. fold w. destruct (Nat.eqb w 16) eqn:E; [|exact I]. apply Nat.eqb_eq in E.
      rewrite nth_fit by exact Hi. rewrite nth_skipn. apply tab_av_ok. symmetry. apply Nat.mod_small. lia.
    - fold w. destruct (Nat.eqb w 16) eqn:E; [|exact I]. apply Nat.eqb_eq in E.
      rewrite nth_fit by exact Hi. apply const_av_ok; lia.
  Qed.
  Lemma bcast_ok o : vec_abs (ard16 o) (vbcast w (rd_mem e 16 o)).
  Proof.
    intros i Hi. unfold vbcast. rewrite nth_map_seq by exact Hi.
    assert (Hm : (i mod 16 < 16)%nat) by (apply Nat.mod_upper_bound; lia).
    destruct o; cbn [ard16 rd_mem]; try exact I.
    - destruct t. rewrite nth_fit by exact Hm. rewrite nth_skipn. apply tab_av_ok. reflexivity.
    - rewrite nth_fit by exact Hm. apply const_av_ok; assumption.
  Qed.
  Lemma bcast_rng o : vec_rng (vbcast w (rd_mem e 16 o)).
  Proof.
    intros i. unfold vbcast. destruct (Nat.lt_ge_cases i w) as [H|H].
    - rewrite nth_map_seq by exact H. destruct o; cbn [rd_mem]; apply nth_fit_lt.
    - rewrite nth_overflow by (rewrite map_length, seq_length; exact H). reflexivity.
  Qed.

  (* ---- instructions ---------------------------------------------------------------------------------- *)
  Lemma nth_vpshufb tv xv i : length xv = w -> (i < w)%nat -> nth i (vpshufb w tv xv) 0 = shuf_byte tv i (nth i xv 0).
  Proof.
    intros Hl Hi. unfold vpshufb.
    rewrite nth_indep with (d' := shuf_byte tv (fst (O, 0)) (snd (O, 0)))
      by (rewrite map_length, combine_length, seq_length, Hl, Nat.min_id; exact Hi).
    change (shuf_byte tv (fst (O, 0)) (snd (O, 0))) with ((fun p : nat * N => shuf_byte tv (fst p) (snd p)) (O, 0)).
    rewrite map_nth. rewrite combine_nth by (rewrite seq_length; symmetry; exact Hl).
    rewrite seq_nth by exact Hi. reflexivity.
  Qed.
  Lemma nth_vshift f v i : (i < w)%nat -> nth i (vshift f w v) 0 = f (nth i v 0) (nth (partner i) v 0) (Nat.even i).
  Proof.
    intros Hi. unfold vshift.
    exact (nth_map_seq (fun i => f (nth i v 0) (nth (partner i) v 0) (Nat.even i)) w i 0 Hi).
  Qed.

  Lemma bin_byte_rng o a b : a < 256 -> b < 256 -> bin_byte o a b < 256.
  Proof.
    intros Ha Hb. destruct o; cbn [bin_byte].
    - apply lxor_range; assumption.
    - apply land_range; assumption.
    - apply b8_lt.
    - unfold bcmpgt. destruct (_ <? _); reflexivity.
    - exact Ha.
  Qed.

  Lemma map2_len f (u v : vec) n : length u = n -> length v = n -> length (map2 f u v) = n.
  Proof.
    revert v n. induction u as [|x u IH]; intros v n H1 H2; destruct v; cbn [map2 length] in *; try lia.
    destruct n; try discriminate. f_equal. apply IH; lia.
  Qed.
  Lemma instr_val_len s i : length (instr_val e s i) = w.
  Proof.
    destruct i; cbn [instr_val]; fold w; try apply rd_op_len.
    - unfold vbcast. rewrite map_length, seq_length. reflexivity.
    - destruct o; cbn [vbin]; try (apply map2_len; apply rd_op_len).
      unfold vpshufb. rewrite map_length, combine_length, seq_length, rd_op_len, Nat.min_id. reflexivity.
    - unfold vshift. rewrite map_length, seq_length. reflexivity.
    - unfold vshift. rewrite map_length, seq_length. reflexivity.
  Qed.
  Lemma instr_val_rng s i : vec_rng (instr_val e s i).
  Proof.
    intros k. destruct (Nat.lt_ge_cases k w) as [Hk|Hk].
    2:{ rewrite nth_overflow by (rewrite instr_val_len; lia). reflexivity. }
    destruct i; cbn [instr_val]; fold w.
    - apply rd_op_rng.
    - apply bcast_rng.
    - destruct o; cbn [vbin].
      1-4: rewrite nth_map2 by (rewrite ?rd_op_len; auto); apply bin_byte_rng; apply rd_op_rng.
      rewrite nth_vpshufb by (auto using rd_op_len). unfold shuf_byte. destruct (N.testbit _ _); [reflexivity|apply rd_op_rng].
    - rewrite nth_vshift by exact Hk. unfold srl_byte. destruct (Nat.even k); apply b8_lt.
    - rewrite nth_vshift by exact Hk. unfold sll_byte. destruct (Nat.even k); apply b8_lt.
    - apply rd_op_rng.
  Qed.

  Lemma same_reg_eq a b : same_reg a b = true -> a = b.
  Proof. destruct a, b; cbn [same_reg]; try discriminate. intros H. apply Nat.eqb_eq in H. congruence. Qed.

  Lemma instr_val_ok A s i : sat A s -> vec_abs (ainstr_val w A i) (instr_val e s i).
  Proof.
    intros HS k Hk. destruct i; cbn [ainstr_val instr_val]; fold w.
    - apply rd_op_ok; assumption.
    - apply bcast_ok. exact Hk.
    - assert (La := rd_op_len s a). assert (Lb := rd_op_len s b).
      assert (Oa := rd_op_ok A s a HS k Hk). assert (Ob := rd_op_ok A s b HS k Hk).
      destruct o; cbn [vbin abin].
      + rewrite nth_map2 by (rewrite ?La; auto). cbn [bin_byte].
        destruct (same_reg a b) eqn:E.
        * apply same_reg_eq in E. subst b. cbn [lane_ok]. apply N.lxor_nilpotent.
        * apply axor_ok; assumption.
      + rewrite nth_map2 by (rewrite ?La; auto). apply aand_ok; assumption.
      + rewrite nth_map2 by (rewrite ?La; auto). apply aadd_ok; assumption.
      + rewrite nth_map2 by (rewrite ?La; auto). apply acmpgt_ok; try assumption. apply rd_op_rng.
      + rewrite nth_vpshufb by assumption. apply apshufb_ok; try assumption. apply rd_op_ok. exact HS.
    - rewrite nth_vshift by exact Hk. apply ashift_r_ok; [apply rd_op_rng|apply rd_op_ok; assumption].
    - rewrite nth_vshift by exact Hk. apply ashift_l_ok; [apply rd_op_rng|apply rd_op_ok; assumption].
    - apply rd_op_ok; assumption.
  Qed.

  (* ---- blocks ------------------------------------------------------------------------------------------ *)
  Definition store_rel (x : nat * nat * av) (y : nat * nat * vec) : Prop :=
    fst (fst y) = fst (fst x) /\ snd (fst y) = (e_base e + snd (fst x))%nat /\ length (snd y) = w /\
    forall i, (i < w)%nat -> lane_ok i (snd x) (nth i (snd y) 0).
  Definition log_ok (al : alog) (g : wlog) : Prop := Forall2 store_rel al g.

  Lemma sat_upd A s r a v : sat A s -> vec_abs a v -> vec_rng v -> sat (aupd r a A) (upd r v s).
  Proof.
    intros HS Ha Hr r' i Hi. rewrite aget_aupd. unfold lane. rewrite get_upd.
    destruct (Nat.eqb r' r).
    - rewrite nth_fit by exact Hi. rewrite b8_id by apply Hr. apply Ha. exact Hi.
    - apply HS. exact Hi.
  Qed.

  Lemma exec_instr_ok A al s g i : sat A s -> log_ok al g ->
    sat (fst (aexec_instr w (A, al) i)) (fst (exec_instr e (s, g) i)) /\
    log_ok (snd (aexec_instr w (A, al) i)) (snd (exec_instr e (s, g) i)).
  Proof.
    intros HS HL. unfold aexec_instr, exec_instr. cbn [fst snd].
    assert (Hv := instr_val_ok A s i HS). assert (Hr := instr_val_rng s i).
    destruct (instr_dst i); cbn [awr wr_op fst snd]; try (split; assumption).
    - split; [apply sat_upd; assumption|assumption].
    - split; [apply sat_upd; assumption|assumption].
    - split; [assumption|]. constructor; [|assumption]. repeat split; [apply instr_val_len|exact Hv].
  Qed.

  Lemma exec_fold_ok b : forall A al s g, sat A s -> log_ok al g ->
    sat (fst (fold_left (aexec_instr w) b (A, al))) (fst (fold_left (exec_instr e) b (s, g))) /\
    log_ok (snd (fold_left (aexec_instr w) b (A, al))) (snd (fold_left (exec_instr e) b (s, g))).
  Proof.
    induction b as [|i b IH]; intros A al s g HS HL; [split; assumption|].
    cbn [fold_left]. destruct (exec_instr_ok A al s g i HS HL) as [H1 H2].
    destruct (aexec_instr w (A, al) i) as [A' al']. destruct (exec_instr e (s, g) i) as [s' g'].
    apply IH; assumption.
  Qed.

  Theorem exec_block_ok b A : sat A rs0 ->
    sat (fst (aexec_block w b A)) (fst (exec_block e b rs0)) /\ log_ok (snd (aexec_block w b A)) (snd (exec_block e b rs0)).
  Proof. intros HS. apply exec_fold_ok; [exact HS|constructor]. Qed.
End Abs.

(* registers not written by a block keep their content *)
Lemma wr_op_frame e st o v r : ~ In r (dst_reg o) -> get (fst (wr_op e st o v)) r = get (fst st) r.
Proof.
  intros Hn. destruct o; unfold wr_op; unfold dst_reg in Hn; try reflexivity.
  - unfold fst at 1. rewrite get_upd. destruct (Nat.eqb_spec r n); [|reflexivity]. exfalso. apply Hn. left. congruence.
  - unfold fst at 1. rewrite get_upd. destruct (Nat.eqb_spec r (scratch_base + k)); [|reflexivity]. exfalso. apply Hn. left. congruence.
Qed.
Lemma exec_fold_frame e b r : forall st, ~ In r (writes b) -> get (fst (fold_left (exec_instr e) b st)) r = get (fst st) r.
Proof.
  induction b as [|i b IH]; intros st Hn; [reflexivity|].
  cbn [fold_left]. unfold writes in Hn. cbn [flat_map] in Hn. rewrite in_app_iff in Hn.
  rewrite IH by (intro; apply Hn; right; assumption).
  unfold exec_instr. apply wr_op_frame. intro. apply Hn. left. assumption.
Qed.
Lemma exec_block_frame e b s r : ~ In r (writes b) -> get (fst (exec_block e b s)) r = get s r.
Proof. intros Hn. unfold exec_block. apply (exec_fold_frame e b r (s, [])). exact Hn. Qed.
