(* The generated programs of Gen/X86Progs.v (REGENERATED from raid/x86.c, raid/x86z.c on every run) pass the
   checker, hence compute the matrix product.  A function that the translator could not handle is `None` there
   and is vacuously accepted here: the check reports it as tied by correspondence only. *)
From Coq Require Import NArith List Bool String.
From Snap.Raid Require Import GenModel GenProofs.
From Snap.Simd Require Import SimdDefs SimdSem SimdCheck SimdProofs.
From Snap.Gen Require Import X86Progs.
Import ListNotations.

Definition entry_ok (x : string * genfn * option prog) : bool := checker_opt (snd (fst x)) (snd x).

Lemma chk_gen1_sse2 : checker_opt G1 raid_gen1_sse2 = true. Proof. vm_compute. reflexivity. Qed.
Lemma chk_gen1_avx2 : checker_opt G1 raid_gen1_avx2 = true. Proof. vm_compute. reflexivity. Qed.
Lemma chk_gen2_sse2 : checker_opt G2 raid_gen2_sse2 = true. Proof. vm_compute. reflexivity. Qed.
Lemma chk_gen2_avx2 : checker_opt G2 raid_gen2_avx2 = true. Proof. vm_compute. reflexivity. Qed.
Lemma chk_gen2_sse2ext : checker_opt G2 raid_gen2_sse2ext = true. Proof. vm_compute. reflexivity. Qed.
Lemma chk_gen3_ssse3 : checker_opt (GK 3) raid_gen3_ssse3 = true. Proof. vm_compute. reflexivity. Qed.
Lemma chk_gen3_ssse3ext : checker_opt (GK 3) raid_gen3_ssse3ext = true. Proof. vm_compute. reflexivity. Qed.
Lemma chk_gen3_avx2ext : checker_opt (GK 3) raid_gen3_avx2ext = true. Proof. vm_compute. reflexivity. Qed.
Lemma chk_gen4_ssse3 : checker_opt (GK 4) raid_gen4_ssse3 = true. Proof. vm_compute. reflexivity. Qed.
Lemma chk_gen4_ssse3ext : checker_opt (GK 4) raid_gen4_ssse3ext = true. Proof. vm_compute. reflexivity. Qed.
Lemma chk_gen4_avx2ext : checker_opt (GK 4) raid_gen4_avx2ext = true. Proof. vm_compute. reflexivity. Qed.
Lemma chk_gen5_ssse3 : checker_opt (GK 5) raid_gen5_ssse3 = true. Proof. vm_compute. reflexivity. Qed.
Lemma chk_gen5_ssse3ext : checker_opt (GK 5) raid_gen5_ssse3ext = true. Proof. vm_compute. reflexivity. Qed.
Lemma chk_gen5_avx2ext : checker_opt (GK 5) raid_gen5_avx2ext = true. Proof. vm_compute. reflexivity. Qed.
Lemma chk_gen6_ssse3 : checker_opt (GK 6) raid_gen6_ssse3 = true. Proof. vm_compute. reflexivity. Qed.
Lemma chk_gen6_ssse3ext : checker_opt (GK 6) raid_gen6_ssse3ext = true. Proof. vm_compute. reflexivity. Qed.
Lemma chk_gen6_avx2ext : checker_opt (GK 6) raid_gen6_avx2ext = true. Proof. vm_compute. reflexivity. Qed.
Lemma chk_genz_sse2 : checker_opt GZ raid_genz_sse2 = true. Proof. vm_compute. reflexivity. Qed.
Lemma chk_genz_sse2ext : checker_opt GZ raid_genz_sse2ext = true. Proof. vm_compute. reflexivity. Qed.
Lemma chk_genz_avx2ext : checker_opt GZ raid_genz_avx2ext = true. Proof. vm_compute. reflexivity. Qed.

Lemma all_checked : forallb entry_ok all_gen_progs = true.
Proof. vm_compute. reflexivity. Qed.

Theorem gen_simd_correct : forall f g p, In (f, g, Some p) all_gen_progs ->
  forall (data : list block) (size : nat) (s0 : regs) (old : list block),
  (1 <= List.length data <= 251)%nat -> data_ok data -> (exists n, size = (n * step p)%nat) -> old_ok (gen_np g) size old ->
  exec_prog p data size s0 old = spec_blocks (gen_mat Cauchy g) (gen_np g) size data.
Proof.
  intros f g p Hin. apply prog_correct.
  assert (H := all_checked). rewrite forallb_forall in H. exact (H _ Hin).
Qed.

(* non-vacuity: the theorem's hypotheses hold for a concrete call of the generated raid_gen3_ssse3 (when it was
   translated) on 3 disks of 16 bytes, and the interpreter indeed returns the three parity blocks *)
Definition demo_data : list block :=
  [[1; 2; 3; 4; 5; 6; 7; 8; 9; 10; 11; 12; 13; 14; 15; 255]; [16; 32; 48; 64; 80; 96; 112; 128; 144; 160; 176; 192; 208; 224; 240; 0];
   [129; 3; 7; 250; 77; 91; 200; 100; 50; 25; 12; 6; 3; 1; 0; 254]]%N.
Definition demo_old : list block := [repeat 90%N 16; repeat 90%N 16; repeat 90%N 16].
Lemma demo_run : match raid_gen3_ssse3 with
                 | Some p => In ("raid_gen3_ssse3"%string, GK 3, Some p) all_gen_progs /\ (exists n, 16 = n * step p) /\
                             exec_prog p demo_data 16 [] demo_old = spec_blocks cauchyN 3 16 demo_data /\
                             List.length (exec_prog p demo_data 16 [] demo_old) = 3
                 | None => True
                 end.
Proof.
  unfold raid_gen3_ssse3 at 1. cbv beta iota.
  first [exact I
        |split; [do 5 right; left; reflexivity|]; split; [exists 1%nat; reflexivity|]; split; vm_compute; reflexivity].
Qed.
