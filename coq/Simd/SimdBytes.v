(* Byte-level and list-level facts used by the soundness proof of the abstract interpreter. *)
From Coq Require Import NArith List Bool Arith Lia.
From Snap.GF Require Import Gf.
From Snap.Raid Require Import GenModel.
From Snap.Simd Require Import SimdDefs SimdSem.
Import ListNotations.
Local Open Scope N_scope.

(* ---- b8 / ranges ---------------------------------------------------------------------------------- *)
Lemma b8_lt x : b8 x < 256.
Proof.
  unfold b8. change 255 with (N.ones 8). rewrite N.land_ones. apply N.mod_lt. discriminate.
Qed.
Lemma b8_id x : x < 256 -> b8 x = x.
Proof.
  intros H. unfold b8. change 255 with (N.ones 8). rewrite N.land_ones. apply N.mod_small. exact H.
Qed.
Lemma b8_b8 x : b8 (b8 x) = b8 x.
Proof. apply b8_id. apply b8_lt. Qed.

Lemma land_range x y : x < 256 -> y < 256 -> N.land x y < 256.
Proof.
  intros. apply N.ltb_lt. apply (all2 (fun a b => N.land a b <? 256)); [vm_compute; reflexivity|assumption|assumption].
Qed.

Ltac sweep1 x Hx P := apply N.eqb_eq; apply (all1 P); [vm_compute; reflexivity|exact Hx].
Ltac sweep2 Hx Hy P := apply N.eqb_eq; apply (all2 P); [vm_compute; reflexivity|exact Hx|exact Hy].

Lemma x2_idiom x : x < 256 -> N.lxor (b8 (2 * x)) (if 128 <=? x then 29 else 0) = xtime x.
Proof. intros Hx. sweep1 x Hx (fun x => N.lxor (b8 (2 * x)) (if 128 <=? x then 29 else 0) =? xtime x). Qed.
Lemma d2_idiom x : N.lxor (N.shiftr x 1) (if N.odd x then 142 else 0) = dtime x.
Proof. reflexivity. Qed.
Lemma cmp_sign x : x < 256 -> bcmpgt 0 x = if 128 <=? x then 255 else 0.
Proof. intros Hx. sweep1 x Hx (fun x => bcmpgt 0 x =? (if 128 <=? x then 255 else 0)). Qed.
Lemma srl4_lo x y ev : x < 256 -> y < 256 -> N.land (srl_byte 4 x y ev) 15 = N.shiftr x 4.
Proof.
  intros Hx Hy. destruct ev.
  - sweep2 Hx Hy (fun x y => N.land (srl_byte 4 x y true) 15 =? N.shiftr x 4).
  - sweep2 Hx Hy (fun x y => N.land (srl_byte 4 x y false) 15 =? N.shiftr x 4).
Qed.
Lemma srl1_lo x y ev : x < 256 -> y < 256 -> N.land (srl_byte 1 x y ev) 127 = N.shiftr x 1.
Proof.
  intros Hx Hy. destruct ev.
  - sweep2 Hx Hy (fun x y => N.land (srl_byte 1 x y true) 127 =? N.shiftr x 1).
  - sweep2 Hx Hy (fun x y => N.land (srl_byte 1 x y false) 127 =? N.shiftr x 1).
Qed.
Lemma sll7_sign x y ev : x < 256 -> y < 256 -> bcmpgt 0 (sll_byte 7 x y ev) = if N.odd x then 255 else 0.
Proof.
  intros Hx Hy. destruct ev.
  - sweep2 Hx Hy (fun x y => bcmpgt 0 (sll_byte 7 x y true) =? (if N.odd x then 255 else 0)).
  - sweep2 Hx Hy (fun x y => bcmpgt 0 (sll_byte 7 x y false) =? (if N.odd x then 255 else 0)).
Qed.
Lemma lo4_idx x : x < 256 -> N.testbit (N.land x 15) 7 = false /\ N.land (N.land x 15) 15 = N.land x 15 /\ N.land x 15 < 16.
Proof.
  intros Hx.
  assert (H := all1 (fun x => negb (N.testbit (N.land x 15) 7) && (N.land (N.land x 15) 15 =? N.land x 15) && (N.land x 15 <? 16))
                 ltac:(vm_compute; reflexivity) x Hx).
  apply andb_true_iff in H. destruct H as [H H3]. apply andb_true_iff in H. destruct H as [H1 H2].
  apply negb_true_iff in H1. apply N.eqb_eq in H2. apply N.ltb_lt in H3. auto.
Qed.
Lemma hi4_idx x : x < 256 -> N.testbit (N.shiftr x 4) 7 = false /\ N.land (N.shiftr x 4) 15 = N.shiftr x 4 /\ N.shiftr x 4 < 16.
Proof.
  intros Hx.
  assert (H := all1 (fun x => negb (N.testbit (N.shiftr x 4) 7) && (N.land (N.shiftr x 4) 15 =? N.shiftr x 4) && (N.shiftr x 4 <? 16))
                 ltac:(vm_compute; reflexivity) x Hx).
  apply andb_true_iff in H. destruct H as [H H3]. apply andb_true_iff in H. destruct H as [H1 H2].
  apply negb_true_iff in H1. apply N.eqb_eq in H2. apply N.ltb_lt in H3. auto.
Qed.
Lemma nibble_split x : x < 256 -> x = N.lxor (N.land x 15) (16 * N.shiftr x 4) /\ 16 * N.shiftr x 4 < 256.
Proof.
  intros Hx.
  assert (H := all1 (fun x => (x =? N.lxor (N.land x 15) (16 * N.shiftr x 4)) && (16 * N.shiftr x 4 <? 256))
                 ltac:(vm_compute; reflexivity) x Hx).
  apply andb_true_iff in H. destruct H as [H1 H2]. apply N.eqb_eq in H1. apply N.ltb_lt in H2. auto.
Qed.
Lemma shr_range x k : x < 256 -> N.shiftr x k < 256.
Proof.
  intros Hx. rewrite N.shiftr_div_pow2. apply N.le_lt_trans with x; [|exact Hx].
  assert (Hp : 2 ^ k <> 0) by (apply N.pow_nonzero; discriminate).
  apply N.div_le_upper_bound; [exact Hp|]. generalize dependent (2 ^ k). intros p Hp. nia.
Qed.
Lemma xtime_range x : x < 256 -> xtime x < 256.
Proof. intros Hx. apply N.ltb_lt. apply (all1 (fun x => xtime x <? 256)); [vm_compute; reflexivity|exact Hx]. Qed.
Lemma dtime_range x : x < 256 -> dtime x < 256.
Proof. intros Hx. apply N.ltb_lt. apply (all1 (fun x => dtime x <? 256)); [vm_compute; reflexivity|exact Hx]. Qed.

(* ---- lists ------------------------------------------------------------------------------------------ *)
Lemma fit_length w v : length (fit w v) = w.
Proof. revert v. induction w as [|w IH]; intros v; [reflexivity|]. destruct v; cbn [fit length]; rewrite IH; reflexivity. Qed.
Lemma nth_fit w v i : (i < w)%nat -> nth i (fit w v) 0 = b8 (nth i v 0).
Proof.
  revert v i. induction w as [|w IH]; intros v i Hi; [lia|].
  destruct v as [|x t]; cbn [fit].
  - destruct i; cbn [nth]; [reflexivity|]. rewrite IH by lia. destruct i; reflexivity.
  - destruct i; cbn [nth]; [reflexivity|]. apply IH. lia.
Qed.
Lemma nth_fit_lt w v i : nth i (fit w v) 0 < 256.
Proof.
  destruct (Nat.lt_ge_cases i w) as [H|H].
  - rewrite nth_fit by exact H. apply b8_lt.
  - rewrite nth_overflow by (rewrite fit_length; exact H). reflexivity.
Qed.
Lemma nth_map2 f a b i : length a = length b -> (i < length a)%nat ->
  nth i (map2 f a b) 0 = f (nth i a 0) (nth i b 0).
Proof.
  revert b i. induction a as [|x a IH]; intros b i Hl Hi; [cbn in Hi; lia|].
  destruct b as [|y b]; [discriminate|]. cbn [map2]. destruct i; cbn [nth]; [reflexivity|].
  apply IH; cbn [length] in *; lia.
Qed.
Lemma nth_skipn {A} (l : list A) k i d : nth i (skipn k l) d = nth (k + i) l d.
Proof.
  revert l. induction k as [|k IH]; intros l; [reflexivity|].
  destruct l as [|x l]; cbn [skipn Nat.add nth]; [destruct i; reflexivity|apply IH].
Qed.
Lemma nth_map_seq {A} (f : nat -> A) w i d : (i < w)%nat -> nth i (map f (seq 0 w)) d = f i.
Proof.
  intros Hi. rewrite nth_indep with (d' := f O) by (rewrite map_length, seq_length; exact Hi).
  rewrite map_nth. rewrite seq_nth by exact Hi. reflexivity.
Qed.

Lemma get_upd r v s r' : get (upd r v s) r' = if Nat.eqb r' r then v else get s r'.
Proof.
  unfold get. revert s r'. induction r as [|r IH]; intros s r'.
  - destruct s; destruct r'; cbn [upd nth Nat.eqb]; try reflexivity. destruct r'; reflexivity.
  - destruct s as [|h t]; destruct r'; cbn [upd nth Nat.eqb]; try reflexivity.
    + rewrite IH. destruct (Nat.eqb r' r); [reflexivity|]. destruct r'; reflexivity.
    + apply IH.
Qed.

Lemma write_at_length pos v l : length (write_at pos v l) = length l.
Proof.
  revert pos v. induction l as [|x t IH]; intros pos v; [reflexivity|].
  destruct pos; cbn [write_at].
  - destruct v; [reflexivity|]. cbn [length]. rewrite IH. reflexivity.
  - cbn [length]. rewrite IH. reflexivity.
Qed.
Lemma nth_write_at pos v l x d :
  nth x (write_at pos v l) d =
  if (Nat.leb pos x && Nat.ltb x (pos + length v) && Nat.ltb x (length l))%bool then nth (x - pos) v d else nth x l d.
Proof.
  revert pos v x. induction l as [|y t IH]; intros pos v x.
  - cbn [write_at length]. rewrite Nat.ltb_irrefl || idtac.
    replace (Nat.ltb x 0) with false by (symmetry; apply Nat.ltb_ge; lia). rewrite andb_false_r. reflexivity.
  - destruct pos as [|p]; cbn [write_at].
    + destruct v as [|z v'].
      * cbn [length Nat.add]. replace (Nat.ltb x 0) with false by (symmetry; apply Nat.ltb_ge; lia).
        rewrite andb_false_r. reflexivity.
      * destruct x as [|x]; cbn [nth].
        -- reflexivity.
        -- rewrite IH. cbn [length Nat.add Nat.leb Nat.sub]. rewrite Nat.sub_0_r.
           change (Nat.ltb (S x) (S (length v'))) with (Nat.ltb x (length v')).
           change (Nat.ltb (S x) (S (length t))) with (Nat.ltb x (length t)).
           cbn [andb Nat.add]. reflexivity.
    + destruct x as [|x]; cbn [nth].
      * reflexivity.
      * rewrite IH. cbn [length Nat.add Nat.sub].
        change (Nat.leb (S p) (S x)) with (Nat.leb p x).
        change (Nat.ltb (S x) (S (p + length v))) with (Nat.ltb x (p + length v)).
        change (Nat.ltb (S x) (S (length t))) with (Nat.ltb x (length t)). reflexivity.
Qed.

Lemma write_par_length pm j pos v : length (write_par pm j pos v) = length pm.
Proof.
  revert j. induction pm as [|b t IH]; intros j; [reflexivity|].
  destruct j; cbn [write_par length]; [reflexivity|]. rewrite IH. reflexivity.
Qed.
Lemma nth_write_par pm j pos v j' :
  nth j' (write_par pm j pos v) [] = if Nat.eqb j' j && Nat.ltb j (length pm) then write_at pos v (nth j pm []) else nth j' pm [].
Proof.
  revert j j'. induction pm as [|b t IH]; intros j j'.
  - cbn [write_par length]. replace (Nat.ltb j 0) with false by (symmetry; apply Nat.ltb_ge; lia).
    rewrite andb_false_r. reflexivity.
  - destruct j as [|j]; cbn [write_par].
    + destruct j'; cbn [nth Nat.eqb]; reflexivity.
    + destruct j'; cbn [nth Nat.eqb]; [reflexivity|]. rewrite IH. cbn [length].
      change (Nat.ltb (S j) (S (length t))) with (Nat.ltb j (length t)). reflexivity.
Qed.
