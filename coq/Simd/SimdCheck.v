(* The checker of the reflective proof (definitions only; extracted too, so that the check can report the verdict
   per function).  An abstract interpreter runs every block of a generated program over an abstract value per
   register ("what every byte lane holds, as a function of the lanes of the registers at block entry and of the
   data bytes at the same offset"); [checker] then compares the abstract results with the recurrences
        P' = P + D          Q' = 2.Q + D          Rz' = 2^-1.Rz + D          R_j' = R_j + tab_j[d](D)
   and checks that the stores cover every block exactly.  Soundness is SimdAbs.v / SimdLoop.v / SimdProofs.v. *)
From Coq Require Import NArith List Bool Arith.
From Snap.Raid Require Import GenModel.
From Snap.Simd Require Import SimdDefs SimdSem.
Import ListNotations.
Local Open Scope N_scope.

(* --- lane-local normal forms: xor-sums of coef(source) ---------------------------------------------- *)
Inductive src := SVar (r : nat) | SData (d : dref) (off : nat).
Inductive coef :=
| COne | CTwo | CHalf                      (* x, 2.x, 2^-1.x *)
| CLo (d : dref) (j : nat)                 (* gfgenpshufb[disk][j][0][x & 15] *)
| CHi (d : dref) (j : nat).                (* gfgenpshufb[disk][j][1][x >> 4] *)
Definition term := (coef * src)%type.
Definition nf := list term.

Inductive av :=
| AJunk
| AConst (c : N)                           (* every lane = c *)
| ATab (d : dref) (j lh : nat)             (* lane i = gfgenpshufb[disk][j][lh][i mod 16] *)
| ALin (n : nf)
| ALo4 (s : src) | AHi4 (s : src)          (* x & 15, x >> 4 *)
| ASrl (k : N) (s : src) | ASll (k : N) (s : src)   (* raw 16-bit shifts: some bits come from the other byte *)
| AShr1 (s : src)                          (* x >> 1 *)
| ASignC (s : src) (c : N)                 (* x >= 128 ? c : 0 *)
| AOddC (s : src) (c : N)                  (* x odd ? c : 0 *)
| ADbl (s : src).                          (* 2x mod 256 *)

Definition dref_eqb (a b : dref) : bool :=
  match a, b with Cur, Cur | Last, Last | First, First => true | _, _ => false end.
Definition src_eqb (a b : src) : bool :=
  match a, b with
  | SVar r, SVar r' => Nat.eqb r r'
  | SData d o, SData d' o' => dref_eqb d d' && Nat.eqb o o'
  | _, _ => false
  end.
Definition coef_eqb (a b : coef) : bool :=
  match a, b with
  | COne, COne | CTwo, CTwo | CHalf, CHalf => true
  | CLo d j, CLo d' j' | CHi d j, CHi d' j' => dref_eqb d d' && Nat.eqb j j'
  | _, _ => false
  end.
Definition term_eqb (a b : term) : bool := coef_eqb (fst a) (fst b) && src_eqb (snd a) (snd b).

(* a is a permutation of b *)
Fixpoint remove1 (t : term) (l : nf) : option nf :=
  match l with
  | [] => None
  | x :: r => if term_eqb t x then Some r else match remove1 t r with Some r' => Some (x :: r') | None => None end
  end.
Fixpoint nf_perm (a b : nf) : bool :=
  match a with
  | [] => match b with [] => true | _ => false end
  | t :: a' => match remove1 t b with Some b' => nf_perm a' b' | None => false end
  end.

Definition single (n : nf) : option src := match n with [(COne, s)] => Some s | _ => None end.

(* --- abstract registers ------------------------------------------------------------------------------ *)
Definition astate := list av.
Definition aget (A : astate) (r : nat) : av := nth r A AJunk.
Fixpoint aupd (r : nat) (v : av) (A : astate) : astate :=
  match r, A with
  | O, [] => [v]
  | O, _ :: t => v :: t
  | S r', [] => AJunk :: aupd r' v []
  | S r', h :: t => h :: aupd r' v t
  end.

Definition const_av (bs : list N) : av :=
  let c := b8 (nth 0 bs 0) in
  if forallb (fun i => N.eqb (b8 (nth i bs 0)) c) (seq 0 16) then AConst c else AJunk.
Definition tab_av (d : dref) (j lh : nat) : av := if Nat.ltb j 4 && Nat.ltb lh 2 then ATab d j lh else AJunk.

(* value of an operand read at the register width *)
Definition ard (w : nat) (A : astate) (o : operand) : av :=
  match o with
  | Reg n => aget A n
  | MemScratch k => aget A (scratch_base + k)
  | MemData d off => ALin [(COne, SData d off)]
  | MemTab TGen d j lh => if Nat.eqb w 16 then tab_av d j lh else AJunk
  | MemConst bs => if Nat.eqb w 16 then const_av bs else AJunk
  | MemPar _ _ => AJunk
  end.
(* value broadcast from 16 bytes of memory *)
Definition ard16 (o : operand) : av :=
  match o with
  | MemTab TGen d j lh => tab_av d j lh
  | MemConst bs => const_av bs
  | _ => AJunk
  end.

Definition axor0 (x y : av) : av :=
  match x, y with
  | ALin a, ALin b => ALin (a ++ b)
  | ADbl s, ASignC s' c => if src_eqb s s' && N.eqb c 29 then ALin [(CTwo, s)] else AJunk
  | AShr1 s, AOddC s' c => if src_eqb s s' && N.eqb c 142 then ALin [(CHalf, s)] else AJunk
  | _, _ => AJunk
  end.
Definition aand0 (x y : av) : av :=
  match y with
  | AConst c =>
      match x with
      | ALin n => match single n with Some s => if N.eqb c 15 then ALo4 s else AJunk | None => AJunk end
      | ASrl k s => if N.eqb k 4 && N.eqb c 15 then AHi4 s else if N.eqb k 1 && N.eqb c 127 then AShr1 s else AJunk
      | ASignC s c0 => ASignC s (N.land c0 c)
      | AOddC s c0 => AOddC s (N.land c0 c)
      | _ => AJunk
      end
  | _ => AJunk
  end.
(* xor and and are commutative: try both operand orders *)
Definition axor (x y : av) : av := match axor0 x y with AJunk => axor0 y x | v => v end.
Definition aand (x y : av) : av := match aand0 x y with AJunk => aand0 y x | v => v end.
Definition aadd (x y : av) : av :=
  match x, y with
  | ALin a, ALin b => match single a, single b with
                      | Some s, Some s' => if src_eqb s s' then ADbl s else AJunk
                      | _, _ => AJunk
                      end
  | _, _ => AJunk
  end.
Definition acmpgt (x y : av) : av :=
  match x with
  | AConst c => if N.eqb c 0 then
                  match y with
                  | ALin n => match single n with Some s => ASignC s 255 | None => AJunk end
                  | ASll k s => if N.eqb k 7 then AOddC s 255 else AJunk
                  | _ => AJunk
                  end
                else AJunk
  | _ => AJunk
  end.
Definition apshufb (t x : av) : av :=
  match t, x with
  | ATab d j lh, ALo4 s => if Nat.eqb lh 0 then ALin [(CLo d j, s)] else AJunk
  | ATab d j lh, AHi4 s => if Nat.eqb lh 1 then ALin [(CHi d j, s)] else AJunk
  | _, _ => AJunk
  end.
Definition abin (o : binop) : av -> av -> av :=
  match o with OXor => axor | OAnd => aand | OAddB => aadd | OCmpGtB => acmpgt | OPshufb => apshufb end.
Definition ashift (left : bool) (k : N) (x : av) : av :=
  match x with
  | ALin n => match single n with Some s => if left then ASll k s else ASrl k s | None => AJunk end
  | _ => AJunk
  end.

Definition same_reg (a b : operand) : bool :=
  match a, b with Reg n, Reg m => Nat.eqb n m | _, _ => false end.

Definition ainstr_val (w : nat) (A : astate) (i : instr) : av :=
  match i with
  | Mov d a => ard w A a
  | Store d a => ard w A a
  | Bcast128 d a => ard16 a
  | Bin o d a b => match o with
                   | OXor => if same_reg a b then AConst 0 else axor (ard w A a) (ard w A b)
                   | _ => abin o (ard w A a) (ard w A b)
                   end
  | SrlW k d a => ashift false k (ard w A a)
  | SllW k d a => ashift true k (ard w A a)
  end.

Definition alog := list (nat * nat * av).        (* parity index, offset in the chunk, value; newest first *)
Definition astate2 := (astate * alog)%type.
Definition awr (st : astate2) (o : operand) (v : av) : astate2 :=
  match o with
  | Reg n => (aupd n v (fst st), snd st)
  | MemScratch k => (aupd (scratch_base + k) v (fst st), snd st)
  | MemPar j off => (fst st, (j, off, v) :: snd st)
  | _ => st
  end.
Definition aexec_instr (w : nat) (st : astate2) (i : instr) : astate2 := awr st (instr_dst i) (ainstr_val w (fst st) i).
Definition aexec_block (w : nat) (b : list instr) (A : astate) : astate2 := fold_left (aexec_instr w) b (A, []).

(* --- registers written by a block -------------------------------------------------------------------- *)
Definition dst_reg (o : operand) : list nat :=
  match o with Reg n => [n] | MemScratch k => [(scratch_base + k)%nat] | _ => [] end.
Definition writes (b : list instr) : list nat := flat_map (fun i => dst_reg (instr_dst i)) b.
Definition memb (r : nat) (l : list nat) : bool := existsb (Nat.eqb r) l.

Definition nreg : nat := 24.
Definition ident_av (r : nat) : av := ALin [(COne, SVar r)].
(* constants established by the prologue and never overwritten afterwards *)
Definition const_regs (Apro : astate) (wr : list nat) : list (nat * N) :=
  flat_map (fun r => match aget Apro r with AConst c => if memb r wr then [] else [(r, c)] | _ => [] end) (seq 0 nreg).
Fixpoint assoc_c (r : nat) (l : list (nat * N)) : option N :=
  match l with [] => None | (r', c) :: t => if Nat.eqb r r' then Some c else assoc_c r t end.
Definition base_state (cs : list (nat * N)) : astate :=
  map (fun r => match assoc_c r cs with Some c => AConst c | None => ident_av r end) (seq 0 nreg).

(* --- accumulators -------------------------------------------------------------------------------------- *)
Inductive kind := KOne | KTwo | KHalf | KTab (j : nat).
Definition kind_eqb (a b : kind) : bool :=
  match a, b with KOne, KOne | KTwo, KTwo | KHalf, KHalf => true | KTab j, KTab j' => Nat.eqb j j' | _, _ => false end.
Definition kcoef (k : kind) : coef := match k with KOne => COne | KTwo => CTwo | KHalf => CHalf | KTab _ => COne end.
Definition step_nf (k : kind) (r off : nat) : nf :=
  match k with
  | KTab j => [(COne, SVar r); (CLo Cur j, SData Cur off); (CHi Cur j, SData Cur off)]
  | _ => [(kcoef k, SVar r); (COne, SData Cur off)]
  end.
Definition init_nf (k : kind) (off : nat) : nf :=
  match k with
  | KTab j => [(CLo Last j, SData Last off); (CHi Last j, SData Last off)]
  | _ => [(COne, SData Last off)]
  end.
Definition final_nf (lo : nat) (k : kind) (r off : nat) : nf :=
  match lo with O => [(COne, SVar r)] | _ => [(kcoef k, SVar r); (COne, SData First off)] end.

(* a guess (verified afterwards by nf_perm) of what a loop-carried register accumulates *)
Definition classify (n : nf) (r : nat) : option (kind * nat) :=
  let mine := filter (fun t => src_eqb (snd t) (SVar r)) n in
  let rest := filter (fun t => negb (src_eqb (snd t) (SVar r))) n in
  match mine, rest with
  | [(c, _)], [(COne, SData Cur off)] =>
      match c with COne => Some (KOne, off) | CTwo => Some (KTwo, off) | CHalf => Some (KHalf, off) | _ => None end
  | [(COne, _)], [(CLo Cur j, SData Cur off); _] => Some (KTab j, off)
  | [(COne, _)], [(CHi Cur j, SData Cur off); _] => Some (KTab j, off)
  | _, _ => None
  end.
Definition acc := (nat * kind * nat)%type.            (* register, kind, offset in the chunk *)
Definition find_accs (Ai Ab : astate) : list acc :=
  flat_map (fun r =>
    match aget Ab r, aget Ai r with
    | ALin nb, ALin ni =>
        match classify nb r with
        | Some (k, off) => if nf_perm nb (step_nf k r off) && nf_perm ni (init_nf k off) then [(r, k, off)] else []
        | None => []
        end
    | _, _ => []
    end) (seq 0 nreg).

Definition all_rows : list kind := [KOne; KTwo; KTab 0; KTab 1; KTab 2; KTab 3].
Definition rows_of_gen (g : genfn) : list kind :=
  match g with G1 => [KOne] | G2 => [KOne; KTwo] | GZ => [KOne; KTwo; KHalf] | GK n => firstn n all_rows end.
Definition is_tab (k : kind) : bool := match k with KTab j => Nat.ltb j 4 | _ => false end.
Definition kind_ok (lo : nat) (k : kind) : bool := match k with KTab j => Nat.ltb j 4 && Nat.eqb lo 1 | _ => true end.

Definition store_ok (w stp lo : nat) (rows : list kind) (accs : list acc) (s : nat * nat * av) : bool :=
  let '(j, off, a) := s in
  Nat.ltb j (length rows) && Nat.leb (off + w) stp &&
  match a, nth_error rows j with
  | ALin n, Some k =>
      existsb (fun x : acc => let '(r, k', off') := x in
                 kind_eqb k k' && Nat.eqb off off' && nf_perm n (final_nf lo k r off)) accs
  | _, _ => false
  end.
Definition covered (w stp np : nat) (sts : alog) : bool :=
  forallb (fun j => forallb (fun m => existsb (fun s : nat * nat * av => Nat.eqb (fst (fst s)) j && Nat.eqb (snd (fst s)) (m * w)) sts)
                            (seq 0 (stp / w))) (seq 0 np).
Definition isnil {A} (l : list A) : bool := match l with [] => true | _ => false end.

Record analysis := {
  an_consts : list (nat * N);
  an_init : astate2; an_body : astate2; an_fini : astate2;
  an_pro : astate2;
  an_accs : list acc
}.
Definition analyse (p : prog) : analysis :=
  let w := width p in
  let pro := aexec_block w (prologue p) [] in
  let cs := const_regs (fst pro) (writes (chunk_init p ++ loop_body p ++ chunk_mid p ++ chunk_fini p)) in
  let B := base_state cs in
  let ai := aexec_block w (chunk_init p) B in
  let ab := aexec_block w (loop_body p) B in
  let af := aexec_block w (chunk_mid p ++ chunk_fini p) B in
  {| an_consts := cs; an_init := ai; an_body := ab; an_fini := af; an_pro := pro;
     an_accs := find_accs (fst ai) (fst ab) |}.

Definition checker (g : genfn) (p : prog) : bool :=
  let w := width p in
  let rows := rows_of_gen g in
  let np := length rows in
  let a := analyse p in
  (Nat.eqb w 16 || Nat.eqb w 32) && Nat.ltb 0 (step p) && Nat.eqb (step p mod w) 0 &&
  Nat.leb (loop_lo p) 1 &&
  Nat.eqb np (gen_np g) &&
  forallb (kind_ok (loop_lo p)) rows &&
  (match nd1_special p with
   | None => Nat.eqb (loop_lo p) 0
   | Some k => Nat.eqb k np
   end) &&
  isnil (snd (an_pro a)) && isnil (snd (an_init a)) && isnil (snd (an_body a)) &&
  forallb (store_ok w (step p) (loop_lo p) rows (an_accs a)) (snd (an_fini a)) &&
  covered w (step p) np (snd (an_fini a)).

Definition checker_opt (g : genfn) (p : option prog) : bool :=
  match p with Some p => checker g p | None => true end.
