(* Applying a log of stores to the parity buffers, and the shape of GenModel.spec_blocks. *)
From Coq Require Import NArith List Bool Arith Lia.
From Snap.Raid Require Import GenModel.
From Snap.Simd Require Import SimdDefs SimdSem SimdBytes.
Import ListNotations.
Local Open Scope N_scope.

Section Log.
  Variable spec : nat -> nat -> N.

  (* a store that writes only correct values *)
  Definition wgood (y : nat * nat * vec) : Prop :=
    forall i, (i < length (snd y))%nat -> nth i (snd y) 0 = spec (fst (fst y)) (snd (fst y) + i).
  Definition Q (pm : list block) (j x : nat) : Prop := nth x (nth j pm []) 0 = spec j x.

  Lemma write_pres pm y j x : wgood y -> Q pm j x -> Q (write_par pm (fst (fst y)) (snd (fst y)) (snd y)) j x.
  Proof.
    intros Hg HQ. unfold Q in *. rewrite nth_write_par.
    destruct (Nat.eqb_spec j (fst (fst y))) as [E|E]; cbn [andb]; [|exact HQ].
    destruct (Nat.ltb (fst (fst y)) (length pm)); [|exact HQ].
    rewrite nth_write_at.
    destruct (Nat.leb_spec (snd (fst y)) x) as [H1|H1]; cbn [andb]; [|subst j; exact HQ].
    destruct (Nat.ltb_spec x (snd (fst y) + length (snd y))) as [H2|H2]; cbn [andb]; [|subst j; exact HQ].
    destruct (Nat.ltb (x) (length (nth (fst (fst y)) pm []))); [|subst j; exact HQ].
    rewrite (Hg (x - snd (fst y))%nat) by lia. subst j. f_equal. lia.
  Qed.
  Lemma write_cov pm y j x : wgood y -> fst (fst y) = j -> (j < length pm)%nat ->
    (snd (fst y) <= x < snd (fst y) + length (snd y))%nat -> (x < length (nth j pm []))%nat ->
    Q (write_par pm (fst (fst y)) (snd (fst y)) (snd y)) j x.
  Proof.
    intros Hg Ej Hj Hx Hl. unfold Q. rewrite nth_write_par. rewrite Ej. rewrite Nat.eqb_refl.
    cbn [andb].
    match goal with |- context [if ?c then _ else _] => replace c with true by (symmetry; apply Nat.ltb_lt; exact Hj) end.
    rewrite nth_write_at.
    match goal with |- context [if ?c then _ else _] =>
      replace c with true by (symmetry; rewrite !andb_true_iff; repeat split; [apply Nat.leb_le; lia|apply Nat.ltb_lt; lia|apply Nat.ltb_lt; exact Hl]) end.
    rewrite (Hg (x - snd (fst y))%nat) by lia. rewrite Ej. f_equal. lia.
  Qed.

  Lemma apply_log_cons y G pm :
    apply_log (y :: G) pm = write_par (apply_log G pm) (fst (fst y)) (snd (fst y)) (snd y).
  Proof. reflexivity. Qed.
  Lemma apply_len G pm : length (apply_log G pm) = length pm.
  Proof. induction G as [|y G IH]; [reflexivity|]. rewrite apply_log_cons, write_par_length. exact IH. Qed.
  Lemma apply_len_blk G pm j : length (nth j (apply_log G pm) []) = length (nth j pm []).
  Proof.
    induction G as [|y G IH]; [reflexivity|]. rewrite apply_log_cons, nth_write_par.
    destruct (_ && _)%bool eqn:E; [|exact IH]. rewrite write_at_length.
    apply andb_true_iff in E. destruct E as [E _]. apply Nat.eqb_eq in E. subst j. exact IH.
  Qed.
  Lemma apply_pres G pm j x : (forall y, In y G -> wgood y) -> Q pm j x -> Q (apply_log G pm) j x.
  Proof.
    induction G as [|y G IH]; intros HG HQ; [exact HQ|]. rewrite apply_log_cons.
    apply write_pres; [apply HG; left; reflexivity|]. apply IH; [|exact HQ]. intros y' Hy'. apply HG. right. exact Hy'.
  Qed.
  Lemma apply_cov G pm j x : (forall y, In y G -> wgood y) ->
    (exists y, In y G /\ fst (fst y) = j /\ (snd (fst y) <= x < snd (fst y) + length (snd y))%nat) ->
    (j < length pm)%nat -> (x < length (nth j pm []))%nat -> Q (apply_log G pm) j x.
  Proof.
    induction G as [|y G IH]; intros HG [y0 [Hin [Ej Hx]]] Hj Hl; [contradiction|]. rewrite apply_log_cons.
    destruct Hin as [->|Hin].
    - apply write_cov; try assumption.
      + apply HG. left. reflexivity.
      + rewrite apply_len. exact Hj.
      + rewrite apply_len_blk. exact Hl.
    - apply write_pres; [apply HG; left; reflexivity|].
      apply IH; try assumption.
      + intros y' Hy'. apply HG. right. exact Hy'.
      + exists y0. auto.
  Qed.
End Log.

Lemma spec_blocks_len M np size data : length (spec_blocks M np size data) = np.
Proof. unfold spec_blocks, blocks_of. rewrite map_length, seq_length. reflexivity. Qed.
Lemma spec_blocks_nth M np size data j : (j < np)%nat ->
  nth j (spec_blocks M np size data) [] = map (fun x => spec_col M j (column data x)) (seq 0 size).
Proof.
  intros Hj. unfold spec_blocks, blocks_of. rewrite nth_map_seq by exact Hj.
  unfold columns. rewrite !map_map. apply map_ext. intros x.
  apply (nth_map_seq (fun j => spec_col M j (column data x))). exact Hj.
Qed.

Lemma blocks_ext (a b : list block) n size : length a = n -> length b = n ->
  (forall j, (j < n)%nat -> length (nth j a []) = size /\ length (nth j b []) = size /\
                            forall x, (x < size)%nat -> nth x (nth j a []) 0 = nth x (nth j b []) 0) -> a = b.
Proof.
  intros La Lb H. apply nth_ext with (d := []) (d' := []); [congruence|].
  intros j Hj. rewrite La in Hj. destruct (H j Hj) as [L1 [L2 E]].
  apply nth_ext with (d := 0) (d' := 0); [congruence|]. intros x Hx. apply E. lia.
Qed.
