(* From the checker's verdict to one iteration of the block loop: under the conditions that [checker] tests,
   every store logged by [run_chunk] holds, lane by lane, the GF(2^8) dot product of the column with the row of
   the closed-form matrix, and the stores of a chunk cover [c*step, (c+1)*step) of every parity buffer. *)
From Coq Require Import NArith List Bool Arith Lia.
From Snap.Gen Require Import Tables.
From Snap.GF Require Import Gf TablesOk.
From Snap.Raid Require Import GenModel GenProofs.
From Snap.Simd Require Import SimdDefs SimdSem SimdCheck SimdBytes SimdAbs SimdMath SimdLog.
Import ListNotations.
Local Open Scope N_scope.

Lemma Forall2_in_r {A B} (R : A -> B -> Prop) l l' y : Forall2 R l l' -> In y l' -> exists x, In x l /\ R x y.
Proof.
  induction 1 as [|a b l l' H H' IH]; intros Hin; [contradiction|]. destruct Hin as [->|Hin].
  - exists a. split; [left; reflexivity|exact H].
  - destruct (IH Hin) as [x [Hx HR]]. exists x. split; [right; exact Hx|exact HR].
Qed.
Lemma Forall2_in_l {A B} (R : A -> B -> Prop) l l' x : Forall2 R l l' -> In x l -> exists y, In y l' /\ R x y.
Proof.
  induction 1 as [|a b l l' H H' IH]; intros Hin; [contradiction|]. destruct Hin as [->|Hin].
  - exists b. split; [left; reflexivity|exact H].
  - destruct (IH Hin) as [y [Hy HR]]. exists y. split; [right; exact Hy|exact HR].
Qed.
Lemma fold_left_ext_in {A B} (f g : A -> B -> A) l a :
  (forall a x, In x l -> f a x = g a x) -> fold_left f l a = fold_left g l a.
Proof.
  revert a. induction l as [|x l IH]; intros a H; [reflexivity|]. cbn [fold_left].
  rewrite H by (left; reflexivity). apply IH. intros a' x' Hx. apply H. right. exact Hx.
Qed.
Lemma assoc_c_in r cs c : assoc_c r cs = Some c -> In (r, c) cs.
Proof.
  induction cs as [|[r' c'] cs IH]; [discriminate|]. cbn [assoc_c].
  destruct (Nat.eqb_spec r r') as [->|Hn]; intros H; [inversion H; left; reflexivity|right; apply IH; exact H].
Qed.
Lemma memb_false r l : memb r l = false -> ~ In r l.
Proof.
  unfold memb. intros H Hin. assert (E : existsb (Nat.eqb r) l = true).
  { apply existsb_exists. exists r. split; [exact Hin|apply Nat.eqb_refl]. }
  congruence.
Qed.
Lemma nth_map_default {A B} (f : A -> B) l d da db : (d < length l)%nat -> nth d (map f l) db = f (nth d l da).
Proof. intros H. rewrite nth_indep with (d' := f da) by (rewrite map_length; exact H). apply map_nth. Qed.
Lemma bytes_nth (blk : list N) x : bytes blk -> nth x blk 0 < 256.
Proof.
  intros Hb. destruct (nth_in_or_default x blk 0) as [H|H]; [|rewrite H; reflexivity].
  unfold bytes in Hb. rewrite Forall_forall in Hb. apply Hb. exact H.
Qed.
Lemma writes_app a b : writes (a ++ b) = writes a ++ writes b.
Proof. unfold writes. apply flat_map_app. Qed.

Section Prog.
  Variable g : genfn.
  Variable p : prog.
  Variable data : list block.
  Let w := width p.
  Let l := (length data - 1)%nat.
  Let lo := loop_lo p.
  Let rows := rows_of_gen g.
  Let np := length rows.
  Let wr := writes (chunk_init p ++ loop_body p ++ chunk_mid p ++ chunk_fini p).
  Let cs := const_regs (fst (aexec_block w (prologue p) [])) wr.
  Let B := base_state cs.
  Let ai := aexec_block w (chunk_init p) B.
  Let ab := aexec_block w (loop_body p) B.
  Let af := aexec_block w (chunk_mid p ++ chunk_fini p) B.
  Let accs := find_accs (fst ai) (fst ab).
  Let M := gen_mat Cauchy g.

  Hypothesis Hw : w = 16%nat \/ w = 32%nat.
  Hypothesis Hnd : (1 <= length data <= 251)%nat.
  Hypothesis Hdata : data_ok data.
  Hypothesis Hlo : lo = O \/ (lo = 1%nat /\ (2 <= length data)%nat).
  Hypothesis Hkinds : forallb (kind_ok lo) rows = true.
  Hypothesis Hp_nil : snd (aexec_block w (prologue p) []) = [].
  Hypothesis Hi_nil : snd ai = [].
  Hypothesis Hb_nil : snd ab = [].
  Hypothesis Hstores : forallb (store_ok w (step p) lo rows accs) (snd af) = true.
  Hypothesis Hcov : covered w (step p) np (snd af) = true.

  Definition lanew (s : regs) (r i : nat) : N := nth i (fit w (get s r)) 0.
  Definition Kinv (s : regs) : Prop := forall r c, In (r, c) cs -> forall i, (i < w)%nat -> lanew s r i = c.
  Definition Dv (d x : nat) : N := b8 (nth x (nth d data []) 0).
  Definition spec (j x : nat) : N := spec_col M j (column data x).

  Lemma cs_in r c : In (r, c) cs -> aget (fst (aexec_block w (prologue p) [])) r = AConst c /\ ~ In r wr.
  Proof.
    unfold cs, const_regs. intros H. apply in_flat_map in H. destruct H as [r0 [_ H]].
    destruct (aget (fst (aexec_block w (prologue p) [])) r0) eqn:E; try contradiction.
    destruct (memb r0 wr) eqn:E2; [contradiction|]. destruct H as [H|[]]. inversion H; subst.
    split; [exact E|apply memb_false; exact E2].
  Qed.

  Lemma base_sat e s : e_w e = w -> Kinv s -> sat e s B s.
  Proof.
    intros He HK r i Hi. unfold B, base_state, aget. destruct (Nat.lt_ge_cases r nreg) as [Hr|Hr].
    - rewrite nth_map_seq by exact Hr. destruct (assoc_c r cs) as [c|] eqn:E.
      + cbn [lane_ok]. apply assoc_c_in in E. unfold lane. rewrite He. apply (HK r c E). rewrite <- He. exact Hi.
      + unfold ident_av. cbn [lane_ok eval_nf fold_right fst snd cmul sval]. rewrite N.lxor_0_r. reflexivity.
    - rewrite nth_overflow by (rewrite map_length, seq_length; exact Hr). exact I.
  Qed.

  Lemma kinv_block e b s : (forall r, In r (writes b) -> In r wr) -> Kinv s -> Kinv (fst (exec_block e b s)).
  Proof.
    intros Hsub HK r c Hin i Hi. unfold lanew. rewrite exec_block_frame.
    - apply (HK r c Hin i Hi).
    - intro Hr. apply (proj2 (cs_in r c Hin)). apply Hsub. exact Hr.
  Qed.
  Lemma wr_init r : In r (writes (chunk_init p)) -> In r wr.
  Proof. unfold wr. rewrite !writes_app, !in_app_iff. tauto. Qed.
  Lemma wr_body r : In r (writes (loop_body p)) -> In r wr.
  Proof. unfold wr. rewrite !writes_app, !in_app_iff. tauto. Qed.
  Lemma wr_fini r : In r (writes (chunk_mid p ++ chunk_fini p)) -> In r wr.
  Proof. unfold wr. rewrite !writes_app, !in_app_iff. tauto. Qed.

  Lemma kinv_prologue s0 : Kinv (fst (exec_block (mkenv p data l l O) (prologue p) s0)) /\
                           snd (exec_block (mkenv p data l l O) (prologue p) s0) = [].
  Proof.
    assert (S0 : sat (mkenv p data l l O) s0 [] s0) by (intros r i Hi; unfold aget; destruct r; exact I).
    destruct (exec_block_ok (mkenv p data l l O) s0 Hw (prologue p) [] S0) as [HS HL].
    split.
    - intros r c Hin i Hi. destruct (cs_in r c Hin) as [E _]. specialize (HS r i Hi).
      change (e_w (mkenv p data l l O)) with w in HS. rewrite E in HS. exact HS.
    - change (e_w (mkenv p data l l O)) with w in HL. rewrite Hp_nil in HL. inversion HL. reflexivity.
  Qed.

  Lemma Dv_col d x : (d < length data)%nat -> Dv d x = nth d (column data x) 0.
  Proof.
    intros Hd. unfold column. rewrite (nth_map_default (fun blk => nth x blk 0) data d [] 0 Hd).
    cbv beta. unfold Dv. apply b8_id.
    assert (Hb : bytes (nth d data [])).
    { unfold data_ok in Hdata. rewrite Forall_forall in Hdata. apply Hdata. apply nth_In. exact Hd. }
    apply bytes_nth. exact Hb.
  Qed.

  Lemma accs_in r k off : In (r, k, off) accs ->
    exists nb ni, aget (fst ab) r = ALin nb /\ aget (fst ai) r = ALin ni /\
                  nf_perm nb (step_nf k r off) = true /\ nf_perm ni (init_nf k off) = true.
  Proof.
    unfold accs, find_accs. intros H. apply in_flat_map in H. destruct H as [r0 [_ H]].
    destruct (aget (fst ab) r0) as [| | |nb| | | | | | | |] eqn:Eb; try contradiction.
    destruct (aget (fst ai) r0) as [| | |ni| | | | | | | |] eqn:Ei; try contradiction.
    destruct (classify nb r0) as [[k0 off0]|]; [|contradiction].
    destruct (nf_perm nb (step_nf k0 r0 off0)) eqn:P1; [|contradiction].
    destruct (nf_perm ni (init_nf k0 off0)) eqn:P2; [|contradiction].
    destruct H as [H|[]]. inversion H; subst. exists nb, ni. auto.
  Qed.

  (* ---- meaning of the canonical normal forms ---------------------------------------------------------- *)
  Lemma eval_init e s k off i : eval_nf e s (init_nf k off) i = kinitv k (e_l e) (dbyte e Last (e_base e + off + i)).
  Proof. destruct k; cbn [init_nf eval_nf fold_right fst snd cmul sval kinitv kcoef]; rewrite ?N.lxor_0_r; reflexivity. Qed.
  Lemma eval_step e s k r off i :
    eval_nf e s (step_nf k r off) i = kstepv k (e_d e) (lane e s r i) (dbyte e Cur (e_base e + off + i)).
  Proof. destruct k; cbn [step_nf eval_nf fold_right fst snd cmul sval kstepv kmul kcoef]; rewrite ?N.lxor_0_r; reflexivity. Qed.
  Lemma eval_final e s lo' k r off i :
    eval_nf e s (final_nf lo' k r off) i = kfinalv lo' k (lane e s r i) (dbyte e First (e_base e + off + i)).
  Proof.
    destruct lo'; cbn [final_nf kfinalv].
    - cbn [eval_nf fold_right fst snd cmul sval]. apply N.lxor_0_r.
    - destruct k; cbn [eval_nf fold_right fst snd cmul sval kmul kcoef]; rewrite ?N.lxor_0_r; reflexivity.
  Qed.

  (* ---- the three phases of a chunk ---------------------------------------------------------------------- *)
  Lemma init_ok base s : Kinv s ->
    Kinv (fst (exec_block (mkenv p data l l base) (chunk_init p) s)) /\
    snd (exec_block (mkenv p data l l base) (chunk_init p) s) = [] /\
    forall r k off, In (r, k, off) accs -> forall i, (i < w)%nat ->
      lanew (fst (exec_block (mkenv p data l l base) (chunk_init p) s)) r i = kinitv k l (Dv l (base + off + i)).
  Proof.
    intros HK. set (e := mkenv p data l l base).
    destruct (exec_block_ok e s Hw (chunk_init p) B (base_sat e s eq_refl HK)) as [HS HL].
    change (aexec_block (e_w e) (chunk_init p) B) with ai in HS, HL.
    split; [apply kinv_block; [exact wr_init|exact HK]|]. split.
    - rewrite Hi_nil in HL. inversion HL. reflexivity.
    - intros r k off Hin i Hi. destruct (accs_in r k off Hin) as [nb [ni [_ [Ei [_ Pi]]]]].
      specialize (HS r i Hi). rewrite Ei in HS. cbn [lane_ok] in HS.
      change (lane e (fst (exec_block e (chunk_init p) s)) r i) with (lanew (fst (exec_block e (chunk_init p) s)) r i) in HS.
      rewrite HS. rewrite (nf_perm_eval e s ni _ i Pi). rewrite eval_init. reflexivity.
  Qed.

  Lemma body_ok base d s : Kinv s ->
    Kinv (fst (exec_block (mkenv p data l d base) (loop_body p) s)) /\
    snd (exec_block (mkenv p data l d base) (loop_body p) s) = [] /\
    forall r k off, In (r, k, off) accs -> forall i, (i < w)%nat ->
      lanew (fst (exec_block (mkenv p data l d base) (loop_body p) s)) r i = kstepv k d (lanew s r i) (Dv d (base + off + i)).
  Proof.
    intros HK. set (e := mkenv p data l d base).
    destruct (exec_block_ok e s Hw (loop_body p) B (base_sat e s eq_refl HK)) as [HS HL].
    change (aexec_block (e_w e) (loop_body p) B) with ab in HS, HL.
    split; [apply kinv_block; [exact wr_body|exact HK]|]. split.
    - rewrite Hb_nil in HL. inversion HL. reflexivity.
    - intros r k off Hin i Hi. destruct (accs_in r k off Hin) as [nb [ni [Eb [_ [Pb _]]]]].
      specialize (HS r i Hi). rewrite Eb in HS. cbn [lane_ok] in HS.
      change (lane e (fst (exec_block e (loop_body p) s)) r i) with (lanew (fst (exec_block e (loop_body p) s)) r i) in HS.
      rewrite HS. rewrite (nf_perm_eval e s nb _ i Pb). rewrite eval_step. reflexivity.
  Qed.

  Lemma loop_ok base ds : forall s g0, Kinv s ->
    Kinv (fst (fold_left (loop_step p data l base) ds (s, g0))) /\
    snd (fold_left (loop_step p data l base) ds (s, g0)) = g0 /\
    forall r k off, In (r, k, off) accs -> forall i, (i < w)%nat ->
      lanew (fst (fold_left (loop_step p data l base) ds (s, g0))) r i =
      fold_left (fun a d => kstepv k d a (Dv d (base + off + i))) ds (lanew s r i).
  Proof.
    induction ds as [|d ds IH]; intros s g0 HK.
    - cbn [fold_left fst snd]. auto.
    - cbn [fold_left].
      destruct (body_ok base d s HK) as [HK' [Hnil Hacc]].
      assert (E : loop_step p data l base (s, g0) d = (fst (exec_block (mkenv p data l d base) (loop_body p) s), g0)).
      { unfold loop_step. cbn [fst snd]. rewrite Hnil. reflexivity. }
      rewrite E.
      destruct (IH _ g0 HK') as [H1 [H2 H3]]. split; [exact H1|]. split; [exact H2|].
      intros r k off Hin i Hi. rewrite (H3 r k off Hin i Hi). rewrite (Hacc r k off Hin i Hi). reflexivity.
  Qed.

  (* ---- a store of a chunk -------------------------------------------------------------------------------- *)
  Definition good_store (base : nat) (y : nat * nat * vec) : Prop :=
    (fst (fst y) < np)%nat /\ length (snd y) = w /\
    exists off, snd (fst y) = (base + off)%nat /\ (off + w <= step p)%nat /\
                forall i, (i < w)%nat -> nth i (snd y) 0 = spec (fst (fst y)) (base + off + i).

  Lemma column_total k x : kind_ok lo k = true ->
    kfinalv lo k (fold_left (fun a d => kstepv k d a (Dv d x)) (loop_disks lo l) (kinitv k l (Dv l x))) (Dv 0 x)
    = spec_from (krow k) 0 (column data x).
  Proof.
    intros Hk.
    assert (Hlen : length (column data x) = length data) by (unfold column; apply map_length).
    rewrite <- (total_ok lo k (column data x)).
    - unfold total. rewrite Hlen. fold l. rewrite !Dv_col by (unfold l; lia). f_equal. apply fold_left_ext_in.
      intros a d Hd. rewrite Dv_col; [reflexivity|].
      unfold loop_disks in Hd. apply in_rev in Hd. apply in_seq in Hd. unfold l in *. lia.
    - apply column_bytes. exact Hdata.
    - rewrite Hlen. exact Hnd.
    - rewrite Hlen. exact Hlo.
    - exact Hk.
  Qed.

  Lemma chunk_ok c s glog : Kinv s ->
    Kinv (fst (run_chunk p data l (s, glog) c)) /\
    exists g3, snd (run_chunk p data l (s, glog) c) = g3 ++ glog /\
               (forall y, In y g3 -> good_store (c * step p) y) /\
               (forall j m, (j < np)%nat -> (m < step p / w)%nat ->
                  exists y, In y g3 /\ fst (fst y) = j /\ snd (fst y) = (c * step p + m * w)%nat).
  Proof.
    intros HK. unfold run_chunk. cbn [fst snd]. set (base := (c * step p)%nat).
    destruct (init_ok base s HK) as [HK1 [N1 A1]].
    set (st1 := exec_block (mkenv p data l l base) (chunk_init p) s) in *.
    assert (Est1 : st1 = (fst st1, [])) by (rewrite <- N1; destruct st1; reflexivity).
    rewrite Est1. fold lo.
    destruct (loop_ok base (loop_disks lo l) (fst st1) [] HK1) as [HK2 [N2 A2]].
    set (st2 := fold_left (loop_step p data l base) (loop_disks lo l) (fst st1, [])).
    assert (N2' : snd st2 = []) by exact N2.
    assert (A2' : forall r k off, In (r, k, off) accs -> forall i, (i < w)%nat ->
              lanew (fst st2) r i = fold_left (fun a d => kstepv k d a (Dv d (base + off + i))) (loop_disks lo l) (lanew (fst st1) r i))
      by exact A2.
    assert (HK2' : Kinv (fst st2)) by exact HK2.
    clear N2 A2 HK2. rename N2' into N2. rename A2' into A2. rename HK2' into HK2.
    rewrite N2. cbn [app].
    set (e := mkenv p data l O base).
    destruct (exec_block_ok e (fst st2) Hw (chunk_mid p ++ chunk_fini p) B (base_sat e (fst st2) eq_refl HK2)) as [HS HL].
    change (aexec_block (e_w e) (chunk_mid p ++ chunk_fini p) B) with af in HS, HL.
    split; [apply kinv_block; [exact wr_fini|exact HK2]|].
    exists (snd (exec_block e (chunk_mid p ++ chunk_fini p) (fst st2))). split; [reflexivity|]. split.
    - intros y Hy. destruct (Forall2_in_r _ _ _ y HL Hy) as [x [Hx [R1 [R2 [R3 R4]]]]].
      rewrite forallb_forall in Hstores. specialize (Hstores x Hx).
      destruct x as [[j off] a]. cbn [fst snd] in *. unfold store_ok in Hstores.
      apply andb_true_iff in Hstores. destruct Hstores as [Hs1 Hs3]. apply andb_true_iff in Hs1. destruct Hs1 as [Hs1 Hs2].
      apply Nat.ltb_lt in Hs1. apply Nat.leb_le in Hs2.
      destruct a as [| | |n| | | | | | | |]; try discriminate.
      destruct (nth_error rows j) as [k|] eqn:Ek; [|discriminate].
      apply existsb_exists in Hs3. destruct Hs3 as [[[r' k'] off'] [Hacc Hs3]].
      apply andb_true_iff in Hs3. destruct Hs3 as [Hs3 Pn]. apply andb_true_iff in Hs3. destruct Hs3 as [Ek' Eo].
      apply Nat.eqb_eq in Eo. subst off'.
      assert (k' = k) by (destruct k, k'; cbn [kind_eqb] in Ek'; try discriminate; try reflexivity; apply Nat.eqb_eq in Ek'; congruence).
      subst k'.
      split; [rewrite R1; exact Hs1|]. split; [exact R3|]. exists off. split; [exact R2|]. split; [exact Hs2|].
      intros i Hi. specialize (R4 i Hi). cbn [lane_ok] in R4. rewrite R4.
      rewrite (nf_perm_eval e (fst st2) n _ i Pn). rewrite eval_final.
      change (lane e (fst st2) r' i) with (lanew (fst st2) r' i).
      rewrite (A2 r' k off Hacc i Hi). rewrite (A1 r' k off Hacc i Hi).
      change (dbyte e First (e_base e + off + i)) with (Dv 0 (base + off + i)).
      assert (Hk : kind_ok lo k = true).
      { rewrite forallb_forall in Hkinds. apply Hkinds. apply nth_error_In with j. exact Ek. }
      rewrite (column_total k (base + off + i) Hk). rewrite R1. unfold spec.
      symmetry. apply krow_gen; [exact Ek|]. unfold column. rewrite map_length. exact (proj2 Hnd).
    - intros j m Hj Hm. unfold covered in Hcov. rewrite forallb_forall in Hcov.
      specialize (Hcov j ltac:(apply in_seq; lia)). rewrite forallb_forall in Hcov.
      specialize (Hcov m ltac:(apply in_seq; lia)). apply existsb_exists in Hcov. destruct Hcov as [x [Hx Hc]].
      apply andb_true_iff in Hc. destruct Hc as [C1 C2]. apply Nat.eqb_eq in C1, C2.
      destruct (Forall2_in_l _ _ _ x HL Hx) as [y [Hy [R1 [R2 _]]]].
      exists y. split; [exact Hy|]. split; [congruence|]. rewrite R2, C2. reflexivity.
  Qed.

  (* ---- all chunks ------------------------------------------------------------------------------------------ *)
  Lemma chunks_ok n : forall s0, Kinv s0 ->
    let st := fold_left (run_chunk p data l) (seq 0 n) (s0, []) in
    Kinv (fst st) /\
    (forall y, In y (snd st) -> exists c, (c < n)%nat /\ good_store (c * step p) y) /\
    (forall c j m, (c < n)%nat -> (j < np)%nat -> (m < step p / w)%nat ->
       exists y, In y (snd st) /\ fst (fst y) = j /\ snd (fst y) = (c * step p + m * w)%nat).
  Proof.
    induction n as [|n IH]; intros s0 HK; cbn zeta.
    - cbn [seq fold_left fst snd]. split; [exact HK|]. split; [intros y []|intros; lia].
    - rewrite seq_S, fold_left_app. cbn [Nat.add fold_left].
      destruct (IH s0 HK) as [H1 [H2 H3]]. cbn zeta in H1, H2, H3.
      set (st := fold_left (run_chunk p data l) (seq 0 n) (s0, [])) in *.
      destruct (chunk_ok n (fst st) (snd st) H1) as [K [g3 [E [G C]]]].
      replace (fst st, snd st) with st in K, E by (destruct st; reflexivity).
      split; [exact K|]. rewrite E. split.
      + intros y Hy. apply in_app_iff in Hy. destruct Hy as [Hy|Hy].
        * exists n. split; [lia|apply G; exact Hy].
        * destruct (H2 y Hy) as [c [Hc Hg]]. exists c. split; [lia|exact Hg].
      + intros c j m Hc Hj Hm. destruct (Nat.eq_dec c n) as [->|Hne].
        * destruct (C j m Hj Hm) as [y [Hy Hy']]. exists y. split; [apply in_app_iff; left; exact Hy|exact Hy'].
        * destruct (H3 c j m ltac:(lia) Hj Hm) as [y [Hy Hy']]. exists y. split; [apply in_app_iff; right; exact Hy|exact Hy'].
  Qed.
  (* ---- the parity buffers after the block loop ----------------------------------------------------------- *)
  Lemma normal_path n s0 old : (0 < step p)%nat -> (step p mod w = 0)%nat ->
    length old = np -> (forall j, (j < np)%nat -> length (nth j old []) = (n * step p)%nat) ->
    apply_log (snd (fold_left (run_chunk p data l) (seq 0 n) (exec_block (mkenv p data l l O) (prologue p) s0))) old
    = spec_blocks M np (n * step p) data.
  Proof.
    intros Hst Hmod Lold Lblk.
    destruct (kinv_prologue s0) as [HK0 N0].
    assert (E0 : exec_block (mkenv p data l l O) (prologue p) s0 = (fst (exec_block (mkenv p data l l O) (prologue p) s0), []))
      by (rewrite <- N0; destruct (exec_block (mkenv p data l l O) (prologue p) s0); reflexivity).
    rewrite E0.
    destruct (chunks_ok n _ HK0) as [_ [G C]]. cbn zeta in G, C.
    set (L := snd (fold_left (run_chunk p data l) (seq 0 n) (fst (exec_block (mkenv p data l l O) (prologue p) s0), []))) in *.
    assert (Hwpos : (0 < w)%nat) by (destruct Hw as [E|E]; rewrite E; lia).
    apply blocks_ext with (n := np) (size := (n * step p)%nat).
    - rewrite apply_len. exact Lold.
    - apply spec_blocks_len.
    - intros j Hj. split; [rewrite apply_len_blk; apply Lblk; exact Hj|]. split.
      + rewrite spec_blocks_nth by exact Hj. rewrite map_length, seq_length. reflexivity.
      + intros x Hx. rewrite spec_blocks_nth by exact Hj.
        rewrite (nth_map_seq (fun x => spec_col M j (column data x)) _ x 0 Hx).
        change (spec_col M j (column data x)) with (spec j x).
        apply (apply_cov spec L old j x).
        * intros y Hy. destruct (G y Hy) as [c [_ [_ [Hlen [off [Hpos [_ Hv]]]]]]].
          intros i Hi. rewrite Hlen in Hi. rewrite Hpos. apply Hv. exact Hi.
        * set (S := step p) in *. set (c := (x / S)%nat). set (r := (x mod S)%nat).
          assert (Hx1 : x = (S * c + r)%nat) by (apply Nat.div_mod; lia).
          assert (Hr : (r < S)%nat) by (apply Nat.mod_upper_bound; lia).
          set (m := (r / w)%nat). set (r' := (r mod w)%nat).
          assert (Hr1 : r = (w * m + r')%nat) by (apply Nat.div_mod; lia).
          assert (Hr' : (r' < w)%nat) by (apply Nat.mod_upper_bound; lia).
          assert (HS : S = (w * (S / w))%nat) by (apply Nat.div_exact; [lia|exact Hmod]).
          assert (Hc : (c < n)%nat) by (apply Nat.div_lt_upper_bound; lia).
          assert (Hm : (m < S / w)%nat) by (apply Nat.div_lt_upper_bound; lia).
          destruct (C c j m Hc Hj Hm) as [y [Hy [Ej Ep]]]. exists y. split; [exact Hy|]. split; [exact Ej|].
          destruct (G y Hy) as [c' [_ [_ [Hlen _]]]]. rewrite Hlen, Ep. lia.
        * rewrite Lold. exact Hj.
        * rewrite (Lblk j Hj). exact Hx.
  Qed.
End Prog.
