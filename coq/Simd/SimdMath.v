(* The arithmetic behind the recurrences: iterating  acc' = a.acc + D_d  (Horner, a = 1, 2, 2^-1) or
   acc' = acc + tab_j[d](D_d)  (table rows) from the last disk down computes the GF(2^8) dot product of the
   column with the closed-form matrix row.  Reuses the Horner lemmas of Raid/GenProofs.v. *)
From Coq Require Import NArith List Bool Arith Lia.
From Snap.Gen Require Import Tables.
From Snap.GF Require Import Gf TablesOk.
From Snap.Raid Require Import GenModel GenProofs.
From Snap.Simd Require Import SimdDefs SimdSem SimdCheck SimdBytes SimdAbs.
Import ListNotations.
Local Open Scope N_scope.

(* ---- the pshufb tables (regenerated Gen.Tables) against the closed form ------------------------------ *)
Definition tab_entry_ok (d j lh m : nat) : bool :=
  tabbyte d j lh m =? gmul (cauchyN (j + 2) d) (if Nat.eqb lh 0 then N.of_nat m else 16 * N.of_nat m).
Lemma tab_all_ok :
  forallb (fun d => forallb (fun j => forallb (fun lh => forallb (fun m => tab_entry_ok d j lh m) (seq 0 16)) (seq 0 2)) (seq 0 4))
          (seq 0 251) = true.
Proof. vm_compute. reflexivity. Qed.
Lemma tabbyte_ok d j lh m : (d < 251)%nat -> (j < 4)%nat -> (lh < 2)%nat -> (m < 16)%nat ->
  tabbyte d j lh m = gmul (cauchyN (j + 2) d) (if Nat.eqb lh 0 then N.of_nat m else 16 * N.of_nat m).
Proof.
  intros Hd Hj Hl Hm. assert (H := tab_all_ok).
  rewrite forallb_forall in H. specialize (H d ltac:(apply in_seq; lia)).
  rewrite forallb_forall in H. specialize (H j ltac:(apply in_seq; lia)).
  rewrite forallb_forall in H. specialize (H lh ltac:(apply in_seq; lia)).
  rewrite forallb_forall in H. specialize (H m ltac:(apply in_seq; lia)).
  apply N.eqb_eq in H. exact H.
Qed.

Definition tmul (d j : nat) (v : N) : N :=
  N.lxor (tabbyte d j 0 (N.to_nat (N.land v 15))) (tabbyte d j 1 (N.to_nat (N.shiftr v 4))).
Lemma tmul_ok d j v : (d < 251)%nat -> (j < 4)%nat -> v < 256 -> tmul d j v = gmul (cauchyN (j + 2) d) v.
Proof.
  intros Hd Hj Hv. unfold tmul.
  destruct (lo4_idx v Hv) as [_ [_ L]]. destruct (hi4_idx v Hv) as [_ [_ R]].
  rewrite !tabbyte_ok by lia. cbn [Nat.eqb]. rewrite !N2Nat.id.
  destruct (nibble_split v Hv) as [E Hh].
  rewrite <- gmul_distr_r; [rewrite <- E; reflexivity|apply matN_range with (m := Cauchy); lia|lia|exact Hh].
Qed.

(* ---- value-level recurrences --------------------------------------------------------------------------- *)
Definition kmul (k : kind) (x : N) : N := match k with KOne => x | KTwo => xtime x | KHalf => dtime x | KTab _ => x end.
Definition kinitv (k : kind) (l : nat) (v : N) : N := match k with KTab j => tmul l j v | _ => v end.
Definition kstepv (k : kind) (d : nat) (acc v : N) : N :=
  match k with KTab j => N.lxor acc (tmul d j v) | _ => N.lxor (kmul k acc) v end.
Definition kfinalv (lo : nat) (k : kind) (acc v : N) : N := match lo with O => acc | _ => N.lxor (kmul k acc) v end.
Definition total (lo : nat) (k : kind) (col : list N) : N :=
  let l := (length col - 1)%nat in
  kfinalv lo k (fold_left (fun a d => kstepv k d a (nth d col 0)) (loop_disks lo l) (kinitv k l (nth l col 0))) (nth 0 col 0).

Definition krow (k : kind) : nat -> N :=
  match k with KOne => c_one | KTwo => c_pow | KHalf => c_ipow | KTab j => cauchyN (j + 2) end.

(* ---- lists of disks -------------------------------------------------------------------------------------- *)
Lemma loop_disks_0 l : (1 <= l)%nat -> loop_disks 0 l = loop_disks 1 l ++ [O].
Proof.
  intros Hl. unfold loop_disks. rewrite Nat.sub_0_r. destruct l as [|l]; [lia|].
  cbn [seq]. cbn [rev]. replace (S l - 1)%nat with l by lia. reflexivity.
Qed.
Lemma rev_col (col : list N) l : length col = S l ->
  rev col = nth l col 0 :: map (fun d => nth d col 0) (loop_disks 0 l).
Proof.
  intros Hl.
  assert (E : col = map (fun d => nth d col 0) (seq 0 (S l))).
  { rewrite <- Hl. clear. induction col as [|x col IH]; [reflexivity|].
    cbn [length seq map nth]. f_equal. rewrite <- seq_shift, map_map. exact IH. }
  rewrite E at 1. rewrite <- map_rev. rewrite seq_S. rewrite rev_app_distr. cbn [rev app map Nat.add].
  unfold loop_disks. rewrite Nat.sub_0_r. reflexivity.
Qed.

(* ---- Horner kinds ------------------------------------------------------------------------------------------ *)
Lemma fold_hstep mulA col ds a :
  fold_left (fun a d => N.lxor (mulA a) (nth d col 0)) ds a = fold_left (hstep mulA) (map (fun d => nth d col 0) ds) a.
Proof. revert a. induction ds as [|d ds IH]; intros a; [reflexivity|]. cbn [fold_left map]. apply IH. Qed.

Lemma total_horner lo mulA (col : list N) l : length col = S l -> (lo = O \/ (lo = 1%nat /\ (1 <= l)%nat)) ->
  match lo with
  | O => fold_left (fun a d => N.lxor (mulA a) (nth d col 0)) (loop_disks lo l) (nth l col 0)
  | _ => N.lxor (mulA (fold_left (fun a d => N.lxor (mulA a) (nth d col 0)) (loop_disks lo l) (nth l col 0))) (nth 0 col 0)
  end = horner mulA col.
Proof.
  intros Hl Hlo. unfold horner. rewrite (rev_col col l Hl).
  destruct Hlo as [->|[-> H1]].
  - apply fold_hstep.
  - rewrite (loop_disks_0 l H1). rewrite map_app, fold_left_app. cbn [map fold_left]. unfold hstep at 1.
    rewrite fold_hstep. reflexivity.
Qed.

(* ---- table kinds ------------------------------------------------------------------------------------------- *)
Definition xsum (f : nat -> N) (l : list nat) : N := fold_right (fun d a => N.lxor (f d) a) 0 l.
Lemma xsum_app f a b : xsum f (a ++ b) = N.lxor (xsum f a) (xsum f b).
Proof.
  unfold xsum. induction a as [|x a IH]; cbn [app fold_right]; [rewrite N.lxor_0_l; reflexivity|].
  rewrite IH, N.lxor_assoc. reflexivity.
Qed.
Lemma xsum_rev f l : xsum f (rev l) = xsum f l.
Proof.
  induction l as [|x l IH]; [reflexivity|]. cbn [rev]. rewrite xsum_app, IH. cbn [xsum fold_right].
  rewrite N.lxor_0_r. apply N.lxor_comm.
Qed.
Lemma fold_xsum f ds a : fold_left (fun a d => N.lxor a (f d)) ds a = N.lxor a (xsum f ds).
Proof.
  revert a. induction ds as [|d ds IH]; intros a; cbn [fold_left xsum fold_right]; [rewrite N.lxor_0_r; reflexivity|].
  rewrite IH. apply N.lxor_assoc.
Qed.
Lemma xsum_map f g l : xsum f (map g l) = xsum (fun i => f (g i)) l.
Proof. induction l as [|x l IH]; [reflexivity|]. cbn [map xsum fold_right]. f_equal. exact IH. Qed.
Lemma xsum_ext f g l : (forall i, f i = g i) -> xsum f l = xsum g l.
Proof. intros H. induction l as [|x l IH]; [reflexivity|]. cbn [xsum fold_right]. rewrite H. f_equal. exact IH. Qed.
Lemma xsum_cons f x l : xsum f (x :: l) = N.lxor (f x) (xsum f l).
Proof. reflexivity. Qed.
Lemma spec_from_xsum c k col :
  spec_from c k col = xsum (fun i => gmul (c (k + i)%nat) (nth i col 0)) (seq 0 (length col)).
Proof.
  revert k. induction col as [|b col IH]; intros k; [reflexivity|].
  rewrite spec_from_cons, IH. cbn [length].
  change (seq 0 (S (length col))) with (O :: seq 1 (length col)). rewrite <- seq_shift.
  rewrite xsum_cons, xsum_map. cbn [nth]. rewrite Nat.add_0_r. f_equal.
  apply xsum_ext. intros i. replace (S k + i)%nat with (k + S i)%nat by lia. reflexivity.
Qed.

Lemma total_tab (col : list N) l j : length col = S l -> (1 <= l)%nat -> (S l <= 251)%nat -> (j < 4)%nat -> bytes col ->
  N.lxor (fold_left (fun a d => N.lxor a (tmul d j (nth d col 0))) (loop_disks 1 l) (tmul l j (nth l col 0))) (nth 0 col 0)
  = spec_from (cauchyN (j + 2)) 0 col.
Proof.
  intros Hl H1 H251 Hj Hb.
  assert (Hn : forall d, nth d col 0 < 256).
  { intros d. destruct (nth_in_or_default d col 0) as [H|H]; [|rewrite H; reflexivity].
    unfold bytes in Hb. rewrite Forall_forall in Hb. apply Hb. exact H. }
  set (f := fun d => gmul (cauchyN (j + 2) d) (nth d col 0)).
  assert (Ef : forall ds a, (forall d, In d ds -> (d < 251)%nat) ->
             fold_left (fun a d => N.lxor a (tmul d j (nth d col 0))) ds a = fold_left (fun a d => N.lxor a (f d)) ds a).
  { intros ds. induction ds as [|d ds IH]; intros a Hd; [reflexivity|]. cbn [fold_left].
    rewrite tmul_ok by (auto; apply Hd; left; reflexivity). apply IH. intros d' Hd'. apply Hd. right. exact Hd'. }
  rewrite Ef.
  2:{ intros d Hd. unfold loop_disks in Hd. apply in_rev in Hd. apply in_seq in Hd. lia. }
  rewrite tmul_ok by (auto; lia). fold (f l). rewrite fold_xsum. unfold loop_disks. rewrite xsum_rev.
  rewrite spec_from_xsum. rewrite Hl. cbn [Nat.add].
  change (fun i => gmul (cauchyN (j + 2) i) (nth i col 0)) with f.
  replace (seq 0 (S l)) with (O :: seq 1 (l - 1) ++ [l]).
  2:{ cbn [seq]. f_equal. replace l with (S (l - 1)) at 3 by lia. rewrite seq_S. f_equal. f_equal. lia. }
  cbn [xsum fold_right]. fold (xsum f (seq 1 (l - 1) ++ [l])). rewrite xsum_app. cbn [xsum fold_right].
  rewrite N.lxor_0_r.
  assert (E0 : f O = nth 0 col 0).
  { unfold f. rewrite cauchy_col0 by lia. apply gmul_1_l. apply Hn. }
  rewrite E0. fold (xsum f (seq 1 (l - 1))).
  rewrite (N.lxor_comm (f l)). apply N.lxor_comm.
Qed.

(* ---- all kinds ---------------------------------------------------------------------------------------------- *)
Theorem total_ok lo k (col : list N) : bytes col -> (1 <= length col <= 251)%nat ->
  (lo = O \/ (lo = 1%nat /\ (2 <= length col)%nat)) -> kind_ok lo k = true ->
  total lo k col = spec_from (krow k) 0 col.
Proof.
  intros Hb Hlen Hlo Hk. unfold total.
  set (l := (length col - 1)%nat). assert (Hl : length col = S l) by (unfold l; lia).
  assert (Hlo' : lo = O \/ (lo = 1%nat /\ (1 <= l)%nat)) by (destruct Hlo as [H|[H H']]; [left; exact H|right; split; [exact H|lia]]).
  destruct k; cbn [kinitv kstepv kfinalv kmul krow].
  - rewrite <- horner_one by exact Hb. rewrite <- (total_horner lo (fun x => x) col l Hl Hlo').
    destruct Hlo' as [->|[-> _]]; reflexivity.
  - rewrite <- horner_pow by exact Hb. rewrite <- (total_horner lo xtime col l Hl Hlo').
    destruct Hlo' as [->|[-> _]]; reflexivity.
  - rewrite <- horner_ipow by exact Hb. rewrite <- (total_horner lo dtime col l Hl Hlo').
    destruct Hlo' as [->|[-> _]]; reflexivity.
  - cbn [kind_ok] in Hk. apply andb_true_iff in Hk. destruct Hk as [Hj Hl1]. apply Nat.ltb_lt in Hj. apply Nat.eqb_eq in Hl1.
    subst lo. destruct Hlo' as [H|[_ H1]]; [discriminate|].
    apply total_tab; try assumption. lia.
Qed.

(* ---- rows of the generator families ---------------------------------------------------------------------- *)
Lemma krow_gen g j k col : nth_error (rows_of_gen g) j = Some k -> (length col <= 251)%nat ->
  spec_col (gen_mat Cauchy g) j col = spec_from (krow k) 0 col.
Proof.
  intros Hk Hl. rewrite spec_col_from.
  assert (R1 : spec_from (cauchyN 1) 0 col = spec_from c_pow 0 col).
  { apply spec_from_ext. intros i Hi. unfold c_pow. apply cauchy_row1. lia. }
  destruct g as [| | |n]; cbn [rows_of_gen gen_mat] in *.
  - destruct j as [|[|j]]; cbn [nth_error] in Hk; inversion Hk; subst; reflexivity.
  - destruct j as [|[|[|j]]]; cbn [nth_error] in Hk; inversion Hk; subst; [reflexivity|exact R1].
  - destruct j as [|[|[|[|j]]]]; cbn [nth_error] in Hk; inversion Hk; subst; reflexivity.
  - assert (Hk' : nth_error all_rows j = Some k).
    { revert Hk. clear. unfold all_rows. generalize [KOne; KTwo; KTab 0; KTab 1; KTab 2; KTab 3]. intros L. revert j L.
      induction n as [|n IH]; intros j L H; [destruct j; discriminate|].
      destruct L as [|x L]; [destruct j; discriminate|]. destruct j; cbn [firstn nth_error] in *; [exact H|]. apply (IH _ _ H). }
    unfold all_rows in Hk'. cbn [matN].
    destruct j as [|[|[|[|[|[|j]]]]]]; cbn [nth_error] in Hk'; inversion Hk'; subst; cbn [krow Nat.add].
    + reflexivity.
    + exact R1.
    + reflexivity.
    + reflexivity.
    + reflexivity.
    + reflexivity.
    + destruct j; discriminate.
Qed.
