(* gen_simd_correct: a program accepted by [checker] computes, under the byte-lane semantics of SimdSem.v, exactly
   the GF(2^8) matrix product with the closed-form matrix -- for every number of disks 1..251, every size that is
   a multiple of the program's step, every content, whatever the registers and the parity buffers held before. *)
From Coq Require Import NArith List Bool Arith Lia.
From Snap.Gen Require Import Tables.
From Snap.GF Require Import Gf TablesOk.
From Snap.Raid Require Import GenModel GenProofs.
From Snap.Simd Require Import SimdDefs SimdSem SimdCheck SimdBytes SimdAbs SimdMath SimdLog SimdLoop.
Import ListNotations.
Local Open Scope N_scope.

Lemma isnil_nil {A} (l : list A) : isnil l = true -> l = [].
Proof. destruct l; [reflexivity|discriminate]. Qed.

Lemma checker_facts g p : checker g p = true ->
  (width p = 16%nat \/ width p = 32%nat) /\ (0 < step p)%nat /\ (step p mod width p = 0)%nat /\ (loop_lo p <= 1)%nat /\
  length (rows_of_gen g) = gen_np g /\ forallb (kind_ok (loop_lo p)) (rows_of_gen g) = true /\
  match nd1_special p with None => loop_lo p = O | Some k => k = length (rows_of_gen g) end /\
  snd (an_pro (analyse p)) = [] /\ snd (an_init (analyse p)) = [] /\ snd (an_body (analyse p)) = [] /\
  forallb (store_ok (width p) (step p) (loop_lo p) (rows_of_gen g) (an_accs (analyse p))) (snd (an_fini (analyse p))) = true /\
  covered (width p) (step p) (length (rows_of_gen g)) (snd (an_fini (analyse p))) = true.
Proof.
  unfold checker. cbv zeta. intros H.
  repeat match type of H with (_ && _)%bool = true => let H' := fresh "C" in apply andb_true_iff in H; destruct H as [H H'] end.
  apply orb_true_iff in H.
  split; [destruct H as [H|H]; apply Nat.eqb_eq in H; auto|].
  split; [apply Nat.ltb_lt; assumption|].
  split; [apply Nat.eqb_eq; assumption|].
  split; [apply Nat.leb_le; assumption|].
  split; [apply Nat.eqb_eq; assumption|].
  split; [assumption|].
  split; [destruct (nd1_special p); apply Nat.eqb_eq; assumption|].
  split; [apply isnil_nil; assumption|].
  split; [apply isnil_nil; assumption|].
  split; [apply isnil_nil; assumption|].
  split; assumption.
Qed.

Definition old_ok (np size : nat) (old : list block) : Prop :=
  length old = np /\ forall j, (j < np)%nat -> length (nth j old []) = size.

Lemma nchunks_mult n S : (0 < S)%nat -> nchunks (n * S) S = n.
Proof.
  intros HS. unfold nchunks. symmetry. apply Nat.div_unique with (r := (S - 1)%nat); lia.
Qed.

(* ---- the memcpy path (one data disk) ----------------------------------------------------------------- *)
Lemma memcpy_len k size src pm : length (memcpy_par k size src pm) = length pm.
Proof.
  revert pm. induction k as [|k IH]; intros pm; [reflexivity|]. destruct pm as [|b t]; [reflexivity|].
  cbn [memcpy_par length]. rewrite IH. reflexivity.
Qed.
Lemma memcpy_nth k size src pm j : (j < k)%nat -> (j < length pm)%nat ->
  nth j (memcpy_par k size src pm) [] = write_at O (fit size src) (nth j pm []).
Proof.
  revert pm j. induction k as [|k IH]; intros pm j Hk Hl; [lia|]. destruct pm as [|b t]; [cbn in Hl; lia|].
  cbn [memcpy_par]. destruct j; cbn [nth]; [reflexivity|]. apply IH; cbn [length] in Hl; lia.
Qed.

Lemma gen_col0 g j : (j < gen_np g)%nat -> length (rows_of_gen g) = gen_np g -> gen_mat Cauchy g j O = 1.
Proof.
  intros Hj Hl. destruct g as [| | |n]; cbn [gen_mat gen_np rows_of_gen] in *.
  - apply cauchy_col0. lia.
  - apply cauchy_col0. lia.
  - apply power_col0.
  - cbn [matN]. apply cauchy_col0. rewrite firstn_length in Hl. unfold all_rows in Hl. cbn [length] in Hl. lia.
Qed.

Lemma nd1_path g size d0 old : length (rows_of_gen g) = gen_np g -> data_ok [d0] -> old_ok (gen_np g) size old ->
  memcpy_par (gen_np g) size d0 old = spec_blocks (gen_mat Cauchy g) (gen_np g) size [d0].
Proof.
  intros Hl Hd [Lold Lblk].
  apply blocks_ext with (n := gen_np g) (size := size).
  - rewrite memcpy_len. exact Lold.
  - apply spec_blocks_len.
  - intros j Hj. rewrite memcpy_nth by (rewrite ?Lold; exact Hj). split; [rewrite write_at_length; apply Lblk; exact Hj|].
    split; [rewrite spec_blocks_nth by exact Hj; rewrite map_length, seq_length; reflexivity|].
    intros x Hx. rewrite spec_blocks_nth by exact Hj.
    rewrite (nth_map_seq (fun x => spec_col (gen_mat Cauchy g) j (column [d0] x)) _ x 0 Hx).
    rewrite nth_write_at. rewrite fit_length, (Lblk j Hj).
    match goal with |- context [if ?c then _ else _] =>
      replace c with true
        by (symmetry; rewrite !andb_true_iff; repeat split; try (apply Nat.leb_le; lia); try (apply Nat.ltb_lt; lia)) end.
    rewrite Nat.sub_0_r. rewrite nth_fit by exact Hx.
    assert (Hb : nth x d0 0 < 256).
    { apply bytes_nth. unfold data_ok in Hd. inversion Hd. assumption. }
    rewrite b8_id by exact Hb.
    unfold column, spec_col, indexed, indexed_from. cbn [map length seq combine fold_right fst snd].
    rewrite (gen_col0 g j Hj Hl). rewrite gmul_1_l by exact Hb. rewrite N.lxor_0_r. reflexivity.
Qed.

(* ---- the theorem --------------------------------------------------------------------------------------- *)
Theorem prog_correct g p : checker g p = true ->
  forall (data : list block) (size : nat) (s0 : regs) (old : list block),
  (1 <= length data <= 251)%nat -> data_ok data -> (exists n, size = (n * step p)%nat) -> old_ok (gen_np g) size old ->
  exec_prog p data size s0 old = spec_blocks (gen_mat Cauchy g) (gen_np g) size data.
Proof.
  intros Hc data size s0 old Hnd Hdata [n Hsize] Hold.
  destruct (checker_facts g p Hc) as [Fw [Fst [Fmod [Flo [Fnp [Fk [Fnd1 [Fp [Fi [Fb [Fs Fcov]]]]]]]]]]].
  assert (Normal : (loop_lo p = O \/ (loop_lo p = 1%nat /\ (2 <= length data)%nat)) ->
            apply_log (snd (fold_left (run_chunk p data (length data - 1)) (seq 0 (nchunks size (step p)))
                                      (exec_block (mkenv p data (length data - 1) (length data - 1) O) (prologue p) s0))) old
            = spec_blocks (gen_mat Cauchy g) (gen_np g) size data).
  { intros Hlo. subst size. rewrite nchunks_mult by exact Fst. rewrite <- Fnp.
    destruct Hold as [Lold Lblk]. rewrite <- Fnp in Lold, Lblk.
    exact (normal_path g p data Fw Hnd Hdata Hlo Fk Fp Fi Fb Fs Fcov n s0 old Fst Fmod Lold Lblk). }
  unfold exec_prog. destruct (nd1_special p) as [k|] eqn:E1.
  - destruct (length data - 1)%nat as [|l'] eqn:El.
    + subst k. rewrite Fnp.
      destruct data as [|d0 [|d1 data']]; cbn [length] in *; try lia. cbn [nth].
      apply nd1_path; assumption.
    + apply Normal. destruct (loop_lo p) as [|[|lo']]; [left; reflexivity|right; split; [reflexivity|lia]|lia].
  - destruct (length data - 1)%nat; apply Normal; left; exact Fnd1.
Qed.

(* non-vacuity: the checker accepts a hand-written two-block xor program, and the theorem applies to it *)
Definition demo_prog : prog :=
  {| width := 16; step := 32; prologue := [];
     chunk_init := [Mov (Reg 0) (MemData Last 0); Mov (Reg 1) (MemData Last 16)];
     loop_lo := 0;
     loop_body := [Bin OXor (Reg 0) (Reg 0) (MemData Cur 0); Bin OXor (Reg 1) (Reg 1) (MemData Cur 16)];
     chunk_mid := []; chunk_fini := [Store (MemPar 0 0) (Reg 0); Store (MemPar 0 16) (Reg 1)];
     nd1_special := None |}.
Lemma demo_checked : checker G1 demo_prog = true.
Proof. vm_compute. reflexivity. Qed.
(* and it rejects the same program with the two stores swapped *)
Definition demo_bad : prog :=
  {| width := 16; step := 32; prologue := [];
     chunk_init := [Mov (Reg 0) (MemData Last 0); Mov (Reg 1) (MemData Last 16)];
     loop_lo := 0;
     loop_body := [Bin OXor (Reg 0) (Reg 0) (MemData Cur 0); Bin OXor (Reg 1) (Reg 1) (MemData Cur 16)];
     chunk_mid := []; chunk_fini := [Store (MemPar 0 0) (Reg 1); Store (MemPar 0 16) (Reg 0)];
     nd1_special := None |}.
Lemma demo_bad_rejected : checker G1 demo_bad = false.
Proof. vm_compute. reflexivity. Qed.
