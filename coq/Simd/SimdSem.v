(* Byte-lane semantics of the SIMD programs (SimdDefs.prog).  Definitions only: this file is extracted and the
   interpreter [exec_prog] is run against the real functions on every check (harness/py/c02_simd.py), which
   validates translator + semantics against the silicon.

   A register is a vector of [width] bytes, lane 0 = lowest address / least significant.  A vector is a list;
   whatever list is found in a register is read through [fit w] (truncate / pad with 0, every lane reduced to
   8 bits), so every operation is total and no well-formedness invariant is needed.
   All instructions are lane-local except
     - psrlw/psllw $k: 16-bit lanes, lane 2m is the low byte of word m;
     - pshufb: within each 16-byte half, result lane i = 0 if bit 7 of the index byte is set, otherwise
       table byte (index & 15) of the same half;
     - vbroadcasti128: the 16 bytes at the address in both halves.
   Memory: data blocks as lists (byte x of disk d = nth x (nth d data []) 0), tables from the REGENERATED
   Gen.Tables, parity buffers as lists that the stores overwrite in place ([write_at] never extends a list). *)
From Coq Require Import NArith List Bool Arith.
From Snap.Gen Require Import Tables.
From Snap.Raid Require Import GenModel.
From Snap.Simd Require Import SimdDefs.
Import ListNotations.
Local Open Scope N_scope.

Definition vec := list N.
Definition b8 (x : N) : N := N.land x 255.

Fixpoint fit (w : nat) (v : vec) : vec :=
  match w with
  | O => []
  | S w' => match v with [] => 0 :: fit w' [] | x :: t => b8 x :: fit w' t end
  end.

Fixpoint map2 (f : N -> N -> N) (a b : vec) : vec :=
  match a, b with x :: a', y :: b' => f x y :: map2 f a' b' | _, _ => [] end.

(* --- byte operations ------------------------------------------------------------------------------- *)
Definition badd (x y : N) : N := b8 (x + y).
(* signed comparison x > y of two's complement bytes: flip the sign bit and compare unsigned *)
Definition bcmpgt (x y : N) : N := if N.ltb (N.lxor y 128) (N.lxor x 128) then 255 else 0.
Definition bin_byte (o : binop) : N -> N -> N :=
  match o with OXor => N.lxor | OAnd => N.land | OAddB => badd | OCmpGtB => bcmpgt | OPshufb => fun x _ => x end.

(* 16-bit lane shifts seen from one byte: x = this byte, y = the other byte of the word,
   ev = this byte is the low one *)
Definition srl_byte (k x y : N) (ev : bool) : N :=
  if ev then b8 (N.shiftr (x + 256 * y) k) else b8 (N.shiftr (N.shiftr (y + 256 * x) k) 8).
Definition sll_byte (k x y : N) (ev : bool) : N :=
  if ev then b8 (N.shiftl (x + 256 * y) k) else b8 (N.shiftr (N.land (N.shiftl (y + 256 * x) k) 65535) 8).
Definition partner (i : nat) : nat := if Nat.even i then S i else Nat.pred i.

(* --- vector operations (arguments already fitted to w) ---------------------------------------------- *)
Definition vshift (f : N -> N -> bool -> N) (w : nat) (v : vec) : vec :=
  map (fun i => f (nth i v 0) (nth (partner i) v 0) (Nat.even i)) (seq 0 w).
Definition shuf_byte (tv : vec) (i : nat) (x : N) : N :=
  if N.testbit x 7 then 0 else nth (16 * (i / 16) + N.to_nat (N.land x 15)) tv 0.
Definition vpshufb (w : nat) (tv xv : vec) : vec :=
  map (fun p => shuf_byte tv (fst p) (snd p)) (combine (seq 0 w) xv).
Definition vbcast (w : nat) (v16 : vec) : vec := map (fun i => nth (i mod 16) v16 0) (seq 0 w).
Definition vbin (w : nat) (o : binop) (a b : vec) : vec :=
  match o with OPshufb => vpshufb w a b | _ => map2 (bin_byte o) a b end.

(* --- state ------------------------------------------------------------------------------------------- *)
Definition regs := list vec.
Definition get (s : regs) (r : nat) : vec := nth r s [].
Fixpoint upd (r : nat) (v : vec) (s : regs) : regs :=
  match r, s with
  | O, [] => [v]
  | O, _ :: t => v :: t
  | S r', [] => [] :: upd r' v []
  | S r', h :: t => h :: upd r' v t
  end.
Definition scratch_base : nat := 16.

Fixpoint write_at (pos : nat) (v l : list N) : list N :=
  match l with
  | [] => []
  | x :: t => match pos with
              | S p => x :: write_at p v t
              | O => match v with [] => l | y :: v' => y :: write_at O v' t end
              end
  end.
Fixpoint write_par (pm : list block) (j pos : nat) (v : vec) : list block :=
  match pm with
  | [] => []
  | b :: t => match j with O => write_at pos v b :: t | S j' => b :: write_par t j' pos v end
  end.

Record env := { e_w : nat; e_data : list block; e_l : nat; e_d : nat; e_base : nat }.
Definition disk_of (e : env) (r : dref) : nat := match r with Cur => e_d e | Last => e_l e | First => O end.
Definition tab_row (t : tbl) (disk : nat) : list N := match t with TGen => nth disk gfcauchypshufb_rows [] end.

(* A store is logged (parity index, absolute byte position, vector), newest first; the parity buffers are
   never read by these programs, so applying the log to the buffers at the end is exact. *)
Definition wlog := list (nat * nat * vec).
Definition state := (regs * wlog)%type.

(* the bytes at a memory operand, as far as wanted (n = 16 for vbroadcasti128, else the register width) *)
Definition rd_mem (e : env) (n : nat) (o : operand) : vec :=
  match o with
  | MemData r off => fit n (skipn (e_base e + off) (nth (disk_of e r) (e_data e) []))
  | MemTab t r j lh => fit n (skipn (32 * j + 16 * lh) (tab_row t (disk_of e r)))
  | MemConst bs => fit n bs
  | _ => fit n []
  end.
Definition rd_op (e : env) (s : regs) (o : operand) : vec :=
  match o with
  | Reg n => fit (e_w e) (get s n)
  | MemScratch k => fit (e_w e) (get s (scratch_base + k))
  | _ => rd_mem e (e_w e) o
  end.
Definition wr_op (e : env) (st : state) (o : operand) (v : vec) : state :=
  match o with
  | Reg n => (upd n v (fst st), snd st)
  | MemScratch k => (upd (scratch_base + k) v (fst st), snd st)
  | MemPar j off => (fst st, (j, (e_base e + off)%nat, v) :: snd st)
  | _ => st
  end.

Definition instr_val (e : env) (s : regs) (i : instr) : vec :=
  let w := e_w e in
  match i with
  | Mov d a => rd_op e s a
  | Store d a => rd_op e s a
  | Bcast128 d a => vbcast w (rd_mem e 16 a)
  | Bin o d a b => vbin w o (rd_op e s a) (rd_op e s b)
  | SrlW k d a => vshift (srl_byte k) w (rd_op e s a)
  | SllW k d a => vshift (sll_byte k) w (rd_op e s a)
  end.
Definition instr_dst (i : instr) : operand :=
  match i with Mov d _ | Store d _ | Bcast128 d _ | Bin _ d _ _ | SrlW _ d _ | SllW _ d _ => d end.
Definition exec_instr (e : env) (st : state) (i : instr) : state := wr_op e st (instr_dst i) (instr_val e (fst st) i).
(* a block starts with an empty log: the result is (registers, stores of this block) *)
Definition exec_block (e : env) (b : list instr) (s : regs) : state := fold_left (exec_instr e) b (s, []).

Definition mkenv (p : prog) (data : list block) (l d base : nat) : env :=
  {| e_w := width p; e_data := data; e_l := l; e_d := d; e_base := base |}.

(* the disks visited by `for (d = l - 1; d >= lo; --d)` *)
Definition loop_disks (lo l : nat) : list nat := rev (seq lo (l - lo)).

Definition loop_step (p : prog) (data : list block) (l base : nat) (st : state) (d : nat) : state :=
  let r := exec_block (mkenv p data l d base) (loop_body p) (fst st) in (fst r, snd r ++ snd st).

Definition run_chunk (p : prog) (data : list block) (l : nat) (st : state) (c : nat) : state :=
  let base := (c * step p)%nat in
  let st1 := exec_block (mkenv p data l l base) (chunk_init p) (fst st) in
  let st2 := fold_left (loop_step p data l base) (loop_disks (loop_lo p) l) st1 in
  let st3 := exec_block (mkenv p data l O base) (chunk_mid p ++ chunk_fini p) (fst st2) in
  (fst st3, snd st3 ++ snd st2 ++ snd st).

Definition nchunks (size stp : nat) : nat := ((size + stp - 1) / stp)%nat.

Definition apply_log (g : wlog) (pm : list block) : list block :=
  fold_right (fun x pm => write_par pm (fst (fst x)) (snd (fst x)) (snd x)) pm g.

Fixpoint memcpy_par (k size : nat) (src : list N) (pm : list block) : list block :=
  match k, pm with
  | S k', b :: t => write_at O (fit size src) b :: memcpy_par k' size src t
  | _, _ => pm
  end.

(* s0 = register contents on entry (arbitrary), old = the np parity buffers before the call *)
Definition exec_prog (p : prog) (data : list block) (size : nat) (s0 : regs) (old : list block) : list block :=
  let l := (length data - 1)%nat in
  match nd1_special p, l with
  | Some k, O => memcpy_par k size (nth O data []) old
  | _, _ =>
      let st0 := exec_block (mkenv p data l l O) (prologue p) s0 in
      apply_log (snd (fold_left (run_chunk p data l) (seq 0 (nchunks size (step p))) st0)) old
  end.

