(* C17 -- lemmas about split addressing, read/write on split files (SplitModel.v). stdlib style. *)
From Coq Require Import NArith ZArith List Bool Lia Arith.
From Snap.Split Require Import SplitModel.
Import ListNotations.
Local Open Scope N_scope.

Fixpoint sum (l : list N) : N := match l with [] => 0 | x :: r => x + sum r end.

Lemma sum_app a b : sum (a ++ b) = sum a + sum b.
Proof. induction a as [|x a IH]; cbn [sum app]; [reflexivity|rewrite IH; lia]. Qed.

Definition prefix (sizes : list N) (k : nat) : N := sum (firstn k sizes).

Lemma prefix_S sizes k : (k < length sizes)%nat -> prefix sizes (S k) = prefix sizes k + nth k sizes 0.
Proof.
  unfold prefix. revert k. induction sizes as [|x r IH]; intros k Hk; cbn [length] in Hk; [lia|].
  destruct k as [|k].
  - cbn [firstn sum nth]. lia.
  - specialize (IH k ltac:(lia)). change (firstn (S (S k)) (x :: r)) with (x :: firstn (S k) r).
    change (firstn (S k) (x :: r)) with (x :: firstn k r). cbn [sum nth]. lia.
Qed.

Lemma prefix_mono sizes a b : (a <= b)%nat -> prefix sizes a <= prefix sizes b.
Proof.
  unfold prefix. revert a b. induction sizes as [|x r IH]; intros a b Hab.
  - rewrite !firstn_nil. lia.
  - destruct a as [|a]; destruct b as [|b]; cbn [firstn sum]; try lia.
    specialize (IH a b ltac:(lia)). lia.
Qed.

Lemma prefix_all sizes k : (length sizes <= k)%nat -> prefix sizes k = sum sizes.
Proof. intros H. unfold prefix. rewrite firstn_all2 by exact H. reflexivity. Qed.

(* ---------------------------------------------------------------------------------------------- *)
(* parity_split_find *)

Lemma split_find_from_in : forall sizes s off, off < sum sizes ->
  exists k o, split_find_from s sizes off = (Some (s + k)%nat, o) /\ (k < length sizes)%nat /\
              o < nth k sizes 0 /\ prefix sizes k + o = off.
Proof.
  induction sizes as [|x r IH]; intros s off H; cbn [sum] in H; [lia|].
  cbn [split_find_from]. destruct (N.ltb_spec off x) as [Hlt|Hge].
  - exists O, off. rewrite Nat.add_0_r. cbn [length nth]. unfold prefix. cbn [firstn sum].
    repeat split; try lia.
  - destruct (IH (S s) (off - x) ltac:(lia)) as [k [o [E [Hk [Ho Hp]]]]].
    exists (S k), o. rewrite E. replace (S s + k)%nat with (s + S k)%nat by lia.
    cbn [length nth]. unfold prefix in *. cbn [firstn sum]. repeat split; try lia.
Qed.

Lemma split_find_from_out : forall sizes s off, sum sizes <= off ->
  split_find_from s sizes off = (None, off - sum sizes).
Proof.
  induction sizes as [|x r IH]; intros s off H; cbn [sum] in *; cbn [split_find_from].
  - rewrite N.sub_0_r. reflexivity.
  - destruct (N.ltb_spec off x) as [Hlt|Hge]; [lia|]. rewrite IH by lia. f_equal. lia.
Qed.

Lemma split_find_from_at : forall sizes s k o, (k < length sizes)%nat -> o < nth k sizes 0 ->
  split_find_from s sizes (prefix sizes k + o) = (Some (s + k)%nat, o).
Proof.
  induction sizes as [|x r IH]; intros s k o Hk Ho; cbn [length] in Hk; [lia|].
  cbn [split_find_from]. destruct k as [|k].
  - unfold prefix. cbn [firstn sum nth] in *. rewrite N.add_0_l.
    destruct (N.ltb_spec o x); [|lia]. rewrite Nat.add_0_r. reflexivity.
  - unfold prefix in *. cbn [firstn sum nth] in *.
    destruct (N.ltb_spec (x + sum (firstn k r) + o) x) as [Hlt|Hge]; [lia|].
    replace (x + sum (firstn k r) + o - x) with (sum (firstn k r) + o) by lia.
    rewrite IH by (try lia; exact Ho). f_equal. f_equal. lia.
Qed.

(* the statement of C17 about the address map *)
Definition in_range (sizes : list N) (so : nat * N) : Prop :=
  (fst so < length sizes)%nat /\ snd so < nth (fst so) sizes 0.

Lemma split_find_bijection : forall sizes,
  (* total on [0, sum): lands inside a split, offset reconstruction *)
  (forall off, off < sum sizes ->
     exists s o, split_find sizes off = Some (s, o) /\ in_range sizes (s, o) /\ prefix sizes s + o = off) /\
  (* nothing else is mapped *)
  (forall off, sum sizes <= off -> split_find sizes off = None) /\
  (* onto: every (split, offset below its size) is hit, by the reconstructed offset *)
  (forall s o, in_range sizes (s, o) ->
     prefix sizes s + o < sum sizes /\ split_find sizes (prefix sizes s + o) = Some (s, o)) /\
  (* one-to-one *)
  (forall off1 off2 r, split_find sizes off1 = Some r -> split_find sizes off2 = Some r -> off1 = off2) /\
  (* monotone: lexicographic order of (split, offset) *)
  (forall off1 off2 s1 o1 s2 o2, off1 <= off2 ->
     split_find sizes off1 = Some (s1, o1) -> split_find sizes off2 = Some (s2, o2) ->
     (s1 < s2)%nat \/ (s1 = s2 /\ o1 <= o2)).
Proof.
  intros sizes.
  assert (Fwd : forall off s o, split_find sizes off = Some (s, o) ->
                 off < sum sizes /\ in_range sizes (s, o) /\ prefix sizes s + o = off).
  { intros off s o H. unfold split_find, split_find_raw in H.
    destruct (N.lt_ge_cases off (sum sizes)) as [Hlt|Hge].
    - destruct (split_find_from_in sizes 0 off Hlt) as [k [o' [E [Hk [Ho Hp]]]]].
      rewrite E in H. cbn [Nat.add] in H. injection H as <- <-. unfold in_range; cbn [fst snd]. auto.
    - rewrite split_find_from_out in H by exact Hge. discriminate. }
  repeat split.
  - intros off Hlt. unfold split_find, split_find_raw.
    destruct (split_find_from_in sizes 0 off Hlt) as [k [o [E [Hk [Ho Hp]]]]].
    exists k, o. rewrite E. cbn [Nat.add]. unfold in_range; cbn [fst snd]. auto.
  - intros off Hge. unfold split_find, split_find_raw. rewrite split_find_from_out by exact Hge. reflexivity.
  - destruct H as [Hk Ho]; cbn [fst snd] in *.
    pose proof (prefix_S sizes s Hk). pose proof (prefix_mono sizes (S s) (length sizes) ltac:(lia)).
    rewrite (prefix_all sizes (length sizes)) in H0 by lia. lia.
  - destruct H as [Hk Ho]; cbn [fst snd] in *. unfold split_find, split_find_raw.
    rewrite split_find_from_at by assumption. reflexivity.
  - intros off1 off2 [s o] H1 H2. apply Fwd in H1. apply Fwd in H2. lia.
  - intros off1 off2 s1 o1 s2 o2 Hle H1 H2.
    apply Fwd in H1. apply Fwd in H2. destruct H1 as [_ [[Hk1 Ho1] Hp1]]. destruct H2 as [_ [[Hk2 Ho2] Hp2]].
    cbn [fst snd] in *.
    destruct (Nat.lt_trichotomy s1 s2) as [Hl|[He|Hg]]; [left; exact Hl|right|exfalso].
    + subst s2. split; [reflexivity|lia].
    + pose proof (prefix_S sizes s2 Hk2). pose proof (prefix_mono sizes (S s2) s1 ltac:(lia)). lia.
Qed.

(* past the end the residual offset is what remains after all the splits (the "extra offset" message);
   a negative offset is refused untouched *)
Lemma split_find_raw_out sizes off : sum sizes <= off -> split_find_raw sizes off = (None, off - sum sizes).
Proof. apply split_find_from_out. Qed.

Lemma split_find_z_neg sizes p : split_find_z sizes (Zneg p) = (None, Zneg p).
Proof. reflexivity. Qed.

(* ---------------------------------------------------------------------------------------------- *)
(* no stripe straddles two files *)
Definition aligned (bs : N) (sizes : list N) : Prop := Forall (fun x => (bs | x)) sizes.

Lemma prefix_divide bs sizes k : aligned bs sizes -> (bs | prefix sizes k).
Proof.
  unfold prefix. intros H. revert k. induction H as [|x r Hx Hr IH]; intros k.
  - rewrite firstn_nil. apply N.divide_0_r.
  - destruct k as [|k]; cbn [firstn sum]; [apply N.divide_0_r|]. apply N.divide_add_r; [exact Hx|apply IH].
Qed.

Lemma aligned_nth bs sizes k : aligned bs sizes -> (bs | nth k sizes 0).
Proof.
  intros H. revert k. induction H as [|x r Hx Hr IH]; intros k.
  - destruct k; apply N.divide_0_r.
  - destruct k as [|k]; cbn [nth]; [exact Hx|apply IH].
Qed.

Lemma no_straddle : forall bs sizes pos s o, 0 < bs -> aligned bs sizes ->
  parity_addr sizes bs pos = Some (s, o) ->
  (bs | o) /\ o + bs <= nth s sizes 0.
Proof.
  intros bs sizes pos s o Hbs Hal H. unfold parity_addr, block_off in H.
  destruct (split_find_bijection sizes) as [T [Out _]].
  destruct (N.lt_ge_cases (pos * bs) (sum sizes)) as [Hlt|Hge]; [|rewrite Out in H by exact Hge; discriminate].
  destruct (T _ Hlt) as [s' [o' [E [[Hk Ho] Hp]]]]. rewrite E in H. injection H as -> ->.
  cbn [fst snd] in *.
  destruct (prefix_divide bs sizes s Hal) as [a Ha]. destruct (aligned_nth bs sizes s Hal) as [b Hb].
  rewrite Ha in Hp. rewrite Hb in Ho.
  assert (Ho' : o = (pos - a) * bs) by (rewrite N.mul_sub_distr_r; lia).
  split; [exists (pos - a); exact Ho'|]. rewrite Hb. rewrite Ho' in *.
  assert (pos - a < b) by nia.
  replace ((pos - a) * bs + bs) with ((pos - a + 1) * bs) by lia.
  apply N.mul_le_mono_r. lia.
Qed.

(* pos*bs cannot wrap in the int64 product for the C types (pos: uint32, block_size: unsigned < 2^31) *)
Lemma block_off_no_wrap bs pos : pos < 2^32 -> bs < 2^31 -> block_off bs pos < 2^63.
Proof. unfold block_off. intros. change (2^63) with (2^32 * 2^31). nia. Qed.

(* ---------------------------------------------------------------------------------------------- *)
(* files: pwrite / pread through nth with default 0 (a hole reads as zero) *)

Lemma nth_app_pad (f : file) n i : nth i (f ++ repeat 0 n) 0 = nth i f 0.
Proof.
  destruct (Nat.lt_ge_cases i (length f)) as [H|H].
  - apply app_nth1. exact H.
  - rewrite app_nth2 by exact H. rewrite (nth_overflow f) by exact H.
    destruct (Nat.lt_ge_cases (i - length f) n) as [H2|H2].
    + apply nth_repeat.
    + apply nth_overflow. rewrite repeat_length. exact H2.
Qed.

Lemma length_pwrite f o d : length (pwrite f o d) = Nat.max (length f) (o + length d).
Proof.
  unfold pwrite. rewrite !app_length, firstn_length, app_length, repeat_length, skipn_length. lia.
Qed.

Lemma nth_firstn_lt {A} (l : list A) n i d : (i < n)%nat -> nth i (firstn n l) d = nth i l d.
Proof.
  revert n i. induction l as [|x l IH]; intros n i H.
  - rewrite firstn_nil. reflexivity.
  - destruct n as [|n]; [lia|]. destruct i as [|i]; cbn [firstn nth]; [reflexivity|]. apply IH. lia.
Qed.

Lemma nth_skipn {A} (l : list A) n i d : nth i (skipn n l) d = nth (n + i) l d.
Proof.
  revert n. induction l as [|x l IH]; intros n.
  - rewrite skipn_nil. destruct i, n; reflexivity.
  - destruct n as [|n]; cbn [skipn Nat.add nth]; [reflexivity|]. apply IH.
Qed.

Lemma nth_pwrite f o d i :
  nth i (pwrite f o d) 0 =
  if (i <? o)%nat then nth i f 0 else if (i <? o + length d)%nat then nth (i - o) d 0 else nth i f 0.
Proof.
  unfold pwrite.
  assert (L : length (firstn o (f ++ repeat 0 (o - length f))) = o).
  { rewrite firstn_length, app_length, repeat_length. lia. }
  destruct (Nat.ltb_spec i o) as [H1|H1].
  - rewrite app_nth1 by lia. rewrite nth_firstn_lt by exact H1. apply nth_app_pad.
  - rewrite app_nth2 by lia. rewrite L.
    destruct (Nat.ltb_spec i (o + length d)) as [H2|H2].
    + apply app_nth1. lia.
    + rewrite app_nth2 by lia. rewrite nth_skipn. f_equal. lia.
Qed.

Lemma pread_spec f o n b : pread f o n = Some b <->
  ((o + n <= length f)%nat /\ length b = n /\ forall j, (j < n)%nat -> nth j b 0 = nth (o + j) f 0).
Proof.
  unfold pread. destruct (Nat.leb_spec (o + n) (length f)) as [H|H].
  - split.
    + intros E. injection E as <-. split; [exact H|]. split.
      * rewrite firstn_length, skipn_length. lia.
      * intros j Hj. rewrite nth_firstn_lt by exact Hj. apply nth_skipn.
    + intros [_ [Hl Hn]]. f_equal. apply (nth_ext _ _ 0 0).
      * rewrite firstn_length, skipn_length. lia.
      * intros j Hj. rewrite firstn_length, skipn_length in Hj.
        rewrite nth_firstn_lt by lia. rewrite nth_skipn. symmetry. apply Hn. lia.
  - split; [discriminate|]. intros [H' _]. lia.
Qed.

Lemma pread_pwrite_same f o d : pread (pwrite f o d) o (length d) = Some d.
Proof.
  apply pread_spec. rewrite length_pwrite. split; [lia|]. split; [reflexivity|].
  intros j Hj. rewrite nth_pwrite.
  destruct (Nat.ltb_spec (o + j) o); [lia|]. destruct (Nat.ltb_spec (o + j) (o + length d)); [|lia].
  f_equal. lia.
Qed.

Lemma pread_pwrite_other f o d o' n b :
  (o' + n <= o \/ o + length d <= o')%nat -> pread f o' n = Some b -> pread (pwrite f o d) o' n = Some b.
Proof.
  intros Hd H. apply pread_spec in H. destruct H as [H1 [H2 H3]]. apply pread_spec.
  rewrite length_pwrite. split; [lia|]. split; [exact H2|].
  intros j Hj. rewrite nth_pwrite, (H3 j Hj).
  destruct (Nat.ltb_spec (o' + j) o); [reflexivity|].
  destruct (Nat.ltb_spec (o' + j) (o + length d)); [lia|reflexivity].
Qed.

(* upd *)
Lemma nth_error_upd_same {A} (g : A -> A) : forall l s x, nth_error l s = Some x -> nth_error (upd s g l) s = Some (g x).
Proof.
  induction l as [|y l IH]; intros s x H; destruct s as [|s]; cbn in *; try discriminate.
  - injection H as ->. reflexivity.
  - apply IH. exact H.
Qed.

Lemma nth_error_upd_other {A} (g : A -> A) : forall l s t, s <> t -> nth_error (upd s g l) t = nth_error l t.
Proof.
  induction l as [|y l IH]; intros s t H; destruct s as [|s]; destruct t as [|t]; cbn; try reflexivity; try lia.
  apply IH. lia.
Qed.

Lemma map_upd_inv {A B} (f : A -> B) (g : A -> A) : (forall x, f (g x) = f x) ->
  forall l s, map f (upd s g l) = map f l.
Proof.
  intros Hg. induction l as [|y l IH]; intros s; destruct s as [|s]; cbn; try reflexivity.
  - rewrite Hg. reflexivity.
  - rewrite IH. reflexivity.
Qed.

Lemma nth_sizes_of ps s p : nth_error ps s = Some p -> nth s (sizes_of ps) 0 = p_size p.
Proof.
  unfold sizes_of. revert s. induction ps as [|q ps IH]; intros s H; destruct s as [|s]; cbn in *; try discriminate.
  - injection H as ->. reflexivity.
  - apply IH. exact H.
Qed.

Lemma nth_error_sizes_of ps s : (s < length (sizes_of ps))%nat -> exists p, nth_error ps s = Some p.
Proof.
  unfold sizes_of. rewrite map_length. intros H. destruct (nth_error ps s) eqn:E; [eauto|].
  apply nth_error_None in E. lia.
Qed.

(* what is written at a position is read back from that position; a block that could be read at another
   position is still read there, unchanged.  No hypothesis on sizes or alignment: the map alone decides. *)
Lemma read_after_write : forall bs ps pos blk ps', 0 < bs ->
  length blk = N.to_nat bs ->
  parity_write bs ps pos blk = Some ps' ->
  sizes_of ps' = sizes_of ps /\
  parity_read bs ps' pos = Some blk /\
  (forall pos' b, pos' <> pos -> parity_read bs ps pos' = Some b -> parity_read bs ps' pos' = Some b).
Proof.
  intros bs ps pos blk ps' Hbs Hlen H. unfold parity_write in H.
  destruct (split_find (sizes_of ps) (block_off bs pos)) as [[s o]|] eqn:E; [|discriminate].
  injection H as <-.
  set (g := fun p => {| p_size := p_size p;
                        p_valid := if p_valid p <? o + bs then o + bs else p_valid p;
                        p_file := pwrite (p_file p) (N.to_nat o) blk |}).
  assert (Hs : sizes_of (upd s g ps) = sizes_of ps) by (apply map_upd_inv; reflexivity).
  destruct (split_find_bijection (sizes_of ps)) as [T [Out [_ [_ _]]]].
  assert (Fwd : forall off s o, split_find (sizes_of ps) off = Some (s, o) ->
                 off < sum (sizes_of ps) /\ in_range (sizes_of ps) (s, o) /\ prefix (sizes_of ps) s + o = off).
  { intros off s0 o0 H0. destruct (N.lt_ge_cases off (sum (sizes_of ps))) as [Hlt|Hge].
    - destruct (T _ Hlt) as [s1 [o1 [E1 [R1 P1]]]]. rewrite E1 in H0. injection H0 as <- <-. auto.
    - rewrite Out in H0 by exact Hge. discriminate. }
  destruct (Fwd _ _ _ E) as [_ [[Hk _] Hp]]. cbn [fst snd] in *.
  destruct (nth_error_sizes_of ps s Hk) as [p Hp0].
  split; [exact Hs|]. split.
  - unfold parity_read. rewrite Hs, E. rewrite (nth_error_upd_same g ps s p Hp0). cbn [g p_valid p_file].
    assert (V : (if p_valid p <? o + bs then o + bs else p_valid p) <=? o = false).
    { destruct (N.ltb_spec (p_valid p) (o + bs)); apply N.leb_gt; lia. }
    rewrite V. rewrite <- Hlen. apply pread_pwrite_same.
  - intros pos' b Hne Hr. unfold parity_read in *. rewrite Hs.
    destruct (split_find (sizes_of ps) (block_off bs pos')) as [[s' o']|] eqn:E'; [|discriminate].
    destruct (Nat.eq_dec s s') as [<-|Hss].
    + rewrite (nth_error_upd_same g ps s p Hp0). rewrite Hp0 in Hr. cbn [g p_valid p_file].
      destruct (N.leb_spec (p_valid p) o') as [|Hv]; [discriminate|].
      assert (V : (if p_valid p <? o + bs then o + bs else p_valid p) <=? o' = false).
      { destruct (N.ltb_spec (p_valid p) (o + bs)); apply N.leb_gt; lia. }
      rewrite V. apply pread_pwrite_other; [|exact Hr].
      destruct (Fwd _ _ _ E') as [_ [_ Hp']]. cbn [fst snd] in *. unfold block_off in *.
      rewrite Hlen. assert (pos' < pos \/ pos < pos') by lia. nia.
    + rewrite nth_error_upd_other by exact Hss. exact Hr.
Qed.
