(* C17 -- parity_chsize: what the resize of a split parity does to the recorded sizes. *)
From Coq Require Import NArith List Bool Lia Arith.
From Snap.Split Require Import SplitModel SplitAddr SplitFill.
Import ListNotations.
Local Open Scope N_scope.

(* the files on disk have their recorded size, which is block aligned *)
Definition wfh (bs : N) (hs : list hsplit) : Prop := Forall (fun h => st h = sz h /\ (bs | sz h)) hs.

Lemma any_changed_spec : forall old new, length old = length new ->
  (any_changed old new = false <-> old = map sz new).
Proof.
  induction old as [|o old IH]; intros new Hl; destruct new as [|h new]; cbn in *; try lia.
  - split; reflexivity.
  - specialize (IH new ltac:(lia)). rewrite orb_false_iff, negb_false_iff, N.eqb_eq, IH.
    split; [intros [-> ->]; reflexivity|intros E; injection E as -> ->; auto].
Qed.

Section Chsize.
Variable k : N.
Notation bs := (2 ^ k).
Variable g : nat -> N -> bool.

Lemma bs_pos : 0 < bs. Proof. apply pow2_pos. Qed.

Lemma misaligned_false x : misaligned bs x = false <-> (bs | x).
Proof.
  rewrite misaligned_pow2, negb_false_iff, N.eqb_eq. symmetry. apply divide_mod. apply bs_pos.
Qed.

(* --- parity_handle_chsize ----------------------------------------------------------------------- *)
Lemma handle_chsize_inv g1 h size h' : handle_chsize g1 bs h size = Ok h' ->
  sz h' = sz h /\ valid h' <= valid h /\ valid h' <= st h' /\
  ((st h < size /\ handle_fill g1 bs (st h) size = Ok (st h')) \/ (size <= st h /\ st h' = size)).
Proof.
  unfold handle_chsize. intros H.
  destruct (N.ltb_spec (st h) size) as [Hlt|Hge].
  - destruct (handle_fill g1 bs (st h) size) as [b|e] eqn:E; [|discriminate]. injection H as <-. cbn [sz st valid].
    split; [reflexivity|]. destruct (N.ltb_spec b (valid h)); (repeat split; try lia); left; auto.
  - injection H as <-. cbn [sz st valid].
    split; [reflexivity|]. destruct (N.ltb_spec size (valid h)); (repeat split; try lia); right; auto.
Qed.

(* a fill of a well-formed split (file as recorded, aligned) towards an aligned size never loses bytes *)
Lemma handle_fill_bounds g1 st_size size b : (bs | st_size) -> (bs | size) -> st_size <= size ->
  handle_fill g1 bs st_size size = Ok b -> st_size <= b /\ b <= size /\ (bs | b).
Proof.
  intros Hst Hsz Hle H. unfold handle_fill in H. rewrite (mask_down_aligned k st_size Hst) in H.
  destruct (fill_loop g1 bs (fill_fuel (size - st_size)) (st_size, size - st_size)) as [b'|] eqn:E; [|discriminate].
  destruct (misaligned bs b') eqn:M; [discriminate|]. injection H as <-.
  assert (Hd : (bs | size - st_size)) by (apply N.divide_sub_r; assumption).
  destruct (fill_loop_inv g1 k _ _ _ _ Hd E) as [H1 [H2 _]].
  split; [lia|]. split; [lia|]. apply misaligned_false. exact M.
Qed.

(* --- one iteration of the loop of parity_chsize ------------------------------------------------- *)
Notation fixed0 := later_used.

Lemma later_used_true rest j hj : nth_error rest j = Some hj -> sz hj <> 0 -> later_used rest = true.
Proof.
  intros Hj Hnz. unfold later_used. apply existsb_exists. exists hj. split; [eapply nth_error_In; exact Hj|].
  apply negb_true_iff, N.eqb_neq. exact Hnz.
Qed.

Lemma later_used_false rest : later_used rest = false -> Forall (fun y => y = 0) (map sz rest).
Proof.
  unfold later_used. induction rest as [|n r IH]; cbn [existsb map]; intros H; [constructor|].
  apply orb_false_iff in H. destruct H as [H1 H2]. constructor; [|apply IH; exact H2].
  apply negb_false_iff, N.eqb_eq in H1. exact H1.
Qed.

Definition keep_of (rest : list hsplit) (size : N) (h : hsplit) : bool := fixed0 rest && negb (size <=? sz h).
Definition run_of (rest : list hsplit) (size : N) (h : hsplit) : N := if keep_of rest size h then sz h else size.

Lemma chsize_loop_cons s h rest size :
  chsize_loop g bs s (h :: rest) size =
   (if keep_of rest size h && misaligned bs (run_of rest size h) then Err EFixedMisaligned else
    match handle_chsize (g s) bs h (run_of rest size h) with
    | Err e => Err e
    | Ok h' =>
      if run_of rest size h <? st h' then Err EOver
      else if keep_of rest size h && (st h' <? run_of rest size h) then Err ERestore
      else if misaligned bs (st h') then Err EAbort
      else match chsize_loop g bs (S s) rest (size - st h') with
           | Err e => Err e
           | Ok (rest', rem) => Ok ({| sz := st h'; st := st h'; valid := valid h' |} :: rest', rem)
           end
    end).
Proof. reflexivity. Qed.

Lemma chsize_loop_cons_inv s h rest size hs' rem :
  chsize_loop g bs s (h :: rest) size = Ok (hs', rem) ->
  exists h1 rest',
    handle_chsize (g s) bs h (run_of rest size h) = Ok h1 /\ st h1 <= run_of rest size h /\
    (keep_of rest size h = true -> st h1 = run_of rest size h /\ (bs | run_of rest size h)) /\ (bs | st h1) /\
    chsize_loop g bs (S s) rest (size - st h1) = Ok (rest', rem) /\
    hs' = {| sz := st h1; st := st h1; valid := valid h1 |} :: rest'.
Proof.
  rewrite chsize_loop_cons. intros H.
  set (keep := keep_of rest size h) in *. set (run := run_of rest size h) in *.
  destruct (keep && misaligned bs run) eqn:E1; [discriminate|].
  destruct (handle_chsize (g s) bs h run) as [h1|e] eqn:E2; [|discriminate].
  destruct (N.ltb_spec run (st h1)) as [|Hle]; [discriminate|].
  destruct (keep && (st h1 <? run)) eqn:E3; [discriminate|].
  destruct (misaligned bs (st h1)) eqn:E4; [discriminate|].
  destruct (chsize_loop g bs (S s) rest (size - st h1)) as [[rest' rem']|e] eqn:E5; [|discriminate].
  injection H as <- <-. exists h1, rest'.
  split; [reflexivity|]. split; [exact Hle|]. split.
  - intros Hk. rewrite Hk in *. cbn [andb] in *. apply N.ltb_ge in E3. split; [lia|]. apply misaligned_false. exact E1.
  - split; [apply misaligned_false; exact E4|]. split; [exact E5|reflexivity].
Qed.

Lemma run_le_size rest size h : run_of rest size h <= size.
Proof.
  unfold run_of, keep_of. destruct (fixed0 rest); cbn [andb]; [|lia].
  destruct (N.leb_spec size (sz h)); cbn [negb]; lia.
Qed.

(* --- sum, alignment, valid size ------------------------------------------------------------------ *)
Lemma chsize_loop_sum : forall hs s size hs' rem, chsize_loop g bs s hs size = Ok (hs', rem) ->
  length hs' = length hs /\ sum (map sz hs') + rem = size /\
  Forall (fun h => st h = sz h /\ (bs | sz h)) hs' /\
  Forall2 (fun h h' => valid h' <= valid h /\ valid h' <= st h') hs hs'.
Proof.
  induction hs as [|h rest IH]; intros s size hs' rem H.
  - cbn in H. injection H as <- <-. cbn. repeat split; auto.
  - destruct (chsize_loop_cons_inv _ _ _ _ _ _ H) as [h1 [rest' [E1 [Hle [_ [Hal [E2 ->]]]]]]].
    destruct (IH _ _ _ _ E2) as [L [S [F V]]].
    destruct (handle_chsize_inv _ _ _ _ E1) as [_ [V1 [V2 _]]].
    pose proof (run_le_size rest size h).
    cbn [length map sum sz]. split; [lia|]. split; [lia|]. split.
    + constructor; [cbn [sz st]; auto|exact F].
    + constructor; [cbn [st valid]; auto|exact V].
Qed.

(* --- a split with a used split anywhere after it never grows ---------------------------------------- *)
Lemma chsize_loop_fixed : forall hs s size hs' rem i j h hj h',
  chsize_loop g bs s hs size = Ok (hs', rem) ->
  (i < j)%nat -> nth_error hs i = Some h -> nth_error hs j = Some hj -> sz hj <> 0 -> nth_error hs' i = Some h' ->
  sz h' <= sz h /\
  (st h = sz h -> sz h' = N.min (sz h) (size - prefix (map sz hs') i)).
Proof.
  induction hs as [|h0 rest IH]; intros s size hs' rem i j h hj h' H Hij Hi Hj Hnz Hi'.
  - destruct i; discriminate.
  - destruct (chsize_loop_cons_inv _ _ _ _ _ _ H) as [h1 [rest' [E1 [Hle [Hk [Hal [E2 ->]]]]]]].
    destruct j as [|j]; [lia|]. cbn in Hj.
    destruct i as [|i].
    + cbn in Hi, Hi'. injection Hi as ->. injection Hi' as <-. cbn [sz].
      assert (F : later_used rest = true) by (eapply later_used_true; eassumption).
      unfold run_of, keep_of in *.
      rewrite F in *. cbn [andb] in *. unfold prefix. cbn [firstn sum]. rewrite N.sub_0_r.
      destruct (handle_chsize_inv _ _ _ _ E1) as [_ [_ [_ Hc]]].
      destruct (N.leb_spec size (sz h)) as [Hsz|Hsz]; cbn [negb] in *.
      * split; [lia|]. intros Hst. destruct Hc as [[Hc _]|[_ Hc]]; lia.
      * destruct (Hk eq_refl) as [Hk1 _]. split; [lia|]. intros _. lia.
    + cbn in Hi, Hi'.
      assert (Hij' : (i < j)%nat) by lia.
      destruct (IH _ _ _ _ i j _ _ _ E2 Hij' Hi Hj Hnz Hi') as [A B]. split; [exact A|].
      intros Hst. rewrite (B Hst). unfold prefix. cbn [map firstn sum sz]. f_equal. lia.
Qed.

(* --- requested size 0: everything is emptied ------------------------------------------------------ *)
Lemma chsize_loop_zero : forall hs s hs' rem, chsize_loop g bs s hs 0 = Ok (hs', rem) ->
  Forall (fun h => sz h = 0) hs' /\ rem = 0.
Proof.
  intros hs s hs' rem H. destruct (chsize_loop_sum _ _ _ _ _ H) as [_ [S _]].
  assert (Z : sum (map sz hs') = 0) by lia. split; [|lia].
  clear -Z. induction hs' as [|h r IH]; [constructor|]. cbn [map sum] in Z.
  constructor; [lia|apply IH; lia].
Qed.

End Chsize.

(* --- the statements about parity_chsize ----------------------------------------------------------- *)
Section ChsizeTop.
Variable k : N.
Notation bs := (2 ^ k).
Variable g : nat -> N -> bool.

Lemma chsize_ok : forall hs size hs' m, chsize g bs hs size = Ok (hs', m) ->
  length hs' = length hs /\
  sum (map sz hs') = size /\                                     (* all the requested space is there *)
  Forall (fun h => st h = sz h /\ (bs | sz h)) hs' /\           (* on disk as recorded; block aligned *)
  Forall2 (fun h h' => valid h' <= valid h /\ valid h' <= st h') hs hs' /\  (* valid_size never enlarged *)
  (m = false <-> map sz hs' = map sz hs) /\                     (* is_modified is exact *)
  (* only the last used split grows: a split with a used split anywhere after it never grows, and if its file is
     as recorded it keeps its size unless the array shrinks below its end *)
  (forall i j h hj h', (i < j)%nat -> nth_error hs i = Some h -> nth_error hs j = Some hj -> sz hj <> 0 ->
     nth_error hs' i = Some h' ->
     sz h' <= sz h /\ (st h = sz h -> sz h' = N.min (sz h) (size - prefix (map sz hs') i))).
Proof.
  intros hs size hs' m H. unfold chsize in H.
  destruct (chsize_loop g bs 0 hs size) as [[hs1 rem]|e] eqn:E; [|discriminate].
  destruct (N.eqb_spec rem 0) as [->|]; [|discriminate]. injection H as <- <-.
  destruct (chsize_loop_sum k g _ _ _ _ _ E) as [L [S [F V]]].
  split; [exact L|]. split; [lia|]. split; [exact F|]. split; [exact V|]. split.
  - rewrite any_changed_spec by (rewrite map_length; lia). split; intros; symmetry; assumption.
  - intros i j h hj h'. apply (chsize_loop_fixed k g _ _ _ _ _ _ _ _ _ _ E).
Qed.

(* the failure outcome "You miss n bytes": the splits could not take everything *)
Lemma chsize_missing : forall hs size n, chsize g bs hs size = Err (EMissing n) ->
  n <> 0 /\ exists hs', chsize_loop g bs 0 hs size = Ok (hs', n) /\ sum (map sz hs') + n = size.
Proof.
  intros hs size n H. unfold chsize in H.
  destruct (chsize_loop g bs 0 hs size) as [[hs1 rem]|e] eqn:E.
  - destruct (N.eqb_spec rem 0) as [->|Hr]; [discriminate|]. injection H as <-.
    split; [exact Hr|]. exists hs1. split; [reflexivity|]. apply (chsize_loop_sum k g _ _ _ _ _ E).
  - (* an error of the loop itself is never EMissing *)
    exfalso. revert E H. clear. generalize 0%nat as s. revert size.
    induction hs as [|h rest IH]; intros size s E H; cbn [chsize_loop] in E; [discriminate|].
    repeat match type of E with
           | (if ?c then _ else _) = _ => destruct c
           | match ?c with Ok _ => _ | Err _ => _ end = _ => destruct c as [?|?] eqn:?
           | (let '(_, _) := ?c in _) = _ => destruct c
           end; try discriminate; try (injection E as ->; discriminate).
    all: try (injection E as ->).
    all: try (eapply IH; eassumption).
    all: try (unfold handle_chsize, handle_fill in *;
              repeat match goal with
                     | H0 : context [if ?c then _ else _] |- _ => destruct c
                     | H0 : context [match ?c with Some _ => _ | None => _ end] |- _ => destruct c
                     end; try discriminate; congruence).
Qed.

End ChsizeTop.

(* "only the last used split grows": any split that has a used split somewhere after it keeps or reduces its size
   (since the repair of parity_split_is_fixed this needs no hypothesis on the recorded sizes) *)
Lemma chsize_only_last_grows : forall k g hs size hs' m,
  chsize g (2^k) hs size = Ok (hs', m) ->
  forall i j h hj h', (i < j)%nat -> nth_error hs i = Some h -> nth_error hs j = Some hj -> sz hj <> 0 ->
    nth_error hs' i = Some h' -> sz h' <= sz h.
Proof.
  intros k g hs size hs' m H i j h hj h' Hij Hi Hj Hnz Hi'.
  destruct (chsize_ok k g _ _ _ _ H) as [_ [_ [_ [_ [_ F]]]]].
  apply (F i j h hj h' Hij Hi Hj Hnz Hi').
Qed.

(* the layout that used to lose parity (an unused split between two used ones): now split 0 and the unused split
   stay as they are and the last split takes the growth *)
Lemma chsize_midzero_example :
  let u := fun n => {| sz := n; st := n; valid := n |} in
  exists hs', chsize (fun _ _ => true) (2^10) [u 1024; u 0; u 1024] 3072 = Ok (hs', true) /\
              map sz hs' = [1024; 0; 2048].
Proof. cbv zeta. eexists. split; vm_compute; reflexivity. Qed.
