(* C17 -- parity_chsize: what the resize of a split parity does to the recorded sizes. *)
From Coq Require Import NArith List Bool Lia Arith.
From Snap.Split Require Import SplitModel SplitAddr SplitFill.
Import ListNotations.
Local Open Scope N_scope.

(* zero sizes only at the end: no unused split before a used one *)
Fixpoint packed (sizes : list N) : Prop :=
  match sizes with
  | [] => True
  | x :: r => (x = 0 -> Forall (fun y => y = 0) r) /\ packed r
  end.

(* the files on disk have their recorded size, which is block aligned *)
Definition wfh (bs : N) (hs : list hsplit) : Prop := Forall (fun h => st h = sz h /\ (bs | sz h)) hs.

Lemma any_changed_spec : forall old new, length old = length new ->
  (any_changed old new = false <-> old = map sz new).
Proof.
  induction old as [|o old IH]; intros new Hl; destruct new as [|h new]; cbn in *; try lia.
  - split; reflexivity.
  - specialize (IH new ltac:(lia)). rewrite orb_false_iff, negb_false_iff, N.eqb_eq, IH.
    split; [intros [-> ->]; reflexivity|intros E; injection E as -> ->; auto].
Qed.

Section Chsize.
Variable k : N.
Notation bs := (2 ^ k).
Variable g : nat -> N -> bool.

Lemma bs_pos : 0 < bs. Proof. apply pow2_pos. Qed.

Lemma misaligned_false x : misaligned bs x = false <-> (bs | x).
Proof.
  rewrite misaligned_pow2, negb_false_iff, N.eqb_eq. symmetry. apply divide_mod. apply bs_pos.
Qed.

(* --- parity_handle_chsize ----------------------------------------------------------------------- *)
Lemma handle_chsize_inv g1 h size h' : handle_chsize g1 bs h size = Ok h' ->
  sz h' = sz h /\ valid h' <= valid h /\ valid h' <= st h' /\
  ((st h < size /\ handle_fill g1 bs (st h) size = Ok (st h')) \/ (size <= st h /\ st h' = size)).
Proof.
  unfold handle_chsize. intros H.
  destruct (N.ltb_spec (st h) size) as [Hlt|Hge].
  - destruct (handle_fill g1 bs (st h) size) as [b|e] eqn:E; [|discriminate]. injection H as <-. cbn [sz st valid].
    split; [reflexivity|]. destruct (N.ltb_spec b (valid h)); (repeat split; try lia); left; auto.
  - injection H as <-. cbn [sz st valid].
    split; [reflexivity|]. destruct (N.ltb_spec size (valid h)); (repeat split; try lia); right; auto.
Qed.

(* a fill of a well-formed split (file as recorded, aligned) towards an aligned size never loses bytes *)
Lemma handle_fill_bounds g1 st_size size b : (bs | st_size) -> (bs | size) -> st_size <= size ->
  handle_fill g1 bs st_size size = Ok b -> st_size <= b /\ b <= size /\ (bs | b).
Proof.
  intros Hst Hsz Hle H. unfold handle_fill in H. rewrite (mask_down_aligned k st_size Hst) in H.
  destruct (fill_loop g1 bs (fill_fuel (size - st_size)) (st_size, size - st_size)) as [b'|] eqn:E; [|discriminate].
  destruct (misaligned bs b') eqn:M; [discriminate|]. injection H as <-.
  assert (Hd : (bs | size - st_size)) by (apply N.divide_sub_r; assumption).
  destruct (fill_loop_inv g1 k _ _ _ _ Hd E) as [H1 [H2 _]].
  split; [lia|]. split; [lia|]. apply misaligned_false. exact M.
Qed.

(* --- one iteration of the loop of parity_chsize ------------------------------------------------- *)
Definition fixed0 (rest : list hsplit) : bool := match rest with [] => false | n :: _ => negb (sz n =? 0) end.

Definition keep_of (rest : list hsplit) (size : N) (h : hsplit) : bool := fixed0 rest && negb (size <=? sz h).
Definition run_of (rest : list hsplit) (size : N) (h : hsplit) : N := if keep_of rest size h then sz h else size.

Lemma chsize_loop_cons s h rest size :
  chsize_loop g bs s (h :: rest) size =
   (if keep_of rest size h && misaligned bs (run_of rest size h) then Err EFixedMisaligned else
    match handle_chsize (g s) bs h (run_of rest size h) with
    | Err e => Err e
    | Ok h' =>
      if run_of rest size h <? st h' then Err EOver
      else if keep_of rest size h && (st h' <? run_of rest size h) then Err ERestore
      else if misaligned bs (st h') then Err EAbort
      else match chsize_loop g bs (S s) rest (size - st h') with
           | Err e => Err e
           | Ok (rest', rem) => Ok ({| sz := st h'; st := st h'; valid := valid h' |} :: rest', rem)
           end
    end).
Proof. reflexivity. Qed.

Lemma chsize_loop_cons_inv s h rest size hs' rem :
  chsize_loop g bs s (h :: rest) size = Ok (hs', rem) ->
  exists h1 rest',
    handle_chsize (g s) bs h (run_of rest size h) = Ok h1 /\ st h1 <= run_of rest size h /\
    (keep_of rest size h = true -> st h1 = run_of rest size h /\ (bs | run_of rest size h)) /\ (bs | st h1) /\
    chsize_loop g bs (S s) rest (size - st h1) = Ok (rest', rem) /\
    hs' = {| sz := st h1; st := st h1; valid := valid h1 |} :: rest'.
Proof.
  rewrite chsize_loop_cons. intros H.
  set (keep := keep_of rest size h) in *. set (run := run_of rest size h) in *.
  destruct (keep && misaligned bs run) eqn:E1; [discriminate|].
  destruct (handle_chsize (g s) bs h run) as [h1|e] eqn:E2; [|discriminate].
  destruct (N.ltb_spec run (st h1)) as [|Hle]; [discriminate|].
  destruct (keep && (st h1 <? run)) eqn:E3; [discriminate|].
  destruct (misaligned bs (st h1)) eqn:E4; [discriminate|].
  destruct (chsize_loop g bs (S s) rest (size - st h1)) as [[rest' rem']|e] eqn:E5; [|discriminate].
  injection H as <- <-. exists h1, rest'.
  split; [reflexivity|]. split; [exact Hle|]. split.
  - intros Hk. rewrite Hk in *. cbn [andb] in *. apply N.ltb_ge in E3. split; [lia|]. apply misaligned_false. exact E1.
  - split; [apply misaligned_false; exact E4|]. split; [exact E5|reflexivity].
Qed.

Lemma run_le_size rest size h : run_of rest size h <= size.
Proof.
  unfold run_of, keep_of. destruct (fixed0 rest); cbn [andb]; [|lia].
  destruct (N.leb_spec size (sz h)); cbn [negb]; lia.
Qed.

(* --- sum, alignment, valid size ------------------------------------------------------------------ *)
Lemma chsize_loop_sum : forall hs s size hs' rem, chsize_loop g bs s hs size = Ok (hs', rem) ->
  length hs' = length hs /\ sum (map sz hs') + rem = size /\
  Forall (fun h => st h = sz h /\ (bs | sz h)) hs' /\
  Forall2 (fun h h' => valid h' <= valid h /\ valid h' <= st h') hs hs'.
Proof.
  induction hs as [|h rest IH]; intros s size hs' rem H.
  - cbn in H. injection H as <- <-. cbn. repeat split; auto.
  - destruct (chsize_loop_cons_inv _ _ _ _ _ _ H) as [h1 [rest' [E1 [Hle [_ [Hal [E2 ->]]]]]]].
    destruct (IH _ _ _ _ E2) as [L [S [F V]]].
    destruct (handle_chsize_inv _ _ _ _ E1) as [_ [V1 [V2 _]]].
    pose proof (run_le_size rest size h).
    cbn [length map sum sz]. split; [lia|]. split; [lia|]. split.
    + constructor; [cbn [sz st]; auto|exact F].
    + constructor; [cbn [st valid]; auto|exact V].
Qed.

(* --- a split followed by a used split never grows ------------------------------------------------- *)
Lemma chsize_loop_fixed : forall hs s size hs' rem i h n h',
  chsize_loop g bs s hs size = Ok (hs', rem) ->
  nth_error hs i = Some h -> nth_error hs (S i) = Some n -> sz n <> 0 -> nth_error hs' i = Some h' ->
  sz h' <= sz h /\
  (st h = sz h -> sz h' = N.min (sz h) (size - prefix (map sz hs') i)).
Proof.
  induction hs as [|h0 rest IH]; intros s size hs' rem i h n h' H Hi Hn Hnz Hi'.
  - destruct i; discriminate.
  - destruct (chsize_loop_cons_inv _ _ _ _ _ _ H) as [h1 [rest' [E1 [Hle [Hk [Hal [E2 ->]]]]]]].
    destruct i as [|i].
    + cbn in Hi, Hn, Hi'. injection Hi as ->. injection Hi' as <-. cbn [sz].
      destruct rest as [|n0 rest0]; [discriminate|]. cbn in Hn. injection Hn as ->.
      assert (F : fixed0 (n :: rest0) = true) by (cbn; apply negb_true_iff, N.eqb_neq; exact Hnz).
      unfold run_of, keep_of in *.
      rewrite F in *. cbn [andb] in *. unfold prefix. cbn [firstn sum]. rewrite N.sub_0_r.
      destruct (handle_chsize_inv _ _ _ _ E1) as [_ [_ [_ Hc]]].
      destruct (N.leb_spec size (sz h)) as [Hsz|Hsz]; cbn [negb] in *.
      * split; [lia|]. intros Hst. destruct Hc as [[Hc _]|[_ Hc]]; lia.
      * destruct (Hk eq_refl) as [Hk1 _]. split; [lia|]. intros _. lia.
    + cbn in Hi, Hn, Hi'.
      destruct (IH _ _ _ _ _ _ _ _ E2 Hi Hn Hnz Hi') as [A B]. split; [exact A|].
      intros Hst. rewrite (B Hst). unfold prefix. cbn [map firstn sum sz]. f_equal. lia.
Qed.

(* --- requested size 0: everything is emptied ------------------------------------------------------ *)
Lemma chsize_loop_zero : forall hs s hs' rem, chsize_loop g bs s hs 0 = Ok (hs', rem) ->
  Forall (fun h => sz h = 0) hs' /\ rem = 0.
Proof.
  intros hs s hs' rem H. destruct (chsize_loop_sum _ _ _ _ _ H) as [_ [S _]].
  assert (Z : sum (map sz hs') = 0) by lia. split; [|lia].
  clear -Z. induction hs' as [|h r IH]; [constructor|]. cbn [map sum] in Z.
  constructor; [lia|apply IH; lia].
Qed.

(* --- packed sizes stay packed when every split can hold one block --------------------------------- *)
Hypothesis g_mono : forall s x y, x <= y -> g s y = true -> g s x = true.
Hypothesis g_cap : forall s, g s bs = true.

Lemma packed_tail x r : packed (x :: r) -> packed r. Proof. intros [_ H]. exact H. Qed.

Lemma packed_zeros r : Forall (fun y => y = 0) r -> packed r.
Proof. induction 1 as [|x r Hx Hr IH]; cbn; [exact I|]. split; [intros _; exact Hr|exact IH]. Qed.

Lemma chsize_loop_packed : forall hs s size hs' rem,
  wfh bs hs -> packed (map sz hs) -> (bs | size) ->
  chsize_loop g bs s hs size = Ok (hs', rem) ->
  packed (map sz hs') /\ (rem <> 0 -> Forall (fun h => sz h <> 0) hs').
Proof.
  induction hs as [|h rest IH]; intros s size hs' rem W P Hsz H.
  - cbn in H. injection H as <- <-. cbn. auto.
  - destruct (chsize_loop_cons_inv _ _ _ _ _ _ H) as [h1 [rest' [E1 [Hle [Hk [Hal [E2 ->]]]]]]].
    inversion W as [|? ? [Wst Wal] W']; subst.
    assert (Hsz1 : (bs | size - st h1)) by (apply N.divide_sub_r; assumption).
    destruct (IH _ _ _ _ W' (packed_tail _ _ P) Hsz1 E2) as [P' NZ'].
    pose proof (run_le_size rest size h) as Hrun.
    destruct (N.eq_dec (size - st h1) 0) as [Hz|Hnz].
    + rewrite Hz in E2. destruct (chsize_loop_zero _ _ _ _ E2) as [Z ->].
      cbn [map sz packed]. split; [|congruence]. split; [|exact P'].
      intros _. clear -Z. induction Z; constructor; auto.
    + (* something remains for the following splits: this one is not empty *)
      assert (Hne : st h1 <> 0).
      { destruct (handle_chsize_inv _ _ _ _ E1) as [_ [_ [_ Hc]]].
        unfold run_of in *. destruct (keep_of rest size h) eqn:Ek.
        - (* kept at its recorded size, which is not 0 because the next one is used *)
          destruct (Hk eq_refl) as [Hk1 _]. rewrite Hk1. rewrite <- Wst. intros Hz0.
          unfold keep_of in Ek. apply andb_true_iff in Ek. destruct Ek as [Ef _].
          destruct rest as [|n rest0]; [discriminate|]. cbn in Ef.
          destruct P as [P0 _]. cbn [sz] in P0. rewrite Wst in Hz0. specialize (P0 Hz0).
          cbn [map] in P0. inversion P0 as [|? ? Hn0 _]; subst.
          rewrite Hn0 in Ef. discriminate.
        - destruct Hc as [[Hlt Hf]|[Hge Hs]]; [|lia].
          intros Hz0. rewrite Hz0 in Hf.
          assert (Hst0 : mask_down bs (st h) <= size).
          { pose proof (mask_down_le k (st h)). lia. }
          destruct (fill_maximal (g s) k (g_mono s) (st h) size Hsz Hst0) as [b [Eb [_ [Hb1 [_ [_ [_ Hmax]]]]]]].
          rewrite Eb in Hf. injection Hf as ->.
          assert (Hbs : bs <= size).
          { destruct Hsz as [c Hc]. assert (c <> 0) by (intros ->; lia). pose proof bs_pos. nia. }
          specialize (Hmax bs (N.divide_refl _) ltac:(lia) Hbs (g_cap s)). pose proof bs_pos. lia. }
      cbn [map sz packed]. split.
      * split; [intros; contradiction|exact P'].
      * intros Hr. constructor; [cbn [sz]; exact Hne|apply NZ'; exact Hr].
Qed.

End Chsize.

(* --- the statements about parity_chsize ----------------------------------------------------------- *)
Section ChsizeTop.
Variable k : N.
Notation bs := (2 ^ k).
Variable g : nat -> N -> bool.

Lemma chsize_ok : forall hs size hs' m, chsize g bs hs size = Ok (hs', m) ->
  length hs' = length hs /\
  sum (map sz hs') = size /\                                     (* all the requested space is there *)
  Forall (fun h => st h = sz h /\ (bs | sz h)) hs' /\           (* on disk as recorded; block aligned *)
  Forall2 (fun h h' => valid h' <= valid h /\ valid h' <= st h') hs hs' /\  (* valid_size never enlarged *)
  (m = false <-> map sz hs' = map sz hs) /\                     (* is_modified is exact *)
  (* only the last used split grows: a split followed by a used one never grows, and if its file is as
     recorded it keeps its size unless the array shrinks below its end *)
  (forall i h n h', nth_error hs i = Some h -> nth_error hs (S i) = Some n -> sz n <> 0 ->
     nth_error hs' i = Some h' ->
     sz h' <= sz h /\ (st h = sz h -> sz h' = N.min (sz h) (size - prefix (map sz hs') i))).
Proof.
  intros hs size hs' m H. unfold chsize in H.
  destruct (chsize_loop g bs 0 hs size) as [[hs1 rem]|e] eqn:E; [|discriminate].
  destruct (N.eqb_spec rem 0) as [->|]; [|discriminate]. injection H as <- <-.
  destruct (chsize_loop_sum k g _ _ _ _ _ E) as [L [S [F V]]].
  split; [exact L|]. split; [lia|]. split; [exact F|]. split; [exact V|]. split.
  - rewrite any_changed_spec by (rewrite map_length; lia). split; intros; symmetry; assumption.
  - intros i h n h'. apply (chsize_loop_fixed k g _ _ _ _ _ _ _ _ _ E).
Qed.

(* the failure outcome "You miss n bytes": the splits could not take everything *)
Lemma chsize_missing : forall hs size n, chsize g bs hs size = Err (EMissing n) ->
  n <> 0 /\ exists hs', chsize_loop g bs 0 hs size = Ok (hs', n) /\ sum (map sz hs') + n = size.
Proof.
  intros hs size n H. unfold chsize in H.
  destruct (chsize_loop g bs 0 hs size) as [[hs1 rem]|e] eqn:E.
  - destruct (N.eqb_spec rem 0) as [->|Hr]; [discriminate|]. injection H as <-.
    split; [exact Hr|]. exists hs1. split; [reflexivity|]. apply (chsize_loop_sum k g _ _ _ _ _ E).
  - (* an error of the loop itself is never EMissing *)
    exfalso. revert E H. clear. generalize 0%nat as s. revert size.
    induction hs as [|h rest IH]; intros size s E H; cbn [chsize_loop] in E; [discriminate|].
    repeat match type of E with
           | (if ?c then _ else _) = _ => destruct c
           | match ?c with Ok _ => _ | Err _ => _ end = _ => destruct c as [?|?] eqn:?
           | (let '(_, _) := ?c in _) = _ => destruct c
           end; try discriminate; try (injection E as ->; discriminate).
    all: try (injection E as ->).
    all: try (eapply IH; eassumption).
    all: try (unfold handle_chsize, handle_fill in *;
              repeat match goal with
                     | H0 : context [if ?c then _ else _] |- _ => destruct c
                     | H0 : context [match ?c with Some _ => _ | None => _ end] |- _ => destruct c
                     end; try discriminate; congruence).
Qed.

End ChsizeTop.

(* "only the last used split grows", in the strong reading: any split that has a used split somewhere
   after it keeps or reduces its size.  True when no unused split precedes a used one ... *)
Lemma chsize_only_last_grows_partial : forall k g hs size hs' m,
  packed (map sz hs) ->
  chsize g (2^k) hs size = Ok (hs', m) ->
  forall i j h hj h', (i < j)%nat -> nth_error hs i = Some h -> nth_error hs j = Some hj -> sz hj <> 0 ->
    nth_error hs' i = Some h' -> sz h' <= sz h.
Proof.
  intros k g hs size hs' m P H i j h hj h' Hij Hi Hj Hnz Hi'.
  assert (exists n, nth_error hs (S i) = Some n /\ sz n <> 0) as [n [Hn Hnn]].
  { clear H Hi' h'. revert i j h Hij Hi Hj P. induction hs as [|x r IH]; intros i j h Hij Hi Hj P.
    - destruct i; discriminate.
    - destruct i as [|i].
      + destruct j as [|j]; [lia|]. cbn in Hj. destruct r as [|n r0]; [destruct j; discriminate|].
        exists n. split; [reflexivity|]. intros Hz. destruct P as [_ [P1 _]]. cbn [map] in P1.
        destruct j as [|j]; cbn in Hj; [injection Hj as ->; contradiction|].
        specialize (P1 Hz). rewrite Forall_forall in P1. apply Hnz. apply (P1 (sz hj)).
        apply in_map. eapply nth_error_In. exact Hj.
      + destruct j as [|j]; [lia|]. cbn in Hi, Hj. destruct P as [_ P].
        destruct (IH i j h ltac:(lia) Hi Hj P) as [n [A B]]. exists n. split; [exact A|exact B]. }
  destruct (chsize_ok k g _ _ _ _ H) as [_ [_ [_ [_ [_ F]]]]].
  apply (F i h n h' Hi Hn Hnn Hi').
Qed.

(* ... and false in general: with an unused split in the middle, split 0 is "the one followed by a zero",
   so it grows, the used split 2 is emptied, and the address map moves. *)
Definition refute_hs : list hsplit :=
  [ {| sz := 1024; st := 1024; valid := 1024 |}; {| sz := 0; st := 0; valid := 0 |};
    {| sz := 1024; st := 1024; valid := 1024 |} ].

Lemma chsize_only_last_grows_refuted :
  exists k g hs size hs' m,
    chsize g (2^k) hs size = Ok (hs', m) /\
    exists i j h hj h', (i < j)%nat /\ nth_error hs i = Some h /\ nth_error hs j = Some hj /\ sz hj <> 0 /\
      nth_error hs' i = Some h' /\ sz h < sz h'.
Proof.
  exists 10, (fun _ _ => true), refute_hs, 3072.
  eexists. eexists. split; [vm_compute; reflexivity|].
  exists 0%nat, 2%nat. eexists. eexists. eexists.
  split; [lia|]. split; [reflexivity|]. split; [reflexivity|]. split; [cbn; lia|]. split; [reflexivity|].
  cbn. lia.
Qed.
