(* C17 -- refinement: a split parity, concatenated, is the one-file parity. *)
From Coq Require Import NArith List Bool Lia Arith.
From Snap.Split Require Import SplitModel SplitAddr SplitFill SplitChsize.
Import ListNotations.
Local Open Scope N_scope.

Definition files (ps : list psplit) : file := concat (map p_file ps).

(* every file has its recorded size, which is block aligned (established by parity_chsize: chsize_ok) *)
Definition wf (bs : N) (ps : list psplit) : Prop :=
  Forall (fun p => N.of_nat (length (p_file p)) = p_size p /\ (bs | p_size p)) ps.

(* the one-file specification *)
Definition flat_op (bs : N) (f : file) (o : op) : file :=
  match o with
  | OpWrite pos blk => pwrite f (N.to_nat (block_off bs pos)) blk
  | OpResize size => resize f size
  end.

(* --- resize ---------------------------------------------------------------------------------------- *)
Lemma resize_length f n : length (resize f n) = N.to_nat n.
Proof. unfold resize. rewrite app_length, firstn_length, repeat_length. lia. Qed.

Lemma resize_id f : resize f (N.of_nat (length f)) = f.
Proof.
  unfold resize. rewrite Nat2N.id, firstn_all, Nat.sub_diag. cbn [repeat]. apply app_nil_r.
Qed.

Lemma resize_app_ge f R m : resize (f ++ R) (N.of_nat (length f) + m) = f ++ resize R m.
Proof.
  unfold resize. rewrite N2Nat.inj_add, Nat2N.id, firstn_app_2, app_length, <- app_assoc.
  do 2 f_equal. f_equal. lia.
Qed.

Lemma resize_app_le f R n : (N.to_nat n <= length f)%nat -> resize (f ++ R) n = resize f n.
Proof.
  intros H. unfold resize. rewrite firstn_app, app_length.
  replace (N.to_nat n - length f)%nat with 0%nat by lia.
  replace (N.to_nat n - (length f + length R))%nat with 0%nat by lia.
  cbn [firstn repeat]. rewrite !app_nil_r. reflexivity.
Qed.

Lemma resize_grow f b : (length f <= N.to_nat b)%nat -> resize f b = f ++ repeat 0 (N.to_nat b - length f).
Proof. intros H. unfold resize. rewrite firstn_all2 by exact H. reflexivity. Qed.

Lemma view_wf bs ps : wf bs ps -> concat_view ps = files ps.
Proof.
  unfold concat_view, files. induction 1 as [|p r [Hl _] _ IH]; [reflexivity|].
  cbn [map concat]. rewrite IH. unfold view. rewrite <- Hl, resize_id. reflexivity.
Qed.

Lemma files_length bs ps : wf bs ps -> N.of_nat (length (files ps)) = sum (sizes_of ps).
Proof.
  unfold files, sizes_of. induction 1 as [|p r [Hl _] _ IH]; [reflexivity|].
  cbn [map concat sum]. rewrite app_length. lia.
Qed.

(* --- pwrite on a concatenation ------------------------------------------------------------------------ *)
Lemma pwrite_app_l f R o d : (o + length d <= length f)%nat -> pwrite (f ++ R) o d = pwrite f o d ++ R.
Proof.
  intros H. unfold pwrite. rewrite app_length.
  replace (o - (length f + length R))%nat with 0%nat by lia. replace (o - length f)%nat with 0%nat by lia.
  cbn [repeat]. rewrite !app_nil_r. rewrite firstn_app, skipn_app.
  replace (o - length f)%nat with 0%nat by lia. replace (o + length d - length f)%nat with 0%nat by lia.
  cbn [firstn skipn]. rewrite app_nil_r, <- !app_assoc. reflexivity.
Qed.

Lemma pwrite_app_r f R o d : (length f <= o)%nat -> pwrite (f ++ R) o d = f ++ pwrite R (o - length f) d.
Proof.
  intros H. unfold pwrite. rewrite app_length, <- !app_assoc.
  rewrite firstn_app. rewrite (firstn_all2 f) by exact H.
  rewrite skipn_app. rewrite (skipn_all2 f) by lia. cbn [app].
  replace (o - (length f + length R))%nat with (o - length f - length R)%nat by lia.
  replace (o + length d - length f)%nat with (o - length f + length d)%nat by lia.
  rewrite <- !app_assoc. reflexivity.
Qed.

Lemma files_upd : forall bs ps s p o blk g', wf bs ps -> nth_error ps s = Some p ->
  (N.to_nat o + length blk <= length (p_file p))%nat ->
  (forall q, p_file (g' q) = pwrite (p_file q) (N.to_nat o) blk) ->
  files (upd s g' ps) = pwrite (files ps) (N.to_nat (prefix (sizes_of ps) s + o)) blk.
Proof.
  intros bs ps s p o blk g' W. revert s. induction W as [|q r [Hl _] W IH]; intros s Hp Ho Hg.
  - destruct s; discriminate.
  - destruct s as [|s]; cbn in Hp.
    + injection Hp as ->. unfold files, prefix. cbn [upd map concat sizes_of firstn sum]. rewrite N.add_0_l.
      rewrite Hg. symmetry. apply pwrite_app_l. exact Ho.
    + unfold files, prefix in *. cbn [upd map concat sizes_of firstn sum].
      change (map p_size r) with (sizes_of r). rewrite (IH s Hp Ho Hg).
      rewrite pwrite_app_r by lia. f_equal. f_equal. lia.
Qed.

(* --- parity_write refines pwrite on the concatenation ---------------------------------------------------- *)
Lemma wf_aligned bs ps : wf bs ps -> aligned bs (sizes_of ps).
Proof. unfold aligned, sizes_of. induction 1 as [|p r [_ Ha] _ IH]; constructor; assumption. Qed.

Lemma write_concat : forall bs ps pos blk ps', 0 < bs -> wf bs ps -> length blk = N.to_nat bs ->
  parity_write bs ps pos blk = Some ps' ->
  wf bs ps' /\ sizes_of ps' = sizes_of ps /\
  files ps' = pwrite (files ps) (N.to_nat (block_off bs pos)) blk.
Proof.
  intros bs ps pos blk ps' Hbs W Hlen H.
  destruct (read_after_write bs ps pos blk ps' Hbs Hlen H) as [Hs _].
  unfold parity_write in H.
  destruct (split_find (sizes_of ps) (block_off bs pos)) as [[s o]|] eqn:E; [|discriminate].
  injection H as <-.
  destruct (no_straddle bs (sizes_of ps) pos s o Hbs (wf_aligned _ _ W) E) as [_ Hfit].
  destruct (split_find_bijection (sizes_of ps)) as [T [Out _]].
  destruct (N.lt_ge_cases (block_off bs pos) (sum (sizes_of ps))) as [Hlt|Hge]; [|rewrite Out in E by exact Hge; discriminate].
  destruct (T _ Hlt) as [s' [o' [E' [[Hk _] Hp]]]]. rewrite E in E'. injection E' as <- <-. cbn [fst] in Hk.
  destruct (nth_error_sizes_of ps s Hk) as [p Hp0]. rewrite (nth_sizes_of ps s p Hp0) in Hfit.
  assert (Wp : N.of_nat (length (p_file p)) = p_size p).
  { unfold wf in W. rewrite Forall_forall in W. apply W. eapply nth_error_In. exact Hp0. }
  set (g' := fun p0 => {| p_size := p_size p0;
                          p_valid := if p_valid p0 <? o + bs then o + bs else p_valid p0;
                          p_file := pwrite (p_file p0) (N.to_nat o) blk |}).
  split; [|split; [exact Hs|]].
  - (* files keep their length *)
    clear E T Out Hlt Hp Hs. revert s Hk Hp0. induction W as [|q r [Hl Ha] W IH]; intros s Hk Hp0.
    + destruct s; discriminate.
    + destruct s as [|s]; cbn in Hp0.
      * injection Hp0 as ->. cbn [upd]. constructor; [|exact W]. cbn [g' p_file p_size].
        rewrite length_pwrite. split; [lia|exact Ha].
      * cbn [upd]. constructor; [split; assumption|]. apply IH; [|exact Hp0].
        unfold sizes_of in *. cbn [map length] in Hk. lia.
  - rewrite <- Hp. apply (files_upd bs ps s p o blk g' W Hp0); [lia|reflexivity].
Qed.

Lemma write_none_iff bs ps pos blk : parity_write bs ps pos blk = None <-> sum (sizes_of ps) <= block_off bs pos.
Proof.
  unfold parity_write. destruct (split_find_bijection (sizes_of ps)) as [T [Out _]].
  destruct (N.lt_ge_cases (block_off bs pos) (sum (sizes_of ps))) as [Hlt|Hge].
  - destruct (T _ Hlt) as [s [o [E _]]]. rewrite E. split; [discriminate|lia].
  - rewrite Out by exact Hge. split; auto.
Qed.

(* --- parity_chsize refines ftruncate on the concatenation ------------------------------------------------- *)
Lemma apply_sizes_wf bs : forall ps hs', length hs' = length ps ->
  Forall (fun h => st h = sz h /\ (bs | sz h)) hs' ->
  wf bs (apply_sizes ps hs') /\ sizes_of (apply_sizes ps hs') = map sz hs'.
Proof.
  induction ps as [|p ps IH]; intros hs' L F; destruct hs' as [|h hs']; cbn in L; try lia.
  - split; [constructor|reflexivity].
  - inversion F as [|? ? [Hst Hal] F']; subst. destruct (IH hs' ltac:(lia) F') as [W S].
    cbn [apply_sizes sizes_of map p_size]. split.
    + constructor; [|exact W]. cbn [p_file p_size]. rewrite resize_length. split; [lia|exact Hal].
    + f_equal. exact S.
Qed.

Lemma files_empty_apply : forall ps hs', length hs' = length ps ->
  Forall (fun p => p_file p = []) ps ->
  files (apply_sizes ps hs') = repeat 0 (N.to_nat (sum (map st hs'))).
Proof.
  unfold files. induction ps as [|p ps IH]; intros hs' L F; destruct hs' as [|h hs']; cbn in L; try lia.
  - reflexivity.
  - inversion F as [|? ? Hp F']; subst. cbn [apply_sizes map concat p_file sum].
    rewrite (IH hs' ltac:(lia) F'). rewrite Hp. unfold resize. rewrite firstn_nil. cbn [app length].
    rewrite Nat.sub_0_r, N2Nat.inj_add. symmetry. apply repeat_app.
Qed.

Lemma wf_zero_empty bs ps : wf bs ps -> Forall (fun y => y = 0) (sizes_of ps) -> Forall (fun p => p_file p = []) ps.
Proof.
  unfold sizes_of. induction 1 as [|p r [Hl _] _ IH]; intros Z; [constructor|].
  cbn [map] in Z. inversion Z as [|? ? Hz Z']; subst. constructor; [|apply IH; exact Z'].
  destruct (p_file p); [reflexivity|]. cbn [length] in Hl. lia.
Qed.

Lemma files_all_empty ps : Forall (fun p => p_file p = []) ps -> files ps = [].
Proof. unfold files. induction 1 as [|p r Hp _ IH]; [reflexivity|]. cbn [map concat]. rewrite Hp, IH. reflexivity. Qed.

Lemma sum_all_zero l : Forall (fun y => y = 0) l -> sum l = 0.
Proof. induction 1 as [|x r Hx _ IH]; cbn [sum]; lia. Qed.

Section Resize.
Variable k : N.
Notation bs := (2 ^ k).
Variable g : nat -> N -> bool.

Lemma wf_to_h ps : wf bs ps -> wfh bs (map to_h ps).
Proof. unfold wfh. induction 1 as [|p r [Hl Ha] _ IH]; cbn [map]; constructor; [cbn; split; [lia|exact Ha]|exact IH]. Qed.

Lemma map_sz_to_h ps : map sz (map to_h ps) = sizes_of ps.
Proof. unfold sizes_of. rewrite map_map. reflexivity. Qed.

Lemma chsize_loop_files : forall ps s size hs' rem,
  wf bs ps -> (bs | size) ->
  chsize_loop g bs s (map to_h ps) size = Ok (hs', rem) ->
  files (apply_sizes ps hs') = resize (files ps) (sum (map sz hs')).
Proof.
  induction ps as [|p ps IH]; intros s size hs' rem W Hsz H.
  - cbn in H. injection H as <- <-. reflexivity.
  - cbn [map] in H.
    destruct (chsize_loop_cons_inv k g _ _ _ _ _ _ H) as [h1 [rest' [E1 [Hle [Hk [Hal [E2 ->]]]]]]].
    inversion W as [|? ? [Wl Wa] W']; subst.
    assert (Hsz1 : (bs | size - st h1)) by (apply N.divide_sub_r; assumption).
    specialize (IH _ _ _ _ W' Hsz1 E2).
    destruct (chsize_loop_sum k g _ _ _ _ _ E2) as [L2 [S2 [F2 _]]]. rewrite map_length in L2.
    destruct (handle_chsize_inv k _ _ _ _ E1) as [_ [_ [_ Hc]]].
    unfold files in *. cbn [apply_sizes map concat p_file sz sum]. fold (files ps) in *.
    change (concat (map p_file (apply_sizes ps rest'))) with (files (apply_sizes ps rest')) in *.
    cbn [to_h st sz] in *.
    unfold run_of in *. destruct (keep_of (map to_h ps) size (to_h p)) eqn:Ek; cbn [to_h sz st] in *.
    + (* kept at its recorded size *)
      destruct (Hk eq_refl) as [Hk1 _]. rewrite Hk1, <- Wl, resize_id, IH. symmetry. apply resize_app_ge.
    + destruct Hc as [[Hlt Hf]|[Hge Hs]].
      * (* the growing split: everything after it is unused and empty *)
        assert (Hb : N.of_nat (length (p_file p)) <= st h1 /\ st h1 <= size /\ (bs | st h1)).
        { assert (Wa' : (bs | N.of_nat (length (p_file p)))) by (rewrite Wl; exact Wa).
          assert (Hle' : N.of_nat (length (p_file p)) <= size) by lia.
          exact (handle_fill_bounds k (g s) _ _ _ Wa' Hsz Hle' Hf). }
        assert (Z : Forall (fun y => y = 0) (sizes_of ps)).
        { rewrite <- map_sz_to_h. apply later_used_false. unfold keep_of in Ek. cbn [to_h sz] in Ek.
          destruct (N.leb_spec size (p_size p)); [lia|]. cbn [negb] in Ek. rewrite andb_true_r in Ek. exact Ek. }
        pose proof (wf_zero_empty _ _ W' Z) as Emp.
        rewrite (files_empty_apply ps rest' L2 Emp), (files_all_empty ps Emp), app_nil_r.
        assert (Est : map st rest' = map sz rest').
        { clear -F2. induction F2 as [|h r [A _] _ IHr]; [reflexivity|]. cbn [map]. rewrite A, IHr. reflexivity. }
        rewrite Est. rewrite !resize_grow by lia. rewrite <- app_assoc, <- repeat_app. do 2 f_equal. lia.
      * (* shrunk to what is left; nothing remains for the others *)
        rewrite Hs in *. rewrite N.sub_diag in E2.
        destruct (chsize_loop_zero k g _ _ _ _ E2) as [Z0 _].
        assert (S0 : sum (map sz rest') = 0).
        { apply sum_all_zero. clear -Z0. induction Z0; cbn [map]; constructor; auto. }
        rewrite IH, S0, N.add_0_r. unfold resize at 2. cbn [N.to_nat firstn repeat app]. rewrite app_nil_r.
        symmetry. apply resize_app_le. lia.
Qed.

Lemma chsize_concat : forall ps size ps', wf bs ps ->
  chsize_data g bs ps size = Ok ps' ->
  wf bs ps' /\ (bs | size) /\ sum (sizes_of ps') = size /\ files ps' = resize (files ps) size.
Proof.
  intros ps size ps' W H. unfold chsize_data, chsize in H.
  destruct (chsize_loop g bs 0 (map to_h ps) size) as [[hs' rem]|e] eqn:E; [|discriminate].
  destruct (N.eqb_spec rem 0) as [->|]; [|discriminate]. injection H as <-.
  destruct (chsize_loop_sum k g _ _ _ _ _ E) as [L [S [F _]]]. rewrite map_length in L.
  destruct (apply_sizes_wf bs ps hs' L F) as [W' S'].
  assert (Hsz : (bs | size)).
  { rewrite N.add_0_r in S. rewrite <- S. clear -F. induction F as [|h r [_ A] _ IH]; cbn [map sum].
    - apply N.divide_0_r.
    - apply N.divide_add_r; assumption. }
  split; [exact W'|]. split; [exact Hsz|]. split; [rewrite S'; lia|].
  rewrite (chsize_loop_files ps 0 size hs' 0 W Hsz E). f_equal. lia.
Qed.

(* any history of writes and resizes: the concatenation of the splits is what the same history does to
   one flat file.  No hypothesis on the growth oracle. *)
Lemma split_concat : forall ops ps ps', wf bs ps ->
  run_ops g bs ps ops = Some ps' ->
  wf bs ps' /\ concat_view ps' = fold_left (flat_op bs) ops (concat_view ps).
Proof.
  induction ops as [|o ops IH]; intros ps ps' W H.
  - cbn in H. injection H as <-. auto.
  - cbn [run_ops] in H. destruct (step_op g bs ps o) as [ps1|] eqn:E; [|discriminate].
    assert (Step : wf bs ps1 /\ files ps1 = flat_op bs (files ps) o).
    { destruct o as [pos blk|size]; cbn [step_op flat_op] in *.
      - destruct (Nat.eqb_spec (length blk) (N.to_nat bs)) as [Hl|]; [|discriminate].
        destruct (write_concat bs ps pos blk ps1 (pow2_pos k) W Hl E) as [W1 [S1 F1]].
        split; [exact W1|exact F1].
      - destruct (chsize_data g bs ps size) as [ps1'|e] eqn:E1; [|discriminate]. injection E as <-.
        destruct (chsize_concat ps size ps1' W E1) as [W1 [_ [_ F1]]].
        split; [exact W1|exact F1]. }
    destruct Step as [W1 F1]. destruct (IH ps1 ps' W1 H) as [W' C'].
    split; [exact W'|]. rewrite C'. cbn [fold_left].
    rewrite (view_wf bs ps1 W1), (view_wf bs ps W), F1. reflexivity.
Qed.

End Resize.

(* the one-file configuration: a single split, growth never refused: every resize to an aligned size succeeds
   and is ftruncate *)
Lemma single_resize_ok : forall k (p : psplit) size, wf (2^k) [p] -> (2^k | size) ->
  exists p', chsize_data (fun _ _ => true) (2^k) [p] size = Ok [p'] /\
             p_size p' = size /\ p_file p' = resize (p_file p) size.
Proof.
  intros k p size W Hsz. inversion W as [|? ? [Wl Wa] _]; subst.
  assert (Hh : exists h1, handle_chsize (fun _ => true) (2^k) (to_h p) size = Ok h1 /\ st h1 = size).
  { unfold handle_chsize. cbn [to_h st]. destruct (N.ltb_spec (N.of_nat (length (p_file p))) size) as [Hlt|Hge].
    - assert (Hm : mask_down (2^k) (N.of_nat (length (p_file p))) <= size).
      { pose proof (mask_down_le k (N.of_nat (length (p_file p)))). lia. }
      destruct (fill_maximal (fun _ => true) k ltac:(auto) _ size Hsz Hm) as [b [Eb [_ [_ [_ [Hb _]]]]]].
      rewrite Eb. destruct Hb as [->|Hb]; [|discriminate]. eexists. split; reflexivity.
    - eexists. split; reflexivity. }
  destruct Hh as [h1 [E1 Hs1]].
  unfold chsize_data, chsize. cbn [map]. rewrite chsize_loop_cons.
  change (keep_of [] size (to_h p)) with false. change (run_of [] size (to_h p)) with size.
  cbn [andb]. rewrite E1, Hs1, N.ltb_irrefl.
  assert (M : misaligned (2^k) size = false) by (apply misaligned_false; exact Hsz).
  rewrite M, N.sub_diag. cbn [chsize_loop N.eqb apply_sizes sz st valid].
  eexists. split; [reflexivity|]. split; reflexivity.
Qed.

(* two layouts of the same parity content stay equal under the same history (e.g. 4 splits vs 1 file), whatever the
   two growth oracles are *)
Lemma split_vs_single : forall k g1 g2 ops ps qs ps' qs', wf (2^k) ps -> wf (2^k) qs ->
  concat_view ps = concat_view qs ->
  run_ops g1 (2^k) ps ops = Some ps' -> run_ops g2 (2^k) qs ops = Some qs' ->
  concat_view ps' = concat_view qs'.
Proof.
  intros k g1 g2 ops ps qs ps' qs' Wp Wq E Hp Hq.
  destruct (split_concat k g1 ops ps ps' Wp Hp) as [_ A].
  destruct (split_concat k g2 ops qs qs' Wq Hq) as [_ B].
  rewrite A, B, E. reflexivity.
Qed.

(* the growth oracle may change between two parts of a history (disk space freed or used up by something else) *)
Lemma split_concat_changing_oracle : forall k g1 g2 ops1 ops2 ps ps1 ps2, wf (2^k) ps ->
  run_ops g1 (2^k) ps ops1 = Some ps1 -> run_ops g2 (2^k) ps1 ops2 = Some ps2 ->
  wf (2^k) ps2 /\ concat_view ps2 = fold_left (flat_op (2^k)) (ops1 ++ ops2) (concat_view ps).
Proof.
  intros k g1 g2 ops1 ops2 ps ps1 ps2 W H1 H2.
  destruct (split_concat k g1 ops1 ps ps1 W H1) as [W1 C1].
  destruct (split_concat k g2 ops2 ps1 ps2 W1 H2) as [W2 C2].
  split; [exact W2|]. rewrite C2, C1, fold_left_app. reflexivity.
Qed.

(* --- re-opening -------------------------------------------------------------------------------------- *)
Lemma reopen_read : forall bs ps pos b, 0 < bs -> parity_read bs ps pos = Some b ->
  parity_read bs (parity_reopen ps) pos = Some b.
Proof.
  intros bs ps pos b Hbs H. unfold parity_read in *.
  assert (S : sizes_of (parity_reopen ps) = sizes_of ps).
  { unfold sizes_of, parity_reopen. rewrite map_map. reflexivity. }
  rewrite S. destruct (split_find (sizes_of ps) (block_off bs pos)) as [[s o]|]; [|discriminate].
  unfold parity_reopen. rewrite nth_error_map. destruct (nth_error ps s) as [p|]; [|discriminate].
  cbn [option_map p_valid p_file]. destruct (N.leb_spec (p_valid p) o); [discriminate|].
  apply pread_spec in H as H'. destruct H' as [Hl _].
  destruct (N.leb_spec (N.of_nat (length (p_file p))) o); [lia|exact H].
Qed.

(* --- reading a (re-opened) split parity is reading the flat file ----------------------------------------- *)
Lemma pread_app_l f R o n : (o + n <= length f)%nat -> pread (f ++ R) o n = pread f o n.
Proof.
  intros H. unfold pread. rewrite app_length.
  destruct (Nat.leb_spec (o + n) (length f + length R)); [|lia].
  destruct (Nat.leb_spec (o + n) (length f)); [|lia].
  f_equal. rewrite skipn_app, firstn_app, skipn_length.
  replace (n - (length f - o))%nat with 0%nat by lia. cbn [firstn]. apply app_nil_r.
Qed.

Lemma pread_app_r f R o n : (length f <= o)%nat -> pread (f ++ R) o n = pread R (o - length f) n.
Proof.
  intros H. unfold pread. rewrite app_length.
  destruct (Nat.leb_spec (o + n) (length f + length R)); destruct (Nat.leb_spec (o - length f + n) (length R)); try lia; [|reflexivity].
  f_equal. rewrite skipn_app, (skipn_all2 f) by exact H. reflexivity.
Qed.

Lemma files_pread : forall bs ps s p o n, wf bs ps -> nth_error ps s = Some p ->
  (N.to_nat o + n <= length (p_file p))%nat ->
  pread (files ps) (N.to_nat (prefix (sizes_of ps) s + o)) n = pread (p_file p) (N.to_nat o) n.
Proof.
  intros bs ps s p o n W. revert s. induction W as [|q r [Hl _] W IH]; intros s Hp Ho.
  - destruct s; discriminate.
  - destruct s as [|s]; cbn in Hp.
    + injection Hp as ->. unfold files, prefix. cbn [map concat sizes_of firstn sum]. rewrite N.add_0_l.
      apply pread_app_l. exact Ho.
    + unfold files, prefix in *. cbn [map concat sizes_of firstn sum].
      change (map p_size r) with (sizes_of r). rewrite pread_app_r by lia.
      rewrite <- (IH s Hp Ho). f_equal. lia.
Qed.

Lemma read_is_flat : forall bs ps pos, 0 < bs -> wf bs ps ->
  parity_read bs (parity_reopen ps) pos = pread (files ps) (N.to_nat (block_off bs pos)) (N.to_nat bs).
Proof.
  intros bs ps pos Hbs W. unfold parity_read.
  assert (S : sizes_of (parity_reopen ps) = sizes_of ps).
  { unfold sizes_of, parity_reopen. rewrite map_map. reflexivity. }
  rewrite S. destruct (split_find_bijection (sizes_of ps)) as [T [Out _]].
  destruct (N.lt_ge_cases (block_off bs pos) (sum (sizes_of ps))) as [Hlt|Hge].
  - destruct (T _ Hlt) as [s [o [E [[Hk _] Hp]]]]. rewrite E. cbn [fst] in Hk.
    destruct (no_straddle bs (sizes_of ps) pos s o Hbs (wf_aligned _ _ W) E) as [_ Hfit].
    destruct (nth_error_sizes_of ps s Hk) as [p Hp0]. rewrite (nth_sizes_of ps s p Hp0) in Hfit.
    assert (Wp : N.of_nat (length (p_file p)) = p_size p).
    { unfold wf in W. rewrite Forall_forall in W. apply W. eapply nth_error_In. exact Hp0. }
    unfold parity_reopen. rewrite nth_error_map, Hp0. cbn [option_map p_valid p_file].
    destruct (N.leb_spec (N.of_nat (length (p_file p))) o); [lia|].
    rewrite <- Hp. symmetry. apply (files_pread bs ps s p o _ W Hp0). lia.
  - rewrite Out by exact Hge. pose proof (files_length bs ps W) as L. unfold pread.
    destruct (Nat.leb_spec (N.to_nat (block_off bs pos) + N.to_nat bs) (length (files ps))); [lia|reflexivity].
Qed.

(* what is written at a position is read back from that position after any resize (growth or shrinkage, across
   split boundaries) that keeps the position inside the parity, and re-opening *)
Lemma read_after_resize : forall k g ps pos blk ps1 size ps2, wf (2^k) ps ->
  length blk = N.to_nat (2^k) ->
  parity_write (2^k) ps pos blk = Some ps1 ->
  chsize_data g (2^k) ps1 size = Ok ps2 ->
  block_off (2^k) pos + 2^k <= size ->
  parity_read (2^k) (parity_reopen ps2) pos = Some blk.
Proof.
  intros k g ps pos blk ps1 size ps2 W Hl Hw Hr Hin.
  pose proof (pow2_pos k) as Hbs.
  destruct (write_concat (2^k) ps pos blk ps1 Hbs W Hl Hw) as [W1 [S1 F1]].
  destruct (chsize_concat k g ps1 size ps2 W1 Hr) as [W2 [_ [_ F2]]].
  rewrite (read_is_flat (2^k) ps2 pos Hbs W2), F2, F1.
  assert (Hin0 : block_off (2^k) pos < sum (sizes_of ps)).
  { destruct (N.lt_ge_cases (block_off (2^k) pos) (sum (sizes_of ps))) as [|Hge]; [assumption|].
    apply (write_none_iff (2^k) ps pos blk) in Hge. congruence. }
  pose proof (files_length (2^k) ps W) as L.
  apply pread_spec. rewrite resize_length. split; [lia|]. split; [exact Hl|].
  intros j Hj. unfold resize. rewrite app_nth1.
  2:{ rewrite firstn_length, length_pwrite. lia. }
  rewrite nth_firstn_lt by lia. rewrite nth_pwrite.
  destruct (Nat.ltb_spec (N.to_nat (block_off (2^k) pos) + j) (N.to_nat (block_off (2^k) pos))); [lia|].
  destruct (Nat.ltb_spec (N.to_nat (block_off (2^k) pos) + j) (N.to_nat (block_off (2^k) pos) + length blk)); [|lia].
  f_equal. lia.
Qed.

(* the layout that used to lose parity: a block written into the last split is still there after the growth *)
Lemma read_after_resize_midzero_example :
  let ps := [ {| p_size := 4; p_valid := 4; p_file := [1; 2; 3; 4] |}; {| p_size := 0; p_valid := 0; p_file := [] |};
              {| p_size := 4; p_valid := 4; p_file := [0; 0; 0; 0] |} ] in
  exists ps1 ps2, wf (2^2) ps /\ parity_write (2^2) ps 1 [5; 6; 7; 8] = Some ps1 /\
    chsize_data (fun _ _ => true) (2^2) ps1 12 = Ok ps2 /\ sizes_of ps2 = [4; 0; 8] /\
    parity_read (2^2) (parity_reopen ps2) 1 = Some [5; 6; 7; 8] /\
    concat_view ps2 = resize (concat_view ps1) 12.
Proof.
  cbv zeta. eexists. eexists.
  split; [repeat constructor; try (exists 1; reflexivity); exists 0; reflexivity|].
  split; [vm_compute; reflexivity|]. split; [vm_compute; reflexivity|]. repeat split; vm_compute; reflexivity.
Qed.

(* --- the hypothesis wf: what breaks it, what restores it, and why it is needed ------------------------------- *)
(* a successful resize always ends with every file at its recorded, block-aligned size -- from ANY state *)
Lemma chsize_reestablishes_wf : forall k g ps size ps', chsize_data g (2^k) ps size = Ok ps' -> wf (2^k) ps'.
Proof.
  intros k g ps size ps' H. unfold chsize_data, chsize in H.
  destruct (chsize_loop g (2^k) 0 (map to_h ps) size) as [[hs' rem]|e] eqn:E; [|discriminate].
  destruct (N.eqb_spec rem 0) as [->|]; [|discriminate]. injection H as <-.
  destruct (chsize_loop_sum k g _ _ _ _ _ E) as [L [_ [F _]]]. rewrite map_length in L.
  apply (apply_sizes_wf (2^k) ps hs' L F).
Qed.

(* parity_truncate (after fix) cuts a file to its valid size, which growth does not raise: wf is lost *)
Lemma truncate_breaks_wf :
  exists ps, wf (2^2) ps /\ ~ wf (2^2) (parity_truncate ps).
Proof.
  exists [ {| p_size := 4; p_valid := 0; p_file := [0; 0; 0; 0] |} ]. split.
  - repeat constructor. exists 1. reflexivity.
  - intros W. inversion W as [|? ? [Hl _] _]; subst. vm_compute in Hl. discriminate.
Qed.

(* without wf the refinement statement is false: split 0 was cut to 8 of its 16 recorded bytes and can no longer
   grow beyond 8; a resize to 16 accepts it shorter and lays the rest out in split 1, whose old bytes then sit at
   positions that read as zeros before *)
Lemma split_concat_needs_wf :
  exists k g ps size ps', chsize_data g (2^k) ps size = Ok ps' /\
    concat_view ps' <> resize (concat_view ps) size.
Proof.
  exists 2, (limits_oracle [8; 14; 9]),
    [ {| p_size := 16; p_valid := 8; p_file := [0; 0; 0; 0; 59; 60; 61; 62] |};
      {| p_size := 4; p_valid := 4; p_file := [91; 92; 93; 94] |};
      {| p_size := 0; p_valid := 0; p_file := [] |} ], 16.
  eexists. split; [vm_compute; reflexivity|]. vm_compute. discriminate.
Qed.
