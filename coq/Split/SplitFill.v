(* C17 -- parity_handle_fill: with a monotone growth oracle the bit-by-bit loop ends at the largest
   reachable block-aligned size.  (Completed from design_evidence/split_prototype/Fill.v.) *)
From Coq Require Import NArith List Bool Lia.
From Snap.Split Require Import SplitModel.
Import ListNotations.
Local Open Scope N_scope.

Lemma pow2_pos n : 0 < 2^n.
Proof. assert (H := N.pow_nonzero 2 n ltac:(lia)). lia. Qed.

(* --- hbit_u64 = 2^floor(log2 v) ------------------------------------------------------------------ *)
Lemma hbit_pos_spec p : Npos (hbit_pos p) <= Npos p /\ Npos p < 2 * Npos (hbit_pos p).
Proof. induction p as [q IH|q IH|]; cbn [hbit_pos]; lia. Qed.

Lemma hbit_pos_pow2 p : exists j, Npos (hbit_pos p) = 2^j.
Proof.
  induction p as [q [j IH]|q [j IH]|]; cbn [hbit_pos].
  - exists (N.succ j). rewrite N.pow_succ_r'. lia.
  - exists (N.succ j). rewrite N.pow_succ_r'. lia.
  - exists 0. reflexivity.
Qed.

Lemma hbit_log2 v : hbit v = 2 ^ N.log2 v.
Proof.
  destruct v as [|p]; [reflexivity|]. cbn [hbit].
  destruct (hbit_pos_pow2 p) as [j Hj]. destruct (hbit_pos_spec p) as [H1 H2]. rewrite Hj in *.
  f_equal. symmetry. apply N.log2_unique; [lia|]. rewrite N.pow_succ_r'. lia.
Qed.

Lemma hbit_le d : d <> 0 -> hbit d <= d /\ d < 2 * hbit d.
Proof. destruct d as [|p]; [congruence|]. intros _. apply hbit_pos_spec. Qed.

(* delta &= ~run  with run the highest bit: subtraction *)
Lemma ldiff_hbit_pos p : Pos.ldiff p (hbit_pos p) = Npos p - Npos (hbit_pos p).
Proof.
  induction p as [q IH|q IH|]; cbn [hbit_pos Pos.ldiff].
  - rewrite IH. pose proof (hbit_pos_spec q). destruct (Npos q - Npos (hbit_pos q)) eqn:E; cbn [Pos.Nsucc_double]; lia.
  - rewrite IH. pose proof (hbit_pos_spec q). destruct (Npos q - Npos (hbit_pos q)) eqn:E; cbn [Pos.Ndouble]; lia.
  - reflexivity.
Qed.

Lemma ldiff_hbit d : d <> 0 -> N.ldiff d (hbit d) = d - hbit d.
Proof. destruct d as [|p]; [congruence|]. intros _. cbn [hbit N.ldiff]. apply ldiff_hbit_pos. Qed.

(* --- masks for a power-of-two block size ------------------------------------------------------------ *)
Lemma mask_down_pow2 k x : mask_down (2^k) x = x / 2^k * 2^k.
Proof.
  unfold mask_down. replace (2^k - 1) with (N.ones k) by (rewrite N.ones_equiv; lia).
  rewrite N.ldiff_ones_r, N.shiftl_mul_pow2, N.shiftr_div_pow2. reflexivity.
Qed.

Lemma misaligned_pow2 k x : misaligned (2^k) x = negb (x mod 2^k =? 0).
Proof.
  unfold misaligned. replace (2^k - 1) with (N.ones k) by (rewrite N.ones_equiv; lia).
  rewrite N.land_ones. reflexivity.
Qed.

Lemma mask_down_le k x : mask_down (2^k) x <= x.
Proof. rewrite mask_down_pow2. pose proof (pow2_pos k). pose proof (N.mul_div_le x (2^k) ltac:(lia)). lia. Qed.

Lemma mask_down_divide k x : (2^k | mask_down (2^k) x).
Proof. rewrite mask_down_pow2. exists (x / 2^k). reflexivity. Qed.

Lemma mask_down_aligned k x : (2^k | x) -> mask_down (2^k) x = x.
Proof.
  intros [a ->]. rewrite mask_down_pow2. pose proof (pow2_pos k). rewrite N.div_mul by lia. reflexivity.
Qed.

Lemma divide_mod bs x : 0 < bs -> (bs | x) <-> x mod bs = 0.
Proof. intros H. symmetry. apply N.mod_divide. lia. Qed.

Section Fill.
Variable ok : N -> bool.                       (* growing the file to this size succeeds *)
Variable k : N.                                (* block size = 2^k *)
Notation bs := (2 ^ k).

(* (2^j - 1) & ~(bs-1) = 2^j - bs for j >= k *)
Lemma mask_pow_pred j : k <= j -> mask_down bs (2^j - 1) = 2^j - bs.
Proof.
  intros Hkj. rewrite mask_down_pow2.
  assert (E : 2^j = 2^(j - k) * 2^k) by (rewrite <- N.pow_add_r; f_equal; lia).
  set (q := 2^(j-k)) in *. assert (0 < q) by (apply pow2_pos). pose proof (pow2_pos k).
  rewrite E. replace (q * 2^k - 1) with ((q - 1) * 2^k + (2^k - 1)) by nia.
  rewrite N.div_add_l by lia. rewrite N.div_small by lia. nia.
Qed.

Lemma hbit_pow_minus j : k < j -> hbit (2^j - bs) = 2^(j - 1).
Proof.
  intros Hkj. rewrite hbit_log2. f_equal.
  assert (Ej : j = N.succ (j - 1)) by lia.
  assert (P : 2^j = 2 * 2^(j-1)) by (rewrite Ej at 1; rewrite N.pow_succ_r'; reflexivity).
  assert (Hbs : bs <= 2^(j-1)) by (apply N.pow_le_mono_r; lia).
  pose proof (pow2_pos k).
  apply N.log2_unique; [lia|]. split; [lia|]. rewrite N.pow_succ_r'. lia.
Qed.

(* Phase B: after a refused bit 2^j the loop is a binary search below base + 2^j *)
Lemma phaseB : forall fuel base j b, k <= j ->
  ok (base + 2^j) = false ->
  fill_loop ok bs fuel (base, 2^j - bs) = Some b ->
  base <= b /\ b < base + 2^j /\ (bs | b - base) /\ ok (b + bs) = false /\ (b <> base -> ok b = true).
Proof.
  induction fuel as [|fuel IH]; intros base j b Hkj Hno H; cbn [fill_loop snd fst] in H.
  - destruct (N.eqb_spec (2^j - bs) 0) as [Hz|Hnz]; [|discriminate]. injection H as <-.
    assert (2^k <= 2^j) by (apply N.pow_le_mono_r; lia). assert (E : 2^j = 2^k) by lia.
    pose proof (pow2_pos j).
    split; [lia|]. split; [lia|]. split; [exists 0; lia|]. split; [rewrite <- E; exact Hno|congruence].
  - destruct (N.eqb_spec (2^j - bs) 0) as [Hz|Hnz].
    + injection H as <-.
      assert (2^k <= 2^j) by (apply N.pow_le_mono_r; lia). assert (E : 2^j = 2^k) by lia.
      pose proof (pow2_pos j).
      split; [lia|]. split; [lia|]. split; [exists 0; lia|]. split; [rewrite <- E; exact Hno|congruence].
    + assert (Hjk : k < j).
      { destruct (N.eq_dec j k) as [->|]; [lia|lia]. }
      set (j' := j - 1) in *. assert (Ej : j = N.succ j') by lia.
      assert (P : 2^j = 2 * 2^j') by (rewrite Ej, N.pow_succ_r'; reflexivity).
      assert (Hbs : bs <= 2^j') by (apply N.pow_le_mono_r; lia).
      assert (Hpos : 0 < bs) by (apply pow2_pos).
      unfold fill_step in H. rewrite ldiff_hbit in H by exact Hnz.
      rewrite (hbit_pow_minus j Hjk) in H. fold j' in H.
      destruct (ok (base + 2^j')) eqn:Hok.
      * replace (2^j - bs - 2^j') with (2^j' - bs) in H by lia.
        assert (Hno' : ok (base + 2^j' + 2^j') = false)
          by (replace (base + 2^j' + 2^j') with (base + 2^j) by lia; exact Hno).
        destruct (IH (base + 2^j') j' b ltac:(lia) Hno' H) as [H1 [H2 [[c Hc] [H5 H6]]]].
        split; [lia|]. split; [lia|]. split.
        { assert (E : 2^j' = 2^(j' - k) * 2^k) by (rewrite <- N.pow_add_r; f_equal; lia).
          exists (c + 2^(j'-k)). lia. }
        split; [exact H5|].
        intros _. destruct (N.eq_dec b (base + 2^j')) as [->|Hne]; [exact Hok|apply H6; exact Hne].
      * rewrite (mask_pow_pred j' ltac:(lia)) in H.
        destruct (IH base j' b ltac:(lia) Hok H) as [H1 [H2 [H4 [H5 H6]]]].
        split; [lia|]. split; [lia|]. split; [exact H4|]. split; [exact H5|exact H6].
Qed.

(* the whole loop, from any block-aligned state *)
Lemma fill_loop_inv : forall fuel base delta b, (bs | delta) ->
  fill_loop ok bs fuel (base, delta) = Some b ->
  base <= b /\ b <= base + delta /\ (bs | b - base) /\
  (b = base + delta \/ ok (b + bs) = false) /\ (b <> base -> ok b = true).
Proof.
  induction fuel as [|fuel IH]; intros base delta b Hd H; cbn [fill_loop snd fst] in H.
  - destruct (N.eqb_spec delta 0) as [->|]; [|discriminate]. injection H as <-.
    split; [lia|]. split; [lia|]. split; [exists 0; lia|]. split; [left; lia|congruence].
  - destruct (N.eqb_spec delta 0) as [->|Hnz].
    + injection H as <-.
      split; [lia|]. split; [lia|]. split; [exists 0; lia|]. split; [left; lia|congruence].
    + assert (Hpos : 0 < bs) by (apply pow2_pos).
      unfold fill_step in H. rewrite ldiff_hbit in H by exact Hnz.
      destruct (hbit_le delta Hnz) as [Hh1 Hh2]. rewrite hbit_log2 in *. set (j := N.log2 delta) in *.
      assert (Hkj : k <= j).
      { destruct Hd as [c Hc]. assert (c <> 0) by (intros ->; lia).
        destruct (N.le_gt_cases k j) as [|Hlt]; [assumption|exfalso].
        assert (2 * 2^j <= 2^k).
        { rewrite <- N.pow_succ_r'. apply N.pow_le_mono_r; lia. }
        nia. }
      assert (Hdj : (bs | 2^j)).
      { exists (2^(j-k)). rewrite <- N.pow_add_r. f_equal. lia. }
      destruct (ok (base + 2^j)) eqn:Hok.
      * assert (Hd' : (bs | delta - 2^j)) by (apply N.divide_sub_r; assumption).
        destruct (IH _ _ _ Hd' H) as [H1 [H2 [[c Hc] [H4 H5]]]].
        split; [lia|]. split; [lia|]. split.
        { destruct Hdj as [c' Hc']. exists (c + c'). lia. }
        split; [destruct H4 as [->|H4]; [left; lia|right; exact H4]|].
        intros _. destruct (N.eq_dec b (base + 2^j)) as [->|Hne]; [exact Hok|apply H5; exact Hne].
      * rewrite (mask_pow_pred j Hkj) in H.
        destruct (phaseB _ _ _ _ Hkj Hok H) as [H1 [H2 [H3 [H4 H5]]]].
        split; [lia|]. split; [lia|]. split; [exact H3|]. split; [right; exact H4|exact H5].
Qed.

(* the fuel handed over by handle_fill is enough: the number of bits of delta strictly decreases *)
Lemma fill_loop_fuel : forall fuel base delta,
  (N.to_nat (N.size delta) <= fuel)%nat -> fill_loop ok bs fuel (base, delta) <> None.
Proof.
  induction fuel as [|fuel IH]; intros base delta Hf; cbn [fill_loop snd fst].
  - destruct (N.eqb_spec delta 0) as [->|Hnz]; [discriminate|].
    rewrite N.size_log2 in Hf by exact Hnz. lia.
  - destruct (N.eqb_spec delta 0) as [->|Hnz]; [discriminate|].
    unfold fill_step. rewrite ldiff_hbit by exact Hnz.
    destruct (hbit_le delta Hnz) as [Hh1 Hh2]. rewrite hbit_log2 in *. set (j := N.log2 delta) in *.
    rewrite N.size_log2 in Hf by exact Hnz. fold j in Hf.
    assert (Small : forall x, x < 2^j -> (N.to_nat (N.size x) <= fuel)%nat).
    { intros x Hx. destruct (N.eq_dec x 0) as [->|Hx0]; [cbn; lia|].
      rewrite N.size_log2 by exact Hx0.
      assert (N.log2 x < j) by (apply N.log2_lt_pow2; lia). lia. }
    destruct (ok (base + 2^j)); apply IH; apply Small.
    + lia.
    + pose proof (mask_down_le k (2^j - 1)). pose proof (pow2_pos j). lia.
Qed.

Hypothesis ok_mono : forall x y, x <= y -> ok y = true -> ok x = true.

(* parity_handle_fill *)
Lemma fill_maximal : forall st_size size,
  (bs | size) -> mask_down bs st_size <= size ->
  exists b, handle_fill ok bs st_size size = Ok b /\
    (bs | b) /\ mask_down bs st_size <= b /\ b <= size /\
    (b = size \/ ok (b + bs) = false) /\
    (b <> mask_down bs st_size -> ok b = true) /\
    (* maximal among the block-aligned sizes the oracle accepts *)
    (forall x, (bs | x) -> mask_down bs st_size <= x -> x <= size -> ok x = true -> x <= b).
Proof.
  intros st_size size Hsz Hle. unfold handle_fill.
  set (base := mask_down bs st_size) in *.
  assert (Hb : (bs | base)) by (apply mask_down_divide).
  assert (Hd : (bs | size - base)) by (apply N.divide_sub_r; assumption).
  destruct (fill_loop ok bs (fill_fuel (size - base)) (base, size - base)) as [b|] eqn:E.
  2:{ exfalso. revert E. apply fill_loop_fuel. unfold fill_fuel. lia. }
  destruct (fill_loop_inv _ _ _ _ Hd E) as [H1 [H2 [H3 [H4 H5]]]].
  assert (Hbb : (bs | b)).
  { replace b with ((b - base) + base) by lia. apply N.divide_add_r; assumption. }
  assert (Hpos : 0 < bs) by (apply pow2_pos).
  rewrite misaligned_pow2. apply divide_mod in Hbb; [|exact Hpos]. rewrite Hbb. cbn [N.eqb negb].
  exists b. split; [reflexivity|]. apply divide_mod in Hbb; [|exact Hpos].
  split; [exact Hbb|]. split; [exact H1|]. split; [lia|].
  split; [destruct H4 as [->|H4]; [left; lia|right; exact H4]|]. split; [exact H5|].
  intros x Hx Hx1 Hx2 Hokx. destruct H4 as [->|H4]; [lia|].
  destruct (N.le_gt_cases x b) as [|Hgt]; [assumption|exfalso].
  destruct Hx as [cx Hcx]. destruct Hbb as [cb Hcb].
  assert (b + bs <= x).
  { subst x b. assert (cb < cx) by nia. replace (cb * bs + bs) with ((cb + 1) * bs) by lia.
    apply N.mul_le_mono_r. lia. }
  rewrite (ok_mono (b + bs) x) in H4 by assumption. discriminate.
Qed.

End Fill.

(* the limit oracle of --test-parity-limit is monotone *)
Lemma grow_ok_limit_mono limit x y : x <= y -> grow_ok_limit limit y = true -> grow_ok_limit limit x = true.
Proof.
  unfold grow_ok_limit. intros Hxy H. apply orb_true_iff in H. apply orb_true_iff.
  destruct H as [H|H]; [left; exact H|right]. apply N.leb_le in H. apply N.leb_le. lia.
Qed.
