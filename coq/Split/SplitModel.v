(* C17 -- executable model of split parity (cmdline/parity.c).  Definitions only: this file is what gets
   extracted and run side by side with the C code (harness/c/c17_drv.c, harness/py/check_C17.py).

   Transcribed branch by branch from:
     parity_split_find        parity.c:827-844
     parity_write/parity_read parity.c:846-948   (addressing, valid_size, pwrite/pread on the split file)
     hbit_u64                 parity.c:363-372
     parity_handle_fill       parity.c:374-486   (the grow loop; `grow_ok` abstracts parity_handle_grow)
     parity_handle_chsize     parity.c:488-539
     parity_split_is_fixed    parity.c:541-552   (a split is fixed iff ANY later split has a non-zero size)
     parity_chsize            parity.c:557-660
     parity_truncate          parity.c:774-796
     PARITY_LIMIT             parity.c:29-30     (per-split pseudo random limit of --test-parity-limit)
     dropped-split rule       state.c:2770-2786  (reading the 'Q' record)

   Sizes, offsets: unbounded N (data_off_t is int64; nothing here relies on wrap-around, the negative-offset
   test of parity_split_find is the Z wrapper split_find_z).  nat: split indices, list positions, fuel. *)
From Coq Require Import NArith ZArith List Bool.
Import ListNotations.
Local Open Scope N_scope.

(* ------------------------------------------------------------------------------------------------ *)
(* parity_split_find: walk the splits subtracting the recorded sizes.
   Result: (Some index | None, final value of *offset).  Past the end: None and the residual offset
   (what the "outside range at extra offset" message prints). *)
Fixpoint split_find_from (s : nat) (sizes : list N) (off : N) : option nat * N :=
  match sizes with
  | [] => (None, off)
  | sz :: rest => if off <? sz then (Some s, off) else split_find_from (S s) rest (off - sz)
  end.

Definition split_find_raw (sizes : list N) (off : N) : option nat * N := split_find_from 0 sizes off.

Definition split_find (sizes : list N) (off : N) : option (nat * N) :=
  match split_find_raw sizes off with
  | (Some s, o) => Some (s, o)
  | (None, _) => None
  end.

(* the signed entry test `if ( *offset < 0) return 0;` (offset left untouched) *)
Definition split_find_z (sizes : list N) (off : Z) : option nat * Z :=
  match off with
  | Zneg _ => (None, off)
  | _ => let '(r, o) := split_find_raw sizes (Z.to_N off) in (r, Z.of_N o)
  end.

(* offset = pos * (data_off_t)block_size *)
Definition block_off (bs pos : N) : N := pos * bs.

Definition parity_addr (sizes : list N) (bs pos : N) : option (nat * N) := split_find sizes (block_off bs pos).

(* ------------------------------------------------------------------------------------------------ *)
(* split files as byte lists; pwrite / pread of the operating system (sparse extension reads as zero) *)
Definition file := list N.

Definition pwrite (f : file) (off : nat) (data : list N) : file :=
  firstn off (f ++ repeat 0 (off - length f)) ++ data ++ skipn (off + length data) f.

(* parity_read loops until block_size bytes are read; a 0-byte read (end of file) is an error *)
Definition pread (f : file) (off n : nat) : option (list N) :=
  if (off + n <=? length f)%nat then Some (firstn n (skipn off f)) else None.

(* ftruncate: cut, or extend with zeros *)
Definition resize (f : file) (n : N) : file :=
  firstn (N.to_nat n) f ++ repeat 0 (N.to_nat n - length f).

Record psplit := { p_size : N;          (* recorded size (split->size) *)
                   p_valid : N;         (* split->valid_size *)
                   p_file : file }.     (* the bytes on disk; st_size = length *)

Fixpoint upd {A : Type} (n : nat) (g : A -> A) (l : list A) : list A :=
  match l, n with
  | [], _ => []
  | x :: r, O => g x :: r
  | x :: r, S m => x :: upd m g r
  end.

Definition sizes_of (ps : list psplit) : list N := map p_size ps.

(* parity_write: None = "Writing parity data outside range" *)
Definition parity_write (bs : N) (ps : list psplit) (pos : N) (blk : list N) : option (list psplit) :=
  match split_find (sizes_of ps) (block_off bs pos) with
  | None => None
  | Some (s, o) =>
    Some (upd s (fun p => {| p_size := p_size p;
                             p_valid := if p_valid p <? o + bs then o + bs else p_valid p;
                             p_file := pwrite (p_file p) (N.to_nat o) blk |}) ps)
  end.

(* parity_read: None = outside range | "Missing data" (offset >= valid_size) | unexpected end of file *)
Definition parity_read (bs : N) (ps : list psplit) (pos : N) : option (list N) :=
  match split_find (sizes_of ps) (block_off bs pos) with
  | None => None
  | Some (s, o) =>
    match nth_error ps s with
    | None => None
    | Some p => if p_valid p <=? o then None else pread (p_file p) (N.to_nat o) (N.to_nat bs)
    end
  end.

(* parity_truncate (after fix): every split is cut to its valid size *)
Definition parity_truncate (ps : list psplit) : list psplit :=
  map (fun p => {| p_size := p_size p; p_valid := p_valid p; p_file := resize (p_file p) (p_valid p) |}) ps.

(* parity_close followed by parity_open/parity_create with the same recorded sizes:
   "the initial valid size is the size on disk" *)
Definition parity_reopen (ps : list psplit) : list psplit :=
  map (fun p => {| p_size := p_size p; p_valid := N.of_nat (length (p_file p)); p_file := p_file p |}) ps.

(* what the concatenation of the splits "restricted to the recorded sizes" is *)
Definition view (p : psplit) : file := resize (p_file p) (p_size p).
Definition concat_view (ps : list psplit) : file := concat (map view ps).

(* ------------------------------------------------------------------------------------------------ *)
(* hbit_u64: `ilog = 0; while ((v /= 2) != 0) ++ilog; return 1 << ilog`  (1 for v = 0) *)
Fixpoint hbit_pos (p : positive) : positive :=
  match p with
  | xH => xH
  | xO q => xO (hbit_pos q)
  | xI q => xO (hbit_pos q)
  end.
Definition hbit (v : N) : N := match v with N0 => 1 | Npos p => Npos (hbit_pos p) end.

(* block_mask = block_size - 1;  x & ~block_mask;  (x & block_mask) != 0 *)
Definition mask_down (bs x : N) : N := N.ldiff x (bs - 1).
Definition misaligned (bs x : N) : bool := negb (N.land x (bs - 1) =? 0).

(* one iteration of `while (delta != 0)`; state (base, delta) *)
Definition fill_step (grow_ok : N -> bool) (bs : N) (st : N * N) : N * N :=
  let '(base, delta) := st in
  let run := hbit delta in
  let delta1 := N.ldiff delta run in                 (* delta &= ~run *)
  if grow_ok (base + run) then (base + run, delta1)  (* base += run *)
  else (base, mask_down bs (run - 1)).               (* delta = (run - 1) & ~block_mask *)

Fixpoint fill_loop (grow_ok : N -> bool) (bs : N) (fuel : nat) (st : N * N) : option N :=
  if snd st =? 0 then Some (fst st) else
  match fuel with
  | O => None
  | S f => fill_loop grow_ok bs f (fill_step grow_ok bs st)
  end.

(* the same loop, returning the sequence of parity_handle_grow calls (target size, succeeded):
   the `split:grow` log tags (a limit failure returns before logging, so only successes are logged
   under --test-parity-limit) *)
Fixpoint fill_trace (grow_ok : N -> bool) (bs : N) (fuel : nat) (st : N * N) : list (N * bool) :=
  if snd st =? 0 then [] else
  match fuel with
  | O => []
  | S f => let t := fst st + hbit (snd st) in
           (t, grow_ok t) :: fill_trace grow_ok bs f (fill_step grow_ok bs st)
  end.

Inductive err :=
| EFuel               (* model artefact: fuel exhausted (excluded by fill_loop_fuel_enough) *)
| EAbort              (* os_abort(): "Internal inconsistency in ... parity size" *)
| EFixedMisaligned    (* "Internal inconsistency in split ... size with extra ... bytes" *)
| EOver               (* "Unexpected over resizing parity file" *)
| ERestore            (* "Failed restoring parity file" *)
| EMissing (n : N).   (* "Failed to allocate all the required parity space. You miss n bytes" *)

Inductive res (A : Type) := Ok (a : A) | Err (e : err).
Arguments Ok {A} a.
Arguments Err {A} e.

Definition fill_fuel (delta : N) : nat := S (N.to_nat (N.size delta)).

(* parity_handle_fill: returns the new on-disk size (the final parity_handle_shrink(split, base)) *)
Definition handle_fill (grow_ok : N -> bool) (bs st_size size : N) : res N :=
  let base := mask_down bs st_size in
  let delta := size - base in
  match fill_loop grow_ok bs (fill_fuel delta) (base, delta) with
  | None => Err EFuel
  | Some base' => if misaligned bs base' then Err EAbort else Ok base'
  end.

(* the handle of one split as far as resizing is concerned *)
Record hsplit := { sz : N;       (* split->size, the recorded size *)
                   st : N;       (* split->st.st_size *)
                   valid : N }.  (* split->valid_size *)

(* parity_handle_chsize (ftruncate for shrinking is assumed not to fail) *)
Definition handle_chsize (grow_ok : N -> bool) (bs : N) (h : hsplit) (size : N) : res hsplit :=
  let r := if st h <? size then handle_fill grow_ok bs (st h) size
           else Ok size in                       (* shrink to size, or nothing to do *)
  match r with
  | Err e => Err e
  | Ok st' => Ok {| sz := sz h; st := st'; valid := if st' <? valid h then st' else valid h |}
  end.

(* parity_split_is_fixed(handle, s): `for (++s; s < split_mac; ++s) if (split_map[s].size != 0) return 1; return 0;`
   -- over the splits after s, i.e. the tail of the list *)
Definition later_used (rest : list hsplit) : bool := existsb (fun n => negb (sz n =? 0)) rest.

(* parity_chsize, first loop.  parity_split_is_fixed reads the sizes of the splits after s, which this loop has
   not touched yet: they are `rest`.  grow_ok s x: growing split s to x succeeds. *)
Fixpoint chsize_loop (grow_ok : nat -> N -> bool) (bs : N) (s : nat) (hs : list hsplit) (size : N)
  : res (list hsplit * N) :=
  match hs with
  | [] => Ok ([], size)
  | h :: rest =>
    let fixed0 := later_used rest in
    let keep := fixed0 && negb (size <=? sz h) in      (* is_fixed after the `size <= split->size` test *)
    let run := if keep then sz h else size in
    if keep && misaligned bs run then Err EFixedMisaligned else
    match handle_chsize (grow_ok s) bs h run with
    | Err e => Err e
    | Ok h' =>
      if run <? st h' then Err EOver
      else if keep && (st h' <? run) then Err ERestore
      else if misaligned bs (st h') then Err EAbort
      else match chsize_loop grow_ok bs (S s) rest (size - st h') with
           | Err e => Err e
           | Ok (rest', rem) => Ok ({| sz := st h'; st := st h'; valid := valid h' |} :: rest', rem)
           end
    end
  end.

Fixpoint any_changed (old : list N) (new : list hsplit) : bool :=
  match old, new with
  | o :: olds, h :: news => negb (o =? sz h) || any_changed olds news
  | _, _ => false
  end.

(* parity_chsize: new handles and *is_modified (compared with parity->split_map[].size = `recorded`) *)
Definition chsize (grow_ok : nat -> N -> bool) (bs : N) (hs : list hsplit) (size : N) : res (list hsplit * bool) :=
  match chsize_loop grow_ok bs 0 hs size with
  | Err e => Err e
  | Ok (hs', rem) => if rem =? 0 then Ok (hs', any_changed (map sz hs) hs') else Err (EMissing rem)
  end.

(* the same on split files with contents: every file ends up resized to its new st_size *)
Definition to_h (p : psplit) : hsplit :=
  {| sz := p_size p; st := N.of_nat (length (p_file p)); valid := p_valid p |}.

Fixpoint apply_sizes (ps : list psplit) (hs : list hsplit) : list psplit :=
  match ps, hs with
  | p :: ps', h :: hs' =>
      {| p_size := sz h; p_valid := valid h; p_file := resize (p_file p) (st h) |} :: apply_sizes ps' hs'
  | _, _ => []
  end.

Definition chsize_data (grow_ok : nat -> N -> bool) (bs : N) (ps : list psplit) (size : N) : res (list psplit) :=
  match chsize grow_ok bs (map to_h ps) size with
  | Err e => Err e
  | Ok (hs', _) => Ok (apply_sizes ps hs')
  end.

(* ------------------------------------------------------------------------------------------------ *)
(* PARITY_LIMIT(size, split, level): unsigned 32-bit arithmetic, then % (int64) size *)
Definition parity_limit (limit s level : N) : N :=
  if limit =? 0 then 0
  else limit + ((123562341 + s * 634542351 + level * 983491341) mod 2 ^ 32) mod limit.

(* parity_handle_grow's simulated failure: limit_size != 0 && size > limit_size *)
Definition grow_ok_limit (limit x : N) : bool := (limit =? 0) || (x <=? limit).

(* chsize under per-split limits (what the driver and the binary with --test-parity-limit run) *)
Definition limits_oracle (limits : list N) : nat -> N -> bool := fun s x => grow_ok_limit (nth s limits 0) x.

Definition chsize_limits (limits : list N) (bs : N) (hs : list hsplit) (size : N) :=
  chsize (limits_oracle limits) bs hs size.

(* the sequence of parity_handle_grow attempts of one parity_handle_fill / of a whole parity_chsize
   (observable through the split:delta and split:grow log tags); no theorem depends on these *)
Definition handle_fill_trace (grow_ok : N -> bool) (bs st_size size : N) : list (N * bool) :=
  let base := mask_down bs st_size in
  fill_trace grow_ok bs (fill_fuel (size - base)) (base, size - base).

Fixpoint chsize_loop_trace (grow_ok : nat -> N -> bool) (bs : N) (s : nat) (hs : list hsplit) (size : N)
  : list (N * bool) :=
  match hs with
  | [] => []
  | h :: rest =>
    let fixed0 := later_used rest in
    let keep := fixed0 && negb (size <=? sz h) in
    let run := if keep then sz h else size in
    if keep && misaligned bs run then [] else
    let tr := if st h <? run then handle_fill_trace (grow_ok s) bs (st h) run else [] in
    match handle_chsize (grow_ok s) bs h run with
    | Err _ => tr
    | Ok h' =>
      if run <? st h' then tr
      else if keep && (st h' <? run) then tr
      else if misaligned bs (st h') then tr
      else tr ++ chsize_loop_trace grow_ok bs (S s) rest (size - st h')
    end
  end.

(* ------------------------------------------------------------------------------------------------ *)
(* a history of operations on a parity handle *)
Inductive op :=
| OpWrite (pos : N) (blk : list N)
| OpResize (size : N).

Definition step_op (grow_ok : nat -> N -> bool) (bs : N) (ps : list psplit) (o : op) : option (list psplit) :=
  match o with
  | OpWrite pos blk => if (length blk =? N.to_nat bs)%nat then parity_write bs ps pos blk else None
  | OpResize size => match chsize_data grow_ok bs ps size with Ok ps' => Some ps' | Err _ => None end
  end.

Fixpoint run_ops (grow_ok : nat -> N -> bool) (bs : N) (ps : list psplit) (ops : list op) : option (list psplit) :=
  match ops with
  | [] => Some ps
  | o :: r => match step_op grow_ok bs ps o with None => None | Some ps' => run_ops grow_ok bs ps' r end
  end.

(* ------------------------------------------------------------------------------------------------ *)
(* state.c:2770-2786: a split recorded in the content file but absent from the configuration
   (index >= configured count) is accepted iff its recorded size is 0.
   Result: the sizes kept for the configured splits, or None = "misses used file" (exit). *)
Fixpoint load_splits_from (s : nat) (configured : nat) (recorded : list N) : option (list N) :=
  match recorded with
  | [] => Some []
  | v :: rest =>
    if (configured <=? s)%nat then
      if v =? 0 then load_splits_from (S s) configured rest     (* "Dropping ... unused split" *)
      else None
    else match load_splits_from (S s) configured rest with
         | None => None
         | Some l => Some (v :: l)
         end
  end.
Definition load_splits (configured : nat) (recorded : list N) : option (list N) :=
  load_splits_from 0 configured recorded.
