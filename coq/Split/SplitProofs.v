(* C17 -- the lemmas quoted by Props/Properties_C17.v, gathered (proofs live in SplitAddr, SplitFill,
   SplitChsize, SplitConcat), plus the dropped-split rule and the limit oracle. *)
From Coq Require Import NArith List Bool Lia Arith.
From Snap.Split Require Export SplitModel SplitAddr SplitFill SplitChsize SplitConcat.
Import ListNotations.
Local Open Scope N_scope.

(* --- state.c:2770-2786: removing trailing splits from the configuration is accepted iff they are unused *)
Lemma load_splits_from_spec : forall recorded s configured,
  load_splits_from s configured recorded =
  if forallb (fun v => v =? 0) (skipn (configured - s) recorded)
  then Some (firstn (configured - s) recorded) else None.
Proof.
  induction recorded as [|v rest IH]; intros s c.
  - cbn [load_splits_from]. rewrite skipn_nil, firstn_nil. reflexivity.
  - cbn [load_splits_from]. destruct (Nat.leb_spec c s) as [Hle|Hgt].
    + replace (c - s)%nat with 0%nat by lia. cbn [skipn firstn forallb].
      destruct (v =? 0); cbn [andb]; [|reflexivity].
      rewrite IH. replace (c - S s)%nat with 0%nat by lia. cbn [skipn firstn]. reflexivity.
    + replace (c - s)%nat with (S (c - S s)) by lia. cbn [skipn firstn]. rewrite IH.
      destruct (forallb (fun v0 => v0 =? 0) (skipn (c - S s) rest)); reflexivity.
Qed.

Lemma dropped_split_rule : forall configured recorded,
  (Forall (fun v => v = 0) (skipn configured recorded) ->
     load_splits configured recorded = Some (firstn configured recorded)) /\
  (~ Forall (fun v => v = 0) (skipn configured recorded) -> load_splits configured recorded = None).
Proof.
  intros c r. unfold load_splits. rewrite load_splits_from_spec, Nat.sub_0_r.
  destruct (forallb (fun v => v =? 0) (skipn c r)) eqn:E.
  - split; [reflexivity|]. intros H. exfalso. apply H. rewrite forallb_forall in E. apply Forall_forall.
    intros x Hx. apply N.eqb_eq. apply E. exact Hx.
  - split; [|reflexivity]. intros H. rewrite Forall_forall in H.
    assert (forallb (fun v => v =? 0) (skipn c r) = true).
    { apply forallb_forall. intros x Hx. apply N.eqb_eq. apply H. exact Hx. }
    congruence.
Qed.

(* dropping unused trailing splits does not move any address *)
Lemma split_find_from_zeros : forall z, Forall (fun v => v = 0) z ->
  forall s off, fst (split_find_from s z off) = None.
Proof.
  induction 1 as [|y t Hy _ IH]; intros s off; cbn [split_find_from]; [reflexivity|].
  subst y. destruct (N.ltb_spec off 0); [lia|]. apply IH.
Qed.

Lemma dropped_split_same_map : forall configured recorded kept off,
  load_splits configured recorded = Some kept -> split_find kept off = split_find recorded off.
Proof.
  intros c r kept off H.
  destruct (dropped_split_rule c r) as [A B].
  assert (Z : Forall (fun v => v = 0) (skipn c r)).
  { destruct (Forall_dec (fun v => v = 0) (fun v => N.eq_dec v 0) (skipn c r)) as [F|F]; [exact F|].
    rewrite (B F) in H. discriminate. }
  rewrite (A Z) in H. injection H as <-.
  unfold split_find, split_find_raw. rewrite <- (firstn_skipn c r) at 2.
  generalize (firstn c r) as a. generalize 0%nat as s. intros s a. revert s off.
  induction a as [|x a IH]; intros s off; cbn [app split_find_from].
  - pose proof (split_find_from_zeros _ Z s off) as Hz.
    destruct (split_find_from s (skipn c r) off) as [[i|] o]; cbn [fst] in Hz; [discriminate|reflexivity].
  - destruct (off <? x); [reflexivity|]. apply IH.
Qed.

(* --- with --test-parity-limit the growth oracle of every split is monotone -------------------------------- *)
Lemma limits_mono limits s x y : x <= y ->
  grow_ok_limit (nth s limits 0) y = true -> grow_ok_limit (nth s limits 0) x = true.
Proof. apply grow_ok_limit_mono. Qed.

(* PARITY_LIMIT is at least the option value: with limit >= block size every split can hold a block *)
Lemma parity_limit_ge limit s level : limit <> 0 -> limit <= parity_limit limit s level < 2 * limit.
Proof.
  intros H. unfold parity_limit. destruct (N.eqb_spec limit 0); [contradiction|].
  set (m := (123562341 + s * 634542351 + level * 983491341) mod 2 ^ 32).
  pose proof (N.mod_upper_bound m limit H) as Hm. set (r := m mod limit) in *. clearbody r. lia.
Qed.
