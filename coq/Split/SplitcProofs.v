(* parity_split_find TRANSLATED from cmdline/parity.c on every run (Gen.SplitProgs, emitted by harness/gen/splitc.py) equals
   the addressing function of the C17 model (Split.SplitModel.split_find_z / split_find_raw / split_find), on which the
   bijection, no-straddling and read/write theorems of Properties_C17.v are stated: for every list of recorded sizes and
   every (signed) offset. *)
From Coq Require Import NArith ZArith List Bool Lia.
From Snap.Gen Require Import SplitProgs.
From Snap.Split Require Import SplitModel.
Import ListNotations.

Lemma t_split_find_loop_eq : forall sizes s off, (0 <= off)%Z ->
  t_split_find_loop s sizes off = (let '(r, o) := split_find_from s sizes (Z.to_N off) in (r, Z.of_N o)).
Proof.
  induction sizes as [|sz rest IH]; intros s off H; cbn [t_split_find_loop split_find_from].
  - rewrite Z2N.id by exact H. reflexivity.
  - destruct (Z.ltb_spec off (Z.of_N sz)) as [L|L]; destruct (N.ltb_spec (Z.to_N off) sz) as [L'|L']; try lia.
    + rewrite Z2N.id by exact H. reflexivity.
    + cbv zeta. rewrite IH by lia. replace (Z.to_N (off - Z.of_N sz)) with (Z.to_N off - sz)%N by lia. reflexivity.
Qed.

Theorem t_parity_split_find_eq sizes off : t_parity_split_find sizes off = split_find_z sizes off.
Proof.
  unfold t_parity_split_find, split_find_z, split_find_raw.
  destruct off as [|p|p]; cbn [Z.ltb Z.compare].
  - apply t_split_find_loop_eq. lia.
  - apply t_split_find_loop_eq. lia.
  - reflexivity.
Qed.

(* on the offsets the tool passes (pos * block_size, never negative) in terms of the N-level functions *)
Corollary t_parity_split_find_raw sizes (off : N) :
  t_parity_split_find sizes (Z.of_N off) = (let '(r, o) := split_find_raw sizes off in (r, Z.of_N o)).
Proof.
  rewrite t_parity_split_find_eq. unfold split_find_z.
  destruct (Z.of_N off) as [|p|p] eqn:E; try (rewrite <- E, N2Z.id; reflexivity). lia.
Qed.

Corollary t_parity_split_find_some sizes (off : N) s o :
  split_find sizes off = Some (s, o) <-> t_parity_split_find sizes (Z.of_N off) = (Some s, Z.of_N o).
Proof.
  rewrite t_parity_split_find_raw. unfold split_find. destruct (split_find_raw sizes off) as [[r|] o']; split; intros H.
  - injection H as -> ->. reflexivity.
  - injection H as -> H. apply N2Z.inj in H. subst. reflexivity.
  - discriminate.
  - discriminate.
Qed.
