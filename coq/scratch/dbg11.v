(* C11 sync_converges, first half: a sync loop without faults over data that can be read and that hashes to every recorded
   hash completes every enabled stripe: afterwards each visited stripe holds only BLK blocks (a DELETED entry survives only
   in a stripe without any file block, and is dropped when the state is saved), no error is counted. *)
From Coq Require Import NArith ZArith List Bool Arith Lia.
From Snap.Array Require Import ArrayDefs SyncModel SyncProofsDefs SyncProofsStripe.
From Snap.Scan Require Import ScanBasics ScanSound StripeProofs.
Import ListNotations.

Section Conv.
  Variable hashf : bid -> N -> hval.
  Variable bs : N.
  Variable nlev : nat.
  Variable o : sopts.
  Variable fs : list (option fsdisk).

  (* the block of this slot can be read and, unless it is CHG, hashes to its recorded hash *)
  Definition slot_good (j : nat) (s : slot) : Prop :=
    match s with
    | SFile f idx b => exists blk len, read_slot bs (nth j fs None) (SFile f idx b) None = RdOk blk len /\
                                       (fb_state b <> SChg -> hashf blk len = fb_hash b)
    | _ => True
    end.
  Definition stripe_good (c : content) (p : nat) : Prop := forall j, slot_good j (slot_of c p j).

  (* nothing left to do at this stripe *)
  Definition stripe_fine (c : content) (p : nat) : Prop :=
    forall j, match slot_of c p j with
              | SFile _ _ b => fb_state b = SBlk
              | SDeleted _ => forall j', slot_has_file (slot_of c p j') = false
              | SEmpty => True
              end.

  Lemma slot_good_view j s s' : sview_of s' = sview_of s -> slot_good j s -> slot_good j s'.
  Proof.
    destruct s as [|f i b|h], s' as [|f' i' b'|h']; simpl; intro E; try discriminate; auto.
    inversion E; subst. intros [blk [len [A B]]]. exists blk, len. split; [|exact B].
    rewrite <- A. unfold read_slot. destruct (nth j fs None); [|reflexivity]. congruence.
  Qed.
  Lemma stripe_good_views c c' p : same_views c c' p -> stripe_good c p -> stripe_good c' p.
  Proof. intros [_ V] G j. apply (slot_good_view j (slot_of c p j)); [apply V | apply G]. Qed.
  Lemma stripe_fine_views c c' p : same_views c c' p -> stripe_fine c p -> stripe_fine c' p.
  Proof.
    intros [_ V] G j. specialize (G j). pose proof (V j) as Vj.
    destruct (slot_of c p j) as [|f i b|h], (slot_of c' p j) as [|f' i' b'|h']; simpl in Vj; try discriminate; auto.
    - inversion Vj; subst. exact G.
    - intro j'. rewrite (view_has_file _ _ (V j')). apply G.
  Qed.

  (* --- one clean iteration ------------------------------------------------------------------------------------------- *)
  Notation step := (disk_step hashf bs o 0).
  Definition clean (a : acc) : Prop :=
    a_bail a = false /\ a_err a = false /\ a_io a = false /\ a_silent a = false /\ a_nerr a = 0 /\ a_nsilent a = 0 /\ a_nio a = 0.
  Definition fine (x : nat * slot * rd) : Prop :=
    match x with
    | (_, SFile f idx b, r) => exists blk len, r = RdOk blk len /\ (fb_state b <> SChg -> hashf blk len = fb_hash b)
    | _ => True
    end.

  Lemma step_clean a x : fine x -> clean a -> clean (step a x).
  Proof.
    destruct x as [[j s] r]. intros F (C1 & C2 & C3 & C4 & C5 & C6 & C7). unfold clean, disk_step. rewrite C1.
    destruct s as [|f idx b|h]; cbn -[Nat.leb].
    - repeat split; assumption.
    - destruct F as [blk [len [Er Eh]]]. subst r.
      destruct (fb_state b) eqn:Es; cbn -[Nat.leb].
      + rewrite (proj2 (hval_eqb_true _ _) (Eh ltac:(discriminate))). repeat split; assumption.
      + repeat split; assumption.
      + rewrite (proj2 (hval_eqb_true _ _) (Eh ltac:(discriminate))). repeat split; assumption.
    - repeat split; assumption.
  Qed.
  Lemma fold_clean xs : forall a, (forall x, In x xs -> fine x) -> clean a -> clean (fold_left step xs a).
  Proof.
    induction xs as [|x t IH]; simpl; intros a F C; [exact C|].
    apply IH; [intros y Hy; apply F; right; exact Hy | apply step_clean; [apply F; left; reflexivity | exact C]].
  Qed.

  Lemma in_combine3 (slots : list slot) (F : nat -> rd) x :
    In x (combine (combine (seq 0 (length slots)) slots) (map F (seq 0 (length slots)))) ->
    exists j, j < length slots /\ x = (j, nth j slots SEmpty, F j).
  Proof.
    intro H. apply (In_nth _ _ (0, SEmpty, F 0)) in H. destruct H as [n [Hn E]].
    rewrite !combine_length, map_length, seq_length in Hn. assert (Hn' : n < length slots) by lia.
    exists n. split; [exact Hn'|]. rewrite <- E.
    rewrite combine_nth by (rewrite combine_length, map_length, seq_length; lia).
    rewrite combine_nth by (rewrite seq_length; reflexivity).
    rewrite seq_nth by exact Hn'. rewrite (map_nth F). rewrite seq_nth by exact Hn'. reflexivity.
  Qed.

  Theorem sync_stripe_good now c par pos :
    stripe_good c pos ->
    let r := sync_stripe hashf bs nlev o now 0 c par fs [] pos in
    so_bail r = false /\ so_nerr r = 0 /\ so_nsilent r = 0 /\ so_nio r = 0 /\
    forall j, match slot_of (so_content r) pos j with SFile _ _ b => fb_state b = SBlk | SEmpty => True | SDeleted _ => False end.
  Proof.
    intros G r. unfold r, sync_stripe. clear r. cbv zeta.
    change (map (fun od : option cdisk => match od with Some d => slot_at d pos | None => SEmpty end) (c_disks c)) with (slots c pos).
    set (sl := slots c pos).
    set (F := fun j => read_slot bs (nth j fs None) (nth j sl SEmpty) (nth j (@nil (option rd)) None)).
    set (xs := combine (combine (seq 0 (length sl)) sl) (map F (seq 0 (length sl)))).
    match goal with |- context [fold_left _ xs ?a] => set (a0 := a) end.
    assert (C : clean (fold_left step xs a0)).
    { apply fold_clean; [|unfold clean, a0; simpl; repeat split].
      intros x Hx. destruct (in_combine3 sl F x Hx) as [j [Hj E]]. subst x. unfold fine.
      pose proof (G j) as Gj. unfold slot_of in Gj. fold sl in Gj.
      destruct (nth j sl SEmpty) as [|f idx b|h] eqn:Es; auto.
      destruct Gj as [blk [len [A B]]]. exists blk, len. split; [|exact B]. unfold F. rewrite Es.
      replace (nth j (@nil (option rd)) None) with (@None rd) by (destruct j; reflexivity). exact A. }
    destruct C as (C1 & C2 & C3 & C4 & C5 & C6 & C7).
    Show.
