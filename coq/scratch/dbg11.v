(* C11 sync_converges, second half: scanning a content that records exactly the listing (every block synced) finds
   nothing to do -- every entry is counted `equal`, the content is returned unchanged, diff exits 0. *)
From Coq Require Import NArith ZArith List Bool Arith Lia.
From Snap.Array Require Import ArrayDefs SyncModel.
From Snap.Scan Require Import ScanModel ScanBasics ScanSteps ScanInv ScanSound ScanCopy.
Import ListNotations.

Lemma split_first_at {A} (p : A -> bool) pre x post :
  p x = true -> (forall y, In y pre -> p y = false) -> split_first p (pre ++ x :: post) = Some (pre, x, post).
Proof.
  intros Hx Hpre. induction pre as [|a t IH]; simpl.
  - rewrite Hx. reflexivity.
  - rewrite (Hpre a (or_introl eq_refl)). rewrite IH; [reflexivity | intros y Hy; apply Hpre; right; exact Hy].
Qed.
Lemma split_first_all_false {A} (p : A -> bool) l : (forall y, In y l -> p y = false) -> split_first p l = None.
Proof.
  induction l as [|a t IH]; simpl; intro H; [reflexivity|].
  rewrite (H a (or_introl eq_refl)). rewrite IH; [reflexivity | intros y Hy; apply H; right; exact Hy].
Qed.

Lemma cf_set_inode_back f : cf_set_inode (cf_set_inode f 0) (cf_inode f) = f.
Proof. destruct f; reflexivity. Qed.
Lemma upd_nsec_id f e : cf_nsec f = le_nsec e -> upd_nsec f e = f.
Proof. intro H. unfold upd_nsec. destruct (Z.eqb (cf_nsec f) (-1)); [|reflexivity]. rewrite <- H. destruct f; reflexivity. Qed.

Definition all_blk (f : cfile) : Prop := forall b, In b (cf_blocks f) -> fb_state b = SBlk.
Lemma all_blk_not_full_invalid inf f : all_blk f -> full_invalid_stable inf f = false.
Proof.
  unfold full_invalid_stable, all_blk. destruct (cf_blocks f) as [|b t]; [reflexivity|]. intro H. simpl.
  rewrite (H b (or_introl eq_refl)). reflexivity.
Qed.
Lemma ematch_attrs_same e f : ematch e f -> attrs_same f e = true.
Proof.
  intros [_ [A [B [C _]]]]. unfold attrs_same. rewrite A, B, C. rewrite N.eqb_refl, !Z.eqb_refl. reflexivity.
Qed.

Definition lkind_eqb (a b : lkind) : bool :=
  match a, b with LFile, LFile => true | LSym, LSym => true | LDir, LDir => true | _, _ => false end.
Lemma lkind_eqb_eq a b : lkind_eqb a b = true <-> a = b.
Proof. destruct a, b; simpl; split; intro H; try discriminate; reflexivity. Qed.

Section Rescan.
  Variables (basef : N -> N) (bs : N) (clearpast nocopy : bool) (inf : list (option info)).
  Variable usable : bool.
  Variable d0 : cdisk.

  (* the disk records exactly the listing L: one file per regular file (no second name of an inode), every block synced *)
  Record recorded (L : list lentry) : Prop := mkRec {
    rc_names : NoDup (map le_name L);
    rc_fnames : NoDup (map cf_name (cd_files d0));
    rc_inodes : NoDup (map cf_inode (cd_files d0));
    rc_file_in : forall e, In e L -> le_kind e = LFile -> exists f, In f (cd_files d0) /\ ematch e f;
    rc_file_of : forall f, In f (cd_files d0) -> all_blk f /\ exists e, In e L /\ le_kind e = LFile /\ ematch e f;
    rc_lnames : NoDup (map cl_name (cd_links d0));
    rc_sym_in : forall e, In e L -> le_kind e = LSym -> In (mkCL (le_name e) (le_to e) false) (cd_links d0);
    rc_link_of : forall l, In l (cd_links d0) -> exists e, In e L /\ le_kind e = LSym /\ le_name e = cl_name l;
    rc_dnames : NoDup (cd_dirs d0);
    rc_dir_in : forall e, In e L -> le_kind e = LDir -> In (le_name e) (cd_dirs d0);
    rc_dir_of : forall n, In n (cd_dirs d0) -> exists e, In e L /\ le_kind e = LDir /\ le_name e = n
  }.

  (* has an entry of kind k with name n been processed? *)
  Definition seen (k : lkind) (P : list lentry) (n : N) : bool :=
    existsb (fun e => lkind_eqb (le_kind e) k && N.eqb (le_name e) n) P.
  Definition unseen_file (f : cfile) : sfile := if usable then mkSF f false false else mkSF (cf_set_inode f 0) false true.
  Definition mark_file (P : list lentry) (f : cfile) : sfile := if seen LFile P (cf_name f) then mkSF f true false else unseen_file f.
  Fixpoint count_kind (P : list lentry) : nat :=
    match P with [] => 0 | e :: t => (match le_kind e with LDir => 0 | _ => 1 end) + count_kind t end.

  (* the state of the disk after the entries P of a listing it records *)
  Definition stable_state (P : list lentry) : sdisk :=
    mkSD (map (mark_file P) (cd_files d0)) [] (cd_deleted d0)
         (map (fun l => (l, seen LSym P (cl_name l))) (cd_links d0)) []
         (map (fun n => (n, seen LDir P n)) (cd_dirs d0)) []
         (mkCnt (count_kind P) 0 0 0 0 0 0).

  Lemma seen_snoc k P e n : seen k (P ++ [e]) n = seen k P n || (lkind_eqb (le_kind e) k && N.eqb (le_name e) n).
  Proof. unfold seen. rewrite existsb_app. simpl. rewrite orb_false_r. reflexivity. Qed.
  Lemma seen_snoc_other k P e n : le_kind e <> k -> seen k (P ++ [e]) n = seen k P n.
  Proof.
    intro H. rewrite seen_snoc. destruct (lkind_eqb (le_kind e) k) eqn:E; [apply lkind_eqb_eq in E; contradiction|]. simpl. apply orb_false_r.
  Qed.
  Lemma count_kind_snoc P e : count_kind (P ++ [e]) = count_kind P + match le_kind e with LDir => 0 | _ => 1 end.
  Proof. induction P as [|x t IH]; simpl; [lia | rewrite IH; lia]. Qed.
  Lemma seen_false_notin k P n : ~ In n (map le_name P) -> seen k P n = false.
  Proof.
    intro H. unfold seen. destruct (existsb _ P) eqn:E; [|reflexivity].
    apply existsb_exists in E. destruct E as [x [Hx Ex]]. apply andb_true_iff in Ex. destruct Ex as [_ Ex].
    apply N.eqb_eq in Ex. exfalso. apply H. rewrite <- Ex. apply in_map. exact Hx.
  Qed.

  (* marking one more name changes exactly the element carrying it *)
  Lemma map_mark_split {A B} (nameof : A -> N) (mk : bool -> A -> B) (k : lkind) (P : list lentry) e pre x post :
    le_kind e = k -> NoDup (map nameof (pre ++ x :: post)) -> nameof x = le_name e ->
    map (fun a => mk (seen k (P ++ [e]) (nameof a)) a) (pre ++ x :: post)
    = map (fun a => mk (seen k P (nameof a)) a) pre ++ mk true x :: map (fun a => mk (seen k P (nameof a)) a) post.
  Proof.
    intros Hk ND Hx. rewrite map_app. simpl. rewrite map_app in ND. simpl in ND. apply NoDup_remove_2 in ND.
    assert (G : forall l, ~ In (nameof x) (map nameof l) ->
                          map (fun a => mk (seen k (P ++ [e]) (nameof a)) a) l = map (fun a => mk (seen k P (nameof a)) a) l).
    { intros l Hl. apply map_ext_in. intros a Ha. rewrite seen_snoc.
      replace (N.eqb (le_name e) (nameof a)) with false; [rewrite andb_false_r, orb_false_r; reflexivity|].
      symmetry. apply N.eqb_neq. intro Hc. apply Hl. rewrite Hx, Hc. apply in_map. exact Ha. }
    rewrite (G pre), (G post) by (intro Hc; apply ND; apply in_app_iff; auto).
    rewrite seen_snoc. rewrite Hx, Hk. rewrite N.eqb_refl. destruct k; simpl; rewrite orb_true_r; reflexivity.
  Qed.

  Lemma stable_files_other P e : le_kind e <> LFile -> map (mark_file (P ++ [e])) (cd_files d0) = map (mark_file P) (cd_files d0).
  Proof. intro H. apply map_ext. intro f. unfold mark_file. rewrite seen_snoc_other by exact H. reflexivity. Qed.
  Lemma stable_links_other P e : le_kind e <> LSym ->
    map (fun l => (l, seen LSym (P ++ [e]) (cl_name l))) (cd_links d0) = map (fun l => (l, seen LSym P (cl_name l))) (cd_links d0).
  Proof. intro H. apply map_ext. intro l. rewrite seen_snoc_other by exact H. reflexivity. Qed.
  Lemma stable_dirs_other P e : le_kind e <> LDir ->
    map (fun n => (n, seen LDir (P ++ [e]) n)) (cd_dirs d0) = map (fun n => (n, seen LDir P n)) (cd_dirs d0).
  Proof. intro H. apply map_ext. intro n. rewrite seen_snoc_other by exact H. reflexivity. Qed.

  (* --- a regular file ------------------------------------------------------------------------------------------------- *)
  Lemma scan_file_stable L P e k (w : world) :
    recorded L -> In e L -> le_kind e = LFile -> ~ In (le_name e) (map le_name P) ->
    scan_file basef bs clearpast nocopy inf usable k w (stable_state P) e = Some (set_disk k (stable_state (P ++ [e])) w).
  Proof.
    intros R He Hk Hnew. destruct R.
    destruct (rc_file_in0 e He Hk) as [f [Hf Hm]].
    destruct (rc_file_of0 f Hf) as [Hblk _].
    destruct (in_split f (cd_files d0) Hf) as [pre [post Ef]].
    pose proof Hm as [Mn [Ms [Mt [Mns Mi]]]].
    assert (Hunseen : seen LFile P (cf_name f) = false) by (apply seen_false_notin; rewrite Mn; exact Hnew).
    assert (Hino : forall g, In g pre \/ In g post -> cf_inode g <> le_inode e).
    { intros g Hg Hc. rewrite Ef in rc_inodes0. rewrite map_app in rc_inodes0. simpl in rc_inodes0. apply NoDup_remove_2 in rc_inodes0.
      apply rc_inodes0. rewrite Mi, <- Hc. apply in_app_iff. destruct Hg; [left | right]; apply in_map; assumption. }
    assert (Hnm : forall g, In g pre \/ In g post -> cf_name g <> le_name e).
    { intros g Hg Hc. rewrite Ef in rc_fnames0. rewrite map_app in rc_fnames0. simpl in rc_fnames0. apply NoDup_remove_2 in rc_fnames0.
      apply rc_fnames0. rewrite Mn, <- Hc. apply in_app_iff. destruct Hg; [left | right]; apply in_map; assumption. }
    assert (Esplit : map (mark_file P) (cd_files d0) = map (mark_file P) pre ++ mark_file P f :: map (mark_file P) post)
      by (rewrite Ef, map_app; reflexivity).
    assert (Efinal : keep clearpast inf (sd_set_cnt (stable_state P) (inc_equal (sd_cnt (stable_state P))))
                          (map (mark_file P) pre) (mkSF f true false) (map (mark_file P) post) (le_key e) = stable_state (P ++ [e])).
    { unfold keep. cbn [sf_f]. rewrite (all_blk_not_full_invalid inf f Hblk). unfold sd_set_files, sd_set_cnt, stable_state. cbn.
      rewrite stable_links_other, stable_dirs_other by congruence. rewrite count_kind_snoc, Hk.
      replace (map (mark_file (P ++ [e])) (cd_files d0)) with (map (mark_file P) pre ++ mkSF f true false :: map (mark_file P) post).
      - unfold inc_equal. simpl. f_equal. f_equal. lia.
      - rewrite Ef. unfold mark_file.
        rewrite (map_mark_split cf_name (fun s f0 => if s then mkSF f0 true false else unseen_file f0) LFile P e pre f post Hk); [reflexivity | rewrite <- Ef; exact rc_fnames0 | exact Mn]. }
    assert (Hmark : forall g, In g pre \/ In g post -> mark_file P g = mkSF g true false \/ mark_file P g = unseen_file g).
    { intros g _. unfold mark_file. destruct (seen LFile P (cf_name g)); auto. }
    unfold scan_file. cbn [stable_state sd_files sd_ins]. rewrite Esplit. Show.
