From Coq Require Import NArith ZArith List Bool Arith Lia.
From Snap.Array Require Import ArrayDefs SyncModel.
From Snap.Scan Require Import ScanModel ScanBasics ScanSteps ScanInv.
Import ListNotations.
Local Arguments alloc_block : simpl never.
Goal forall clearpast inf occ bl ff del b,
    In b (snd (alloc_blocks clearpast inf occ ff del bl)) -> fb_state b <> SBlk.
Proof.
  intros clearpast inf occ bl.
    induction bl as [|b0 t IH]; simpl; intros ff del b H; [destruct H|].
    destruct (alloc_block clearpast inf occ ff del b0) as [[ff1 del1] nb] eqn:E1.
    destruct (alloc_blocks clearpast inf occ ff1 del1 t) as [[ff2 del2] rest] eqn:E2. simpl in H.
    Show.
