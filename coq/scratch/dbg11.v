(* C11 scan_preserves_map: the scan keeps the block map of every disk well formed (MapOK of Array/SyncProofsDefs.v:
   no two file blocks of a disk share a position, positions strictly increase inside a file, no duplicate DELETED
   position, no DELETED entry under a file block). *)
From Coq Require Import NArith ZArith List Bool Arith Lia.
From Snap.Array Require Import ArrayDefs SyncModel SyncProofsDefs.
From Snap.Scan Require Import ScanModel ScanBasics ScanSteps ScanSound ScanCopy.
Import ListNotations.

(* --- lists of positions ------------------------------------------------------------------------------------------- *)
Lemma NoDup_app_iff {A} (l1 l2 : list A) : NoDup (l1 ++ l2) <-> NoDup l1 /\ NoDup l2 /\ (forall x, In x l1 -> ~ In x l2).
Proof.
  induction l1 as [|a t IH]; simpl.
  - split; [intro H; repeat split; [constructor | exact H | intros ? []] | intros [_ [H _]]; exact H].
  - split.
    + intro H. inversion H as [|x l Hn Hd]; subst. apply IH in Hd. destruct Hd as [A1 [A2 A3]].
      repeat split; auto.
      * constructor; [intro Hi; apply Hn; apply in_app_iff; auto | exact A1].
      * intros x [Hx|Hx] Hx2; [subst; apply Hn; apply in_app_iff; auto | exact (A3 x Hx Hx2)].
    + intros [H1 [H2 H3]]. inversion H1 as [|x l Hn Hd]; subst. constructor.
      * intro Hi. apply in_app_iff in Hi. destruct Hi as [Hi|Hi]; [contradiction | exact (H3 a (or_introl eq_refl) Hi)].
      * apply IH. repeat split; auto.
Qed.

Lemma map_ok_remove pre l post dp :
  map_ok (pre ++ l :: post) dp -> map_ok (pre ++ post) (dp ++ l).
Proof.
  intros [N1 [I1 [N2 D1]]]. rewrite concat_app in N1. simpl in N1.
  apply NoDup_app_iff in N1. destruct N1 as [Npre [Nrest Dpre]]. apply NoDup_app_iff in Nrest. destruct Nrest as [Nl [Npost Dl]].
  assert (Hc : forall p, In p (concat (pre ++ post)) -> In p (concat (pre ++ l :: post))).
  { intros p Hp. rewrite concat_app in *. simpl. apply in_app_iff in Hp. apply in_app_iff. destruct Hp; [auto | right; apply in_app_iff; auto]. }
  repeat split.
  - rewrite concat_app. apply NoDup_app_iff. repeat split; auto.
    intros x Hx Hx2. apply (Dpre x Hx). apply in_app_iff. auto.
  - intros l0 Hl0. apply I1. apply in_app_iff in Hl0. apply in_app_iff. simpl. tauto.
  - apply NoDup_app_iff. repeat split; auto.
    intros x Hx Hx2. apply (D1 x Hx). rewrite concat_app. simpl. apply in_app_iff. right. apply in_app_iff. auto.
  - intros p Hp Hp2. apply in_app_iff in Hp. destruct Hp as [Hp|Hp].
    + exact (D1 p Hp (Hc p Hp2)).
    + rewrite concat_app in Hp2. apply in_app_iff in Hp2. destruct Hp2 as [Hp2|Hp2].
      * apply (Dpre p Hp2). apply in_app_iff. auto.
      * exact (Dl p Hp Hp2).
Qed.

Section Map.
  Variables (basef : N -> N) (bs : N) (clearpast nocopy : bool) (inf : list (option info)).

  Definition sposs (sf : sfile) : list nat := file_poss (sf_f sf).
  Definition smap_ok (d : sdisk) : Prop := map_ok (map sposs (sd_files d)) (map fst (sd_deleted d)).

  Lemma dealloc_fst f del : map fst (dealloc clearpast f del) = map fst del ++ file_poss f.
  Proof. unfold dealloc, file_poss. rewrite map_app, map_map. reflexivity. Qed.

  Lemma smap_kicked d dk : kicked d dk -> smap_ok d -> smap_ok dk.
  Proof.
    intros [E | [pre [sf [post [Ef [Hp [Hn E]]]]]]] H; [subst; exact H|]. subst dk. unfold smap_ok in *. simpl.
    rewrite Ef in H. rewrite map_app in *. simpl in *. exact H.
  Qed.

  Lemma smap_fstep usable e w k d d' :
    fstep basef bs clearpast nocopy inf usable e w k d d' -> smap_ok d -> smap_ok d'.
  Proof.
    intros S I. destruct S as [target Hn Hl | dk dc pre sf post f' Hkick Ef Hp R S E | dk d1 was src cnt Hkick Hr Es E].
    - apply scan_link_spec in Hl. destruct Hl as [F1 [_ [F3 _]]]. unfold smap_ok. rewrite F1, F3. exact I.
    - apply (smap_kicked d dk Hkick) in I. destruct S as [S1 [S2 [S3 _]]]. destruct R as [R1 _]. subst d'.
      unfold smap_ok in *. rewrite Ef in I. rewrite map_app in I. simpl in I.
      assert (Ep : sposs (mkSF f' true false) = sposs sf) by (unfold sposs, file_poss; simpl; rewrite R1; reflexivity).
      unfold keep. cbn [sf_f]. destruct (full_invalid_stable inf f'); unfold sd_set_files; cbn [sd_files sd_deleted].
      + rewrite S3. rewrite dealloc_fst. rewrite map_app. change (file_poss f') with (sposs (mkSF f' true false)). rewrite Ep. apply map_ok_remove. exact I.
      + rewrite S3. rewrite map_app. cbn [map]. rewrite Ep. exact I.
    - apply (smap_kicked d dk Hkick) in I.
      assert (I1 : smap_ok d1).
      { destruct Hr as [[_ [E1 _]] | [_ [pre [sf [post [f1 [Ef [Hp [Hn [Hb E1]]]]]]]]]]; [subst; exact I|].
        subst d1. unfold smap_ok in *. cbn [sd_files sd_deleted]. rewrite Ef in I. rewrite map_app in I. cbn [map] in I.
        rewrite dealloc_fst. rewrite map_app. replace (file_poss f1) with (sposs sf) by (unfold sposs, file_poss; rewrite Hb; reflexivity).
        apply map_ok_remove. exact I. }
      subst d'. exact I1.
  Qed.

  (* --- the second phase ------------------------------------------------------------------------------------------- *)
  Lemma remove_missing_map_gen (P : sfile -> bool) t : forall kept del,
    map_ok (map sposs (kept ++ t)) (map fst del) ->
    map_ok (map sposs (kept ++ filter P t))
           (map fst (fold_left (fun del sf => dealloc clearpast (sf_f sf) del) (filter (fun sf => negb (P sf)) t) del)).
  Proof.
    induction t as [|x t IH]; intros kept del H; simpl; [exact H|].
    destruct (P x) eqn:E; simpl.
    - replace (kept ++ x :: filter P t) with ((kept ++ [x]) ++ filter P t) by (rewrite <- app_assoc; reflexivity).
      apply IH. rewrite <- app_assoc. exact H.
    - apply IH. rewrite dealloc_fst. rewrite map_app in *. simpl in H. apply map_ok_remove. exact H.
  Qed.

  Lemma remove_missing_map d : smap_ok d -> smap_ok (remove_missing clearpast d).
  Proof. intro H. unfold smap_ok, remove_missing. simpl. exact (remove_missing_map_gen sf_present (sd_files d) [] (sd_deleted d) H). Qed.

  (* first free position *)
  Lemma ffree_ge fuel occ : forall p, p <= ffree fuel occ p.
  Proof. induction fuel as [|n IH]; simpl; intro p; [lia|]. destruct (existsb (Nat.eqb p) occ); [pose proof (IH (S p)); lia | lia]. Qed.

  Lemma filter_len_mono {A} (f g : A -> bool) l : (forall x, f x = true -> g x = true) -> length (filter f l) <= length (filter g l).
  Proof.
    intro H. induction l as [|x t IH]; simpl; [lia|]. destruct (f x) eqn:E1.
    - rewrite (H x E1). simpl. lia.
    - destruct (g x); simpl; lia.
  Qed.
  Lemma filter_len_strict {A} (f g : A -> bool) l a :
    (forall x, f x = true -> g x = true) -> In a l -> f a = false -> g a = true -> length (filter f l) < length (filter g l).
  Proof.
    intro H. induction l as [|x t IH]; simpl; intros Ha Hf Hg; [destruct Ha|]. destruct Ha as [Ha|Ha].
    - subst x. rewrite Hf, Hg. simpl. pose proof (filter_len_mono f g t H). lia.
    - specialize (IH Ha Hf Hg). destruct (f x) eqn:E1; [rewrite (H x E1); simpl; lia | destruct (g x); simpl; lia].
  Qed.

  Lemma filter_ge_shrink occ p : In p occ ->
    length (filter (fun q => S p <=? q) occ) < length (filter (fun q => p <=? q) occ).
  Proof.
    intro H. apply (filter_len_strict _ _ occ p); auto.
    - intros x Hx. apply Nat.leb_le in Hx. apply Nat.leb_le. lia.
    - apply Nat.leb_gt. lia.
    - apply Nat.leb_refl.
  Qed.

  Lemma ffree_notin fuel occ : forall p, length (filter (fun q => p <=? q) occ) < fuel -> ~ In (ffree fuel occ p) occ.
  Proof.
    induction fuel as [|n IH]; simpl; intros p H; [lia|].
    destruct (existsb (Nat.eqb p) occ) eqn:E.
    - apply IH. apply existsb_exists in E. destruct E as [x [Hx Ex]]. apply Nat.eqb_eq in Ex. subst x.
      pose proof (filter_ge_shrink occ p Hx). lia.
    - intro Hin. assert (existsb (Nat.eqb p) occ = true) by (apply existsb_exists; exists p; split; [exact Hin | apply Nat.eqb_refl]). congruence.
  Qed.

  Lemma ffree_spec occ p : let r := ffree (S (length occ)) occ p in p <= r /\ ~ In r occ.
  Proof.
    split; [apply ffree_ge|]. apply ffree_notin.
    assert (L : length (filter (fun q => p <=? q) occ) <= length occ) by (clear; induction occ as [|x t IH]; simpl; [lia | destruct (p <=? x); simpl; lia]). lia.
  Qed.

  (* allocation: the new positions are strictly increasing from ff on, avoid occ, and exactly the DELETED entries at
     those positions are dropped *)
  Definition drop_at (ps : list nat) (del : list (nat * hval)) : list (nat * hval) :=
    filter (fun ph => negb (existsb (Nat.eqb (fst ph)) ps)) del.

  Lemma drop_at_cons pos ps del :
    drop_at ps (filter (fun ph : nat * hval => negb (Nat.eqb (fst ph) pos)) del) = drop_at (pos :: ps) del.
  Proof.
    unfold drop_at. induction del as [|x t IH]; simpl; [reflexivity|].
    destruct (Nat.eqb (fst x) pos) eqn:E; simpl; [exact IH|]. destruct (existsb (Nat.eqb (fst x)) ps); simpl; [exact IH | rewrite IH; reflexivity].
  Qed.
  Lemma drop_at_app ps1 ps2 del : drop_at ps2 (drop_at ps1 del) = drop_at (ps1 ++ ps2) del.
  Proof.
    unfold drop_at. induction del as [|x t IH]; simpl; [reflexivity|]. rewrite existsb_app.
    destruct (existsb (Nat.eqb (fst x)) ps1); simpl; [exact IH|]. destruct (existsb (Nat.eqb (fst x)) ps2); simpl; [exact IH | rewrite IH; reflexivity].
  Qed.
  Lemma drop_at_in ps del ph : In ph (drop_at ps del) <-> In ph del /\ ~ In (fst ph) ps.
  Proof.
    unfold drop_at. rewrite filter_In. rewrite negb_true_iff. split; intros [A B]; split; auto.
    - intro Hc. assert (existsb (Nat.eqb (fst ph)) ps = true) by (apply existsb_exists; exists (fst ph); split; [exact Hc | apply Nat.eqb_refl]). congruence.
    - destruct (existsb (Nat.eqb (fst ph)) ps) eqn:E; [|reflexivity]. apply existsb_exists in E. destruct E as [x [Hx Ex]].
      apply Nat.eqb_eq in Ex. subst x. contradiction.
  Qed.

  Lemma drop_at_nil del : drop_at [] del = del.
  Proof. unfold drop_at. simpl. induction del as [|x t IH]; simpl; [reflexivity | rewrite IH; reflexivity]. Qed.

  Lemma alloc_blocks_spec occ bl : forall ff del,
    let '(ff', del', nbl) := alloc_blocks clearpast inf occ ff del bl in
    let ps := map fb_pos nbl in
    length nbl = length bl /\ ff <= ff' /\ (forall p, In p ps -> ff <= p < ff' /\ ~ In p occ) /\
    increasing ps /\ del' = drop_at ps del.
  Proof.
    induction bl as [|b t IH]; intros ff del.
    - simpl. split; [reflexivity|]. split; [lia|]. split; [intros p []|]. split; [intros i j H; simpl in H; lia|].
      symmetry. apply drop_at_nil.
    - rewrite alloc_blocks_cons. unfold alloc_block at 1. cbv zeta.
      set (pos := ffree (S (length occ)) occ ff).
      destruct (ffree_spec occ ff) as [Hge Hnot]. fold pos in Hge, Hnot.
      set (del1 := filter (fun ph : nat * hval => negb (Nat.eqb (fst ph) pos)) del).
      Show.
