(* C19 rep_verified_before_blk: in one iteration of the sync loop (Array/SyncModel.sync_stripe) a REP or CHG block
   becomes BLK only if it was read in that iteration and its hash compared equal (REP) or was computed and stored (CHG);
   a REP block whose data does not hash to the inherited value counts an error, the stripe is not completed and no
   parity is written for it. *)
From Coq Require Import NArith ZArith List Bool Arith Lia.
From Snap.Array Require Import ArrayDefs SyncModel.
From Snap.Scan Require Import ScanBasics ScanSound.
Import ListNotations.

Lemma hval_eqb_true a b : hval_eqb a b = true <-> a = b.
Proof.
  destruct a, b; simpl; split; intro H; try discriminate; try reflexivity.
  - apply N.eqb_eq in H. congruence.
  - inversion H. apply N.eqb_refl.
Qed.

Section Stripe.
  Variable hashf : bid -> N -> hval.
  Variable bs : N.
  Variable nlev : nat.
  Variable o : sopts.
  Variable iob : nat.

  Notation step := (disk_step hashf bs o iob).

  Definition good (a : acc) : Prop := a_bail a = false /\ a_err a = false /\ a_io a = false.

  (* the outcome of one disk does not stop the stripe *)
  Definition benign (x : nat * slot * rd) : Prop :=
    match x with
    | (_, SFile f idx b, r) =>
        match r with
        | RdOk blk len => fb_state b = SRep -> hashf blk len = fb_hash b
        | RdNone => True
        | _ => False
        end
    | _ => True
    end.

  Lemma step_good_back a x : good (step a x) -> good a /\ benign x.
  Proof.
    destruct x as [[j s] r]. unfold good, disk_step. destruct (a_bail a) eqn:Eb.
    - intros [H _]. congruence.
    - destruct s as [|f idx b|h]; simpl.
      + Show. 
