From Coq Require Import NArith ZArith List Bool Arith Lia.
From Snap.Array Require Import ArrayDefs SyncModel.
From Snap.Scan Require Import ScanModel PrehashModel ScanExamples.
Import ListNotations.
Eval vm_compute in (match ex_scan with Some o => Some (sc_cnt o, c_disks (sc_content o)) | None => None end).
Eval vm_compute in (match ex_run false 2 with Some r => Some (c_disks (sy_content r), sy_parity r, sy_err r, sync_fails r) | None => None end).
Eval vm_compute in (match ex_run false 7 with Some r => Some (c_disks (sy_content r), sy_parity r, sy_err r, sync_fails r) | None => None end).
Eval vm_compute in (match ex_run true 7 with Some r => Some (sy_parity r, sy_hsilent r, sy_skipped r, sync_fails r) | None => None end).
