From Coq Require Import NArith ZArith List DecimalN DecimalZ DecimalPos Decimal.
Search (Pos.to_uint _ <> Nil).
Search (Pos.to_uint) Nil.
Search Pos.to_little_uint.
Print Z.to_int. Print N.to_uint. Print Pos.to_uint.
Search Decimal.rev.
