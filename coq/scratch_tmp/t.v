From mathcomp Require Import all_ssreflect all_algebra.
From Snap.Raid Require Import GaussJordan.
About step_with. About run. About runS. About cols_step. About cols_id. About VG_eq_M. About no_zero_pivot. About invert_sound. About in_ker. About dot. About idm.
