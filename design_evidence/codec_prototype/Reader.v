(* Feasibility prototype: reader monad with explicit EOF, EOF-strictness as a compositional
   property, and the round trip of snapraid's 32-bit varint (last byte has the high bit set). *)
From Coq Require Import NArith List Bool Lia.
Import ListNotations.
Local Open Scope N_scope.

Inductive res (A : Type) : Type := OK (a : A) (rest : list N) | Eof | Bad.
Arguments OK {A}. Arguments Eof {A}. Arguments Bad {A}.
Definition reader (A : Type) := list N -> res A.

Definition ret {A} (a : A) : reader A := fun l => OK a l.
Definition bind {A B} (r : reader A) (f : A -> reader B) : reader B :=
  fun l => match r l with OK a rest => f a rest | Eof => Eof | Bad => Bad end.
Definition getc : reader N := fun l => match l with [] => Eof | c :: t => OK c t end.

(* "r reads exactly l and returns a", whatever follows *)
Definition reads {A} (r : reader A) (l : list N) (a : A) : Prop := forall rest, r (l ++ rest) = OK a rest.
(* EOF-strict: on every strict prefix of what it reads, r answers Eof *)
Definition strict {A} (r : reader A) : Prop :=
  forall l a, reads r l a -> forall l1 l2, l = l1 ++ l2 -> l2 <> [] -> r l1 = Eof.

Lemma reads_bind {A B} (r : reader A) (f : A -> reader B) l1 l2 a b :
  reads r l1 a -> reads (f a) l2 b -> reads (bind r f) (l1 ++ l2) b.
Proof. intros H1 H2 rest. unfold bind. rewrite <- app_assoc, H1. apply H2. Qed.

(* a prefix of l1 ++ l2 is a prefix of l1, or l1 followed by a prefix of l2 *)
Lemma split_prefix {T} (l1 l2 p q : list T) : l1 ++ l2 = p ++ q ->
  (exists m, l1 = p ++ m /\ q = m ++ l2) \/ (exists m, p = l1 ++ m /\ l2 = m ++ q).
Proof.
  revert p. induction l1 as [|x l1 IH]; intros p H.
  - right. exists p. auto.
  - destruct p as [|y p].
    + left. exists (x :: l1). auto.
    + injection H as -> H. destruct (IH p H) as [[m [-> ->]]|[m [-> ->]]]; [left|right]; exists m; auto.
Qed.

(* strictness composes, given that we know how the composite run splits *)
Lemma strict_bind_run {A B} (r : reader A) (f : A -> reader B) l1 l2 a b :
  strict r -> (forall a, strict (f a)) -> reads r l1 a -> reads (f a) l2 b ->
  forall p q, l1 ++ l2 = p ++ q -> q <> [] -> bind r f p = Eof.
Proof.
  intros Sr Sf H1 H2 p q E Hq. unfold bind.
  destruct (split_prefix l1 l2 p q E) as [[m [-> ->]]|[m [-> ->]]].
  - destruct m as [|x m].
    + (* p = l1 exactly: r succeeds with nothing left, f a must hit EOF *)
      rewrite app_nil_r in *. specialize (H1 []). rewrite app_nil_r in H1. rewrite H1.
      apply (Sf a l2 b H2 [] l2); auto.
    + rewrite (Sr _ a H1 p (x :: m)); auto. discriminate.
  - rewrite H1. apply (Sf a _ b H2 m q); auto.
Qed.

Lemma strict_getc : strict getc.
Proof.
  intros l a H l1 l2 -> Hl2.
  destruct l1 as [|x l1]; [reflexivity|].
  specialize (H []). cbn in H. injection H as _ H. destruct l1; destruct l2; try discriminate; congruence.
Qed.

(* ---- the 32-bit varint of cmdline/stream.c ---- *)
Definition w32 (x : N) := x mod 2^32.

Fixpoint putb (fuel : nat) (v : N) : list N :=
  match fuel with
  | O => []
  | S f => let b := N.land v 127 in let v' := N.shiftr v 7 in
           if v' =? 0 then [N.lor b 128] else b :: putb f v'
  end.
Definition putb32 (v : N) : list N := putb 5 v.

Fixpoint getb (fuel : nat) (v s : N) (l : list N) : res N :=
  match fuel with
  | O => Bad
  | S f => match l with
           | [] => Eof
           | c :: t => if N.testbit c 7
                       then OK (N.lor v (w32 (N.shiftl (N.land c 127) s))) t
                       else let v' := N.lor v (w32 (N.shiftl c s)) in
                            let s' := s + 7 in
                            if 32 <=? s' then Bad else getb f v' s' t
           end
  end.
Definition getb32 : reader N := getb 6 0 0.

Lemma decomp7 v : v = N.lor (N.land v 127) (N.shiftl (N.shiftr v 7) 7).
Proof.
  apply N.bits_inj. intros p. rewrite N.lor_spec, N.land_spec.
  change 127 with (N.ones 7). destruct (N.ltb_spec p 7) as [H|H].
  - rewrite N.ones_spec_low by assumption. rewrite N.shiftl_spec_low by assumption. rewrite andb_true_r, orb_false_r. reflexivity.
  - rewrite N.ones_spec_high by assumption. rewrite N.shiftl_spec_high' by assumption. rewrite N.shiftr_spec'.
    rewrite andb_false_r. cbn [orb]. f_equal. lia.
Qed.

Lemma land127_lt v : N.land v 127 < 128.
Proof. change 127 with (N.ones 7). rewrite N.land_ones. apply N.mod_lt. discriminate. Qed.

Lemma bit7_low b : b < 128 -> N.testbit b 7 = false.
Proof.
  intros H. destruct (N.eq_dec b 0) as [->|Hn]; [reflexivity|].
  apply N.bits_above_log2. apply N.log2_lt_pow2; [lia|]. exact H.
Qed.

Lemma bit7_high b : b < 128 -> N.testbit (N.lor b 128) 7 = true /\ N.land (N.lor b 128) 127 = b.
Proof.
  intros H. split.
  - rewrite N.lor_spec, (bit7_low b H). reflexivity.
  - apply N.bits_inj. intros p. rewrite N.land_spec, N.lor_spec.
    change 127 with (N.ones 7). change 128 with (2^7). rewrite N.pow2_bits_eqb.
    destruct (N.ltb_spec p 7) as [Hp|Hp].
    + rewrite N.ones_spec_low by assumption. replace (7 =? p) with false by (symmetry; apply N.eqb_neq; lia).
      rewrite orb_false_r, andb_true_r. reflexivity.
    + rewrite N.ones_spec_high by assumption. rewrite andb_false_r. symmetry.
      destruct (N.eq_dec b 0) as [->|Hn]; [apply N.bits_0|].
      apply N.bits_above_log2. apply N.lt_le_trans with 7; [apply N.log2_lt_pow2; [lia|exact H]|exact Hp].
Qed.

Lemma shr7_zero v : N.shiftr v 7 = 0 -> v < 128.
Proof. rewrite N.shiftr_div_pow2. change (2^7) with 128. intros H. apply N.div_small_iff in H; lia. Qed.

Lemma putb_S f v : putb (S f) v = let b := N.land v 127 in let v' := N.shiftr v 7 in if v' =? 0 then [N.lor b 128] else b :: putb f v'.
Proof. reflexivity. Qed.

Lemma getb_putb fp : forall fg acc s v rest,
  (S fp < fg)%nat -> v < 2 ^ (7 * N.of_nat (S fp)) -> v * 2^s < 2^32 ->
  getb fg acc s (putb (S fp) v ++ rest) = OK (N.lor acc (N.shiftl v s)) rest.
Proof.
  induction fp as [|fp IH]; intros fg acc s v rest Hf Hv Hs.
  { (* one byte available: v < 128 *)
    destruct fg as [|fg]; [lia|]. cbn [putb].
    assert (Hlt : v < 128) by (simpl in Hv; lia).
    assert (Hz : N.shiftr v 7 = 0) by (rewrite N.shiftr_div_pow2; apply N.div_small; exact Hlt).
    rewrite Hz. cbn [N.eqb].
    assert (Hb : N.land v 127 = v).
    { change 127 with (N.ones 7). rewrite N.land_ones. apply N.mod_small. exact Hlt. }
    rewrite Hb. cbn [app getb]. destruct (bit7_high v Hlt) as [H7 Hl]. rewrite H7, Hl.
    unfold w32. rewrite N.shiftl_mul_pow2, N.mod_small by exact Hs. reflexivity. }
  destruct fg as [|fg]; [lia|]. rewrite (putb_S (S fp)). cbv zeta.
  destruct (N.eqb_spec (N.shiftr v 7) 0) as [Hz|Hnz].
  - (* last byte *)
    assert (Hlt : v < 128) by (apply shr7_zero; exact Hz).
    assert (Hb : N.land v 127 = v).
    { change 127 with (N.ones 7). rewrite N.land_ones. apply N.mod_small. exact Hlt. }
    rewrite Hb. cbn [app getb]. destruct (bit7_high v Hlt) as [H7 Hl]. rewrite H7, Hl.
    unfold w32. rewrite N.shiftl_mul_pow2, N.mod_small by exact Hs. reflexivity.
  - (* continuation byte *)
    set (b := N.land v 127). set (v' := N.shiftr v 7) in *.
    assert (Hb : b < 128) by apply land127_lt.
    cbn [app getb]. rewrite (bit7_low b Hb).
    assert (Hdec : v = b + 128 * v').
    { rewrite (decomp7 v) at 1. fold b v'. rewrite N.shiftl_mul_pow2. change (2^7) with 128.
      rewrite <- N.lxor_lor, <- N.add_nocarry_lxor; [lia| |].
      - apply N.bits_inj_0. intros p. rewrite N.land_spec. change 128 with (2^7).
        destruct (N.ltb_spec p 7).
        + rewrite N.mul_pow2_bits_low by assumption. apply andb_false_r.
        + replace (N.testbit b p) with false; [reflexivity|]. symmetry.
          destruct (N.eq_dec b 0) as [->|Hn]; [apply N.bits_0|].
          apply N.bits_above_log2. apply N.lt_le_trans with 7; [apply N.log2_lt_pow2; [lia|exact Hb]|assumption].
      - apply N.bits_inj_0. intros p. rewrite N.land_spec. change 128 with (2^7).
        destruct (N.ltb_spec p 7).
        + rewrite N.mul_pow2_bits_low by assumption. apply andb_false_r.
        + replace (N.testbit b p) with false; [reflexivity|]. symmetry.
          destruct (N.eq_dec b 0) as [->|Hn]; [apply N.bits_0|].
          apply N.bits_above_log2. apply N.lt_le_trans with 7; [apply N.log2_lt_pow2; [lia|exact Hb]|assumption]. }
    assert (Hv1 : 1 <= v') by lia.
    assert (Hs7 : s + 7 < 32).
    { apply (N.pow_lt_mono_r_iff 2); [lia|]. rewrite N.pow_add_r. change (2^7) with 128.
      apply N.le_lt_trans with (v * 2^s); [|exact Hs]. rewrite Hdec. nia. }
    replace (32 <=? s + 7) with false by (symmetry; apply N.leb_gt; exact Hs7).
    assert (Hbs : b * 2^s < 2^32) by (apply N.le_lt_trans with (v * 2^s); [rewrite Hdec; nia|exact Hs]).
    unfold w32 at 1. rewrite N.shiftl_mul_pow2, N.mod_small by exact Hbs.
    rewrite IH.
    + f_equal. rewrite <- N.lor_assoc. f_equal.
      rewrite !N.shiftl_mul_pow2, N.pow_add_r. change (2^7) with 128.
      rewrite Hdec. rewrite N.mul_add_distr_r.
      (* b*2^s and 128*v'*2^s have disjoint bits: use lor = add *)
      rewrite <- N.lxor_lor, <- N.add_nocarry_lxor; [lia| |].
      * apply N.bits_inj_0. intros p. rewrite N.land_spec.
        replace (v' * (2^s * 128)) with ((v' * 128) * 2^s) by lia.
        destruct (N.ltb_spec p s) as [Hp|Hp].
        -- rewrite !N.mul_pow2_bits_low by assumption. reflexivity.
        -- rewrite !N.mul_pow2_bits_high by assumption. change 128 with (2^7).
           destruct (N.ltb_spec (p - s) 7).
           ++ rewrite N.mul_pow2_bits_low by assumption. apply andb_false_r.
           ++ replace (N.testbit b (p - s)) with false; [reflexivity|]. symmetry.
              destruct (N.eq_dec b 0) as [->|Hn]; [apply N.bits_0|].
              apply N.bits_above_log2. apply N.lt_le_trans with 7; [apply N.log2_lt_pow2; [lia|exact Hb]|assumption].
      * apply N.bits_inj_0. intros p. rewrite N.land_spec.
        replace (v' * (2^s * 128)) with ((v' * 128) * 2^s) by lia.
        destruct (N.ltb_spec p s) as [Hp|Hp].
        -- rewrite !N.mul_pow2_bits_low by assumption. reflexivity.
        -- rewrite !N.mul_pow2_bits_high by assumption. change 128 with (2^7).
           destruct (N.ltb_spec (p - s) 7).
           ++ rewrite N.mul_pow2_bits_low by assumption. apply andb_false_r.
           ++ replace (N.testbit b (p - s)) with false; [reflexivity|]. symmetry.
              destruct (N.eq_dec b 0) as [->|Hn]; [apply N.bits_0|].
              apply N.bits_above_log2. apply N.lt_le_trans with 7; [apply N.log2_lt_pow2; [lia|exact Hb]|assumption].
    + lia.
    + (* v' < 2^(7*fp) *)
      assert (E : 2 ^ (7 * N.of_nat (S (S fp))) = 128 * 2 ^ (7 * N.of_nat (S fp))).
      { replace (7 * N.of_nat (S (S fp))) with (7 + 7 * N.of_nat (S fp)) by lia. rewrite N.pow_add_r. reflexivity. }
      rewrite E in Hv. nia.
    + rewrite N.pow_add_r. change (2^7) with 128. apply N.le_lt_trans with (v * 2^s); [rewrite Hdec; nia|exact Hs].
Qed.

Theorem varint32_roundtrip v rest : v < 2^32 -> getb32 (putb32 v ++ rest) = OK v rest.
Proof.
  intros Hv. unfold getb32, putb32. rewrite (getb_putb 4).
  - rewrite N.shiftl_0_r, N.lor_0_l. reflexivity.
  - lia.
  - apply N.lt_le_trans with (2^32); [exact Hv|]. apply N.pow_le_mono_r; simpl; lia.
  - rewrite N.pow_0_r, N.mul_1_r. exact Hv.
Qed.

Print Assumptions varint32_roundtrip.
