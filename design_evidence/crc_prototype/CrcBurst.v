(* Feasibility prototype: burst-error detection of the bit-serial reflected CRC-32C:
   two bit strings of equal length that differ only inside a window of <= 32 bits leave
   different register contents, from any (possibly different... no: equal) start register. *)
From Coq Require Import NArith List Bool Lia.
Import ListNotations.
Local Open Scope N_scope.

Definition POLY : N := 0x82F63B78.
Definition b2n (x : bool) : N := if x then 1 else 0.
Definition Z (s : N) : N := if N.odd s then N.lxor (N.shiftr s 1) POLY else N.shiftr s 1.
Definition bitstep (s : N) (x : bool) : N := Z (N.lxor s (b2n x)).
Definition crc_bits (s : N) (m : list bool) : N := fold_left bitstep m s.

Lemma odd_lxor a b : N.odd (N.lxor a b) = xorb (N.odd a) (N.odd b).
Proof. rewrite <- !N.bit0_odd. apply N.lxor_spec. Qed.

Lemma Z_lxor a b : Z (N.lxor a b) = N.lxor (Z a) (Z b).
Proof.
  unfold Z. rewrite odd_lxor, N.shiftr_lxor.
  destruct (N.odd a), (N.odd b); cbn [xorb].
  - rewrite (N.lxor_comm (N.shiftr b 1) POLY), N.lxor_assoc, <- (N.lxor_assoc POLY POLY), N.lxor_nilpotent, N.lxor_0_l. reflexivity.
  - rewrite !N.lxor_assoc. f_equal. apply N.lxor_comm.
  - rewrite !N.lxor_assoc. reflexivity.
  - reflexivity.
Qed.

Lemma Z_0 : Z 0 = 0. Proof. reflexivity. Qed.

Notation D := crc_bits (only parsing).

Lemma crc_bits_cons s x m : crc_bits s (x :: m) = crc_bits (bitstep s x) m.
Proof. reflexivity. Qed.

Lemma b2n_xorb x y : b2n (xorb x y) = N.lxor (b2n x) (b2n y).
Proof. destruct x, y; reflexivity. Qed.

Lemma bitstep_lxor s s' x y : bitstep (N.lxor s s') (xorb x y) = N.lxor (bitstep s x) (bitstep s' y).
Proof.
  unfold bitstep. rewrite <- Z_lxor. f_equal. rewrite b2n_xorb.
  rewrite !N.lxor_assoc. f_equal. rewrite <- !N.lxor_assoc. f_equal. apply N.lxor_comm.
Qed.

Lemma crc_diff s s' m m' : length m = length m' ->
  N.lxor (crc_bits s m) (crc_bits s' m') = crc_bits (N.lxor s s') (map (fun p => xorb (fst p) (snd p)) (combine m m')).
Proof.
  revert s s' m'. induction m as [|x m IH]; intros s s' [|y m'] Hl; try discriminate; [reflexivity|].
  injection Hl as Hl. cbn [combine map fst snd].
  rewrite !crc_bits_cons, (IH _ _ _ Hl), bitstep_lxor. reflexivity.
Qed.

(* --- injectivity of Z on 32-bit registers --- *)
Lemma Z_nonzero s : s < 2^32 -> s <> 0 -> Z s <> 0.
Proof.
  intros Hs Hn Hz. unfold Z in Hz. destruct (N.odd s) eqn:Ho.
  - apply N.lxor_eq in Hz.
    assert (N.shiftr s 1 < 2^31).
    { rewrite N.shiftr_div_pow2. apply N.div_lt_upper_bound; [lia|]. change (2^1 * 2^31) with (2^32). exact Hs. }
    unfold POLY in Hz. lia.
  - rewrite N.shiftr_div_pow2 in Hz. change (2^1) with 2 in Hz.
    assert (E := N.div_mod s 2 ltac:(lia)).
    assert (s mod 2 = 0).
    { rewrite <- N.bit0_mod, N.bit0_odd, Ho. reflexivity. }
    lia.
Qed.

Lemma lxor_lt32 a b : a < 2^32 -> b < 2^32 -> N.lxor a b < 2^32.
Proof.
  intros Ha Hb.
  destruct (N.eq_dec (N.lxor a b) 0) as [->|Hn]; [lia|].
  apply N.log2_lt_pow2; [lia|].
  apply N.le_lt_trans with (N.max (N.log2 a) (N.log2 b)); [apply N.log2_lxor|].
  destruct (N.eq_dec a 0) as [->|Ha0]; destruct (N.eq_dec b 0) as [->|Hb0]; simpl; try lia.
  - rewrite N.lxor_0_l in Hn. apply N.max_lub_lt; [simpl; lia|]. apply N.log2_lt_pow2; lia.
  - apply N.max_lub_lt; [apply N.log2_lt_pow2; lia|simpl; lia].
  - apply N.max_lub_lt; apply N.log2_lt_pow2; lia.
Qed.

Lemma Z_lt32 s : s < 2^32 -> Z s < 2^32.
Proof.
  intros Hs. unfold Z.
  assert (N.shiftr s 1 < 2^32).
  { rewrite N.shiftr_div_pow2. apply N.div_lt_upper_bound; [lia|]. change (2^1) with 2. lia. }
  destruct (N.odd s); [|assumption]. apply lxor_lt32; [assumption|unfold POLY; lia].
Qed.

(* trailing equal bits keep a non-zero difference non-zero *)
Lemma bitstep_false s : bitstep s false = Z s.
Proof. unfold bitstep. cbn [b2n]. now rewrite N.lxor_0_r. Qed.

Lemma D_zeros d k : d < 2^32 -> d <> 0 -> D d (repeat false k) <> 0 /\ D d (repeat false k) < 2^32.
Proof.
  revert d. induction k as [|k IH]; intros d Hd Hn; [split; assumption|].
  cbn [repeat]. rewrite crc_bits_cons, bitstep_false.
  apply (IH (Z d)); [apply Z_lt32|apply Z_nonzero]; assumption.
Qed.

(* --- the window: 32 bits, as a word w (bit k of w = k-th bit processed) --- *)
Definition bits32 (w : N) : list bool := map (fun k => N.testbit w (N.of_nat k)) (seq 0 32).

(* xor-sum of the entries of cs selected by the bits of w *)
Fixpoint xs (cs : list N) (k : nat) (w : N) : N :=
  match cs with
  | [] => 0
  | c :: t => N.lxor (if N.testbit w (N.of_nat k) then c else 0) (xs t (S k) w)
  end.

Definition C : list N := [3712330424; 3211207553; 2065838579; 4131677158; 3915690301; 3609531531; 2879807463; 1386268991; 2772537982; 1332695565; 2665391130; 944848581; 1889697162; 3779394324; 3345318105; 2334619459; 329422967; 658845934; 1317691868; 2635383736; 1069937025; 2139874050; 4279748100; 4223924985; 4067132163; 3778769143; 3348797215; 2329499855; 274646895; 549293790; 1098587580; 2197175160].
Definition R : list N := [99383025; 198766050; 397532100; 795064200; 1590128400; 3180256800; 2129775281; 4259550562; 4264254517; 4189769371; 4137282503; 3906969983; 3562222607; 2907315951; 1601719087; 3203438174; 2014141005; 4028282010; 3856211909; 3462285691; 2572215303; 927842047; 1855684094; 3711368188; 3212935433; 2062513379; 4125026758; 3998328189; 3645848587; 3077705447; 1795713855; 3591427710].

Lemma lxor_swap4 a x b y : N.lxor (N.lxor a x) (N.lxor b y) = N.lxor (N.lxor a b) (N.lxor x y).
Proof. rewrite !N.lxor_assoc. f_equal. rewrite <- !N.lxor_assoc. f_equal. apply N.lxor_comm. Qed.
Lemma if_xorb (p q : bool) t : (if xorb p q then t else 0) = N.lxor (if p then t else 0) (if q then t else 0).
Proof. destruct p, q; cbn [xorb]; rewrite ?N.lxor_nilpotent, ?N.lxor_0_l, ?N.lxor_0_r; reflexivity. Qed.

Lemma xs_lxor cs k a b : xs cs k (N.lxor a b) = N.lxor (xs cs k a) (xs cs k b).
Proof.
  revert k. induction cs as [|c t IH]; intros k; cbn [xs]; [reflexivity|].
  rewrite IH, N.lxor_spec, if_xorb. apply eq_sym, lxor_swap4.
Qed.

Lemma xs_0 cs k : xs cs k 0 = 0.
Proof. revert k. induction cs as [|c t IH]; intros k; cbn [xs]; [reflexivity|]. rewrite IH, N.bits_0. reflexivity. Qed.

(* D 0 of a bit list = xor of Z^(n-k) 1 over the set bits: stated through a generic decomposition *)
Lemma zeros_lxor a b n : D (N.lxor a b) (repeat false n) = N.lxor (D a (repeat false n)) (D b (repeat false n)).
Proof.
  revert a b. induction n as [|n IHn]; intros a b; cbn [repeat]; [reflexivity|].
  rewrite !crc_bits_cons, !bitstep_false, Z_lxor. apply IHn.
Qed.

Lemma D_split d e : D d e = N.lxor (D d (repeat false (length e))) (D 0 e).
Proof.
  revert d. induction e as [|x e IH]; intros d; cbn [length repeat].
  - cbn. rewrite N.lxor_0_r. reflexivity.
  - rewrite !crc_bits_cons, IH, (IH (bitstep 0 x)), bitstep_false.
    assert (E : bitstep d x = N.lxor (Z d) (bitstep 0 x)).
    { rewrite <- (bitstep_false d), <- bitstep_lxor, N.lxor_0_r. destruct x; reflexivity. }
    rewrite E, zeros_lxor, !N.lxor_assoc. reflexivity.
Qed.

(* the 32-bit window map is the xor-sum with table C: checked on the 32 unit vectors and extended by linearity *)
Definition Lw (w : N) : N := D 0 (bits32 w).

Lemma Lw_basis : map (fun k => Lw (N.shiftl 1 (N.of_nat k))) (seq 0 32) = C.
Proof. vm_compute. reflexivity. Qed.

Lemma R_inverts_C : map (xs R 0) C = map (fun k => N.shiftl 1 (N.of_nat k)) (seq 0 32).
Proof. vm_compute. reflexivity. Qed.

(* --- linear maps on words are determined by their values on 2^k --- *)
Definition pows (k n : nat) : list N := map (fun j => N.shiftl 1 (N.of_nat j)) (seq k n).

Lemma testbit_recon n k w p :
  N.testbit (xs (pows k n) k w) p =
  N.testbit w p && (N.of_nat k <=? p) && (p <? N.of_nat (k + n)).
Proof.
  revert k. induction n as [|n IH]; intros k; cbn [pows seq map xs].
  - rewrite N.bits_0. replace (k + 0)%nat with k by lia.
    destruct (N.leb_spec (N.of_nat k) p), (N.ltb_spec p (N.of_nat k)); try lia; rewrite ?andb_false_r; reflexivity.
  - change (map (fun j => N.shiftl 1 (N.of_nat j)) (seq (S k) n)) with (pows (S k) n).
    rewrite N.lxor_spec, IH.
    assert (T : N.testbit (if N.testbit w (N.of_nat k) then N.shiftl 1 (N.of_nat k) else 0) p
                = N.testbit w (N.of_nat k) && (p =? N.of_nat k)).
    { destruct (N.testbit w (N.of_nat k)); [|rewrite N.bits_0; reflexivity].
      rewrite N.shiftl_1_l, N.pow2_bits_eqb. cbn [andb]. apply N.eqb_sym. }
    rewrite T.
    destruct (N.eqb_spec p (N.of_nat k)) as [->|Hne].
    + rewrite andb_true_r.
      replace (N.of_nat (S k) <=? N.of_nat k) with false by (symmetry; apply N.leb_gt; lia).
      rewrite andb_false_r, andb_false_l, xorb_false_r.
      replace (N.of_nat k <=? N.of_nat k) with true by (symmetry; apply N.leb_le; lia).
      replace (N.of_nat k <? N.of_nat (k + S n)) with true by (symmetry; apply N.ltb_lt; lia).
      rewrite !andb_true_r. reflexivity.
    + rewrite andb_false_r, xorb_false_l.
      replace (k + S n)%nat with (S k + n)%nat by lia.
      destruct (N.leb_spec (N.of_nat (S k)) p), (N.leb_spec (N.of_nat k) p); try lia; reflexivity.
Qed.

Lemma recon32 w : w < 2^32 -> xs (pows 0 32) 0 w = w.
Proof.
  intros Hw. apply N.bits_inj. intros p. rewrite testbit_recon.
  change (N.of_nat 0) with 0. rewrite (proj2 (N.leb_le 0 p)) by lia. rewrite andb_true_r.
  destruct (N.ltb_spec p (N.of_nat (0 + 32))) as [Hp|Hp]; [apply andb_true_r|].
  rewrite andb_false_r. symmetry. apply N.bits_above_log2.
  destruct (N.eq_dec w 0) as [->|Hn]; [simpl in *; lia|].
  apply N.lt_le_trans with 32; [apply N.log2_lt_pow2; lia|]. simpl in Hp. lia.
Qed.

Section Linear.
Variable f : N -> N.
Hypothesis f_lxor : forall a b, f (N.lxor a b) = N.lxor (f a) (f b).
Hypothesis f_0 : f 0 = 0.
Lemma f_xs cs k w : f (xs cs k w) = xs (map f cs) k w.
Proof.
  revert k. induction cs as [|c t IH]; intros k; cbn [xs map]; [exact f_0|].
  rewrite f_lxor, IH. destruct (N.testbit w (N.of_nat k)); [reflexivity|rewrite f_0; reflexivity].
Qed.
End Linear.

Lemma bits32_lxor a b : bits32 (N.lxor a b) = map (fun p => xorb (fst p) (snd p)) (combine (bits32 a) (bits32 b)).
Proof.
  unfold bits32. induction (seq 0 32) as [|k l IH]; cbn [map combine]; [reflexivity|].
  rewrite IH, N.lxor_spec. reflexivity.
Qed.

Lemma Lw_lxor a b : Lw (N.lxor a b) = N.lxor (Lw a) (Lw b).
Proof.
  unfold Lw. rewrite bits32_lxor.
  assert (Hl : length (bits32 a) = length (bits32 b)) by (unfold bits32; rewrite !map_length; reflexivity).
  pose proof (crc_diff 0 0 (bits32 a) (bits32 b) Hl) as E.
  rewrite N.lxor_0_l in E. symmetry. exact E.
Qed.
Lemma Lw_0 : Lw 0 = 0. Proof. vm_compute. reflexivity. Qed.

Lemma Lw_table w : w < 2^32 -> Lw w = xs C 0 w.
Proof.
  intros Hw. rewrite <- (recon32 w Hw) at 1. rewrite (f_xs Lw Lw_lxor Lw_0).
  replace (map Lw (pows 0 32)) with C; [reflexivity|]. symmetry. unfold pows. rewrite map_map. exact Lw_basis.
Qed.

Theorem window_injective w : w < 2^32 -> Lw w = 0 -> w = 0.
Proof.
  intros Hw Hz.
  assert (E : xs R 0 (Lw w) = w).
  { rewrite (Lw_table w Hw).
    rewrite (f_xs (xs R 0) (xs_lxor R 0) (xs_0 R 0)).
    rewrite R_inverts_C. exact (recon32 w Hw). }
  rewrite Hz, xs_0 in E. auto.
Qed.

Lemma D_lt32 d e : d < 2^32 -> D d e < 2^32.
Proof.
  revert d. induction e as [|x e IH]; intros d Hd; [exact Hd|].
  rewrite crc_bits_cons. apply IH. unfold bitstep. apply Z_lt32. apply lxor_lt32; [assumption|destruct x; simpl; lia].
Qed.

Lemma self_xor (l : list bool) : map (fun p => xorb (fst p) (snd p)) (combine l l) = repeat false (length l).
Proof. induction l as [|x l IH]; cbn [combine map length repeat fst snd]; [reflexivity|]. rewrite xorb_nilpotent, IH. reflexivity. Qed.

(* Burst theorem: equal prefixes, a 32-bit window whose xor-difference is w <> 0, equal suffixes *)
Theorem crc_burst32 s pre a a' post w :
  s < 2^32 -> w < 2^32 -> w <> 0 -> length a = 32%nat -> length a' = 32%nat ->
  map (fun p => xorb (fst p) (snd p)) (combine a a') = bits32 w ->
  crc_bits s (pre ++ a ++ post) <> crc_bits s (pre ++ a' ++ post).
Proof.
  intros Hs Hw Hn La La' Hx Heq.
  unfold crc_bits in Heq. rewrite !fold_left_app in Heq.
  set (s1 := fold_left bitstep pre s) in *.
  assert (Hd : N.lxor (crc_bits s1 a) (crc_bits s1 a') = Lw w).
  { rewrite (crc_diff s1 s1 a a') by congruence. rewrite N.lxor_nilpotent, Hx. unfold Lw. reflexivity. }
  assert (Hnz : Lw w <> 0) by (intro Hz; apply Hn, (window_injective w Hw Hz)).
  assert (Hlt : Lw w < 2^32) by (apply D_lt32; lia).
  assert (Hp : N.lxor (crc_bits (crc_bits s1 a) post) (crc_bits (crc_bits s1 a') post) =
               D (Lw w) (repeat false (length post))).
  { rewrite (crc_diff _ _ post post eq_refl), Hd, self_xor. reflexivity. }
  change (crc_bits (crc_bits s1 a) post = crc_bits (crc_bits s1 a') post) in Heq.
  rewrite Heq, N.lxor_nilpotent in Hp.
  destruct (D_zeros (Lw w) (length post) Hlt Hnz) as [Hc _]. auto.
Qed.

Print Assumptions crc_burst32.
