#define _GNU_SOURCE
#include <dlfcn.h>
#include <errno.h>
#include <stdio.h>
#include <stdlib.h>
#include <string.h>
#include <unistd.h>
#include <sys/types.h>
#include <limits.h>

/* fail the K-th pwrite whose fd path contains SUBSTR with errno E */
static ssize_t (*real_pwrite)(int, const void*, size_t, off_t);
static int counter = 0;

static int match(int fd)
{
	char link[64], path[PATH_MAX];
	const char* sub = getenv("SHIM_PATH");
	ssize_t n;
	if (!sub) return 0;
	snprintf(link, sizeof(link), "/proc/self/fd/%d", fd);
	n = readlink(link, path, sizeof(path) - 1);
	if (n < 0) return 0;
	path[n] = 0;
	return strstr(path, sub) != 0;
}

ssize_t pwrite(int fd, const void* buf, size_t count, off_t off)
{
	if (!real_pwrite) real_pwrite = dlsym(RTLD_NEXT, "pwrite");
	if (match(fd)) {
		const char* k = getenv("SHIM_K");
		int idx = __sync_fetch_and_add(&counter, 1);
		if (getenv("SHIM_LOG")) fprintf(stderr, "SHIM pwrite #%d fd=%d off=%ld len=%zu\n", idx, fd, (long)off, count);
		if (k && atoi(k) == idx) {
			errno = EIO;
			return -1;
		}
	}
	return real_pwrite(fd, buf, count, off);
}
ssize_t pwrite64(int fd, const void* buf, size_t count, off_t off) __attribute__((alias("pwrite")));
