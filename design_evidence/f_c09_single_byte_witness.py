import os, struct, subprocess
S=["/repo/snapraid","--test-skip-device","--test-skip-self","--no-warnings","--test-force-order-alpha","-c","/tmp/t6/conf"]
def crc32c(data, crc=0):
    crc ^= 0xffffffff
    for b in data:
        crc ^= b
        for _ in range(8):
            crc = (crc >> 1) ^ (0x82F63B78 if crc & 1 else 0)
    return crc ^ 0xffffffff
def run(*a):
    return subprocess.run(S+list(a), stdout=subprocess.PIPE, stderr=subprocess.STDOUT)
PAD=b"PPPPPPPP"
def mkname(first, crc, lenbyte):
    return first + b"N" + crc + b"r" + b"\x80" + bytes([lenbyte]) + PAD
d=b"/tmp/t6/d1/"
for f in os.listdir(d): os.unlink(d+f)
for f in ("content","parity","content.lock"):
    try: os.unlink("/tmp/t6/"+f)
    except FileNotFoundError: pass
first=b"A"
name0=mkname(first, b"cccc", 0x81)
open(d+name0,"wb").close()
run("sync","-q","-q","-q")
c=bytearray(open("/tmp/t6/content","rb").read())
off=c.find(name0)
tail_len=len(c)-(off+len(name0))
R=len(PAD)+tail_len
lenbyte=0x80|R
prefix=bytearray(c[:off+2]); prefix[off-1]=0x81
crc=struct.pack("<I", crc32c(bytes(prefix)))
name1=mkname(first, crc, lenbyte)
assert len(name1)==len(name0)
# V: the valid content file for the state in which the file is called name1
V=bytearray(c); V[off:off+len(name1)]=name1
V[-4:]=struct.pack("<I", crc32c(bytes(V[:-4])))
open("/tmp/t6/V","wb").write(V)
Vp=bytearray(V); Vp[off-1]=0x81
assert sum(1 for i in range(len(V)) if V[i]!=Vp[i])==1
open("/tmp/t6/Vp","wb").write(Vp)
print("name1 =", name1, " valid utf8/no slash/no NUL:", (0 not in name1) and (0x2f not in name1))
for tag,data in (("V (valid)",V),("V' (one byte altered at offset %d: %#x -> 0x81)"%(off-1,V[off-1]),Vp)):
    open("/tmp/t6/content","wb").write(data)
    r=run("list","-l","/tmp/t6/list.log")
    print("==",tag,"exit",r.returncode)
    print("\n".join(l for l in open("/tmp/t6/list.log",encoding="latin1").read().splitlines() if l.startswith(("file:","summary:"))))
    print(r.stdout.decode(errors="replace").strip().splitlines()[-3:])
