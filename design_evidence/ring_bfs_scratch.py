#!/usr/bin/env python3
# Scratch exploration (NOT a proof): exhaustive BFS of a small instance of the io.c slot ring,
# to sanity-check the invariants DESIGN.md plans to prove in Coq.
import sys
from collections import deque

def explore(n, R, W, nstripes, stop_at=None, verbose=False):
    # positions: 0..nstripes-1 enabled; block_max = nstripes
    BMAX = nstripes
    # state tuple:
    # r, wi, done, block_next,
    # rtask: tuple over slots of position scheduled (same for all readers) ; rtstate[w][slot] in 'E','R','D' (Empty, Ready, Done)
    # readers: tuple of (idx, pc) pc in 'W'(working on idx), 'S'(wants step), 'Q'(waiting read_sched), 'X'
    # writers: tuple of (idx, pc) pc in 'W','S','Q','X' ; wtstate[w][slot]
    # caller: (pc, aux) ; lists: rlist (frozenset of uncollected readers), wlist
    # waiting flags: caller waiting on read_done / write_done is encoded in caller pc
    def init():
        pos = []
        bn = 0
        rts = []
        for s in range(n-1):
            p = bn; bn += 1
            pos.append(p)
        pos.append(-1)
        rtstate = tuple(tuple(('R' if pos[s] >= 0 and pos[s] < BMAX else 'E') if s < n-1 else 'E' for s in range(n)) for w in range(R))
        readers = tuple((0, 'W') for w in range(R))
        writers = tuple((n-1, 'S') for w in range(W))
        wtstate = tuple(tuple('E' for s in range(n)) for w in range(W))
        wpos = tuple(-1 for s in range(n))
        caller = ('READ_NEXT', 0)
        return (n-1, 0, 0, bn, tuple(pos), rtstate, readers, wtstate, wpos, writers, caller, frozenset(), frozenset(range(W)), 0)
    # last field: number of stripes returned to caller (for order check we track expected next position)
    seen = {}
    q = deque()
    s0 = init()
    seen[s0] = None
    q.append(s0)
    viol = []
    dead = []
    finals = 0
    def setl(t, i, v):
        l = list(t); l[i] = v; return tuple(l)
    while q:
        st = q.popleft()
        (r, wi, done, bn, pos, rts, readers, wts, wpos, writers, caller, rlist, wlist, nret) = st
        succ = []
        cpc, caux = caller
        # ---- invariant checks on state
        # caller holds results of collected readers for slot r when in phases DATA_READ/COMPUTE/PARITY_WRITE/WRITE_NEXT
        if cpc in ('DATA_READ', 'WAIT_RD', 'COMPUTE', 'PARITY_WRITE', 'WAIT_WD', 'WRITE_NEXT'):
            for w in range(R):
                if w not in rlist:  # collected
                    idx, pc = readers[w]
                    if pc == 'W' and idx == r:
                        viol.append(('caller uses data of reader still working', st))
        if cpc == 'COMPUTE':
            for w in range(W):
                idx, pc = writers[w]
                if pc == 'W' and idx == r:
                    viol.append(('caller computes parity into slot a writer is writing', st))
        # ---- reader transitions
        for w in range(R):
            idx, pc = readers[w]
            if pc == 'W':
                # finish work on slot idx
                t = rts[w][idx]
                nt = 'D' if t == 'R' else t
                rts2 = setl(rts, w, setl(rts[w], idx, nt))
                succ.append((r, wi, done, bn, pos, rts2, setl(readers, w, (idx, 'S')), wts, wpos, writers, caller, rlist, wlist, nret))
            elif pc == 'S':
                # reader_step atomic
                if done:
                    succ.append((r, wi, done, bn, pos, rts, setl(readers, w, (idx, 'X')), wts, wpos, writers, caller, rlist, wlist, nret))
                else:
                    nx = (idx+1) % n
                    if nx != r:
                        newcaller = caller
                        if idx == r and cpc == 'WAIT_RD':
                            newcaller = ('DATA_READ', caux)  # signalled
                        # new task: if EMPTY, worker 'continue's -> goes directly to S again; else W
                        npc = 'W' if rts[w][nx] == 'R' else 'S'
                        succ.append((r, wi, done, bn, pos, rts, setl(readers, w, (nx, npc)), wts, wpos, writers, newcaller, rlist, wlist, nret))
                    else:
                        succ.append((r, wi, done, bn, pos, rts, setl(readers, w, (idx, 'Q')), wts, wpos, writers, caller, rlist, wlist, nret))
            # 'Q' woken only by broadcast; 'X' nothing
        # ---- writer transitions
        for w in range(W):
            idx, pc = writers[w]
            if pc == 'W':
                t = wts[w][idx]
                nt = 'D' if t == 'R' else t
                wts2 = setl(wts, w, setl(wts[w], idx, nt))
                succ.append((r, wi, done, bn, pos, rts, readers, wts2, wpos, setl(writers, w, (idx, 'S')), caller, rlist, wlist, nret))
            elif pc == 'S':
                nx = (idx+1) % n
                if nx != wi:
                    newcaller = caller
                    if idx == (wi+1) % n and cpc == 'WAIT_WD':
                        newcaller = ('PARITY_WRITE', caux)
                    npc = 'W' if wts[w][nx] == 'R' else 'S'
                    succ.append((r, wi, done, bn, pos, rts, readers, wts, wpos, setl(writers, w, (nx, npc)), newcaller, rlist, wlist, nret))
                elif done:
                    succ.append((r, wi, done, bn, pos, rts, readers, wts, wpos, setl(writers, w, (idx, 'X')), caller, rlist, wlist, nret))
                else:
                    succ.append((r, wi, done, bn, pos, rts, readers, wts, wpos, setl(writers, w, (idx, 'Q')), caller, rlist, wlist, nret))
        # ---- caller transitions
        if cpc == 'READ_NEXT':
            if rlist:
                viol.append(('assert reader_list empty failed', st))
            # conflict: scheduling slot r while a reader works on it
            for w in range(R):
                idx, pc = readers[w]
                if pc == 'W' and idx == r:
                    viol.append(('caller reschedules slot a reader is working on', st))
            p = bn; bn2 = bn + 1
            pos2 = setl(pos, r, p)
            rts2 = tuple(setl(rts[w], r, 'R' if p < BMAX else 'E') for w in range(R))
            r2 = (r+1) % n
            ret = pos2[r2]
            # wake all readers waiting on read_sched
            readers2 = tuple((i, 'S') if pc == 'Q' else (i, pc) for (i, pc) in readers)
            if ret >= BMAX or (stop_at is not None and nret == stop_at):
                nc = ('STOP', 0)
            else:
                if ret != nret:
                    viol.append(('positions out of order: got %d expected %d' % (ret, nret), st))
                nc = ('DATA_READ', 0)
            succ.append((r2, wi, done, bn2, pos2, rts2, readers2, wts, wpos, writers, nc, frozenset(range(R)), wlist, nret + (0 if nc[0]=='STOP' else 1)))
        elif cpc == 'DATA_READ':
            if not rlist:
                succ.append((r, wi, done, bn, pos, rts, readers, wts, wpos, writers, ('COMPUTE', 0), rlist, wlist, nret))
            else:
                found = False
                for w in sorted(rlist):
                    idx, pc = readers[w]
                    if idx != r:
                        # the C code takes the first finished in list order
                        if rts[w][r] not in ('D', 'E'):
                            viol.append(('caller got a task not completed', st))
                        succ.append((r, wi, done, bn, pos, rts, readers, wts, wpos, writers, ('DATA_READ', 0), rlist - {w}, wlist, nret))
                        found = True
                        break
                if not found:
                    succ.append((r, wi, done, bn, pos, rts, readers, wts, wpos, writers, ('WAIT_RD', 0), rlist, wlist, nret))
        elif cpc == 'COMPUTE':
            succ.append((r, wi, done, bn, pos, rts, readers, wts, wpos, writers, ('PARITY_WRITE', 0), rlist, wlist, nret))
        elif cpc == 'PARITY_WRITE':
            if not wlist:
                succ.append((r, wi, done, bn, pos, rts, readers, wts, wpos, writers, ('WRITE_NEXT', 0), rlist, wlist, nret))
            else:
                busy = (wi+1) % n
                found = False
                for w in sorted(wlist):
                    idx, pc = writers[w]
                    if idx == wi and pc == 'W':
                        viol.append(('assert writer_index != worker index failed', st))
                    if idx != busy:
                        succ.append((r, wi, done, bn, pos, rts, readers, wts, wpos, writers, ('PARITY_WRITE', 0), rlist, wlist - {w}, nret))
                        found = True
                        break
                if not found:
                    succ.append((r, wi, done, bn, pos, rts, readers, wts, wpos, writers, ('WAIT_WD', 0), rlist, wlist, nret))
        elif cpc == 'WRITE_NEXT':
            if wi != r:
                viol.append(('assert writer_index == reader_index failed', st))
            for w in range(W):
                idx, pc = writers[w]
                if pc == 'W' and idx == wi:
                    viol.append(('caller reschedules write slot a writer is working on', st))
            wts2 = tuple(setl(wts[w], wi, 'R') for w in range(W))
            wpos2 = setl(wpos, wi, pos[r])
            wi2 = (wi+1) % n
            writers2 = tuple((i, 'S') if pc == 'Q' else (i, pc) for (i, pc) in writers)
            succ.append((r, wi2, done, bn, pos, rts, readers, wts2, wpos2, writers2, ('READ_NEXT', 0), rlist, frozenset(range(W)), nret))
        elif cpc == 'STOP':
            readers2 = tuple((i, 'S') if pc == 'Q' else (i, pc) for (i, pc) in readers)
            writers2 = tuple((i, 'S') if pc == 'Q' else (i, pc) for (i, pc) in writers)
            succ.append((r, wi, 1, bn, pos, rts, readers2, wts, wpos, writers2, ('JOIN', 0), rlist, wlist, nret))
        elif cpc == 'JOIN':
            if all(pc == 'X' for (_, pc) in readers) and all(pc == 'X' for (_, pc) in writers):
                # check all writer tasks done
                for w in range(W):
                    for s in range(n):
                        if wts[w][s] == 'R':
                            viol.append(('writer exited with a pending write', st))
                succ.append((r, wi, done, bn, pos, rts, readers, wts, wpos, writers, ('END', 0), rlist, wlist, nret))
        elif cpc == 'END':
            finals += 1
            if stop_at is None and nret != nstripes:
                viol.append(('not all stripes returned: %d' % nret, st))
        # WAIT_RD / WAIT_WD: no own transition (woken by signal)
        if not succ and cpc != 'END':
            dead.append(st)
        for s2 in succ:
            if s2 not in seen:
                seen[s2] = st
                q.append(s2)
    return len(seen), viol, dead, finals

if __name__ == '__main__':
    for (n, R, W, ns) in [(3,1,1,4),(3,2,1,4),(3,2,2,3),(4,2,1,5),(5,1,1,6),(3,2,0,4),(2,1,1,3)]:
        for stop in (None, 1):
            states, viol, dead, finals = explore(n, R, W, ns, stop)
            kinds = sorted(set(v[0] for v in viol))
            print("n=%d R=%d W=%d stripes=%d stop=%s: states=%d violations=%d %s deadlocks=%d final_states=%d" % (n, R, W, ns, stop, states, len(viol), kinds, len(dead), finals))
