(* Feasibility prototype: parity_handle_fill (cmdline/parity.c:374-486) grows a split
   "one bit at a time"; with a monotone growth oracle it ends at the largest reachable
   block-aligned size. *)
From Coq Require Import NArith List Bool Lia.
Local Open Scope N_scope.

Lemma pow2_pos n : 0 < 2^n.
Proof. assert (H := N.pow_nonzero 2 n ltac:(lia)). lia. Qed.

Section Fill.
Variable ok : N -> bool.                       (* grow to this size succeeds *)
Hypothesis ok_mono : forall x y, x <= y -> ok y = true -> ok x = true.
Variable k : N.                                (* block size = 2^k *)
Definition bs := 2 ^ k.

Definition hbit (d : N) : N := 2 ^ N.log2 d.   (* highest bit set, d <> 0 *)

(* one iteration of the while loop; state = (base, delta) *)
Definition step (st : N * N) : N * N :=
  let '(base, delta) := st in
  let run := hbit delta in
  let delta' := delta - run in
  if ok (base + run) then (base + run, delta')
  else (base, (run - 1) / bs * bs).            (* (run-1) & ~(bs-1) *)

Fixpoint loop (fuel : nat) (st : N * N) : N * N :=
  match fuel with
  | O => st
  | S f => if snd st =? 0 then st else loop f (step st)
  end.

Lemma hbit_le d : d <> 0 -> hbit d <= d /\ d < 2 * hbit d.
Proof.
  intros Hd. unfold hbit. destruct (N.log2_spec d ltac:(lia)) as [H1 H2].
  split; [exact H1|]. rewrite N.pow_succ_r' in H2. exact H2.
Qed.

(* Phase B invariant: delta = R - bs for a power R = 2^j >= bs, base + R is NOT ok *)
Lemma phaseB fuel : forall base j,
  (N.to_nat (j - k) <= fuel)%nat -> k <= j ->
  ok (base + 2^j) = false ->
  let '(b', d') := loop fuel (base, 2^j - bs) in
  d' = 0 /\ base <= b' /\ b' < base + 2^j /\ (bs | b' - base) /\
  ok (b' + bs) = false /\ (b' <> base -> ok b' = true).
Proof.
  induction fuel as [|fuel IH]; intros base j Hf Hkj Hno.
  { assert (j = k) by lia. subst j. cbn [loop]. unfold bs in *. rewrite N.sub_diag.
    split; [reflexivity|]. split; [lia|]. split; [pose proof (pow2_pos k); lia|].
    split; [exists 0; lia|]. split; [exact Hno|]. intros Hc; exfalso; apply Hc; reflexivity. }
  cbn [loop snd]. destruct (N.eqb_spec (2^j - bs) 0) as [Hz|Hnz].
  { unfold bs in Hz. assert (2^k <= 2^j) by (apply N.pow_le_mono_r; lia).
    assert (E : 2^j = 2^k) by lia.
    split; [exact Hz|]. split; [lia|]. split; [pose proof (pow2_pos j); lia|].
    split; [exists 0; lia|]. split; [unfold bs; rewrite <- E; exact Hno|].
    intros Hc; exfalso; apply Hc; reflexivity. }
  (* j > k *)
  assert (Hjk : k < j).
  { destruct (N.eq_dec j k) as [->|]; [unfold bs in Hnz; lia|lia]. }
  set (j' := j - 1). assert (Ej : j = N.succ j') by lia.
  assert (P : 2^j = 2 * 2^j') by (rewrite Ej, N.pow_succ_r'; reflexivity).
  assert (Hbs : bs <= 2^j') by (unfold bs; apply N.pow_le_mono_r; lia).
  assert (Hpos : 0 < bs) by (unfold bs; apply pow2_pos).
  (* top bit of 2^j - bs is 2^j' *)
  assert (Hh : hbit (2^j - bs) = 2^j').
  { unfold hbit. f_equal. apply N.log2_unique; [lia|].
    split; [lia|]. rewrite N.pow_succ_r'. lia. }
  unfold step. rewrite Hh.
  assert (Hdiv : (2^j' - 1) / bs * bs = 2^j' - bs).
  { unfold bs in *. assert (E : 2^j' = 2^(j' - k) * 2^k).
    { rewrite <- N.pow_add_r. f_equal. lia. }
    set (q := 2^(j'-k)) in *. assert (0 < q) by (apply pow2_pos).
    rewrite E. replace (q * 2^k - 1) with ((q - 1) * 2^k + (2^k - 1)) by nia.
    rewrite N.div_add_l by lia. rewrite N.div_small by lia. nia. }
  destruct (ok (base + 2^j')) eqn:Hok.
  - (* success: base advances, bound halves *)
    replace (2^j - bs - 2^j') with (2^j' - bs) by lia.
    assert (Hno' : ok (base + 2^j' + 2^j') = false) by (replace (base + 2^j' + 2^j') with (base + 2^j) by lia; exact Hno).
    specialize (IH (base + 2^j') j' ltac:(lia) ltac:(lia) Hno').
    destruct (loop fuel (base + 2^j', 2^j' - bs)) as [b' d'].
    destruct IH as [H1 [H2 [H3 [[c Hc] [H5 H6]]]]].
    split; [exact H1|]. split; [lia|]. split; [lia|].
    split.
    { unfold bs in *. assert (E : 2^j' = 2^(j' - k) * 2^k) by (rewrite <- N.pow_add_r; f_equal; lia).
      exists (c + 2^(j'-k)). lia. }
    split; [exact H5|].
    intros _. destruct (N.eq_dec b' (base + 2^j')) as [->|Hne]; [exact Hok|apply H6; exact Hne].
  - (* failure: base stays, bound halves *)
    rewrite Hdiv.
    specialize (IH base j' ltac:(lia) ltac:(lia) Hok).
    destruct (loop fuel (base, 2^j' - bs)) as [b' d'].
    destruct IH as [H1 [H2 [H3 [H4 [H5 H6]]]]].
    split; [exact H1|]. split; [lia|]. split; [lia|]. split; [exact H4|]. split; [exact H5|exact H6].
Qed.

End Fill.
Check phaseB.
Print Assumptions phaseB.
