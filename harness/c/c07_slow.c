/*
 * c07_slow.c -- tiny LD_PRELOAD helper of check_C07: makes the stripes of a running sync observable.
 *
 *  C07_SLOW_SUBSTR=<s>   only pwrite calls on files whose path contains <s> are concerned (default ".parity")
 *  C07_SLOW_MS=<n>       sleep n milliseconds BEFORE each such pwrite
 *  C07_SLOW_PROGRESS=<f> append one line "<offset> <len>\n" to <f> BEFORE sleeping (the harness polls this file to deliver
 *                        a signal at a chosen stripe, or to see that a write is pending)
 *
 * It forwards to the next pwrite in the preload chain (the shim of harness/c/shim.c when both are loaded), so numbering,
 * logging and fault injection of the shim are unaffected.
 */
#define _GNU_SOURCE
#include <dlfcn.h>
#include <stdio.h>
#include <stdlib.h>
#include <string.h>
#include <unistd.h>
#include <fcntl.h>
#include <time.h>
#include <sys/types.h>

static int slow_match(int fd, const char *sub)
{
	char link[64], path[4096];
	ssize_t n;
	snprintf(link, sizeof link, "/proc/self/fd/%d", fd);
	n = readlink(link, path, sizeof path - 1);
	if (n <= 0) return 0;
	path[n] = 0;
	return strstr(path, sub) != 0;
}

ssize_t pwrite(int fd, const void *buf, size_t len, off_t off)
{
	static ssize_t (*real)(int, const void *, size_t, off_t);
	const char *sub = getenv("C07_SLOW_SUBSTR");
	const char *ms = getenv("C07_SLOW_MS");
	const char *prog = getenv("C07_SLOW_PROGRESS");
	if (!real) real = dlsym(RTLD_NEXT, "pwrite");
	if (!sub) sub = ".parity";
	if ((ms || prog) && slow_match(fd, sub)) {
		if (prog) {
			int (*ropen)(const char *, int, ...) = dlsym(RTLD_NEXT, "open");
			ssize_t (*rwrite)(int, const void *, size_t) = dlsym(RTLD_NEXT, "write");
			int (*rclose)(int) = dlsym(RTLD_NEXT, "close");
			int pf = ropen(prog, O_WRONLY | O_CREAT | O_APPEND, 0600);
			if (pf >= 0) {
				char line[64];
				int l = snprintf(line, sizeof line, "%lld %zu\n", (long long)off, len);
				rwrite(pf, line, l);
				rclose(pf);
			}
		}
		if (ms) {
			long v = atol(ms);
			struct timespec ts;
			ts.tv_sec = v / 1000;
			ts.tv_nsec = (v % 1000) * 1000000L;
			nanosleep(&ts, 0);
		}
	}
	return real(fd, buf, len, off);
}
ssize_t pwrite64(int fd, const void *buf, size_t len, off_t off) { return pwrite(fd, buf, len, off); }
