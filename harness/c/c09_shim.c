/* C09 shim (LD_PRELOAD): numbers the state-changing system calls on paths that contain the string C09_MATCH (and do not
 * end in ".lock"), logs every call on such paths to C09_LOG, and can kill the process
 *    C09_KILL_MODE=before : just before performing numbered call C09_KILL_AT
 *    C09_KILL_MODE=after  : just after it completed
 *    C09_KILL_MODE=short  : if it is a write/pwrite, perform only the first half of it (n/2 bytes), then kill
 * (SIGKILL to the whole process, so no atexit handler, no stdio flush, no other thread survives).
 * Write faults (independent of the kill): C09_FAULT_AT=<n> C09_FAULT_MODE=
 *    bitflip : numbered write n stores the buffer with one bit inverted (middle byte) and reports success
 *    shorten : it stores all but the last byte and reports the full count (silent truncation)
 *    enospc / eio : it stores nothing and fails with that errno; on any other numbered call (open, fsync, close, rename, unlink):
 *                   the call is not performed and fails with that errno (a content copy on a full / failing disk)
 * time() reports C09_FAKE_TIME when set, and statfs() then reports fixed total/free block counts (the content file records the
 * free space of every disk), so that a killed run and its un-killed twin write the same bytes.
 *
 * Numbered (state-changing): open/openat/creat with O_CREAT|O_TRUNC|O_WRONLY|O_RDWR, write, pwrite, ftruncate, truncate,
 * fsync, fdatasync, rename, unlink, remove, close of a descriptor opened for writing.
 * Logged with number 0 (not state-changing): read-only open, read, close of a read-only descriptor.
 * Log line:  <n> <op> <path> [<path2>] <detail> = <result>
 */
#define _GNU_SOURCE
#include <dlfcn.h>
#include <errno.h>
#include <fcntl.h>
#include <pthread.h>
#include <signal.h>
#include <stdarg.h>
#include <stdio.h>
#include <stdlib.h>
#include <string.h>
#include <time.h>
#include <unistd.h>
#include <sys/stat.h>
#include <sys/vfs.h>
#include <sys/syscall.h>
#include <sys/types.h>

#define FD_MAX 4096

static int (*r_open)(const char*, int, ...);
static int (*r_open64)(const char*, int, ...);
static int (*r_openat)(int, const char*, int, ...);
static int (*r_openat64)(int, const char*, int, ...);
static int (*r_creat)(const char*, mode_t);
static ssize_t (*r_write)(int, const void*, size_t);
static ssize_t (*r_pwrite)(int, const void*, size_t, off_t);
static ssize_t (*r_pwrite64)(int, const void*, size_t, off_t);
static ssize_t (*r_read)(int, void*, size_t);
static int (*r_fsync)(int);
static int (*r_fdatasync)(int);
static int (*r_rename)(const char*, const char*);
static int (*r_unlink)(const char*);
static int (*r_remove)(const char*);
static int (*r_close)(int);
static int (*r_ftruncate)(int, off_t);
static int (*r_ftruncate64)(int, off_t);
static int (*r_truncate)(const char*, off_t);

static pthread_mutex_t mu = PTHREAD_MUTEX_INITIALIZER;
static char* fd_path[FD_MAX];
static int fd_wr[FD_MAX];
static long counter;
static long kill_at = -1;
static long fault_at = -1;
static int fault_mode; /* 0 none, 1 bitflip, 2 shorten, 3 enospc, 4 eio */
static int kill_mode; /* 0 none, 1 before, 2 after, 3 short */
static const char* match;
static int log_fd = -1;
static int inited;

static void init(void)
{
	const char* e;
	if (inited)
		return;
	inited = 1;
	r_open = dlsym(RTLD_NEXT, "open");
	r_open64 = dlsym(RTLD_NEXT, "open64");
	r_openat = dlsym(RTLD_NEXT, "openat");
	r_openat64 = dlsym(RTLD_NEXT, "openat64");
	r_creat = dlsym(RTLD_NEXT, "creat");
	r_write = dlsym(RTLD_NEXT, "write");
	r_pwrite = dlsym(RTLD_NEXT, "pwrite");
	r_pwrite64 = dlsym(RTLD_NEXT, "pwrite64");
	r_read = dlsym(RTLD_NEXT, "read");
	r_fsync = dlsym(RTLD_NEXT, "fsync");
	r_fdatasync = dlsym(RTLD_NEXT, "fdatasync");
	r_rename = dlsym(RTLD_NEXT, "rename");
	r_unlink = dlsym(RTLD_NEXT, "unlink");
	r_remove = dlsym(RTLD_NEXT, "remove");
	r_close = dlsym(RTLD_NEXT, "close");
	r_ftruncate = dlsym(RTLD_NEXT, "ftruncate");
	r_ftruncate64 = dlsym(RTLD_NEXT, "ftruncate64");
	r_truncate = dlsym(RTLD_NEXT, "truncate");
	match = getenv("C09_MATCH");
	if (match && !*match)
		match = 0;
	e = getenv("C09_KILL_AT");
	if (e && *e)
		kill_at = strtol(e, 0, 10);
	e = getenv("C09_KILL_MODE");
	if (e) {
		if (strcmp(e, "before") == 0)
			kill_mode = 1;
		else if (strcmp(e, "after") == 0)
			kill_mode = 2;
		else if (strcmp(e, "short") == 0)
			kill_mode = 3;
	}
	e = getenv("C09_FAULT_AT");
	if (e && *e)
		fault_at = strtol(e, 0, 10);
	e = getenv("C09_FAULT_MODE");
	if (e) {
		if (strcmp(e, "bitflip") == 0)
			fault_mode = 1;
		else if (strcmp(e, "shorten") == 0)
			fault_mode = 2;
		else if (strcmp(e, "enospc") == 0)
			fault_mode = 3;
		else if (strcmp(e, "eio") == 0)
			fault_mode = 4;
	}
	e = getenv("C09_LOG");
	if (e && *e)
		log_fd = r_open(e, O_WRONLY | O_CREAT | O_APPEND, 0600);
}

static __attribute__((constructor)) void ctor(void)
{
	init();
}

static int matches(const char* path)
{
	size_t l;
	if (!match || !path)
		return 0;
	if (!strstr(path, match))
		return 0;
	l = strlen(path);
	if (l >= 5 && strcmp(path + l - 5, ".lock") == 0)
		return 0;
	return 1;
}

static void logf_(const char* fmt, ...)
{
	char buf[1400];
	va_list ap;
	int n;
	if (log_fd < 0)
		return;
	va_start(ap, fmt);
	n = vsnprintf(buf, sizeof(buf), fmt, ap);
	va_end(ap);
	if (n > (int)sizeof(buf) - 1)
		n = sizeof(buf) - 1;
	r_write(log_fd, buf, n);
}

static void die(const char* why, long n)
{
	logf_("KILL %s %ld\n", why, n);
	syscall(SYS_kill, getpid(), SIGKILL);
	for (;;)
		pause();
}

/* take a number for a state-changing call; kills before it when asked to */
static long number(void)
{
	long n = ++counter;
	if (kill_mode == 1 && n == kill_at)
		die("before", n);
	return n;
}

static void after(long n)
{
	if (kill_mode == 2 && n == kill_at)
		die("after", n);
}

/* enospc / eio on a numbered call that is not a write: the call is not performed and fails */
static int fails_here(long n)
{
	if (n > 0 && n == fault_at && (fault_mode == 3 || fault_mode == 4)) {
		errno = fault_mode == 3 ? ENOSPC : EIO;
		return 1;
	}
	return 0;
}

static int is_writing(int flags)
{
	return (flags & (O_CREAT | O_TRUNC)) != 0 || (flags & O_ACCMODE) != O_RDONLY;
}

static void track(int fd, const char* path, int wr)
{
	if (fd >= 0 && fd < FD_MAX) {
		free(fd_path[fd]);
		fd_path[fd] = strdup(path);
		fd_wr[fd] = wr;
	}
}

static int open_common(int kind, int dirfd, const char* path, int flags, mode_t mode)
{
	int r;
	long n = 0;
	int wr;
	if (!matches(path)) {
		switch (kind) {
		case 0 : return r_open(path, flags, mode);
		case 1 : return r_open64(path, flags, mode);
		case 2 : return r_openat(dirfd, path, flags, mode);
		default : return r_openat64(dirfd, path, flags, mode);
		}
	}
	pthread_mutex_lock(&mu);
	wr = is_writing(flags);
	if (wr)
		n = number();
	if (fails_here(n)) {
		int e = errno;
		logf_("%ld open %s FAULT%d = -1\n", n, path, fault_mode);
		after(n);
		errno = e;
		pthread_mutex_unlock(&mu);
		return -1;
	}
	switch (kind) {
	case 0 : r = r_open(path, flags, mode); break;
	case 1 : r = r_open64(path, flags, mode); break;
	case 2 : r = r_openat(dirfd, path, flags, mode); break;
	default : r = r_openat64(dirfd, path, flags, mode); break;
	}
	{
		int e = errno;
		logf_("%ld open %s flags=%s%s%s%s = %d\n", n, path, (flags & O_ACCMODE) == O_RDONLY ? "RDONLY" : (flags & O_ACCMODE) == O_WRONLY ? "WRONLY" : "RDWR",
			(flags & O_CREAT) ? "|CREAT" : "", (flags & O_EXCL) ? "|EXCL" : "", (flags & O_TRUNC) ? "|TRUNC" : "", r);
		if (r >= 0)
			track(r, path, wr);
		if (wr)
			after(n);
		errno = e;
	}
	pthread_mutex_unlock(&mu);
	return r;
}

int open(const char* path, int flags, ...)
{
	mode_t mode = 0;
	init();
	if (flags & (O_CREAT | O_TMPFILE)) {
		va_list ap;
		va_start(ap, flags);
		mode = va_arg(ap, mode_t);
		va_end(ap);
	}
	return open_common(0, 0, path, flags, mode);
}

int open64(const char* path, int flags, ...)
{
	mode_t mode = 0;
	init();
	if (flags & (O_CREAT | O_TMPFILE)) {
		va_list ap;
		va_start(ap, flags);
		mode = va_arg(ap, mode_t);
		va_end(ap);
	}
	return open_common(1, 0, path, flags, mode);
}

int openat(int dirfd, const char* path, int flags, ...)
{
	mode_t mode = 0;
	init();
	if (flags & (O_CREAT | O_TMPFILE)) {
		va_list ap;
		va_start(ap, flags);
		mode = va_arg(ap, mode_t);
		va_end(ap);
	}
	return open_common(2, dirfd, path, flags, mode);
}

int openat64(int dirfd, const char* path, int flags, ...)
{
	mode_t mode = 0;
	init();
	if (flags & (O_CREAT | O_TMPFILE)) {
		va_list ap;
		va_start(ap, flags);
		mode = va_arg(ap, mode_t);
		va_end(ap);
	}
	return open_common(3, dirfd, path, flags, mode);
}

int creat(const char* path, mode_t mode)
{
	init();
	return open_common(0, 0, path, O_CREAT | O_WRONLY | O_TRUNC, mode);
}

static ssize_t write_common(int kind, int fd, const void* buf, size_t count, off_t off)
{
	ssize_t r;
	long n;
	int e;
	if (fd < 0 || fd >= FD_MAX || !fd_path[fd] || fd == log_fd) {
		switch (kind) {
		case 0 : return r_write(fd, buf, count);
		case 1 : return r_pwrite(fd, buf, count, off);
		default : return r_pwrite64(fd, buf, count, off);
		}
	}
	pthread_mutex_lock(&mu);
	n = number();
	if (kill_mode == 3 && n == kill_at) {
		size_t half = count / 2;
		if (half) {
			if (kind == 0)
				r_write(fd, buf, half);
			else
				r_pwrite64(fd, buf, half, off);
		}
		logf_("%ld %s %s count=%lu SHORT %lu\n", n, kind == 0 ? "write" : "pwrite", fd_path[fd], (unsigned long)count, (unsigned long)half);
		die("short", n);
	}
	if (fault_mode && n == fault_at && count > 0) {
		if (fault_mode == 1 || fault_mode == 2) {
			unsigned char* copy = malloc(count);
			size_t wr = fault_mode == 2 ? count - 1 : count;
			memcpy(copy, buf, count);
			if (fault_mode == 1)
				copy[count / 2] ^= 0x10;
			if (wr) {
				if (kind == 0)
					r_write(fd, copy, wr);
				else
					r_pwrite64(fd, copy, wr, off);
			}
			free(copy);
			r = count;
			errno = 0;
		} else {
			r = -1;
			errno = fault_mode == 3 ? ENOSPC : EIO;
		}
		e = errno;
		logf_("%ld %s %s count=%lu FAULT%d = %ld\n", n, kind == 0 ? "write" : "pwrite", fd_path[fd], (unsigned long)count, fault_mode, (long)r);
		after(n);
		errno = e;
		pthread_mutex_unlock(&mu);
		return r;
	}
	switch (kind) {
	case 0 : r = r_write(fd, buf, count); break;
	case 1 : r = r_pwrite(fd, buf, count, off); break;
	default : r = r_pwrite64(fd, buf, count, off); break;
	}
	e = errno;
	logf_("%ld %s %s count=%lu = %ld\n", n, kind == 0 ? "write" : "pwrite", fd_path[fd], (unsigned long)count, (long)r);
	after(n);
	errno = e;
	pthread_mutex_unlock(&mu);
	return r;
}

ssize_t write(int fd, const void* buf, size_t count)
{
	init();
	return write_common(0, fd, buf, count, 0);
}

ssize_t pwrite(int fd, const void* buf, size_t count, off_t off)
{
	init();
	return write_common(1, fd, buf, count, off);
}

ssize_t pwrite64(int fd, const void* buf, size_t count, off_t off)
{
	init();
	return write_common(2, fd, buf, count, off);
}

ssize_t read(int fd, void* buf, size_t count)
{
	ssize_t r;
	int e;
	init();
	if (fd < 0 || fd >= FD_MAX || !fd_path[fd])
		return r_read(fd, buf, count);
	pthread_mutex_lock(&mu);
	r = r_read(fd, buf, count);
	e = errno;
	logf_("0 read %s count=%lu = %ld\n", fd_path[fd], (unsigned long)count, (long)r);
	errno = e;
	pthread_mutex_unlock(&mu);
	return r;
}

static int fd_call(int kind, int fd, off_t len)
{
	int r;
	long n;
	int e;
	static const char* names[] = { "fsync", "fdatasync", "ftruncate", "ftruncate" };
	if (fd < 0 || fd >= FD_MAX || !fd_path[fd]) {
		switch (kind) {
		case 0 : return r_fsync(fd);
		case 1 : return r_fdatasync(fd);
		case 2 : return r_ftruncate(fd, len);
		default : return r_ftruncate64(fd, len);
		}
	}
	pthread_mutex_lock(&mu);
	n = number();
	if (fails_here(n)) {
		e = errno;
		logf_("%ld %s %s FAULT%d = -1\n", n, names[kind], fd_path[fd], fault_mode);
		after(n);
		errno = e;
		pthread_mutex_unlock(&mu);
		return -1;
	}
	switch (kind) {
	case 0 : r = r_fsync(fd); break;
	case 1 : r = r_fdatasync(fd); break;
	case 2 : r = r_ftruncate(fd, len); break;
	default : r = r_ftruncate64(fd, len); break;
	}
	e = errno;
	logf_("%ld %s %s len=%ld = %d\n", n, names[kind], fd_path[fd], (long)len, r);
	after(n);
	errno = e;
	pthread_mutex_unlock(&mu);
	return r;
}

int fsync(int fd)
{
	init();
	return fd_call(0, fd, 0);
}

int fdatasync(int fd)
{
	init();
	return fd_call(1, fd, 0);
}

int ftruncate(int fd, off_t len)
{
	init();
	return fd_call(2, fd, len);
}

int ftruncate64(int fd, off_t len)
{
	init();
	return fd_call(3, fd, len);
}

int truncate(const char* path, off_t len)
{
	int r, e;
	long n;
	init();
	if (!matches(path))
		return r_truncate(path, len);
	pthread_mutex_lock(&mu);
	n = number();
	r = r_truncate(path, len);
	e = errno;
	logf_("%ld truncate %s len=%ld = %d\n", n, path, (long)len, r);
	after(n);
	errno = e;
	pthread_mutex_unlock(&mu);
	return r;
}

int close(int fd)
{
	int r, e;
	long n = 0;
	init();
	if (fd < 0 || fd >= FD_MAX || !fd_path[fd])
		return r_close(fd);
	pthread_mutex_lock(&mu);
	if (fd_wr[fd])
		n = number();
	if (fails_here(n)) {
		e = errno;
		r_close(fd);
		logf_("%ld close %s w FAULT%d = -1\n", n, fd_path[fd], fault_mode);
		free(fd_path[fd]);
		fd_path[fd] = 0;
		after(n);
		errno = e;
		pthread_mutex_unlock(&mu);
		return -1;
	}
	r = r_close(fd);
	e = errno;
	logf_("%ld close %s %s = %d\n", n, fd_path[fd], fd_wr[fd] ? "w" : "r", r);
	free(fd_path[fd]);
	fd_path[fd] = 0;
	if (n)
		after(n);
	errno = e;
	pthread_mutex_unlock(&mu);
	return r;
}

int rename(const char* from, const char* to)
{
	int r, e;
	long n;
	init();
	if (!matches(from) && !matches(to))
		return r_rename(from, to);
	pthread_mutex_lock(&mu);
	n = number();
	if (fails_here(n)) {
		e = errno;
		logf_("%ld rename %s %s FAULT%d = -1\n", n, from, to, fault_mode);
		after(n);
		errno = e;
		pthread_mutex_unlock(&mu);
		return -1;
	}
	r = r_rename(from, to);
	e = errno;
	logf_("%ld rename %s %s = %d\n", n, from, to, r);
	after(n);
	errno = e;
	pthread_mutex_unlock(&mu);
	return r;
}

static int unlink_common(int kind, const char* path)
{
	int r, e;
	long n;
	if (!matches(path))
		return kind ? r_remove(path) : r_unlink(path);
	pthread_mutex_lock(&mu);
	n = number();
	if (fails_here(n)) {
		e = errno;
		logf_("%ld unlink %s FAULT%d = -1\n", n, path, fault_mode);
		after(n);
		errno = e;
		pthread_mutex_unlock(&mu);
		return -1;
	}
	r = kind ? r_remove(path) : r_unlink(path);
	e = errno;
	logf_("%ld unlink %s = %d%s\n", n, path, r, (r != 0 && e == ENOENT) ? " ENOENT" : "");
	after(n);
	errno = e;
	pthread_mutex_unlock(&mu);
	return r;
}

int unlink(const char* path)
{
	init();
	return unlink_common(0, path);
}

int remove(const char* path)
{
	init();
	return unlink_common(1, path);
}

time_t time(time_t* t)
{
	const char* e = getenv("C09_FAKE_TIME");
	time_t v;
	if (e && *e) {
		v = (time_t)strtoll(e, 0, 10);
	} else {
		struct timespec ts;
		clock_gettime(CLOCK_REALTIME, &ts);
		v = ts.tv_sec;
	}
	if (t)
		*t = v;
	return v;
}

static void freeze_fs(struct statfs* st)
{
	st->f_bsize = 4096;
	st->f_frsize = 4096;
	st->f_blocks = 1000000;
	st->f_bfree = 500000;
	st->f_bavail = 500000;
}

int statfs(const char* path, struct statfs* st)
{
	static int (*real)(const char*, struct statfs*);
	int r;
	const char* e = getenv("C09_FAKE_TIME");
	if (!real)
		real = dlsym(RTLD_NEXT, "statfs");
	r = real(path, st);
	if (r == 0 && e && *e)
		freeze_fs(st);
	return r;
}

int statfs64(const char* path, struct statfs64* st)
{
	static int (*real)(const char*, struct statfs64*);
	int r;
	const char* e = getenv("C09_FAKE_TIME");
	if (!real)
		real = dlsym(RTLD_NEXT, "statfs64");
	r = real(path, st);
	if (r == 0 && e && *e) {
		st->f_bsize = 4096;
		st->f_frsize = 4096;
		st->f_blocks = 1000000;
		st->f_bfree = 500000;
		st->f_bavail = 500000;
	}
	return r;
}
