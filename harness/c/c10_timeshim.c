/* C10 clock shim (LD_PRELOAD): time() reports the epoch given in the environment variable C10_FAKE_TIME (decimal
 * seconds).  snapraid takes the `now` that clamps the info times of a saved content file from time(0) in
 * state_write_content (cmdline/state.c), and the times it stores in the info array from time(0) in sync.c / scrub.c.
 * Nothing else is touched. */
#define _GNU_SOURCE
#include <dlfcn.h>
#include <stdlib.h>
#include <time.h>

time_t time(time_t* t)
{
	time_t v;
	const char* e = getenv("C10_FAKE_TIME");
	if (e && *e) {
		v = (time_t)strtoll(e, 0, 10);
	} else {
		struct timespec ts;
		static int (*real_cg)(clockid_t, struct timespec*);
		if (!real_cg)
			real_cg = dlsym(RTLD_NEXT, "clock_gettime");
		real_cg(CLOCK_REALTIME, &ts);
		v = ts.tv_sec;
	}
	if (t)
		*t = v;
	return v;
}
