/*
 * c14_pause.c -- LD_PRELOAD helper of check_C14 (three-command lock interleaving).
 * A call of remove()/unlink() on a path ending in ".lock" is paused: the file <path>.paused is created, then the call
 * waits (at most C14_PAUSE_MS, default 8000 ms) until <path>.go exists, then proceeds.  Nothing else is touched.
 * On the unchanged tree no command removes its lock file, so the pause never happens.
 */
#define _GNU_SOURCE
#include <dlfcn.h>
#include <stdio.h>
#include <stdlib.h>
#include <string.h>
#include <fcntl.h>
#include <unistd.h>
#include <time.h>
#include <sys/stat.h>

static void pause_on(const char *path)
{
	size_t n = path ? strlen(path) : 0;
	char a[4200], b[4200];
	int fd, i, ms;
	struct stat st;
	const char *e = getenv("C14_PAUSE_MS");
	if (n < 5 || n > 4000 || strcmp(path + n - 5, ".lock") != 0)
		return;
	ms = e ? atoi(e) : 8000;
	snprintf(a, sizeof a, "%s.paused", path);
	snprintf(b, sizeof b, "%s.go", path);
	fd = open(a, O_CREAT | O_WRONLY, 0600);
	if (fd >= 0)
		close(fd);
	for (i = 0; i < ms / 5; ++i) {
		struct timespec ts = { 0, 5 * 1000 * 1000 };
		if (stat(b, &st) == 0)
			break;
		nanosleep(&ts, 0);
	}
}

int remove(const char *path)
{
	int (*real)(const char *) = dlsym(RTLD_NEXT, "remove");
	pause_on(path);
	return real(path);
}

int unlink(const char *path)
{
	int (*real)(const char *) = dlsym(RTLD_NEXT, "unlink");
	pause_on(path);
	return real(path);
}
