/* C15 clock shim (LD_PRELOAD): time(), gettimeofday() and clock_gettime(CLOCK_REALTIME) report the epoch given
 * in the environment variable C15_FAKE_TIME (decimal seconds).  snapraid takes `now` from time(0) in
 * scrub.c:750, sync.c:702, state.c:3403 and status.c:81.  Monotonic clocks (used for progress) are not touched.
 * Optionally C15_EIO_PATH / C15_EIO_OFFSET make pread() on the file whose path ends with C15_EIO_PATH fail with
 * EIO when the requested range covers the offset (to exercise the I/O error branch of the scrub book-keeping). */
#define _GNU_SOURCE
#include <dlfcn.h>
#include <errno.h>
#include <stdio.h>
#include <stdlib.h>
#include <string.h>
#include <time.h>
#include <unistd.h>
#include <sys/time.h>
#include <sys/types.h>

static int fake_time(time_t* out)
{
	const char* e = getenv("C15_FAKE_TIME");
	if (!e || !*e)
		return 0;
	*out = (time_t)strtoll(e, 0, 10);
	return 1;
}

time_t time(time_t* t)
{
	time_t v;
	if (!fake_time(&v)) {
		struct timespec ts;
		static int (*real_cg)(clockid_t, struct timespec*);
		if (!real_cg)
			real_cg = dlsym(RTLD_NEXT, "clock_gettime");
		real_cg(CLOCK_REALTIME, &ts);
		v = ts.tv_sec;
	}
	if (t)
		*t = v;
	return v;
}

int gettimeofday(struct timeval* tv, void* tz)
{
	static int (*real)(struct timeval*, void*);
	time_t v;
	int r;
	if (!real)
		real = dlsym(RTLD_NEXT, "gettimeofday");
	r = real(tv, tz);
	if (r == 0 && tv && fake_time(&v)) {
		tv->tv_sec = v;
		tv->tv_usec = 0;
	}
	return r;
}

int clock_gettime(clockid_t id, struct timespec* ts)
{
	static int (*real)(clockid_t, struct timespec*);
	time_t v;
	int r;
	if (!real)
		real = dlsym(RTLD_NEXT, "clock_gettime");
	r = real(id, ts);
	if (r == 0 && id == CLOCK_REALTIME && ts && fake_time(&v)) {
		ts->tv_sec = v;
		ts->tv_nsec = 0;
	}
	return r;
}

static int eio_match(int fd, off_t off, size_t len)
{
	const char* p = getenv("C15_EIO_PATH");
	const char* o = getenv("C15_EIO_OFFSET");
	char link[64], path[4096];
	ssize_t n;
	size_t lp;
	long long want;
	if (!p || !*p || !o)
		return 0;
	want = strtoll(o, 0, 10);
	if (want < (long long)off || want >= (long long)off + (long long)len)
		return 0;
	snprintf(link, sizeof(link), "/proc/self/fd/%d", fd);
	n = readlink(link, path, sizeof(path) - 1);
	if (n <= 0)
		return 0;
	path[n] = 0;
	lp = strlen(p);
	return (size_t)n >= lp && strcmp(path + n - lp, p) == 0;
}

ssize_t pread(int fd, void* buf, size_t len, off_t off)
{
	static ssize_t (*real)(int, void*, size_t, off_t);
	if (!real)
		real = dlsym(RTLD_NEXT, "pread");
	if (eio_match(fd, off, len)) {
		errno = EIO;
		return -1;
	}
	return real(fd, buf, len, off);
}

ssize_t pread64(int fd, void* buf, size_t len, off_t off)
{
	static ssize_t (*real)(int, void*, size_t, off_t);
	if (!real)
		real = dlsym(RTLD_NEXT, "pread64");
	if (eio_match(fd, off, len)) {
		errno = EIO;
		return -1;
	}
	return real(fd, buf, len, off);
}
