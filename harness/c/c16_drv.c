/*
 * c16_drv.c -- unit-level correspondence driver for C16 (CRC-32C, block hashes, binary stream primitives).
 * Links the working tree's cmdline/util.c (which #includes murmur3.c, spooky2.c, metro.c), stream.c,
 * support.c, elem.c.  One case per stdin line, one canonical result per line.  An empty byte string is "-".
 * Temporary files live in $C16_TMP (a scratch directory made by the check).
 *
 *   crc <gen|gen_plain|x86|x86_plain|plain|char> <init> <align> <hex>   -> ok <crc> | skip (no SSE4.2)
 *        plain = crc32c_plain (run-time dispatch), char = crc32c_plain_char folded over the bytes
 *   hash <murmur3|spooky2|metro> <seedhex16> <align> <hex>             -> ok <digesthex16>
 *   hashvec <kind> <seedhex16> <sid> <n>                                -> ok <digesthex16>   (message = vecdata(sid, n))
 *   putb32|putb64|putble32 <ssize> <hw> <v>                             -> ok <hex> <scrc_stream> <file crc>
 *   putbs <ssize> <hw> <hex-without-00>                                 -> ok <hex> <scrc_stream> <file crc>
 *   getb32|getb64|getble32 <ssize> <hex>                                -> ok <v> <consumed> <scrc> | eof | bad
 *   getbs <ssize> <size> <hex>                                          -> ok <hex> <consumed> <scrc> | eof | bad | crash <sig>
 *        (run in a forked child: a wild length makes the C write out of bounds)
 *   wseq <ssize> <hw> <op:arg,...>    ops b32:v b64:v le32:v bs:hex c:byte  -> ok <hex> <scrc_stream> <file crc>
 *   rseq <ssize> <hex> <op,...>       ops b32 b64 le32 bs<size> c           -> <r1>;<r2>;... consumed crc   (stops at the first eof/bad)
 *   bsize <filesize> <blockmax> <pos> <blocksize>                          -> ok <n>
 *   cpu                                                                    -> crc32=<0|1>
 * <ssize> = STREAM_SIZE (stream buffer bytes) for the case, <hw> = 1 lets the stream use crc32b/crc32q when available.
 */
#include "cmdline/portable.h"
#include "cmdline/support.h"
#include "cmdline/util.h"
#include "cmdline/stream.h"
#include "cmdline/elem.h"
#include "raid/cpu.h"
#include <sys/wait.h>

static int has_hw;
static char tmpf[PATH_MAX];

static int hexv(int c) { return c <= '9' ? c - '0' : (c | 32) - 'a' + 10; }
static size_t unhex(const char* s, unsigned char* out)
{
	size_t n = 0;
	if (s[0] == '-') return 0;
	while (s[0] && s[1]) { out[n++] = hexv(s[0]) * 16 + hexv(s[1]); s += 2; }
	return n;
}
static void puthex(const unsigned char* p, size_t n)
{
	size_t i;
	if (!n) { fputs("-", stdout); return; }
	for (i = 0; i < n; ++i) printf("%02x", p[i]);
}

/* same formula as Hash/Words.v vec_byte and c16_lib.py vec_byte */
static unsigned char vec_byte(uint64_t sid, uint64_t n, uint64_t i)
{
	return (unsigned char)((((i + 1) * (n + 13) * 40503 + i * i * 7 + sid * 977) / 16) & 255);
}

static void set_hw(int hw)
{
#if HAVE_SSE42
	crc_x86 = hw && has_hw;
#else
	(void)hw;
#endif
}

static int hash_kind(const char* k)
{
	if (!strcmp(k, "murmur3")) return HASH_MURMUR3;
	if (!strcmp(k, "spooky2")) return HASH_SPOOKY2;
#ifdef HASH_METRO
	if (!strcmp(k, "metro")) return HASH_METRO;
#endif
	return -1;
}

static size_t slurp(const char* path, unsigned char* out, size_t max)
{
	FILE* f = fopen(path, "rb");
	size_t n;
	if (!f) return 0;
	n = fread(out, 1, max, f);
	fclose(f);
	return n;
}
static void spit(const char* path, const unsigned char* p, size_t n)
{
	FILE* f = fopen(path, "wb");
	if (!f) { perror(path); exit(3); }
	if (n) fwrite(p, 1, n, f);
	fclose(f);
}

static int wop(STREAM* f, const char* op, unsigned char* scratch)
{
	const char* a = strchr(op, ':');
	if (!a) return -2;
	++a;
	if (!strncmp(op, "b32:", 4)) return sputb32((uint32_t)strtoull(a, 0, 10), f);
	if (!strncmp(op, "b64:", 4)) return sputb64(strtoull(a, 0, 10), f);
	if (!strncmp(op, "le32:", 5)) return sputble32((uint32_t)strtoull(a, 0, 10), f);
	if (!strncmp(op, "bs:", 3)) { size_t n = unhex(a, scratch); scratch[n] = 0; return sputbs((char*)scratch, f); }
	if (!strncmp(op, "c:", 2)) return sputc((int)strtoul(a, 0, 10), f);
	return -2;
}

/* finish a write case: flush/close, print bytes, shadow crc and file crc */
static void wfinish(STREAM* f, int ret, unsigned char* buf, size_t max)
{
	uint32_t cs, cf;
	size_t n;
	if (ret != 0) { sclose(f); printf("fail %d\n", ret); return; }
	if (sflush(f) != 0) { sclose(f); printf("fail flush\n"); return; }
	cs = scrc_stream(f);
	cf = scrc(f);
	sclose(f);
	n = slurp(tmpf, buf, max);
	printf("ok "); puthex(buf, n); printf(" %u %u\n", cs, cf);
}

static const char* rclass(STREAM* f) { return seof(f) ? "eof" : "bad"; }

int main(void)
{
	char* line = 0;
	size_t cap = 0;
	ssize_t len;
	const char* td = getenv("C16_TMP");
	unsigned char* raw;
	unsigned char* buf;
	unsigned char* buf2;
	size_t MAXD = 1 << 20;

	snprintf(tmpf, sizeof(tmpf), "%s/c16_%ld.bin", td ? td : ".", (long)getpid());
	crc32c_init();
	has_hw = raid_cpu_has_crc32();
	raw = malloc(MAXD + 256);
	buf = malloc(MAXD + 256);
	buf2 = malloc(MAXD + 256);

	while ((len = getline(&line, &cap, stdin)) > 0) {
		char* tok[8];
		int nt = 0;
		char* p = line;
		while (len > 0 && (line[len - 1] == '\n' || line[len - 1] == '\r')) line[--len] = 0;
		while (nt < 8 && (tok[nt] = strsep(&p, " ")) != 0) if (tok[nt][0]) ++nt;
		if (nt == 0) { printf("unknown\n"); fflush(stdout); continue; }

		if (!strcmp(tok[0], "cpu")) {
			printf("crc32=%d\n", has_hw);
		} else if (!strcmp(tok[0], "crc") && nt == 5) {
			uint32_t init = (uint32_t)strtoull(tok[2], 0, 10);
			unsigned al = atoi(tok[3]) & 63;
			unsigned char* d = raw + al;
			size_t n = unhex(tok[4], d);
			uint32_t r = 0;
			int ok = 1;
			if (!strcmp(tok[1], "gen")) r = crc32c_gen(init, d, n);
			else if (!strcmp(tok[1], "gen_plain")) r = crc32c_gen_plain(init, d, n);
			else if (!strcmp(tok[1], "plain")) { set_hw(1); r = crc32c_plain(init, d, n); }
			else if (!strcmp(tok[1], "char")) { size_t i; set_hw(0); r = init; for (i = 0; i < n; ++i) r = crc32c_plain_char(r, d[i]); }
#if HAVE_SSE42
			else if (!strcmp(tok[1], "x86")) { if (has_hw) r = crc32c_x86(init, d, n); else ok = 0; }
			else if (!strcmp(tok[1], "x86_plain")) { if (has_hw) r = crc32c_x86_plain(init, d, n); else ok = 0; }
			else if (!strcmp(tok[1], "charhw")) { size_t i; if (has_hw) { set_hw(1); r = init; for (i = 0; i < n; ++i) r = crc32c_plain_char(r, d[i]); } else ok = 0; }
#endif
			else ok = 0;
			if (ok) printf("ok %u\n", r); else printf("skip\n");
		} else if (!strcmp(tok[0], "hash") && nt == 5) {
			unsigned char seed[16 + 64], dig[16];
			unsigned al = atoi(tok[3]) & 63;
			unsigned char* d = raw + al;
			int k = hash_kind(tok[1]);
			size_t n;
			if (k < 0 || unhex(tok[2], seed + (al & 15)) != 16) { printf("skip\n"); fflush(stdout); continue; }
			n = unhex(tok[4], d);
			memhash(k, seed + (al & 15), dig, d, n);
			printf("ok "); puthex(dig, 16); printf("\n");
		} else if (!strcmp(tok[0], "hashvec") && nt == 5) {
			unsigned char seed[16], dig[16];
			uint64_t sid = strtoull(tok[3], 0, 10), n = strtoull(tok[4], 0, 10), i;
			int k = hash_kind(tok[1]);
			if (k < 0 || unhex(tok[2], seed) != 16 || n > MAXD) { printf("skip\n"); fflush(stdout); continue; }
			for (i = 0; i < n; ++i) raw[i] = vec_byte(sid, n, i);
			memhash(k, seed, dig, raw, n);
			printf("ok "); puthex(dig, 16); printf("\n");
		} else if ((!strcmp(tok[0], "putb32") || !strcmp(tok[0], "putb64") || !strcmp(tok[0], "putble32") || !strcmp(tok[0], "putbs")) && nt == 4) {
			STREAM* f;
			int ret;
			STREAM_SIZE = atoi(tok[1]);
			set_hw(atoi(tok[2]));
			unlink(tmpf);
			f = sopen_write(tmpf);
			if (!f) { printf("fail open\n"); fflush(stdout); continue; }
			if (!strcmp(tok[0], "putb32")) ret = sputb32((uint32_t)strtoull(tok[3], 0, 10), f);
			else if (!strcmp(tok[0], "putb64")) ret = sputb64(strtoull(tok[3], 0, 10), f);
			else if (!strcmp(tok[0], "putble32")) ret = sputble32((uint32_t)strtoull(tok[3], 0, 10), f);
			else { size_t n = unhex(tok[3], buf2); buf2[n] = 0; ret = sputbs((char*)buf2, f); }
			wfinish(f, ret, buf, MAXD);
		} else if (!strcmp(tok[0], "wseq") && nt == 4) {
			STREAM* f;
			int ret = 0;
			char* q = tok[3];
			char* op;
			STREAM_SIZE = atoi(tok[1]);
			set_hw(atoi(tok[2]));
			unlink(tmpf);
			f = sopen_write(tmpf);
			if (!f) { printf("fail open\n"); fflush(stdout); continue; }
			while (ret == 0 && (op = strsep(&q, ",")) != 0) if (op[0]) ret = wop(f, op, buf2);
			wfinish(f, ret, buf, MAXD);
		} else if ((!strcmp(tok[0], "getb32") || !strcmp(tok[0], "getb64") || !strcmp(tok[0], "getble32")) && nt == 3) {
			STREAM* f;
			size_t n = unhex(tok[2], buf);
			int ret;
			uint64_t v = 0;
			uint32_t v32 = 0;
			STREAM_SIZE = atoi(tok[1]);
			spit(tmpf, buf, n);
			f = sopen_read(tmpf);
			if (!f) { printf("fail open\n"); fflush(stdout); continue; }
			if (!strcmp(tok[0], "getb32")) { ret = sgetb32(f, &v32); v = v32; }
			else if (!strcmp(tok[0], "getb64")) ret = sgetb64(f, &v);
			else { ret = sgetble32(f, &v32); v = v32; }
			if (ret == 0) printf("ok %llu %lld %u\n", (unsigned long long)v, (long long)stell(f), scrc(f));
			else printf("%s\n", rclass(f));
			sclose(f);
		} else if (!strcmp(tok[0], "getbs") && nt == 4) {
			size_t n = unhex(tok[3], buf);
			int size = atoi(tok[2]);
			pid_t pid;
			int st;
			STREAM_SIZE = atoi(tok[1]);
			spit(tmpf, buf, n);
			fflush(stdout);
			pid = fork();
			if (pid == 0) {
				STREAM* f = sopen_read(tmpf);
				char* str = malloc(size > 0 ? size : 1);
				int ret;
				if (!f) { printf("fail open\n"); fflush(stdout); _exit(0); }
				ret = sgetbs(f, str, size);
				if (ret == 0) { printf("ok "); puthex((unsigned char*)str, strlen(str)); printf(" %lld %u\n", (long long)stell(f), scrc(f)); }
				else printf("%s\n", rclass(f));
				fflush(stdout);
				_exit(0);
			}
			waitpid(pid, &st, 0);
			if (WIFSIGNALED(st)) printf("crash %d\n", WTERMSIG(st));
			else if (WEXITSTATUS(st) != 0) printf("crash exit%d\n", WEXITSTATUS(st));
		} else if (!strcmp(tok[0], "rseq") && nt == 4) {
			STREAM* f;
			size_t n = unhex(tok[2], buf);
			char* q = tok[3];
			char* op;
			int stop = 0;
			STREAM_SIZE = atoi(tok[1]);
			spit(tmpf, buf, n);
			f = sopen_read(tmpf);
			if (!f) { printf("fail open\n"); fflush(stdout); continue; }
			while (!stop && (op = strsep(&q, ",")) != 0) {
				uint32_t v32; uint64_t v64; int ret;
				if (!op[0]) continue;
				if (!strcmp(op, "b32")) { ret = sgetb32(f, &v32); if (ret == 0) printf("%u;", v32); }
				else if (!strcmp(op, "b64")) { ret = sgetb64(f, &v64); if (ret == 0) printf("%llu;", (unsigned long long)v64); }
				else if (!strcmp(op, "le32")) { ret = sgetble32(f, &v32); if (ret == 0) printf("%u;", v32); }
				else if (!strcmp(op, "c")) { int c = sgetc(f); ret = c == EOF ? -1 : 0; if (ret == 0) printf("%d;", c); }
				else if (!strncmp(op, "bs", 2)) {
					int size = atoi(op + 2);
					/* not forked: the generator never puts the wild length 2^32-1 in a sequence */
					ret = sgetbs(f, (char*)buf2, size);
					if (ret == 0) { puthex(buf2, strlen((char*)buf2)); printf(";"); }
				} else ret = -2;
				if (ret != 0) { printf("%s;", ret == -2 ? "unknown" : rclass(f)); stop = 1; }
			}
			if (!stop) printf(" %lld %u", (long long)stell(f), scrc(f));
			printf("\n");
			sclose(f);
		} else if (!strcmp(tok[0], "bsize") && nt == 5) {
			struct snapraid_file file;
			memset(&file, 0, sizeof(file));
			file.size = strtoull(tok[1], 0, 10);
			file.blockmax = (block_off_t)strtoull(tok[2], 0, 10);
			printf("ok %u\n", file_block_size(&file, (block_off_t)strtoull(tok[3], 0, 10), (unsigned)strtoul(tok[4], 0, 10)));
		} else {
			printf("unknown\n");
		}
		fflush(stdout);
	}
	unlink(tmpf);
	return 0;
}
