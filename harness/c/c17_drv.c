/*
 * c17_drv.c -- unit-level correspondence driver for split parity (C17).
 * Compiles the working tree's cmdline/parity.c *into* this unit (so the static functions and the
 * PARITY_LIMIT macro are the real ones) and links the rest of the tool's objects except snapraid.c.
 * One case per stdin line, one result per stdout line.  Scratch files live in $C17_DIR/<pid>/.
 *
 *   find <n> <size_0..size_n-1> <off>            -> <index|-1> <final *offset>        (parity_split_find)
 *   hbit <v>                                     -> <hbit_u64(v)>
 *   limit <limit_size> <split> <level>           -> <PARITY_LIMIT(...)>
 *   chsize <bs> <skip_fallocate> <n> {<sz> <st> <limit>}*n <size>
 *        files of st bytes are created, handles opened by parity_create with recorded sizes sz,
 *        per-split limit_size overridden, parity_chsize(size) called
 *                                                -> ok <is_modified> {<recorded>:<st_size on disk>:<valid>}*n t=<trace>
 *                                                   | err <class> [<n>] t=<trace>     class: missing over restore fixedmis abort other
 *        trace = every parity_handle_grow attempt "<target>:<1|0>" in order (from the split:delta / split:grow tags)
 *   ops <bs> <skip_fallocate> <n> <limit_0..limit_n-1> <op>*
 *        a history on n initially empty splits.  ops:  O (close + parity_create again)   R<size> (parity_chsize)
 *        W<pos>:<seed> (parity_write of bytes (seed+j)&255)   D<pos> (parity_read)   T (parity_truncate)
 *        L<s>:<limit> (the growth limit of split s changes from now on: disk space freed / used up)
 *                                                -> one token per op (o | r<ret>[m<is_modified>][~] | w<ret> | d<hex>|d-1 | t<ret> | l) then
 *                                                   ("~": before this resize some split file did not have its recorded size, e.g. after T)
 *                                                   "|" {<recorded>:<hex of the file>}*n     ("-" for an empty file)
 *        the history stops at the first failing R (the tool exits there).
 */
#define os_abort c17_os_abort
#include "cmdline/parity.c"

#include <setjmp.h>
#include <signal.h>

volatile int global_interrupt = 0;

static sigjmp_buf jb;
static int jb_armed;
void c17_os_abort(void)
{
	if (jb_armed)
		siglongjmp(jb, 1);
	abort();
}

static char dir[PATH_MAX];
static struct snapraid_parity par;
static struct snapraid_parity_handle hnd;
static char* logbuf;
static size_t loglen;

static void log_begin(void)
{
	logbuf = 0;
	loglen = 0;
	stdlog = open_memstream(&logbuf, &loglen);
}
static void log_end(void)
{
	if (stdlog) {
		fclose(stdlog);
		stdlog = 0;
	}
}
static void log_free(void)
{
	free(logbuf);
	logbuf = 0;
}

static void split_path(char* out, size_t n, unsigned s)
{
	snprintf(out, n, "%s/p%u.parity", dir, s);
}

/* print the grow attempts recorded in the log: split:delta:<path>:<base>:<run>:  then optionally split:grow:<path>:<size>: ok */
static void print_trace(void)
{
	char* p = logbuf;
	int first = 1;
	printf(" t=");
	while (p && *p) {
		char* e = strchr(p, '\n');
		size_t len = e ? (size_t)(e - p) : strlen(p);
		if (len > 12 && memcmp(p, "split:delta:", 12) == 0) {
			/* fields from the end: ...:<base>:<run>: */
			char line[PATH_MAX + 128];
			unsigned long long base, run, target;
			char *c2, *c1;
			int ok = 0;
			if (len >= sizeof(line)) len = sizeof(line) - 1;
			memcpy(line, p, len);
			line[len] = 0;
			if (len > 0 && line[len - 1] == ':') line[len - 1] = 0;
			c2 = strrchr(line, ':');
			*c2 = 0;
			c1 = strrchr(line, ':');
			base = strtoull(c1 + 1, 0, 10);
			run = strtoull(c2 + 1, 0, 10);
			target = base + run;
			/* the next line tells if it succeeded */
			if (e) {
				char* q = e + 1;
				if (memcmp(q, "split:grow:", 11) == 0) {
					char* qe = strchr(q, '\n');
					size_t ql = qe ? (size_t)(qe - q) : strlen(q);
					if (ql > 4 && memcmp(q + ql - 4, ": ok", 4) == 0) ok = 1;
				}
			}
			printf("%s%llu:%d", first ? "" : ",", target, ok);
			first = 0;
		}
		if (!e) break;
		p = e + 1;
	}
	if (first) printf("-");
}

static const char* err_class(long long* n)
{
	char* m;
	*n = -1;
	if (!logbuf) return "other";
	if ((m = strstr(logbuf, "You miss ")) != 0) {
		*n = strtoll(m + 9, 0, 10);
		return "missing";
	}
	if (strstr(logbuf, "Unexpected over resizing")) return "over";
	if (strstr(logbuf, "Failed restoring parity file")) return "restore";
	if (strstr(logbuf, "Internal inconsistency in split")) return "fixedmis";
	return "other";
}

static void setup_files(unsigned n, long long* st)
{
	unsigned s;
	memset(&par, 0, sizeof(par));
	par.split_mac = n;
	for (s = 0; s < n; ++s) {
		int f;
		split_path(par.split_map[s].path, sizeof(par.split_map[s].path), s);
		f = open(par.split_map[s].path, O_RDWR | O_CREAT | O_TRUNC, 0600);
		if (f < 0) { perror("open"); exit(3); }
		if (st && ftruncate(f, st[s]) != 0) { perror("ftruncate"); exit(3); }
		close(f);
	}
}
static void remove_files(unsigned n)
{
	unsigned s;
	for (s = 0; s < n; ++s) unlink(par.split_map[s].path);
}
static int do_create(unsigned bs, long long* limit)
{
	unsigned s;
	int r = parity_create(&hnd, &par, 0, ADVISE_NONE, bs, 0);
	if (r != 0) return r;
	hnd.bw = 0;
	for (s = 0; s < hnd.split_mac; ++s)
		hnd.split_map[s].limit_size = limit[s];
	return 0;
}

static void cmd_chsize(char* rest)
{
	unsigned bs, skipf, n, s;
	long long sz[SPLIT_MAX], st[SPLIT_MAX], lim[SPLIT_MAX], size;
	int ret, mod = -1, aborted = 0;
	char* tok = strtok(rest, " ");
	bs = strtoul(tok, 0, 10); tok = strtok(0, " ");
	skipf = strtoul(tok, 0, 10); tok = strtok(0, " ");
	n = strtoul(tok, 0, 10);
	if (n > SPLIT_MAX) { printf("badinput\n"); return; }
	for (s = 0; s < n; ++s) {
		sz[s] = strtoll(strtok(0, " "), 0, 10);
		st[s] = strtoll(strtok(0, " "), 0, 10);
		lim[s] = strtoll(strtok(0, " "), 0, 10);
	}
	size = strtoll(strtok(0, " "), 0, 10);
	setup_files(n, st);
	for (s = 0; s < n; ++s) par.split_map[s].size = sz[s];
	if (do_create(bs, lim) != 0) { printf("err create\n"); remove_files(n); return; }
	log_begin();
	jb_armed = 1;
	if (sigsetjmp(jb, 1) == 0)
		ret = parity_chsize(&hnd, &par, &mod, size, bs, skipf, 0);
	else {
		ret = -1;
		aborted = 1;
	}
	jb_armed = 0;
	log_end();
	if (ret == 0) {
		printf("ok %d", mod);
		for (s = 0; s < n; ++s) {
			struct stat sb;
			if (stat(par.split_map[s].path, &sb) != 0) sb.st_size = -1;
			printf(" %lld:%lld:%lld", (long long)par.split_map[s].size, (long long)sb.st_size, (long long)hnd.split_map[s].valid_size);
			if (par.split_map[s].size != hnd.split_map[s].size) printf("!handle=%lld", (long long)hnd.split_map[s].size);
		}
	} else if (aborted) {
		printf("err abort");
	} else {
		long long miss;
		const char* c = err_class(&miss);
		if (miss >= 0) printf("err %s %lld", c, miss);
		else printf("err %s", c);
	}
	print_trace();
	printf("\n");
	log_free();
	parity_close(&hnd);
	remove_files(n);
}

static void cmd_ops(char* rest)
{
	unsigned bs, skipf, n, s;
	long long lim[SPLIT_MAX];
	char* tok = strtok(rest, " ");
	unsigned char* buf;
	int opened = 0, stop = 0;
	bs = strtoul(tok, 0, 10);
	skipf = strtoul(strtok(0, " "), 0, 10);
	n = strtoul(strtok(0, " "), 0, 10);
	if (n > SPLIT_MAX || bs == 0 || bs > 65536) { printf("badinput\n"); return; }
	for (s = 0; s < n; ++s) lim[s] = strtoll(strtok(0, " "), 0, 10);
	buf = malloc(bs);
	setup_files(n, 0);
	for (s = 0; s < n; ++s) par.split_map[s].size = 0;
	log_begin();
	if (do_create(bs, lim) != 0) { printf("err create\n"); remove_files(n); free(buf); log_end(); log_free(); return; }
	opened = 1;
	while (!stop && (tok = strtok(0, " ")) != 0) {
		switch (tok[0]) {
		case 'O' :
			if (opened) parity_close(&hnd);
			if (do_create(bs, lim) != 0) { printf("err create "); stop = 1; opened = 0; break; }
			opened = 1;
			printf("o ");
			break;
		case 'R' : {
			long long size = strtoll(tok + 1, 0, 10);
			int mod = -1, ret;
			int wf = 1; /* every split file has its recorded size (hypothesis `wf` of the refinement theorems) */
			for (s = 0; s < n; ++s) {
				struct stat sb;
				if (stat(par.split_map[s].path, &sb) != 0 || (long long)sb.st_size != (long long)par.split_map[s].size)
					wf = 0;
			}
			jb_armed = 1;
			if (sigsetjmp(jb, 1) == 0)
				ret = parity_chsize(&hnd, &par, &mod, size, bs, skipf, 0);
			else
				ret = -2;
			jb_armed = 0;
			if (ret == 0) printf("r0m%d%s ", mod, wf ? "" : "~");
			else { printf("r%d ", ret); stop = 1; }
			break;
		}
		case 'W' : {
			unsigned long pos = strtoul(tok + 1, 0, 10);
			unsigned seed = strtoul(strchr(tok, ':') + 1, 0, 10), j;
			for (j = 0; j < bs; ++j) buf[j] = (seed + j) & 255;
			printf("w%d ", parity_write(&hnd, pos, buf, bs));
			break;
		}
		case 'D' : {
			unsigned long pos = strtoul(tok + 1, 0, 10);
			unsigned j;
			int r;
			memset(buf, 0xEE, bs);
			r = parity_read(&hnd, pos, buf, bs, log_error);
			if (r == (int)bs) {
				printf("d");
				for (j = 0; j < bs; ++j) printf("%02x", buf[j]);
				printf(" ");
			} else printf("d-1 ");
			break;
		}
		case 'T' :
			printf("t%d ", parity_truncate(&hnd));
			break;
		case 'L' : {
			unsigned sp = strtoul(tok + 1, 0, 10);
			long long l = strtoll(strchr(tok, ':') + 1, 0, 10);
			if (sp < n) {
				lim[sp] = l;
				if (opened) hnd.split_map[sp].limit_size = l;
			}
			printf("l ");
			break;
		}
		default :
			printf("badop ");
			stop = 1;
		}
	}
	if (opened) parity_close(&hnd);
	log_end();
	log_free();
	printf("|");
	for (s = 0; s < n; ++s) {
		FILE* f = fopen(par.split_map[s].path, "rb");
		int c, any = 0;
		printf(" %lld:", (long long)par.split_map[s].size);
		while (f && (c = getc(f)) != EOF) { printf("%02x", c); any = 1; }
		if (!any) printf("-");
		if (f) fclose(f);
	}
	printf("\n");
	free(buf);
	remove_files(n);
}

static void cmd_find(char* rest)
{
	unsigned n, s;
	data_off_t off;
	struct snapraid_split_handle* r;
	n = strtoul(strtok(rest, " "), 0, 10);
	if (n > SPLIT_MAX) { printf("badinput\n"); return; }
	memset(&hnd, 0, sizeof(hnd));
	hnd.split_mac = n;
	for (s = 0; s < n; ++s) hnd.split_map[s].size = strtoll(strtok(0, " "), 0, 10);
	off = strtoll(strtok(0, " "), 0, 10);
	r = parity_split_find(&hnd, &off);
	printf("%d %lld\n", r ? (int)(r - hnd.split_map) : -1, (long long)off);
}

int main(void)
{
	static char line[1 << 20];
	const char* base = getenv("C17_DIR");
	if (!base) { fprintf(stderr, "C17_DIR not set\n"); return 2; }
	snprintf(dir, sizeof(dir), "%s/%ld", base, (long)getpid());
	mkdir(dir, 0700);
	lock_init();
	while (fgets(line, sizeof(line), stdin)) {
		size_t l = strlen(line);
		while (l && (line[l - 1] == '\n' || line[l - 1] == '\r')) line[--l] = 0;
		if (strncmp(line, "find ", 5) == 0) cmd_find(line + 5);
		else if (strncmp(line, "hbit ", 5) == 0) printf("%llu\n", (unsigned long long)hbit_u64(strtoull(line + 5, 0, 10)));
		else if (strncmp(line, "limit ", 6) == 0) {
			long long lsz; unsigned sp, lv; long long r;
			if (sscanf(line + 6, "%lld %u %u", &lsz, &sp, &lv) != 3) { printf("badinput\n"); continue; }
			{
				data_off_t limit_size = lsz;
				r = PARITY_LIMIT(limit_size, sp, lv);
			}
			printf("%lld\n", r);
		}
		else if (strncmp(line, "chsize ", 7) == 0) cmd_chsize(line + 7);
		else if (strncmp(line, "ops ", 4) == 0) cmd_ops(line + 4);
		else printf("unknown\n");
		fflush(stdout);
	}
	rmdir(dir);
	return 0;
}
