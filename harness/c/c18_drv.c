/*
 * c18_drv.c -- unit-level correspondence driver for the include/exclude filters (C18).
 * Links the working tree's cmdline/elem.c (filter_alloc_file, filter_alloc_disk, filter_path, filter_subdir,
 * filter_emptydir, filter_content, filter_hidden) and compiles the working tree's cmdline/fnmatch.c under the
 * name repo_fnmatch (it is normally compiled out: config.h has HAVE_FNMATCH=1 and the tool uses libc's).
 * One case per line on stdin, one result per line on stdout.  Byte strings are hex ("-" = empty).
 *
 *   fnm <pathname 0|1> <pat> <str>        -> <libc 0|1> <repo 0|1>            (1 = match)
 *   parse <pat>                           -> none | ok <is_disk><is_path><is_dir> <pattern>
 *   flt <p|s|e> <disk> <sub> <rule>...    -> bad <i> | 0 | 1                  (1 = excluded)
 *        rule = e<hex> exclude | i<hex> include (filter_alloc_file, as state.c:1086/1113 and snapraid.c:613)
 *               D<hex> include disk (filter_alloc_disk, as snapraid.c:624)
 *   skip <nohidden> <isdir> <name> <disk> <dir> <sub> <rule|c<hex>>...   -> 0 | 1
 *        the three tests of scan_sub (scan.c:1318,1324,1437/1491) in their order; c<hex> = a content file path
 *   why  <same arguments as skip>         -> 0 | h (hidden) | c (content) | r<i> (excluded, reason = rule i) | r-
 */
#include "cmdline/portable.h"
#include "cmdline/support.h"
#include "cmdline/elem.h"
#include <stdio.h>
#include <stdlib.h>
#include <string.h>

int repo_fnmatch(const char* pattern, const char* string, int flags);

static int hexv(int c) { return c <= '9' ? c - '0' : (c | 32) - 'a' + 10; }

static char* unhex(const char* s)
{
	size_t n, i;
	char* r;
	if (strcmp(s, "-") == 0) s = "";
	n = strlen(s) / 2;
	r = malloc(n + 1);
	for (i = 0; i < n; ++i) r[i] = (char)(hexv((unsigned char)s[2 * i]) * 16 + hexv((unsigned char)s[2 * i + 1]));
	r[n] = 0;
	return r;
}

static void puthex(const char* s)
{
	if (!*s) { putchar('-'); return; }
	for (; *s; ++s) printf("%02x", (unsigned char)*s);
}

#define MAXTOK 4096
static char* tok[MAXTOK];

/* build the filter list and content list from tok[k..n); returns -1 or the index of the rejected rule */
static int build(int k, int n, tommy_list* filterlist, tommy_list* contentlist)
{
	int i;
	tommy_list_init(filterlist);
	tommy_list_init(contentlist);
	for (i = k; i < n; ++i) {
		char* body = unhex(tok[i] + 1);
		struct snapraid_filter* f = 0;
		switch (tok[i][0]) {
		case 'e' : f = filter_alloc_file(-1, body); break;
		case 'i' : f = filter_alloc_file(1, body); break;
		case 'D' : f = filter_alloc_disk(1, body); break;
		case 'c' : {
			struct snapraid_content* c = content_alloc(body, 0);
			tommy_list_insert_tail(contentlist, &c->node, c);
			free(body);
			continue;
		}
		}
		free(body);
		if (!f) return i - k;
		tommy_list_insert_tail(filterlist, &f->node, f);
	}
	return -1;
}

static void destroy(tommy_list* filterlist, tommy_list* contentlist)
{
	tommy_list_foreach(filterlist, (tommy_foreach_func*)filter_free);
	tommy_list_foreach(contentlist, (tommy_foreach_func*)content_free);
}

int main(void)
{
	char* line = 0;
	size_t cap = 0;
	ssize_t len;

	while ((len = getline(&line, &cap, stdin)) >= 0) {
		int n = 0;
		char* p = line;
		while (len > 0 && (line[len - 1] == '\n' || line[len - 1] == '\r')) line[--len] = 0;
		while (n < MAXTOK) {
			char* t = strsep(&p, " ");
			if (!t) break;
			if (*t) tok[n++] = t;
		}
		if (n == 0) { printf("\n"); continue; }

		if (strcmp(tok[0], "fnm") == 0 && n == 4) {
			int pn = atoi(tok[1]);
			char* pat = unhex(tok[2]);
			char* str = unhex(tok[3]);
			int a = fnmatch(pat, str, pn ? FNM_PATHNAME : 0) == 0;
			int b = repo_fnmatch(pat, str, pn ? FNM_PATHNAME : 0) == 0;
			printf("%d %d\n", a, b);
			free(pat);
			free(str);
		} else if (strcmp(tok[0], "parse") == 0 && n == 2) {
			char* pat = unhex(tok[1]);
			struct snapraid_filter* f = filter_alloc_file(1, pat);
			if (!f) {
				printf("none\n");
			} else {
				printf("ok %d%d%d ", f->is_disk, f->is_path, f->is_dir);
				puthex(f->pattern);
				printf("\n");
				filter_free(f);
			}
			free(pat);
		} else if (strcmp(tok[0], "flt") == 0 && n >= 4) {
			tommy_list fl, cl;
			char* disk = unhex(tok[2]);
			char* sub = unhex(tok[3]);
			int bad = build(4, n, &fl, &cl);
			if (bad >= 0) {
				printf("bad %d\n", bad);
			} else {
				int r;
				switch (tok[1][0]) {
				case 'p' : r = filter_path(&fl, 0, disk, sub); break;
				case 's' : r = filter_subdir(&fl, 0, disk, sub); break;
				default : r = filter_emptydir(&fl, 0, disk, sub); break;
				}
				printf("%d\n", r != 0);
			}
			destroy(&fl, &cl);
			free(disk);
			free(sub);
		} else if ((strcmp(tok[0], "skip") == 0 || strcmp(tok[0], "why") == 0) && n >= 7) {
			int why = tok[0][0] == 'w';
			tommy_list fl, cl;
			int nohidden = atoi(tok[1]);
			int isdir = atoi(tok[2]);
			char* name = unhex(tok[3]);
			char* disk = unhex(tok[4]);
			char* dir = unhex(tok[5]);
			char* sub = unhex(tok[6]);
			int bad = build(7, n, &fl, &cl);
			if (bad >= 0) {
				printf("bad %d\n", bad);
			} else {
				struct dirent dd;
				char path[PATH_MAX];
				int r = 0;
				struct snapraid_filter* reason = 0;
				memset(&dd, 0, sizeof(dd));
				snprintf(dd.d_name, sizeof(dd.d_name), "%s", name);
				snprintf(path, sizeof(path), "%s%s", dir, sub);
				if (filter_hidden(nohidden, &dd) != 0)
					r = 1;
				else if (filter_content(&cl, path) != 0)
					r = 1;
				else if (isdir)
					r = filter_subdir(&fl, &reason, disk, sub) != 0;
				else
					r = filter_path(&fl, &reason, disk, sub) != 0;
				if (!why) {
					printf("%d\n", r);
				} else if (!r) {
					printf("0\n");
				} else if (filter_hidden(nohidden, &dd) != 0) {
					printf("h\n");
				} else if (filter_content(&cl, path) != 0) {
					printf("c\n");
				} else {
					int idx = 0, found = -1;
					tommy_node* i;
					for (i = tommy_list_head(&fl); i != 0; i = i->next, ++idx)
						if (i->data == reason) found = idx;
					if (found >= 0) printf("r%d\n", found); else printf("r-\n");
				}
			}
			destroy(&fl, &cl);
			free(name);
			free(disk);
			free(dir);
			free(sub);
		} else {
			printf("usage\n");
		}
		fflush(stdout);
	}
	return 0;
}

/* ---- the repository's own fnmatch, compiled here under the name repo_fnmatch ------------------------- */
/* cmdline/fnmatch.c is guarded by !HAVE_FNMATCH and by !__GNU_LIBRARY__: lift both guards for this inclusion
   only (all system headers it needs are already included above and are include-guarded). */
#undef HAVE_CONFIG_H
#undef HAVE_FNMATCH
#define HAVE_FNMATCH 0
#undef __GNU_LIBRARY__
#undef HAVE___STRCHRNUL
#define __strchrnul repo_strchrnul
#define fnmatch repo_fnmatch
#define internal_fnmatch repo_internal_fnmatch
#include "cmdline/fnmatch.c"
