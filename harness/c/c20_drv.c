/* C20 unit driver: calls esc_tag / esc_shell / esc_shell_multi of the working tree's cmdline/support.c.
 * One case per stdin line:   esctag <hex> | escshell <hex> | escmulti <hex>,<hex>,...     ("-" = empty string)
 * One result per line:       ok <hex> | bail            (bail = the escaper ended in exit(EXIT_FAILURE))
 * The bytes are handed over as a C string (a NUL inside the hex ends it, as for any caller).
 * Inputs long enough to reach the ESC_MAX check run in a forked child so that the exit can be observed. */
#include "cmdline/portable.h"
#include "cmdline/support.h"
#include <sys/wait.h>

int exit_failure = 1;
void os_abort(void) { abort(); }

static int hexv(int c) { return c <= '9' ? c - '0' : (c | 32) - 'a' + 10; }

static char* unhex(const char* s, size_t n)
{
	char* b = malloc(n / 2 + 2);
	size_t i;
	if (n == 1 && s[0] == '-')
		n = 0;
	for (i = 0; i < n / 2; ++i)
		b[i] = (char)(hexv((unsigned char)s[2 * i]) * 16 + hexv((unsigned char)s[2 * i + 1]));
	b[n / 2] = 0;
	b[n / 2 + 1] = 0;
	return b;
}

static void puthex(const char* r)
{
	size_t i, n = strlen(r);
	fputs("ok ", stdout);
	if (n == 0)
		fputs("-", stdout);
	for (i = 0; i < n; ++i)
		printf("%02x", (unsigned char)r[i]);
	fputs("\n", stdout);
}

static void run_case(const char* cmd, char* arg)
{
	static char buffer[ESC_MAX + 64];
	memset(buffer, 0x55, sizeof(buffer));
	if (strcmp(cmd, "esctag") == 0) {
		char* s = unhex(arg, strlen(arg));
		puthex(esc_tag(s, buffer));
		free(s);
	} else if (strcmp(cmd, "escshell") == 0) {
		char* s = unhex(arg, strlen(arg));
		puthex(esc_shell(s, buffer));
		free(s);
	} else if (strcmp(cmd, "escmulti") == 0) {
		const char* map[64];
		unsigned n = 0;
		char* tok = arg;
		while (tok && n < 64) {
			char* comma = strchr(tok, ',');
			size_t len = comma ? (size_t)(comma - tok) : strlen(tok);
			map[n++] = unhex(tok, len);
			tok = comma ? comma + 1 : 0;
		}
		puthex(esc_shell_multi(map, n, buffer));
	} else {
		printf("error unknown command\n");
	}
	/* the bytes past ESC_MAX must be untouched */
	{
		size_t i;
		for (i = ESC_MAX; i < sizeof(buffer); ++i)
			if (buffer[i] != 0x55) {
				printf("error overflow\n");
				break;
			}
	}
}

int main(void)
{
	static char line[1 << 20];
	lock_init();
	while (fgets(line, sizeof(line), stdin)) {
		char* nl = strchr(line, '\n');
		char* sp;
		if (nl)
			*nl = 0;
		sp = strchr(line, ' ');
		if (!sp) {
			printf("error no argument\n");
			continue;
		}
		*sp = 0;
		if (strlen(sp + 1) >= 2 * 4000) {
			pid_t pid;
			int st = 0;
			fflush(stdout);
			pid = fork();
			if (pid == 0) {
				int fd = open("/dev/null", O_WRONLY);
				if (fd >= 0)
					dup2(fd, 2);
				run_case(line, sp + 1);
				fflush(stdout);
				_exit(0);
			}
			waitpid(pid, &st, 0);
			if (!(WIFEXITED(st) && WEXITSTATUS(st) == 0))
				printf("bail\n");
		} else {
			run_case(line, sp + 1);
		}
		fflush(stdout);
	}
	return 0;
}
