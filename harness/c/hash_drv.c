/* hash_drv.c -- the tool's own block hash on request: line "<kind murmur3|spooky2> <hexseed16> <hexdata>" -> hex digest (16 bytes).
   Used by the array-level harness to build the hash table handed to the abstract model. */
#include "cmdline/portable.h"
#include "cmdline/util.h"
#include <stdio.h>
#include <stdlib.h>
#include <string.h>
static int hv(int c) { return c <= '9' ? c - '0' : (c | 32) - 'a' + 10; }
int main(void)
{
	char *line = 0; size_t cap = 0; ssize_t n;
	static unsigned char data[1 << 20];
	while ((n = getline(&line, &cap, stdin)) > 0) {
		char *sv = 0, *k = strtok_r(line, " \n", &sv), *s = strtok_r(0, " \n", &sv), *d = strtok_r(0, " \n", &sv);
		unsigned char seed[16], dig[16]; size_t i, len;
		int kind;
		if (!k || !s) { printf("bad\n"); continue; }
		kind = !strcmp(k, "murmur3") ? HASH_MURMUR3 : !strcmp(k, "spooky2") ? HASH_SPOOKY2 : HASH_METRO;
		for (i = 0; i < 16; ++i) seed[i] = hv(s[2 * i]) * 16 + hv(s[2 * i + 1]);
		len = d ? strlen(d) / 2 : 0;
		for (i = 0; i < len; ++i) data[i] = hv(d[2 * i]) * 16 + hv(d[2 * i + 1]);
		memhash(kind, seed, dig, data, len);
		for (i = 0; i < 16; ++i) printf("%02x", dig[i]);
		printf("\n"); fflush(stdout);
	}
	return 0;
}
