/*
 * raid_drv.c -- unit-level correspondence driver for raid/ (C02, C03).
 * Links the working tree's raid/*.c.  Reads one case per line on stdin, prints one
 * canonical result per line on stdout.  Every buffer has 64-byte canaries on both sides;
 * a BUG_ON (assert -> SIGABRT) is reported as "abort".
 *
 *   gen  <func> <mode c|z> <nd> <np> <size> <hex nd*size>           -> ok <hex np*size> | frame <what> | abort | skip
 *   rec  <fam int8|ssse3|avx2|disp> <mode> <nd> <np> <size> <nr> <ir..> <hex (nd+np)*size>   -> ok <hex (nd+np)*size> | ...
 *   data <fam> <mode> <nd> <npbuf> <size> <nr> <id..> <ip..> <hex (nd+npbuf)*size>  -> ok <hex ...>
 *   check <mode> <nd> <np> <size> <nr> <ir..> <hex (nd+np)*size>     -> ret <int>
 *   scan  <mode> <nd> <np> <size> <hex>                             -> ret <int> <ir..>
 *   invert <n> <hex n*n>                                            -> ok <hex n*n V> | abort
 *   sort <n> <v..>                                                  -> ok <v..>
 *   insert <n> <v..> <new>                                          -> ok <v..>
 *   combo <r> <n>                                                   -> ok <count> <checksum>  (all combinations enumerated)
 *   dispatch                                                        -> names of the functions raid_init selected
 */
#include "raid/internal.h"
#include "raid/cpu.h"
#include "raid/combo.h"
#include "raid/helper.h"
#include <stdio.h>
#include <stdlib.h>
#include <string.h>
#include <signal.h>
#include <setjmp.h>

#define CAN 256
#define MAXB (RAID_DATA_MAX + RAID_PARITY_MAX + 1)

static sigjmp_buf jb;
static void on_abort(int s) { (void)s; siglongjmp(jb, 1); }

static unsigned char *raw[MAXB];
static void *vbuf[MAXB];
static size_t cur_size;

static void bufs_alloc(int n, size_t size)
{
	int i;
	cur_size = size;
	for (i = 0; i < n; ++i) {
		if (posix_memalign((void **)&raw[i], 256, size + 2 * CAN)) exit(3);
		memset(raw[i], 0xA5 ^ (i & 0xf), size + 2 * CAN);
		vbuf[i] = raw[i] + CAN;
	}
}
static int canaries_ok(int n)
{
	int i; size_t k;
	for (i = 0; i < n; ++i) {
		unsigned char c = 0xA5 ^ (i & 0xf);
		for (k = 0; k < CAN; ++k)
			if (raw[i][k] != c || raw[i][CAN + cur_size + k] != c) return 0;
	}
	return 1;
}
static void bufs_free(int n) { int i; for (i = 0; i < n; ++i) free(raw[i]); }

static int hexv(int c) { return c <= '9' ? c - '0' : (c | 32) - 'a' + 10; }
static void unhex(const char *s, unsigned char *d, size_t n)
{
	size_t i; for (i = 0; i < n; ++i) d[i] = hexv(s[2 * i]) * 16 + hexv(s[2 * i + 1]);
}
static void puthex(const unsigned char *d, size_t n)
{
	size_t i; for (i = 0; i < n; ++i) printf("%02x", d[i]);
}

typedef void genf(int nd, size_t size, void **vv);
typedef void recf(int nr, int *id, int *ip, int nd, size_t size, void **vv);
struct gent { const char *name; genf *f; int np; int need; /* 0 none 1 sse2 2 ssse3 3 avx2 */ int z; };
static struct gent gens[] = {
	{"gen1_int32", raid_gen1_int32, 1, 0, 0}, {"gen1_int64", raid_gen1_int64, 1, 0, 0},
	{"gen2_int32", raid_gen2_int32, 2, 0, 0}, {"gen2_int64", raid_gen2_int64, 2, 0, 0},
	{"genz_int32", raid_genz_int32, 3, 0, 1}, {"genz_int64", raid_genz_int64, 3, 0, 1},
	{"gen3_int8", raid_gen3_int8, 3, 0, 2}, {"gen4_int8", raid_gen4_int8, 4, 0, 0},
	{"gen5_int8", raid_gen5_int8, 5, 0, 0}, {"gen6_int8", raid_gen6_int8, 6, 0, 0},
#ifdef CONFIG_X86
	{"gen1_sse2", raid_gen1_sse2, 1, 1, 0}, {"gen2_sse2", raid_gen2_sse2, 2, 1, 0},
	{"genz_sse2", raid_genz_sse2, 3, 1, 1},
	{"gen3_ssse3", raid_gen3_ssse3, 3, 2, 0}, {"gen4_ssse3", raid_gen4_ssse3, 4, 2, 0},
	{"gen5_ssse3", raid_gen5_ssse3, 5, 2, 0}, {"gen6_ssse3", raid_gen6_ssse3, 6, 2, 0},
	{"gen1_avx2", raid_gen1_avx2, 1, 3, 0}, {"gen2_avx2", raid_gen2_avx2, 2, 3, 0},
#ifdef CONFIG_X86_64
	{"gen2_sse2ext", raid_gen2_sse2ext, 2, 1, 0}, {"genz_sse2ext", raid_genz_sse2ext, 3, 1, 1},
	{"gen3_ssse3ext", raid_gen3_ssse3ext, 3, 2, 0}, {"gen4_ssse3ext", raid_gen4_ssse3ext, 4, 2, 0},
	{"gen5_ssse3ext", raid_gen5_ssse3ext, 5, 2, 0}, {"gen6_ssse3ext", raid_gen6_ssse3ext, 6, 2, 0},
	{"genz_avx2ext", raid_genz_avx2ext, 3, 3, 1}, {"gen3_avx2ext", raid_gen3_avx2ext, 3, 3, 0},
	{"gen4_avx2ext", raid_gen4_avx2ext, 4, 3, 0}, {"gen5_avx2ext", raid_gen5_avx2ext, 5, 3, 0},
	{"gen6_avx2ext", raid_gen6_avx2ext, 6, 3, 0},
#endif
#endif
	{0, 0, 0, 0, 0}
};

static int have(int need)
{
#ifdef CONFIG_X86
	if (need == 1) return raid_cpu_has_sse2();
	if (need == 2) return raid_cpu_has_ssse3();
	if (need == 3) return raid_cpu_has_avx2();
#endif
	return need == 0;
}

static const char *gen_name(genf *f)
{
	int i; for (i = 0; gens[i].name; ++i) if (gens[i].f == f) return gens[i].name; return "?";
}
static const char *rec_name(recf *f)
{
	if (f == raid_rec1_int8) return "rec1_int8"; if (f == raid_rec2_int8) return "rec2_int8"; if (f == raid_recX_int8) return "recX_int8";
#ifdef CONFIG_X86
	if (f == raid_rec1_ssse3) return "rec1_ssse3"; if (f == raid_rec2_ssse3) return "rec2_ssse3"; if (f == raid_recX_ssse3) return "recX_ssse3";
	if (f == raid_rec1_avx2) return "rec1_avx2"; if (f == raid_rec2_avx2) return "rec2_avx2"; if (f == raid_recX_avx2) return "recX_avx2";
#endif
	return "?";
}

static recf *saved_rec[RAID_PARITY_MAX];
static genf *saved_gen[RAID_PARITY_MAX], *saved_gen3, *saved_genz;

static int set_family(const char *fam)
{
	int i;
	for (i = 0; i < RAID_PARITY_MAX; ++i) { raid_rec_ptr[i] = saved_rec[i]; raid_gen_ptr[i] = saved_gen[i]; }
	raid_gen3_ptr = saved_gen3; raid_genz_ptr = saved_genz;
	if (!strcmp(fam, "disp")) return 1;
	if (!strcmp(fam, "int8")) {
		raid_rec_ptr[0] = raid_rec1_int8; raid_rec_ptr[1] = raid_rec2_int8;
		for (i = 2; i < RAID_PARITY_MAX; ++i) raid_rec_ptr[i] = raid_recX_int8;
		/* portable generators underneath as well */
		raid_gen_ptr[0] = raid_gen1_int32; raid_gen_ptr[1] = raid_gen2_int32;
		raid_gen3_ptr = raid_gen3_int8; raid_genz_ptr = raid_genz_int32;
		raid_gen_ptr[3] = raid_gen4_int8; raid_gen_ptr[4] = raid_gen5_int8; raid_gen_ptr[5] = raid_gen6_int8;
		return 1;
	}
#ifdef CONFIG_X86
	if (!strcmp(fam, "ssse3")) {
		if (!raid_cpu_has_ssse3()) return 0;
		raid_rec_ptr[0] = raid_rec1_ssse3; raid_rec_ptr[1] = raid_rec2_ssse3;
		for (i = 2; i < RAID_PARITY_MAX; ++i) raid_rec_ptr[i] = raid_recX_ssse3;
		/* and the generator set raid_init() selects with them on a CPU without AVX2 and with slow/absent extended
		   registers: the decoders regenerate parity through these (raid_delta_gen relies on their store order) */
		raid_gen_ptr[0] = raid_gen1_sse2; raid_gen_ptr[1] = raid_gen2_sse2;
		raid_gen3_ptr = raid_gen3_ssse3; raid_genz_ptr = raid_genz_sse2;
		raid_gen_ptr[3] = raid_gen4_ssse3; raid_gen_ptr[4] = raid_gen5_ssse3; raid_gen_ptr[5] = raid_gen6_ssse3;
		return 1;
	}
#ifdef CONFIG_X86_64
	if (!strcmp(fam, "ssse3ext")) {
		if (!raid_cpu_has_ssse3()) return 0;
		raid_rec_ptr[0] = raid_rec1_ssse3; raid_rec_ptr[1] = raid_rec2_ssse3;
		for (i = 2; i < RAID_PARITY_MAX; ++i) raid_rec_ptr[i] = raid_recX_ssse3;
		raid_gen_ptr[0] = raid_gen1_sse2; raid_gen_ptr[1] = raid_gen2_sse2ext;
		raid_gen3_ptr = raid_gen3_ssse3ext; raid_genz_ptr = raid_genz_sse2ext;
		raid_gen_ptr[3] = raid_gen4_ssse3ext; raid_gen_ptr[4] = raid_gen5_ssse3ext; raid_gen_ptr[5] = raid_gen6_ssse3ext;
		return 1;
	}
#endif
	if (!strcmp(fam, "avx2")) {
		if (!raid_cpu_has_avx2()) return 0;
		raid_rec_ptr[0] = raid_rec1_avx2; raid_rec_ptr[1] = raid_rec2_avx2;
		for (i = 2; i < RAID_PARITY_MAX; ++i) raid_rec_ptr[i] = raid_recX_avx2;
		return 1;
	}
#endif
	return 0;
}

static void set_mode(const char *m) { raid_mode(m[0] == 'z' ? RAID_MODE_VANDERMONDE : RAID_MODE_CAUCHY); }

static char *line;
static size_t linecap;

int main(void)
{
	static unsigned char *zero;
	int i;
	ssize_t len;
	struct sigaction sa;

	memset(&sa, 0, sizeof(sa));
	sa.sa_handler = on_abort;
	sa.sa_flags = SA_NODEFER;
	sigaction(SIGABRT, &sa, 0);

	raid_init();
	for (i = 0; i < RAID_PARITY_MAX; ++i) { saved_rec[i] = raid_rec_ptr[i]; saved_gen[i] = raid_gen_ptr[i]; }
	saved_gen3 = raid_gen3_ptr; saved_genz = raid_genz_ptr;

	while ((len = getline(&line, &linecap, stdin)) > 0) {
		char *save = 0;
		char *cmd = strtok_r(line, " \n", &save);
		if (!cmd) continue;
		if (!strcmp(cmd, "dispatch")) {
			set_family("disp");
			printf("ok");
			for (i = 0; i < RAID_PARITY_MAX; ++i) printf(" %s", gen_name(raid_gen_ptr[i]));
			printf(" gen3=%s genz=%s", gen_name(raid_gen3_ptr), gen_name(raid_genz_ptr));
			for (i = 0; i < RAID_PARITY_MAX; ++i) printf(" %s", rec_name(raid_rec_ptr[i]));
			printf("\n");
		} else if (!strcmp(cmd, "gen")) {
			char *fn = strtok_r(0, " \n", &save);
			char *mode = strtok_r(0, " \n", &save);
			int nd = atoi(strtok_r(0, " \n", &save));
			int np = atoi(strtok_r(0, " \n", &save));
			size_t size = atol(strtok_r(0, " \n", &save));
			char *hex = strtok_r(0, " \n", &save);
			struct gent *g = 0;
			static unsigned char *copy;
			int ok = 1, b;
			for (i = 0; gens[i].name; ++i) if (!strcmp(gens[i].name, fn)) g = &gens[i];
			if (!g || !have(g->need) || g->np != np || (g->z != 2 && g->z != (mode[0] == 'z') && np >= 3)) { printf("skip\n"); continue; }
			set_family("disp"); set_mode(mode);
			bufs_alloc(nd + np, size);
			copy = malloc((size_t)nd * size);
			unhex(hex, copy, (size_t)nd * size);
			for (b = 0; b < nd; ++b) memcpy(vbuf[b], copy + (size_t)b * size, size);
			for (b = nd; b < nd + np; ++b) memset(vbuf[b], 0x5a, size);
			if (sigsetjmp(jb, 1) == 0) {
				void *vv[MAXB];
				memcpy(vv, vbuf, sizeof(vv));
				g->f(nd, size, vv);
				if (memcmp(vv, vbuf, sizeof(void *) * (nd + np))) { printf("frame pointers-changed\n"); ok = 0; }
				else if (!canaries_ok(nd + np)) { printf("frame canary\n"); ok = 0; }
				else for (b = 0; b < nd; ++b) if (memcmp(vbuf[b], copy + (size_t)b * size, size)) { printf("frame data-%d-modified\n", b); ok = 0; break; }
				if (ok) { printf("ok "); for (b = nd; b < nd + np; ++b) puthex(vbuf[b], size); printf("\n"); }
			} else printf("abort\n");
			free(copy); bufs_free(nd + np);
		} else if (!strcmp(cmd, "rgen")) {
			/* rgen <fam> <mode> <nd> <np> <size> <seed>: the DISPATCHER raid_gen() on pseudo-random data of any size (large,
			 * not a power of two); prints a 64-bit FNV digest per parity buffer plus the first offset differing from a
			 * byte-wise recomputation with the tree's gfmul/gfgen tables (which C02's table obligations tie to the closed forms) */
			char *fam = strtok_r(0, " \n", &save);
			char *mode = strtok_r(0, " \n", &save);
			int nd = atoi(strtok_r(0, " \n", &save));
			int np = atoi(strtok_r(0, " \n", &save));
			size_t size = atol(strtok_r(0, " \n", &save));
			unsigned long long seed = strtoull(strtok_r(0, " \n", &save), 0, 10), x;
			int b, ok = 1;
			size_t k;
			if (!set_family(fam)) { printf("skip\n"); continue; }
			set_mode(mode);
			bufs_alloc(nd + np, size);
			x = seed * 6364136223846793005ULL + 1442695040888963407ULL;
			for (b = 0; b < nd; ++b) for (k = 0; k < size; ++k) { x = x * 6364136223846793005ULL + 1442695040888963407ULL; ((unsigned char *)vbuf[b])[k] = x >> 56; }
			for (b = nd; b < nd + np; ++b) memset(vbuf[b], 0x5a, size);
			if (sigsetjmp(jb, 1) == 0) {
				void *vv[MAXB];
				memcpy(vv, vbuf, sizeof(vv));
				raid_gen(nd, np, size, vv);
				if (memcmp(vv, vbuf, sizeof(void *) * (nd + np))) { printf("frame pointers-changed\n"); ok = 0; }
				else if (!canaries_ok(nd + np)) { printf("frame canary\n"); ok = 0; }
				if (ok) {
					printf("ok");
					for (b = 0; b < np; ++b) {
						unsigned long long h = 1469598103934665603ULL;
						for (k = 0; k < size; ++k) { h ^= ((unsigned char *)vbuf[nd + b])[k]; h *= 1099511628211ULL; }
						printf(" %016llx", h);
					}
					printf("\n");
				}
			} else printf("abort\n");
			bufs_free(nd + np);
		} else if (!strcmp(cmd, "rec") || !strcmp(cmd, "data") || !strcmp(cmd, "check") || !strcmp(cmd, "scan")) {
			int is_rec = !strcmp(cmd, "rec"), is_data = !strcmp(cmd, "data"), is_check = !strcmp(cmd, "check");
			char *fam = (is_rec || is_data) ? strtok_r(0, " \n", &save) : "disp";
			char *mode = strtok_r(0, " \n", &save);
			int nd = atoi(strtok_r(0, " \n", &save));
			int np = atoi(strtok_r(0, " \n", &save));
			size_t size = atol(strtok_r(0, " \n", &save));
			int nr = 0, ir[16], ip[16], b, ret = 0;
			char *hex;
			if (is_rec || is_data || is_check) {
				nr = atoi(strtok_r(0, " \n", &save));
				for (i = 0; i < nr; ++i) ir[i] = atoi(strtok_r(0, " \n", &save));
				if (is_data) for (i = 0; i < nr; ++i) ip[i] = atoi(strtok_r(0, " \n", &save));
			}
			hex = strtok_r(0, " \n", &save);
			if (!set_family(fam)) { printf("skip\n"); continue; }
			set_mode(mode);
			bufs_alloc(nd + np, size);
			if (posix_memalign((void **)&zero, 256, size + 64)) exit(3);
			memset(zero, 0, size + 64);
			raid_zero(zero);
			for (b = 0; b < nd + np; ++b) unhex(hex + 2 * (size_t)b * size, vbuf[b], size);
			if (sigsetjmp(jb, 1) == 0) {
				void *vv[MAXB];
				int ok = 1;
				size_t k;
				memcpy(vv, vbuf, sizeof(vv));
				if (is_rec) raid_rec(nr, ir, nd, np, size, vv);
				else if (is_data) raid_data(nr, ir, ip, nd, size, vv);
				else if (is_check) ret = raid_check(nr, ir, nd, np, size, vv);
				else ret = raid_scan(ir, nd, np, size, vv);
				if (memcmp(vv, vbuf, sizeof(void *) * (nd + np))) { printf("frame pointers-changed\n"); ok = 0; }
				else if (!canaries_ok(nd + np)) { printf("frame canary\n"); ok = 0; }
				else for (k = 0; k < size + 64; ++k) if (zero[k]) { printf("frame zero-block-modified\n"); ok = 0; break; }
				if (ok) {
					if (is_rec || is_data) { printf("ok "); for (b = 0; b < nd + np; ++b) puthex(vbuf[b], size); printf("\n"); }
					else if (is_check) printf("ret %d\n", ret);
					else { printf("ret %d", ret); for (i = 0; i < ret; ++i) printf(" %d", ir[i]); printf("\n"); }
				}
			} else printf("abort\n");
			free(zero); bufs_free(nd + np);
		} else if (!strcmp(cmd, "invert")) {
			int n = atoi(strtok_r(0, " \n", &save));
			char *hex = strtok_r(0, " \n", &save);
			unsigned char M[64], V[64];
			unhex(hex, M, n * n);
			if (sigsetjmp(jb, 1) == 0) { raid_invert(M, V, n); printf("ok "); puthex(V, n * n); printf("\n"); }
			else printf("abort\n");
		} else if (!strcmp(cmd, "sort") || !strcmp(cmd, "insert")) {
			int n = atoi(strtok_r(0, " \n", &save));
			int v[16];
			for (i = 0; i < n; ++i) v[i] = atoi(strtok_r(0, " \n", &save));
			if (sigsetjmp(jb, 1) == 0) {
				if (!strcmp(cmd, "sort")) raid_sort(n, v);
				else { int nw = atoi(strtok_r(0, " \n", &save)); raid_insert(n, v, nw); ++n; }
				printf("ok"); for (i = 0; i < n; ++i) printf(" %d", v[i]); printf("\n");
			} else printf("abort\n");
		} else if (!strcmp(cmd, "combo")) {
			int r = atoi(strtok_r(0, " \n", &save));
			int n = atoi(strtok_r(0, " \n", &save));
			int c[16]; unsigned long count = 0, sum = 0;
			combination_first(r, n, c);
			do { ++count; for (i = 0; i < r; ++i) sum = (sum * 31 + c[i] + 1) % 1000000007UL; } while (combination_next(r, n, c));
			printf("ok %lu %lu\n", count, sum);
		} else printf("unknown\n");
		fflush(stdout);
	}
	return 0;
}
