/*
 * shim.c -- LD_PRELOAD interposer used by the command-level checks (C06..C08, C11, C12, C14, C19).
 *
 *  VSHIM_LOG=<file>       append one line per state-changing call: "<n> <call> <path> [<args>] = <ret>"
 *  VSHIM_ROOT=<prefix>    only paths under this prefix are numbered / logged / faulted
 *  VSHIM_FAIL=<call>:<substr>:<k>:<errno>   fail the k-th (1-based) call of that kind (pread|pwrite|open|fsync|ftruncate|
 *                         fallocate|rename) on a path containing <substr> with errno (k = 0: every call); several separated by ','
 *                         for pwrite the <errno> field may be `short=<n>`: the call transfers only n bytes (n < len) and
 *                         returns n without touching errno (a short count: how a filling disk shows up)
 *  VSHIM_KILL=<n>[:before|after|short]   kill the process (SIGKILL) at the n-th numbered state-changing call
 *  VSHIM_KILL_ON=<call>:<substr>:<k>[:before|after]   kill at the k-th numbered call of that kind on a path containing <substr>
 *  VSHIM_TIME=<epoch>     time() returns this value (plus the seconds elapsed since the first call if VSHIM_TIME_RUN=1)
 */
#define _GNU_SOURCE
#include <dlfcn.h>
#include <stdio.h>
#include <stdlib.h>
#include <string.h>
#include <stdarg.h>
#include <errno.h>
#include <fcntl.h>
#include <unistd.h>
#include <signal.h>
#include <time.h>
#include <sys/stat.h>
#include <sys/types.h>
#include <pthread.h>

#define MAXFD 4096
static char *fdpath[MAXFD];
static pthread_mutex_t mu = PTHREAD_MUTEX_INITIALIZER;
static int logfd = -1;
static const char *root;
static long counter;
static long kill_at = -1;
static int kill_mode; /* 0 before 1 after 2 short */
static int inited;
static char kon_call[16], kon_sub[128];
static long kon_k = -1, kon_seen;
static int kon_after;
static volatile int dying;

struct failspec { char call[16]; char sub[128]; long k; int err; long seen; };
static struct failspec fails[16];
static int nfails;

static void init(void)
{
	const char *s;
	if (inited) return;
	inited = 1;
	root = getenv("VSHIM_ROOT");
	s = getenv("VSHIM_LOG");
	if (s) {
		int (*ropen)(const char *, int, ...) = dlsym(RTLD_NEXT, "open");
		logfd = ropen(s, O_WRONLY | O_CREAT | O_APPEND, 0600);
	}
	s = getenv("VSHIM_KILL");
	if (s) {
		kill_at = atol(s);
		if (strstr(s, ":after")) kill_mode = 1;
		else if (strstr(s, ":short")) kill_mode = 2;
	}
	s = getenv("VSHIM_KILL_ON");
	if (s) {
		char *dup = strdup(s), *b = strchr(dup, ':'), *c;
		if (b) { *b++ = 0; c = strchr(b, ':'); if (c) { *c++ = 0; snprintf(kon_call, sizeof kon_call, "%s", dup); snprintf(kon_sub, sizeof kon_sub, "%s", b); kon_k = atol(c); kon_after = strstr(c, ":after") != 0; } }
	}
	s = getenv("VSHIM_FAIL");
	if (s) {
		char *dup = strdup(s), *tok, *sv = 0;
		for (tok = strtok_r(dup, ",", &sv); tok && nfails < 16; tok = strtok_r(0, ",", &sv)) {
			struct failspec *f = &fails[nfails];
			char *a = tok, *b = strchr(a, ':'), *c, *d;
			if (!b) continue; *b++ = 0; c = strchr(b, ':'); if (!c) continue; *c++ = 0; d = strchr(c, ':'); if (!d) continue; *d++ = 0;
			snprintf(f->call, sizeof f->call, "%s", a); snprintf(f->sub, sizeof f->sub, "%s", b);
			f->k = atol(c); f->err = !strncmp(d, "short=", 6) ? -1 - atoi(d + 6) : atoi(d); f->seen = 0; ++nfails;
		}
	}
}

static int watched(const char *p) { return p && (!root || strncmp(p, root, strlen(root)) == 0); }

static int should_fail(const char *call, const char *path)
{
	int i, r = 0;
	if (!path) return 0;
	pthread_mutex_lock(&mu);
	for (i = 0; i < nfails; ++i)
		if (!strcmp(fails[i].call, call) && strstr(path, fails[i].sub)) {
			if (fails[i].k == 0 || ++fails[i].seen == fails[i].k) r = fails[i].err;   /* k = 0: every call */
		}
	pthread_mutex_unlock(&mu);
	return r;
}

static void logline(long n, const char *call, const char *path, const char *extra, long ret)
{
	char buf[9000];
	int len;
	ssize_t (*rwrite)(int, const void *, size_t) = dlsym(RTLD_NEXT, "write");
	if (logfd < 0) return;
	len = snprintf(buf, sizeof buf, "%ld %s %s %s = %ld\n", n, call, path ? path : "?", extra ? extra : "", ret);
	rwrite(logfd, buf, len);
}

/* number a state-changing call; returns its index; handles kill-before */
static long number(const char *call, const char *path)
{
	long n;
	pthread_mutex_lock(&mu);
	if (dying) { pthread_mutex_unlock(&mu); for (;;) pause(); }   /* the process is being killed: no further effect */
	n = ++counter;
	if (kon_k > 0 && path && !strcmp(call, kon_call) && strstr(path, kon_sub) && ++kon_seen == kon_k) {
		kill_at = n; kill_mode = kon_after ? 1 : 0;
	}
	if (n == kill_at && kill_mode == 0) dying = 1;
	pthread_mutex_unlock(&mu);
	if (n == kill_at && kill_mode == 0) {
		logline(n, call, path, "KILL-BEFORE", 0);
		kill(getpid(), SIGKILL);
	}
	return n;
}
static void after(long n, const char *call, const char *path)
{
	if (n == kill_at && kill_mode == 1) {
		logline(n, call, path, "KILL-AFTER", 0);
		kill(getpid(), SIGKILL);
	}
}

static void setfd(int fd, const char *path)
{
	if (fd >= 0 && fd < MAXFD) {
		pthread_mutex_lock(&mu);
		free(fdpath[fd]);
		fdpath[fd] = path ? strdup(path) : 0;
		pthread_mutex_unlock(&mu);
	}
}
static const char *getfd(int fd) { return (fd >= 0 && fd < MAXFD) ? fdpath[fd] : 0; }

static int do_open(const char *name, int (*real)(const char *, int, ...), const char *path, int flags, mode_t mode)
{
	int fd, e;
	int writing = (flags & (O_WRONLY | O_RDWR | O_CREAT | O_TRUNC)) != 0;
	long n = 0;
	char extra[64];
	init();
	if (watched(path) && (e = should_fail("open", path))) { errno = e; return -1; }
	if (watched(path) && (flags & (O_CREAT | O_TRUNC))) n = number(name, path);
	fd = real(path, flags, mode);
	if (fd >= 0 && watched(path)) setfd(fd, path);
	if (n) {
		snprintf(extra, sizeof extra, "flags=%s%s%s%s", (flags & O_CREAT) ? "C" : "", (flags & O_TRUNC) ? "T" : "", (flags & O_EXCL) ? "X" : "", writing ? "W" : "");
		logline(n, name, path, extra, fd);
		after(n, name, path);
	}
	return fd;
}
int open(const char *path, int flags, ...)
{
	mode_t mode = 0; va_list ap;
	if (flags & (O_CREAT | O_TMPFILE)) { va_start(ap, flags); mode = va_arg(ap, mode_t); va_end(ap); }
	return do_open("open", dlsym(RTLD_NEXT, "open"), path, flags, mode);
}
int open64(const char *path, int flags, ...)
{
	mode_t mode = 0; va_list ap;
	if (flags & (O_CREAT | O_TMPFILE)) { va_start(ap, flags); mode = va_arg(ap, mode_t); va_end(ap); }
	return do_open("open", dlsym(RTLD_NEXT, "open64"), path, flags, mode);
}
int close(int fd)
{
	int (*real)(int) = dlsym(RTLD_NEXT, "close");
	init();
	setfd(fd, 0);
	return real(fd);
}

ssize_t pwrite(int fd, const void *buf, size_t len, off_t off)
{
	ssize_t (*real)(int, const void *, size_t, off_t) = dlsym(RTLD_NEXT, "pwrite");
	const char *p; int e; long n; ssize_t r; char extra[64];
	init(); p = getfd(fd);
	if (!p) return real(fd, buf, len, off);
	if ((e = should_fail("pwrite", p))) {
		if (e < 0) { /* short count: -1 - n encodes n */
			int saved = errno; size_t cnt = (size_t)(-1 - e); if (cnt > len) cnt = len;
			r = real(fd, buf, cnt, off); logline(0, "pwrite", p, "INJECTED-ERROR short", (long)r); errno = saved; return r;
		}
		errno = e; logline(0, "pwrite", p, "INJECTED-ERROR", -1); return -1;
	}
	n = number("pwrite", p);
	if (n == kill_at && kill_mode == 2) { real(fd, buf, len / 2, off); logline(n, "pwrite", p, "KILL-SHORT", (long)(len / 2)); kill(getpid(), SIGKILL); }
	r = real(fd, buf, len, off);
	snprintf(extra, sizeof extra, "off=%lld len=%zu", (long long)off, len);
	logline(n, "pwrite", p, extra, (long)r);
	after(n, "pwrite", p);
	return r;
}
ssize_t pwrite64(int fd, const void *buf, size_t len, off_t off) { return pwrite(fd, buf, len, off); }

ssize_t write(int fd, const void *buf, size_t len)
{
	ssize_t (*real)(int, const void *, size_t) = dlsym(RTLD_NEXT, "write");
	const char *p; int e; long n; ssize_t r; char extra[64];
	init(); p = getfd(fd);
	if (!p || fd == logfd) return real(fd, buf, len);
	if ((e = should_fail("write", p))) { errno = e; return -1; }
	n = number("write", p);
	if (n == kill_at && kill_mode == 2) { real(fd, buf, len / 2); logline(n, "write", p, "KILL-SHORT", (long)(len / 2)); kill(getpid(), SIGKILL); }
	r = real(fd, buf, len);
	snprintf(extra, sizeof extra, "len=%zu", len);
	logline(n, "write", p, extra, (long)r);
	after(n, "write", p);
	return r;
}

ssize_t pread(int fd, void *buf, size_t len, off_t off)
{
	ssize_t (*real)(int, void *, size_t, off_t) = dlsym(RTLD_NEXT, "pread");
	const char *p; int e;
	init(); p = getfd(fd);
	if (p && (e = should_fail("pread", p))) { errno = e; logline(0, "pread", p, "INJECTED-ERROR", -1); return -1; }
	return real(fd, buf, len, off);
}
ssize_t pread64(int fd, void *buf, size_t len, off_t off) { return pread(fd, buf, len, off); }

#define WRAP_FD(NAME, PROTO, ARGS, FMT, ...) \
int NAME PROTO { \
	int (*real) PROTO = dlsym(RTLD_NEXT, #NAME); const char *p; int e, r; long n; char extra[96]; \
	init(); p = getfd(fd); if (!p) return real ARGS; \
	if ((e = should_fail(#NAME, p))) { errno = e; logline(0, #NAME, p, "INJECTED-ERROR", -1); return -1; } \
	n = number(#NAME, p); r = real ARGS; snprintf(extra, sizeof extra, FMT, __VA_ARGS__); logline(n, #NAME, p, extra, r); after(n, #NAME, p); return r; }

WRAP_FD(ftruncate, (int fd, off_t len), (fd, len), "len=%lld", (long long)len)
WRAP_FD(ftruncate64, (int fd, off_t len), (fd, len), "len=%lld", (long long)len)
WRAP_FD(fallocate, (int fd, int mode, off_t off, off_t len), (fd, mode, off, len), "off=%lld len=%lld", (long long)off, (long long)len)
WRAP_FD(fallocate64, (int fd, int mode, off_t off, off_t len), (fd, mode, off, len), "off=%lld len=%lld", (long long)off, (long long)len)
WRAP_FD(posix_fallocate, (int fd, off_t off, off_t len), (fd, off, len), "off=%lld len=%lld", (long long)off, (long long)len)
WRAP_FD(fsync, (int fd), (fd), "%s", "")
WRAP_FD(fdatasync, (int fd), (fd), "%s", "")
WRAP_FD(futimens, (int fd, const struct timespec tv[2]), (fd, tv), "mtime=%lld.%09ld", tv ? (long long)tv[1].tv_sec : 0LL, tv ? tv[1].tv_nsec : 0L)

#define WRAP_PATH1(NAME, PROTO, ARGS) \
int NAME PROTO { \
	int (*real) PROTO = dlsym(RTLD_NEXT, #NAME); int e, r; long n; \
	init(); if (!watched(path)) return real ARGS; \
	if ((e = should_fail(#NAME, path))) { errno = e; return -1; } \
	n = number(#NAME, path); r = real ARGS; logline(n, #NAME, path, "", r); after(n, #NAME, path); return r; }

WRAP_PATH1(unlink, (const char *path), (path))
WRAP_PATH1(remove, (const char *path), (path))
WRAP_PATH1(rmdir, (const char *path), (path))
WRAP_PATH1(mkdir, (const char *path, mode_t mode), (path, mode))
WRAP_PATH1(truncate, (const char *path, off_t len), (path, len))

int rename(const char *from, const char *path)
{
	int (*real)(const char *, const char *) = dlsym(RTLD_NEXT, "rename"); int e, r; long n;
	init(); if (!watched(path) && !watched(from)) return real(from, path);
	if ((e = should_fail("rename", path))) { errno = e; return -1; }
	n = number("rename", path); r = real(from, path); logline(n, "rename", path, from, r); after(n, "rename", path); return r;
}
int symlink(const char *to, const char *path)
{
	int (*real)(const char *, const char *) = dlsym(RTLD_NEXT, "symlink"); int r; long n;
	init(); if (!watched(path)) return real(to, path);
	n = number("symlink", path); r = real(to, path); logline(n, "symlink", path, to, r); after(n, "symlink", path); return r;
}
int link(const char *from, const char *path)
{
	int (*real)(const char *, const char *) = dlsym(RTLD_NEXT, "link"); int r; long n;
	init(); if (!watched(path)) return real(from, path);
	n = number("link", path); r = real(from, path); logline(n, "link", path, from, r); after(n, "link", path); return r;
}
int utimensat(int dirfd, const char *path, const struct timespec tv[2], int flags)
{
	int (*real)(int, const char *, const struct timespec *, int) = dlsym(RTLD_NEXT, "utimensat"); int r; long n; char extra[64];
	init(); if (!watched(path)) return real(dirfd, path, tv, flags);
	n = number("utimensat", path); r = real(dirfd, path, tv, flags);
	snprintf(extra, sizeof extra, "mtime=%lld.%09ld", tv ? (long long)tv[1].tv_sec : 0LL, tv ? tv[1].tv_nsec : 0L);
	logline(n, "utimensat", path, extra, r); after(n, "utimensat", path); return r;
}

time_t time(time_t *t)
{
	time_t (*real)(time_t *) = dlsym(RTLD_NEXT, "time");
	const char *s = getenv("VSHIM_TIME");
	time_t v;
	if (!s) return real(t);
	v = (time_t)atoll(s);
	if (t) *t = v;
	return v;
}
