#!/usr/bin/env python3
"""vectors/C16/hash_vectors.txt -> coq/Hash/Vectors.v : the vendored digests (murmur3, spooky2; the first
COQ_SEEDS seeds, lengths 0..COQ_MAXLEN) as Coq data.  usage: c16_vectors.py <hash_vectors.txt> <out.v>
The output is rewritten only when it changes."""
import sys

COQ_SEEDS = 4
COQ_MAXLEN = 260


def main(src, outp):
    tab = {}
    seeds = {}
    for l in open(src):
        if l.startswith('#') or not l.strip():
            continue
        k, sid, seed, n, dig = l.split()
        sid, n = int(sid), int(n)
        if k not in ('murmur3', 'spooky2') or sid >= COQ_SEEDS or n > COQ_MAXLEN:
            continue
        tab[(k, sid, n)] = int.from_bytes(bytes.fromhex(dig), 'little')
        seeds[sid] = seed
    lines = ["(* GENERATED from vectors/C16/hash_vectors.txt by harness/gen/c16_vectors.py -- do not edit.",
             "   Digests computed by the pinned reference tree; each entry (sid, seed bytes, digests for n = 0, 1, 2, ...)",
             "   with a digest written as the little-endian value of its 16 bytes. *)",
             "From Coq Require Import NArith List.", "Import ListNotations.", "Local Open Scope N_scope.", ""]
    for k in ('murmur3', 'spooky2'):
        ents = []
        for sid in range(COQ_SEEDS):
            ds = []
            for n in range(COQ_MAXLEN + 1):
                if (k, sid, n) not in tab:
                    print('UNSUPPORTED: vector %s sid=%d n=%d missing in %s' % (k, sid, n, src))
                    sys.exit(1)
                ds.append(hex(tab[(k, sid, n)]))
            sb = '; '.join(str(b) for b in bytes.fromhex(seeds[sid]))
            body = ';\n    '.join('; '.join(ds[i:i + 4]) for i in range(0, len(ds), 4))
            ents.append("  (%d, [%s], [\n    %s])" % (sid, sb, body))
        lines.append("Definition %s_vecs : list (N * list N * list N) := [\n%s]." % (k, ';\n'.join(ents)))
        lines.append("")
    s = '\n'.join(lines) + '\n'
    try:
        if open(outp).read() == s:
            return
    except FileNotFoundError:
        pass
    open(outp, 'w').write(s)


if __name__ == '__main__':
    main(sys.argv[1], sys.argv[2])
