#!/usr/bin/env python3
"""Translator: cmdline/util.c -> Coq (Gen/CrcTables.v).  Deliberately dumb: finds each
`uint32_t CRC32C_<k>[256] = { ... };` (k = 0..3) and copies the 256 numbers in source order.
Anything outside that shape -> exit status 1 with a message starting UNSUPPORTED."""
import re, sys


def parse(src):
    """returns {k: [256 ints]} for the tables found; raises ValueError('UNSUPPORTED ...') on a bad shape"""
    src = re.sub(r'/\*.*?\*/', '', src, flags=re.S)
    src = re.sub(r'//[^\n]*', '', src)
    out = {}
    for m in re.finditer(r'\buint32_t\s+CRC32C_(\d+)\s*\[\s*(\w*)\s*\]\s*=\s*\{(.*?)\}\s*;', src, re.S):
        k, dim, body = int(m.group(1)), m.group(2), m.group(3)
        if k in out:
            raise ValueError('UNSUPPORTED: table CRC32C_%d defined twice' % k)
        if dim not in ('256', ''):
            raise ValueError('UNSUPPORTED: CRC32C_%d has dimension [%s]' % (k, dim))
        body = body.strip()
        if body.endswith(','):
            body = body[:-1]
        vals = []
        for tok in body.split(','):
            tok = tok.strip()
            mm = re.fullmatch(r'(0[xX][0-9a-fA-F]+|\d+)[uU]?[lL]{0,2}', tok)
            if not mm:
                raise ValueError('UNSUPPORTED: CRC32C_%d initialiser element %r' % (k, tok[:40]))
            t = mm.group(1)
            if len(t) > 1 and t[0] == '0' and t[1] not in 'xX':
                v = int(t, 8)      # C octal
            else:
                v = int(t, 0)
            if v >= 1 << 32:
                raise ValueError('UNSUPPORTED: CRC32C_%d element %s does not fit uint32_t' % (k, tok))
            vals.append(v)
        if len(vals) > 256:
            raise ValueError('UNSUPPORTED: CRC32C_%d has %d initialisers' % (k, len(vals)))
        vals += [0] * (256 - len(vals))     # C semantics: missing trailing initialisers are zero
        out[k] = vals
    return out


def render(t):
    lines = ["(* GENERATED from cmdline/util.c by harness/gen/crc.py -- do not edit *)",
             "From Coq Require Import NArith List.", "Import ListNotations.", "Local Open Scope N_scope.", ""]
    for k in range(4):
        rows = []
        for i in range(0, 256, 8):
            rows.append("  " + "; ".join(str(v) for v in t[k][i:i + 8]))
        lines.append("Definition crc32c_%d : list N := [\n%s]." % (k, ";\n".join(rows)))
        lines.append("")
    return "\n".join(lines) + "\n"


def main(path, outp):
    try:
        t = parse(open(path, errors='replace').read())
        for k in range(4):
            if k not in t:
                raise ValueError('UNSUPPORTED: table CRC32C_%d not found in %s' % (k, path))
    except ValueError as e:
        print(str(e))
        sys.exit(1)
    s = render(t)
    try:
        if open(outp).read() == s:
            return
    except FileNotFoundError:
        pass
    open(outp, 'w').write(s)


if __name__ == '__main__':
    if len(sys.argv) != 3:
        print('UNSUPPORTED: usage crc.py <util.c> <out.v>')
        sys.exit(2)
    main(sys.argv[1], sys.argv[2])
