#!/usr/bin/env python3
"""Translator: the CRC-32C loops of cmdline/util.h / cmdline/util.c -> Coq (Gen/CrcProgs.v).  (The four TABLES are
translated by crc.py into Gen/CrcTables.v; this file translates the code that uses them.)

Read from the source on every run:
  CRC_IV                      the #define
  crc32c_plain_char           the portable return expression            -> t_plain_char
  crc32c_gen_plain            the two statements of the slicing-by-4 loop body, the statement of the byte loop, the loop
                              geometry (size >= 4 / ptr += 4 / size -= 4, then byte by byte)     -> t_slice4_step, t_byte_step,
                              t_crc32c_gen_plain
  crc32c_gen, crc32c_x86      the pre / post xor conventions around the _plain call               -> t_crc32c_gen, t_crc32c_x86
  crc32c_x86_plain            (x86-64 branch) the plain C around the two asm statements: uint64_t crc64 = crc; an 8-byte loop
                              with `crc32q`, crc = crc64 (truncation), a byte loop with `crc32b`  -> t_crc32c_x86_plain, in terms
                              of CrcModel.hw_crc32q / hw_crc32b (the ASSUMED instruction semantics)
Expressions use the C-subset parser of hashc.py extended with `&`, `*ptr`, `ptr[K]`, `TABLE[e]`; W = 32:
     a << k -> w32 (N.shiftl a k)    a >> k -> N.shiftr a k    a & b -> N.land a b    T[e] -> nth (N.to_nat e) t 0
Loop frames are recognised token by token and emitted as fixed combinators.  Anything else: `UNSUPPORTED <what>`, exit 1,
and the output is replaced by a stub so that no proof can pass on a stale file.

usage: crcc.py <snapshot dir> <output .v>"""
import re, sys, os
sys.path.insert(0, os.path.dirname(os.path.abspath(__file__)))
from hashc import Unsupported, strip_comments, tokenize, function_body, P, lets


class PX(P):
    """hashc.P + `&`, unary `*ptr`, tables / byte arrays with expression or constant index, (unsigned char) casts"""
    LEVELS = [['|'], ['^'], ['&'], ['<<', '>>'], ['+', '-'], ['*']]

    def __init__(self, toks, W, vars_, what, bytes_=None, tables=None, deref=None, narrow=None):
        P.__init__(self, toks, W, vars_, {}, what)
        self.bytes_ = bytes_ or {}        # array name -> Gallina name template for constant index, e.g. 'p%d'
        self.tables = tables or {}        # table name -> Gallina list
        self.deref = deref or {}          # pointer name -> Gallina variable for `*ptr`
        self.narrow = narrow or {}        # variable -> width in bits (8) for assignments that truncate

    def binop(self, op, a, b):
        if op == '&':
            return '(N.land %s %s)' % (a, b)
        return P.binop(self, op, a, b)

    def unary(self):
        t = self.peek()
        if t == ('op', '*') and self.peek(1)[0] == 'id' and self.peek(1)[1] in self.deref:
            self.eat()
            return self.deref[self.eat()[1]]
        if t == ('op', '('):
            if self.peek(1) == ('id', 'unsigned') and self.peek(2) == ('id', 'char') and self.peek(3) == ('op', ')'):
                self.i += 4
                return '(w8 %s)' % self.unary()
        if t[0] == 'id' and self.peek(1) == ('op', '[') and (t[1] in self.tables or t[1] in self.bytes_):
            name = self.eat()[1]
            self.eat('op', '[')
            if name in self.bytes_:
                k = self.eat('num')[1]
                self.eat('op', ']')
                return self.bytes_[name] % k
            e = self.expr()
            self.eat('op', ']')
            return '(nth (N.to_nat %s) %s 0)' % (e, self.tables[name])
        return P.unary(self)

    def statement(self):
        # x >>= K in addition to hashc's forms; assignments to narrow variables truncate
        if self.peek()[0] == 'id' and self.peek(1) == ('op', '>>='):
            v = self.eat('id')[1]
            if v not in self.vars:
                raise Unsupported('%s: assignment to undeclared %s' % (self.what, v))
            self.eat()
            e = self.expr()
            self.eat('op', ';')
            return v, '(N.shiftr %s %s)' % (v, e)
        v, e = P.statement(self)
        if v in self.narrow and not e.startswith('(w%d ' % self.narrow[v]):
            e = '(w%d %s)' % (self.narrow[v], e)
        return v, e

    def expect_any(self, texts):
        """one of several equivalent token sequences (independent statements in either order)"""
        start = self.i
        err = None
        for text in texts:
            self.i = start
            try:
                self.expect(text)
                return
            except Unsupported as e:
                err = e
        raise err

    def expect(self, text):
        for t in tokenize(text):
            g = self.eat()
            if g != t:
                raise Unsupported('%s: expected `%s`, found %r' % (self.what, text, g[1]))


TABLES = {'CRC32C_%d' % k: 'crc32c_%d' % k for k in range(4)}


def drop_sse42(body, what):
    """the portable side: remove `#if HAVE_SSE42 ... #endif` regions"""
    out = []
    skip = False
    for l in body.split('\n'):
        t = l.strip()
        if t.startswith('#'):
            if re.fullmatch(r'#if\s+HAVE_SSE42', t) and not skip:
                skip = True
            elif t.startswith('#endif') and skip:
                skip = False
            else:
                raise Unsupported('%s: preprocessor line %r' % (what, t))
            continue
        if not skip:
            out.append(l)
    return '\n'.join(out)


def translate(utilh, utilc):
    out = []
    m = re.search(r'^#define\s+CRC_IV\s+(0x[0-9a-fA-F]+)U\s*$', utilh, re.M)
    if not m:
        raise Unsupported('CRC_IV: #define not found')
    out.append('Definition t_CRC_IV : N := %s.' % m.group(1).lower())

    # crc32c_plain_char, portable branch
    body = drop_sse42(function_body(utilh, r'static\s+inline\s+uint32_t\s+crc32c_plain_char\s*\(\s*uint32_t\s+crc\s*,\s*unsigned\s+char\s+c\s*\)\s*\{', 'crc32c_plain_char'), 'crc32c_plain_char')
    p = PX(tokenize(body), 32, ['crc', 'c'], 'crc32c_plain_char', tables=TABLES)
    p.expect('return')
    e = p.expr()
    p.expect(';')
    if p.peek()[0] != 'eof':
        raise Unsupported('crc32c_plain_char: trailing tokens')
    out.append('Definition t_plain_char (crc c : N) : N := %s.' % e)

    # crc32c_gen_plain
    body = function_body(utilh, r'static\s+inline\s+uint32_t\s+crc32c_gen_plain\s*\(\s*uint32_t\s+crc\s*,\s*const\s+unsigned\s+char\s*\*\s*ptr\s*,\s*unsigned\s+size\s*\)\s*\{', 'crc32c_gen_plain')
    if '#' in body:
        raise Unsupported('crc32c_gen_plain: preprocessor line')
    p = PX(tokenize(body), 32, ['crc'], 'crc32c_gen_plain', bytes_={'ptr': 'p%d'}, tables=TABLES, deref={'ptr': 'c'})
    p.expect('while ( size >= 4 ) {')
    st4 = p.statements_until(lambda q: q.at('id', 'ptr') or q.at('id', 'size'))
    p.expect_any(['ptr += 4 ; size -= 4 ; }', 'size -= 4 ; ptr += 4 ; }'])
    p.expect('while ( size ) {')
    st1 = p.statements_until(lambda q: q.at('op', '++') or q.at('op', '--'))
    p.expect_any(['++ ptr ; -- size ; }', '-- size ; ++ ptr ; }'])
    p.expect('return crc ;')
    if p.peek()[0] != 'eof':
        raise Unsupported('crc32c_gen_plain: trailing tokens')
    for v, _ in st4 + st1:
        if v != 'crc':
            raise Unsupported('crc32c_gen_plain: assignment to %s' % v)
    for k in range(4):
        pass
    out.append('Definition t_slice4_step (crc p0 p1 p2 p3 : N) : N :=\n%s  crc.' % lets(st4))
    out.append('Definition t_byte_step (crc c : N) : N :=\n%s  crc.' % lets(st1))
    out.append('''(* while (size >= 4) { ...; ptr += 4; size -= 4; }  while (size) { ...; ++ptr; --size; }  return crc; *)
Fixpoint t_crc32c_gen_plain (crc : N) (l : list N) {struct l} : N :=
  match l with
  | p0 :: p1 :: p2 :: p3 :: t => t_crc32c_gen_plain (t_slice4_step crc p0 p1 p2 p3) t
  | _ => fold_left t_byte_step l crc
  end.''')

    # crc32c_gen / crc32c_x86: crc ^= CRC_IV; crc = <f>_plain(crc, ptr, size); crc ^= CRC_IV; return crc;
    for name in ('gen', 'x86'):
        body = function_body(utilc, r'\buint32_t\s+crc32c_%s\s*\(\s*uint32_t\s+crc\s*,\s*const\s+unsigned\s+char\s*\*\s*ptr\s*,\s*unsigned\s+size\s*\)\s*\{' % name, 'crc32c_%s' % name)
        if '#' in body:
            raise Unsupported('crc32c_%s: preprocessor line' % name)
        toks = tokenize(body)
        # replace the call by an identifier the expression parser knows
        call = tokenize('crc32c_%s_plain ( crc , ptr , size )' % name)
        for i in range(len(toks) - len(call) + 1):
            if toks[i:i + len(call)] == call:
                toks[i:i + len(call)] = [('id', 'PLAINCALL')]
                break
        else:
            raise Unsupported('crc32c_%s: call of crc32c_%s_plain(crc, ptr, size) not found' % (name, name))
        p = PX(toks, 32, ['crc', 'CRC_IV', 'PLAINCALL'], 'crc32c_%s' % name)
        st = p.statements_until(lambda q: q.at('id', 'return'))
        p.expect('return crc ;')
        if p.peek()[0] != 'eof':
            raise Unsupported('crc32c_%s: trailing tokens' % name)
        txt = lets(st).replace('PLAINCALL', '(t_crc32c_%s_plain crc l)' % name).replace('CRC_IV', 't_CRC_IV')
        out.append(('X86', name, 'Definition t_crc32c_%s (crc : N) (l : list N) : N :=\n%s  crc.' % (name, txt)))

    # crc32c_x86_plain, x86-64 branch: the plain C around the two asm statements
    body = function_body(utilh, r'static\s+inline\s+uint32_t\s+crc32c_x86_plain\s*\(\s*uint32_t\s+crc\s*,\s*const\s+unsigned\s+char\s*\*\s*ptr\s*,\s*unsigned\s+size\s*\)\s*\{', 'crc32c_x86_plain')
    mm = re.search(r'#ifdef\s+CONFIG_X86_64\s*\n(.*?)#else\s*\n.*?#endif\s*\n(.*)', body, re.S)
    if not mm:
        raise Unsupported('crc32c_x86_plain: #ifdef CONFIG_X86_64 / #else / #endif frame')
    norm = lambda s: re.sub(r'\s+', ' ', s).strip()
    want64 = 'uint64_t crc64 = crc; while (size >= 8) { asm ("crc32q %1, %0\\n" : "+r" (crc64) : "m" (*(const uint64_t*)ptr)); ptr += 8; size -= 8; } crc = crc64;'
    want8 = 'while (size) { asm ("crc32b %1, %0\\n" : "+r" (crc) : "m" (*ptr)); ++ptr; --size; } return crc;'
    if norm(mm.group(1)) != want64:
        raise Unsupported('crc32c_x86_plain: 8-byte loop is %r' % norm(mm.group(1))[:120])
    if norm(mm.group(2)) != want8:
        raise Unsupported('crc32c_x86_plain: byte loop is %r' % norm(mm.group(2))[:120])
    x86 = '''(* uint64_t crc64 = crc; while (size >= 8) { crc32q; ptr += 8; size -= 8; } crc = crc64; while (size) { crc32b; ++ptr; --size; }
   crc32q / crc32b = CrcModel.hw_crc32q / hw_crc32b (assumed instruction semantics) *)
Fixpoint t_x86_loop8 (crc64 : N) (l : list N) {struct l} : N * list N :=
  match l with
  | b0 :: b1 :: b2 :: b3 :: b4 :: b5 :: b6 :: b7 :: t => t_x86_loop8 (hw_crc32q crc64 b0 b1 b2 b3 b4 b5 b6 b7) t
  | _ => (crc64, l)
  end.
Definition t_crc32c_x86_plain (crc : N) (l : list N) : N :=
  let crc64 := crc in
  let '(crc64, tail) := t_x86_loop8 crc64 l in
  let crc := w32 crc64 in
  fold_left hw_crc32b tail crc.'''
    res = []
    for o in out:
        if isinstance(o, tuple):
            if o[1] == 'x86':
                res.append(x86)
            res.append(o[2])
        else:
            res.append(o)
    return '\n\n'.join(res) + '\n'


def main(snap, outp):
    head = ["(* GENERATED from cmdline/util.h, cmdline/util.c by harness/gen/crcc.py -- do not edit *)",
            "From Coq Require Import NArith List.", "From Snap.Gen Require Import CrcTables.", "From Snap.Hash Require Import Words.",
            "From Snap.Crc Require Import CrcModel.", "Import ListNotations.", "Local Open Scope N_scope.", ""]
    try:
        utilh = strip_comments(open(os.path.join(snap, 'cmdline/util.h'), errors='replace').read())
        utilc = strip_comments(open(os.path.join(snap, 'cmdline/util.c'), errors='replace').read())
        s = '\n'.join(head) + translate(utilh, utilc)
    except Unsupported as e:
        print('UNSUPPORTED %s' % e)
        stub = '(* GENERATED by harness/gen/crcc.py: the source could not be translated.\n   UNSUPPORTED %s *)\n' % str(e).replace('*)', '* )')
        try:
            if open(outp).read() != stub:
                open(outp, 'w').write(stub)
        except FileNotFoundError:
            open(outp, 'w').write(stub)
        sys.exit(1)
    try:
        if open(outp).read() == s:
            return
    except FileNotFoundError:
        pass
    open(outp, 'w').write(s)


if __name__ == '__main__':
    if len(sys.argv) != 3:
        print('UNSUPPORTED usage: crcc.py <snapshot dir> <out.v>')
        sys.exit(2)
    main(sys.argv[1], sys.argv[2])
