#!/usr/bin/env python3
"""Translator: the escapers of cmdline/support.c -> Coq (Gen/EscProgs.v): esc_tag (the -l log tags) and the byte
classification of esc_shell_multi (non-_WIN32 branch).

Read from the source on every run:
  ESCAPE(from,escape,to)   the macro body must be: case from: [check] *p++ = escape; [check] *p++ = to; break
                           with [check] = `if (p == end) goto bail;` before EVERY store
  esc_tag                  the ESCAPE(...) invocations of the switch, in order (character constants -> byte codes), the
                           default branch ([check] *p++ = c; break), the loop frame `while (*str) { char c = *str; switch (c)
                           {...} ++str; }`, the final [check] *p = 0; return begin;
  esc_shell_multi          inside `switch (c)`: the `case` labels of the #else branch of `#ifdef _WIN32`, the two stores that
                           follow them ([check] *p++ = <escape char>; [check] *p++ = c; break) and the default branch
  ESC_MAX                  #define ESC_MAX (PATH_MAX*2 + 1) of support.h, as a function of PATH_MAX (a system constant)
Emission: t_esc_tag_byte = if-chain over the cases in source order; t_esc_tag = the loop (a C string ends at the first
NUL); since every store is guarded, the call returns iff the escaped length is < ESC_MAX: t_esc_tag_buf.
Anything else: `UNSUPPORTED <what>`, exit 1, output replaced by a stub.

usage: escc.py <snapshot dir> <output .v>"""
import re, sys, os
sys.path.insert(0, os.path.dirname(os.path.abspath(__file__)))
from hashc import Unsupported, strip_comments, tokenize, function_body

SIMPLE = {'n': 10, 'r': 13, 't': 9, '0': 0, '\\': 92, "'": 39, '"': 34}


def charlits(s):
    """character constants -> decimal integers (so that the tokenizer of hashc.py can be used)"""
    def rep(m):
        t = m.group(1)
        if t[0] == '\\':
            if t[1:] not in SIMPLE:
                raise Unsupported('character constant %r' % m.group(0))
            return ' %d ' % SIMPLE[t[1:]]
        return ' %d ' % ord(t)
    return re.sub(r"'(\\.|[^\\'])'", rep, s)


def strings_out(s):
    return re.sub(r'"(?:\\.|[^"\\])*"', ' 0 ', s)


class T:
    def __init__(self, toks, what):
        self.t, self.i, self.what = toks, 0, what

    def peek(self, k=0):
        return self.t[self.i + k] if self.i + k < len(self.t) else ('eof', None)

    def eat(self):
        t = self.peek()
        self.i += 1
        return t

    def at(self, text):
        ts = tokenize(text)
        return self.t[self.i:self.i + len(ts)] == ts

    def expect(self, text):
        for t in tokenize(text):
            g = self.eat()
            if g != t:
                raise Unsupported('%s: expected `%s`, found %r' % (self.what, text, g[1]))

    def num(self):
        t = self.eat()
        if t[0] != 'num' or t[1] > 255:
            raise Unsupported('%s: byte constant expected, found %r' % (self.what, t[1]))
        return t[1]


CHECK = 'if ( p == end ) goto bail ;'


def esc_tag(src):
    out = []
    m = re.search(r'^#define\s+ESCAPE\(from,escape,to\)\s*\\\n((?:.*\\\n)*.*)\n', src, re.M)
    if not m:
        raise Unsupported('ESCAPE: macro not found')
    p = T(tokenize(m.group(1).replace('\\\n', ' ')), 'ESCAPE')
    p.expect('case from : ' + CHECK + ' * p ++ = escape ; ' + CHECK + ' * p ++ = to ; break')
    if p.peek()[0] != 'eof':
        raise Unsupported('ESCAPE: trailing tokens')
    body = function_body(src, r'const\s+char\s*\*\s*esc_tag\s*\(\s*const\s+char\s*\*\s*str\s*,\s*char\s*\*\s*buffer\s*\)\s*\{', 'esc_tag')
    if '#' in body:
        raise Unsupported('esc_tag: preprocessor line')
    p = T(tokenize(strings_out(charlits(body))), 'esc_tag')
    p.expect('char * begin = buffer ; char * end = begin + ESC_MAX ; char * p = begin ;')
    p.expect('while ( * str ) { char c = * str ; switch ( c ) {')
    cases = []
    while p.at('ESCAPE ('):
        p.expect('ESCAPE (')
        a = p.num(); p.expect(','); b = p.num(); p.expect(','); c = p.num()
        p.expect(') ;')
        if a == 0:
            raise Unsupported('esc_tag: ESCAPE of NUL')
        if a in [x[0] for x in cases]:
            raise Unsupported('esc_tag: duplicate case %d' % a)
        cases.append((a, b, c))
    p.expect('default : ' + CHECK + ' * p ++ = c ; break ; } ++ str ; }')
    p.expect(CHECK + ' * p = 0 ; return begin ; bail : log_fatal ( 0 ) ; exit ( EXIT_FAILURE ) ;')
    if p.peek()[0] != 'eof':
        raise Unsupported('esc_tag: trailing tokens')
    chain = ''.join('  if c =? %d then [%d; %d] else\n' % x for x in cases)
    out.append('(* switch (c) { ESCAPE(from, escape, to); ...  default: *p++ = c; } *)\nDefinition t_esc_tag_byte (c : N) : list N :=\n%s  [c].' % chain)
    out.append('''(* while ( *str ) { char c = *str; switch (c) {...} ++str; } *)
Fixpoint t_esc_tag (str : list N) : list N :=
  match str with
  | [] => []
  | c :: t => if c =? 0 then [] else t_esc_tag_byte c ++ t_esc_tag t
  end.''')
    return out


def esc_shell(src):
    body = function_body(src, r'const\s+char\s*\*\s*esc_shell_multi\s*\(\s*const\s+char\s*\*\*\s*str_map\s*,\s*unsigned\s+str_max\s*,\s*char\s*\*\s*buffer\s*\)\s*\{', 'esc_shell_multi')
    m = re.search(r'switch\s*\(c\)\s*\{\s*\n#ifdef\s+_WIN32\s*\n.*?\n#else\s*\n(.*?)\n#endif\s*\n(.*?)\n\t\t\}\n', body, re.S)
    if not m:
        raise Unsupported('esc_shell_multi: switch (c) { #ifdef _WIN32 ... #else ... #endif default ... } frame')
    p = T(tokenize(charlits(m.group(1))), 'esc_shell_multi')
    labels = []
    while p.at('case'):
        p.expect('case')
        v = p.num()
        p.expect(':')
        if v == 0 or v in labels:
            raise Unsupported('esc_shell_multi: case label %d' % v)
        labels.append(v)
    if not labels:
        raise Unsupported('esc_shell_multi: no case label')
    p.expect(CHECK + ' * p ++ =')
    esc = p.num()
    p.expect('; ' + CHECK + ' * p ++ = c ; break ;')
    if p.peek()[0] != 'eof':
        raise Unsupported('esc_shell_multi: trailing tokens in the quoted-characters branch')
    p = T(tokenize(charlits(m.group(2))), 'esc_shell_multi')
    p.expect('default : ' + CHECK + ' * p ++ = c ; break ;')
    if p.peek()[0] != 'eof':
        raise Unsupported('esc_shell_multi: trailing tokens in the default branch')
    return ['''(* switch (c) { case ...: (the quoted characters) *p++ = escape; *p++ = c; break;  default: *p++ = c; } *)
Definition t_shell_special_list : list N := [%s].
Definition t_shell_escape : N := %d.
Definition t_esc_shell_byte (c : N) : list N :=
  if existsb (N.eqb c) t_shell_special_list then [t_shell_escape; c] else [c].''' % ('; '.join(map(str, labels)), esc)]


def esc_max(hdr):
    m = re.search(r'^#define\s+ESC_MAX\s+\(\s*PATH_MAX\s*\*\s*(\d+)\s*\+\s*(\d+)\s*\)\s*$', hdr, re.M)
    if not m:
        raise Unsupported('ESC_MAX: #define ESC_MAX (PATH_MAX*K + J) not found')
    return ['''Definition t_ESC_MAX (path_max : N) : N := path_max * %s + %s.
(* every store, the final NUL included, is preceded by `if (p == end) goto bail;` with end = begin + ESC_MAX *)
Definition t_esc_tag_buf (path_max : N) (str : list N) : option (list N) :=
  let r := t_esc_tag str in
  if N.of_nat (length r) <? t_ESC_MAX path_max then Some r else None.''' % (m.group(1), m.group(2))]


def main(snap, outp):
    head = ["(* GENERATED from cmdline/support.c, cmdline/support.h by harness/gen/escc.py -- do not edit *)",
            "From Coq Require Import NArith List.", "Import ListNotations.", "Local Open Scope N_scope.", ""]
    try:
        src = strip_comments(open(os.path.join(snap, 'cmdline/support.c'), errors='replace').read())
        hdr = strip_comments(open(os.path.join(snap, 'cmdline/support.h'), errors='replace').read())
        parts = esc_tag(src) + esc_max(hdr) + esc_shell(src)
        s = '\n'.join(head) + '\n\n'.join(parts) + '\n'
    except Unsupported as e:
        print('UNSUPPORTED %s' % e)
        stub = '(* GENERATED by harness/gen/escc.py: the source could not be translated.\n   UNSUPPORTED %s *)\n' % str(e).replace('*)', '* )')
        try:
            if open(outp).read() != stub:
                open(outp, 'w').write(stub)
        except FileNotFoundError:
            open(outp, 'w').write(stub)
        sys.exit(1)
    try:
        if open(outp).read() == s:
            return
    except FileNotFoundError:
        pass
    open(outp, 'w').write(s)


if __name__ == '__main__':
    if len(sys.argv) != 3:
        print('UNSUPPORTED usage: escc.py <snapshot dir> <out.v>')
        sys.exit(2)
    main(sys.argv[1], sys.argv[2])
