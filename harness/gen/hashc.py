#!/usr/bin/env python3
"""Translator: cmdline/murmur3.c, cmdline/spooky2.c (+ util_rotl32/util_rotl64 of cmdline/util.c) -> Coq (Gen/HashProgs.v).

A tokenizer + a tiny recursive-descent parser for the C subset the two hash functions are written in.  What is read
from the source on every run: the constants (c1..c4, sc_const, the fmix multipliers, the per-lane additive constants),
every rotation amount, the statement sequences of fmix32, of the block loop body, of every `case` of the tail switch
(with its fall-through order), of the finaliser, the seed offsets, the digest offsets, the Mix / EndPartial / End
macro bodies, the block geometry (16 = 4 x uint32, sc_numVars x uint64).  The emitted Gallina has one `let` per C
statement, in source order.

statement :=  [uint32_t|uint64_t] x = e;  |  x OP= e;   OP in { ^ * + | }          x a declared word variable
e         :=  x | integer constant | (uintN_t)e | tail[K] | blocks[K] | data[K] | e * e | e + e | e - e | e << e | e >> e
              | e ^ e | e | e | util_rotl32(e, K) | util_rotl64(e, K) | fmix32(e) | util_read32(seed + K) | util_read64(seed + K)
with C precedence and parentheses.  Semantics of the emission (W = 32 for murmur3, 64 for spooky2; every variable of the
function is an unsigned W-bit word, so every operator is the unsigned W-bit one):
     a * b -> mulW a b      a + b -> addW a b      a << k -> wW (N.shiftl a k)      a >> k -> N.shiftr a k
     a ^ b -> N.lxor a b    a | b -> N.lor a b     (uintN_t)e -> e   (e is a byte or already a word)
     a size_t operand (`size`) used in a 32-bit compound assignment is truncated at the use: wW size -- truncation commutes
     with ^ (lemma w32_lxor in Props/Properties_C16_hashc.v)
Little-endian host: the `#if WORDS_BIGENDIAN ... #endif` / `#if ... #else ... #endif` regions are dropped (the #else
branch is kept), any other preprocessor line inside a translated function is UNSUPPORTED.
Control structure (block loop, `switch` with fall-through, tail buffer of spooky2) is recognised token by token and
emitted as fixed combinators; anything that does not have exactly the known shape makes the translator print
`UNSUPPORTED <what>: <why>` and exit 1 -- never a guess.

usage: hashc.py <snapshot dir (containing cmdline/)> <output .v>"""
import re, sys, os


class Unsupported(Exception):
    pass


def strip_comments(s):
    s = re.sub(r'/\*.*?\*/', lambda m: re.sub(r'[^\n]', ' ', m.group(0)), s, flags=re.S)
    return re.sub(r'//[^\n]*', '', s)


def drop_bigendian(s):
    """keep the little-endian side of #if WORDS_BIGENDIAN [#else] #endif"""
    out = []
    state = []       # stack of 'skip' / 'keep'
    for l in s.split('\n'):
        t = l.strip()
        if t.startswith('#if'):
            if re.fullmatch(r'#if\s+WORDS_BIGENDIAN', t):
                state.append('skip')
            else:
                raise Unsupported('preprocessor line %r' % t)
            out.append('')
        elif t.startswith('#else'):
            if not state:
                raise Unsupported('#else without #if')
            state[-1] = 'keep' if state[-1] == 'skip' else 'skip'
            out.append('')
        elif t.startswith('#endif'):
            if not state:
                raise Unsupported('#endif without #if')
            state.pop()
            out.append('')
        elif state and state[-1] == 'skip':
            out.append('')
        else:
            out.append(l)
    if state:
        raise Unsupported('unterminated #if')
    return '\n'.join(out)


TOK = re.compile(r'\s*(?:(0[xX][0-9a-fA-F]+|\d+)([uUlL]*)|([A-Za-z_]\w*)|(<<=|>>=|<<|>>|\^=|\+=|-=|\*=|&=|\|=|--|\+\+|>=|<=|==|!=|&&|\|\||[-+*/%^&|~!<>=(){}\[\];,?:.]))')


def tokenize(s):
    out = []
    pos = 0
    s = s.rstrip()
    while pos < len(s):
        m = TOK.match(s, pos)
        if not m:
            raise Unsupported('cannot tokenize at %r' % s[pos:pos + 30].strip())
        if m.group(1) is not None:
            out.append(('num', int(m.group(1), 0)))
        elif m.group(3) is not None:
            out.append(('id', m.group(3)))
        else:
            out.append(('op', m.group(4)))
        pos = m.end()
    return out


def function_body(src, header_re, what):
    m = re.search(header_re, src)
    if not m:
        raise Unsupported('%s: function header not found' % what)
    i = src.index('{', m.end() - 1)
    depth = 0
    for j in range(i, len(src)):
        if src[j] == '{':
            depth += 1
        elif src[j] == '}':
            depth -= 1
            if depth == 0:
                return src[i + 1:j]
    raise Unsupported('%s: unbalanced braces' % what)


# ------------------------------------------------------------------------------------------------------
# expressions

class P:
    """parser of statements over a token list; W = word width; vars = declared word variables"""

    def __init__(self, toks, W, vars_, arrays, what):
        self.t = toks
        self.i = 0
        self.W = W
        self.vars = set(vars_)
        self.arrays = arrays      # name -> Gallina accessor taking a nat literal
        self.what = what

    def peek(self, k=0):
        return self.t[self.i + k] if self.i + k < len(self.t) else ('eof', None)

    def eat(self, kind=None, val=None):
        t = self.peek()
        if (kind is not None and t[0] != kind) or (val is not None and t[1] != val):
            raise Unsupported('%s: expected %s %s, found %r' % (self.what, kind or '', val or '', t[1]))
        self.i += 1
        return t

    def at(self, kind, val=None):
        t = self.peek()
        return t[0] == kind and (val is None or t[1] == val)

    LEVELS = [['|'], ['^'], ['<<', '>>'], ['+', '-'], ['*']]

    def expr(self, lev=0):
        if lev == len(self.LEVELS):
            return self.unary()
        a = self.expr(lev + 1)
        while self.peek()[0] == 'op' and self.peek()[1] in self.LEVELS[lev]:
            op = self.eat()[1]
            b = self.expr(lev + 1)
            a = self.binop(op, a, b)
        return a

    def binop(self, op, a, b):
        W = self.W
        if op == '*':
            return '(mul%d %s %s)' % (W, a, b)
        if op == '+':
            return '(add%d %s %s)' % (W, a, b)
        if op == '-':
            return '(%s - %s)' % (a, b)        # only rotation complements `W - r`, r <= W
        if op == '<<':
            return '(w%d (N.shiftl %s %s))' % (W, a, b)
        if op == '>>':
            return '(N.shiftr %s %s)' % (a, b)
        if op == '^':
            return '(N.lxor %s %s)' % (a, b)
        if op == '|':
            return '(N.lor %s %s)' % (a, b)
        raise Unsupported('%s: operator %s' % (self.what, op))

    def unary(self):
        t = self.peek()
        if t == ('op', '('):
            # cast or parenthesis
            if self.peek(1)[0] == 'id' and self.peek(1)[1] in ('uint32_t', 'uint64_t') and self.peek(2) == ('op', ')'):
                self.i += 3
                return self.unary()
            self.eat()
            e = self.expr()
            self.eat('op', ')')
            return e
        if t[0] == 'num':
            self.eat()
            if t[1] >= 1 << 64:
                raise Unsupported('%s: constant too large' % self.what)
            return hex(t[1]) if t[1] > 255 else str(t[1])
        if t[0] == 'id':
            name = self.eat()[1]
            if self.at('op', '('):
                self.eat()
                args = [self.callarg()]
                while self.at('op', ','):
                    self.eat()
                    args.append(self.callarg())
                self.eat('op', ')')
                return self.call(name, args)
            if self.at('op', '['):
                self.eat()
                k = self.eat('num')[1]
                self.eat('op', ']')
                if name not in self.arrays:
                    raise Unsupported('%s: array %s' % (self.what, name))
                return '(%s %d%%nat)' % (self.arrays[name], k)
            if name == 'size':
                return '(w%d size)' % self.W
            if name not in self.vars:
                raise Unsupported('%s: unknown identifier %s' % (self.what, name))
            return 't_' + name if name in ('c1', 'c2', 'c3', 'c4') else name
        raise Unsupported('%s: unexpected token %r' % (self.what, t[1]))

    def callarg(self):
        # `seed + K` as argument of util_readN, otherwise an expression
        if self.at('id', 'seed'):
            self.eat()
            self.eat('op', '+')
            k = self.eat('num')[1]
            return ('seed', k)
        return self.expr()

    def call(self, name, args):
        if name in ('util_rotl32', 'util_rotl64') and len(args) == 2 and name.endswith(str(self.W)):
            return '(t_rotl%d %s %s)' % (self.W, args[0], args[1])
        if name == 'fmix32' and len(args) == 1 and self.W == 32:
            return '(t_fmix32 %s)' % args[0]
        if name in ('util_read32', 'util_read64') and len(args) == 1 and isinstance(args[0], tuple) and name.endswith(str(self.W)):
            return '(le (firstn %d (skipn %d seed)))' % (self.W // 8, args[0][1])
        raise Unsupported('%s: call of %s' % (self.what, name))

    def statement(self):
        """one assignment; returns (var, gallina expr)"""
        if self.at('id') and self.peek()[1] in ('uint32_t', 'uint64_t'):
            self.eat()
            v = self.eat('id')[1]
            self.vars.add(v)
            self.eat('op', '=')
            e = self.expr()
            self.eat('op', ';')
            return v, e
        v = self.eat('id')[1]
        if v not in self.vars:
            raise Unsupported('%s: assignment to undeclared %s' % (self.what, v))
        op = self.eat('op')[1]
        e = self.expr()
        self.eat('op', ';')
        if op == '=':
            return v, e
        if op in ('^=', '*=', '+=', '|='):
            return v, self.binop(op[0], v, e)
        raise Unsupported('%s: assignment operator %s' % (self.what, op))

    def statements_until(self, stop):
        out = []
        while not stop(self):
            out.append(self.statement())
        return out


def lets(stmts, indent='  '):
    return ''.join('%slet %s := %s in\n' % (indent, v, e) for v, e in stmts)


# ------------------------------------------------------------------------------------------------------
# util.c rotations

def rotl(util, W):
    body = function_body(util, r'static\s+inline\s+uint%d_t\s+util_rotl%d\s*\(\s*uint%d_t\s+x\s*,\s*int8_t\s+r\s*\)\s*\{' % (W, W, W), 'util_rotl%d' % W)
    p = P(tokenize(body), W, ['x', 'r'], {}, 'util_rotl%d' % W)
    p.eat('id', 'return')
    e = p.expr()
    p.eat('op', ';')
    if p.peek()[0] != 'eof':
        raise Unsupported('util_rotl%d: trailing tokens' % W)
    return 'Definition t_rotl%d (x r : N) : N := %s.\n' % (W, e)


# ------------------------------------------------------------------------------------------------------
# murmur3.c

def murmur3(src):
    out = []
    # constants
    cs = re.findall(r'^uint32_t\s+(c[1-4])\s*=\s*(0x[0-9a-fA-F]+)\s*;', src, re.M)
    if [c for c, _ in cs] != ['c1', 'c2', 'c3', 'c4']:
        raise Unsupported('murmur3.c: constants c1..c4')
    for c, v in cs:
        out.append('Definition t_%s : N := %s.' % (c, v.lower()))
    # fmix32
    body = function_body(src, r'static\s+inline\s+uint32_t\s+fmix32\s*\(\s*uint32_t\s+h\s*\)\s*\{', 'fmix32')
    p = P(tokenize(body), 32, ['h'], {}, 'fmix32')
    st = p.statements_until(lambda q: q.at('id', 'return'))
    p.eat('id', 'return'); p.eat('id', 'h'); p.eat('op', ';')
    if p.peek()[0] != 'eof':
        raise Unsupported('fmix32: trailing tokens')
    out.append('Definition t_fmix32 (h : N) : N :=\n%s  h.' % lets(st))

    body = function_body(src, r'void\s+MurmurHash3_x86_128\s*\(\s*const\s+void\s*\*\s*data\s*,\s*size_t\s+size\s*,\s*const\s+uint8_t\s*\*\s*seed\s*,\s*void\s*\*\s*digest\s*\)\s*\{', 'MurmurHash3_x86_128')
    toks = tokenize(body)
    cvars = ['c1', 'c2', 'c3', 'c4']
    p = P(toks, 32, cvars, {}, 'MurmurHash3_x86_128')

    def skip_decl(expect):
        got = []
        while p.peek() != ('op', ';'):
            got.append(str(p.eat()[1]))
        p.eat('op', ';')
        if ' '.join(got) != expect:
            raise Unsupported('MurmurHash3_x86_128: declaration %r, expected %r' % (' '.join(got), expect))
    skip_decl('size_t nblocks')
    skip_decl('const uint32_t * blocks')
    skip_decl('const uint32_t * end')
    skip_decl('size_t size_remainder')
    skip_decl('uint32_t h1 , h2 , h3 , h4')
    p.vars |= {'h1', 'h2', 'h3', 'h4'}
    init = [p.statement() for _ in range(4)]
    if [v for v, _ in init] != ['h1', 'h2', 'h3', 'h4']:
        raise Unsupported('MurmurHash3_x86_128: seed loads')
    out.append('Definition t_minit (seed : list N) : N * N * N * N :=\n%s  (h1, h2, h3, h4).' % lets(init))

    def expect_tokens(text):
        for t in tokenize(text):
            g = p.eat()
            if g != t:
                raise Unsupported('MurmurHash3_x86_128: expected `%s`, found %r' % (text, g[1]))
    expect_tokens('nblocks = size / 16 ; blocks = data ; end = blocks + nblocks * 4 ;')
    expect_tokens('while ( blocks < end ) {')
    # block loads
    p.arrays = {'blocks': 'kw'}
    loads = [p.statement() for _ in range(4)]
    if loads != [('k%d' % (i + 1), '(kw %d%%nat)' % i) for i in range(4)]:
        raise Unsupported('MurmurHash3_x86_128: block loads %r' % (loads,))
    p.arrays = {}
    blk = p.statements_until(lambda q: q.at('id', 'blocks'))
    expect_tokens('blocks += 4 ; }')
    out.append('Definition t_mblock (s : N * N * N * N) (k1 k2 k3 k4 : N) : N * N * N * N :=\n  let \'(h1, h2, h3, h4) := s in\n%s  (h1, h2, h3, h4).' % lets(blk))
    # tail
    expect_tokens('size_remainder = size & 15 ; if ( size_remainder != 0 ) {')
    expect_tokens('const uint8_t * tail = ( const uint8_t * ) blocks ;')
    p.arrays = {'tail': 'tb'}
    p.vars -= {'k1', 'k2', 'k3', 'k4'}
    zero = [p.statement() for _ in range(4)]
    if zero != [('k%d' % (i + 1), '0') for i in range(4)]:
        raise Unsupported('MurmurHash3_x86_128: tail k initialisation')
    expect_tokens('switch ( size_remainder ) {')
    tail = []
    label = None
    prev = 16
    while not p.at('op', '}'):
        if p.at('id', 'case'):
            p.eat()
            label = p.eat('num')[1]
            p.eat('op', ':')
            if label != prev - 1:
                raise Unsupported('MurmurHash3_x86_128: case labels must descend by one (case %d after %d)' % (label, prev))
            prev = label
            continue
        if p.at('id', 'break') or p.at('id', 'default'):
            raise Unsupported('MurmurHash3_x86_128: break/default in the tail switch')
        if label is None:
            raise Unsupported('MurmurHash3_x86_128: statement before the first case')
        v, e = p.statement()
        tail.append((v, '(if %d <=? rem then %s else %s)' % (label, e, v)))
    if prev != 1:
        raise Unsupported('MurmurHash3_x86_128: the tail switch must end with case 1')
    expect_tokens('} }')
    p.arrays = {}
    out.append('Definition t_mtail (s : N * N * N * N) (rem : N) (tb : nat -> N) : N * N * N * N :=\n'
               '  if rem =? 0 then s else\n  let \'(h1, h2, h3, h4) := s in\n%s%s  (h1, h2, h3, h4).' % (lets(zero), lets(tail)))
    # finalisation
    fin = p.statements_until(lambda q: q.at('id', 'util_write32'))
    outs = []
    for k in range(4):
        expect_tokens('util_write32 ( digest + %d , h%d ) ;' % (4 * k, k + 1))
        outs.append('bytes_le 4 h%d' % (k + 1))
    if p.peek()[0] != 'eof':
        raise Unsupported('MurmurHash3_x86_128: trailing tokens')
    out.append('Definition t_mfinal (s : N * N * N * N) (size : N) : list N :=\n  let \'(h1, h2, h3, h4) := s in\n%s  %s.' % (lets(fin), ' ++ '.join(outs)))
    out.append('''(* while (blocks < end) { k1..k4 = blocks[0..3]; ...; blocks += 4; }   with nblocks = size / 16, 4-byte little-endian words *)
Fixpoint t_mbody (nblocks : nat) (s : N * N * N * N) (l : list N) : (N * N * N * N) * list N :=
  match nblocks with
  | O => (s, l)
  | S n =>
    match words 4 4 l with
    | [k1; k2; k3; k4] => t_mbody n (t_mblock s k1 k2 k3 k4) (skipn 16 l)
    | _ => (s, l)
    end
  end.

Definition t_murmur3_x86_128 (seed data : list N) : list N :=
  let '(s, t) := t_mbody (Nat.div (length data) 16) (t_minit seed) data in
  t_mfinal (t_mtail s (N.of_nat (length t)) (fun i => nth i t 0)) (N.of_nat (length data)).''')
    return '\n\n'.join(out) + '\n'


# ------------------------------------------------------------------------------------------------------
# spooky2.c

def macro(src, name):
    m = re.search(r'^#define\s+' + name + r'\(([^)]*)\)\s*\\\n((?:.*\\\n)*.*)\n', src, re.M)
    if not m:
        raise Unsupported('spooky2.c: macro %s not found' % name)
    return [a.strip() for a in m.group(1).split(',')], m.group(2).replace('\\\n', ' ')


def spooky2(src):
    out = []
    m = re.search(r'^#define\s+sc_const\s+(0x[0-9a-fA-F]+)LL\s*$', src, re.M)
    if not m:
        raise Unsupported('spooky2.c: sc_const')
    out.append('Definition t_sc_const : N := %s.' % m.group(1).lower())
    if not re.search(r'^#define\s+sc_numVars\s+12\s*$', src, re.M) or not re.search(r'^#define\s+sc_blockSize\s+\(sc_numVars\s*\*\s*8\)\s*$', src, re.M):
        raise Unsupported('spooky2.c: sc_numVars / sc_blockSize')
    S = ['s%d' % i for i in range(12)]
    H = ['h%d' % i for i in range(12)]
    args, body = macro(src, 'Mix')
    if args != ['data'] + S:
        raise Unsupported('spooky2.c: Mix parameters')
    p = P(tokenize(body), 64, S, {'data': 'd'}, 'Mix')
    st = p.statements_until(lambda q: q.peek()[0] == 'eof')
    tup = lambda v: '(' + ', '.join(v) + ')'
    ty = ' * '.join(['N'] * 12)
    out.append('Definition t_smix (d : nat -> N) (s : %s) : %s :=\n  let \'%s := s in\n%s  %s.' % (ty, ty, tup(S), lets(st), tup(S)))
    args, body = macro(src, 'EndPartial')
    if args != H:
        raise Unsupported('spooky2.c: EndPartial parameters')
    p = P(tokenize(body), 64, H, {}, 'EndPartial')
    st = p.statements_until(lambda q: q.peek()[0] == 'eof')
    out.append('Definition t_send_partial (s : %s) : %s :=\n  let \'%s := s in\n%s  %s.' % (ty, ty, tup(H), lets(st), tup(H)))
    args, body = macro(src, 'End')
    if args != ['data'] + H:
        raise Unsupported('spooky2.c: End parameters')
    call = 'EndPartial(' + ', '.join(H) + ');'
    parts = [x.strip() for x in body.split(call)]
    if len(parts) != 4 or parts[1] or parts[2] or parts[3]:
        raise Unsupported('spooky2.c: End must be the additions followed by three EndPartial')
    p = P(tokenize(parts[0]), 64, H, {'data': 'd'}, 'End')
    st = p.statements_until(lambda q: q.peek()[0] == 'eof')
    out.append('Definition t_send (d : nat -> N) (s : %s) : %s :=\n  let \'%s := s in\n%s  t_send_partial (t_send_partial (t_send_partial %s)).' % (ty, ty, tup(H), lets(st), tup(H)))
    # the function: seed loads and the chained initialisation
    body = function_body(src, r'void\s+SpookyHash128\s*\(\s*const\s+void\s*\*\s*data\s*,\s*size_t\s+size\s*,\s*const\s+uint8_t\s*\*\s*seed\s*,\s*uint8_t\s*\*\s*digest\s*\)\s*\{', 'SpookyHash128')
    toks = tokenize(body)
    p = P(toks, 64, H, {}, 'SpookyHash128')

    def expect_tokens(text):
        for t in tokenize(text):
            g = p.eat()
            if g != t:
                raise Unsupported('SpookyHash128: expected `%s`, found %r' % (text, g[1]))
    expect_tokens('uint64_t ' + ' , '.join(H) + ' ;')
    expect_tokens('uint64_t buf [ sc_numVars ] ; size_t nblocks ; const uint64_t * blocks ; const uint64_t * end ; size_t size_remainder ;')
    l1 = p.statement()
    l2 = p.statement()
    if [l1[0], l2[0]] != ['h9', 'h10']:
        raise Unsupported('SpookyHash128: seed loads')
    init = [l1, l2]
    # chained assignments a = b = c = e;
    for _ in range(3):
        chain = []
        while p.peek(1) == ('op', '='):
            chain.append(p.eat('id')[1])
            p.eat('op', '=')
        if p.at('id', 'sc_const'):
            p.eat()
            e = 't_sc_const'
        else:
            e = p.eat('id')[1]
            if e not in H:
                raise Unsupported('SpookyHash128: initialisation source %s' % e)
        p.eat('op', ';')
        for v in reversed(chain):
            if v not in H:
                raise Unsupported('SpookyHash128: initialisation target %s' % v)
            init.append((v, e))
    out.append('Definition t_sinit (seed : list N) : %s :=\n%s  %s.' % (ty, lets(init), tup(H)))
    expect_tokens('nblocks = size / sc_blockSize ; blocks = data ; end = blocks + nblocks * sc_numVars ;')
    expect_tokens('while ( blocks < end ) { Mix ( blocks , ' + ' , '.join(H) + ' ) ; blocks += sc_numVars ; }')
    expect_tokens('size_remainder = ( size - ( ( const uint8_t * ) end - ( const uint8_t * ) data ) ) ;')
    expect_tokens('memcpy ( buf , end , size_remainder ) ;')
    expect_tokens('memset ( ( ( uint8_t * ) buf ) + size_remainder , 0 , sc_blockSize - size_remainder ) ;')
    expect_tokens('( ( uint8_t * ) buf ) [ sc_blockSize - 1 ] = size_remainder ;')
    expect_tokens('End ( buf , ' + ' , '.join(H) + ' ) ;')
    expect_tokens('util_write64 ( digest + 0 , h0 ) ; util_write64 ( digest + 8 , h1 ) ;')
    if p.peek()[0] != 'eof':
        raise Unsupported('SpookyHash128: trailing tokens')
    out.append('''(* while (blocks < end) { Mix(blocks, ...); blocks += sc_numVars; }   nblocks = size / 96, 8-byte little-endian words *)
Fixpoint t_sbody (nblocks : nat) (s : %s) (l : list N) : (%s) * list N :=
  match nblocks with
  | O => (s, l)
  | S n => let w := words 12 8 l in t_sbody n (t_smix (fun i => nth i w 0) s) (skipn 96 l)
  end.

(* memcpy(buf, end, rem); memset(buf + rem, 0, 96 - rem); ((uint8_t* )buf)[95] = rem; *)
Definition t_stail_block (t : list N) : list N :=
  let rem := length t in
  firstn 95 (t ++ repeat 0 (96 - rem)) ++ [N.of_nat rem mod 256].

Definition t_spooky2_128 (seed data : list N) : list N :=
  let '(s, t) := t_sbody (Nat.div (length data) 96) (t_sinit seed) data in
  let w := words 12 8 (t_stail_block t) in
  let '(h0, h1, _, _, _, _, _, _, _, _, _, _) := t_send (fun i => nth i w 0) s in
  bytes_le 8 h0 ++ bytes_le 8 h1.''' % (ty, ty))
    return '\n\n'.join(out) + '\n'


def main(snap, outp):
    parts = ["(* GENERATED from cmdline/util.c, cmdline/murmur3.c, cmdline/spooky2.c by harness/gen/hashc.py -- do not edit *)",
             "From Coq Require Import NArith List.", "From Snap.Hash Require Import Words.", "Import ListNotations.",
             "Local Open Scope N_scope.", ""]
    try:
        util = drop_bigendian_util(open(os.path.join(snap, 'cmdline/util.c'), errors='replace').read())
        parts.append(rotl(util, 32))
        parts.append(rotl(util, 64))
        m3 = drop_bigendian(strip_comments(open(os.path.join(snap, 'cmdline/murmur3.c'), errors='replace').read()))
        parts.append(murmur3(m3))
        sp = drop_bigendian(strip_comments(open(os.path.join(snap, 'cmdline/spooky2.c'), errors='replace').read()))
        parts.append(spooky2(sp))
    except Unsupported as e:
        print('UNSUPPORTED %s' % e)
        # never leave the definitions of an earlier source in place: the dependent proofs must fail, not pass on a stale file
        stub = '(* GENERATED by harness/gen/hashc.py: the source could not be translated.\n   UNSUPPORTED %s *)\n' % str(e).replace('*)', '* )')
        try:
            if open(outp).read() != stub:
                open(outp, 'w').write(stub)
        except FileNotFoundError:
            open(outp, 'w').write(stub)
        sys.exit(1)
    s = '\n'.join(parts)
    try:
        if open(outp).read() == s:
            return
    except FileNotFoundError:
        pass
    open(outp, 'w').write(s)


def drop_bigendian_util(s):
    # util.c has many unrelated preprocessor regions: only the two rotation functions are read, by their headers
    return strip_comments(s)


if __name__ == '__main__':
    if len(sys.argv) != 3:
        print('UNSUPPORTED usage: hashc.py <snapshot dir> <out.v>')
        sys.exit(2)
    main(sys.argv[1], sys.argv[2])
