#!/usr/bin/env python3
"""Translator: the portable parity generators of raid/int.c, raid/intz.c (+ the word helpers of raid/gf.h)
-> Coq (Gen/IntProgs.v), values of Snap.IntC.IntDefs.prog.

A tokenizer + a tiny recursive-descent parser for the C subset these ten functions are written in.  The only
accepted shape of `void raid_genX_intN(int nd, size_t size, void **vv)` is

    uint8_t **v = (uint8_t **)vv;   uint8_t *p; ...   int d, l;   size_t i;   uintN_t a, b, ...;   (one N per function)
    l = nd - 1;   p = v[nd];   q = v[nd + 1]; ...                        (parity pointer -> parity index)
    for (i = 0; i < size; i += STEP) {
        assignments                                                       (chunk_init)
        for (d = l | l - K; d >= K' | d > K'; --d) { assignments }        (loop_from, loop_lo, loop_body)
        assignments                                                       (chunk_fini)
    }

assignment :=  x = e;  |  x ^= e;  |  a = b = ... = e;  |  v_N(P[i (+ K)]) = e;       (P a parity pointer)
e          :=  x | integer constant (must fit the word) | v_N(v[d|l|0][i (+ K)]) | e ^ e | e & e | e << K | e >> K | e - e
               | helper(e)                  helper in {x2_32, x2_64, d2_32, d2_64}: its BODY is translated from raid/gf.h
               | gfmul[e][gfgen[J][d|l|0]]  (8-bit functions)
with C precedence ( - above << >> above & above ^ ) and parentheses.  The access macros v_8/v_32/v_64 of gf.h and the
table macros gfmul/gfgen of internal.h must have their known definitions.  Anything else makes the function `None`
in the output, with the reason recorded in `int_untranslated` and printed as `UNSUPPORTED <function>: <why>` --
never a guess.

usage: intc.py <snapshot dir (containing raid/)> <output .v>"""
import re, sys, os


class Unsupported(Exception):
    pass


FUNCS = [('raid_gen1_int32', 'int.c', 'G1'), ('raid_gen1_int64', 'int.c', 'G1'),
         ('raid_gen2_int32', 'int.c', 'G2'), ('raid_gen2_int64', 'int.c', 'G2'),
         ('raid_gen3_int8', 'int.c', 'GK 3'), ('raid_gen4_int8', 'int.c', 'GK 4'),
         ('raid_gen5_int8', 'int.c', 'GK 5'), ('raid_gen6_int8', 'int.c', 'GK 6'),
         ('raid_genz_int32', 'intz.c', 'GZ'), ('raid_genz_int64', 'intz.c', 'GZ')]
HELPERS = ('x2_32', 'x2_64', 'd2_32', 'd2_64')
WTYPES = {'uint8_t': 1, 'uint32_t': 4, 'uint64_t': 8}
ACCESS = {'v_8': 1, 'v_32': 4, 'v_64': 8}


def strip_comments(s):
    s = re.sub(r'/\*.*?\*/', lambda m: re.sub(r'[^\n]', ' ', m.group(0)), s, flags=re.S)
    return re.sub(r'//[^\n]*', '', s)


TOK = re.compile(r'\s*(?:(0[xX][0-9a-fA-F]+|\d+)([uUlL]*)|([A-Za-z_]\w*)|(<<=|>>=|<<|>>|\^=|\+=|-=|&=|\|=|--|\+\+|>=|<=|==|!=|&&|\|\||[-+*/%^&|~!<>=(){}\[\];,?:.]))')


def tokenize(s):
    out = []
    pos = 0
    s = s.rstrip()
    while pos < len(s):
        m = TOK.match(s, pos)
        if not m:
            raise Unsupported('cannot tokenize at %r' % s[pos:pos + 30].strip())
        if m.group(1) is not None:
            out.append(('num', int(m.group(1), 0), m.group(2)))
        elif m.group(3) is not None:
            out.append(('id', m.group(3)))
        else:
            out.append(('op', m.group(4)))
        pos = m.end()
    return out


def match_brace(s, pos):
    depth = 0
    i = pos
    while i < len(s):
        if s[i] == '{':
            depth += 1
        elif s[i] == '}':
            depth -= 1
            if depth == 0:
                return i + 1
        i += 1
    raise Unsupported('unbalanced braces')


class P:
    """token stream with the expression parser; ctx decides what identifiers mean"""

    def __init__(self, toks, ctx):
        self.t = toks
        self.i = 0
        self.ctx = ctx

    def peek(self, k=0):
        return self.t[self.i + k] if self.i + k < len(self.t) else ('eof',)

    def next(self):
        x = self.peek()
        self.i += 1
        return x

    def isop(self, o, k=0):
        return self.peek(k) == ('op', o)

    def isid(self, name=None, k=0):
        x = self.peek(k)
        return x[0] == 'id' and (name is None or x[1] == name)

    def expect(self, o):
        if not self.isop(o):
            raise Unsupported('expected %r, found %r' % (o, self.show()))
        self.i += 1

    def expect_id(self, name=None):
        if not self.isid(name):
            raise Unsupported('expected %s, found %r' % (name or 'identifier', self.show()))
        return self.next()[1]

    def show(self):
        return ' '.join(str(x[1]) for x in self.t[self.i:self.i + 6])

    def small_int(self):
        x = self.next()
        if x[0] != 'num':
            raise Unsupported('expected an integer literal, found %r' % (x[1:] or x,))
        return x[1]

    # ---- expressions: | not supported;  ^  <  &  <  << >>  <  -  < primary
    def expr(self):
        a = self.e_and()
        while self.isop('^'):
            self.next()
            a = ('EXor', a, self.e_and())
        if self.isop('|') or self.isop('+') or self.isop('*') or self.isop('/') or self.isop('%') or self.isop('?') \
                or self.isop('==') or self.isop('<') or self.isop('>') or self.isop('&&') or self.isop('||'):
            raise Unsupported('operator %r is outside the recognised expression language' % self.peek()[1])
        return a

    def e_and(self):
        a = self.e_shift()
        while self.isop('&'):
            self.next()
            a = ('EAnd', a, self.e_shift())
        return a

    def e_shift(self):
        a = self.e_add()
        while self.isop('<<') or self.isop('>>'):
            o = self.next()[1]
            if self.peek()[0] != 'num':
                raise Unsupported('shift by a non-literal amount')
            k = self.small_int()
            if k >= 8 * self.ctx['w']:
                raise Unsupported('shift by %d in a %d-bit word' % (k, 8 * self.ctx['w']))
            if self.ctx['w'] == 1:
                raise Unsupported('shift in an 8-bit function (C integer promotion is outside the model)')
            a = ('EShl' if o == '<<' else 'EShr', a, k)
        return a

    def e_add(self):
        a = self.primary()
        while self.isop('-'):
            self.next()
            if self.ctx['w'] == 1:
                raise Unsupported('subtraction in an 8-bit function (C integer promotion is outside the model)')
            a = ('ESub', a, self.primary())
        if self.isop('+'):
            raise Unsupported("operator '+' is outside the recognised expression language")
        return a

    def index_i(self):
        """[ i ] or [ i + K ]  -> K"""
        self.expect('[')
        self.expect_id(self.ctx.get('ivar', 'i'))
        k = 0
        if self.isop('+'):
            self.next()
            k = self.small_int()
        self.expect(']')
        return k

    def dref(self):
        """d | l | 0 -> Cur | Last | First"""
        x = self.next()
        if x == ('id', 'd'):
            if not self.ctx.get('in_loop'):
                raise Unsupported('disk index d used outside the disk loop')
            return 'Cur'
        if x == ('id', 'l'):
            return 'Last'
        if x[0] == 'num' and x[1] == 0:
            return 'First'
        raise Unsupported('disk index %r (only d, l, 0 are recognised)' % (x[1],))

    def memref(self):
        """after  v_N (  : either a data load  v[D][i+K]  or a parity cell  P[i+K];  returns (kind, ...)"""
        name = self.expect_id()
        if name == 'v':
            self.expect('[')
            d = self.dref()
            self.expect(']')
            k = self.index_i()
            return ('data', d, k)
        if name in self.ctx.get('ptrs', {}):
            k = self.index_i()
            return ('par', self.ctx['ptrs'][name], k)
        raise Unsupported('memory reference through %r' % name)

    def primary(self):
        x = self.peek()
        if x[0] == 'num':
            self.next()
            if x[1] >= 1 << (8 * self.ctx['w']):
                raise Unsupported('constant %#x does not fit the %d-bit word type' % (x[1], 8 * self.ctx['w']))
            return ('EConst', x[1])
        if x == ('op', '('):
            self.next()
            a = self.expr()
            self.expect(')')
            return a
        if x[0] == 'id':
            name = self.next()[1]
            if name in ACCESS:
                if self.ctx.get('helper'):
                    raise Unsupported('memory access inside a helper')
                if ACCESS[name] != self.ctx['w']:
                    raise Unsupported('%s used in a function whose locals are %d-bit' % (name, 8 * self.ctx['w']))
                self.expect('(')
                r = self.memref()
                self.expect(')')
                if r[0] != 'data':
                    raise Unsupported('a parity buffer is read')
                return ('ELoad', r[1], r[2])
            if name in HELPERS:
                if self.ctx.get('helper'):
                    raise Unsupported('call inside a helper')
                self.expect('(')
                a = self.expr()
                self.expect(')')
                return ('ECall', self.ctx['use_helper'](name), a)
            if name == 'gfmul':
                if self.ctx.get('helper') or self.ctx['w'] != 1:
                    raise Unsupported('gfmul[][] outside an 8-bit generator')
                self.expect('[')
                a = self.expr()
                self.expect(']')
                self.expect('[')
                self.expect_id('gfgen')
                self.expect('[')
                j = self.small_int()
                self.expect(']')
                self.expect('[')
                d = self.dref()
                self.expect(']')
                self.expect(']')
                return ('EMulGen', a, j, d)
            if name in self.ctx['vars']:
                if self.isop('(') or self.isop('['):
                    raise Unsupported('%s used as a function or an array' % name)
                return ('EVar', self.ctx['vars'][name])
            raise Unsupported('identifier %r' % name)
        raise Unsupported('unexpected %r in an expression' % (x[1:] or x,))

    # ---- assignment statement (up to and including ';') -> list of stmts
    def assignment(self):
        lhss = []
        while True:
            # an lvalue followed by = or ^=
            save = self.i
            if self.isid() and self.peek()[1] in ACCESS and not self.ctx.get('helper'):
                name = self.next()[1]
                if ACCESS[name] != self.ctx['w']:
                    raise Unsupported('%s used in a function whose locals are %d-bit' % (name, 8 * self.ctx['w']))
                self.expect('(')
                r = self.memref()
                self.expect(')')
                if self.isop('='):
                    if r[0] != 'par':
                        raise Unsupported('a data block is written')
                    self.next()
                    lhss.append(('store', r[1], r[2]))
                    continue
                self.i = save
                break
            if self.isid() and self.peek()[1] in self.ctx['vars'] and (self.isop('=', 1) or self.isop('^=', 1)):
                name = self.next()[1]
                o = self.next()[1]
                if o == '^=':
                    if lhss:
                        raise Unsupported('^= inside a chained assignment')
                    e = self.expr()
                    self.expect(';')
                    return [('SAssign', self.ctx['vars'][name], ('EXor', ('EVar', self.ctx['vars'][name]), e))]
                lhss.append(('var', self.ctx['vars'][name]))
                continue
            break
        if not lhss:
            raise Unsupported('statement %r is not an assignment of the recognised form' % self.show())
        e = self.expr()
        self.expect(';')
        out = []
        # a = b = e  is  b = e; a = b   (all locals have the same type; a store in a chain would read memory back)
        for k, lh in enumerate(reversed(lhss)):
            if lh[0] == 'store':
                if len(lhss) > 1:
                    raise Unsupported('a memory cell inside a chained assignment')
                out.append(('SStore', lh[1], lh[2], e))
            else:
                out.append(('SAssign', lh[1], e))
                e = ('EVar', lh[1])
        return out


# ------------------------------------------------------------------------------------------------
def parse_helper(gf, name):
    m = re.search(r'static\s+__always_inline\s+(\w+)\s+%s\s*\(\s*(\w+)\s+(\w+)\s*\)\s*\{' % name, gf)
    if not m:
        raise Unsupported('helper %s: no definition `static __always_inline T %s(T v)` in raid/gf.h' % (name, name))
    rt, pt, pv = m.group(1), m.group(2), m.group(3)
    if rt != pt or rt not in WTYPES or WTYPES[rt] == 1:
        raise Unsupported('helper %s: types %s/%s' % (name, rt, pt))
    w = WTYPES[rt]
    if 8 * w != int(name.split('_')[1]):
        raise Unsupported('helper %s works on %s' % (name, rt))
    body = gf[m.end() - 1:match_brace(gf, m.end() - 1)][1:-1]
    toks = tokenize(body)
    ctx = {'w': w, 'vars': {pv: 0}, 'helper': True}
    p = P(toks, ctx)
    stmts = []
    ret = None
    while p.peek()[0] != 'eof':
        if ret is not None:
            raise Unsupported('helper %s: code after return' % name)
        if p.isid('return'):
            p.next()
            r = p.expect_id()
            if r not in ctx['vars']:
                raise Unsupported('helper %s returns %r' % (name, r))
            p.expect(';')
            ret = ctx['vars'][r]
            continue
        if p.isid() and p.peek()[1] in WTYPES:
            t = p.next()[1]
            if WTYPES[t] != w:
                raise Unsupported('helper %s: local of type %s' % (name, t))
            v = p.expect_id()
            if v in ctx['vars']:
                raise Unsupported('helper %s: %s redeclared' % (name, v))
            if not p.isop('='):
                raise Unsupported('helper %s: local %s declared without initialiser' % (name, v))
            ctx['vars'][v] = len(ctx['vars'])
            # falls through to the assignment  v = e;
            p.i -= 1
        for s in p.assignment():
            stmts.append((s[1], s[2]))
    if ret is None:
        raise Unsupported('helper %s: no return' % name)
    return {'w': w, 'body': stmts, 'ret': ret}


def check_macros(gf, internal):
    """the access / table macros must be the known ones"""
    bad = []
    for nm, ty in (('v_8', 'uint8_t'), ('v_32', 'uint32_t'), ('v_64', 'uint64_t')):
        if not re.search(r'#\s*define\s+%s\(p\)\s+\(\*\(%s\s*\*\)&\(p\)\)\s*$' % (nm, ty), gf, re.M):
            bad.append(nm)
    for nm, to in (('gfmul', 'raid_gfmul'), ('gfgen', 'raid_gfgen')):
        if not re.search(r'#\s*define\s+%s\s+%s\s*$' % (nm, to), internal, re.M):
            bad.append(nm)
    if not re.search(r'extern\s+const\s+uint8_t\s+raid_gfmul\[256\]\[256\]', internal):
        bad.append('raid_gfmul')
    if not re.search(r'extern\s+const\s+uint8_t\s+\(\*raid_gfgen\)\[256\]', internal):
        bad.append('raid_gfgen')
    return bad


def parse_function(src, fname, gf, badmacros):
    m = re.search(r'\bvoid\s+%s\s*\(\s*int\s+nd\s*,\s*size_t\s+size\s*,\s*void\s*\*\*\s*vv\s*\)\s*\{' % fname, src)
    if not m:
        raise Unsupported('no definition `void %s(int nd, size_t size, void **vv)`' % fname)
    body = src[m.end() - 1:match_brace(src, m.end() - 1)][1:-1]
    toks = tokenize(body)
    helpers = []
    hnames = []

    def use_helper(name):
        if name not in hnames:
            helpers.append(parse_helper(gf, name))
            hnames.append(name)
        h = helpers[hnames.index(name)]
        if h['w'] != ctx['w']:
            raise Unsupported('%s (a %d-bit helper) called in a function whose locals are %d-bit' % (name, 8 * h['w'], 8 * ctx['w']))
        return hnames.index(name)

    ctx = {'w': None, 'vars': {}, 'ptrs': {}, 'use_helper': use_helper}
    p = P(toks, ctx)
    # ---- declarations
    p.expect_id('uint8_t'); p.expect('*'); p.expect('*'); p.expect_id('v'); p.expect('=')
    p.expect('('); p.expect_id('uint8_t'); p.expect('*'); p.expect('*'); p.expect(')'); p.expect_id('vv'); p.expect(';')
    ptrnames = []
    seen_d = seen_l = seen_i = False
    while p.isid() and p.peek()[1] in ('uint8_t', 'uint32_t', 'uint64_t', 'int', 'size_t'):
        t = p.next()[1]
        if t == 'uint8_t' and p.isop('*'):
            p.next()
            ptrnames.append(p.expect_id())
            p.expect(';')
            continue
        names = [p.expect_id()]
        while p.isop(','):
            p.next()
            names.append(p.expect_id())
        p.expect(';')
        if t == 'int':
            for n in names:
                if n == 'd':
                    seen_d = True
                elif n == 'l':
                    seen_l = True
                else:
                    raise Unsupported('int local %s' % n)
        elif t == 'size_t':
            if names != ['i']:
                raise Unsupported('size_t locals %s' % names)
            seen_i = True
        else:
            if ctx['w'] is not None and ctx['w'] != WTYPES[t]:
                raise Unsupported('locals of two word types')
            ctx['w'] = WTYPES[t]
            for n in names:
                if n in ctx['vars'] or n in ('d', 'l', 'i', 'v', 'nd', 'size', 'vv'):
                    raise Unsupported('local %s redeclared' % n)
                ctx['vars'][n] = len(ctx['vars'])
    if not (seen_d and seen_l and seen_i) or ctx['w'] is None:
        raise Unsupported('declarations: need `int d, l; size_t i;` and word locals')
    if len(ctx['vars']) > 32:
        raise Unsupported('more than 32 locals')
    if ACCESS_BY_W[ctx['w']] in badmacros:
        raise Unsupported('macro %s of raid/gf.h does not have its known definition' % ACCESS_BY_W[ctx['w']])
    # ---- l = nd - 1; pointers
    p.expect_id('l'); p.expect('='); p.expect_id('nd'); p.expect('-')
    if p.small_int() != 1:
        raise Unsupported('l is not nd - 1')
    p.expect(';')
    while p.isid() and p.peek()[1] in ptrnames:
        n = p.next()[1]
        p.expect('='); p.expect_id('v'); p.expect('['); p.expect_id('nd')
        k = 0
        if p.isop('+'):
            p.next()
            k = p.small_int()
        p.expect(']'); p.expect(';')
        ctx['ptrs'][n] = k
    # ---- block loop
    p.expect_id('for'); p.expect('('); p.expect_id('i'); p.expect('=')
    if p.small_int() != 0:
        raise Unsupported('block loop does not start at 0')
    p.expect(';'); p.expect_id('i'); p.expect('<'); p.expect_id('size'); p.expect(';')
    p.expect_id('i'); p.expect('+=')
    step = p.small_int()
    p.expect(')'); p.expect('{')
    if step <= 0:
        raise Unsupported('step %d' % step)
    init, bodyl, fini = [], [], []
    loop = None
    while not p.isop('}'):
        if p.peek()[0] == 'eof':
            raise Unsupported('unterminated block loop')
        if p.isid('for'):
            if loop is not None:
                raise Unsupported('two disk loops')
            p.next(); p.expect('('); p.expect_id('d'); p.expect('='); p.expect_id('l')
            frm = 0
            if p.isop('-'):
                p.next()
                frm = p.small_int()
            p.expect(';'); p.expect_id('d')
            if p.isop('>='):
                p.next()
                lo = p.small_int()
            elif p.isop('>'):
                p.next()
                lo = p.small_int() + 1
            else:
                raise Unsupported('disk loop condition %r' % p.show())
            p.expect(';')
            if p.isop('--'):
                p.next(); p.expect_id('d')
            else:
                p.expect_id('d'); p.expect('--')
            p.expect(')'); p.expect('{')
            ctx['in_loop'] = True
            while not p.isop('}'):
                if p.peek()[0] == 'eof':
                    raise Unsupported('unterminated disk loop')
                bodyl += p.assignment()
            p.next()
            ctx['in_loop'] = False
            loop = (frm, lo)
        else:
            (init if loop is None else fini).extend(p.assignment())
    p.next()
    if p.peek()[0] != 'eof':
        raise Unsupported('code after the block loop: %r' % p.show())
    if loop is None:
        raise Unsupported('no disk loop')
    if any(s[0] == 'SStore' for s in init + bodyl + fini) is False:
        raise Unsupported('no store')
    uses_tables = 'EMulGen' in repr(init + bodyl + fini)
    if uses_tables and ('gfmul' in badmacros or 'gfgen' in badmacros or 'raid_gfmul' in badmacros or 'raid_gfgen' in badmacros):
        raise Unsupported('gfmul/gfgen of raid/internal.h do not have their known definitions')
    return {'w': ctx['w'], 'step': step, 'nvars': len(ctx['vars']), 'helpers': helpers, 'init': init,
            'from': loop[0], 'lo': loop[1], 'body': bodyl, 'fini': fini,
            'names': dict((v, k) for k, v in ctx['vars'].items()), 'ptrs': dict(ctx['ptrs']), 'hnames': hnames}


ACCESS_BY_W = {1: 'v_8', 4: 'v_32', 8: 'v_64'}


# ------------------------------------------------------------------------------------------------
def c_expr(e):
    k = e[0]
    if k == 'EVar':
        return '(EVar %d)' % e[1]
    if k == 'EConst':
        return '(EConst %d)' % e[1]
    if k == 'ELoad':
        return '(ELoad %s %d)' % (e[1], e[2])
    if k in ('EXor', 'EAnd', 'ESub'):
        return '(%s %s %s)' % (k, c_expr(e[1]), c_expr(e[2]))
    if k in ('EShl', 'EShr'):
        return '(%s %s %d)' % (k, c_expr(e[1]), e[2])
    if k == 'ECall':
        return '(ECall %d %s)' % (e[1], c_expr(e[2]))
    if k == 'EMulGen':
        return '(EMulGen %s %d %s)' % (c_expr(e[1]), e[2], e[3])
    raise AssertionError(k)


def c_stmt(s):
    if s[0] == 'SAssign':
        return 'SAssign %d %s' % (s[1], c_expr(s[2]))
    return 'SStore %d %d %s' % (s[1], s[2], c_expr(s[3]))


def c_list(items, ind='     '):
    if not items:
        return '[]'
    return '[' + (';\n' + ind + ' ').join(items) + ']'


def c_helper(h):
    return '{| h_w := %d; h_body := %s; h_ret := %d |}' % (
        h['w'], c_list(['(%d%%nat, %s)' % (x, c_expr(e)) for x, e in h['body']], '         '), h['ret'])


def c_prog(f):
    return ('{| wbytes := %d; step := %d; nvars := %d;\n     helpers := %s;\n     chunk_init := %s;\n     loop_from := %d; loop_lo := %d;\n'
            '     loop_body := %s;\n     chunk_fini := %s |}') % (
        f['w'], f['step'], f['nvars'], c_list([c_helper(h) for h in f['helpers']]), c_list([c_stmt(s) for s in f['init']]),
        f['from'], f['lo'], c_list([c_stmt(s) for s in f['body']]), c_list([c_stmt(s) for s in f['fini']]))


def coq_string(s):
    return '"' + s.replace('"', "'").replace('\n', ' ')[:300] + '"'


def translate(snap):
    rd = lambda f: strip_comments(open(os.path.join(snap, 'raid', f)).read())
    msgs = []
    try:
        gf = rd('gf.h')
        internal = rd('internal.h')
        bad = check_macros(gf, internal)
    except OSError as e:
        gf, internal, bad = '', '', ['v_8', 'v_32', 'v_64', 'gfmul', 'gfgen']
        msgs.append('UNSUPPORTED raid/gf.h: %s' % e)
    out = ['(* GENERATED by harness/gen/intc.py from raid/int.c, raid/intz.c, raid/gf.h -- do not edit. *)',
           'From Coq Require Import NArith List String.', 'From Snap.Raid Require Import GenModel.',
           'From Snap.Simd Require Import SimdDefs.', 'From Snap.IntC Require Import IntDefs.',
           'Import ListNotations.', 'Local Open Scope N_scope.', '']
    reasons = []
    for fname, cfile, g in FUNCS:
        try:
            f = parse_function(rd(cfile), fname, gf, bad)
            names = ' '.join('%d=%s' % kv for kv in sorted(f['names'].items()))
            ptrs = ' '.join('%s=parity%d' % kv for kv in sorted(f['ptrs'].items(), key=lambda kv: kv[1]))
            out.append('(* %s  (raid/%s): locals %s; pointers %s; helpers %s *)' % (fname, cfile, names, ptrs, ' '.join(f['hnames']) or '-'))
            out.append('Definition %s : option prog := Some\n  %s.\n' % (fname, c_prog(f)))
        except Unsupported as e:
            msgs.append('UNSUPPORTED %s: %s' % (fname, e))
            reasons.append((fname, str(e)))
            out.append('(* %s: outside the recognised shape: %s *)' % (fname, str(e).replace('*)', '* )')))
            out.append('Definition %s : option prog := None.\n' % fname)
        except OSError as e:
            msgs.append('UNSUPPORTED %s: %s' % (fname, e))
            reasons.append((fname, str(e)))
            out.append('Definition %s : option prog := None.\n' % fname)
    out.append('Definition all_int_progs : list (string * genfn * option prog) :=\n  [' +
               ';\n   '.join('("%s"%%string, %s, %s)' % (fname, g, fname) for fname, cfile, g in FUNCS) + '].\n')
    out.append('Definition int_untranslated : list (string * string) :=\n  [' +
               ';\n   '.join('("%s"%%string, %s%%string)' % (n, coq_string(r)) for n, r in reasons) + '].')
    return '\n'.join(out) + '\n', msgs


def main(snap, outp):
    s, msgs = translate(snap)
    for m in msgs:
        print(m)
    try:
        if open(outp).read() == s:
            return
    except FileNotFoundError:
        pass
    os.makedirs(os.path.dirname(outp), exist_ok=True)
    open(outp, 'w').write(s)


if __name__ == '__main__':
    main(sys.argv[1], sys.argv[2])
