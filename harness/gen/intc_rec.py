#!/usr/bin/env python3
"""Translator: the portable decoders raid_rec1_int8, raid_rec2_int8, raid_recX_int8 (raid/int.c) and raid_rec2of2_int8
(raid/raid.c) -> Coq (Gen/IntRecProgs.v), values of Snap.IntC.IntRecDefs.iprog.

Works on the token stream (harness/gen/intc.py's tokenizer), so layout and comments do not matter.
  * The C part of a decoder -- declarations, the fast-path delegation, G[j*N+k] = A(ip[j], id[k]); raid_invert(G, V, N)
    (V = inv(G) for rec1), T[j][k] = table(V[j*N+k]), raid_delta_gen(N, id, ip, nd, size, vv) -- is only RECOGNISED
    (token-for-token; declarations in any order); it is the hand model of coq/Raid/RecModel.v.
  * The pointer set-up  p = v[nd + ip[K]]; pa = v[id[K]]; ...  is parsed: it decides which p[K] / pa[K] a name means.
  * The byte loop `for (i = 0; i < size; ++i) { ... }` is TRANSLATED statement by statement (see IntRecDefs.v).
  * raid_rec1of1, raid_delta_gen (raid/raid.c: pointer permutations around raid_gen, modelled at the value level by
    RecModel.rec1of1_col / delta_col) and the inline helpers inv, pow2, table, A of raid/gf.h are compared
    token-for-token with their known text: `recognised_<name> : bool`.
Anything else: `UNSUPPORTED <function>: <why>` and `None` / `false` (a broken obligation), never a guess.

usage: intc_rec.py <snapshot dir (containing raid/)> <output .v>"""
import re, sys, os
sys.path.insert(0, os.path.dirname(os.path.abspath(__file__)))
from intc import Unsupported, strip_comments, tokenize, match_brace

PROGS = [('raid_rec1_int8', 'int.c', 'KRec1'), ('raid_rec2_int8', 'int.c', 'KRec2'), ('raid_recX_int8', 'int.c', 'KRecX'),
         ('raid_rec2of2_int8', 'raid.c', 'KRec2of2')]


def ts(t):
    return str(t[1])


def toks(c):
    return [ts(t) for t in tokenize(c)]


class Cur:
    def __init__(self, tk):
        self.t = tk
        self.i = 0

    def peek(self, k=0):
        return self.t[self.i + k] if self.i + k < len(self.t) else '<eof>'

    def take(self, c):
        """literal C text, token for token"""
        w = toks(c) if isinstance(c, str) else c
        if self.t[self.i:self.i + len(w)] == w:
            self.i += len(w)
            return True
        return False

    def need(self, c, what=None):
        if not self.take(c):
            raise Unsupported('%s: expected `%s`, found `%s`' % (what or 'C part differs from the modelled shape', c, self.show()))

    def show(self):
        return ' '.join(self.t[self.i:self.i + 10])

    def eof(self):
        return self.i >= len(self.t)

    def ident(self):
        x = self.peek()
        if not re.fullmatch(r'[A-Za-z_]\w*', x):
            raise Unsupported('expected an identifier, found `%s`' % self.show())
        self.i += 1
        return x

    def number(self):
        x = self.peek()
        if not re.fullmatch(r'\d+', x):
            raise Unsupported('expected an integer literal, found `%s`' % self.show())
        self.i += 1
        return int(x)


def take_decls(cur, allowed):
    """declarations in any order, each exactly once"""
    left = list(allowed)
    progress = True
    while progress and left:
        progress = False
        for d in left:
            if cur.take(d):
                left.remove(d)
                progress = True
                break
    if left:
        raise Unsupported('declarations: expected `%s`, found `%s`' % (left[0], cur.show()))


DECLS = {
    'KRec1': ['uint8_t **v = (uint8_t **)vv;', 'uint8_t *p;', 'uint8_t *pa;', 'const uint8_t *T;', 'uint8_t G;', 'uint8_t V;', 'size_t i;'],
    'KRec2': ['uint8_t **v = (uint8_t **)vv;', 'uint8_t *p;', 'uint8_t *pa;', 'uint8_t *q;', 'uint8_t *qa;', 'const int N = 2;',
              'const uint8_t *T[N][N];', 'uint8_t G[N * N];', 'uint8_t V[N * N];', 'size_t i;', 'int j, k;'],
    'KRecX': ['uint8_t **v = (uint8_t **)vv;', 'uint8_t *p[RAID_PARITY_MAX];', 'uint8_t *pa[RAID_PARITY_MAX];',
              'const uint8_t *T[RAID_PARITY_MAX][RAID_PARITY_MAX];', 'uint8_t G[RAID_PARITY_MAX * RAID_PARITY_MAX];',
              'uint8_t V[RAID_PARITY_MAX * RAID_PARITY_MAX];', 'size_t i;', 'int j, k;'],
    'KRec2of2': ['uint8_t **v = (uint8_t **)vv;', 'size_t i;', 'uint8_t *p;', 'uint8_t *pa;', 'uint8_t *q;', 'uint8_t *qa;', 'const uint8_t *T[2];'],
}
FAST = {'KRec1': 'if (ip[0] == 0) { raid_rec1of1(id, nd, size, vv); return; }',
        'KRec2': 'if (ip[0] == 0 && ip[1] == 1) { raid_rec2of2_int8(id, ip, nd, size, vv); return; }'}
SETUP = {
    'KRec1': ['G = A(ip[0], id[0]);', 'V = inv(G);', 'T = table(V);', 'raid_delta_gen(1, id, ip, nd, size, vv);'],
    'KRec2': ['for (j = 0; j < N; ++j) for (k = 0; k < N; ++k) G[j * N + k] = A(ip[j], id[k]);', 'raid_invert(G, V, N);',
              'for (j = 0; j < N; ++j) for (k = 0; k < N; ++k) T[j][k] = table(V[j * N + k]);', 'raid_delta_gen(2, id, ip, nd, size, vv);'],
    'KRecX': ['for (j = 0; j < nr; ++j) for (k = 0; k < nr; ++k) G[j * nr + k] = A(ip[j], id[k]);', 'raid_invert(G, V, nr);',
              'for (j = 0; j < nr; ++j) for (k = 0; k < nr; ++k) T[j][k] = table(V[j * nr + k]);', 'raid_delta_gen(nr, id, ip, nd, size, vv);',
              'for (j = 0; j < nr; ++j) { p[j] = v[nd + ip[j]]; pa[j] = v[id[j]]; }'],
    'KRec2of2': ['T[0] = table(inv(pow2(id[1] - id[0]) ^ 1));', 'T[1] = table(inv(pow2(id[0]) ^ pow2(id[1])));',
                 'raid_delta_gen(2, id, ip, nd, size, vv);'],
}
NOF = {'KRec1': 1, 'KRec2': 2, 'KRecX': None, 'KRec2of2': 2}
PARAMS = {'KRec1': 'int nr, int *id, int *ip, int nd, size_t size, void **vv', 'KRec2': 'int nr, int *id, int *ip, int nd, size_t size, void **vv',
          'KRecX': 'int nr, int *id, int *ip, int nd, size_t size, void **vv', 'KRec2of2': 'int *id, int *ip, int nd, size_t size, void **vv'}


def pointer_setup(cur, kind, ctx):
    """NAME = v[nd + ip[K]];  NAME = v[id[K]];   (rec2of2: NAME = v[nd]; NAME = v[nd + K];)"""
    n = NOF[kind]
    names = {'KRec1': ['p', 'pa'], 'KRec2': ['p', 'pa', 'q', 'qa'], 'KRec2of2': ['p', 'pa', 'q', 'qa']}[kind]
    while cur.peek() in names and cur.peek(1) == '=':
        nm = cur.ident()
        if nm in ctx['pp'] or nm in ctx['ppa']:
            raise Unsupported('pointer %s assigned twice' % nm)
        cur.need('= v [')
        if cur.take('id ['):
            k = cur.number()
            cur.need('] ] ;')
            ctx['ppa'][nm] = k
        else:
            cur.need('nd')
            if kind == 'KRec2of2':
                k = 0
                if cur.take('+'):
                    k = cur.number()
                cur.need('] ;')
            else:
                cur.need('+ ip [')
                k = cur.number()
                cur.need('] ] ;')
            ctx['pp'][nm] = k
        if k >= n:
            raise Unsupported('pointer %s set from index %d (N = %d)' % (nm, k, n))
    for nm in names:
        if nm not in ctx['pp'] and nm not in ctx['ppa']:
            raise Unsupported('pointer %s is not set before the byte loop (found `%s`)' % (nm, cur.show()))


class Body:
    """the statements of the byte loop"""

    def __init__(self, cur, kind, ctx):
        self.c, self.kind, self.ctx = cur, kind, ctx
        self.vars = {}
        self.arr = None
        self.loops = []

    def index(self):
        """idx inside [ ] of p / pa / PD: literal or loop variable"""
        x = self.c.peek()
        if x in ('j', 'k'):
            if x not in self.loops:
                raise Unsupported('index %s outside its loop' % x)
            self.c.i += 1
            return 'IJ' if x == 'j' else 'IK'
        k = self.c.number()
        if NOF[self.kind] is not None and k >= NOF[self.kind] or k >= 6:
            raise Unsupported('index %d out of range' % k)
        return 'IConst %d' % k

    def block_ref(self):
        """NAME [ i ]  or  NAME [ idx ] [ i ]  for a p / pa pointer -> ('BP'|'BPa', idx)  (cursor after the name)"""
        c = self.c
        nm = c.t[c.i - 1]
        if self.kind == 'KRecX':
            if nm not in ('p', 'pa'):
                raise Unsupported('block %s' % nm)
            c.need('[')
            ix = self.index()
            c.need('] [ i ]', 'subscript of a block must be [i]')
            return ('BP' if nm == 'p' else 'BPa', ix)
        c.need('[ i ]', 'subscript of a block must be [i]')
        if nm in self.ctx['pp']:
            return ('BP', 'IConst %d' % self.ctx['pp'][nm])
        return ('BPa', 'IConst %d' % self.ctx['ppa'][nm])

    def is_block(self, nm):
        return nm in ('p', 'pa') if self.kind == 'KRecX' else (nm in self.ctx['pp'] or nm in self.ctx['ppa'])

    def expr(self):
        a = self.term()
        while self.c.take('^'):
            a = '(BXor %s %s)' % (a, self.term())
        if self.c.peek() in ('&', '|', '+', '-', '*', '/', '%', '<<', '>>', '?', '==', '<', '>'):
            raise Unsupported('operator %s is outside the recognised expression language' % self.c.peek())
        return a

    def term(self):
        c = self.c
        if c.take('('):
            a = self.expr()
            c.need(')')
            return a
        x = c.peek()
        if re.fullmatch(r'\d+', x):
            k = c.number()
            if k > 255:
                raise Unsupported('constant %d does not fit uint8_t' % k)
            return '(BConst %d)' % k
        nm = c.ident()
        if nm == 'T':
            if self.kind == 'KRec1':
                t = 'TAt 0'
            elif self.kind == 'KRec2of2':
                c.need('[')
                a = c.number()
                c.need(']')
                if a >= 2:
                    raise Unsupported('T[%d]' % a)
                t = 'TAt %d' % a
            elif self.kind == 'KRec2':
                c.need('[')
                a = c.number()
                c.need('] [')
                b = c.number()
                c.need(']')
                if a >= 2 or b >= 2:
                    raise Unsupported('T[%d][%d]' % (a, b))
                t = 'TAt %d' % (a * 2 + b)
            else:
                if not (c.take('[ j ] [ k ]') and self.loops == ['j', 'k']):
                    raise Unsupported('table subscript other than T[j][k] inside the j and k loops: `%s`' % c.show())
                t = 'TJK'
            c.need('[')
            a = self.expr()
            c.need(']')
            return '(BTab (%s) %s)' % (t, a)
        if self.is_block(nm):
            k, ix = self.block_ref()
            return '(%s (%s))' % (k, ix)
        if nm == self.arr:
            c.need('[')
            ix = self.index()
            c.need(']')
            return '(BArr (%s))' % ix
        if nm in self.vars:
            if c.peek() in ('[', '('):
                raise Unsupported('%s used as an array or a function' % nm)
            return '(BVar %d)' % self.vars[nm]
        raise Unsupported('identifier %s' % nm)

    def stmt(self):
        c = self.c
        if c.take('for ('):
            var = c.ident()
            if var not in ('j', 'k') or var in self.loops or self.kind != 'KRecX' or (var == 'k' and self.loops != ['j']):
                raise Unsupported('loop over %s not expected here' % var)
            c.need('= 0 ; %s < nr ; ++ %s )' % (var, var), 'loop header')
            self.loops.append(var)
            if c.take('{'):
                body = []
                while not c.take('}'):
                    if c.eof():
                        raise Unsupported('unterminated loop')
                    body += self.stmt()
            else:
                body = self.stmt()
            self.loops.pop()
            return ['%s [%s]' % ('BForJ' if var == 'j' else 'BForK', ';\n        '.join(body))]
        if c.take('uint8_t'):
            nm = c.ident()
            if nm in self.vars or nm == self.arr or self.is_block(nm) or nm in ('T', 'i', 'j', 'k', 'v', 'nr', 'nd', 'id', 'ip', 'size'):
                raise Unsupported('local %s redeclared' % nm)
            if c.take('[ RAID_PARITY_MAX ] ;'):
                if self.arr is not None or self.loops:
                    raise Unsupported('second array / array inside a loop')
                self.arr = nm
                return []
            if len(self.vars) >= 32:
                raise Unsupported('too many locals')
            self.vars[nm] = len(self.vars)
            c.need('=', 'local %s declared without initialiser' % nm)
            e = self.expr()
            c.need(';')
            return ['BSet %d %s' % (self.vars[nm], e)]
        nm = c.ident()
        if self.is_block(nm):
            k, ix = self.block_ref()
            if k != 'BPa':
                raise Unsupported('a parity buffer is written')
            c.need('=')
            e = self.expr()
            c.need(';')
            return ['BStore (%s) %s' % (ix, e)]
        if nm == self.arr:
            c.need('[')
            ix = self.index()
            c.need('] =')
            e = self.expr()
            c.need(';')
            return ['BSetArr (%s) %s' % (ix, e)]
        if nm in self.vars:
            if c.take('^='):
                e = self.expr()
                c.need(';')
                return ['BSet %d (BXor (BVar %d) %s)' % (self.vars[nm], self.vars[nm], e)]
            c.need('=')
            e = self.expr()
            c.need(';')
            return ['BSet %d %s' % (self.vars[nm], e)]
        raise Unsupported('statement `%s`' % ' '.join(c.t[c.i - 1:c.i + 8]))


def translate_function(src, name, kind, ok_units):
    m = re.search(r'\bvoid\s+%s\s*\(([^)]*)\)\s*\{' % name, src)
    if not m:
        raise Unsupported('function not found')
    if toks(m.group(1)) != toks(PARAMS[kind]):
        raise Unsupported('parameter list `%s`' % m.group(1))
    body = src[m.end() - 1:match_brace(src, m.end() - 1)][1:-1]
    cur = Cur(toks(body))
    take_decls(cur, DECLS[kind])
    if kind in ('KRec1', 'KRec2'):
        cur.need('( void ) nr ;')
    fast = False
    if kind in FAST:
        cur.need(FAST[kind], 'fast-path delegation')
        fast = True
    ctx = {'pp': {}, 'ppa': {}}
    for s in SETUP[kind]:
        cur.need(s)
    if kind != 'KRecX':
        pointer_setup(cur, kind, ctx)
    cur.need('for ( i = 0 ; i < size ; ++ i ) {', 'byte loop header')
    b = Body(cur, kind, ctx)
    stmts = []
    while not cur.take('}'):
        if cur.eof():
            raise Unsupported('unterminated byte loop')
        stmts += b.stmt()
    if not cur.eof():
        raise Unsupported('code after the byte loop: `%s`' % cur.show())
    need = {'KRec1': ['inv', 'table', 'A', 'raid_delta_gen', 'raid_rec1of1'], 'KRec2': ['table', 'A', 'raid_delta_gen'],
            'KRecX': ['table', 'A', 'raid_delta_gen'], 'KRec2of2': ['inv', 'pow2', 'table', 'raid_delta_gen']}[kind]
    for u in need:
        if not ok_units.get(u):
            raise Unsupported('%s (used by the C part) does not have its known text' % u)
    return '{| i_kind := %s; i_fast := %s;\n     i_body := [%s] |}' % (kind, 'true' if fast else 'false', ';\n      '.join(stmts))


# ---- units compared token for token ---------------------------------------------------------------------------------
UNITS = {
    'inv': ('gf.h', 'static __always_inline uint8_t inv(uint8_t v) { BUG_ON(v == 0); return gfinv[v]; }'),
    'pow2': ('gf.h', 'static __always_inline uint8_t pow2(int v) { BUG_ON(v < 0 || v > 254); return gfexp[v]; }'),
    'table': ('gf.h', 'static __always_inline const uint8_t *table(uint8_t v) { return gfmul[v]; }'),
    'A': ('gf.h', 'static __always_inline uint8_t A(int p, int d) { return gfgen[p][d]; }'),
    'raid_rec1of1': ('raid.c', '''void raid_rec1of1(int *id, int nd, size_t size, void **v) { void *p; void *pa;
        p = v[nd]; pa = v[id[0]]; v[id[0]] = p; v[nd] = pa; raid_gen(nd, 1, size, v); v[id[0]] = pa; v[nd] = p; }'''),
    'raid_delta_gen': ('raid.c', '''void raid_delta_gen(int nr, int *id, int *ip, int nd, size_t size, void **v) {
        void *p[RAID_PARITY_MAX]; void *pa[RAID_PARITY_MAX]; int i, j; int np; void *latest;
        np = ip[nr - 1] + 1; latest = v[id[nr - 1]];
        for (i = 0, j = 0; i < np; ++i) { p[i] = v[nd + i];
            if (ip[j] == i) { BUG_ON(j >= nr); pa[j] = v[id[j]]; v[id[j]] = raid_zero_block; v[nd + i] = pa[j]; ++j; }
            else { v[nd + i] = latest; } }
        BUG_ON(j != nr); raid_gen(nd, np, size, v);
        for (j = 0; j < nr; ++j) v[id[j]] = pa[j];
        for (i = 0; i < np; ++i) v[nd + i] = p[i]; }'''),
}
MACROS = [('gfmul', 'raid_gfmul'), ('gfinv', 'raid_gfinv'), ('gfexp', 'raid_gfexp'), ('gfgen', 'raid_gfgen')]


def unit_ok(src, name, text):
    """the definition of <name> in src equals text token for token"""
    m = re.search(r'(?:static\s+__always_inline\s+(?:const\s+)?\w+\s*\*?\s*|void\s+)%s\s*\([^)]*\)\s*\{' % name, src)
    if not m:
        return False
    return toks(src[m.start():match_brace(src, m.end() - 1)]) == toks(text)


def translate(snap):
    def rd(f):
        try:
            return strip_comments(open(os.path.join(snap, 'raid', f)).read())
        except OSError:
            return ''
    srcs = {f: rd(f) for f in ('int.c', 'raid.c', 'gf.h', 'internal.h')}
    msgs = []
    ok_units = {}
    macros_ok = all(re.search(r'^#\s*define\s+%s\s+%s\s*$' % (a, b), srcs['internal.h'], re.M) for a, b in MACROS)
    for u, (f, text) in UNITS.items():
        try:
            ok_units[u] = unit_ok(srcs[f], u, text) and (macros_ok or f != 'gf.h')
        except Unsupported as e:
            ok_units[u] = False
        if not ok_units[u]:
            msgs.append('UNSUPPORTED %s: raid/%s does not define it with the known text%s' % (u, f, '' if macros_ok or f != 'gf.h' else ' (table macros of internal.h)'))
    out = ['(* GENERATED by harness/gen/intc_rec.py from raid/int.c, raid/raid.c, raid/gf.h -- do not edit. *)',
           'From Coq Require Import NArith List String.', 'From Snap.Simd Require Import RecDefs.',
           'From Snap.IntC Require Import IntRecDefs.', 'Import ListNotations.', 'Local Open Scope N_scope.', '']
    reasons = []
    for name, f, kind in PROGS:
        try:
            out.append('Definition %s : option iprog := Some\n  %s.\n' % (name, translate_function(srcs[f], name, kind, ok_units)))
        except Unsupported as e:
            msgs.append('UNSUPPORTED %s: %s' % (name, e))
            reasons.append((name, str(e)))
            out.append('(* %s: outside the recognised shape: %s *)' % (name, str(e).replace('*)', '* )').replace('(*', '( *')))
            out.append('Definition %s : option iprog := None.\n' % name)
    for u in ('raid_rec1of1', 'raid_delta_gen'):
        out.append('Definition recognised_%s : bool := %s.' % (u, 'true' if ok_units[u] else 'false'))
        if not ok_units[u]:
            reasons.append((u, 'raid/raid.c does not define it with the known text'))
    out.append('')
    out.append('Definition all_int_rec_progs : list (string * option iprog) :=\n  [' +
               ';\n   '.join('("%s"%%string, %s)' % (n, n) for n, f, k in PROGS) + '].\n')
    out.append('Definition int_rec_untranslated : list (string * string) :=\n  [' +
               ';\n   '.join('("%s"%%string, "%s"%%string)' % (n, r.replace('"', "'").replace('\n', ' ')[:300]) for n, r in reasons) + '].')
    return '\n'.join(out) + '\n', msgs


def main(snap, outp):
    s, msgs = translate(snap)
    for m in msgs:
        print(m)
    try:
        if open(outp).read() == s:
            return
    except FileNotFoundError:
        pass
    os.makedirs(os.path.dirname(outp), exist_ok=True)
    open(outp, 'w').write(s)


if __name__ == '__main__':
    main(sys.argv[1], sys.argv[2])
