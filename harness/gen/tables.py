#!/usr/bin/env python3
"""Translator: raid/tables.c -> Coq (Gen/Tables.v).  Deliberately dumb: finds each
`const uint8_t ... raid_<name>[dims] = { ... };` and flattens the hex bytes in source order."""
import re, sys

def parse(src):
    out = {}
    for m in re.finditer(r'const\s+uint8_t\s+__aligned\(256\)\s+raid_(\w+)((?:\[\d+\])+)\s*=\s*\{(.*?)\n\};', src, re.S):
        name, dims, body = m.group(1), m.group(2), m.group(3)
        dims = [int(x) for x in re.findall(r'\[(\d+)\]', dims)]
        body = re.sub(r'/\*.*?\*/', '', body, flags=re.S)
        vals = [int(x, 16) for x in re.findall(r'0x([0-9a-fA-F]+)', body)]
        out[name] = (dims, vals)
    return out

def rows(dims, vals):
    """tables whose innermost declared dimension is 256 but hold fewer initialisers per row
    (gfvandermonde[3][256], gfcauchy[6][256] hold 251 resp. 251) are zero padded by C."""
    n = 1
    for d in dims: n *= d
    if len(vals) == n:
        return vals
    inner = dims[-1]
    outer = n // inner
    if len(vals) % outer != 0:
        raise SystemExit("UNSUPPORTED table shape %r with %d values" % (dims, len(vals)))
    per = len(vals) // outer
    res = []
    for r in range(outer):
        res += vals[r*per:(r+1)*per] + [0]*(inner-per)
    return res

def main(path, outp):
    t = parse(open(path).read())
    need = ['gfmul', 'gfexp', 'gfinv', 'gfvandermonde', 'gfcauchy', 'gfcauchypshufb', 'gfmulpshufb']
    lines = ["(* GENERATED from raid/tables.c by harness/gen/tables.py -- do not edit *)",
             "From Coq Require Import NArith List.", "Import ListNotations.", "Local Open Scope N_scope.", ""]
    for n in need:
        if n not in t:
            raise SystemExit("UNSUPPORTED: table %s not found" % n)
        dims, vals = t[n]
        flat = rows(dims, vals)
        lines.append("(* dims %s, %d initialisers in source *)" % (dims, len(vals)))
        lines.append("Definition %s_dims : list N := [%s]." % (n, "; ".join(map(str, dims))))
        # one row per value of the first index (a single 65536-element list overflows coqc's stack);
        # one-dimensional tables are a single row
        rl = len(flat) // dims[0] if len(dims) > 1 else len(flat)
        body = []
        for i in range(0, len(flat), rl):
            body.append("[" + ";".join(map(str, flat[i:i+rl])) + "]")
        lines.append("Definition %s_rows : list (list N) := [\n%s]." % (n, ";\n".join(body)))
        lines.append("")
    s = "\n".join(lines) + "\n"
    try:
        if open(outp).read() == s:
            return
    except FileNotFoundError:
        pass
    open(outp, 'w').write(s)

if __name__ == '__main__':
    main(sys.argv[1], sys.argv[2])
