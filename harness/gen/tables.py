#!/usr/bin/env python3
"""Translator: raid/tables.c -> Coq (Gen/Tables.v).  Deliberately dumb: finds each
`const uint8_t ... raid_<name>[dims] = { ... };` and flattens the hex bytes in source order."""
import re, sys

def _nested(body):
    """parse a C brace initialiser (numbers and nested braces only) into nested python lists"""
    toks = re.findall(r'\{|\}|0x[0-9a-fA-F]+|\d+', body)
    pos = 0

    def lst():
        nonlocal pos
        out = []
        while pos < len(toks):
            t = toks[pos]
            if t == '{':
                pos += 1
                out.append(lst())
            elif t == '}':
                pos += 1
                return out
            else:
                pos += 1
                out.append(int(t, 16) if t.startswith('0x') else int(t))
        return out
    return lst()


def _fill(node, dims):
    """C semantics: missing trailing initialisers at any level are zero"""
    if len(dims) == 1:
        if any(isinstance(x, list) for x in node) or len(node) > dims[0]:
            raise SystemExit("UNSUPPORTED initialiser shape")
        return node + [0] * (dims[0] - len(node))
    if any(not isinstance(x, list) for x in node) or len(node) > dims[0]:
        raise SystemExit("UNSUPPORTED initialiser shape")
    n = 1
    for d in dims[1:]:
        n *= d
    out = []
    for x in node:
        out += _fill(x, dims[1:])
    return out + [0] * (n * (dims[0] - len(node)))


def parse(src):
    out = {}
    for m in re.finditer(r'const\s+uint8_t\s+__aligned\(256\)\s+raid_(\w+)((?:\[\d+\])+)\s*=\s*\{(.*?)\n\};', src, re.S):
        name, dims, body = m.group(1), m.group(2), m.group(3)
        dims = [int(x) for x in re.findall(r'\[(\d+)\]', dims)]
        body = re.sub(r'/\*.*?\*/', '', body, flags=re.S)
        body = re.sub(r'#.*', '', body)
        out[name] = (dims, _fill(_nested(body), dims))
    return out


def rows(dims, vals):
    return vals


def main(path, outp):
    t = parse(open(path).read())
    need = ['gfmul', 'gfexp', 'gfinv', 'gfvandermonde', 'gfcauchy', 'gfcauchypshufb', 'gfmulpshufb']
    lines = ["(* GENERATED from raid/tables.c by harness/gen/tables.py -- do not edit *)",
             "From Coq Require Import NArith List.", "Import ListNotations.", "Local Open Scope N_scope.", ""]
    for n in need:
        if n not in t:
            raise SystemExit("UNSUPPORTED: table %s not found" % n)
        dims, vals = t[n]
        flat = rows(dims, vals)
        lines.append("(* dims %s *)" % (dims,))
        lines.append("Definition %s_dims : list N := [%s]." % (n, "; ".join(map(str, dims))))
        # one row per value of the first index (a single 65536-element list overflows coqc's stack);
        # one-dimensional tables are a single row
        rl = len(flat) // dims[0] if len(dims) > 1 else len(flat)
        body = []
        for i in range(0, len(flat), rl):
            body.append("[" + ";".join(map(str, flat[i:i+rl])) + "]")
        lines.append("Definition %s_rows : list (list N) := [\n%s]." % (n, ";\n".join(body)))
        lines.append("")
    s = "\n".join(lines) + "\n"
    try:
        if open(outp).read() == s:
            return
    except FileNotFoundError:
        pass
    open(outp, 'w').write(s)

if __name__ == '__main__':
    main(sys.argv[1], sys.argv[2])
